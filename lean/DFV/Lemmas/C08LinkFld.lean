import DFV.Lemmas.C08LinkC07
/-! C08 helper lemmas, part 14: the FIELD-level operations of the C07 model (`selFld`, `getItem`,
`padFld`, `resample`) and of the shared rotation model (`T.rotate90F`, C12) hand to the constructor
a value array and a validity array that are ONE mapping operation `MapOp` applied to the operand's
two arrays. -/
namespace DFV.C08
open DFV

theorem mkFld_ok (m : Mesh) (f g : Fld) (data : NDA (List Rat)) (valid : NDA Bool) (h : C07.mkFld m f data valid = .ok g) :
    g.valid = valid ∧ g.data = data ∧ g.mesh = m ∧ valid.shape = m.n ∧ data.shape = m.n := by
  unfold C07.mkFld at h
  split at h
  · cases h
  · rename_i hc
    simp only [not_or, Decidable.not_not] at hc
    simp only [Except.ok.injEq] at h; subst h
    exact ⟨rfl, rfl, rfl, hc.2.1, hc.1⟩

theorem indexOf_go_lt (x : String) : ∀ (xs : List String) (k0 k : Nat), indexOf?.go x xs k0 = some k → k < k0 + xs.length := by
  intro xs
  induction xs with
  | nil => intro k0 k h; simp [indexOf?.go] at h
  | cons y ys ih =>
    intro k0 k h
    simp only [indexOf?.go] at h
    split at h
    · simp only [Option.some.injEq] at h; subst h; simp
    · have := ih (k0 + 1) k h
      simp only [List.length_cons]; omega

theorem dim2index_lt (r : Region) (d : String) (a : Nat) (h : r.dim2index d = .ok a) : a < r.dims.length := by
  unfold Region.dim2index at h
  split at h
  · rename_i i hi
    simp only [Except.ok.injEq] at h; subst h
    have := indexOf_go_lt d r.dims 0 i hi
    omega
  · cases h

theorem selConvert_lt (m : Mesh) (dim : String) (arg : C07.SelArg) (ai : Nat × C07.SelIdx)
    (h : C07.selConvert m dim arg = .ok ai) : ai.1 < m.region.dims.length := by
  unfold C07.selConvert at h
  split at h
  · cases h
  · rename_i a ha
    have hlt := dim2index_lt _ _ _ ha
    cases arg with
    | bad => cases h
    | point x =>
      simp only at h
      split at h
      · cases h
      · simp only [Except.ok.injEq] at h; subst h; exact hlt
    | range x y =>
      simp only at h
      split at h
      · cases h
      · split at h
        · cases h
        · simp only [Except.ok.injEq] at h; subst h; exact hlt
    | centre =>
      simp only at h
      split at h
      · cases h
      · simp only [Except.ok.injEq] at h; subst h; exact hlt

/-- `Field.sel` -/
theorem selFld_link (f g : Fld) (dim : String) (arg : C07.SelArg) (h : C07.selFld f dim arg = .ok (.field g))
    (hv : f.valid.shape.length = f.mesh.region.dims.length) (hd : f.data.shape.length = f.mesh.region.dims.length) :
    ∃ op : MapOp,
      g.valid.shape = (op.apply f.valid false).shape ∧ g.data.shape = (op.apply f.data []).shape ∧
      ∀ j, (inRange g.valid.shape j = true → g.valid.get j = (op.apply f.valid false).get j) ∧
           (inRange g.data.shape j = true → g.data.get j = (op.apply f.data []).get j) := by
  unfold C07.selFld at h
  split at h
  · cases h
  · rename_i ai hai
    have ha := selConvert_lt _ _ _ _ hai
    split at h
    · split at h
      · split at h <;> cases h
      · cases h
    · rename_i m hm
      split at h
      · cases h
      · rename_i g' hg'
        simp only [Except.ok.injEq, C07.SelOut.field.injEq] at h; subst h
        obtain ⟨e1, e2, _, _, _⟩ := mkFld_ok _ _ _ _ _ hg'
        obtain ⟨s1, g1⟩ := selData_link f.valid ai.1 ai.2 false (by rw [hv]; exact ha)
        obtain ⟨s2, g2⟩ := selData_link f.data ai.1 ai.2 [] (by rw [hd]; exact ha)
        refine ⟨selOp ai.1 ai.2, by rw [e1]; exact s1, by rw [e2]; exact s2, fun j => ⟨fun hj => ?_, fun hj => ?_⟩⟩
        · rw [e1] at hj ⊢; exact g1 j hj
        · rw [e2] at hj ⊢; exact g2 j hj

/-- `field[region]` / `field["name"]` -/
theorem getItem_link (f g : Fld) (item : C07.Item) (h : C07.getItem f item = .ok g) :
    ∃ lo : List Nat,
      g.valid.shape = ((MapOp.crop lo (tab f.valid.shape.length fun b => lo.getD b 0 + g.mesh.n.getD b 0)).apply f.valid false).shape ∧
      g.data.shape = ((MapOp.crop lo (tab f.data.shape.length fun b => lo.getD b 0 + g.mesh.n.getD b 0)).apply f.data []).shape ∧
      ∀ j, g.valid.get j = ((MapOp.crop lo (tab f.valid.shape.length fun b => lo.getD b 0 + g.mesh.n.getD b 0)).apply f.valid false).get j ∧
           g.data.get j = ((MapOp.crop lo (tab f.data.shape.length fun b => lo.getD b 0 + g.mesh.n.getD b 0)).apply f.data []).get j := by
  unfold C07.getItem at h
  split at h
  · cases h
  · rename_i sm hsm
    split at h
    · cases h
    · split at h
      · cases h
      · rename_i imin himin
        obtain ⟨e1, e2, e3, e4, e5⟩ := mkFld_ok _ _ _ _ _ h
        have shape_eq : ∀ {α} (x : NDA α) (fill : α), (C07.sliceBlock x imin sm.n).shape = sm.n →
            (C07.sliceBlock x imin sm.n).shape
              = ((MapOp.crop imin (tab x.shape.length fun b => imin.getD b 0 + sm.n.getD b 0)).apply x fill).shape := by
          intro α x fill hs
          have hl : sm.n.length = x.shape.length := by
            rw [← hs]; exact tab_length _ _
          rw [hs]
          show sm.n = tab x.shape.length fun b => (tab x.shape.length fun b => imin.getD b 0 + sm.n.getD b 0).getD b 0 - imin.getD b 0
          refine eq_tab_of_getD _ _ _ 0 hl fun i hi => ?_
          rw [getD_tab _ _ _ _ hi]; omega
        refine ⟨imin, ?_, ?_, fun j => ⟨?_, ?_⟩⟩
        · rw [e1, e3]; exact shape_eq f.valid false e4
        · rw [e2, e3]; exact shape_eq f.data [] e5
        · rw [e1, e3]; rfl
        · rw [e2, e3]; rfl

/-- `Field.pad` -/
theorem padFld_link (f g : Fld) (pw : List C07.PadW) (mode : C07.PadMode) (h : C07.padFld f pw mode = .ok g)
    (hs : f.data.shape = f.valid.shape) (hpos : ∀ b, b < f.valid.shape.length → 0 < f.valid.shape.getD b 0) :
    ∃ w : List (Nat × Nat), w.length = f.valid.shape.length ∧
      g.valid.shape = ((MapOp.pad (padModeOf mode) w).apply f.valid false).shape ∧
      g.data.shape = ((MapOp.pad (padModeOf mode) w).apply f.data (List.replicate f.nvdim 0)).shape ∧
      ∀ j, g.valid.get j = ((MapOp.pad (padModeOf mode) w).apply f.valid false).get j ∧
           g.data.get j = ((MapOp.pad (padModeOf mode) w).apply f.data (List.replicate f.nvdim 0)).get j := by
  unfold C07.padFld at h
  split at h
  · cases h
  · rename_i d hd
    split at h
    · cases h
    · split at h
      · cases h
      · rename_i m hm
        obtain ⟨e1, e2, _, _, _⟩ := mkFld_ok _ _ _ _ _ h
        obtain ⟨s1, g1⟩ := padNDA_link mode (C07.widthOf d) false f.valid hpos
        obtain ⟨s2, g2⟩ := padNDA_link mode (C07.widthOf d) (List.replicate f.nvdim 0) f.data (by rw [hs]; exact hpos)
        refine ⟨padWidths f.valid.shape (C07.widthOf d), tab_length _ _, by rw [e1]; exact s1, ?_, fun j => ⟨?_, ?_⟩⟩
        · rw [e2, s2, hs]
        · rw [e1]; exact g1 j
        · rw [e2, g2 j, hs]

/-- `Field.resample` -/
theorem resample_link (f g : Fld) (n : List Int) (h : C07.resample f n = .ok g)
    (hv : f.valid.shape = f.mesh.n) (hd : f.data.shape = f.mesh.n) (hl : f.mesh.n.length = f.mesh.ndim)
    (hpos : ∀ a, a < f.mesh.ndim → 0 < f.mesh.nAt a) (hE : ∀ a, a < f.mesh.ndim → 0 < f.mesh.region.edge a) :
    g.mesh.n = n.map Int.toNat ∧
    g.valid.shape = ((MapOp.resample g.mesh.n).apply f.valid false).shape ∧
    g.data.shape = ((MapOp.resample g.mesh.n).apply f.data []).shape ∧
    ∀ j, inRange g.mesh.n j = true →
      g.valid.get j = ((MapOp.resample g.mesh.n).apply f.valid false).get j ∧
      g.data.get j = ((MapOp.resample g.mesh.n).apply f.data []).get j := by
  unfold C07.resample at h
  split at h
  · cases h
  · split at h
    · cases h
    · split at h
      · cases h
      · rename_i m hm
        split at h
        · cases h
        · obtain ⟨e1, e2, e3, _, _⟩ := mkFld_ok _ _ _ _ _ h
          have hmk : m.region = f.mesh.region ∧ m.n = n.map Int.toNat ∧ m.n.length = m.ndim := by
            unfold Mesh.mkN? at hm
            split at hm
            · cases hm
            · rename_i hlen
              split at hm
              · cases hm
              · split at hm
                · cases hm
                · simp only [Except.ok.injEq] at hm; subst hm
                  exact ⟨rfl, rfl, by simp only [List.length_map, ne_eq, Decidable.not_not] at hlen ⊢; exact hlen⟩
          obtain ⟨s1, g1⟩ := resampleNDA_link f.mesh m f.valid false hmk.1 hv hl hmk.2.2 hpos hE
          obtain ⟨s2, g2⟩ := resampleNDA_link f.mesh m f.data [] hmk.1 hd hl hmk.2.2 hpos hE
          rw [e3]
          refine ⟨hmk.2.1, by rw [e1]; exact s1, by rw [e2]; exact s2, fun j hj => ⟨?_, ?_⟩⟩
          · rw [e1]; exact g1 j hj
          · rw [e2]; exact g2 j hj

/-- `Field.rotate90` (copy and in place; the shared rotation model of C12/C13): the validity is
`np.rot90` of the operand's — literally the mapping operation `rot` — and the values are the same
`rot90` of the value array followed by the rotation of the two in-plane components -/
theorem rotate90F_link (f r g : Fld) (a1 a2 : String) (k : Int) (ref : Option (List Rat)) (inplace : Bool)
    (h : T.rotate90F f a1 a2 k ref inplace = .ok (r, g)) :
    ∃ i1 i2 : Nat, f.mesh.region.dim2index a1 = .ok i1 ∧ f.mesh.region.dim2index a2 = .ok i2 ∧
      g.valid = (MapOp.rot i1 i2 k).apply f.valid false ∧
      (∃ turn : List Rat → List Rat, g.data = ((MapOp.rot i1 i2 k).apply f.data []).map turn) ∧
      (inplace = true → r = g) ∧ (inplace = false → r = f) := by
  unfold T.rotate90F at h
  split at h
  · cases h
  · cases h
  · cases h
  · rename_i m' i1 i2 _ hi1 hi2
    refine ⟨i1, i2, hi1, hi2, ?_⟩
    split at h
    · split at h
      · rename_i c1 c2 _ _
        simp only [Except.ok.injEq, Prod.mk.injEq] at h
        obtain ⟨hr, hg⟩ := h
        subst hg
        refine ⟨rfl, ⟨fun v => T.rotVec v c1 c2 k, rfl⟩, fun hi => ?_, fun hi => ?_⟩
        · subst hi; simp only [if_true] at hr; exact hr.symm
        · subst hi; simpa using hr.symm
      · cases h
    · simp only [Except.ok.injEq, Prod.mk.injEq] at h
      obtain ⟨hr, hg⟩ := h
      subst hg
      refine ⟨rfl, ⟨id, ?_⟩, fun hi => ?_, fun hi => ?_⟩
      · show T.rot90 f.data i1 i2 k = NDA.map id (T.rot90 f.data i1 i2 k)
        rfl
      · subst hi; simp only [if_true] at hr; exact hr.symm
      · subst hi; simpa using hr.symm

end DFV.C08
