import DFV.Lemmas.C03x
/-! C03 helper lemmas, part y: elementwise trees read entry by entry — the component lists of
`evalCell` are the tree of scalars `scalarAt` at every component, for every nesting depth
(induction over trees), with NumPy broadcasting at every leaf position. -/
namespace DFV.C03
open DFV

/-- component `c` of a component list under broadcasting (a one-element list is repeated) -/
def compAt (xs : List GQ) (c : Nat) : GQ := xs.getD (if xs.length = 1 then 0 else c) GQ.zero

theorem binCell_elem (env : Env) (b : BinOp) (hb : isElem b = true) (xs ys : List GQ) :
    binCell env b xs ys = bz (binFn b) xs ys := by
  cases b <;> simp [isElem] at hb <;> rfl

theorem liftOk_of_elementwise (n : List Nat) (e : Expr) (h : e.elementwise = true) : LiftOk n e := by
  induction e with
  | leaf k => trivial
  | opd o => trivial
  | un u e ih => exact ih h
  | bin b l r ihl ihr =>
    simp only [Expr.elementwise, Bool.and_eq_true] at h
    refine ⟨ihl h.1.2, ihr h.2, ?_⟩
    intro hc
    rcases hc with rfl | rfl <;> simp [isElem] at h

/-! ## compatibility of the operand widths behind every elementwise step -/

/-- an accepted elementwise step ⇒ the component lists of its operands can be broadcast -/
theorem applyBin_compat_elem (env : Env) (b : BinOp) (hb : isElem b = true) (n : List Nat) (l r : Val) (g : CF)
    (cl cr : List Nat → List GQ) (vl vr : List Nat → Bool)
    (hl : ValCells n l cl vl) (hr : ValCells n r cr vr)
    (h : applyBin env b l r = .ok (.fld g)) :
    ∀ i, inRange n i = true → Compat (cl i).length (cr i).length := by
  by_cases hu : isUfuncBin b = true
  · have h' : ufunc2 (binFn b) (isPow b) l r = .ok g := by
      cases b <;> simp [isUfuncBin] at hu <;> simp only [applyBin] at h <;> exact wrap_ok h
    exact ufunc2_compat _ _ n l r g cl cr vl vr hl hr h'
  · have hu' : isUfuncBin b = false := by simpa using hu
    cases l with
    | fld f =>
      have hf : Cells n f cl vl := hl
      have h' : applyOperator (binFn b) (isPow b) f r = .ok g := by
        cases b <;> simp [isUfuncBin] at hu' <;> simp [isElem] at hb <;>
          simp only [applyBin, forwardOp] at h <;> exact wrap_ok h
      exact (applyOperator_val_cells _ _ n f g r cl cr vl vr hf hr h').2.2
    | raw o =>
      cases r with
      | raw o2 => cases b <;> simp [isUfuncBin] at hu' <;> simp [applyBin] at h
      | fld f =>
        have hf : Cells n f cr vr := hr
        have hraw : ValCells n (.raw o) cl vl := hl
        by_cases hnp : isNp o = true
        · have h' : ufunc2 (binFn b) (isPow b) (.raw o) (.fld f) = .ok g := by
            cases b <;> simp [isUfuncBin] at hu' <;> simp [isElem] at hb <;>
              simp only [applyBin, hnp, if_true] at h <;> exact wrap_ok h
          exact ufunc2_compat _ _ n _ _ g cl cr vl vr hl hr h'
        · have hnp' : isNp o = false := by simpa using hnp
          have h' : reflectedOp b o f = .ok g := by
            cases b <;> simp [isUfuncBin] at hu' <;>
              simp only [applyBin, hnp', Bool.false_eq_true, if_false] at h <;> exact wrap_ok h
          intro i hi
          apply compat_symm
          cases b <;> simp [isUfuncBin] at hu' <;> simp [isElem] at hb <;> simp only [reflectedOp] at h'
          case add => exact (applyOperator_val_cells _ _ n f g _ cr cl vr vl hf hraw h').2.2 i hi
          case mul => exact (applyOperator_val_cells _ _ n f g _ cr cl vr vl hf hraw h').2.2 i hi
          case div => exact (applyOperator_val_cells _ _ n f g _ cr cl vr vl hf hraw h').2.2 i hi
          case sub =>
            cases hn : mapField GQ.neg id false f with
            | error e => simp [hn] at h'
            | ok f' =>
              simp only [hn] at h'
              obtain ⟨hf', _, _⟩ := mapField_cells _ _ _ n f f' cr vr hf hn
              have := (applyOperator_val_cells _ _ n f' g _ _ cl vr vl hf' hraw h').2.2 i hi
              simpa only [List.length_map] using this
          case pow => cases h'

/-- every binary node of the tree combines operands whose component lists can be broadcast -/
def WidthOk (env : Env) (n : List Nat) : Expr → Prop
  | .leaf _ => True
  | .opd _ => True
  | .un _ e => WidthOk env n e
  | .bin _ l r => WidthOk env n l ∧ WidthOk env n r ∧
      ∀ i, inRange n i = true → Compat (evalCell env l i).length (evalCell env r i).length

/-- **accepted elementwise trees are width-consistent at every node** (induction over trees) -/
theorem widthOk_of_eval (env : Env) (n : List Nat) (hwf : ∀ f ∈ env.fields, CFwf f ∧ f.mesh.n = n) :
    ∀ (e : Expr) (v : Val), e.elementwise = true → evalF env e = .ok v → WidthOk env n e := by
  intro e
  induction e with
  | leaf k => intros; trivial
  | opd o => intros; trivial
  | un u e ih =>
    intro v hel h
    simp only [evalF] at h
    cases he : evalF env e with
    | error er => simp [he] at h
    | ok ve => exact ih ve hel he
  | bin b l r ihl ihr =>
    intro v hel h
    simp only [Expr.elementwise, Bool.and_eq_true] at hel
    simp only [evalF] at h
    cases hl : evalF env l with
    | error er => simp [hl] at h
    | ok vl =>
      simp only [hl] at h
      cases hr : evalF env r with
      | error er => simp [hr] at h
      | ok vr =>
        simp only [hr] at h
        obtain ⟨g, hg⟩ := applyBin_fld _ _ _ _ _ h
        subst hg
        obtain ⟨hcl, _⟩ := eval_good env n hwf l vl (liftOk_of_elementwise n l hel.1.2) hl
        obtain ⟨hcr, _⟩ := eval_good env n hwf r vr (liftOk_of_elementwise n r hel.2) hr
        exact ⟨ihl vl hel.1.2 hl, ihr vr hel.2 hr,
          applyBin_compat_elem env b hel.1.1 n vl vr g _ _ _ _ hcl hcr h⟩

/-! ## component lists are the tree of scalars -/

theorem compAt_bz (fn : GQ → GQ → GQ) (xs ys : List GQ) (c : Nat)
    (hc : c < (bz fn xs ys).length ∨ (bz fn xs ys).length = 1) :
    compAt (bz fn xs ys) c = fn (compAt xs c) (compAt ys c) := by
  have hlen := bz_length fn xs ys
  unfold compAt
  by_cases h1 : (bz fn xs ys).length = 1
  · rw [if_pos h1]
    have hx : xs.length = 1 := by
      by_contra hx
      rw [if_neg hx] at hlen
      exact hx (by rw [← hlen, h1])
    have hy : ys.length = 1 := by
      rw [if_pos hx] at hlen
      rw [← hlen, h1]
    rw [if_pos hx, if_pos hy]
    unfold bz
    rw [getD_tab _ _ _ _ (by rw [if_pos hx, hy]; exact Nat.one_pos)]
    simp only [hx, hy, if_true]
  · rw [if_neg h1]
    have hc' : c < (bz fn xs ys).length := by
      rcases hc with hc | hc
      · exact hc
      · exact absurd hc h1
    unfold bz
    rw [getD_tab _ _ _ _ (by rw [← hlen]; exact hc')]

theorem compAt_map (g : GQ → GQ) (xs : List GQ) (c : Nat) (hc : c < xs.length ∨ xs.length = 1) :
    compAt (xs.map g) c = g (compAt xs c) := by
  unfold compAt
  rw [List.length_map]
  have hidx : (if xs.length = 1 then 0 else c) < xs.length := by
    by_cases h1 : xs.length = 1
    · rw [if_pos h1, h1]; exact Nat.one_pos
    · rw [if_neg h1]
      rcases hc with hc | hc
      · exact hc
      · exact absurd hc h1
  simp [List.getD_eq_getElem?_getD, List.getElem?_eq_getElem hidx]

theorem lastDim_field (f : CF) (hw : CFwf f) : lastDim f.data.shape = f.nvdim := by
  rw [hw.1]; exact lastDim_concat _ _

/-- **component lists = tree of scalars** (induction over trees): for a width-consistent
elementwise tree, component `c` of the list `evalCell env e i` — the one element when the list
has length 1 — is the tree evaluated on numbers at index `i ++ [c]` -/
theorem evalCell_scalar (env : Env) (n : List Nat) (hwf : ∀ f ∈ env.fields, CFwf f ∧ f.mesh.n = n)
    (i : List Nat) (hi : inRange n i = true) :
    ∀ (e : Expr), e.elementwise = true → WidthOk env n e →
      ∀ c, (c < (evalCell env e i).length ∨ (evalCell env e i).length = 1) →
        compAt (evalCell env e i) c = scalarAt env e (i ++ [c]) := by
  intro e
  induction e with
  | leaf k =>
    intro _ _ c hc
    simp only [evalCell, scalarAt] at hc ⊢
    cases hk : env.fields[k]? with
    | none =>
      rw [hk] at hc
      simp at hc
    | some f =>
      rw [hk] at hc
      simp only at hc ⊢
      obtain ⟨hw, hn⟩ := hwf f (List.mem_of_getElem? hk)
      rw [cellOf_length] at hc
      rw [← opdCell_field f hw i (by rw [hn]; exact hi)]
      unfold compAt
      rw [opdCell_length, lastDim_field f hw]
      have := opdCell_getD f.data i c (by rw [lastDim_field f hw]; exact hc.symm)
      rw [lastDim_field f hw] at this
      exact this
  | opd o =>
    intro _ _ c hc
    cases o with
    | num z k np => simp [evalCell, rawCell, scalarAt, compAt]
    | arr a k np =>
      simp only [evalCell, rawCell, scalarAt] at hc ⊢
      rw [opdCell_length] at hc
      unfold compAt
      rw [opdCell_length]
      exact opdCell_getD a i c hc.symm
  | un u e ih =>
    intro hel hw c hc
    simp only [evalCell, List.length_map] at hc
    simp only [evalCell, scalarAt]
    rw [compAt_map _ _ _ hc, ih hel hw c hc]
  | bin b l r ihl ihr =>
    intro hel hw c hc
    simp only [Expr.elementwise, Bool.and_eq_true] at hel
    obtain ⟨hwl, hwr, hcomp⟩ := hw
    have hbc := binCell_elem env b hel.1.1 (evalCell env l i) (evalCell env r i)
    simp only [evalCell, scalarAt]
    rw [hbc]
    simp only [evalCell] at hc
    rw [hbc] at hc
    rw [compAt_bz _ _ _ _ hc]
    have hlen := bz_length (binFn b) (evalCell env l i) (evalCell env r i)
    have hcp := hcomp i hi
    have hcl : c < (evalCell env l i).length ∨ (evalCell env l i).length = 1 := by
      by_cases h1 : (evalCell env l i).length = 1
      · exact Or.inr h1
      · rw [if_neg h1] at hlen
        rw [hlen] at hc
        exact hc
    have hcr : c < (evalCell env r i).length ∨ (evalCell env r i).length = 1 := by
      by_cases h1 : (evalCell env r i).length = 1
      · exact Or.inr h1
      · by_cases h2 : (evalCell env l i).length = 1
        · rw [if_pos h2] at hlen
          rw [hlen] at hc
          exact hc
        · rw [if_neg h2] at hlen
          rw [hlen] at hc
          have : (evalCell env l i).length = (evalCell env r i).length := by
            unfold Compat at hcp; omega
          rw [← this]
          exact hc
    rw [ihl hel.1.2 hwl c hcl, ihr hel.2 hwr c hcr]

end DFV.C03
