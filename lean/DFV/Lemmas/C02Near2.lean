import DFV.Lemmas.C02Nearest
/-! C02 helper lemmas, part 12: nearest-centre selection (ties to the larger index) is the floor
index of `point2index` — away from the upper face of the source region. -/
namespace DFV.C02
open DFV DFV.Mesh

theorem nat_lt_of_mul_lt (J K : Nat) (c : Rat) (hc : 0 < c) (h : (J : Rat) * c < ((K : Rat) + 1) * c) : J < K + 1 := by
  by_contra hn
  have : ((K : Rat) + 1) ≤ (J : Rat) := by exact_mod_cast (by omega : K + 1 ≤ J)
  nlinarith

/-- nearest centre with ties to the larger index = floor index, for a coordinate of the source
edge below its upper end -/
theorem nearest_eq_indexAx (sm : Mesh) (hm : sm.Inv) (a : Nat) (ha : a < sm.ndim) (x : Rat)
    (hlo : sm.region.lo a ≤ x) (hhi : x < sm.region.hi a) :
    nearestFn (fun k => (sm.cells.getD a []).getD k 0) x (sm.nAt a - 1) = sm.indexAx a x := by
  have hn := inv_n_pos sm hm a ha
  have hr := inv_lo_lt_hi sm hm a ha
  have hc := cell_pos sm a hn hr
  obtain ⟨k1, k2, k3⟩ := nearest_contains sm hm a ha x hlo hhi.le
  obtain ⟨j1, j2, j3⟩ := indexAx_contains sm a x hn hr hlo hhi.le
  have j3' : x < sm.region.lo a + ((sm.indexAx a x : Rat) + 1) * sm.cellAt a := by
    rcases j3 with j3 | ⟨_, j4⟩
    · exact j3
    · exact absurd j4 (ne_of_lt hhi)
  have hcov := cells_cover sm a hn
  unfold Region.edge at hcov
  rw [nearestFn_congr _ (fun k => sm.centreAx a (k : Nat)) x _ (fun k hk => cells_getD sm hm a ha k (by omega))] at k1 k2 k3 ⊢
  set K := nearestFn (fun k => sm.centreAx a (k : Nat)) x (sm.nAt a - 1) with hK
  set J := sm.indexAx a x with hJ
  by_cases hx : x < sm.region.lo a + ((K : Rat) + 1) * sm.cellAt a
  · have h1 : J < K + 1 := nat_lt_of_mul_lt J K _ hc (by linarith)
    have h2 : K < J + 1 := nat_lt_of_mul_lt K J _ hc (by linarith)
    omega
  · exfalso
    have hxe : x = sm.region.lo a + ((K : Rat) + 1) * sm.cellAt a := le_antisymm k3 (not_lt.mp hx)
    by_cases hlast : K + 1 < sm.nAt a
    · have htie := nearestFn_tie (fun k => sm.centreAx a (k : Nat)) x (sm.nAt a - 1) (K + 1) (by omega) (by
        rw [← hK]
        simp only [absR_eq_abs]
        unfold centreAx
        rw [hxe]
        push_cast
        have e1 : sm.region.lo a + ((K : Rat) + 1 + 1 / 2) * sm.cellAt a - (sm.region.lo a + ((K : Rat) + 1) * sm.cellAt a)
            = sm.cellAt a / 2 := by ring
        have e2 : sm.region.lo a + ((K : Rat) + 1 / 2) * sm.cellAt a - (sm.region.lo a + ((K : Rat) + 1) * sm.cellAt a)
            = -(sm.cellAt a / 2) := by ring
        rw [e1, e2, abs_neg])
      rw [← hK] at htie
      omega
    · have hKn : K + 1 = sm.nAt a := by omega
      have : ((K : Rat) + 1) = (sm.nAt a : Rat) := by exact_mod_cast hKn
      rw [this] at hxe
      linarith

/-- a cell centre lies strictly below the upper end of the edge -/
theorem centreAx_lt_hi (m : Mesh) (a : Nat) (i : Nat) (hi : i < m.nAt a) (hr : m.region.lo a < m.region.hi a) :
    m.centreAx a (i : Int) < m.region.hi a := by
  have hc := cell_pos m a (by omega) hr
  have hcov := cells_cover m a (by omega)
  unfold Region.edge at hcov
  unfold centreAx
  have h1 : ((i : Int) : Rat) = (i : Rat) := by push_cast; rfl
  have h2 : (i : Rat) + 1 ≤ (m.nAt a : Rat) := by exact_mod_cast hi
  rw [h1]
  nlinarith

/-- the source cell selected for target cell `i` is the one `point2index` finds for the centre of
cell `i` -/
theorem nearestIdx_eq_point2index (sm m : Mesh) (hm : m.Inv) (hs : sm.Inv) (hnd : sm.ndim = m.ndim)
    (hin : ∀ a, a < m.ndim → sm.region.lo a ≤ m.region.lo a ∧ m.region.hi a ≤ sm.region.hi a)
    (i : List Nat) (hi : inRange m.n i = true) :
    sm.point2index (m.centre i) = .ok (nearestIdx sm m i) := by
  obtain ⟨hil, hib⟩ := (inRange_iff m.n i).mp hi
  have hlen : m.n.length = m.ndim := hm.2.1
  have hcen : ∀ a, a < m.ndim → (m.centre i).getD a 0 = m.centreAx a (i.getD a 0 : Nat) := by
    intro a ha; simp only [centre]; rw [getD_tab _ _ _ _ ha]
  rw [point2index_exact sm (m.centre i) (by simp [centre, hnd])]
  · congr 1
    unfold nearestIdx
    rw [hnd]
    apply tab_congr
    intro a ha
    have hia : i.getD a 0 < m.nAt a := hib a (by omega)
    have hr := inv_lo_lt_hi m hm a ha
    have hb := centreAx_in m a _ hia hr
    have hlt := centreAx_lt_hi m a _ hia hr
    rw [hcen a ha, cells_getD m hm a ha _ hia]
    exact (nearest_eq_indexAx sm hs a (by omega) _ (le_trans (hin a ha).1 hb.1)
      (lt_of_lt_of_le hlt (hin a ha).2)).symm
  · intro a ha
    have ha' : a < m.ndim := by omega
    have hia : i.getD a 0 < m.nAt a := hib a (by omega)
    have hr := inv_lo_lt_hi m hm a ha'
    have hb := centreAx_in m a _ hia hr
    rw [hcen a ha']
    exact ⟨le_trans (hin a ha').1 hb.1, le_trans hb.2 (hin a ha').2⟩

end DFV.C02
