import DFV.Lemmas.C02Geom
/-! C02 helper lemmas, part 3: subregions that are unions of cells — their slices and their
submesh. -/
namespace DFV.C02
open DFV DFV.Mesh

/-- `r` is the union of the cells `k1 a ≤ i_a < k2 a` of mesh `m` (what the subregion setter
of `Mesh` guarantees, C14) -/
structure AlignedSub (m : Mesh) (r : Region) (k1 k2 : Nat → Nat) : Prop where
  ndim : r.ndim = m.ndim
  box : ∀ a, a < m.ndim → k1 a < k2 a ∧ k2 a ≤ m.nAt a ∧
    r.lo a = m.region.lo a + (k1 a : Rat) * m.cellAt a ∧
    r.hi a = m.region.lo a + (k2 a : Rat) * m.cellAt a

theorem point2index_centres (m : Mesh) (hm : m.Inv) (k : Nat → Nat) (hk : ∀ a, a < m.ndim → k a < m.nAt a) :
    m.point2index (tab m.ndim fun a => m.centreAx a (k a : Nat)) = .ok (tab m.ndim k) := by
  rw [point2index_exact m _ (by simp)]
  · congr 1
    apply tab_congr
    intro a ha
    rw [getD_tab _ _ _ _ ha, indexAx_centre m a _ (hk a ha) (inv_lo_lt_hi m hm a ha)]
  · intro a ha
    rw [getD_tab _ _ _ _ ha]
    exact centreAx_in m a _ (hk a ha) (inv_lo_lt_hi m hm a ha)

/-- `region2slices` of a union of cells is exactly its index box -/
theorem region2slices_spec (m : Mesh) (hm : m.Inv) (r : Region) (k1 k2 : Nat → Nat)
    (h : AlignedSub m r k1 k2) : region2slices m r = .ok (tab m.ndim k1, tab m.ndim k2) := by
  unfold region2slices
  have e1 : (tab m.ndim fun a => r.lo a + m.cellAt a / 2) = tab m.ndim fun a => m.centreAx a (k1 a : Nat) := by
    apply tab_congr
    intro a ha
    obtain ⟨_, _, h3, _⟩ := h.box a ha
    rw [h3]; unfold centreAx; push_cast; ring
  have e2 : (tab m.ndim fun a => r.hi a - m.cellAt a / 2) =
      tab m.ndim fun a => m.centreAx a ((k2 a - 1 : Nat) : Nat) := by
    apply tab_congr
    intro a ha
    obtain ⟨h1, _, _, h4⟩ := h.box a ha
    rw [h4]; unfold centreAx
    have : ((k2 a - 1 : Nat) : Rat) = (k2 a : Rat) - 1 := by
      rw [Nat.cast_sub (by omega)]; simp
    push_cast
    rw [this]; ring
  rw [e1, e2, point2index_centres m hm k1 (fun a ha => by have := h.box a ha; omega),
    point2index_centres m hm (fun a => k2 a - 1) (fun a ha => by have := h.box a ha; omega)]
  simp only
  congr 2
  apply tab_congr
  intro a ha
  have := h.box a ha
  rw [getD_tab _ _ _ _ ha]; omega

/-- the cell `i` lies in the index box iff its centre lies in the subregion -/
theorem inBox_iff_centre (m : Mesh) (hm : m.Inv) (r : Region) (k1 k2 : Nat → Nat)
    (h : AlignedSub m r k1 k2) (i : List Nat) (hi : inRange m.n i = true) (rest : List Nat) :
    inBox (tab m.ndim k1) (tab m.ndim k2) (i ++ rest) = true ↔
      ∀ a, a < m.ndim → r.lo a ≤ m.centreAx a (i.getD a 0 : Nat) ∧ m.centreAx a (i.getD a 0 : Nat) ≤ r.hi a := by
  obtain ⟨hil, _⟩ := (inRange_iff m.n i).mp hi
  have hlen : m.n.length = m.ndim := hm.2.1
  unfold inBox
  rw [allLt_iff, tab_length]
  constructor
  · intro hb a ha
    have := hb a ha
    rw [getD_tab _ _ _ _ ha, getD_tab _ _ _ _ ha, getD_append_left' _ _ _ _ (by omega)] at this
    simp only [Bool.and_eq_true, decide_eq_true_eq] at this
    obtain ⟨h1, h2, h3, h4⟩ := h.box a ha
    have hc := cell_pos m a (inv_n_pos m hm a ha) (inv_lo_lt_hi m hm a ha)
    rw [h3, h4]; unfold centreAx
    have c1 : (k1 a : Rat) ≤ (i.getD a 0 : Rat) := by exact_mod_cast this.1
    have c2 : (i.getD a 0 : Rat) + 1 ≤ (k2 a : Rat) := by exact_mod_cast this.2
    push_cast
    constructor <;> nlinarith
  · intro hb a ha
    rw [getD_tab _ _ _ _ ha, getD_tab _ _ _ _ ha, getD_append_left' _ _ _ _ (by omega)]
    simp only [Bool.and_eq_true, decide_eq_true_eq]
    obtain ⟨h1, h2, h3, h4⟩ := h.box a ha
    have hc := cell_pos m a (inv_n_pos m hm a ha) (inv_lo_lt_hi m hm a ha)
    have := hb a ha
    rw [h3, h4] at this; unfold centreAx at this
    push_cast at this
    obtain ⟨g1, g2⟩ := this
    have c1 : (k1 a : Rat) < (i.getD a 0 : Rat) + 1 := by
      by_contra hcon; rw [not_lt] at hcon; nlinarith
    have c2 : (i.getD a 0 : Rat) < (k2 a : Rat) := by
      by_contra hcon; rw [not_lt] at hcon; nlinarith
    have c1' : k1 a < i.getD a 0 + 1 := by exact_mod_cast c1
    have c2' : i.getD a 0 < k2 a := by exact_mod_cast c2
    exact ⟨by omega, c2'⟩

end DFV.C02
