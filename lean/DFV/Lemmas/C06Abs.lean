import DFV.Lemmas.C06Hist
/-! Absolute value and order (C06): the spec values of the integrals are monotone in the field,
and the integral of `abs(f)` bounds the absolute value of the integral of `f`. -/
namespace DFV.C06
open DFV

theorem sumTo_le (n : Nat) (f g : Nat → Rat) (h : ∀ i, i < n → f i ≤ g i) : sumTo n f ≤ sumTo n g := by
  induction n with
  | zero => simp [sumTo]
  | succ n ih =>
    simp only [sumTo]
    have := ih (fun i hi => h i (by omega))
    have := h n (by omega)
    linarith

theorem nestSum_le (ns : List Nat) (f g : List Nat → Rat) (h : ∀ i, inRange ns i = true → f i ≤ g i) :
    nestSum ns f ≤ nestSum ns g := by
  induction ns generalizing f g with
  | nil => simp only [nestSum]; exact h [] (by simp [inRange])
  | cons n ns ih =>
    simp only [nestSum]
    apply sumTo_le
    intro x hx
    apply ih
    intro t ht
    exact h (x :: t) (by simp [inRange, hx, ht])

theorem abs_sumTo_le (n : Nat) (f : Nat → Rat) : |sumTo n f| ≤ sumTo n fun i => |f i| := by
  induction n with
  | zero => simp [sumTo]
  | succ n ih =>
    simp only [sumTo]
    exact le_trans (abs_add_le _ _) (by linarith)

theorem abs_nestSum_le (ns : List Nat) (f : List Nat → Rat) : |nestSum ns f| ≤ nestSum ns fun i => |f i| := by
  induction ns generalizing f with
  | nil => simp [nestSum]
  | cons n ns ih =>
    simp only [nestSum]
    refine le_trans (abs_sumTo_le _ _) ?_
    apply sumTo_le
    intro x _
    exact ih _

theorem cget_absF (f : Fld) (i : List Nat) (c : Nat) (hc : c < f.nvdim) :
    cget (absF f).data i c = |cget f.data i c| := by
  simp only [absF, cget]
  rw [getD_tab _ _ _ _ hc, absR_eq_abs]

/-- the spec values are monotone: cell-wise `f ≤ g` (component `c`) gives `ival f ≤ ival g` -/
theorem ival_mono (f g : Fld) (hf : WF f) (hm : g.mesh = f.mesh) (hs : g.data.shape = f.data.shape)
    (c : Nat) (hle : ∀ t, cget f.data t c ≤ cget g.data t c) (dir : Dir) (cum : Bool) (i : List Nat) :
    ival f dir cum i c ≤ ival g dir cum i c := by
  cases dir with
  | none =>
    simp only [ival, hm, hs]
    exact mul_le_mul_of_nonneg_left (nestSum_le _ _ _ fun t _ => hle t) (le_of_lt (dV_pos f.mesh hf.1))
  | name d =>
    simp only [ival, hm]
    cases hax : f.mesh.region.dim2index d with
    | error e => simp
    | ok ax =>
      obtain ⟨haxd, _⟩ := dim2index_ok _ _ _ hax
      have haxlt : ax < f.mesh.ndim := by
        show ax < f.mesh.region.pmin.length
        rw [← hf.1.1.2.2.1]; exact haxd
      have hc := le_of_lt (cell_pos' f.mesh hf.1 ax haxlt)
      simp only
      cases cum with
      | true =>
        simp only [if_true]
        apply mul_le_mul_of_nonneg_left _ hc
        have h1 := sumTo_le (i.getD ax 0) (fun l => cget f.data (setAt i ax l) c) (fun l => cget g.data (setAt i ax l) c)
          (fun l _ => hle _)
        have h2 := hle i
        linarith
      | false =>
        simp only [Bool.false_eq_true, if_false]
        exact mul_le_mul_of_nonneg_left (sumTo_le _ _ _ fun j _ => hle _) hc
  | names ds => simp [ival]
  | other => simp [ival]

/-- triangle inequality for the spec values: `|ival f| ≤ ival (abs f)` -/
theorem ival_abs (f : Fld) (hf : WF f) (c : Nat) (hc : c < f.nvdim) (dir : Dir) (cum : Bool) (i : List Nat) :
    |ival f dir cum i c| ≤ ival (absF f) dir cum i c := by
  have hcg : ∀ t, cget (absF f).data t c = |cget f.data t c| := fun t => cget_absF f t c hc
  have hlm : (absF f).mesh = f.mesh := rfl
  have hls : (absF f).data.shape = f.data.shape := rfl
  cases dir with
  | none =>
    simp only [ival, hlm, hls, hcg]
    rw [abs_mul, abs_of_pos (dV_pos f.mesh hf.1)]
    exact mul_le_mul_of_nonneg_left (abs_nestSum_le _ _) (le_of_lt (dV_pos f.mesh hf.1))
  | name d =>
    simp only [ival, hlm]
    cases hax : f.mesh.region.dim2index d with
    | error e => simp
    | ok ax =>
      obtain ⟨haxd, _⟩ := dim2index_ok _ _ _ hax
      have haxlt : ax < f.mesh.ndim := by
        show ax < f.mesh.region.pmin.length
        rw [← hf.1.1.2.2.1]; exact haxd
      have hcp := cell_pos' f.mesh hf.1 ax haxlt
      simp only
      cases cum with
      | true =>
        simp only [if_true, hcg]
        rw [abs_mul, abs_of_pos hcp]
        apply mul_le_mul_of_nonneg_left _ (le_of_lt hcp)
        refine le_trans (abs_add_le _ _) ?_
        have h1 := abs_sumTo_le (i.getD ax 0) (fun l => cget f.data (setAt i ax l) c)
        have h2 : |cget f.data i c / 2| = |cget f.data i c| / 2 := by
          rw [abs_div]; norm_num
        linarith
      | false =>
        simp only [Bool.false_eq_true, if_false, hcg]
        rw [abs_mul, abs_of_pos hcp]
        exact mul_le_mul_of_nonneg_left (abs_sumTo_le _ _) (le_of_lt hcp)
  | names ds => simp [ival]
  | other => simp [ival]

/-- a successful list lookup means every name is a direction of the region -/
theorem dimIndices_ok_mem (r : Region) (ds : List String) (axes : List Nat) (h : dimIndices r ds = .ok axes) :
    ∀ d ∈ ds, d ∈ r.dims := by
  induction ds generalizing axes with
  | nil => intro d hd; simp at hd
  | cons x xs ih =>
    simp only [dimIndices] at h
    split at h
    · cases h
    · rename_i a ha
      split at h
      · cases h
      · rename_i t ht
        intro d hd
        rcases List.mem_cons.mp hd with rfl | hd
        · exact mem_of_dim2index _ _ _ ha
        · exact ih t ht d hd

/-- distinct names of the mesh that are not all of them are fewer than the dimensions -/
theorem length_lt_of_not_perm (ds dims : List String) (hnd : ds.Nodup) (hmem : ∀ d ∈ ds, d ∈ dims)
    (hnp : ¬ ds.Perm dims) : ds.length < dims.length := by
  have hsub : ds.Subperm dims := List.subperm_of_subset hnd hmem
  have hle := hsub.length_le
  by_contra hc
  exact hnp (hsub.perm_of_length_le (by omega))

end DFV.C06
