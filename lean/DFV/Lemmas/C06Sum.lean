import Mathlib.Tactic.Ring
import Mathlib.Tactic.Linarith
import Mathlib.Tactic.FieldSimp
import DFV.Lemmas.Tab
import DFV.Lemmas.Index
import DFV.Model.C06
/-! Finite-sum algebra for C06: `sumTo`, `cumTo`, `lsum`, `nestSum` (list sums without
`Finset`): congruence, linearity, exchange of two sums, splitting a sum over `n·P` terms
into a double sum (the mixed-radix step), the flat C-order sum as a nested sum. -/
namespace DFV.C06
open DFV

theorem sumTo_congr (n : Nat) (f g : Nat → Rat) (h : ∀ i, i < n → f i = g i) :
    sumTo n f = sumTo n g := by
  induction n with
  | zero => rfl
  | succ n ih =>
    simp only [sumTo]
    rw [ih (fun i hi => h i (by omega)), h n (by omega)]

theorem sumTo_zero (n : Nat) : sumTo n (fun _ => 0) = 0 := by
  induction n with
  | zero => rfl
  | succ n ih => simp only [sumTo, ih]; ring

theorem sumTo_add (n : Nat) (f g : Nat → Rat) :
    sumTo n (fun i => f i + g i) = sumTo n f + sumTo n g := by
  induction n with
  | zero => simp [sumTo]
  | succ n ih => simp only [sumTo, ih]; ring

theorem sumTo_mul_left (n : Nat) (c : Rat) (f : Nat → Rat) :
    sumTo n (fun i => c * f i) = c * sumTo n f := by
  induction n with
  | zero => simp [sumTo]
  | succ n ih => simp only [sumTo, ih]; ring

theorem sumTo_mul_right (n : Nat) (c : Rat) (f : Nat → Rat) :
    sumTo n (fun i => f i * c) = sumTo n f * c := by
  induction n with
  | zero => simp [sumTo]
  | succ n ih => simp only [sumTo, ih]; ring

theorem sumTo_div (n : Nat) (c : Rat) (f : Nat → Rat) :
    sumTo n (fun i => f i / c) = sumTo n f / c := by
  induction n with
  | zero => simp [sumTo]
  | succ n ih => simp only [sumTo, ih]; ring

theorem sumTo_lin (n : Nat) (a b : Rat) (f g : Nat → Rat) :
    sumTo n (fun i => a * f i + b * g i) = a * sumTo n f + b * sumTo n g := by
  rw [sumTo_add, sumTo_mul_left, sumTo_mul_left]

theorem sumTo_const (n : Nat) (c : Rat) : sumTo n (fun _ => c) = (n : Rat) * c := by
  induction n with
  | zero => simp [sumTo]
  | succ n ih => simp only [sumTo, ih]; push_cast; ring

/-- exchange of two finite sums -/
theorem sumTo_comm (n m : Nat) (f : Nat → Nat → Rat) :
    sumTo n (fun i => sumTo m (fun j => f i j)) = sumTo m (fun j => sumTo n (fun i => f i j)) := by
  induction n with
  | zero => simp only [sumTo]; rw [sumTo_zero]
  | succ n ih =>
    simp only [sumTo]
    rw [ih, ← sumTo_add]

theorem sumTo_append (a b : Nat) (f : Nat → Rat) :
    sumTo (a + b) f = sumTo a f + sumTo b (fun r => f (a + r)) := by
  induction b with
  | zero => simp [sumTo]
  | succ b ih =>
    rw [← Nat.add_assoc]
    simp only [sumTo, ih]; ring

/-- a sum over `n·P` consecutive terms is a double sum over quotient and remainder -/
theorem sumTo_prod (n P : Nat) (h : Nat → Nat → Rat) :
    sumTo (n * P) (fun k => h (k / P) (k % P)) = sumTo n fun i => sumTo P fun r => h i r := by
  induction n with
  | zero => simp [sumTo]
  | succ n ih =>
    rw [Nat.succ_mul, sumTo_append, ih]
    simp only [sumTo]
    congr 1
    apply sumTo_congr
    intro r hr
    have hP : 0 < P := by omega
    have h1 : (n * P + r) / P = n := by
      rw [Nat.add_comm, Nat.add_mul_div_right _ _ hP, Nat.div_eq_of_lt hr, Nat.zero_add]
    have h2 : (n * P + r) % P = r := by
      rw [Nat.add_comm, Nat.add_mul_mod_self_right, Nat.mod_eq_of_lt hr]
    rw [h1, h2]

/-- `np.cumsum(x)[k] = x 0 + … + x k` -/
theorem cumTo_eq (x : Nat → Rat) (k : Nat) : cumTo x k = sumTo (k + 1) x := by
  induction k with
  | zero => simp [cumTo, sumTo]
  | succ k ih => simp only [cumTo, ih, sumTo]

theorem lsum_map_range (n : Nat) (f : Nat → Rat) : lsum ((List.range n).map f) = sumTo n f := by
  induction n with
  | zero => rfl
  | succ n ih =>
    rw [List.range_succ, List.map_append]
    have happ : ∀ (xs : List Rat) (y : Rat), lsum (xs ++ [y]) = lsum xs + y := by
      intro xs y
      induction xs with
      | nil => simp [lsum]
      | cons x xs ihx => simp only [List.cons_append, lsum, ihx]; ring
    simp only [List.map_cons, List.map_nil, happ, ih, sumTo]

/-! ## nested sums over a shape -/

theorem nestSum_congr (ns : List Nat) (f g : List Nat → Rat)
    (h : ∀ i, inRange ns i = true → f i = g i) : nestSum ns f = nestSum ns g := by
  induction ns generalizing f g with
  | nil => simp only [nestSum]; exact h [] (by simp [inRange])
  | cons n ns ih =>
    simp only [nestSum]
    apply sumTo_congr
    intro x hx
    apply ih
    intro t ht
    exact h (x :: t) (by simp [inRange, hx, ht])

theorem nestSum_mul_left (ns : List Nat) (c : Rat) (g : List Nat → Rat) :
    nestSum ns (fun i => c * g i) = c * nestSum ns g := by
  induction ns generalizing g with
  | nil => simp [nestSum]
  | cons n ns ih =>
    simp only [nestSum]
    rw [← sumTo_mul_left]
    apply sumTo_congr
    intro x _
    exact ih _

theorem nestSum_add (ns : List Nat) (f g : List Nat → Rat) :
    nestSum ns (fun i => f i + g i) = nestSum ns f + nestSum ns g := by
  induction ns generalizing f g with
  | nil => simp [nestSum]
  | cons n ns ih =>
    simp only [nestSum]
    rw [← sumTo_add]
    apply sumTo_congr
    intro x _
    exact ih _ _

theorem nestSum_sumTo (ns : List Nat) (m : Nat) (h : Nat → List Nat → Rat) :
    nestSum ns (fun t => sumTo m fun j => h j t) = sumTo m fun j => nestSum ns (h j) := by
  induction ns generalizing h with
  | nil => simp [nestSum]
  | cons n ns ih =>
    simp only [nestSum]
    rw [sumTo_comm]
    apply sumTo_congr
    intro x _
    exact ih _

theorem nestSum_const (ns : List Nat) (c : Rat) : nestSum ns (fun _ => c) = (natProd ns : Rat) * c := by
  induction ns with
  | nil => simp [nestSum, natProd]
  | cons n ns ih =>
    simp only [nestSum, natProd, ih, sumTo_const]
    push_cast; ring

theorem sumTo_unflatC (ns : List Nat) (g : List Nat → Rat) :
    sumTo (natProd ns) (fun k => g (unflatC ns k)) = nestSum ns g := by
  induction ns generalizing g with
  | nil => simp [natProd, sumTo, nestSum, unflatC]
  | cons n ns ih =>
    simp only [natProd, nestSum, unflatC]
    rw [sumTo_prod n (natProd ns) (fun i r => g (i :: unflatC ns r))]
    apply sumTo_congr
    intro x _
    exact ih (fun t => g (x :: t))

/-- the sum of the flat C-order buffer is the nested sum over the shape (mixed radix) -/
theorem lsum_indicesC (ns : List Nat) (g : List Nat → Rat) :
    lsum ((indicesC ns).map g) = nestSum ns g := by
  unfold indicesC
  rw [List.map_map, lsum_map_range]
  exact sumTo_unflatC ns g

end DFV.C06
