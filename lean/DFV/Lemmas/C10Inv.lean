import DFV.Lemmas.C10Str
import DFV.Lemmas.C10Series
/-! C10: whatever the reader of the versioned layout returns satisfies the constructors'
invariant `Inv` — for every file, tampered or not (the constructor chain the reader runs
establishes it). -/
namespace DFV.C10
open DFV

/-! ## Except plumbing, inverted -/

theorem bind_eq_ok {α β : Type} (x : M α) (k : α → M β) (b : β) (h : x.bind k = .ok b) :
    ∃ a, x = .ok a ∧ k a = .ok b := by
  cases x with
  | error e => cases h
  | ok a => exact ⟨a, rfl, h⟩

theorem mapE_ok_mem {α β : Type} (f : α → M β) (l : List α) (l' : List β) (h : mapE f l = .ok l') :
    ∀ b ∈ l', ∃ a ∈ l, f a = .ok b := by
  induction l generalizing l' with
  | nil =>
    simp only [mapE] at h
    cases h
    intro b hb; cases hb
  | cons a as ih =>
    simp only [mapE] at h
    obtain ⟨b0, h0, h⟩ := bind_eq_ok _ _ _ h
    obtain ⟨bs, h1, h⟩ := bind_eq_ok _ _ _ h
    cases h
    intro b hb
    rcases List.mem_cons.mp hb with rfl | hb
    · exact ⟨a, List.mem_cons_self, h0⟩
    · obtain ⟨a', ha', hf⟩ := ih bs h1 b hb
      exact ⟨a', List.mem_cons_of_mem _ ha', hf⟩

theorem mapE_ok_keys {α β : Type} (f : String × α → M (String × β)) (l : List (String × α)) (l' : List (String × β))
    (hf : ∀ a b, f a = .ok b → b.1 = a.1) (h : mapE f l = .ok l') : l'.map (fun p => p.1) = l.map (fun p => p.1) := by
  induction l generalizing l' with
  | nil =>
    simp only [mapE] at h
    cases h
    rfl
  | cons a as ih =>
    simp only [mapE] at h
    obtain ⟨b0, h0, h⟩ := bind_eq_ok _ _ _ h
    obtain ⟨bs, h1, h⟩ := bind_eq_ok _ _ _ h
    cases h
    simp only [List.map_cons, hf a b0 h0, ih bs h1]

/-! ## a Python dict has distinct keys -/

theorem mem_dictInsert {α : Type} (d : List (String × α)) (k : String) (v : α) (q : String × α)
    (h : q ∈ dictInsert d k v) : q ∈ d ∨ q = (k, v) := by
  induction d with
  | nil => simp [dictInsert] at h; exact Or.inr h
  | cons p t ih =>
    simp only [dictInsert] at h
    split at h
    · rcases List.mem_cons.mp h with h | h
      · exact Or.inr h
      · exact Or.inl (List.mem_cons_of_mem _ h)
    · rcases List.mem_cons.mp h with h | h
      · exact Or.inl (by rw [h]; exact List.mem_cons_self)
      · rcases ih h with h | h
        · exact Or.inl (List.mem_cons_of_mem _ h)
        · exact Or.inr h

/-- the dict built from a list of pairs holds only pairs of that list -/
theorem mem_dictOf {α : Type} (ps : List (String × α)) (q : String × α) (h : q ∈ dictOf ps) : q ∈ ps := by
  have key : ∀ (ps acc : List (String × α)), q ∈ ps.foldl (fun d p => dictInsert d p.1 p.2) acc → q ∈ acc ∨ q ∈ ps := by
    intro ps
    induction ps with
    | nil => intro acc h; exact Or.inl h
    | cons p t ih =>
      intro acc h
      simp only [List.foldl_cons] at h
      rcases ih _ h with h | h
      · rcases mem_dictInsert _ _ _ _ h with h | h
        · exact Or.inl h
        · right; rw [h]; exact List.mem_cons_self
      · exact Or.inr (List.mem_cons_of_mem _ h)
  rcases key ps [] h with h | h
  · cases h
  · exact h


theorem keys_dictInsert {α : Type} (d : List (String × α)) (k : String) (v : α) :
    (dictInsert d k v).map (fun p => p.1) =
      if (d.map fun p => p.1).contains k then d.map (fun p => p.1) else d.map (fun p => p.1) ++ [k] := by
  induction d with
  | nil => simp [dictInsert]
  | cons p t ih =>
    simp only [dictInsert]
    by_cases hk : p.1 = k
    · simp [hk]
    · rw [if_neg hk]
      simp only [List.map_cons, ih, List.contains_cons]
      have : (k == p.1) = false := by simpa using fun e => hk e.symm
      rw [this, Bool.false_or]
      split <;> simp

theorem hasDup_append_singleton (l : List String) (k : String) (h : hasDup l = false) (hk : l.contains k = false) :
    hasDup (l ++ [k]) = false := by
  rw [hasDup_false_iff_nodup] at h ⊢
  rw [List.nodup_append]
  refine ⟨h, by simp, ?_⟩
  intro a ha b hb
  simp only [List.mem_singleton] at hb
  subst hb
  intro e
  subst e
  have : l.contains a = true := by simpa using ha
  rw [this] at hk; cases hk

theorem hasDup_keys_dictOf {α : Type} (ps : List (String × α)) : hasDup ((dictOf ps).map fun p => p.1) = false := by
  have key : ∀ (ps acc : List (String × α)), hasDup (acc.map fun p => p.1) = false →
      hasDup ((ps.foldl (fun d p => dictInsert d p.1 p.2) acc).map fun p => p.1) = false := by
    intro ps
    induction ps with
    | nil => intro acc h; exact h
    | cons p t ih =>
      intro acc h
      simp only [List.foldl_cons]
      apply ih
      rw [keys_dictInsert]
      split
      · exact h
      · rename_i hc
        exact hasDup_append_singleton _ _ h (by simpa using hc)
  exact key ps [] rfl

/-! ## the region constructor establishes the region invariant -/

theorem dimsOk_ok (n : Nat) (dims : Option (List String)) (d : List String) (h : Region.dimsOk n dims = .ok d) :
    d.length = n ∧ hasDup d = false ∧ (∀ d', dims = some d' → d = d') ∧ (dims = none → d = Region.defaultDims n) := by
  cases dims with
  | none =>
    simp only [Region.dimsOk] at h
    cases h
    exact ⟨defaultDims_length n, hasDup_defaultDims n, (fun _ e => by cases e), fun _ => rfl⟩
  | some d0 =>
    simp only [Region.dimsOk] at h
    split at h
    · cases h
    · rename_i h1
      split at h
      · cases h
      · rename_i h2
        cases h
        exact ⟨by simpa using h1, by simpa using h2, (fun d' e => by cases e; rfl), fun e => by cases e⟩

theorem unitsOk_ok (n : Nat) (units : Option (List String)) (u : List String) (h : Region.unitsOk n units = .ok u) :
    u.length = n ∧ (∀ u', units = some u' → u = u') ∧ (units = none → u = List.replicate n "m") := by
  cases units with
  | none =>
    simp only [Region.unitsOk] at h
    cases h
    exact ⟨by simp, (fun _ e => by cases e), fun _ => rfl⟩
  | some u0 =>
    simp only [Region.unitsOk] at h
    split at h
    · cases h
    · rename_i h1
      cases h
      exact ⟨by simpa using h1, (fun u' e => by cases e; rfl), fun e => by cases e⟩

/-- **`Region.__init__` establishes the region invariant** (for every pair of corner arrays it
accepts, in any order and of any dtype), and stores what it was given -/
theorem init_ok (p1 p2 : NumArr) (dims units : Option (List String)) (tol : Num) (r : TReg)
    (h : TReg.init p1 p2 dims units tol = .ok r) :
    r.Inv ∧ r.pmin = NumArr.minimum p1 p2 ∧ r.pmax = NumArr.maximum p1 p2 ∧ r.tol = tol ∧
    p2.length = p1.length ∧ r.pmin.length = p1.length ∧
    (∀ d, dims = some d → r.dims = d) ∧ (∀ u, units = some u → r.units = u) ∧
    (dims = none → r.dims = Region.defaultDims p1.length) ∧ (units = none → r.units = List.replicate p1.length "m") := by
  unfold TReg.init at h
  split at h
  · cases h
  · rename_i h1
    split at h
    · cases h
    · rename_i h2
      split at h
      · cases h
      · rename_i d hd
        split at h
        · cases h
        · rename_i u hu
          split at h
          · cases h
          · rename_i h3
            cases h
            have hl : p2.length = p1.length := by omega
            obtain ⟨d1, d2, d3, d4⟩ := dimsOk_ok _ _ _ hd
            obtain ⟨u1, u2, u3⟩ := unitsOk_ok _ _ _ hu
            have hne : ∀ a, a < p1.length → p1.vals.getD a 0 ≠ p2.vals.getD a 0 := by
              have : allLt p1.length (fun a => decide (p1.vals.getD a 0 ≠ p2.vals.getD a 0)) = true := by
                simpa using h3
              rw [allLt_iff] at this
              intro a ha
              simpa using this a ha
            refine ⟨?_, rfl, rfl, rfl, hl, NumArr.minimum_length _ _ hl, d3, u2, d4, u3⟩
            rw [TReg.inv_iff]
            simp only
            refine ⟨by rw [NumArr.minimum_length _ _ hl]; omega,
              by rw [NumArr.maximum_length _ _ hl, NumArr.minimum_length _ _ hl],
              by cases p1 <;> cases p2 <;> rfl,
              by rw [NumArr.minimum_length _ _ hl]; exact d1,
              by rw [NumArr.minimum_length _ _ hl]; exact u1, d2, ?_⟩
            intro a ha
            rw [NumArr.minimum_length _ _ hl] at ha
            have hv1 : a < p1.vals.length := by rw [NumArr.vals_length]; exact ha
            have hv2 : a < p2.vals.length := by rw [NumArr.vals_length, hl]; exact ha
            rw [NumArr.minimum_vals, NumArr.maximum_vals]
            simp only [List.getD_eq_getElem?_getD, List.getElem?_zipWith, List.getElem?_eq_getElem hv1,
              List.getElem?_eq_getElem hv2, Option.getD_some]
            have := hne a ha
            simp only [List.getD_eq_getElem?_getD, List.getElem?_eq_getElem hv1, List.getElem?_eq_getElem hv2,
              Option.getD_some] at this
            rcases lt_or_gt_of_ne this with h | h
            · rw [min_eq_left h.le, max_eq_right h.le]; exact h
            · rw [min_eq_right h.le, max_eq_left h.le]; exact h

theorem initKw_ok (p1 p2 : NumArr) (dims units : Option (List String)) (tol : Num) (r : TReg)
    (h : TReg.initKw p1 p2 dims units tol = .ok r) : TReg.init p1 p2 dims units tol = .ok r := by
  unfold TReg.initKw at h
  split at h
  · cases h
  · split at h
    · cases h
    · exact h

/-- a region with ordered corners of one dtype is what `np.minimum` / `np.maximum` return for it -/
theorem inv_min_max (r : TReg) (hr : r.Inv) : NumArr.minimum r.pmin r.pmax = r.pmin ∧ NumArr.maximum r.pmin r.pmax = r.pmax := by
  obtain ⟨_, hl, hk, _, _, _, hlt⟩ := (TReg.inv_iff r).mp hr
  exact NumArr.minimum_maximum_ordered _ _ hk hl hlt

/-! ## the mesh reader -/

/-- a region as `Region(p1=…, p2=…)` builds it: default names, units, tolerance -/
def TReg.isPlain (s : TReg) : Prop :=
  s.dims = Region.defaultDims s.pmin.length ∧ s.units = List.replicate s.pmin.length "m" ∧ s.tol = TReg.defaultTol

theorem plain_toRegion (s : TReg) (hp : s.isPlain) : s.toRegion = plainRegion s.pmin.vals s.pmax.vals := by
  obtain ⟨h1, h2, h3⟩ := hp
  unfold TReg.toRegion plainRegion
  rw [h1, h2, h3, NumArr.vals_length]

theorem subAccept_length (r : Region) (n : List Nat) (s : Region) (h : subAccept r n s = true) :
    s.pmin.length = r.ndim ∧ s.pmax.length = r.ndim := by
  unfold subAccept Region.containsReg Region.containsPt at h
  simp only [Bool.and_eq_true, decide_eq_true_eq] at h
  exact ⟨h.1.1.1, h.1.2.1⟩

/-- the subregion the setter stores for a candidate: its corners, the mesh's names, units, tolerance -/
def restampT (r : TReg) (p : String × TReg) : String × TReg :=
  (p.1, ({ p.2 with dims := r.dims, units := r.units, tol := r.tol } : TReg))

/-- **what the `subregions` setter leaves behind, for ANY (valid) candidate regions**: the names,
the candidates re-stamped, each of them passing the three tests as it is stored -/
theorem setSubs_ok (r : TReg) (hr : r.Inv) (n : List Nat) (subs ss : List (String × TReg))
    (hinv : ∀ p ∈ subs, p.2.Inv) (h : setSubs r n subs = .ok ss) :
    ss.map (fun p => p.1) = subs.map (fun p => p.1) ∧ (∀ p ∈ ss, subInvB r n p.2 = true) ∧
    (∀ p ∈ subs, candOk r n p.2 = true) ∧ ss = subs.map (restampT r) := by
  unfold setSubs at h
  split at h
  · cases h
  · rename_i hall
    have hall' : ∀ p ∈ subs, candOk r n p.2 = true := by
      have : subs.all (fun p => candOk r n p.2) = true := by simpa using hall
      exact List.all_eq_true.mp this
    have hnd : r.toRegion.ndim = r.ndim := by
      show r.pmin.vals.length = r.pmin.length
      rw [NumArr.vals_length]
    have hlen : ∀ p ∈ subs, p.2.pmin.length = r.ndim := by
      intro p hp
      have := hall' p hp
      rw [candOk_eq r hr n p.2 (hinv p hp)] at this
      obtain ⟨a1, _⟩ := subAccept_length _ _ _ this
      have a1' : p.2.pmin.vals.length = r.toRegion.ndim := a1
      rwa [NumArr.vals_length, hnd] at a1'
    have hreb : ∀ p ∈ subs, rebuildSub r p = .ok (restampT r p) := by
      intro p hp
      obtain ⟨h0, hl, hk, _, _, _, hlt⟩ := (TReg.inv_iff p.2).mp (hinv p hp)
      obtain ⟨_, _, _, hd, hu, hdup, _⟩ := (TReg.inv_iff r).mp hr
      have l1 : p.2.pmin.length = r.pmin.length := hlen p hp
      unfold rebuildSub
      rw [init_ordered p.2.pmin p.2.pmax (some r.dims) (some r.units) r.dims r.units r.tol h0 hl hk
        (dimsOk_some _ _ (by rw [l1, hd]) hdup) (unitsOk_some _ _ (by rw [l1, hu])) hlt]
      rfl
    have hss : ss = subs.map (restampT r) := by
      have := mapE_ok_of (rebuildSub r) (restampT r) subs hreb
      rw [this] at h
      cases h
      rfl
    refine ⟨by rw [hss, List.map_map]; rfl, ?_, hall', hss⟩
    intro q hq
    rw [hss] at hq
    simp only [List.mem_map] at hq
    obtain ⟨p, hp, rfl⟩ := hq
    obtain ⟨h0, hl, hk, _, _, _, hlt⟩ := (TReg.inv_iff p.2).mp (hinv p hp)
    have l1 := hlen p hp
    rw [subInv_iff]
    refine ⟨l1, by show p.2.pmax.length = _; rw [hl, l1], hk, rfl, rfl, rfl, fun a ha => hlt a (by rw [l1]; exact ha), ?_⟩
    have hc := hall' p hp
    rw [candOk_eq r hr n p.2 (hinv p hp)] at hc
    have : (restampT r p).2.toRegion =
        { ({ p.2.toRegion with tol := r.tol.val } : Region) with dims := r.dims, units := r.units } := rfl
    rw [this, subAccept_dims_units]
    exact hc

/-- **`_MeshIO_HDF5._h5_load` establishes the mesh invariant**, for every group it accepts -/
theorem meshLoad_inv (h : H5Mesh) (m : TMesh) (hm : meshLoad h = .ok m) : m.Inv := by
  unfold meshLoad at hm
  obtain ⟨r, hr, hm⟩ := bind_eq_ok _ _ _ hm
  obtain ⟨ss, hss, hm⟩ := bind_eq_ok _ _ _ hm
  have hrinv : r.Inv := (init_ok _ _ _ _ _ _ (initKw_ok _ _ _ _ _ _ hr)).1
  -- the candidates are plain regions with distinct names
  have hcand : hasDup (ss.map fun p => p.1) = false ∧ ∀ p ∈ ss, p.2.Inv ∧ p.2.isPlain := by
    cases hs : h.subs with
    | none =>
      rw [hs] at hss
      simp only [subsLoad] at hss
      cases hss
      exact ⟨rfl, fun p hp => by cases hp⟩
    | some s =>
      rw [hs] at hss
      simp only [subsLoad] at hss
      obtain ⟨l, hl, hss⟩ := bind_eq_ok _ _ _ hss
      cases hss
      refine ⟨hasDup_keys_dictOf l, ?_⟩
      intro p hp
      obtain ⟨a, _, hrow⟩ := mapE_ok_mem _ _ _ hl p (mem_dictOf l p hp)
      unfold rowRegion at hrow
      obtain ⟨s', hs', hp'⟩ := bind_eq_ok _ _ _ hrow
      cases hp'
      obtain ⟨hinv, _, _, e3, _, e5, _, _, e6, e7⟩ := init_ok _ _ _ _ _ _ hs'
      exact ⟨hinv, by rw [e5]; exact e6 rfl, by rw [e5]; exact e7 rfl, e3⟩
  unfold TMesh.init at hm
  split at hm
  · cases hm
  · rename_i h1
    split at hm
    · cases hm
    · rename_i h2
      split at hm
      · cases hm
      · rename_i h3
        obtain ⟨ss', hset, hm⟩ := bind_eq_ok _ _ _ hm
        cases hm
        obtain ⟨hnames, hsub, _, _⟩ := setSubs_ok r hrinv _ ss ss' (fun p hp => (hcand.2 p hp).1) hset
        rw [TMesh.inv_iff]
        refine ⟨hrinv, by simpa using h1, ?_, toLower_idem _, by simpa using h3, by rw [hnames]; exact hcand.1, hsub⟩
        intro k hk
        simp only [List.mem_map] at hk
        obtain ⟨j, hj, rfl⟩ := hk
        have : ¬ j ≤ 0 := by
          intro hle
          have : h.n.any (fun k => decide (k ≤ 0)) = true := List.any_eq_true.mpr ⟨j, hj, by simpa using hle⟩
          exact h2 this
        omega

/-! ## the array conversions -/

theorem bcastIdx_length (src tgt : List Nat) : (bcastIdx src tgt).length = natProd tgt := by
  unfold bcastIdx; rw [tab_length]

theorem gather_length (b : DBuf) (idx : List Nat) : (b.gather idx).length = idx.length := by
  cases b <;> simp [DBuf.gather, DBuf.length]

theorem natProd_append_one' (n : List Nat) (k : Nat) : natProd (n ++ [k]) = natProd n * k := by
  induction n with
  | nil => simp [natProd]
  | cons a as ih => simp [natProd, ih, Nat.mul_assoc]

/-- `_as_array` returns an array of the field's shape, whatever (well-formed) array it was given -/
theorem asArray_ok (val d : DArr) (n : List Nat) (k : Nat) (hwf : val.wf) (h : asArray val n k = .ok d) :
    d.shape = n ++ [k] ∧ d.wf := by
  unfold asArray at h
  split at h
  · rename_i h1
    cases h
    obtain ⟨rfl, hs⟩ := h1
    refine ⟨rfl, ?_⟩
    unfold DArr.wf at hwf ⊢
    simp only
    rw [hwf, hs, natProd_append_one', Nat.mul_one]
  · split at h
    · cases h
    · split at h
      · cases h
      · cases h
        refine ⟨rfl, ?_⟩
        unfold DArr.wf
        simp only
        rw [DBuf.upcast_length, gather_length, bcastIdx_length]

theorem asValid_ok (val : Option VArr) (v : VArr) (n : List Nat)
    (hwf : ∀ w, val = some w → w.buf.length = natProd w.shape) (h : asValid val n = .ok v) :
    v.shape = n ∧ v.buf.length = natProd n := by
  unfold asValid at h
  cases val with
  | none =>
    simp only at h
    cases h
    exact ⟨rfl, by simp⟩
  | some w =>
    simp only at h
    split at h
    · rename_i hs
      cases h
      exact ⟨rfl, by rw [hwf w rfl, hs]⟩
    · split at h
      · cases h
      · split at h
        · cases h
        · cases h
          refine ⟨rfl, ?_⟩
          simp only [List.length_map, bcastIdx_length, natProd_append_one', Nat.mul_one]

theorem vdimsSet_ok (k : Nat) (hk : 1 ≤ k) (v v' : Option (List String)) (h : vdimsSet k v = .ok v') :
    VdimsOk k v' := by
  cases v with
  | none =>
    simp only [vdimsSet] at h
    cases h
    exact defaultVdims_inv k hk
  | some l =>
    cases l with
    | nil =>
      simp only [vdimsSet] at h
      cases h
      trivial
    | cons x t =>
      simp only [vdimsSet] at h
      split at h
      · cases h
      · rename_i h1
        split at h
        · cases h
        · rename_i h2
          cases h
          exact ⟨by simp, by simpa using h1, by simpa using h2⟩

/-- **`Field.__init__` establishes the field invariant** on a mesh that has it -/
theorem init_inv (m : TMesh) (hm : m.Inv) (nvdim : Option Int) (value : DArr) (vdims : Option (List String))
    (unit : Option String) (valid : Option VArr) (hwf : value.wf)
    (hvwf : ∀ w, valid = some w → w.buf.length = natProd w.shape) (f : TFld)
    (h : TFld.init m nvdim value vdims unit valid = .ok f) : f.Inv := by
  unfold TFld.init at h
  cases nvdim with
  | none => cases h
  | some k =>
    simp only at h
    split at h
    · cases h
    · rename_i hk
      obtain ⟨d1, hd1, h⟩ := bind_eq_ok _ _ _ h
      obtain ⟨data, hdata, h⟩ := bind_eq_ok _ _ _ h
      obtain ⟨v, hv, h⟩ := bind_eq_ok _ _ _ h
      obtain ⟨vd, hvd, h⟩ := bind_eq_ok _ _ _ h
      cases h
      obtain ⟨_, hwf1⟩ := asArray_ok _ _ _ _ hwf hd1
      obtain ⟨hs2, hwf2⟩ := asArray_ok _ _ _ _ hwf1 hdata
      obtain ⟨hv1, hv2⟩ := asValid_ok _ _ _ hvwf hv
      have hk1 : 1 ≤ k.toNat := by omega
      rw [TFld.inv_iff]
      exact ⟨hm, hk1, hs2, by rw [← hs2]; exact hwf2, hv1, hv2, vdimsSet_ok _ hk1 _ _ hvd⟩

theorem readLoc_wf (ds a : DArr) (loc : Loc) (hwf : ds.wf) (h : readLoc ds loc = .ok a) : a.wf := by
  unfold readLoc at h
  cases loc with
  | all => simp only at h; cases h; exact hwf
  | idx t =>
    simp only at h
    split at h
    · cases h
    · rename_i T rest hsh
      split at h
      · cases h
      · rename_i hr
        cases h
        unfold DArr.wf
        simp only
        have hT : 0 < T := by omega
        apply DBuf.slice_length
        have hl : ds.buf.length = T * natProd rest := by rw [hwf, hsh]; rfl
        rw [hl]
        exact slot_bound T _ _ (slotOf_lt T t hT)

/-- **The reader returns constructor-grade fields only.**  Whatever `_h5_load_field` returns — for
any group, tampered or not, at any location — satisfies `Inv`: region corners ordered and of one
dtype, names distinct, counts positive, boundary condition lower-cased and legal, subregion names
distinct, every subregion re-created with the region's names/units/tolerance and accepted by the
three tests, array and validity of the field's shape, labels absent or `nvdim` distinct names. -/
theorem fieldLoadAt_inv (h : H5Field) (loc : Loc) (f : TFld) (hawf : h.array.wf)
    (hvwf : h.valid.buf.length = natProd h.valid.shape) (hl : fieldLoadAt h loc = .ok f) : f.Inv := by
  unfold fieldLoadAt at hl
  obtain ⟨m, hm, hl⟩ := bind_eq_ok _ _ _ hl
  obtain ⟨vd, _, hl⟩ := bind_eq_ok _ _ _ hl
  obtain ⟨a, ha, hl⟩ := bind_eq_ok _ _ _ hl
  exact init_inv m (meshLoad_inv _ _ hm) _ a vd _ _ (readLoc_wf _ _ _ hawf ha)
    (fun w hw => by cases hw; exact hvwf) f hl

end DFV.C10
