import Mathlib.Tactic.Ring
import Mathlib.Tactic.Linarith
import DFV.Lemmas.Index
import DFV.Model.C11
/-!
C11, transform lemmas over a commutative ring: finite sums, the root-of-unity hypotheses
(`IsRoot`, `Roots` — hypotheses of theorems, not axioms), orthogonality, the n-dimensional
DFT as a sum over the box, linearity, zero frequency, inverse ∘ forward = id.
-/
namespace DFV.C11
open DFV

variable {R : Type} [CommRing R]

theorem powN_eq (x : R) (k : Nat) : powN x k = x ^ k := by
  induction k with
  | zero => simp [powN]
  | succ k ih => simp [powN, ih, pow_succ]

/-! ### finite sums -/

theorem sumN_congr (n : Nat) (f g : Nat → R) (h : ∀ i, i < n → f i = g i) : sumN n f = sumN n g := by
  induction n with
  | zero => rfl
  | succ n ih =>
    simp only [sumN]
    rw [ih (fun i hi => h i (by omega)), h n (by omega)]

theorem sumN_zero (n : Nat) : sumN n (fun _ => (0 : R)) = 0 := by
  induction n with
  | zero => rfl
  | succ n ih => simp [sumN, ih]

theorem sumN_add (n : Nat) (f g : Nat → R) : sumN n (fun i => f i + g i) = sumN n f + sumN n g := by
  induction n with
  | zero => simp [sumN]
  | succ n ih => simp only [sumN, ih]; ring

theorem sumN_mul_left (n : Nat) (c : R) (f : Nat → R) : sumN n (fun i => c * f i) = c * sumN n f := by
  induction n with
  | zero => simp [sumN]
  | succ n ih => simp only [sumN, ih]; ring

theorem sumN_mul_right (n : Nat) (c : R) (f : Nat → R) : sumN n (fun i => f i * c) = sumN n f * c := by
  induction n with
  | zero => simp [sumN]
  | succ n ih => simp only [sumN, ih]; ring

theorem sumN_comm (n m : Nat) (f : Nat → Nat → R) :
    sumN n (fun i => sumN m (fun j => f i j)) = sumN m (fun j => sumN n (fun i => f i j)) := by
  induction n with
  | zero => simp [sumN, sumN_zero]
  | succ n ih => simp only [sumN, ih, sumN_add]

theorem sumN_const (n : Nat) (c : R) : sumN n (fun _ => c) = (n : R) * c := by
  induction n with
  | zero => simp [sumN]
  | succ n ih => simp only [sumN, ih]; push_cast; ring

/-- a sum with a single non-zero term -/
theorem sumN_single (n : Nat) (f : Nat → R) (j : Nat) (hj : j < n) (h : ∀ i, i < n → i ≠ j → f i = 0) :
    sumN n f = f j := by
  induction n with
  | zero => omega
  | succ n ih =>
    simp only [sumN]
    by_cases hjn : j = n
    · subst hjn
      rw [sumN_congr j f (fun _ => 0) (fun i hi => h i (by omega) (by omega)), sumN_zero]; ring
    · rw [ih (by omega) (fun i hi hne => h i (by omega) hne), h n (by omega) (fun e => hjn e.symm)]; ring

/-! ### roots of unity: the hypotheses of the value theorems -/

/-- `ρ.w` is a primitive `n`-th root of unity in `R` with inverse `ρ.wi`, and `ρ.ninv = 1/n`.
These are hypotheses of theorems (never axioms); `exp(-2πi/n) ∈ ℂ` satisfies them
(`Lemmas/C11Complex.lean`). -/
structure IsRoot (n : Nat) (ρ : Root R) : Prop where
  pow_n : ρ.w ^ n = 1
  inv : ρ.w * ρ.wi = 1
  ninv : ρ.ninv * (n : R) = 1
  orth : ∀ k, 0 < k → k < n → sumN n (fun j => ρ.w ^ (j * k)) = 0

/-- one root structure per axis -/
def Roots : List Nat → List (Root R) → Prop
  | [], _ => True
  | n :: ns, ρs => IsRoot n (ρs.headD ⟨1, 1, 1⟩) ∧ Roots ns ρs.tail

theorem pow_mod_of_pow_eq_one (x : R) (n k : Nat) (h : x ^ n = 1) : x ^ (k % n) = x ^ k := by
  conv => rhs; rw [← Nat.div_add_mod k n]
  rw [pow_add, pow_mul, h, one_pow, one_mul]

theorem tw_eq (w : R) (n m r : Nat) (h : w ^ n = 1) : tw w n m r = w ^ (m * r) := by
  unfold tw; rw [powN_eq, pow_mod_of_pow_eq_one w n _ h]

theorem IsRoot.wi_pow_n {n : Nat} {ρ : Root R} (h : IsRoot n ρ) : ρ.wi ^ n = 1 := by
  have : (ρ.w * ρ.wi) ^ n = 1 := by rw [h.inv, one_pow]
  rw [mul_pow, h.pow_n, one_mul] at this
  exact this

theorem IsRoot.wi_eq {n : Nat} {ρ : Root R} (h : IsRoot n ρ) (hn : 0 < n) : ρ.wi = ρ.w ^ (n - 1) := by
  have h1 : ρ.w * ρ.w ^ (n - 1) = 1 := by
    rw [← pow_succ']; rw [Nat.sub_add_cancel hn]; exact h.pow_n
  calc ρ.wi = ρ.wi * (ρ.w * ρ.w ^ (n - 1)) := by rw [h1, mul_one]
    _ = (ρ.w * ρ.wi) * ρ.w ^ (n - 1) := by ring
    _ = ρ.w ^ (n - 1) := by rw [h.inv, one_mul]

/-- orthogonality in the form the inversion needs -/
theorem IsRoot.orth_sum {n : Nat} {ρ : Root R} (h : IsRoot n ρ) (r j : Nat) (hr : r < n) (hj : j < n) :
    sumN n (fun k => tw ρ.w n k r * tw ρ.wi n j k) = if r = j then (n : R) else 0 := by
  have hn : 0 < n := by omega
  -- every term is w^(k·e) with e = r + (n-1)·j
  have hterm : ∀ k, tw ρ.w n k r * tw ρ.wi n j k = ρ.w ^ (k * ((r + (n - 1) * j) % n)) := by
    intro k
    rw [tw_eq _ _ _ _ h.pow_n, tw_eq _ _ _ _ h.wi_pow_n, h.wi_eq hn, ← pow_mul, ← pow_add]
    have e : k * r + (n - 1) * (j * k) = k * (r + (n - 1) * j) := by ring
    have hx : (k * (r + (n - 1) * j)) % n = (k * ((r + (n - 1) * j) % n)) % n := by
      rw [Nat.mul_mod, Nat.mul_mod k ((r + (n - 1) * j) % n), Nat.mod_mod]
    rw [e, ← pow_mod_of_pow_eq_one ρ.w n (k * (r + (n - 1) * j)) h.pow_n,
      ← pow_mod_of_pow_eq_one ρ.w n (k * ((r + (n - 1) * j) % n)) h.pow_n, hx]
  rw [sumN_congr n _ _ (fun k _ => hterm k)]
  by_cases hrj : r = j
  · subst hrj
    rw [if_pos rfl]
    have : (r + (n - 1) * r) % n = 0 := by
      have : r + (n - 1) * r = n * r := by
        have : n = (n - 1) + 1 := by omega
        conv => rhs; rw [this]
        ring
      rw [this, Nat.mul_mod_right]
    rw [this]
    simp only [Nat.mul_zero, pow_zero]
    rw [sumN_const]; ring
  · rw [if_neg hrj]
    have hd : 0 < (r + (n - 1) * j) % n := by
      by_cases hlt : j < r
      · have : r + (n - 1) * j = (r - j) + n * j := by
          have hn1 : n = (n - 1) + 1 := by omega
          conv => rhs; rw [hn1]
          have : r = (r - j) + j := by omega
          conv => lhs; rw [this]
          ring
        rw [this, Nat.add_mul_mod_self_left, Nat.mod_eq_of_lt (by omega)]; omega
      · have hjr : r < j := by omega
        have : r + (n - 1) * j = (n + r - j) + n * (j - 1) := by
          have hj1 : j = (j - 1) + 1 := by omega
          have hn1 : n = (n - 1) + 1 := by omega
          have h1 : n + r - j + j = n + r := by omega
          have h2 : (n - 1) * j + j = n * j := by
            conv => rhs; rw [hn1]
            ring
          have h3 : n * j = n * (j - 1) + n := by
            conv => lhs; rw [hj1]
            ring
          omega
        rw [this, Nat.add_mul_mod_self_left, Nat.mod_eq_of_lt (by omega)]; omega
    exact h.orth _ hd (Nat.mod_lt _ hn)


/-! ### the n-dimensional transform -/

/-- sum over all cells of a box, first axis outermost -/
def sumBox : List Nat → (List Nat → R) → R
  | [], f => f []
  | n :: ns, f => sumN n fun r => sumBox ns fun rs => f (r :: rs)

/-- the phase factor `Π_a w_a^(m_a·r_a)` (exponents reduced mod `n_a`) -/
def twProd : List (Root R) → List Nat → List Nat → List Nat → R
  | _, [], _, _ => 1
  | ρs, n :: ns, m, r => tw (ρs.headD ⟨1, 1, 1⟩).w n (m.headD 0) (r.headD 0) * twProd ρs.tail ns m.tail r.tail

theorem dftN_nil (ρs : List (Root R)) (f : List Nat → R) (m : List Nat) : dftN ρs [] f m = f [] := by
  simp [dftN]

theorem dftN_cons (ρs : List (Root R)) (n : Nat) (ns : List Nat) (f : List Nat → R) (m : List Nat) :
    dftN ρs (n :: ns) f m =
      sumN n fun r => dftN ρs.tail ns (fun rs => f (r :: rs)) m.tail * tw (ρs.headD ⟨1, 1, 1⟩).w n (m.headD 0) r := by
  simp [dftN]

theorem idftN_nil (ρs : List (Root R)) (F : List Nat → R) (j : List Nat) : idftN ρs [] F j = F [] := by
  simp [idftN]

theorem idftN_cons (ρs : List (Root R)) (n : Nat) (ns : List Nat) (F : List Nat → R) (j : List Nat) :
    idftN ρs (n :: ns) F j =
      idftN ρs.tail ns (fun ms => (ρs.headD ⟨1, 1, 1⟩).ninv *
        sumN n fun k => F (k :: ms) * tw (ρs.headD ⟨1, 1, 1⟩).wi n (j.headD 0) k) j.tail := by
  simp [idftN]

theorem sumBox_congr (ns : List Nat) (f g : List Nat → R) (h : ∀ i, inRange ns i = true → f i = g i) :
    sumBox ns f = sumBox ns g := by
  induction ns generalizing f g with
  | nil => simp only [sumBox]; exact h [] (by simp [inRange])
  | cons n ns ih =>
    simp only [sumBox]
    apply sumN_congr
    intro r hr
    apply ih
    intro rs hrs
    exact h (r :: rs) (by rw [inRange_cons]; exact ⟨hr, hrs⟩)

theorem sumBox_mul_right (ns : List Nat) (f : List Nat → R) (c : R) :
    sumBox ns (fun i => f i * c) = sumBox ns f * c := by
  induction ns generalizing f with
  | nil => simp [sumBox]
  | cons n ns ih =>
    simp only [sumBox]
    rw [← sumN_mul_right]
    apply sumN_congr
    intro r _
    exact ih (fun rs => f (r :: rs))

theorem sumBox_add (ns : List Nat) (f g : List Nat → R) :
    sumBox ns (fun i => f i + g i) = sumBox ns f + sumBox ns g := by
  induction ns generalizing f g with
  | nil => simp [sumBox]
  | cons n ns ih =>
    simp only [sumBox]
    rw [← sumN_add]
    apply sumN_congr
    intro r _
    exact ih (fun rs => f (r :: rs)) (fun rs => g (r :: rs))

/-- the transform is the sum over all cells of value × phase factor -/
theorem dftN_eq_sumBox (ρs : List (Root R)) (ns : List Nat) (f : List Nat → R) (m : List Nat) :
    dftN ρs ns f m = sumBox ns fun r => f r * twProd ρs ns m r := by
  induction ns generalizing ρs f m with
  | nil => simp [dftN, sumBox, twProd]
  | cons n ns ih =>
    rw [dftN_cons]
    simp only [sumBox]
    apply sumN_congr
    intro r _
    rw [ih, ← sumBox_mul_right]
    apply sumBox_congr
    intro rs _
    simp only [twProd, List.headD_cons, List.tail_cons]
    ring

theorem dftN_congr (ρs : List (Root R)) (ns : List Nat) (f g : List Nat → R) (m : List Nat)
    (h : ∀ i, inRange ns i = true → f i = g i) : dftN ρs ns f m = dftN ρs ns g m := by
  rw [dftN_eq_sumBox, dftN_eq_sumBox]
  apply sumBox_congr
  intro i hi; rw [h i hi]

theorem dftN_linear (ρs : List (Root R)) (ns : List Nat) (f g : List Nat → R) (α β : R) (m : List Nat) :
    dftN ρs ns (fun i => α * f i + β * g i) m = α * dftN ρs ns f m + β * dftN ρs ns g m := by
  induction ns generalizing ρs f g m with
  | nil => simp [dftN]
  | cons n ns ih =>
    simp only [dftN_cons]
    rw [← sumN_mul_left, ← sumN_mul_left, ← sumN_add]
    apply sumN_congr
    intro r _
    rw [ih]; ring

theorem tw_zero (w : R) (n r : Nat) : tw w n 0 r = 1 := by
  unfold tw; simp [powN]

theorem twProd_zero (ρs : List (Root R)) (ns : List Nat) (m r : List Nat) (hm : ∀ a, m.getD a 0 = 0) :
    twProd ρs ns m r = 1 := by
  induction ns generalizing ρs m r with
  | nil => simp [twProd]
  | cons n ns ih =>
    simp only [twProd]
    have h0 : m.headD 0 = 0 := by
      cases m with
      | nil => rfl
      | cons x xs => simpa using hm 0
    rw [h0, tw_zero, one_mul]
    apply ih
    intro a
    cases m with
    | nil => simp
    | cons x xs => simpa using hm (a + 1)

/-- zero frequency on every axis: the plain sum -/
theorem dftN_zero (ρs : List (Root R)) (ns : List Nat) (f : List Nat → R) (m : List Nat)
    (hm : ∀ a, m.getD a 0 = 0) : dftN ρs ns f m = sumBox ns f := by
  rw [dftN_eq_sumBox]
  apply sumBox_congr
  intro i _
  rw [twProd_zero ρs ns m i hm, mul_one]

/-! ### inversion -/

theorem idftN_congr (ρs : List (Root R)) (ns : List Nat) (F G : List Nat → R) (j : List Nat)
    (h : ∀ i, inRange ns i = true → F i = G i) : idftN ρs ns F j = idftN ρs ns G j := by
  induction ns generalizing ρs F G j with
  | nil => simp only [idftN_nil]; exact h [] (by simp [inRange])
  | cons n ns ih =>
    rw [idftN_cons, idftN_cons]
    apply ih
    intro ms hms
    congr 1
    apply sumN_congr
    intro k hk
    rw [h (k :: ms) (by rw [inRange_cons]; exact ⟨hk, hms⟩)]

/-- inverse ∘ forward = identity, from the orthogonality hypothesis, for any number of axes -/
theorem idftN_dftN (ρs : List (Root R)) (ns : List Nat) (hρ : Roots ns ρs) (f : List Nat → R)
    (j : List Nat) (hj : inRange ns j = true) : idftN ρs ns (dftN ρs ns f) j = f j := by
  induction ns generalizing ρs f j with
  | nil =>
    cases j with
    | nil => simp [idftN, dftN]
    | cons x xs => simp [inRange] at hj
  | cons n ns ih =>
    cases j with
    | nil => simp [inRange] at hj
    | cons j0 js =>
      rw [inRange_cons] at hj
      obtain ⟨hr, hrs⟩ := hρ
      rw [idftN_cons]
      simp only [List.headD_cons, List.tail_cons]
      have hH : (fun ms => (ρs.headD ⟨1, 1, 1⟩).ninv *
            sumN n fun k => dftN ρs (n :: ns) f (k :: ms) * tw (ρs.headD ⟨1, 1, 1⟩).wi n j0 k)
          = dftN ρs.tail ns (fun rs => f (j0 :: rs)) := by
        funext ms
        simp only [dftN_cons, List.headD_cons, List.tail_cons]
        -- exchange the two sums
        have e1 : (sumN n fun k =>
              (sumN n fun r => dftN ρs.tail ns (fun rs => f (r :: rs)) ms * tw (ρs.headD ⟨1, 1, 1⟩).w n k r) *
                tw (ρs.headD ⟨1, 1, 1⟩).wi n j0 k)
            = sumN n fun r => dftN ρs.tail ns (fun rs => f (r :: rs)) ms *
                sumN n fun k => tw (ρs.headD ⟨1, 1, 1⟩).w n k r * tw (ρs.headD ⟨1, 1, 1⟩).wi n j0 k := by
          rw [sumN_congr n _ (fun k => sumN n fun r =>
              dftN ρs.tail ns (fun rs => f (r :: rs)) ms *
                (tw (ρs.headD ⟨1, 1, 1⟩).w n k r * tw (ρs.headD ⟨1, 1, 1⟩).wi n j0 k))
            (fun k _ => by rw [← sumN_mul_right]; apply sumN_congr; intro r _; ring)]
          rw [sumN_comm]
          apply sumN_congr
          intro r _
          rw [sumN_mul_left]
        rw [e1]
        rw [sumN_congr n _ (fun r => if r = j0 then dftN ρs.tail ns (fun rs => f (r :: rs)) ms * (n : R) else 0)
          (fun r hrn => by
            rw [hr.orth_sum r j0 hrn hj.1]
            split <;> simp)]
        rw [sumN_single n _ j0 hj.1 (fun i _ hne => by simp [hne])]
        simp only [if_true]
        have := hr.ninv
        calc (ρs.headD ⟨1, 1, 1⟩).ninv * (dftN ρs.tail ns (fun rs => f (j0 :: rs)) ms * (n : R))
            = ((ρs.headD ⟨1, 1, 1⟩).ninv * (n : R)) * dftN ρs.tail ns (fun rs => f (j0 :: rs)) ms := by ring
          _ = dftN ρs.tail ns (fun rs => f (j0 :: rs)) ms := by rw [this, one_mul]
      rw [hH]
      exact ih ρs.tail hrs (fun rs => f (j0 :: rs)) js hj.2

end DFV.C11
