import Mathlib.Tactic.Ring
import Mathlib.Tactic.Linarith
import Mathlib.Tactic.FieldSimp
import Mathlib.Tactic.Push
import DFV.Lemmas.RatFloor
import DFV.Model.C11
/-!
C11, geometry lemmas: min/max of a list, closed forms of `fftfreq`/`rfftfreq` extremes and
spacing, closed forms of the per-axis quantities of `Mesh.fftn` / `Mesh.ifftn`, success of
the region/mesh constructors, the k-mesh `kMesh` and the real-space mesh `rMesh` as specs.
-/
namespace DFV.C11
open DFV


theorem foldl_min_le_init (xs : List Rat) (x : Rat) : xs.foldl min x ≤ x := by
  induction xs generalizing x with
  | nil => simp
  | cons y ys ih => simp only [List.foldl_cons]; exact le_trans (ih _) (min_le_left _ _)

theorem foldl_min_le_mem (xs : List Rat) (x y : Rat) (hy : y ∈ xs) : xs.foldl min x ≤ y := by
  induction xs generalizing x with
  | nil => simp at hy
  | cons z zs ih =>
    simp only [List.foldl_cons]
    rcases List.mem_cons.mp hy with rfl | h
    · exact le_trans (foldl_min_le_init _ _) (min_le_right _ _)
    · exact ih _ h

theorem foldl_min_mem (xs : List Rat) (x : Rat) : xs.foldl min x = x ∨ xs.foldl min x ∈ xs := by
  induction xs generalizing x with
  | nil => simp
  | cons z zs ih =>
    simp only [List.foldl_cons]
    rcases ih (min x z) with h | h
    · rw [h]
      rcases min_choice x z with h2 | h2
      · left; exact h2
      · right; rw [h2]; simp
    · right; exact List.mem_cons_of_mem _ h

theorem listMin_eq (l : List Rat) (a : Rat) (ha : a ∈ l) (hmin : ∀ y ∈ l, a ≤ y) : listMin l = a := by
  cases l with
  | nil => simp at ha
  | cons x xs =>
    show xs.foldl min x = a
    apply le_antisymm
    · rcases List.mem_cons.mp ha with rfl | h
      · exact foldl_min_le_init _ _
      · exact foldl_min_le_mem _ _ _ h
    · rcases foldl_min_mem xs x with h | h
      · rw [h]; exact hmin x (by simp)
      · exact hmin _ (List.mem_cons_of_mem _ h)

theorem foldl_max_ge_init (xs : List Rat) (x : Rat) : x ≤ xs.foldl max x := by
  induction xs generalizing x with
  | nil => simp
  | cons y ys ih => simp only [List.foldl_cons]; exact le_trans (le_max_left _ _) (ih _)

theorem foldl_max_ge_mem (xs : List Rat) (x y : Rat) (hy : y ∈ xs) : y ≤ xs.foldl max x := by
  induction xs generalizing x with
  | nil => simp at hy
  | cons z zs ih =>
    simp only [List.foldl_cons]
    rcases List.mem_cons.mp hy with rfl | h
    · exact le_trans (le_max_right _ _) (foldl_max_ge_init _ _)
    · exact ih _ h

theorem foldl_max_mem (xs : List Rat) (x : Rat) : xs.foldl max x = x ∨ xs.foldl max x ∈ xs := by
  induction xs generalizing x with
  | nil => simp
  | cons z zs ih =>
    simp only [List.foldl_cons]
    rcases ih (max x z) with h | h
    · rw [h]
      rcases max_choice x z with h2 | h2
      · left; exact h2
      · right; rw [h2]; simp
    · right; exact List.mem_cons_of_mem _ h

theorem listMax_eq (l : List Rat) (a : Rat) (ha : a ∈ l) (hmax : ∀ y ∈ l, y ≤ a) : listMax l = a := by
  cases l with
  | nil => simp at ha
  | cons x xs =>
    show xs.foldl max x = a
    apply le_antisymm
    · rcases foldl_max_mem xs x with h | h
      · rw [h]; exact hmax x (by simp)
      · exact hmax _ (List.mem_cons_of_mem _ h)
    · rcases List.mem_cons.mp ha with rfl | h
      · exact foldl_max_ge_init _ _
      · exact foldl_max_ge_mem _ _ _ h

theorem mem_tab {α} (n : Nat) (f : Nat → α) (x : α) : x ∈ tab n f ↔ ∃ j, j < n ∧ f j = x := by
  simp [tab]


/-! ### the frequency lists -/

theorem inv_nd_pos (n : Nat) (d : Rat) (hn : 1 ≤ n) (hd : 0 < d) : (0 : Rat) < 1 / ((n : Rat) * d) := by
  have : (0 : Rat) < (n : Rat) := by exact_mod_cast hn
  positivity

theorem fftfreq_min (n : Nat) (d : Rat) (hn : 2 ≤ n) (hd : 0 < d) :
    listMin (fftfreq n d) = -((n / 2 : Nat) : Rat) * (1 / ((n : Rat) * d)) := by
  have hc := inv_nd_pos n d (by omega) hd
  have hN : ((n - 1) / 2 + 1) + n / 2 = n := by omega
  have hNq : (((n - 1) / 2 + 1 : Nat) : Rat) + ((n / 2 : Nat) : Rat) = (n : Rat) := by exact_mod_cast hN
  have hval : fftfreqAt n d ((n - 1) / 2 + 1) = -((n / 2 : Nat) : Rat) * (1 / ((n : Rat) * d)) := by
    unfold fftfreqAt
    rw [if_neg (by omega)]
    have : (((n - 1) / 2 + 1 : Nat) : Rat) - (n : Rat) = -((n / 2 : Nat) : Rat) := by linarith
    rw [this]
  rw [← hval]
  apply listMin_eq
  · rw [fftfreq, mem_tab]; exact ⟨(n - 1) / 2 + 1, by omega, rfl⟩
  · intro y hy
    rw [fftfreq, mem_tab] at hy
    obtain ⟨j, hj, rfl⟩ := hy
    rw [hval]
    unfold fftfreqAt
    split
    · have h0 : (0 : Rat) ≤ (j : Rat) := by exact_mod_cast Nat.zero_le j
      have h1 : (0 : Rat) ≤ ((n / 2 : Nat) : Rat) := by exact_mod_cast Nat.zero_le _
      nlinarith
    · rename_i hge
      have hge' : (n - 1) / 2 + 1 ≤ j := by omega
      have : (((n - 1) / 2 + 1 : Nat) : Rat) ≤ (j : Rat) := by exact_mod_cast hge'
      have h2 : -((n / 2 : Nat) : Rat) ≤ (j : Rat) - (n : Rat) := by linarith
      exact mul_le_mul_of_nonneg_right h2 hc.le

theorem fftfreq_max (n : Nat) (d : Rat) (hn : 2 ≤ n) (hd : 0 < d) :
    listMax (fftfreq n d) = (((n - 1) / 2 : Nat) : Rat) * (1 / ((n : Rat) * d)) := by
  have hc := inv_nd_pos n d (by omega) hd
  have hval : fftfreqAt n d ((n - 1) / 2) = (((n - 1) / 2 : Nat) : Rat) * (1 / ((n : Rat) * d)) := by
    unfold fftfreqAt
    rw [if_pos (by omega)]
  rw [← hval]
  apply listMax_eq
  · rw [fftfreq, mem_tab]; exact ⟨(n - 1) / 2, by omega, rfl⟩
  · intro y hy
    rw [fftfreq, mem_tab] at hy
    obtain ⟨j, hj, rfl⟩ := hy
    rw [hval]
    unfold fftfreqAt
    split
    · rename_i hlt
      have hle : j ≤ (n - 1) / 2 := by omega
      have : (j : Rat) ≤ (((n - 1) / 2 : Nat) : Rat) := by exact_mod_cast hle
      exact mul_le_mul_of_nonneg_right this hc.le
    · have h0 : (0 : Rat) ≤ (((n - 1) / 2 : Nat) : Rat) := by exact_mod_cast Nat.zero_le _
      have h1 : (j : Rat) < (n : Rat) := by exact_mod_cast hj
      nlinarith

theorem fftfreq_dfreq (n : Nat) (d : Rat) (hn : 2 ≤ n) (hd : 0 < d) :
    dfreq (fftfreq n d) = 1 / (2 * ((n : Rat) * d)) := by
  have hc := inv_nd_pos n d (by omega) hd
  have hn0 : (n : Rat) ≠ 0 := by
    have : (0 : Rat) < (n : Rat) := by exact_mod_cast (by omega : 0 < n)
    exact ne_of_gt this
  unfold dfreq fftfreq
  rw [getD_tab _ _ _ _ (by omega), getD_tab _ _ _ _ (by omega)]
  unfold fftfreqAt
  rw [if_pos (by omega : 0 < (n - 1) / 2 + 1)]
  by_cases h3 : 1 < (n - 1) / 2 + 1
  · rw [if_pos h3, absR_eq_abs]
    simp only [Nat.cast_one, Nat.cast_zero, zero_mul, sub_zero, one_mul]
    rw [abs_of_pos hc]
    field_simp
  · rw [if_neg h3, absR_eq_abs]
    have hn2 : n = 2 := by omega
    subst hn2
    simp only [Nat.cast_one, Nat.cast_zero, zero_mul, sub_zero]
    have : ((1 : Rat) - ((2 : Nat) : Rat)) * (1 / (((2 : Nat) : Rat) * d)) = -(1 / (((2 : Nat) : Rat) * d)) := by
      push_cast; ring
    rw [this, abs_neg, abs_of_pos hc]
    field_simp

theorem rfftfreq_min (n : Nat) (d : Rat) (hn : 1 ≤ n) (hd : 0 < d) : listMin (rfftfreq n d) = 0 := by
  have hc := inv_nd_pos n d hn hd
  apply listMin_eq
  · rw [rfftfreq, mem_tab]; exact ⟨0, by omega, by simp⟩
  · intro y hy
    rw [rfftfreq, mem_tab] at hy
    obtain ⟨j, hj, rfl⟩ := hy
    have h0 : (0 : Rat) ≤ (j : Rat) := by exact_mod_cast Nat.zero_le j
    positivity

theorem rfftfreq_max (n : Nat) (d : Rat) (hn : 1 ≤ n) (hd : 0 < d) :
    listMax (rfftfreq n d) = ((n / 2 : Nat) : Rat) * (1 / ((n : Rat) * d)) := by
  have hc := inv_nd_pos n d hn hd
  apply listMax_eq
  · rw [rfftfreq, mem_tab]; exact ⟨n / 2, by omega, rfl⟩
  · intro y hy
    rw [rfftfreq, mem_tab] at hy
    obtain ⟨j, hj, rfl⟩ := hy
    have hle : j ≤ n / 2 := by omega
    have : (j : Rat) ≤ ((n / 2 : Nat) : Rat) := by exact_mod_cast hle
    exact mul_le_mul_of_nonneg_right this hc.le

theorem rfftfreq_dfreq (n : Nat) (d : Rat) (hn : 2 ≤ n) (hd : 0 < d) :
    dfreq (rfftfreq n d) = 1 / (2 * ((n : Rat) * d)) := by
  have hc := inv_nd_pos n d (by omega) hd
  unfold dfreq rfftfreq
  rw [getD_tab _ _ _ _ (by omega), getD_tab _ _ _ _ (by omega), absR_eq_abs]
  simp only [Nat.cast_one, Nat.cast_zero, zero_mul, sub_zero, one_mul]
  rw [abs_of_pos hc]
  have hn0 : (n : Rat) ≠ 0 := by
    have : (0 : Rat) < (n : Rat) := by exact_mod_cast (by omega : 0 < n)
    exact ne_of_gt this
  field_simp

theorem hasDup_map_inj (f : String → String) (hf : ∀ a b, f a = f b → a = b) (l : List String) :
    hasDup (l.map f) = hasDup l := by
  induction l with
  | nil => rfl
  | cons x xs ih =>
    simp only [List.map_cons, hasDup, ih]
    congr 1
    rw [Bool.eq_iff_iff]
    simp only [List.contains_iff_mem, List.mem_map]
    constructor
    · rintro ⟨a, ha, hfa⟩
      rw [← hf _ _ hfa]; exact ha
    · intro h; exact ⟨x, h, rfl⟩

theorem kDim_inj (a b : String) (h : kDim a = kDim b) : a = b := by
  unfold kDim at h
  exact (String.append_right_inj _).mp h

theorem toLower_empty : "".toLower = "" := by simp [String.toLower]

theorem mkN_ok (r : Region) (n : List Nat) (h1 : n.length = r.ndim) (h2 : ∀ a, a < n.length → 0 < n.getD a 0) :
    Mesh.mkN? r n = .ok { region := r, n := n, bc := "", subs := [] } := by
  unfold Mesh.mkN?
  have h3 : n.any (· = 0) = false := by
    rw [Bool.eq_false_iff]
    intro h
    rw [List.any_eq_true] at h
    obtain ⟨x, hx, hx0⟩ := h
    obtain ⟨i, hi, rfl⟩ := List.getElem_of_mem hx
    have := h2 i hi
    simp [List.getD_eq_getElem?_getD, hi] at this
    simp at hx0
    omega
  simp [h1, h3, toLower_empty, Mesh.bcOk]

theorem region_mk_ok (p1 p2 : List Rat) (dims units : List String) (tol : Rat)
    (hlen : p2.length = p1.length) (hpos : 0 < p1.length) (hd : dims.length = p1.length)
    (hdup : hasDup dims = false) (hu : units.length = p1.length)
    (hlt : ∀ a, a < p1.length → p1.getD a 0 < p2.getD a 0) :
    Region.mk? p1 p2 (some dims) (some units) tol
      = .ok { pmin := p1, pmax := p2, dims := dims, units := units, tol := tol } := by
  unfold Region.mk?
  have hne : ¬ (p1.length ≠ p2.length) := by omega
  have h0 : ¬ (p1.length = 0) := by omega
  rw [if_neg hne, if_neg h0]
  have hall : allLt p1.length (fun a => decide (p1.getD a 0 ≠ p2.getD a 0)) = true := by
    rw [allLt_iff]; intro a ha
    exact decide_eq_true (ne_of_lt (hlt a ha))
  have e1 : tab p1.length (fun a => min (p1.getD a 0) (p2.getD a 0)) = p1 := by
    symm
    apply eq_tab_of_getD p1 _ _ 0 rfl
    intro i hi; exact (min_eq_left (hlt i hi).le).symm
  have e2 : tab p1.length (fun a => max (p1.getD a 0) (p2.getD a 0)) = p2 := by
    symm
    apply eq_tab_of_getD p2 _ _ 0 hlen
    intro i hi; exact (max_eq_right (hlt i hi).le).symm
  have hd' : ¬ (dims.length ≠ p1.length) := by omega
  have hu' : ¬ (units.length ≠ p1.length) := by omega
  simp only [Region.dimsOk, Region.unitsOk, if_neg hd', if_neg hu', hdup, hall, e1, e2, Bool.false_eq_true,
    if_false, Bool.not_true]


/-! ### closed forms of the per-axis quantities of `Mesh.fftn` -/

theorem cell_pos (m : Mesh) (hm : m.Inv) (a : Nat) (ha : a < m.ndim) : 0 < m.cellAt a := by
  obtain ⟨hr, _, hn⟩ := hm
  have h1 := hr.2.2.2.2.2 a ha
  have h2 : (0 : Rat) < (m.nAt a : Rat) := by exact_mod_cast hn a ha
  unfold Mesh.cellAt Region.edge
  exact div_pos (by linarith) h2

theorem nat_half_one : (1 : Nat) / 2 = 0 := by decide

theorem kP1_full (m : Mesh) (rfft : Bool) (i : Nat) (h : (rfft && (i == m.ndim - 1)) = false)
    (hn : 1 ≤ m.nAt i) (hd : 0 < m.cellAt i) :
    kP1 m rfft i = -(((m.nAt i / 2 : Nat) : Rat) + 1 / 2) / ((m.nAt i : Rat) * m.cellAt i) := by
  have hn0 : (m.nAt i : Rat) ≠ 0 := by
    have : (0 : Rat) < (m.nAt i : Rat) := by exact_mod_cast hn
    exact ne_of_gt this
  unfold kP1
  by_cases h1 : m.nAt i = 1
  · rw [if_pos h1, h1]; simp
  · rw [if_neg h1]
    unfold kFreqs
    rw [h]
    simp only [Bool.false_eq_true, if_false]
    rw [fftfreq_min _ _ (by omega) hd, fftfreq_dfreq _ _ (by omega) hd]
    field_simp
    ring

theorem kP2_full (m : Mesh) (rfft : Bool) (i : Nat) (h : (rfft && (i == m.ndim - 1)) = false)
    (hn : 1 ≤ m.nAt i) (hd : 0 < m.cellAt i) :
    kP2 m rfft i = ((((m.nAt i - 1) / 2 : Nat) : Rat) + 1 / 2) / ((m.nAt i : Rat) * m.cellAt i) := by
  have hn0 : (m.nAt i : Rat) ≠ 0 := by
    have : (0 : Rat) < (m.nAt i : Rat) := by exact_mod_cast hn
    exact ne_of_gt this
  unfold kP2
  by_cases h1 : m.nAt i = 1
  · rw [if_pos h1, h1]; simp
  · rw [if_neg h1]
    unfold kFreqs
    rw [h]
    simp only [Bool.false_eq_true, if_false]
    rw [fftfreq_max _ _ (by omega) hd, fftfreq_dfreq _ _ (by omega) hd]
    field_simp

theorem kN_full (m : Mesh) (rfft : Bool) (i : Nat) (h : (rfft && (i == m.ndim - 1)) = false) :
    kN m rfft i = m.nAt i := by
  unfold kN
  by_cases h1 : m.nAt i = 1
  · rw [if_pos h1, h1]
  · rw [if_neg h1]; unfold kFreqs; rw [h]; simp [fftfreq]

theorem kP1_half (m : Mesh) (rfft : Bool) (i : Nat) (h : (rfft && (i == m.ndim - 1)) = true)
    (hn : 1 ≤ m.nAt i) (hd : 0 < m.cellAt i) :
    kP1 m rfft i = -(1 / 2) / ((m.nAt i : Rat) * m.cellAt i) := by
  have hn0 : (m.nAt i : Rat) ≠ 0 := by
    have : (0 : Rat) < (m.nAt i : Rat) := by exact_mod_cast hn
    exact ne_of_gt this
  unfold kP1
  by_cases h1 : m.nAt i = 1
  · rw [if_pos h1, h1]; simp
  · rw [if_neg h1]
    unfold kFreqs
    rw [h]
    simp only [if_true]
    rw [rfftfreq_min _ _ (by omega) hd, rfftfreq_dfreq _ _ (by omega) hd]
    field_simp
    ring

theorem kP2_half (m : Mesh) (rfft : Bool) (i : Nat) (h : (rfft && (i == m.ndim - 1)) = true)
    (hn : 1 ≤ m.nAt i) (hd : 0 < m.cellAt i) :
    kP2 m rfft i = (((m.nAt i / 2 : Nat) : Rat) + 1 / 2) / ((m.nAt i : Rat) * m.cellAt i) := by
  have hn0 : (m.nAt i : Rat) ≠ 0 := by
    have : (0 : Rat) < (m.nAt i : Rat) := by exact_mod_cast hn
    exact ne_of_gt this
  unfold kP2
  by_cases h1 : m.nAt i = 1
  · rw [if_pos h1, h1]; simp
  · rw [if_neg h1]
    unfold kFreqs
    rw [h]
    simp only [if_true]
    rw [rfftfreq_max _ _ (by omega) hd, rfftfreq_dfreq _ _ (by omega) hd]
    field_simp

theorem kN_half (m : Mesh) (rfft : Bool) (i : Nat) (h : (rfft && (i == m.ndim - 1)) = true) :
    kN m rfft i = m.nAt i / 2 + 1 := by
  unfold kN
  by_cases h1 : m.nAt i = 1
  · rw [if_pos h1, h1]
  · rw [if_neg h1]; unfold kFreqs; rw [h]; simp [rfftfreq]


/-! ### `Mesh.fftn` succeeds on every valid mesh and returns the mesh `kMesh` -/

/-- the k-mesh (spec): what `Mesh.fftn` returns -/
def kMesh (m : Mesh) (rfft : Bool) : Mesh :=
  { region := { pmin := tab m.ndim (kP1 m rfft), pmax := tab m.ndim (kP2 m rfft),
                dims := m.region.dims.map kDim, units := m.region.units.map kUnit, tol := m.region.tol },
    n := tab m.ndim (kN m rfft), bc := "", subs := [] }

theorem nat_cast_pos' (n : Nat) (h : 1 ≤ n) : (0 : Rat) < (n : Rat) := by exact_mod_cast h

theorem kP_lt (m : Mesh) (rfft : Bool) (i : Nat) (hn : 1 ≤ m.nAt i) (hd : 0 < m.cellAt i) :
    kP1 m rfft i < kP2 m rfft i := by
  have hnd : (0 : Rat) < (m.nAt i : Rat) * m.cellAt i := mul_pos (nat_cast_pos' _ hn) hd
  have h0 : (0 : Rat) ≤ ((m.nAt i / 2 : Nat) : Rat) := by exact_mod_cast Nat.zero_le _
  have h1 : (0 : Rat) ≤ (((m.nAt i - 1) / 2 : Nat) : Rat) := by exact_mod_cast Nat.zero_le _
  cases h : (rfft && (i == m.ndim - 1))
  · rw [kP1_full m rfft i h hn hd, kP2_full m rfft i h hn hd]
    apply div_lt_div_of_pos_right _ hnd
    linarith
  · rw [kP1_half m rfft i h hn hd, kP2_half m rfft i h hn hd]
    apply div_lt_div_of_pos_right _ hnd
    linarith

theorem kN_pos (m : Mesh) (rfft : Bool) (i : Nat) (hn : 1 ≤ m.nAt i) : 0 < kN m rfft i := by
  cases h : (rfft && (i == m.ndim - 1))
  · rw [kN_full m rfft i h]; omega
  · rw [kN_half m rfft i h]; omega

theorem meshFftn_ok (m : Mesh) (rfft : Bool) (hm : m.Inv) : meshFftn m rfft = .ok (kMesh m rfft) := by
  have hm' := hm
  obtain ⟨hr, hnl, hn⟩ := hm'
  obtain ⟨hpos, hmax, hdl, hul, hdup, hlohi⟩ := hr
  unfold meshFftn
  have hnd : m.ndim = m.region.pmin.length := rfl
  rw [region_mk_ok (tab m.ndim (kP1 m rfft)) (tab m.ndim (kP2 m rfft)) (m.region.dims.map kDim)
      (m.region.units.map kUnit) m.region.tol (by simp) (by simp; omega) (by simp [hdl, hnd])
      (by rw [hasDup_map_inj kDim kDim_inj]; exact hdup) (by simp [hul, hnd])
      (by
        intro a ha
        have ha' : a < m.ndim := by simpa using ha
        rw [getD_tab _ _ _ _ ha', getD_tab _ _ _ _ ha']
        exact kP_lt m rfft a (hn a ha') (cell_pos m hm a ha'))]
  simp only
  rw [mkN_ok _ _ (by simp [Region.ndim]) (by
        intro a ha
        have ha' : a < m.ndim := by simpa using ha
        rw [getD_tab _ _ _ _ ha']
        exact kN_pos m rfft a (hn a ha'))]
  rfl

theorem stripPre_add (p s : String) : stripPre p (p ++ s) = s := by
  unfold stripPre
  rw [String.toList_append]
  have h : p.toList.isPrefixOf (p.toList ++ s.toList) = true := by
    rw [List.isPrefixOf_iff_prefix]; exact List.prefix_append _ _
  rw [if_pos h, List.drop_left, String.ofList_toList]


theorem stripUnit_kUnit (u : String) : stripUnit (kUnit u) = u := by
  unfold stripUnit kUnit
  simp only [String.toList_append]
  have e1 : "(".toList = ['('] := rfl
  have h1 : "(".toList.isPrefixOf ("(".toList ++ u.toList ++ ")$^{-1}$".toList) = true := by
    rw [List.isPrefixOf_iff_prefix, List.append_assoc]; exact List.prefix_append _ _
  have h2 : ")$^{-1}$".toList.isSuffixOf ("(".toList ++ u.toList ++ ")$^{-1}$".toList) = true := by
    rw [List.isSuffixOf_iff_suffix]; exact List.suffix_append _ _
  rw [h1, h2]
  simp only [Bool.and_self, if_true]
  have e8 : ")$^{-1}$".toList.length = 8 := rfl
  rw [e1]
  simp only [List.cons_append, List.nil_append, List.drop_succ_cons, List.drop_zero, List.length_cons,
    List.length_append, e8]
  have : u.toList.length + 8 + 1 - 1 - 8 = u.toList.length := by omega
  rw [this, List.take_left, String.ofList_toList]


/-! ### `Mesh.ifftn` -/

/-- what `Mesh.ifftn` returns for the (validated or default) counts `s` -/
def rMesh (k : Mesh) (s : List Nat) : Mesh :=
  { region := { pmin := tab k.ndim fun a => -(1 / (2 * k.cellAt a)),
                pmax := tab k.ndim fun a => 1 / (2 * k.cellAt a),
                dims := k.region.dims.map (stripPre "k_"), units := k.region.units.map stripUnit,
                tol := k.region.tol },
    n := s, bc := "", subs := [] }

theorem rP_diff (k : Mesh) (s : List Nat) (i : Nat) (hs : 1 ≤ s.getD i 0) (hc : 0 < k.cellAt i) :
    rP2 k s i - rP1 k s i = 1 / k.cellAt i := by
  unfold rP1 rP2
  by_cases h1 : s.getD i 0 = 1
  · rw [if_pos h1, if_pos h1]; ring
  · rw [if_neg h1, if_neg h1, fftfreq_min _ _ (by omega) hc, fftfreq_max _ _ (by omega) hc,
      fftfreq_dfreq _ _ (by omega) hc]
    have hsum : (s.getD i 0 - 1) / 2 + s.getD i 0 / 2 + 1 = s.getD i 0 := by omega
    have hq : (((s.getD i 0 - 1) / 2 : Nat) : Rat) + ((s.getD i 0 / 2 : Nat) : Rat) + 1 = (s.getD i 0 : Rat) := by
      exact_mod_cast hsum
    have hs0 : (s.getD i 0 : Rat) ≠ 0 := ne_of_gt (nat_cast_pos' _ hs)
    have hc0 : k.cellAt i ≠ 0 := ne_of_gt hc
    have : (((s.getD i 0 - 1) / 2 : Nat) : Rat) = (s.getD i 0 : Rat) - ((s.getD i 0 / 2 : Nat) : Rat) - 1 := by linarith
    rw [this]
    field_simp
    ring

theorem rN_eq (s : List Nat) (i : Nat) : rN s i = s.getD i 0 := by
  unfold rN
  by_cases h1 : s.getD i 0 = 1
  · rw [if_pos h1, h1]
  · rw [if_neg h1]; simp [fftfreq]

theorem meshIfftn_ok (k : Mesh) (rfft : Bool) (shape : Option (List Nat)) (s : List Nat) (hk : k.Inv)
    (hs : ifftShape k rfft shape = .ok s) (hsl : s.length = k.ndim)
    (hsp : ∀ a, a < k.ndim → 0 < s.getD a 0)
    (hdup : hasDup (k.region.dims.map (stripPre "k_")) = false) :
    meshIfftn k rfft shape = .ok (rMesh k s) := by
  have hk' := hk
  obtain ⟨hr, hnl, hn⟩ := hk'
  obtain ⟨hpos, hmax, hdl, hul, _, hlohi⟩ := hr
  have hnd : k.ndim = k.region.pmin.length := rfl
  unfold meshIfftn
  rw [hs]
  simp only
  have h3 : s.any (· = 0) = false := by
    rw [Bool.eq_false_iff]
    intro h
    rw [List.any_eq_true] at h
    obtain ⟨x, hx, hx0⟩ := h
    obtain ⟨i, hi, rfl⟩ := List.getElem_of_mem hx
    have := hsp i (by omega)
    simp [List.getD_eq_getElem?_getD, hi] at this
    simp at hx0
    omega
  rw [h3]
  simp only [Bool.false_eq_true, if_false]
  have hlt : ∀ a, a < k.ndim → rP1 k s a < rP2 k s a := by
    intro a ha
    have hc := cell_pos k hk a ha
    have := rP_diff k s a (hsp a ha) hc
    have h1 : 0 < 1 / k.cellAt a := by positivity
    linarith
  rw [region_mk_ok (tab k.ndim (rP1 k s)) (tab k.ndim (rP2 k s)) (k.region.dims.map (stripPre "k_"))
      (k.region.units.map stripUnit) k.region.tol (by simp) (by simp; omega) (by simp [hdl, hnd])
      hdup (by simp [hul, hnd])
      (by
        intro a ha
        have ha' : a < k.ndim := by simpa using ha
        rw [getD_tab _ _ _ _ ha', getD_tab _ _ _ _ ha']
        exact hlt a ha')]
  simp only
  have hn_eq : tab k.ndim (rN s) = s := by
    symm
    apply eq_tab_of_getD s _ _ 0 hsl
    intro i _; exact (rN_eq s i).symm
  rw [hn_eq, mkN_ok _ _ (by simp [Region.ndim, hsl, hnd]) (by
        intro a ha
        exact hsp a (by omega))]
  simp only
  unfold recentre rMesh
  simp only [Mesh.ndim, Region.ndim, tab_length, Region.lo, Region.hi]
  congr 3
  · apply tab_congr
    intro a ha
    rw [getD_tab _ _ _ _ ha, getD_tab _ _ _ _ ha]
    have hc := cell_pos k hk a ha
    have := rP_diff k s a (hsp a ha) hc
    have hc0 : k.cellAt a ≠ 0 := ne_of_gt hc
    have e : (1 : Rat) / (2 * k.cellAt a) = (1 / k.cellAt a) / 2 := by field_simp
    rw [e, ← this]; ring
  · apply tab_congr
    intro a ha
    rw [getD_tab _ _ _ _ ha, getD_tab _ _ _ _ ha]
    have hc := cell_pos k hk a ha
    have := rP_diff k s a (hsp a ha) hc
    have hc0 : k.cellAt a ≠ 0 := ne_of_gt hc
    have e : (1 : Rat) / (2 * k.cellAt a) = (1 / k.cellAt a) / 2 := by field_simp
    rw [e, ← this]; ring


/-! ### geometry of the k-mesh, and the mesh-level round trip -/

theorem kMesh_ndim (m : Mesh) (rfft : Bool) : (kMesh m rfft).ndim = m.ndim := by
  simp [kMesh, Mesh.ndim, Region.ndim]

theorem kMesh_lo (m : Mesh) (rfft : Bool) (a : Nat) (ha : a < m.ndim) :
    (kMesh m rfft).region.lo a = kP1 m rfft a := by
  simp only [kMesh, Region.lo]; exact getD_tab _ _ _ _ ha

theorem kMesh_hi (m : Mesh) (rfft : Bool) (a : Nat) (ha : a < m.ndim) :
    (kMesh m rfft).region.hi a = kP2 m rfft a := by
  simp only [kMesh, Region.hi]; exact getD_tab _ _ _ _ ha

theorem kMesh_nAt (m : Mesh) (rfft : Bool) (a : Nat) (ha : a < m.ndim) :
    (kMesh m rfft).nAt a = kN m rfft a := by
  simp only [kMesh, Mesh.nAt]; exact getD_tab _ _ _ _ ha

theorem kMesh_inv (m : Mesh) (rfft : Bool) (hm : m.Inv) : (kMesh m rfft).Inv := by
  have hm' := hm
  obtain ⟨hr, hnl, hn⟩ := hm'
  obtain ⟨hpos, hmax, hdl, hul, hdup, hlohi⟩ := hr
  have hnd : m.ndim = m.region.pmin.length := rfl
  refine ⟨⟨?_, ?_, ?_, ?_, ?_, ?_⟩, ?_, ?_⟩
  · simp [kMesh]; omega
  · simp [kMesh]
  · simp [kMesh, hdl, hnd]
  · simp [kMesh, hul, hnd]
  · simp only [kMesh]; rw [hasDup_map_inj kDim kDim_inj]; exact hdup
  · intro a ha
    have ha' : a < m.ndim := by simpa [kMesh] using ha
    rw [kMesh_lo m rfft a ha', kMesh_hi m rfft a ha']
    exact kP_lt m rfft a (hn a ha') (cell_pos m hm a ha')
  · simp [kMesh, Region.ndim]
  · intro a ha
    have ha' : a < m.ndim := by rwa [kMesh_ndim] at ha
    rw [kMesh_nAt m rfft a ha']
    exact kN_pos m rfft a (hn a ha')

/-- the k-cell size is `1/(n·cell)` on every axis, for both transform kinds -/
theorem kMesh_cellAt (m : Mesh) (rfft : Bool) (hm : m.Inv) (a : Nat) (ha : a < m.ndim) :
    (kMesh m rfft).cellAt a = 1 / ((m.nAt a : Rat) * m.cellAt a) := by
  have hn := hm.2.2 a ha
  have hd := cell_pos m hm a ha
  have hn0 : (m.nAt a : Rat) ≠ 0 := ne_of_gt (nat_cast_pos' _ hn)
  have hd0 : m.cellAt a ≠ 0 := ne_of_gt hd
  unfold Mesh.cellAt Region.edge
  rw [kMesh_lo m rfft a ha, kMesh_hi m rfft a ha, kMesh_nAt m rfft a ha]
  cases h : (rfft && (a == m.ndim - 1))
  · rw [kP1_full m rfft a h hn hd, kP2_full m rfft a h hn hd, kN_full m rfft a h]
    have hsum : (m.nAt a - 1) / 2 + m.nAt a / 2 + 1 = m.nAt a := by omega
    have hq : (((m.nAt a - 1) / 2 : Nat) : Rat) + ((m.nAt a / 2 : Nat) : Rat) + 1 = (m.nAt a : Rat) := by
      exact_mod_cast hsum
    have : (((m.nAt a - 1) / 2 : Nat) : Rat) = (m.nAt a : Rat) - ((m.nAt a / 2 : Nat) : Rat) - 1 := by linarith
    rw [this]
    unfold Mesh.cellAt Region.edge at hd0 ⊢
    field_simp
    ring
  · rw [kP1_half m rfft a h hn hd, kP2_half m rfft a h hn hd, kN_half m rfft a h]
    have hk0 : (((m.nAt a / 2 + 1 : Nat)) : Rat) ≠ 0 := ne_of_gt (nat_cast_pos' _ (by omega))
    unfold Mesh.cellAt Region.edge at hd0 ⊢
    push_cast at hk0 ⊢
    field_simp
    ring

end DFV.C11
