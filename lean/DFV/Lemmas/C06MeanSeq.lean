import DFV.Lemmas.C06HistSubs
/-! Direction-by-direction means (C06): one `mean(d)` step keeps the keep-mask invariant of the
chained integral with the factor divided by the cell count of the averaged axis. -/
namespace DFV.C06
open DFV

/-- a successful `mean(d)` implies a successful `integrate(d)` on the same reduced mesh -/
theorem integrate_of_mean (G : Fld) (hwG : WF G) (d : String) (G' : Fld) (h : mean G (.name d) = .ok (.field G')) :
    ∃ G'', integrate G (.name d) false = .ok (.field G'') := by
  obtain ⟨ax, m', hax, hsel, hshape, _⟩ := mean_name_unpack G d _ h
  obtain ⟨_, _, _, h2, _⟩ := sel_spec G.mesh hwG.1 d m' hsel
  have hne1 : ¬ G.mesh.ndim = 1 := by omega
  have hsh : (scaleBy G.nvdim (G.mesh.cellAt ax) (sumAxis G.nvdim G.data ax)).shape = m'.n := hshape
  unfold integrate
  simp only [hax, Bool.false_eq_true, if_false, hne1, hsel, mkFld, hsh, ne_eq, not_true_eq_false]
  exact ⟨_, rfl⟩

/-- the edge length of a direction in a partially reduced field is its edge length in the
original field -/
theorem chain_step_edge (f G : Fld) (K : List Bool) (C : Rat) (hf : WF f) (hinv : ChainInv f G K C) (d : String)
    (a p : Nat) (ha : f.mesh.region.dim2index d = .ok a) (hp : G.mesh.region.dim2index d = .ok p) :
    G.mesh.region.edge p = f.mesh.region.edge a := by
  obtain ⟨hwG, hKl, hnv, hCpos, hdims, hpmin, hpmax, hn, hval⟩ := hinv
  have hdG : d ∈ G.mesh.region.dims := mem_of_dim2index _ _ _ hp
  have hdK : d ∈ filterMask K f.mesh.region.dims := by rw [← hdims]; exact hdG
  have ha_idx := dim2index_idx _ _ _ ha
  have hp_idx : p = idx (filterMask K f.mesh.region.dims) d := by
    rw [← hdims]; exact dim2index_idx _ _ _ hp
  obtain ⟨⟨hfpos, hfmax, hfdims, hfunits, hfdup, hflt⟩, hfnlen, hfnpos⟩ := hf.1
  have hnd : f.mesh.region.dims.Nodup := nodup_of_hasDup _ hfdup
  have hfn : f.mesh.n.length = f.mesh.region.pmin.length := hfnlen
  have hKd : K.length = f.mesh.region.dims.length := by rw [hKl, hfn, hfdims]
  unfold Region.edge Region.hi Region.lo
  rw [hpmin, hpmax, hp_idx, ha_idx,
    getD_filterMask_idx K _ f.mesh.region.pmax d 0 hKd (by rw [hfmax, hfdims]) hnd hdK,
    getD_filterMask_idx K _ f.mesh.region.pmin d 0 hKd (by rw [hfdims]) hnd hdK]

theorem mean_step (f G G' : Fld) (K : List Bool) (C : Rat) (hf : WF f) (hinv : ChainInv f G K C) (d : String)
    (h : mean G (.name d) = .ok (.field G')) :
    ∃ a C', f.mesh.region.dim2index d = .ok a ∧ ChainInv f G' (setAt K a false) C' ∧
      C' * (dropProd (setAt K a false) f.mesh.n : Rat) = C * (dropProd K f.mesh.n : Rat) := by
  have hwG : WF G := hinv.1
  obtain ⟨G'', hG''⟩ := integrate_of_mean G hwG d G' h
  obtain ⟨a, p, ha, hp, _, hinv1, hprod⟩ := chain_step f G G'' K C hf hinv d hG''
  obtain ⟨p1, m1, hp1, hsel1, hshape1, hr⟩ := mean_name_unpack G d _ h
  injection hr with hr
  obtain ⟨p2, m2, hp2, _, hsel2, hshape2, hG2⟩ := integrate_dir_unpack G d G'' hG''
  rw [hp] at hp1 hp2; injection hp1 with hp1; injection hp2 with hp2; subst hp1; subst hp2
  rw [hsel1] at hsel2; injection hsel2 with hsel2; subst hsel2
  obtain ⟨_, _, hplt, _⟩ := sel_spec G.mesh hwG.1 d m1 hsel1
  have hplt : p < G.mesh.ndim := by
    obtain ⟨p3, hp3, hlt, _⟩ := sel_spec G.mesh hwG.1 d m1 hsel1
    rw [hp] at hp3; injection hp3 with hp3; subst hp3; exact hlt
  obtain ⟨hwG'', hKl, hnv, hCpos, hdims, hpmin, hpmax, hn, hv⟩ := hinv1
  have hedge : 0 < G.mesh.region.edge p := by
    have := hwG.1.1.2.2.2.2.2 p hplt
    unfold Region.edge; linarith
  have hmesh'' : G''.mesh = m1 := by rw [hG2]
  have hmesh' : G'.mesh = m1 := by rw [hr]
  have hcov := cells_cover G.mesh hwG.1 p hplt
  have hn0 : ((G.mesh.nAt p : Nat) : Rat) ≠ 0 := by
    exact_mod_cast (Nat.pos_iff_ne_zero.mp (hwG.1.2.2 p hplt))
  have hc0 := ne_of_gt (cell_pos' G.mesh hwG.1 p hplt)
  -- values of the mean are those of the integral divided by the edge length
  have hval : ∀ i c, inRange m1.n i = true → c < G.nvdim →
      cget G'.data i c = cget G''.data i c / G.mesh.region.edge p := by
    intro i c hi hc
    have hi1 : inRange (removeAt G.data.shape p) i = true := by rw [hshape1]; exact hi
    rw [hr, hG2]
    simp only
    rw [cget_force (divBy G.nvdim ((G.data.shape.getD p 0 : Nat) : Rat) (sumAxis G.nvdim G.data p)) i c hi1,
      cget_force (scaleBy G.nvdim (G.mesh.cellAt p) (sumAxis G.nvdim G.data p)) i c hi1,
      cget_divBy _ _ _ _ _ hc, cget_scaleBy _ _ _ _ _ hc, hwG.2, ← hcov]
    show _ / ((G.mesh.nAt p : Nat) : Rat) = _
    field_simp
  refine ⟨a, C * G.mesh.cellAt p / G.mesh.region.edge p, ha, ?_, ?_⟩
  · refine ⟨⟨by rw [hmesh']; rw [← hmesh'']; exact hwG''.1, ?_⟩, hKl, by rw [hr]; exact hinv.2.2.1,
      div_pos hCpos hedge, by rw [hmesh', ← hmesh'']; exact hdims, by rw [hmesh', ← hmesh'']; exact hpmin,
      by rw [hmesh', ← hmesh'']; exact hpmax, by rw [hmesh', ← hmesh'']; exact hn, ?_⟩
    · rw [hmesh', hr]
      show removeAt G.data.shape p = m1.n
      exact hshape1
    · intro i c hi hc
      rw [hmesh'] at hi
      rw [hval i c hi (by rw [hinv.2.2.1]; exact hc), hv i c (by rw [hmesh'']; exact hi) hc]
      ring
  · rw [div_mul_eq_mul_div, hprod, ← chain_step_edge f G K C hf hinv d a p ha hp]
    field_simp

theorem mean_chain (f : Fld) (hf : WF f) (ds : List String) :
    ∀ (G : Fld) (K : List Bool) (C : Rat) (gm : Fld), ChainInv f G K C →
      meanSeq G ds = .ok (.field gm) →
      ∃ axes C', dimIndices f.mesh.region ds = .ok axes ∧ selMany G.mesh ds = .ok gm.mesh ∧
        ChainInv f gm (axes.foldl (fun K a => setAt K a false) K) C' ∧
        C' * (dropProd (axes.foldl (fun K a => setAt K a false) K) f.mesh.n : Rat)
          = C * (dropProd K f.mesh.n : Rat) := by
  induction ds with
  | nil =>
    intro G K C gm hinv h
    unfold meanSeq at h
    injection h with h; injection h with h; subst h
    exact ⟨[], C, rfl, rfl, hinv, rfl⟩
  | cons d ds ih =>
    intro G K C gm hinv h
    unfold meanSeq at h
    split at h
    · cases h
    · cases h
    · rename_i G1 hG1
      obtain ⟨a, C1, ha, hinv1, hprod⟩ := mean_step f G G1 K C hf hinv d hG1
      obtain ⟨_, m1, _, hsel, _, hr⟩ := mean_name_unpack G d _ hG1
      injection hr with hr
      have hsel' : sel G.mesh d = .ok G1.mesh := by rw [hsel, hr]
      obtain ⟨axes, C', hax, hselm, hinv', hprod'⟩ := ih G1 _ _ gm hinv1 h
      refine ⟨a :: axes, C', ?_, ?_, hinv', ?_⟩
      · simp only [dimIndices, ha, hax]
      · simp only [selMany, hsel', hselm]
      · simp only [List.foldl_cons]
        rw [hprod', hprod]

end DFV.C06
