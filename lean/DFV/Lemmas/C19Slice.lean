import DFV.Props.C07
import DFV.Lemmas.C19Tcd
/-!
# C19 — the topological charge density of a plane selection of a 3-d field

"The field must be sliced using `Field.sel`": composition of C07's model of `Field.sel` (acceptance and
pointwise content of a plane selection, `Props/C07.lean`) with the acceptance of
`topological_charge_density`.
-/
namespace DFV.C19
open DFV

/-- A three-component field on a 3-d mesh (constructor state, no subregions) is refused by both density methods;
every plane selection `field.sel(dim = x)` with `x` on the closed edge is accepted by `Field.sel` and then by both
methods; the density lives on the mesh with the axis removed, and the selected field holds in cell `j` the vector
and the validity of the source cell `insertAt j a k`, `k` the layer containing `x`. -/
theorem tcd_of_plane_selection (sq : Rat → Rat) (pi : Rat) (Om : Tri → Rat) (f : Fld) (hf : C07.FldWF f) (hmi : C07.MetaInv f)
    (hs : f.mesh.subs = []) (h3d : f.mesh.ndim = 3) (hnv : f.nvdim = 3) (dim : String) (a : Nat)
    (hd : f.mesh.region.dim2index dim = .ok a) (x : Rat) (h1 : f.mesh.region.lo a ≤ x) (h2 : x ≤ f.mesh.region.hi a)
    (m : Method) (hm : m ≠ .other) :
    (∃ e, tcd sq pi Om f m = .error e) ∧
    ∃ g q, C07.selFld f dim (.point x) = .ok (.field g) ∧ tcd sq pi Om g m = .ok q ∧
      q.mesh = C07.planeOf f.mesh a ∧ q.mesh.ndim = 2 ∧ q.valid = g.valid ∧
      ∀ j, inRange g.mesh.n j = true →
        cellV g j = cellV f (C07.insertAt j a (f.mesh.indexAx a x)) ∧
        g.valid.get j = f.valid.get (C07.insertAt j a (f.mesh.indexAx a x)) := by
  constructor
  · cases ht : tcd sq pi Om f m with
    | error e => exact ⟨e, rfl⟩
    | ok q =>
      obtain ⟨_, hq2, _⟩ := tcd_ok sq pi Om f q m ht
      omega
  · obtain ⟨g, hg, hmesh, hwf, _⟩ := C07.sel_plane_result f hf hmi hs (by omega) dim a hd x h1 h2
    obtain ⟨a', hd', _, _, hpt⟩ := C07.sel_plane_pointwise f hf.1 dim x g hg
    rw [hd] at hd'
    injection hd' with hd'
    subst hd'
    have ha : a < f.mesh.ndim := C07.dim2index_ndim hf.1 hd
    have hg2 : g.mesh.ndim = 2 := by
      rw [hmesh, (C07.planeOf_inv f.mesh hf.1 a ha (by omega)).2.1, h3d]
    have hg3 : g.nvdim = 3 := by
      obtain ⟨m', d, v, _, hmk⟩ := C07.selFld_ctor f dim (.point x) g hg
      rw [(C07.mkFld_inv m' f d v g hmk).2.2.2.2.2.1, hnv]
    refine ⟨g, _, hg, tcd_succeeds sq pi Om g m hg3 hg2 hm, hmesh, hg2, rfl, ?_⟩
    intro j hj
    obtain ⟨_, hdat, hval⟩ := hpt j hj
    exact ⟨by unfold cellV; rw [hdat], hval⟩

end DFV.C19
