import DFV.Lemmas.C09Utf8
import DFV.Lemmas.C09
/-! Lemmas for the byte-level header model of C09 (`Model/C09Lex.lean`): the header loop on the
bytes of written lines, line classification, number texts. -/
namespace DFV.C09
open DFV

theorem lexGo_line (l rest : List Byte) (h : 10 ∉ l) (cur : List Byte) :
    lexGo (l ++ 10 :: rest) cur = onLine (cur.reverse ++ l) rest (lexGo rest []) := by
  induction l generalizing cur with
  | nil => simp [lexGo]
  | cons b l ih =>
    have hb : b ≠ 10 := fun e => h (by simp [e])
    have hl : 10 ∉ l := fun e => h (by simp [e])
    show lexGo (b :: (l ++ 10 :: rest)) cur = _
    rw [lexGo, if_neg hb, ih hl]
    simp

theorem lexGo_last (l : List Byte) (h : 10 ∉ l) (cur : List Byte) :
    lexGo l cur = if (cur.reverse ++ l).isEmpty then .ok ([], none)
      else onLine (cur.reverse ++ l) [] (.ok ([], none)) := by
  induction l generalizing cur with
  | nil => simp [lexGo]
  | cons b l ih =>
    have hb : b ≠ 10 := fun e => h (by simp [e])
    have hl : 10 ∉ l := fun e => h (by simp [e])
    rw [lexGo, if_neg hb, ih hl]
    simp

theorem splitOn_none (sep : Char) (l : List Char) (h : sep ∉ l) : splitOn sep l = [l] := by
  induction l with
  | nil => rfl
  | cons c l ih =>
    have hc : c ≠ sep := fun e => h (by simp [e])
    have hl : sep ∉ l := fun e => h (by simp [e])
    rw [splitOn, if_neg hc, ih hl]

theorem splitOn_append (sep : Char) (l r : List Char) (h : sep ∉ l) :
    splitOn sep (l ++ sep :: r) = l :: splitOn sep r := by
  induction l with
  | nil => simp [splitOn]
  | cons c l ih =>
    have hc : c ≠ sep := fun e => h (by simp [e])
    have hl : sep ∉ l := fun e => h (by simp [e])
    show splitOn sep (c :: (l ++ sep :: r)) = _
    rw [splitOn, if_neg hc, ih hl]

/-- text `strip()` leaves alone: no white space at either end -/
def Stripped (w : List Char) : Prop :=
  (∀ c, w.head? = some c → c.isWhitespace = false) ∧ (∀ c, w.getLast? = some c → c.isWhitespace = false)

theorem dropWhile_head {α} (p : α → Bool) (w : List α) (h : ∀ c, w.head? = some c → p c = false) :
    w.dropWhile p = w := by
  cases w with
  | nil => rfl
  | cons c w => simp [List.dropWhile, h c rfl]

theorem strip_of_stripped (w : List Char) (h : Stripped w) : strip w = w := by
  unfold strip
  rw [dropWhile_head _ w h.1, dropWhile_head _ w.reverse (by simpa using h.2), List.reverse_reverse]

theorem strip_space_cons (w : List Char) (h : Stripped w) : strip (' ' :: w) = w := by
  have : strip (' ' :: w) = strip w := by
    unfold strip
    rw [List.dropWhile_cons_of_pos (by decide)]
  rw [this, strip_of_stripped w h]

theorem classify_other : classifyLine ['#'] = .other := by decide

theorem classify_kv (k vt : List Char) (hd : isDataLine ('#' :: ' ' :: (k ++ ':' :: ' ' :: vt)) = false)
    (hk : ':' ∉ k) (hv : ':' ∉ vt) (sk : Stripped k) (sv : Stripped vt) :
    classifyLine ('#' :: ' ' :: (k ++ ':' :: ' ' :: vt)) = .kv (String.ofList k) (String.ofList vt) := by
  unfold classifyLine
  rw [hd]
  simp only [Bool.false_eq_true, if_false, List.drop_succ_cons, List.drop_zero]
  have h1 : ' ' :: (k ++ ':' :: ' ' :: vt) = (' ' :: k) ++ ':' :: (' ' :: vt) := rfl
  have hk' : ':' ∉ ' ' :: k := by
    intro h; rcases List.mem_cons.mp h with h | h
    · exact absurd h (by decide)
    · exact hk h
  have hv' : ':' ∉ ' ' :: vt := by
    intro h; rcases List.mem_cons.mp h with h | h
    · exact absurd h (by decide)
    · exact hv h
  rw [h1, splitOn_append _ _ _ hk', splitOn_none _ _ hv']
  simp only [strip_space_cons k sk, strip_space_cons vt sv]

theorem beginDataChars_eq : beginDataChars = "# Begin: Data".toList := by decide

theorem dataPrefix_eq : dataPrefix = "# begin: data".toList := by decide

theorem isDataLine_begin (r : List Char) : isDataLine (beginDataChars ++ r) = true := by
  unfold isDataLine
  rw [List.map_append]
  have : beginDataChars.map Char.toLower = dataPrefix := by decide
  rw [this]
  simp

theorem classify_data (ws : List String) (h : ∀ w ∈ ws, NoWs w.toList) :
    classifyLine (beginDataChars ++ ' ' :: joinSp (ws.map String.toList)) = .data ws := by
  unfold classifyLine
  rw [isDataLine_begin]
  simp only [if_true]
  have e : beginDataChars ++ ' ' :: joinSp (ws.map String.toList)
      = ['#'] ++ ' ' :: ("Begin:".toList ++ ' ' :: ("Data".toList ++ ' ' :: joinSp (ws.map String.toList))) := by
    have : beginDataChars = ['#'] ++ ' ' :: ("Begin:".toList ++ ' ' :: "Data".toList) := by decide
    rw [this]; simp
  rw [e, splitWs_cons _ ⟨by decide, by decide⟩, splitWs_cons _ ⟨by decide, by decide⟩,
    splitWs_cons _ ⟨by decide, by decide⟩, splitWs_joinSp]
  · simp [List.map_map, Function.comp_def]
  · intro w hw
    obtain ⟨s, hs, rfl⟩ := List.mem_map.mp hw
    exact h s hs

theorem stripped_of_all (w : List Char) (h : ∀ c ∈ w, c.isWhitespace = false) : Stripped w := by
  constructor
  · intro c hc; exact h c (List.mem_of_mem_head? hc)
  · intro c hc; exact h c (List.mem_of_getLast? hc)

theorem digitsVal_digits (l : List Char) (acc : Nat) (h : ∀ c ∈ l, c.isDigit = true) :
    digitsVal l acc = some (Nat.ofDigitChars 10 l acc) := by
  induction l generalizing acc with
  | nil => rfl
  | cons c l ih =>
    rw [digitsVal, if_pos (h c (by simp)), ih _ (fun d hd => h d (by simp [hd])), Nat.ofDigitChars_cons]
    congr 2
    have : '0'.toNat = 48 := by decide
    rw [this]; omega

theorem parseNat_toString (n : Nat) : parseNat (toString n) = some n := by
  unfold parseNat
  have e : (toString n).toList = Nat.toDigits 10 n := Nat.toList_repr
  rw [e]
  have hne : (Nat.toDigits 10 n).isEmpty = false := by
    cases h : Nat.toDigits 10 n with
    | nil => exact absurd h Nat.toDigits_ne_nil
    | cons _ _ => rfl
  rw [hne]
  simp only [Bool.false_eq_true, if_false]
  rw [digitsVal_digits _ _ (fun c hc => Nat.isDigit_of_mem_toDigits (by decide) (by decide) hc),
    Nat.ofDigitChars_ten_toDigits]

theorem digit_clean (c : Char) (h : c.isDigit = true) : c ≠ ':' ∧ c.isWhitespace = false := by
  have h' : 48 ≤ c.toNat ∧ c.toNat ≤ 57 := by
    simp only [Char.isDigit, Bool.and_eq_true, decide_eq_true_eq] at h
    exact ⟨h.1, h.2⟩
  constructor
  · rintro rfl; revert h'; decide
  · cases hw : c.isWhitespace with
    | false => rfl
    | true =>
      simp only [Char.isWhitespace, Bool.or_eq_true, decide_eq_true_eq] at hw
      rcases hw with ((rfl | rfl) | rfl) | rfl <;> (revert h'; decide)



/-- text a header line can carry as key or value: nothing `strip()` would remove, no `:`, no
newline -/
def TextOk (w : List Char) : Prop := Stripped w ∧ ':' ∉ w ∧ '\n' ∉ w

/-- the kind of a header value agrees with what the reader does with its key -/
def ValOk (k : String) : HVal → Prop
  | .num _ => natKeys.contains k = false ∧ numKeys.contains k = true
  | .nat _ => natKeys.contains k = true
  | .str s => natKeys.contains k = false ∧ numKeys.contains k = false ∧ TextOk s.toList

/-- a header line (not the data line) that the header loop reads back as it was written -/
def LineOk (N : NumIO) : HLine → Prop
  | .other => True
  | .kv k v => TextOk k.toList ∧ ValOk k v ∧ isDataLine (renderLine N (.kv k v)) = false
  | .beginData _ => False

theorem textOk_of_clean (w : List Char) (h : ∀ c ∈ w, c ≠ ':' ∧ c.isWhitespace = false) : TextOk w := by
  refine ⟨stripped_of_all w fun c hc => (h c hc).2, fun hc => (h _ hc).1 rfl, fun hc => ?_⟩
  have := (h _ hc).2
  revert this; decide

theorem renderVal_ok (N : NumIO) (L : N.Lawful) (k : String) (v : HVal) (h : ValOk k v) :
    TextOk (renderVal N v) ∧ classifyVal N k (String.ofList (renderVal N v)) = v := by
  cases v with
  | num q =>
    refine ⟨textOk_of_clean _ (L.clean q), ?_⟩
    simp only [classifyVal, renderVal, h.1, h.2, Bool.false_eq_true, if_false, if_true, String.toList_ofList,
      L.parse_fmt]
  | nat n =>
    refine ⟨textOk_of_clean _ fun c hc => digit_clean c ?_, ?_⟩
    · have e : (toString n).toList = Nat.toDigits 10 n := Nat.toList_repr
      rw [renderVal, e] at hc
      exact Nat.isDigit_of_mem_toDigits (by decide) (by decide) hc
    · have h' : natKeys.contains k = true := h
      simp only [classifyVal, renderVal, h', if_true, String.ofList_toList, parseNat_toString]
  | str s =>
    refine ⟨h.2.2, ?_⟩
    simp only [classifyVal, renderVal, h.1, h.2.1, Bool.false_eq_true, if_false, String.ofList_toList]

/-- what the header loop makes of a written line -/
def rawOf (N : NumIO) : HLine → RawLine
  | .kv k v => .kv k (String.ofList (renderVal N v))
  | .other => .other
  | .beginData ws => .data ws

theorem toHLine_rawOf (N : NumIO) (L : N.Lawful) (l : HLine) (h : LineOk N l) : toHLine N (rawOf N l) = l := by
  cases l with
  | other => rfl
  | beginData ws => exact False.elim h
  | kv k v => simp only [rawOf, toHLine, (renderVal_ok N L k v h.2.1).2]

theorem classify_rendered (N : NumIO) (L : N.Lawful) (l : HLine) (h : LineOk N l) :
    classifyLine (renderLine N l) = rawOf N l := by
  cases l with
  | other => exact classify_other
  | beginData ws => exact False.elim h
  | kv k v =>
    obtain ⟨hk, hv, hd⟩ := h
    have hv' := (renderVal_ok N L k v hv).1
    have := classify_kv k.toList (renderVal N v) hd hk.2.1 hv'.2.1 hk.1 hv'.1
    simp only [renderLine, rawOf]
    rw [this, String.ofList_toList]

theorem newline_not_mem_rendered (N : NumIO) (L : N.Lawful) (l : HLine) (h : LineOk N l) :
    '\n' ∉ renderLine N l := by
  cases l with
  | other => simp [renderLine]
  | beginData ws => exact False.elim h
  | kv k v =>
    obtain ⟨hk, hv, _⟩ := h
    have hv' := (renderVal_ok N L k v hv).1
    simp only [renderLine, List.mem_cons, List.mem_append, not_or]
    refine ⟨by decide, by decide, hk.2.2, by decide, by decide, hv'.2.2⟩

theorem onLine_rendered (N : NumIO) (L : N.Lawful) (l : HLine) (h : LineOk N l) (rest : List Byte)
    (more : M LexRes) :
    onLine (utf8Enc (renderLine N l)) rest more =
      match more with
      | .error e => .error e
      | .ok p => .ok (rawOf N l :: p.1, p.2) := by
  unfold onLine
  rw [utf8Dec_enc]
  simp only [classify_rendered N L l h]
  cases l with
  | other => rfl
  | beginData ws => exact False.elim h
  | kv k v => rfl

/-- the data line is made of words -/
def WordsOk (ws : List String) : Prop := ∀ w ∈ ws, NoWs w.toList

theorem newline_not_mem_joinSp (ws : List (List Char)) (h : ∀ w ∈ ws, NoWs w) : '\n' ∉ joinSp ws := by
  induction ws with
  | nil => simp [joinSp]
  | cons w ws ih =>
    have hw : '\n' ∉ w := fun hc => by
      have := (h w (by simp)).2 _ hc
      revert this; decide
    cases ws with
    | nil => simpa [joinSp] using hw
    | cons v vs =>
      simp only [joinSp, List.mem_append, List.mem_cons, not_or]
      exact ⟨hw, by decide, ih (fun x hx => h x (by simp [hx]))⟩

theorem newline_not_mem_dataLine (N : NumIO) (ws : List String) (h : WordsOk ws) :
    '\n' ∉ renderLine N (.beginData ws) := by
  simp only [renderLine, List.mem_append, List.mem_cons, not_or]
  refine ⟨by decide, by decide, newline_not_mem_joinSp _ ?_⟩
  intro w hw
  obtain ⟨s, hs, rfl⟩ := List.mem_map.mp hw
  exact h s hs

/-- **the header loop reads back what the writer wrote**: header lines, then the data line; the
bytes that follow are the data section -/
theorem lexGo_header (N : NumIO) (L : N.Lawful) (hs : List HLine) (ws : List String) (tail : List Byte)
    (hok : ∀ l ∈ hs, LineOk N l) (hws : WordsOk ws) :
    lexGo (linesBytes N (hs ++ [.beginData ws]) ++ tail) [] = .ok (hs.map (rawOf N), some (ws, tail)) := by
  induction hs with
  | nil =>
    simp only [linesBytes, List.nil_append, List.flatMap_cons, List.flatMap_nil, List.append_nil,
      List.append_assoc, List.singleton_append, List.map_nil]
    rw [lexGo_line _ _ (newline_not_mem_enc _ (newline_not_mem_dataLine N ws hws))]
    simp only [List.reverse_nil, List.nil_append]
    unfold onLine
    rw [utf8Dec_enc]
    simp only [renderLine, classify_data ws hws]
  | cons l hs ih =>
    have hl := hok l (by simp)
    simp only [linesBytes, List.cons_append, List.flatMap_cons, List.append_assoc,
      List.map_cons] at ih ⊢
    rw [lexGo_line _ _ (newline_not_mem_enc _ (newline_not_mem_rendered N L l hl))]
    simp only [List.reverse_nil, List.nil_append]
    rw [onLine_rendered N L l hl, ih (fun x hx => hok x (by simp [hx]))]


end DFV.C09
