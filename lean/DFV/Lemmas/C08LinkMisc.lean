import DFV.Model.C06
import DFV.Model.C11
import DFV.Model.C15
import DFV.Lemmas.C08Wf
/-! C08 helper lemmas, part 18: links to the C06 model (directional mean / integral: results built
without `valid=` are valid everywhere on their own mesh), to the C11 model (the k-mesh of the FFT
family has the cells `FreshOp.shape` names) and to the C15 model (norm getter / setter,
orientation and `valid='norm'`). -/
namespace DFV.C08
open DFV

/-! ## C06: `mean(direction)` / `integrate(direction)` -/

theorem c06_mkFld_valid {m : Mesh} {nv : Nat} {data vd vm u} {g : Fld} (h : C06.mkFld m nv data vd vm u = .ok g) :
    g.valid = NDA.const g.mesh.n true := by
  unfold C06.mkFld at h
  split at h
  · cases h
  · simp only [Except.ok.injEq] at h; subst h; rfl

/-- every field the C06 model's `integrate` returns is valid in every cell of its own mesh -/
theorem c06_integrate_valid (f g : Fld) (dir : C06.Dir) (cum : Bool) (h : C06.integrate f dir cum = .ok (.field g)) :
    g.valid = NDA.const g.mesh.n true := by
  unfold C06.integrate at h
  split at h
  · split at h <;> cases h
  · split at h
    · cases h
    · split at h
      · split at h
        · cases h
        · rename_i g' hg'
          simp only [Except.ok.injEq, C06.Res.field.injEq] at h; subst h
          exact c06_mkFld_valid hg'
      · split at h
        · cases h
        · split at h
          · cases h
          · split at h
            · cases h
            · rename_i g' hg'
              simp only [Except.ok.injEq, C06.Res.field.injEq] at h; subst h
              exact c06_mkFld_valid hg'
  · cases h

/-- … and every field `mean` returns -/
theorem c06_mean_valid (f g : Fld) (dir : C06.Dir) (h : C06.mean f dir = .ok (.field g)) :
    g.valid = NDA.const g.mesh.n true := by
  unfold C06.mean at h
  split at h
  · cases h
  · split at h
    · cases h
    · split at h
      · cases h
      · split at h
        · cases h
        · split at h
          · cases h
          · split at h
            · cases h
            · rename_i g' hg'
              simp only [Except.ok.injEq, C06.Res.field.injEq] at h; subst h
              exact c06_mkFld_valid hg'
  · split at h
    · cases h
    · split at h
      · cases h
      · split at h
        · cases h
        · rename_i g' hg'
          simp only [Except.ok.injEq, C06.Res.field.injEq] at h; subst h
          exact c06_mkFld_valid hg'
  · cases h

/-- the mask the C08 evaluator gives a result built without `valid=` is that array, copied -/
theorem eval_fresh_eq (env : Nat → Mask) (k : FreshOp) (p : Prog) (m0 : Mask) (h0 : eval env p = .ok m0)
    (hok : k.ok m0.shape = true) : eval env (.fresh k p) = .ok (own (NDA.const (k.shape m0.shape) true)) := by
  simp only [eval, h0, hok, if_true, setMask]
  have : decide ((1 : Rat) ≠ 0) = true := by decide
  rw [this]

/-! ## C11: the k-mesh of the FFT family -/

theorem getD_mem (l : List Nat) (i : Nat) (h : i < l.length) : l.getD i 0 ∈ l := by
  rw [List.getD_eq_getElem?_getD, List.getElem?_eq_getElem h]
  exact List.getElem_mem _


theorem c11_mkN_n {r : Region} {n : List Nat} {bc : String} {k : Mesh} (h : Mesh.mkN? r n bc = .ok k) : k.n = n := by
  unfold Mesh.mkN? at h
  split at h
  · cases h
  · split at h
    · cases h
    · split at h
      · cases h
      · simp only [Except.ok.injEq] at h; subst h; rfl

/-- `mesh.fftn(rfft)`: the same number of cells, for `rfft` the last axis keeps `n // 2 + 1` -/
theorem c11_meshFftn_n (m k : Mesh) (rfft : Bool) (h : C11.meshFftn m rfft = .ok k) (hl : m.n.length = m.ndim) :
    k.n = (if rfft then FreshOp.rfft else FreshOp.spectrum).shape m.n := by
  unfold C11.meshFftn at h
  split at h
  · cases h
  · rw [c11_mkN_n h]
    cases rfft with
    | false =>
      show tab m.ndim (C11.kN m false) = m.n
      symm
      refine eq_tab_of_getD _ _ _ 0 hl fun i hi => ?_
      unfold C11.kN C11.kFreqs
      simp only [Bool.false_and, Bool.false_eq_true, if_false, C11.fftfreq, tab_length]
      split
      · rename_i h1; exact h1
      · rfl
    | true =>
      show tab m.ndim (C11.kN m true) = tab m.n.length fun b => if b + 1 = m.n.length then m.n.getD b 0 / 2 + 1 else m.n.getD b 0
      rw [hl]
      apply tab_congr
      intro i hi
      unfold C11.kN C11.kFreqs
      by_cases c : i = m.ndim - 1
      · have e : i + 1 = m.ndim := by omega
        have cb : (true && (i == m.ndim - 1)) = true := by simp [c]
        rw [if_pos cb, if_pos e]
        simp only [C11.rfftfreq, tab_length]
        split
        · rename_i h1
          have : m.n.getD i 0 = 1 := h1
          rw [this]
        · rfl
      · have e : ¬ (i + 1 = m.ndim) := by omega
        have cb : ¬ ((true && (i == m.ndim - 1)) = true) := by simp [c]
        rw [if_neg cb, if_neg e]
        simp only [C11.fftfreq, tab_length]
        split
        · rename_i h1; exact h1.symm
        · rfl

/-- `mesh.ifftn(rfft=True, shape)`: accepted shapes are those `FreshOp.irfft` accepts, and the result
has the cells it names -/
theorem c11_meshIfftn_n (m k : Mesh) (shape : Option (List Nat)) (h : C11.meshIfftn m true shape = .ok k)
    (hl : m.n.length = m.ndim) (hnd : 0 < m.ndim) :
    (FreshOp.irfft (shape.map fun s => s.getD (m.ndim - 1) 0)).ok m.n = true ∧
    k.n = (FreshOp.irfft (shape.map fun s => s.getD (m.ndim - 1) 0)).shape m.n := by
  unfold C11.meshIfftn at h
  split at h
  · cases h
  · rename_i s hs
    split at h
    · cases h
    · rename_i hz
      split at h
      · cases h
      · split at h
        · cases h
        · rename_i k' hk'
          simp only [Except.ok.injEq] at h; subst h
          have hkn : (C11.recentre k').n = tab m.ndim (C11.rN s) := (c11_mkN_n hk' : k'.n = _)
          have hrN : ∀ i, C11.rN s i = s.getD i 0 := by
            intro i
            unfold C11.rN
            split
            · rename_i h1; exact h1.symm
            · simp [C11.fftfreq]
          have hpos : ∀ x ∈ s, x ≠ 0 := by
            intro x hx h0
            apply hz
            simp only [List.any_eq_true, decide_eq_true_eq]
            exact ⟨x, hx, h0⟩
          -- the shape `ifftShape` settles on
          have hshape : s.length = m.ndim ∧ (∀ a, a < m.ndim - 1 → s.getD a 0 = m.nAt a) ∧
              s.getD (m.ndim - 1) 0 = irfftLast (shape.map fun s => s.getD (m.ndim - 1) 0) m.n ∧
              s.getD (m.ndim - 1) 0 / 2 + 1 = m.nAt (m.ndim - 1) := by
            cases shape with
            | some s0 =>
              simp only [C11.ifftShape] at hs
              split at hs
              · cases hs
              · rename_i h1
                split at hs
                · cases hs
                · rename_i h2
                  split at hs
                  · cases hs
                  · rename_i h3
                    simp only [Except.ok.injEq] at hs; subst hs
                    refine ⟨by simpa using h1, fun a ha => ?_, rfl, by simpa using h3⟩
                    have := (allLt_iff _ _).mp (by simpa using h2) a ha
                    simpa using this
            | none =>
              simp only [C11.ifftShape, Bool.true_and, Except.ok.injEq] at hs
              by_cases c : m.nAt (m.ndim - 1) = 1
              · have c' : (m.nAt (m.ndim - 1) != 1) = false := by simp [c]
                rw [c'] at hs
                simp only [Bool.false_eq_true, if_false] at hs
                subst hs
                have c2 : m.n.getD (m.ndim - 1) 0 = 1 := c
                refine ⟨hl, fun a _ => rfl, ?_, ?_⟩
                · simp only [Option.map_none, irfftLast, hl]
                  rw [if_pos c2]; exact c2
                · rw [c2]; exact c.symm
              · have c' : (m.nAt (m.ndim - 1) != 1) = true := by simp [c]
                rw [c'] at hs
                simp only [if_true] at hs
                have c2 : ¬ m.n.getD (m.ndim - 1) 0 = 1 := c
                have hset : s.getD (m.ndim - 1) 0 = (m.nAt (m.ndim - 1) - 1) * 2 := by
                  rw [← hs]; exact T.getD_setAt_eq _ _ _ _ (by omega)
                have hsl : s.length = m.ndim := by rw [← hs, T.setAt_length]; exact hl
                refine ⟨hsl, fun a ha => ?_, ?_, ?_⟩
                · rw [← hs, T.getD_setAt_ne _ _ _ _ _ (by omega)]; rfl
                · rw [hset]
                  simp only [Option.map_none, irfftLast, hl]
                  rw [if_neg c2]; rfl
                · rw [hset]
                  have h0 : s.getD (m.ndim - 1) 0 ≠ 0 := hpos _ (getD_mem s _ (by omega))
                  rw [hset] at h0
                  have : 2 ≤ m.nAt (m.ndim - 1) := by
                    by_contra c0
                    have : m.nAt (m.ndim - 1) - 1 = 0 := by omega
                    rw [this] at h0; exact h0 rfl
                  omega
          obtain ⟨hsl, hlead, hlast, hhalf⟩ := hshape
          have hlastpos : 0 < s.getD (m.ndim - 1) 0 := by
            have : s.getD (m.ndim - 1) 0 ≠ 0 := hpos _ (getD_mem s _ (by omega))
            omega
          refine ⟨?_, ?_⟩
          · simp only [FreshOp.ok, Bool.and_eq_true, decide_eq_true_eq]
            rw [hl, ← hlast]
            exact ⟨⟨hnd, hlastpos⟩, hhalf⟩
          · rw [hkn]
            show tab m.ndim (C11.rN s) = tab m.n.length fun b => if b + 1 = m.n.length then _ else m.n.getD b 0
            rw [hl]
            apply tab_congr
            intro i hi
            rw [hrN]
            by_cases c : i + 1 = m.ndim
            · rw [if_pos c, ← hlast]
              congr 1; omega
            · rw [if_neg c]
              exact hlead i (by omega)

/-! ## C15: norm, orientation, `valid='norm'` -/

theorem sumSq_eq_sqLen (v : List Rat) : sumSq v = C15.sqLen v := by
  induction v with
  | nil => rfl
  | cons x xs ih => simp only [sumSq, C15.sqLen, ih]

/-- for a non-negative root `s` of `x`: `|s| ≤ a` exactly when `x ≤ a²` (`a ≥ 0`) -/
theorem closeZero_iff (sqrt : Rat → Rat) (x a : Rat) (ha : 0 ≤ a) (hs : C15.SqrtAt sqrt x) :
    (!C15.closeZero a (sqrt x)) = decide (a * a < x) := by
  obtain ⟨h0, h1⟩ := hs
  unfold C15.closeZero C15.absK
  rw [if_neg (by linarith)]
  rw [Bool.eq_iff_iff]
  simp only [Bool.not_eq_true', decide_eq_false_iff_not, not_le, decide_eq_true_eq]
  have hx : a * a < x ↔ a * a < sqrt x * sqrt x := by rw [h1]
  rw [hx]
  generalize sqrt x = s at h0
  constructor
  · intro h; nlinarith
  · intro h
    by_contra c
    have : s ≤ a := by linarith
    nlinarith

/-- the norm setter, `update_field_values`-free histories: validity is never touched -/
theorem c15_setNorm_valid {sqrt} {f g : Fld} {s : Option C15.NSpec} (h : C15.setNorm sqrt f s = .ok g) :
    g.valid = f.valid ∧ g.mesh = f.mesh := by
  cases s with
  | none => simp only [C15.setNorm, Except.ok.injEq] at h; subst h; exact ⟨rfl, rfl⟩
  | some sp =>
    simp only [C15.setNorm] at h
    split at h
    · cases h
    · simp only [Except.ok.injEq] at h; subst h; exact ⟨rfl, rfl⟩

theorem c15_update_valid {f g : Fld} {v : C15.VSpec} (h : C15.updateValues f v = .ok g) :
    g.valid = f.valid ∧ g.mesh = f.mesh := by
  unfold C15.updateValues at h
  split at h
  · cases h
  · simp only [Except.ok.injEq] at h; subst h; exact ⟨rfl, rfl⟩

/-- a statement of a C15 history that is not `field.valid = …` -/
def notSetValid : C15.Step → Bool
  | .setValid _ => false
  | _ => true

theorem c15_run_valid (sqrt : Rat → Rat) (atol : Rat) : ∀ (steps : List C15.Step) (f g : Fld),
    C15.run sqrt atol f steps = .ok g → steps.all notSetValid = true → g.valid = f.valid ∧ g.mesh = f.mesh := by
  intro steps
  induction steps with
  | nil => intro f g h _; simp only [C15.run, Except.ok.injEq] at h; subst h; exact ⟨rfl, rfl⟩
  | cons s rest ih =>
    intro f g h ha
    simp only [List.all_cons, Bool.and_eq_true] at ha
    simp only [C15.run] at h
    split at h
    · cases h
    · rename_i f1 hf1
      obtain ⟨e1, e2⟩ := ih f1 g h ha.2
      have : f1.valid = f.valid ∧ f1.mesh = f.mesh := by
        cases s with
        | setNorm sp => exact c15_setNorm_valid hf1
        | update v => exact c15_update_valid hf1
        | setValid sp => simp [notSetValid] at ha
      exact ⟨e1.trans this.1, e2.trans this.2⟩

end DFV.C08
