import DFV.Lemmas.C02Geom
/-! C02 helper lemmas, part 5: the `cells` coordinate lists and nearest-neighbour selection. -/
namespace DFV.C02
open DFV DFV.Mesh

/-- `mesh.cells` lists the cell centres -/
theorem cells_getD (m : Mesh) (hm : m.Inv) (a : Nat) (ha : a < m.ndim) (k : Nat) (hk : k < m.nAt a) :
    (m.cells.getD a []).getD k 0 = m.centreAx a (k : Nat) := by
  have hn := inv_n_pos m hm a ha
  have hcov := cells_cover m a hn
  unfold Region.edge at hcov
  unfold Mesh.cells
  rw [getD_tab _ _ _ _ ha]
  unfold linspace centreAx
  by_cases h1 : m.nAt a = 1
  · have : k = 0 := by omega
    subst this
    simp [h1]
    ring
  · simp only [h1, if_false]
    rw [getD_tab _ _ _ _ hk]
    have hne : (m.nAt a : Rat) - 1 ≠ 0 := by
      have : (2 : Rat) ≤ (m.nAt a : Rat) := by exact_mod_cast (by omega : 2 ≤ m.nAt a)
      linarith
    have : (m.region.hi a - m.cellAt a / 2 - (m.region.lo a + m.cellAt a / 2)) / ((m.nAt a : Rat) - 1) = m.cellAt a := by
      rw [div_eq_iff hne]; linarith
    rw [this]; push_cast; ring

/-! ### nearest coordinate, ties to the larger index -/

theorem nearestFn_le (cf : Nat → Rat) (x : Rat) (N : Nat) : nearestFn cf x N ≤ N := by
  induction N with
  | zero => simp [nearestFn]
  | succ N ih =>
    simp only [nearestFn, pick]
    split <;> omega

theorem nearestFn_min (cf : Nat → Rat) (x : Rat) (N j : Nat) (hj : j ≤ N) :
    absR (cf (nearestFn cf x N) - x) ≤ absR (cf j - x) := by
  induction N with
  | zero => have : j = 0 := by omega
            subst this; simp [nearestFn]
  | succ N ih =>
    simp only [nearestFn, pick]
    by_cases hlast : j = N + 1
    · subst hlast
      split
      · exact le_refl _
      · rename_i h; exact le_of_lt (not_le.mp h)
    · have := ih (by omega)
      split
      · rename_i h; exact le_trans h this
      · exact this

/-- ties go to the larger index -/
theorem nearestFn_tie (cf : Nat → Rat) (x : Rat) (N j : Nat) (hj : j ≤ N)
    (h : absR (cf j - x) = absR (cf (nearestFn cf x N) - x)) : j ≤ nearestFn cf x N := by
  induction N with
  | zero => omega
  | succ N ih =>
    simp only [nearestFn, pick] at h ⊢
    split
    · omega
    · rename_i hgt
      simp only [hgt, if_false] at h
      by_cases hlast : j = N + 1
      · subst hlast; exact absurd (le_of_eq h) hgt
      · exact ih (by omega) h

theorem nearestFn_congr (cf cg : Nat → Rat) (x : Rat) (N : Nat) (h : ∀ k, k ≤ N → cf k = cg k) :
    nearestFn cf x N = nearestFn cg x N := by
  induction N with
  | zero => rfl
  | succ N ih =>
    have e := ih fun k hk => h k (by omega)
    simp only [nearestFn, pick, e, h (N + 1) (le_refl _), h (nearestFn cg x N) (by have := nearestFn_le cg x N; omega)]

/-- the source cell selected for a coordinate `x` of the source edge contains `x` -/
theorem nearest_contains (sm : Mesh) (hm : sm.Inv) (a : Nat) (ha : a < sm.ndim) (x : Rat)
    (hlo : sm.region.lo a ≤ x) (hhi : x ≤ sm.region.hi a) :
    nearestFn (fun k => (sm.cells.getD a []).getD k 0) x (sm.nAt a - 1) < sm.nAt a ∧
    sm.region.lo a + (nearestFn (fun k => (sm.cells.getD a []).getD k 0) x (sm.nAt a - 1) : Rat) * sm.cellAt a ≤ x ∧
    x ≤ sm.region.lo a + ((nearestFn (fun k => (sm.cells.getD a []).getD k 0) x (sm.nAt a - 1) : Rat) + 1) * sm.cellAt a := by
  have hn := inv_n_pos sm hm a ha
  have hr := inv_lo_lt_hi sm hm a ha
  have hc := cell_pos sm a hn hr
  rw [nearestFn_congr _ (fun k => sm.centreAx a (k : Nat)) x _ (fun k hk => cells_getD sm hm a ha k (by omega))]
  set K := nearestFn (fun k => sm.centreAx a (k : Nat)) x (sm.nAt a - 1) with hK
  have hKle := nearestFn_le (fun k => sm.centreAx a (k : Nat)) x (sm.nAt a - 1)
  obtain ⟨j1, j2, j3⟩ := indexAx_contains sm a x hn hr hlo hhi
  have hmin := nearestFn_min (fun k => sm.centreAx a (k : Nat)) x (sm.nAt a - 1) (sm.indexAx a x) (by omega)
  rw [← hK] at hmin hKle
  simp only [absR_eq_abs] at hmin
  have hcov := cells_cover sm a hn
  unfold Region.edge at hcov
  -- the floor cell is within half a cell of x
  have hj : |sm.centreAx a (sm.indexAx a x : Nat) - x| ≤ sm.cellAt a / 2 := by
    unfold centreAx
    rw [abs_le]
    push_cast
    rcases j3 with j3 | ⟨j3, j4⟩
    · constructor <;> nlinarith
    · have : ((sm.indexAx a x : Nat) : Rat) = (sm.nAt a : Rat) - 1 := by
        rw [j3, Nat.cast_sub (by omega)]; simp
      rw [this, j4]
      constructor <;> nlinarith
  have hk := le_trans hmin hj
  unfold centreAx at hk
  rw [abs_le] at hk
  push_cast at hk
  refine ⟨by omega, ?_, ?_⟩ <;> nlinarith [hk.1, hk.2]

end DFV.C02
