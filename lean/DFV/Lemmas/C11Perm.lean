import Mathlib.Data.List.Rotate
import DFV.Lemmas.C11Shift
/-!
C11: `fftshift` / `ifftshift` as permutations.  On lists: `fftshift` is the rotation by
`⌈n/2⌉`, a permutation of the entries, undone by `ifftshift` (rotation by `⌊n/2⌋`) for every
length.  On index boxes: both maps send the box onto itself and are mutually inverse.
-/
namespace DFV.C11
open DFV

/-- `np.fft.ifftshift` of a 1-d list: `roll` by `-(n // 2)` -/
def ifftshiftL (xs : List Rat) : List Rat :=
  tab xs.length fun j => xs.getD ((j + xs.length / 2) % xs.length) 0

theorem fftshiftL_length (xs : List Rat) : (fftshiftL xs).length = xs.length := by simp [fftshiftL]
theorem ifftshiftL_length (xs : List Rat) : (ifftshiftL xs).length = xs.length := by simp [ifftshiftL]

theorem tab_eq_rotate (xs : List Rat) (s : Nat) :
    tab xs.length (fun j => xs.getD ((j + s) % xs.length) 0) = xs.rotate s := by
  apply List.ext_getElem
  · simp
  · intro i h1 h2
    have hi : i < xs.length := by simpa using h1
    rw [getElem_tab, List.getElem_rotate]
    have hlt : (i + s) % xs.length < xs.length := Nat.mod_lt _ (by omega)
    rw [List.getD_eq_getElem?_getD, List.getElem?_eq_getElem hlt, Option.getD_some]

/-- `fftshift` of a list is its rotation by `⌈n/2⌉` -/
theorem fftshiftL_eq_rotate (xs : List Rat) : fftshiftL xs = xs.rotate (xs.length - xs.length / 2) :=
  tab_eq_rotate xs _

/-- `ifftshift` of a list is its rotation by `⌊n/2⌋` -/
theorem ifftshiftL_eq_rotate (xs : List Rat) : ifftshiftL xs = xs.rotate (xs.length / 2) :=
  tab_eq_rotate xs _

theorem fftshiftL_perm (xs : List Rat) : (fftshiftL xs).Perm xs := by
  rw [fftshiftL_eq_rotate]; exact List.rotate_perm _ _

theorem ifftshiftL_fftshiftL (xs : List Rat) : ifftshiftL (fftshiftL xs) = xs := by
  rw [ifftshiftL_eq_rotate, fftshiftL_eq_rotate, List.length_rotate, List.rotate_rotate]
  have : xs.length - xs.length / 2 + xs.length / 2 = xs.length := by omega
  rw [this, List.rotate_length]

theorem fftshiftL_ifftshiftL (xs : List Rat) : fftshiftL (ifftshiftL xs) = xs := by
  rw [fftshiftL_eq_rotate, ifftshiftL_eq_rotate, List.length_rotate, List.rotate_rotate]
  have : xs.length / 2 + (xs.length - xs.length / 2) = xs.length := by omega
  rw [this, List.rotate_length]

theorem ishift_getD (ns m : List Nat) (h : m.length = ns.length) (a : Nat) (ha : a < ns.length) :
    (ishift ns m).getD a 0 = (m.getD a 0 + ns.getD a 0 / 2) % ns.getD a 0 := by
  induction ns generalizing m a with
  | nil => simp at ha
  | cons n ns ih =>
    cases m with
    | nil => simp at h
    | cons j js =>
      cases a with
      | zero => simp [ishift]
      | succ a =>
        simp only [ishift, List.getD_cons_succ]
        exact ih js (by simpa using h) a (by simpa using ha)

end DFV.C11
