import DFV.Model.C09Lex
/-! UTF-8 lemmas for the byte-level header model of C09: strict decoding undoes encoding, the
encoding of text without a newline contains no byte 10. -/
namespace DFV.C09
open DFV

theorem utf8Dec_cons (b : Nat) (bs : List Nat) : utf8Dec (b :: bs) =
    if b < 128 then (utf8Dec bs).map fun r => Char.ofNat b :: r
    else if b < 194 then none
    else if b < 224 then
      match bs with
      | b1 :: r =>
        if isCont b1 then (utf8Dec r).map fun t => Char.ofNat (cp2 b b1) :: t else none
      | _ => none
    else if b < 240 then
      match bs with
      | b1 :: b2 :: r =>
        if isCont b1 && isCont b2 && decide (2048 ≤ cp3 b b1 b2)
            && !(decide (55296 ≤ cp3 b b1 b2) && decide (cp3 b b1 b2 < 57344)) then
          (utf8Dec r).map fun t => Char.ofNat (cp3 b b1 b2) :: t
        else none
      | _ => none
    else if b < 245 then
      match bs with
      | b1 :: b2 :: b3 :: r =>
        if isCont b1 && isCont b2 && isCont b3 && decide (65536 ≤ cp4 b b1 b2 b3)
            && decide (cp4 b b1 b2 b3 < 1114112) then
          (utf8Dec r).map fun t => Char.ofNat (cp4 b b1 b2 b3) :: t
        else none
      | _ => none
    else none := by
  rw [utf8Dec.eq_def]
  rfl

theorem char_range (c : Char) : c.toNat < 55296 ∨ (57343 < c.toNat ∧ c.toNat < 1114112) := by
  have := c.valid
  simp only [UInt32.isValidChar, Nat.isValidChar] at this
  exact this

theorem utf8Dec_encChar_append (c : Char) (r : List Nat) :
    utf8Dec (utf8EncChar c ++ r) = (utf8Dec r).map fun t => c :: t := by
  have hv := char_range c
  unfold utf8EncChar
  by_cases h1 : c.toNat < 128
  · simp only [h1, if_true, List.cons_append, List.nil_append]
    rw [utf8Dec_cons]
    simp only [h1, if_true, Char.ofNat_toNat]
  · by_cases h2 : c.toNat < 2048
    · simp only [h1, h2, if_true, if_false, List.cons_append, List.nil_append]
      rw [utf8Dec_cons]
      have a1 : ¬ (192 + c.toNat / 64 < 128) := by omega
      have a2 : ¬ (192 + c.toNat / 64 < 194) := by omega
      have a3 : 192 + c.toNat / 64 < 224 := by omega
      have a4 : isCont (128 + c.toNat % 64) = true := by
        unfold isCont; simp only [Bool.and_eq_true, decide_eq_true_eq]; omega
      have a5 : cp2 (192 + c.toNat / 64) (128 + c.toNat % 64) = c.toNat := by unfold cp2; omega
      simp only [a1, a2, a3, a4, a5, if_true, if_false, Char.ofNat_toNat]
    · by_cases h3 : c.toNat < 65536
      · simp only [h1, h2, h3, if_true, if_false, List.cons_append, List.nil_append]
        rw [utf8Dec_cons]
        have a1 : ¬ (224 + c.toNat / 4096 < 128) := by omega
        have a2 : ¬ (224 + c.toNat / 4096 < 194) := by omega
        have a3 : ¬ (224 + c.toNat / 4096 < 224) := by omega
        have a3' : 224 + c.toNat / 4096 < 240 := by omega
        have a4 : isCont (128 + c.toNat / 64 % 64) = true := by
          unfold isCont; simp only [Bool.and_eq_true, decide_eq_true_eq]; omega
        have a4' : isCont (128 + c.toNat % 64) = true := by
          unfold isCont; simp only [Bool.and_eq_true, decide_eq_true_eq]; omega
        have a5 : cp3 (224 + c.toNat / 4096) (128 + c.toNat / 64 % 64) (128 + c.toNat % 64) = c.toNat := by
          unfold cp3; omega
        have a6 : decide (2048 ≤ c.toNat) = true := by simp only [decide_eq_true_eq]; omega
        have a7 : (decide (55296 ≤ c.toNat) && decide (c.toNat < 57344)) = false := by
          simp only [Bool.and_eq_false_iff, decide_eq_false_iff_not]; omega
        simp only [a1, a2, a3, a3', a4, a4', a5, a6, a7, if_true, if_false, Char.ofNat_toNat, Bool.and_self,
          Bool.not_false]
      · simp only [h1, h2, h3, if_false, List.cons_append, List.nil_append]
        rw [utf8Dec_cons]
        have a1 : ¬ (240 + c.toNat / 262144 < 128) := by omega
        have a2 : ¬ (240 + c.toNat / 262144 < 194) := by omega
        have a3 : ¬ (240 + c.toNat / 262144 < 224) := by omega
        have a3' : ¬ (240 + c.toNat / 262144 < 240) := by omega
        have a3'' : 240 + c.toNat / 262144 < 245 := by omega
        have a4 : isCont (128 + c.toNat / 4096 % 64) = true := by
          unfold isCont; simp only [Bool.and_eq_true, decide_eq_true_eq]; omega
        have a4' : isCont (128 + c.toNat / 64 % 64) = true := by
          unfold isCont; simp only [Bool.and_eq_true, decide_eq_true_eq]; omega
        have a4'' : isCont (128 + c.toNat % 64) = true := by
          unfold isCont; simp only [Bool.and_eq_true, decide_eq_true_eq]; omega
        have a5 : cp4 (240 + c.toNat / 262144) (128 + c.toNat / 4096 % 64) (128 + c.toNat / 64 % 64)
            (128 + c.toNat % 64) = c.toNat := by
          unfold cp4; omega
        have a6 : decide (65536 ≤ c.toNat) = true := by simp only [decide_eq_true_eq]; omega
        have a7 : decide (c.toNat < 1114112) = true := by simp only [decide_eq_true_eq]; omega
        simp only [a1, a2, a3, a3', a3'', a4, a4', a4'', a5, a6, a7, if_true, if_false, Char.ofNat_toNat,
          Bool.and_self]

theorem utf8Dec_enc (cs : List Char) : utf8Dec (utf8Enc cs) = some cs := by
  induction cs with
  | nil => rfl
  | cons c cs ih =>
    show utf8Dec (utf8EncChar c ++ utf8Enc cs) = _
    rw [utf8Dec_encChar_append, ih]; rfl

/-- a byte below 128 in the encoding of a character is the character itself -/
theorem encChar_ascii (c : Char) (b : Nat) (hb : b ∈ utf8EncChar c) (h : b < 128) : c.toNat = b := by
  unfold utf8EncChar at hb
  split at hb
  · simp only [List.mem_cons, List.mem_nil_iff, or_false] at hb; omega
  · split at hb
    · simp only [List.mem_cons, List.mem_nil_iff, or_false] at hb; omega
    · split at hb
      · simp only [List.mem_cons, List.mem_nil_iff, or_false] at hb; omega
      · simp only [List.mem_cons, List.mem_nil_iff, or_false] at hb; omega

theorem newline_not_mem_enc (cs : List Char) (h : '\n' ∉ cs) : 10 ∉ utf8Enc cs := by
  intro hm
  unfold utf8Enc at hm
  rw [List.mem_flatMap] at hm
  obtain ⟨c, hc, hb⟩ := hm
  have := encChar_ascii c 10 hb (by omega)
  have hc' : c = '\n' := by
    rw [← Char.ofNat_toNat c, this]
  exact h (hc' ▸ hc)

end DFV.C09
