import DFV.Lemmas.C18Interp
/-! The padded node grid of `_create_interpolation_funcs` for C18. -/
namespace DFV.C18
open DFV DFV.Mesh

/-- what the theorems need of the original mesh on axis `a`: positive edge and cell count -/
def AxOk (m : Mesh) (a : Nat) : Prop := m.region.lo a < m.region.hi a ∧ 0 < m.nAt a

/-- three good axes -/
def Mesh3 (m : Mesh) : Prop := ∀ a, a < 3 → AxOk m a

theorem cell_pos (m : Mesh) (a : Nat) (h : AxOk m a) : 0 < m.cellAt a := by
  unfold cellAt Region.edge
  have : (0 : Rat) < (m.nAt a : Rat) := by exact_mod_cast h.2
  exact div_pos (by linarith [h.1]) this

theorem n_mul_cell (m : Mesh) (a : Nat) (h : AxOk m a) : (m.nAt a : Rat) * m.cellAt a = m.region.hi a - m.region.lo a := by
  unfold cellAt Region.edge
  have : (m.nAt a : Rat) ≠ 0 := by exact_mod_cast (Nat.pos_iff_ne_zero.mp h.2)
  field_simp

theorem tolI_pos : (0 : Rat) < tolI := by unfold tolI; norm_num

theorem gridNode_zero (m : Mesh) (a : Nat) :
    gridNode m a 0 = m.region.lo a - m.cellAt a * tolI - centreAt m a := by
  unfold gridNode; simp

theorem gridNode_last (m : Mesh) (a : Nat) :
    gridNode m a (m.nAt a + 1) = m.region.hi a + m.cellAt a * tolI - centreAt m a := by
  unfold gridNode; simp

/-- interior nodes are the cell centres (the `np.linspace` of the code), relative to the region centre -/
theorem gridNode_interior (m : Mesh) (a : Nat) (h : AxOk m a) (j : Nat) (h1 : 1 ≤ j) (h2 : j ≤ m.nAt a) :
    gridNode m a j = m.region.lo a + (((j - 1 : Nat) : Rat) + 1/2) * m.cellAt a - centreAt m a := by
  have hcov := n_mul_cell m a h
  unfold gridNode
  rw [if_neg (by omega), if_neg (by omega)]
  congr 1
  unfold linspace
  by_cases hn1 : m.nAt a = 1
  · have hj : j = 1 := by omega
    subst hj
    rw [if_pos hn1]
    simp
    ring
  · rw [if_neg hn1, getD_tab _ _ _ _ (by omega)]
    have hnq : (m.nAt a : Rat) - 1 ≠ 0 := by
      have : (2 : Rat) ≤ (m.nAt a : Rat) := by exact_mod_cast (by omega : 2 ≤ m.nAt a)
      intro h; linarith
    have hdiff : (m.region.hi a - m.cellAt a / 2 - (m.region.lo a + m.cellAt a / 2)) = ((m.nAt a : Rat) - 1) * m.cellAt a := by
      linarith
    rw [hdiff]
    field_simp
    ring

/-- the node grid is strictly increasing -/
theorem gridNode_strict (m : Mesh) (a : Nat) (h : AxOk m a) (j : Nat) (hj : j ≤ m.nAt a) :
    gridNode m a j < gridNode m a (j + 1) := by
  have hc := cell_pos m a h
  have hcov := n_mul_cell m a h
  have ht := tolI_pos
  by_cases h0 : j = 0
  · subst h0
    rw [gridNode_zero, gridNode_interior m a h 1 (by omega) (by have := h.2; omega)]
    simp
    nlinarith
  · by_cases hl : j = m.nAt a
    · subst hl
      rw [gridNode_last, gridNode_interior m a h _ (by omega) (Nat.le_refl _)]
      have hcast : (((m.nAt a - 1 : Nat)) : Rat) = (m.nAt a : Rat) - 1 := by
        rw [Nat.cast_sub (by omega)]; simp
      rw [hcast]
      nlinarith
    · rw [gridNode_interior m a h j (by omega) hj, gridNode_interior m a h (j + 1) (by omega) (by omega)]
      have hcast : (((j + 1 - 1 : Nat)) : Rat) = ((j - 1 : Nat) : Rat) + 1 := by
        have : j + 1 - 1 = (j - 1) + 1 := by omega
        rw [this]; push_cast; ring
      rw [hcast]
      nlinarith

theorem gridNode_ne (m : Mesh) (a : Nat) (h : AxOk m a) (j : Nat) (hj : j ≤ m.nAt a) :
    gridNode m a (j + 1) - gridNode m a j ≠ 0 := by
  have := gridNode_strict m a h j hj
  intro e; linarith

theorem gridNode_mono (m : Mesh) (a : Nat) (h : AxOk m a) (i j : Nat) (hij : i < j) (hj : j ≤ m.nAt a + 1) :
    gridNode m a i < gridNode m a j := by
  induction j with
  | zero => omega
  | succ k ih =>
    by_cases hk : i = k
    · subst hk; exact gridNode_strict m a h i (by omega)
    · exact lt_trans (ih (by omega) (by omega)) (gridNode_strict m a h k (by omega))

theorem padIdx_interior (n j : Nat) (h1 : 1 ≤ j) (h2 : j ≤ n) : padIdx n j = j - 1 := by
  unfold padIdx; omega

/-- a coordinate between the first and the last cell centre (strictly below the last) is
bracketed by two interior nodes -/
theorem findIdx_interior (m : Mesh) (a : Nat) (x : Rat)
    (hlo : gridNode m a 1 ≤ x) (hhi : x < gridNode m a (m.nAt a)) (hn : 1 ≤ m.nAt a) :
    1 ≤ findIdx (gridNode m a) x (m.nAt a) ∧ findIdx (gridNode m a) x (m.nAt a) + 1 ≤ m.nAt a := by
  refine ⟨findIdx_ge _ _ _ 1 hn hlo, ?_⟩
  have hle := findIdx_le (gridNode m a) x (m.nAt a)
  by_contra hc
  have he : findIdx (gridNode m a) x (m.nAt a) = m.nAt a := by omega
  rcases findIdx_spec (gridNode m a) x (m.nAt a) with h0 | h0
  · omega
  · rw [he] at h0; linarith

/-- at an interior node the search returns that node -/
theorem findIdx_node (m : Mesh) (a : Nat) (h : AxOk m a) (j : Nat) (hj : j ≤ m.nAt a) :
    findIdx (gridNode m a) (gridNode m a j) (m.nAt a) = j := by
  apply findIdx_eq _ _ _ _ hj (Or.inl (le_refl _))
  intro k hk hkm
  exact gridNode_mono m a h j k hk (by omega)

end DFV.C18
