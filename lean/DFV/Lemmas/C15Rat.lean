import Mathlib.Data.Rat.Lemmas
import Mathlib.Data.Nat.Sqrt
import DFV.Lemmas.C15
/-!
The executable rational square root `sqrtQ` (the driver's instantiation of the `sqrt`
parameter) is the exact non-negative root on every rational square, so the `SqrtAt`
hypothesis of the C15 theorems holds for every cell whose length is rational (all
scaled Pythagorean vectors of the exact-regime correspondence run).
-/
namespace DFV.C15

theorem sqrtQ_mul_self (q : Rat) : sqrtQ (q * q) = |q| := by
  unfold sqrtQ
  by_cases hq : q = 0
  · subst hq; simp
  · have hpos : 0 < q * q := mul_self_pos.mpr hq
    have h1 : ¬ (q * q ≤ 0) := not_le.mpr hpos
    have hn : (q * q).num.toNat = q.num.natAbs * q.num.natAbs := by
      rw [Rat.mul_self_num, ← Int.natAbs_mul_self, Int.toNat_natCast]
    have hd : (q * q).den = q.den * q.den := Rat.mul_self_den q
    simp only [h1, if_false, hn, hd, Nat.sqrt_eq, and_self, if_true]
    rw [Rat.abs_def, Rat.divInt_eq_div]
    congr 1

theorem sqrtQ_sqrtAt (q : Rat) : SqrtAt sqrtQ (q * q) := by
  refine ⟨?_, ?_⟩
  · rw [sqrtQ_mul_self]; exact abs_nonneg q
  · rw [sqrtQ_mul_self]; exact abs_mul_abs_self q

/-- the same with the side condition spelled as "is a rational square" -/
theorem sqrtQ_sqrtAt_of_isSquare {x : Rat} (h : ∃ q : Rat, x = q * q) : SqrtAt sqrtQ x := by
  obtain ⟨q, rfl⟩ := h
  exact sqrtQ_sqrtAt q

theorem sqrtQ_zero : SqrtAt sqrtQ 0 := by
  simpa using sqrtQ_sqrtAt 0

end DFV.C15
