import DFV.Lemmas.C06Centre
/-! Order independence (C06): a chained integral over a list of directions depends on the list
only as a multiset — axes looked up by name, keep-mask, integrated extent are permutation
invariant. -/
namespace DFV.C06
open DFV

theorem dimIndices_perm (r : Region) (ds ds' : List String) (hp : ds.Perm ds') (axes : List Nat)
    (h : dimIndices r ds = .ok axes) : ∃ axes', dimIndices r ds' = .ok axes' ∧ axes.Perm axes' := by
  induction hp generalizing axes with
  | nil => exact ⟨axes, h, List.Perm.refl _⟩
  | cons d _ ih =>
    simp only [dimIndices] at h
    split at h
    · cases h
    · rename_i a ha
      split at h
      · cases h
      · rename_i t ht
        injection h with h; subst h
        obtain ⟨t', ht', hpt⟩ := ih t ht
        exact ⟨a :: t', by simp only [dimIndices, ha, ht'], List.Perm.cons a hpt⟩
  | swap d e l =>
    simp only [dimIndices] at h
    split at h
    · cases h
    · rename_i a ha
      split at h
      · cases h
      · rename_i t ht
        split at ht
        · cases ht
        · rename_i b hb
          split at ht
          · cases ht
          · rename_i u hu
            injection ht with ht; subst ht
            injection h with h; subst h
            exact ⟨b :: a :: u, by simp only [dimIndices, ha, hb, hu], List.Perm.swap _ _ _⟩
  | trans _ _ ih1 ih2 =>
    obtain ⟨a1, h1, p1⟩ := ih1 axes h
    obtain ⟨a2, h2, p2⟩ := ih2 a1 h1
    exact ⟨a2, h2, p1.trans p2⟩

theorem keepMask_perm (n : Nat) (axes axes' : List Nat) (hp : axes.Perm axes') : keepMask n axes = keepMask n axes' := by
  unfold keepMask
  apply tab_congr
  intro k _
  have : axes.contains k = axes'.contains k := by
    rw [Bool.eq_iff_iff]
    simp only [List.contains_iff_mem]
    exact hp.mem_iff
  rw [this]

theorem extent_perm (r : Region) (ds ds' : List String) (hp : ds.Perm ds') : extent r ds = extent r ds' := by
  induction hp with
  | nil => rfl
  | cons d _ ih => simp only [extent, ih]
  | swap d e l => simp only [extent]; ring
  | trans _ _ ih1 ih2 => rw [ih1, ih2]

/-- two chained integrals over permutations of the same directions agree: same axes left,
same corners, same cell counts, same values -/
theorem integrateSeq_perm' (f : Fld) (hf : WF f) (ds ds' : List String) (hp : ds.Perm ds') (g g' : Fld)
    (h : integrateSeq f ds = .ok (.field g)) (h' : integrateSeq f ds' = .ok (.field g')) :
    g'.mesh.region.dims = g.mesh.region.dims ∧ g'.mesh.region.pmin = g.mesh.region.pmin ∧
    g'.mesh.region.pmax = g.mesh.region.pmax ∧ g'.mesh.n = g.mesh.n ∧ g'.data.shape = g.data.shape ∧
    g'.nvdim = g.nvdim ∧
    ∀ i c, inRange g.data.shape i = true → c < f.nvdim → cget g'.data i c = cget g.data i c := by
  obtain ⟨axes, C, hax, _, hinv, hprod⟩ := chain f hf ds f _ 1 g (chainInv_init f hf) h
  obtain ⟨axes', C', hax', _, hinv', hprod'⟩ := chain f hf ds' f _ 1 g' (chainInv_init f hf) h'
  obtain ⟨axes'', hax'', hpa⟩ := dimIndices_perm _ _ _ hp axes hax
  rw [hax'] at hax''; injection hax'' with hax''; subst hax''
  rw [← keepMask_eq_foldl] at hinv hinv' hprod hprod'
  rw [← keepMask_perm _ _ _ hpa] at hinv' hprod'
  rw [← extent_perm _ _ _ hp] at hprod'
  obtain ⟨hwg, _, hnv, _, hdims, hpmin, hpmax, hn, hval⟩ := hinv
  obtain ⟨hwg', _, hnv', _, hdims', hpmin', hpmax', hn', hval'⟩ := hinv'
  have hD : (0 : Rat) < (dropProd (keepMask f.mesh.n.length axes) f.mesh.n : Rat) := by
    have : 0 < dropProd (keepMask f.mesh.n.length axes) f.mesh.n := by
      apply dropProd_pos
      intro k hk
      obtain ⟨a, ha, rfl⟩ := List.getElem_of_mem hk
      have := hf.1.2.2 a (by show a < f.mesh.region.ndim; rw [← hf.1.2.1]; exact ha)
      unfold Mesh.nAt at this
      simpa [List.getD_eq_getElem?_getD, ha] using this
    exact_mod_cast this
  have hC : C' = C := by
    have : C' * (dropProd (keepMask f.mesh.n.length axes) f.mesh.n : Rat)
        = C * (dropProd (keepMask f.mesh.n.length axes) f.mesh.n : Rat) := by rw [hprod, hprod']
    exact mul_right_cancel₀ (ne_of_gt hD) this
  refine ⟨by rw [hdims, hdims'], by rw [hpmin, hpmin'], by rw [hpmax, hpmax'], by rw [hn, hn'],
    by rw [hwg.2, hwg'.2, hn, hn'], by rw [hnv, hnv'], ?_⟩
  intro i c hi hc
  have hi' : inRange g.mesh.n i = true := by rw [← hwg.2]; exact hi
  rw [hval' i c (by rw [hn', ← hn]; exact hi') hc, hval i c hi' hc, hC]

/-- the cell length of a direction in a partially integrated field is its cell length in the
original field -/
theorem chain_step_cell (f G : Fld) (K : List Bool) (C : Rat) (hf : WF f) (hinv : ChainInv f G K C) (d : String)
    (a p : Nat) (ha : f.mesh.region.dim2index d = .ok a) (hp : G.mesh.region.dim2index d = .ok p) :
    G.mesh.cellAt p = f.mesh.cellAt a := by
  obtain ⟨hwG, hKl, hnv, hCpos, hdims, hpmin, hpmax, hn, hval⟩ := hinv
  have hdG : d ∈ G.mesh.region.dims := mem_of_dim2index _ _ _ hp
  have hdK : d ∈ filterMask K f.mesh.region.dims := by rw [← hdims]; exact hdG
  have ha_idx := dim2index_idx _ _ _ ha
  have hp_idx : p = idx (filterMask K f.mesh.region.dims) d := by
    rw [← hdims]; exact dim2index_idx _ _ _ hp
  obtain ⟨⟨hfpos, hfmax, hfdims, hfunits, hfdup, hflt⟩, hfnlen, hfnpos⟩ := hf.1
  have hnd : f.mesh.region.dims.Nodup := nodup_of_hasDup _ hfdup
  have hfn : f.mesh.n.length = f.mesh.region.pmin.length := hfnlen
  have hKd : K.length = f.mesh.region.dims.length := by rw [hKl, hfn, hfdims]
  unfold Mesh.cellAt Region.edge Region.hi Region.lo Mesh.nAt
  rw [hpmin, hpmax, hn, hp_idx, ha_idx,
    getD_filterMask_idx K _ f.mesh.region.pmax d 0 hKd (by rw [hfmax, hfdims]) hnd hdK,
    getD_filterMask_idx K _ f.mesh.region.pmin d 0 hKd (by rw [hfdims]) hnd hdK,
    getD_filterMask_idx K _ f.mesh.n d 0 hKd (by rw [hfn, hfdims]) hnd hdK]

/-- the factor accumulated by a chained integral is the product of the cell lengths of the
integrated directions -/
theorem chain_cells (f : Fld) (hf : WF f) (ds : List String) :
    ∀ (G : Fld) (K : List Bool) (C : Rat) (gi : Fld), ChainInv f G K C →
      integrateSeq G ds = .ok (.field gi) →
      ∃ axes, dimIndices f.mesh.region ds = .ok axes ∧
        ChainInv f gi (axes.foldl (fun K a => setAt K a false) K) (C * cellExtent f.mesh ds) := by
  induction ds with
  | nil =>
    intro G K C gi hinv h
    unfold integrateSeq at h
    injection h with h; injection h with h; subst h
    exact ⟨[], rfl, by simpa [cellExtent] using hinv⟩
  | cons d ds ih =>
    intro G K C gi hinv h
    unfold integrateSeq at h
    split at h
    · cases h
    · split at h <;> cases h
    · rename_i G1 hG1
      obtain ⟨a, p, ha, hp, _, hinv1, _⟩ := chain_step f G G1 K C hf hinv d hG1
      rw [chain_step_cell f G K C hf hinv d a p ha hp] at hinv1
      obtain ⟨axes, hax, hinv'⟩ := ih G1 _ _ gi hinv1 h
      refine ⟨a :: axes, by simp only [dimIndices, ha, hax], ?_⟩
      simp only [List.foldl_cons, cellExtent, ha]
      rw [← mul_assoc]
      exact hinv'

end DFV.C06
