import DFV.Lemmas.C09LexExamples
/-! Text lemmas for the byte-level theorems of C09: words joined by spaces fit a header line;
`WrittenTextOk` from the label / unit hypotheses of the round-trip theorems. -/
namespace DFV.C09
open DFV

/-- a word of a header value: non-empty, no white space, no `:` -/
def CleanWord (w : List Char) : Prop := NoWs w ∧ ':' ∉ w

theorem head_joinSp (w : List Char) (ws : List (List Char)) (hw : w ≠ []) :
    (joinSp (w :: ws)).head? = w.head? := by
  cases w with
  | nil => exact absurd rfl hw
  | cons c w => cases ws <;> rfl

theorem last_joinSp (ws : List (List Char)) (hne : ws ≠ []) (h : ∀ w ∈ ws, NoWs w) :
    joinSp ws ≠ [] ∧ ∀ c, (joinSp ws).getLast? = some c → c.isWhitespace = false := by
  induction ws with
  | nil => exact absurd rfl hne
  | cons w ws ih =>
    have hw := h w (by simp)
    cases ws with
    | nil =>
      refine ⟨hw.1, fun c hc => hw.2 c (List.mem_of_getLast? hc)⟩
    | cons v vs =>
      obtain ⟨h1, h2⟩ := ih (by simp) (fun x hx => h x (by simp [hx]))
      refine ⟨by simp [joinSp], ?_⟩
      intro c hc
      apply h2 c
      show (joinSp (v :: vs)).getLast? = some c
      have e : joinSp (w :: v :: vs) = w ++ ' ' :: joinSp (v :: vs) := rfl
      rw [e, List.getLast?_append] at hc
      cases hj : joinSp (v :: vs) with
      | nil => exact absurd hj h1
      | cons a r =>
        rw [hj] at hc
        rw [List.getLast?_cons_cons] at hc
        cases hr : (a :: r).getLast? with
        | none => simp at hr
        | some d => rw [hr] at hc; simpa using hc

theorem colon_not_mem_joinSp (ws : List (List Char)) (h : ∀ w ∈ ws, ':' ∉ w) : ':' ∉ joinSp ws := by
  induction ws with
  | nil => simp [joinSp]
  | cons w ws ih =>
    cases ws with
    | nil => simpa [joinSp] using h w (by simp)
    | cons v vs =>
      simp only [joinSp, List.mem_append, List.mem_cons, not_or]
      exact ⟨h w (by simp), by decide, ih (fun x hx => h x (by simp [hx]))⟩

/-- words joined by single spaces fit a header line -/
theorem textOk_joinSp (ws : List (List Char)) (h : ∀ w ∈ ws, CleanWord w) : TextOk (joinSp ws) := by
  cases ws with
  | nil => exact ⟨⟨by simp [joinSp], by simp [joinSp]⟩, by simp [joinSp], by simp [joinSp]⟩
  | cons w ws =>
    have hw := (h w (by simp)).1
    refine ⟨⟨?_, (last_joinSp (w :: ws) (by simp) (fun x hx => (h x hx).1)).2⟩,
      colon_not_mem_joinSp _ (fun x hx => (h x hx).2), newline_not_mem_joinSp _ (fun x hx => (h x hx).1)⟩
    intro c hc
    rw [head_joinSp w ws hw.1] at hc
    exact hw.2 c (List.mem_of_mem_head? hc)


/-- units the header line `valueunits` carries down to the bytes: `UnitOk` and no `:` -/
def UnitOkB : Option String → Prop
  | none => True
  | some u => NoWs u.toList ∧ u ≠ "None" ∧ ':' ∉ u.toList

theorem unitOk_of_B (u : Option String) (h : UnitOkB u) : UnitOk u := by
  cases u with
  | none => trivial
  | some u => exact ⟨h.1, h.2.1⟩

theorem unitWord_clean (u : Option String) (h : UnitOkB u) : CleanWord (unitWord u).toList := by
  cases u with
  | none => exact ⟨⟨by decide, by decide⟩, by decide⟩
  | some u =>
    obtain ⟨h1, _, h3⟩ := h
    have hne : u ≠ "" := by
      intro e; subst e; exact h1.1 rfl
    simp only [unitWord, hne, if_false]
    exact ⟨h1, h3⟩

/-- **the hypothesis `WrittenTextOk` holds for every field with sensible strings**: a mesh unit
that fits a header line, labels made of word characters (`LabelsOk`, with `:` not a word
character), a field unit without white space or `:` that is not the literal `None` -/
theorem writtenTextOk_of {α} (isWord : Char → Bool) (W : WordClass isWord) (hcol : isWord ':' = false)
    (reserved : String → Bool) (f : OField α) (extend : Bool)
    (hm : TextOk (f.mesh.region.units.getD 0 "").toList)
    (hl : LabelsOk isWord reserved f) (hu : UnitOkB f.unit) : WrittenTextOk f extend := by
  have fieldx : CleanWord "field_x".toList := ⟨⟨by decide, by decide⟩, by decide⟩
  refine ⟨hm, ?_, ?_⟩
  · intro labels h
    unfold valueLabels at h
    split at h
    · injection h with h; subst h; exact textOk_of_B _ (by decide)
    · split at h
      · injection h with h; subst h
        rw [String.toList_ofList]
        apply textOk_joinSp
        intro w hw
        rw [List.mem_replicate] at hw
        rw [hw.2]; exact fieldx
      · split at h
        · cases h
        · rename_i vs hvs
          injection h with h; subst h
          rw [String.toList_ofList]
          apply textOk_joinSp
          intro w hw
          obtain ⟨v, hv, rfl⟩ := List.mem_map.mp hw
          have hlab : IsLabel isWord v.toList := by
            have := hl.2
            rw [hvs] at this
            exact (this.2.2 v hv).1
          refine ⟨⟨by simp, ?_⟩, ?_⟩
          · intro ch hch
            rcases List.mem_append.mp hch with h1 | h1
            · have : ∀ d ∈ "field_".toList, d.isWhitespace = false := by decide
              exact this ch h1
            · exact W.nows ch (hlab.2 ch h1)
          · intro hch
            rcases List.mem_append.mp hch with h1 | h1
            · revert h1; decide
            · have := hlab.2 _ h1; rw [hcol] at this; cases this
  · unfold valueUnits
    rw [String.toList_ofList]
    apply textOk_joinSp
    intro w hw
    rw [List.mem_replicate] at hw
    rw [hw.2]; exact unitWord_clean f.unit hu

end DFV.C09
