import DFV.Lemmas.C04
/-!
Helper lemmas for C04, second part: congruence and reversal of the stencils, decomposition of a
line at its first invalid cell, reversal and scaling of the whole split-differentiate-combine pass,
the index-level spec `diffSpec` (refinement of the code-shaped pass), periodic lines.
-/
set_option linter.unusedSimpArgs false
namespace DFV.C04
open DFV

theorem getD_setAt_same {α} (l : List α) (k : Nat) (v d : α) (hk : k < l.length) : (setAt l k v).getD k d = v := by
  induction l generalizing k with
  | nil => simp at hk
  | cons x xs ih =>
    cases k with
    | zero => simp [setAt]
    | succ k => simp only [setAt, List.getD_cons_succ]; exact ih k (by simpa using hk)

theorem getD_setAt_ne {α} (l : List α) (k a : Nat) (v d : α) (hne : a ≠ k) : (setAt l k v).getD a d = l.getD a d := by
  induction l generalizing k a with
  | nil => simp [setAt]
  | cons x xs ih =>
    cases k with
    | zero =>
      cases a with
      | zero => exact absurd rfl hne
      | succ a => simp [setAt]
    | succ k =>
      cases a with
      | zero => simp [setAt]
      | succ a => simp only [setAt, List.getD_cons_succ]; exact ih k a (by omega)

theorem setAt_length {α} (l : List α) (k : Nat) (v : α) : (setAt l k v).length = l.length := by
  induction l generalizing k with
  | nil => simp [setAt]
  | cons x xs ih => cases k <;> simp [setAt, ih]

theorem setAt_comm {α} (l : List α) (a b : Nat) (u v : α) (hne : a ≠ b) :
    setAt (setAt l a u) b v = setAt (setAt l b v) a u := by
  induction l generalizing a b with
  | nil => simp [setAt]
  | cons x xs ih =>
    cases a with
    | zero =>
      cases b with
      | zero => exact absurd rfl hne
      | succ b => simp [setAt]
    | succ a =>
      cases b with
      | zero => simp [setAt]
      | succ b => simp only [setAt]; rw [ih a b (by omega)]

theorem d1At_congr (h : Rat) (L : Nat) (f g : Nat → Rat) (i : Nat) (hfg : ∀ k, k < L → f k = g k) (hi : i < L) :
    d1At h L f i = d1At h L g i := by
  unfold d1At
  by_cases h1 : L < 2
  · simp [h1]
  · by_cases h2 : L = 2
    · simp only [h1, h2, if_false, if_true]
      rw [hfg 1 (by omega), hfg 0 (by omega)]
    · simp only [h1, h2, if_false]
      by_cases h3 : i = 0
      · simp only [h3, if_true]
        rw [hfg 0 (by omega), hfg 1 (by omega), hfg 2 (by omega)]
      · by_cases h4 : i = L - 1
        · simp only [h3, h4, if_false, if_true]
          have : ¬ (L - 1 = 0) := by omega
          simp only [this, if_false]
          rw [hfg (L - 1) (by omega), hfg (L - 2) (by omega), hfg (L - 3) (by omega)]
        · simp only [h3, h4, if_false]
          rw [hfg (i + 1) (by omega), hfg (i - 1) (by omega)]

theorem d2At_congr (h : Rat) (L : Nat) (f g : Nat → Rat) (i : Nat) (hfg : ∀ k, k < L → f k = g k) (hi : i < L) :
    d2At h L f i = d2At h L g i := by
  unfold d2At
  by_cases h1 : L < 3
  · simp [h1]
  · by_cases h2 : L = 3
    · simp only [h1, h2, if_false, if_true]
      rw [hfg 0 (by omega), hfg 1 (by omega), hfg 2 (by omega)]
    · simp only [h1, h2, if_false]
      by_cases h3 : i = 0
      · simp only [h3, if_true]
        rw [hfg 0 (by omega), hfg 1 (by omega), hfg 2 (by omega), hfg 3 (by omega)]
      · by_cases h4 : i = L - 1
        · simp only [h3, h4, if_false, if_true]
          have : ¬ (L - 1 = 0) := by omega
          simp only [this, if_false]
          rw [hfg (L - 1) (by omega), hfg (L - 2) (by omega), hfg (L - 3) (by omega), hfg (L - 4) (by omega)]
        · simp only [h3, h4, if_false]
          rw [hfg (i + 1) (by omega), hfg i (by omega), hfg (i - 1) (by omega)]

theorem dAt_congr (o : Nat) (h : Rat) (L : Nat) (f g : Nat → Rat) (i : Nat) (hfg : ∀ k, k < L → f k = g k) (hi : i < L) :
    dAt o h L f i = dAt o h L g i := by
  unfold dAt
  split
  · exact d1At_congr h L f g i hfg hi
  · exact d2At_congr h L f g i hfg hi

/-- reversing a run negates the first-derivative stencil (and mirrors the position) -/
theorem d1At_reverse (h : Rat) (L : Nat) (g : Nat → Rat) (i : Nat) (hi : i < L) :
    d1At h L (fun k => g (L - 1 - k)) i = - d1At h L g (L - 1 - i) := by
  unfold d1At
  by_cases h1 : L < 2
  · simp [h1]
  · by_cases h2 : L = 2
    · subst h2
      simp only [show ¬ ((2 : Nat) < 2) by omega, if_false, if_true]
      simp only [show 2 - 1 - 1 = 0 by rfl, show 2 - 1 - 0 = 1 by rfl]
      ring
    · simp only [h1, h2, if_false]
      by_cases h3 : i = 0
      · subst h3
        have e1 : ¬ (L - 1 - 0 = 0) := by omega
        have e2 : L - 1 - 0 = L - 1 := by omega
        have e3 : ¬ (L - 1 = 0) := by omega
        simp only [if_true, e1, if_false, e2, e3]
        have a1 : L - 1 - 1 = L - 2 := by omega
        have a2 : L - 1 - 2 = L - 3 := by omega
        rw [a1, a2]
        ring
      · by_cases h4 : i = L - 1
        · subst h4
          have e0 : L - 1 - (L - 1) = 0 := by omega
          simp only [h3, if_false, if_true, e0]
          have a1 : L - 1 - (L - 2) = 1 := by omega
          have a2 : L - 1 - (L - 3) = 2 := by omega
          rw [a1, a2]
          ring
        · have e1 : ¬ (L - 1 - i = 0) := by omega
          have e2 : ¬ (L - 1 - i = L - 1) := by omega
          simp only [h3, h4, e1, e2, if_false]
          have a1 : L - 1 - (i + 1) = L - 1 - i - 1 := by omega
          have a2 : L - 1 - (i - 1) = L - 1 - i + 1 := by omega
          rw [a1, a2]
          ring

/-- reversing a run mirrors the second-derivative stencil -/
theorem d2At_reverse (h : Rat) (L : Nat) (g : Nat → Rat) (i : Nat) (hi : i < L) :
    d2At h L (fun k => g (L - 1 - k)) i = d2At h L g (L - 1 - i) := by
  unfold d2At
  by_cases h1 : L < 3
  · simp [h1]
  · by_cases h2 : L = 3
    · subst h2
      simp only [show ¬ ((3 : Nat) < 3) by omega, if_false, if_true]
      simp only [show 3 - 1 - 0 = 2 by rfl, show 3 - 1 - 1 = 1 by rfl, show 3 - 1 - 2 = 0 by rfl]
      ring
    · simp only [h1, h2, if_false]
      by_cases h3 : i = 0
      · subst h3
        have e1 : ¬ (L - 1 - 0 = 0) := by omega
        have e2 : L - 1 - 0 = L - 1 := by omega
        have e3 : ¬ (L - 1 = 0) := by omega
        simp only [if_true, e1, if_false, e2, e3]
        have a1 : L - 1 - 1 = L - 2 := by omega
        have a2 : L - 1 - 2 = L - 3 := by omega
        have a3 : L - 1 - 3 = L - 4 := by omega
        rw [a1, a2, a3]
      · by_cases h4 : i = L - 1
        · subst h4
          have e0 : L - 1 - (L - 1) = 0 := by omega
          simp only [h3, if_false, if_true, e0]
          have a1 : L - 1 - (L - 2) = 1 := by omega
          have a2 : L - 1 - (L - 3) = 2 := by omega
          have a3 : L - 1 - (L - 4) = 3 := by omega
          rw [a1, a2, a3]
        · have e1 : ¬ (L - 1 - i = 0) := by omega
          have e2 : ¬ (L - 1 - i = L - 1) := by omega
          simp only [h3, h4, e1, e2, if_false]
          have a1 : L - 1 - (i + 1) = L - 1 - i - 1 := by omega
          have a2 : L - 1 - (i - 1) = L - 1 - i + 1 := by omega
          rw [a1, a2]
          ring

theorem setAt_setAt_same {α} (l : List α) (k : Nat) (u v : α) : setAt (setAt l k u) k v = setAt l k v := by
  induction l generalizing k with
  | nil => simp [setAt]
  | cons x xs ih => cases k <;> simp [setAt, ih]

/-! ### decomposition of a line at its first invalid cell -/

theorem cells_split (cells : List (Rat × Bool)) :
    (∃ r : List Rat, cells = r.map (·, true)) ∨
    (∃ (r : List Rat) (y : Rat) (rest : List (Rat × Bool)), cells = r.map (·, true) ++ (y, false) :: rest) := by
  induction cells with
  | nil => exact Or.inl ⟨[], rfl⟩
  | cons c cs ih =>
    obtain ⟨x, v⟩ := c
    cases v with
    | false => exact Or.inr ⟨[], x, cs, rfl⟩
    | true =>
      rcases ih with ⟨r, hr⟩ | ⟨r, y, rest, hr⟩
      · exact Or.inl ⟨x :: r, by rw [hr]; rfl⟩
      · exact Or.inr ⟨x :: r, y, rest, by rw [hr]; rfl⟩

/-- induction principle: a line is a fully valid run, or a fully valid run, an invalid cell and a shorter line -/
theorem cells_induction (P : List (Rat × Bool) → Prop)
    (h1 : ∀ r : List Rat, P (r.map (·, true)))
    (h2 : ∀ (r : List Rat) (y : Rat) (rest : List (Rat × Bool)), P rest → P (r.map (·, true) ++ (y, false) :: rest))
    (cells : List (Rat × Bool)) : P cells := by
  generalize hn : cells.length = n
  induction n using Nat.strong_induction_on generalizing cells with
  | _ n ih =>
    rcases cells_split cells with ⟨r, hr⟩ | ⟨r, y, rest, hr⟩
    · rw [hr]; exact h1 r
    · rw [hr]
      apply h2
      apply ih rest.length _ rest rfl
      rw [← hn, hr]; simp; omega

theorem sdc_head (d : List Rat → List Rat) (r : List Rat) (y : Rat) (rest : List (Rat × Bool)) :
    sdc d (r.map (·, true) ++ (y, false) :: rest) = d r ++ 0 :: sdc d rest := sdcGo_head d r y rest

theorem sdc_all_valid (d : List Rat → List Rat) (r : List Rat) : sdc d (r.map (·, true)) = d r :=
  sdcGo_all_valid d r

/-- reversal of the whole split-differentiate-combine pass -/
theorem sdc_reverse (d : List Rat → List Rat) (σ : Rat → Rat) (hσ : σ 0 = 0) (hd0 : d [] = [])
    (hd : ∀ xs, d xs.reverse = ((d xs).map σ).reverse) (cells : List (Rat × Bool)) :
    sdc d cells.reverse = ((sdc d cells).map σ).reverse := by
  induction cells using cells_induction with
  | h1 r =>
    rw [sdc_all_valid, ← List.map_reverse, sdc_all_valid, hd]
  | h2 r y rest ih =>
    rw [sdc_head]
    have e : (r.map (·, true) ++ (y, false) :: rest).reverse
        = rest.reverse ++ (y, false) :: r.reverse.map (·, true) := by
      simp [List.map_reverse]
    rw [e]
    unfold sdc
    rw [sdcGo_tail d hd0, sdcGo_append_invalid d hd0]
    have ih' : sdcGo d rest.reverse [] = ((sdcGo d rest []).map σ).reverse := ih
    rw [ih', hd]
    simp [hσ]

/-- scaling of the whole pass -/
theorem sdcGo_smul (d : List Rat → List Rat) (s : Rat) (hd : ∀ xs, d (xs.map (s * ·)) = (d xs).map (s * ·))
    (cells : List (Rat × Bool)) : ∀ acc : List Rat,
    sdcGo d (cells.map fun c => (s * c.1, c.2)) (acc.map (s * ·)) = (sdcGo d cells acc).map (s * ·) := by
  induction cells with
  | nil => intro acc; simp only [List.map_nil, sdcGo]; rw [← List.map_reverse, hd]
  | cons c cs ih =>
    intro acc
    obtain ⟨x, v⟩ := c
    cases v with
    | true =>
      simp only [List.map_cons, sdcGo]
      exact ih (x :: acc)
    | false =>
      simp only [List.map_cons, sdcGo]
      rw [← List.map_reverse, hd]
      have := ih []
      simp only [List.map_nil] at this
      rw [this]
      simp

theorem dAt_reverse (o : Nat) (h : Rat) (L : Nat) (g : Nat → Rat) (i : Nat) (hi : i < L) :
    dAt o h L (fun k => g (L - 1 - k)) i = revSign o * dAt o h L g (L - 1 - i) := by
  unfold dAt revSign
  by_cases ho : o = 1
  · simp only [ho, if_true]; rw [d1At_reverse h L g i hi]; ring
  · simp only [ho, if_false]; rw [d2At_reverse h L g i hi]; ring

theorem dAt_smul (o : Nat) (h : Rat) (L : Nat) (s : Rat) (g : Nat → Rat) (i : Nat) :
    dAt o h L (fun k => s * g k) i = s * dAt o h L g i := by
  unfold dAt d1At d2At
  split <;> (repeat' split) <;> ring

theorem diffRun_reverse (o : Nat) (h : Rat) (xs : List Rat) :
    diffRun o h xs.reverse = ((diffRun o h xs).map (revSign o * ·)).reverse := by
  apply List.ext_getElem
  · simp [diffRun_length]
  · intro i h1 h2
    have hi : i < xs.length := by simpa [diffRun_length] using h1
    have e1 := diffRun_getD o h xs.reverse i (by simpa using hi)
    rw [List.getD_eq_getElem?_getD, List.getElem?_eq_getElem h1, Option.getD_some] at e1
    rw [e1, List.getElem_reverse, List.getElem_map]
    have hj : xs.length - 1 - i < xs.length := by omega
    have e2 := diffRun_getD o h xs (xs.length - 1 - i) hj
    rw [List.getD_eq_getElem?_getD, List.getElem?_eq_getElem (by simpa [diffRun_length] using hj), Option.getD_some] at e2
    simp only [diffRun_length, List.length_map, List.length_reverse] at e2 ⊢
    rw [e2, ← dAt_reverse o h xs.length (fun k => xs.getD k 0) i hi]
    apply dAt_congr _ _ _ _ _ _ _ hi
    intro k hk
    rw [List.getD_eq_getElem?_getD, List.getD_eq_getElem?_getD, List.getElem?_reverse hk]

theorem diffRun_smul (o : Nat) (h : Rat) (s : Rat) (xs : List Rat) :
    diffRun o h (xs.map (s * ·)) = (diffRun o h xs).map (s * ·) := by
  apply List.ext_getElem
  · simp [diffRun_length]
  · intro i h1 h2
    have hi : i < xs.length := by simpa [diffRun_length] using h1
    have e1 := diffRun_getD o h (xs.map (s * ·)) i (by simpa using hi)
    rw [List.getD_eq_getElem?_getD, List.getElem?_eq_getElem h1, Option.getD_some] at e1
    have e2 := diffRun_getD o h xs i hi
    rw [List.getD_eq_getElem?_getD, List.getElem?_eq_getElem (by simpa [diffRun_length] using hi), Option.getD_some] at e2
    rw [e1, List.getElem_map, e2, List.length_map, ← dAt_smul]
    apply dAt_congr _ _ _ _ _ _ _ hi
    intro k hk
    simp [List.getD_eq_getElem?_getD, hk]

/-- **reversal of an open line**: the derivative of the reversed line is the reversed derivative,
with the sign of the order — for every mask -/
theorem diffLine_reverse (o : Nat) (h : Rat) (cells : List (Rat × Bool)) :
    diffLine o h cells.reverse = ((diffLine o h cells).map (revSign o * ·)).reverse :=
  sdc_reverse _ _ (by simp) (diffRun_nil o h) (diffRun_reverse o h) cells

/-- **scaling of an open line** -/
theorem diffLine_smul (o : Nat) (h : Rat) (s : Rat) (cells : List (Rat × Bool)) :
    diffLine o h (cells.map fun c => (s * c.1, c.2)) = (diffLine o h cells).map (s * ·) := by
  have := sdcGo_smul (diffRun o h) s (diffRun_smul o h s) cells []
  simpa [diffLine, sdc] using this

/-! ### the index-level spec -/

theorem runBefore_le (v : Nat → Bool) (i : Nat) : runBefore v i ≤ i := by
  induction i with
  | zero => simp [runBefore]
  | succ i ih => simp only [runBefore]; split <;> omega

theorem runBefore_all (v : Nat → Bool) (i : Nat) (h : ∀ j, j < i → v j = true) : runBefore v i = i := by
  induction i with
  | zero => rfl
  | succ i ih =>
    simp only [runBefore, h i (by omega), if_true]
    rw [ih (fun j hj => h j (by omega))]

/-- behind an invalid cell the count starts afresh -/
theorem runBefore_shift (v : Nat → Bool) (m : Nat) (hm : v m = false) (j : Nat) :
    runBefore v (m + 1 + j) = runBefore (fun k => v (m + 1 + k)) j := by
  induction j with
  | zero => simp [runBefore, hm]
  | succ j ih =>
    have : m + 1 + (j + 1) = (m + 1 + j) + 1 := by omega
    rw [this]
    simp only [runBefore, ih]

theorem runFromAux_shift (v : Nat → Bool) (m : Nat) (fuel : Nat) : ∀ i,
    runFromAux v (m + i) fuel = runFromAux (fun k => v (m + k)) i fuel := by
  induction fuel with
  | zero => intro i; rfl
  | succ fuel ih =>
    intro i
    simp only [runFromAux]
    have := ih (i + 1)
    rw [← Nat.add_assoc] at this
    rw [this]

theorem runFromAux_le (v : Nat → Bool) (fuel : Nat) : ∀ i, runFromAux v i fuel ≤ fuel := by
  induction fuel with
  | zero => intro i; simp [runFromAux]
  | succ fuel ih => intro i; simp only [runFromAux]; split <;> [have := ih (i + 1); skip] <;> omega

/-- `n` valid cells from `i` on, and then the fuel is used up or an invalid cell follows -/
theorem runFromAux_eq (v : Nat → Bool) (n : Nat) : ∀ (i fuel : Nat), (∀ j, i ≤ j → j < i + n → v j = true) →
    (n = fuel ∨ (n < fuel ∧ v (i + n) = false)) → runFromAux v i fuel = n := by
  induction n with
  | zero =>
    intro i fuel _ h
    rcases h with h | ⟨h1, h2⟩
    · subst h; rfl
    · cases fuel with
      | zero => omega
      | succ fuel => simp only [runFromAux]; simp at h2; simp [h2]
  | succ n ih =>
    intro i fuel hv h
    cases fuel with
    | zero => omega
    | succ fuel =>
      simp only [runFromAux, hv i (by omega) (by omega), if_true]
      rw [ih (i + 1) fuel (fun j h1 h2 => hv j (by omega) (by omega)) (by
        rcases h with h | ⟨h1, h2⟩
        · left; omega
        · right; refine ⟨by omega, ?_⟩
          have : i + 1 + n = i + (n + 1) := by omega
          rw [this]; exact h2)]

theorem runFrom_le (v : Nat → Bool) (L i : Nat) : runFrom v L i ≤ L - i := runFromAux_le v _ i

theorem valOf_map_true (r : List Rat) (j : Nat) : valOf (r.map (·, true)) j = r.getD j 0 := by
  unfold valOf
  simp only [List.getD_eq_getElem?_getD, List.getElem?_map]
  cases r[j]? <;> rfl

theorem okOf_map_true (r : List Rat) (j : Nat) : okOf (r.map (·, true)) j = decide (j < r.length) := by
  unfold okOf
  simp only [List.getD_eq_getElem?_getD, List.getElem?_map]
  by_cases h : j < r.length
  · simp [h]
  · simp [h, List.getElem?_eq_none (Nat.le_of_not_lt h)]

theorem valOf_append_left (a b : List (Rat × Bool)) (j : Nat) (h : j < a.length) : valOf (a ++ b) j = valOf a j := by
  unfold valOf
  simp only [List.getD_eq_getElem?_getD, List.getElem?_append_left h]

theorem okOf_append_left (a b : List (Rat × Bool)) (j : Nat) (h : j < a.length) : okOf (a ++ b) j = okOf a j := by
  unfold okOf
  simp only [List.getD_eq_getElem?_getD, List.getElem?_append_left h]

theorem valOf_append_right (a b : List (Rat × Bool)) (j : Nat) : valOf (a ++ b) (a.length + j) = valOf b j := by
  unfold valOf
  simp only [List.getD_eq_getElem?_getD, List.getElem?_append_right (Nat.le_add_right _ _), Nat.add_sub_cancel_left]

theorem okOf_append_right (a b : List (Rat × Bool)) (j : Nat) : okOf (a ++ b) (a.length + j) = okOf b j := by
  unfold okOf
  simp only [List.getD_eq_getElem?_getD, List.getElem?_append_right (Nat.le_add_right _ _), Nat.add_sub_cancel_left]

/-- `diffSpec` reads values and validity inside the line only -/
theorem runBefore_congr (v v' : Nat → Bool) (i : Nat) (h : ∀ j, j < i → v j = v' j) : runBefore v i = runBefore v' i := by
  induction i with
  | zero => rfl
  | succ i ih =>
    simp only [runBefore, h i (by omega), ih (fun j hj => h j (by omega))]

theorem runFromAux_congr (v v' : Nat → Bool) (fuel : Nat) : ∀ i, (∀ j, i ≤ j → j < i + fuel → v j = v' j) →
    runFromAux v i fuel = runFromAux v' i fuel := by
  induction fuel with
  | zero => intro i _; rfl
  | succ fuel ih =>
    intro i h
    simp only [runFromAux, h i (by omega) (by omega), ih (i + 1) (fun j h1 h2 => h j (by omega) (by omega))]

theorem diffSpec_congr (o : Nat) (h : Rat) (L : Nat) (x x' : Nat → Rat) (v v' : Nat → Bool) (i : Nat) (hi : i < L)
    (hx : ∀ j, j < L → x j = x' j) (hv : ∀ j, j < L → v j = v' j) :
    diffSpec o h L x v i = diffSpec o h L x' v' i := by
  unfold diffSpec
  have e1 : runBefore v i = runBefore v' i := runBefore_congr v v' i (fun j hj => hv j (by omega))
  have e2 : runFrom v L i = runFrom v' L i := runFromAux_congr v v' _ i (fun j h1 h2 => hv j (by omega))
  rw [hv i hi, e1, e2]
  split
  · rename_i hvi
    have hb := runBefore_le v' i
    have hf := runFrom_le v' L i
    have hpos : 0 < runFrom v' L i := by
      unfold runFrom
      have : L - i = (L - i - 1) + 1 := by omega
      rw [this]; simp only [runFromAux, hvi, if_true]; omega
    apply dAt_congr _ _ _ _ _ _ _ (by omega)
    intro k hk
    exact hx _ (by omega)
  · rfl

/-- **Refinement: the code-shaped pass computes the index-level spec.**  At every position of
every open line (every length, every mask, both orders), the output of the accumulator walk
`_split_diff_combine` is `diffSpec`: 0 at an invalid cell, otherwise the stencil of the cell's
own maximal run of valid cells. -/
theorem diffLine_getD_spec (o : Nat) (h : Rat) (cells : List (Rat × Bool)) : ∀ i, i < cells.length →
    (diffLine o h cells).getD i 0 = diffSpec o h cells.length (valOf cells) (okOf cells) i := by
  induction cells using cells_induction with
  | h1 r =>
    intro i hi
    simp only [List.length_map] at hi ⊢
    unfold diffLine
    rw [sdc_all_valid, diffRun_getD o h r i hi]
    unfold diffSpec
    have hv : ∀ j, j < r.length → okOf (r.map (·, true)) j = true := by
      intro j hj; rw [okOf_map_true]; simp [hj]
    have e1 : runBefore (okOf (r.map (·, true))) i = i := runBefore_all _ i (fun j hj => hv j (by omega))
    have e2 : runFrom (okOf (r.map (·, true))) r.length i = r.length - i :=
      runFromAux_eq _ (r.length - i) i _ (fun j h1 h2 => hv j (by omega)) (Or.inl rfl)
    rw [hv i hi, e1, e2]
    simp only [if_true]
    have : i + (r.length - i) = r.length := by omega
    rw [this]
    apply dAt_congr _ _ _ _ _ _ _ hi
    intro k _
    rw [valOf_map_true]; congr 1; omega
  | h2 r y rest ih =>
    intro i hi
    have hlen : (r.map (·, true) ++ (y, false) :: rest).length = r.length + 1 + rest.length := by
      simp; omega
    rw [hlen] at hi ⊢
    unfold diffLine
    rw [sdc_head]
    have hL : (diffRun o h r).length = r.length := diffRun_length o h r
    have hv : ∀ j, j < r.length → okOf (r.map (·, true) ++ (y, false) :: rest) j = true := by
      intro j hj
      rw [okOf_append_left _ _ _ (by simpa using hj), okOf_map_true]; simp [hj]
    have hvm : okOf (r.map (·, true) ++ (y, false) :: rest) r.length = false := by
      have := okOf_append_right (r.map (·, true)) ((y, false) :: rest) 0
      simp only [List.length_map, Nat.add_zero] at this
      rw [this]; rfl
    by_cases h1 : i < r.length
    · -- inside the first run
      rw [List.getD_eq_getElem?_getD, List.getElem?_append_left (by omega), ← List.getD_eq_getElem?_getD,
        diffRun_getD o h r i h1]
      unfold diffSpec
      have e1 : runBefore (okOf (r.map (·, true) ++ (y, false) :: rest)) i = i :=
        runBefore_all _ i (fun j hj => hv j (by omega))
      have e2 : runFrom (okOf (r.map (·, true) ++ (y, false) :: rest)) (r.length + 1 + rest.length) i = r.length - i :=
        runFromAux_eq _ (r.length - i) i _ (fun j h1 h2 => hv j (by omega))
          (Or.inr ⟨by omega, by rw [show i + (r.length - i) = r.length by omega]; exact hvm⟩)
      rw [hv i h1, e1, e2]
      simp only [if_true]
      have : i + (r.length - i) = r.length := by omega
      rw [this]
      apply dAt_congr _ _ _ _ _ _ _ h1
      intro k hk
      rw [show i - i + k = k by omega, valOf_append_left _ _ _ (by simpa using hk), valOf_map_true]
    · by_cases h2 : i = r.length
      · -- the invalid cell
        subst h2
        rw [List.getD_eq_getElem?_getD, List.getElem?_append_right (by omega), hL, Nat.sub_self]
        unfold diffSpec
        rw [hvm]; rfl
      · -- behind it: the rest of the line on its own
        obtain ⟨i', rfl⟩ : ∃ i', i = r.length + 1 + i' := ⟨i - r.length - 1, by omega⟩
        rw [List.getD_eq_getElem?_getD, List.getElem?_append_right (by omega), hL,
          show r.length + 1 + i' - r.length = i' + 1 by omega, List.getElem?_cons_succ, ← List.getD_eq_getElem?_getD]
        have ih' := ih i' (by omega)
        unfold diffLine at ih'
        rw [ih']
        have sv : ∀ k, okOf (r.map (·, true) ++ (y, false) :: rest) (r.length + 1 + k) = okOf rest k := by
          intro k
          have := okOf_append_right (r.map (·, true)) ((y, false) :: rest) (k + 1)
          simp only [List.length_map] at this
          rw [show r.length + 1 + k = r.length + (k + 1) by omega, this]
          unfold okOf; simp
        have sx : ∀ k, valOf (r.map (·, true) ++ (y, false) :: rest) (r.length + 1 + k) = valOf rest k := by
          intro k
          have := valOf_append_right (r.map (·, true)) ((y, false) :: rest) (k + 1)
          simp only [List.length_map] at this
          rw [show r.length + 1 + k = r.length + (k + 1) by omega, this]
          unfold valOf; simp
        have fe : (fun k => okOf (r.map (·, true) ++ (y, false) :: rest) (r.length + 1 + k)) = okOf rest := funext sv
        unfold diffSpec
        have e1 : runBefore (okOf (r.map (·, true) ++ (y, false) :: rest)) (r.length + 1 + i') = runBefore (okOf rest) i' := by
          rw [runBefore_shift _ _ hvm, fe]
        have e2 : runFrom (okOf (r.map (·, true) ++ (y, false) :: rest)) (r.length + 1 + rest.length) (r.length + 1 + i')
            = runFrom (okOf rest) rest.length i' := by
          unfold runFrom
          rw [runFromAux_shift, fe]
          congr 1; omega
        rw [sv, e1, e2]
        split
        · have hb := runBefore_le (okOf rest) i'
          congr 1
          funext k
          rw [show r.length + 1 + i' - runBefore (okOf rest) i' + k = r.length + 1 + (i' - runBefore (okOf rest) i' + k) by omega, sx]
        · rfl

/-! ### periodic lines -/

theorem wrap1_of {α} (xs : List α) (f l : α) (hh : xs.head? = some f) (hl : xs.getLast? = some l) :
    wrap1 xs = l :: xs ++ [f] := by
  unfold wrap1; rw [hh, hl]

theorem wrap1_reverse {α} (xs : List α) : wrap1 xs.reverse = (wrap1 xs).reverse := by
  cases hx : xs with
  | nil => rfl
  | cons x xs' =>
    obtain ⟨l, hl⟩ : ∃ l, (x :: xs').getLast? = some l := ⟨_, List.getLast?_eq_some_getLast (by simp)⟩
    rw [wrap1_of (x :: xs') x l rfl hl,
      wrap1_of (x :: xs').reverse l x (by rw [List.head?_reverse, hl]) (by rw [List.getLast?_reverse]; rfl)]
    simp

theorem diffLine_len (o : Nat) (h : Rat) (cells : List (Rat × Bool)) : (diffLine o h cells).length = cells.length := by
  unfold diffLine sdc
  rw [sdcGo_length _ (diffRun_length o h)]; simp

/-- a list of length `L + 2` without its two ends, reversed -/
theorem mid_reverse {α} (Y : List α) (L : Nat) (hY : Y.length = L + 2) :
    (Y.reverse.drop 1).take L = ((Y.drop 1).take L).reverse := by
  rw [List.drop_reverse, List.take_reverse, hY]
  simp only [List.length_take, hY]
  have e1 : L + 2 - 1 = L + 1 := by omega
  have e2 : min (L + 1) (L + 2) - L = 1 := by omega
  rw [e1, e2, List.drop_take]
  simp

theorem diffRing_nil (o : Nat) (h : Rat) : diffRing o h [] = [] := by
  simp [diffRing]

theorem diffLine_wrap_length (o : Nat) (h : Rat) (cells : List (Rat × Bool)) (hne : cells ≠ []) :
    (diffLine o h (wrap1 cells)).length = cells.length + 2 := by
  rw [diffLine_len, wrap1_length _ hne]

theorem diffRing_length (o : Nat) (h : Rat) (cells : List (Rat × Bool)) : (diffRing o h cells).length = cells.length := by
  by_cases hne : cells = []
  · subst hne; simp [diffRing]
  · unfold diffRing
    rw [List.length_take, List.length_drop, diffLine_wrap_length o h cells hne]; omega

/-- entry `j` of the periodic derivative is entry `j + 1` of the derivative of the padded line -/
theorem diffRing_getD (o : Nat) (h : Rat) (cells : List (Rat × Bool)) (j : Nat) (hj : j < cells.length) :
    (diffRing o h cells).getD j 0 = (diffLine o h (wrap1 cells)).getD (j + 1) 0 := by
  unfold diffRing
  rw [List.getD_eq_getElem?_getD, List.getElem?_take_of_lt hj, List.getElem?_drop, ← List.getD_eq_getElem?_getD,
    Nat.add_comm 1 j]

/-- **reversal of a periodic line**, for every mask (the run that crosses the seam included) -/
theorem diffRing_reverse (o : Nat) (h : Rat) (cells : List (Rat × Bool)) :
    diffRing o h cells.reverse = ((diffRing o h cells).map (revSign o * ·)).reverse := by
  by_cases hne : cells = []
  · subst hne; simp [diffRing_nil]
  · unfold diffRing
    rw [wrap1_reverse, diffLine_reverse, List.length_reverse,
      mid_reverse _ cells.length (by rw [List.length_map, diffLine_wrap_length o h cells hne])]
    simp [List.map_take, List.map_drop]

theorem diffRing_smul (o : Nat) (h : Rat) (s : Rat) (cells : List (Rat × Bool)) :
    diffRing o h (cells.map fun c => (s * c.1, c.2)) = (diffRing o h cells).map (s * ·) := by
  unfold diffRing
  rw [wrap1_map, diffLine_smul]
  simp [List.map_take, List.map_drop]

/-- reversal of a line as `Field.diff` differentiates it: open or periodic, restricted to valid
cells or not — every mask -/
theorem diffLine'_reverse (p r : Bool) (o : Nat) (h : Rat) (cells : List (Rat × Bool)) :
    diffLine' p r o h cells.reverse = ((diffLine' p r o h cells).map (revSign o * ·)).reverse := by
  unfold diffLine'
  have e : (cells.reverse.map fun c => (c.1, true)) = (cells.map fun c => (c.1, true)).reverse := by
    rw [List.map_reverse]
  cases p <;> cases r <;> simp only [Bool.false_eq_true, if_false, if_true, e]
  · exact diffLine_reverse _ _ _
  · exact diffLine_reverse _ _ _
  · exact diffRing_reverse _ _ _
  · exact diffRing_reverse _ _ _

theorem diffLine'_smul (p r : Bool) (o : Nat) (h : Rat) (s : Rat) (cells : List (Rat × Bool)) :
    diffLine' p r o h (cells.map fun c => (s * c.1, c.2)) = (diffLine' p r o h cells).map (s * ·) := by
  unfold diffLine'
  have e : ((cells.map fun c => (s * c.1, c.2)).map fun c => (c.1, true))
      = (cells.map fun c => (c.1, true)).map fun c => (s * c.1, c.2) := by simp
  cases p <;> cases r <;> simp only [Bool.false_eq_true, if_false, if_true, e] <;>
    first | exact diffLine_smul _ _ _ _ | exact diffRing_smul _ _ _ _

theorem diffLine'_length (p r : Bool) (o : Nat) (h : Rat) (cells : List (Rat × Bool)) :
    (diffLine' p r o h cells).length = cells.length := by
  unfold diffLine'
  cases p <;> cases r <;> simp [diffLine_len, diffRing_length]

/-! ### field level helpers -/

theorem okOf_wrap1_succ (cells : List (Rat × Bool)) (j : Nat) (hj : j < cells.length) :
    okOf (wrap1 cells) (j + 1) = okOf cells j := by
  cases cells with
  | nil => simp at hj
  | cons c cs =>
    rw [wrap1_eq]
    unfold okOf
    simp only [List.cons_append, List.getD_cons_succ]
    rw [List.getD_eq_getElem?_getD, List.getD_eq_getElem?_getD, ← List.cons_append, List.getElem?_append_left hj]

theorem setAt_getD_self {α} (l : List α) (k : Nat) (d : α) : setAt l k (l.getD k d) = l := by
  induction l generalizing k with
  | nil => rfl
  | cons x xs ih =>
    cases k with
    | zero => rfl
    | succ k => simp only [setAt, List.getD_cons_succ]; rw [ih]

theorem dAt_short (o : Nat) (ho : o = 1 ∨ o = 2) (h : Rat) (L : Nat) (hL : L ≤ o) (f : Nat → Rat) (i : Nat) :
    dAt o h L f i = 0 := by
  unfold dAt d1At d2At
  rcases ho with rfl | rfl
  · have : L < 2 := by omega
    simp [this]
  · have : L < 3 := by omega
    simp [this]

theorem valOf_lineCells (f : Fld) (ax : Nat) (i : List Nat) (c j : Nat) (hj : j < f.mesh.nAt ax) :
    valOf (lineCells f ax i c) j = (f.data.line ax i j).getD c 0 := by
  unfold valOf lineCells; rw [getD_tab _ _ _ _ hj]

theorem okOf_lineCells (f : Fld) (ax : Nat) (i : List Nat) (c j : Nat) (hj : j < f.mesh.nAt ax) :
    okOf (lineCells f ax i c) j = f.valid.line ax i j := by
  unfold okOf lineCells; rw [getD_tab _ _ _ _ hj]

theorem lineCells_length (f : Fld) (ax : Nat) (i : List Nat) (c : Nat) : (lineCells f ax i c).length = f.mesh.nAt ax := by
  simp [lineCells]

/-! ### a concrete field for the non-vacuity examples -/

/-- 5×2 cells on [0,5]×[0,1], two components, cell (3,1) invalid, all directions open -/
def exF : Fld :=
  { mesh := { region := { pmin := [0, 0], pmax := [5, 1], dims := ["x", "y"], units := ["m", "m"],
                          tol := 1/1000000000000 },
              n := [5, 2], bc := "", subs := [] },
    nvdim := 2,
    data := ⟨[5, 2], fun i => [((i.getD 0 0 : Nat) : Rat) ^ 2, ((i.getD 1 0 : Nat) : Rat)]⟩,
    valid := ⟨[5, 2], fun i => decide (i ≠ [3, 1])⟩, vdims := some ["x", "y"], vmap := [("x", "x"), ("y", "y")],
    unit := none }

/-- `exF` on the same mesh with the axes renamed `n`, `y` and the boundary condition `neumann`: before
repo fix 61bf94db the axis `n` counted as periodic because `"n" in "neumann"` -/
def exFN : Fld :=
  { exF with mesh := { exF.mesh with region := { exF.mesh.region with dims := ["n", "y"] }, bc := "neumann" } }

/-- a 3-d field whose third axis has the two-character name `xy`, periodic along `x` and `y` (`bc = "xy"`):
before the fix the axis `xy` counted as periodic because `"xy" in "xy"` -/
def exFXY : Fld :=
  { mesh := { region := { pmin := [0, 0, 0], pmax := [4, 3, 2], dims := ["x", "y", "xy"], units := ["m", "m", "m"],
                          tol := 1/1000000000000 },
              n := [4, 3, 2], bc := "xy", subs := [] },
    nvdim := 1,
    data := ⟨[4, 3, 2], fun i => [((i.getD 2 0 : Nat) : Rat) ^ 2]⟩,
    valid := ⟨[4, 3, 2], fun _ => true⟩, vdims := none, vmap := [], unit := none }

end DFV.C04
