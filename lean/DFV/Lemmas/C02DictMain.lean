import DFV.Lemmas.C02Patch
/-! C02 helper lemmas, part 9: assembling the dictionary overload (fill, loop, default pass). -/
namespace DFV.C02
open DFV DFV.Mesh

variable {V : Type} [Inhabited V]

/-- value the default assigns to component `c` of cell `i`: a non-callable default is broadcast
by `np.full`, a callable one is evaluated at the cell centre, a field default is sampled there -/
def dfltVal (dflt : Option (Dflt V)) (m : Mesh) (nv : Nat) (i : List Nat) (c : Nat) : V :=
  match dflt with
  | some (.val a) => a.get (bcastIdx (m.n ++ [nv]) a.shape (i ++ [c]))
  | some (.func f) => (f (m.centre i)).getD c default
  | some (.field src) =>
    match src.call (m.centre i) with
    | .ok vs => vs.getD c default
    | .error _ => default
  | _ => default

omit [Inhabited V] in
theorem not_mem_nanCells (m : Mesh) (a : NDA (Option V)) (i : List Nat)
    (h : (a.get (i ++ [0])).isSome = true) : i ∉ nanCells m a := by
  rw [mem_nanCells]
  rintro ⟨_, hn⟩
  cases hh : a.get (i ++ [0]) with
  | none => rw [hh] at h; simp at h
  | some v => rw [hh] at hn; simp at hn

omit [Inhabited V] in
theorem fillOf_ok (dflt : Option (Dflt V)) (m : Mesh) (nv : Nat) (a0 : NDA (Option V))
    (h : fillOf dflt m nv = .ok a0) :
    a0.shape = m.n ++ [nv] ∧
    ((∃ arr, dflt = some (.val arr) ∧ ∀ j, a0.get j = some (arr.get (bcastIdx (m.n ++ [nv]) arr.shape j))) ∨
     ((∀ arr, dflt ≠ some (.val arr)) ∧ ∀ j, a0.get j = none)) := by
  unfold fillOf at h
  split at h
  · rename_i arr
    split at h
    · cases h
    · rename_i b hb
      injection h with h; subst h
      obtain ⟨hs, hg⟩ := bcast_ok _ _ _ hb
      exact ⟨hs, Or.inl ⟨arr, rfl, fun j => by simp [NDA.map, hg j]⟩⟩
  · cases h
  · rename_i h1 h2
    injection h with h; subst h
    refine ⟨rfl, Or.inr ⟨fun arr e => h1 arr e, fun _ => rfl⟩⟩

theorem dfltCell_val (d : Dflt V) (m : Mesh) (nv : Nat) (hlen : m.n.length = m.ndim) (i : List Nat)
    (hi : inRange m.n i = true) (vs : List V) (h : dfltCell d m i = .ok vs) (c : Nat)
    (hd : ∀ arr, d ≠ .val arr) : vs.getD c default = dfltVal (some d) m nv i c := by
  unfold dfltCell at h
  rw [index2point_nat m hlen i hi] at h
  simp only at h
  cases d with
  | val arr => exact absurd rfl (hd arr)
  | func f => simp only at h; injection h with h; subst h; rfl
  | field src => simp only at h; simp [dfltVal, h]
  | bad => cases h

/-- the dictionary overload, entry by entry: the first listed subregion that writes the entry
wins, otherwise the default -/
theorem asArray_dict_main (isZero : V → Bool) (items : List (String × Leaf V)) (dflt : Option (Dflt V))
    (m : Mesh) (nv : Nat) (a : NDA V) (hlen : m.n.length = m.ndim)
    (h : asArray isZero (.dict items dflt) m nv = .ok a)
    (i : List Nat) (hi : inRange m.n i = true) (c : Nat) (hc : c < nv) :
    a.get (i ++ [c]) =
      match m.subs.findSome? (fun p => patchVal isZero items m nv p (i ++ [c])) with
      | some v => v
      | none => dfltVal dflt m nv i c := by
  have hil : i.length = m.ndim := by rw [← hlen]; exact inRange_length _ _ hi
  have hj : inRange (m.n ++ [nv]) (i ++ [c]) = true := by rw [inRange_snoc, hi]; simp [hc]
  have hj0 : inRange (m.n ++ [nv]) (i ++ [0]) = true := by rw [inRange_snoc, hi]; simp; omega
  simp only [asArray] at h
  split at h
  · cases h
  · rename_i a0 hfill
    obtain ⟨hs0, hfill'⟩ := fillOf_ok dflt m nv a0 hfill
    split at h
    · cases h
    · rename_i a1 hloop
      obtain ⟨hs1, hg1⟩ := dictLoop_get isZero items m nv _ a0 a1 hloop
      simp only [List.reverse_reverse] at hg1
      have hsome : (m.subs.findSome? fun p => patchVal isZero items m nv p (i ++ [c])).isSome =
          (m.subs.findSome? fun p => patchVal isZero items m nv p (i ++ [0])).isSome :=
        findSome?_isSome_congr _ _ _ fun p => patchVal_isSome_comp isZero items m nv p i hil c 0
      -- value of the sentinel array after the loop, at (i, c) and at (i, 0)
      have e1 := hg1 (i ++ [c])
      have e0 := hg1 (i ++ [0])
      -- what `a` is in terms of the array before unwrapping
      have key : ∀ a2 : NDA (Option V), a = unwrap a2 → a.get (i ++ [c]) = (a2.get (i ++ [c])).getD default := by
        intro a2 ha; subst ha; rfl
      cases hF : (m.subs.findSome? fun p => patchVal isZero items m nv p (i ++ [c])) with
      | some v =>
        rw [hF] at e1 hsome
        simp only [Option.some_or] at e1
        have h0some : (a1.get (i ++ [0])).isSome = true := by
          rw [e0]
          cases hF0 : (m.subs.findSome? fun p => patchVal isZero items m nv p (i ++ [0])) with
          | some w => simp
          | none => rw [hF0] at hsome; simp at hsome
        simp only
        split at h
        · split at h
          · cases h
          · rename_i d
            split at h
            · cases h
            · rename_i a2 hdl
              injection h with h
              obtain ⟨_, hg2⟩ := dfltLoop_get d m nv _ a1 a2 hdl
              have hnot : i ∉ nanCells m a1 := not_mem_nanCells m a1 i h0some
              rw [key a2 h.symm, (hg2 i c).2 hnot, e1]; rfl
        · injection h with h
          rw [key a1 h.symm, e1]; rfl
      | none =>
        rw [hF] at e1 hsome
        simp only [Option.none_or] at e1
        have hF0 : (m.subs.findSome? fun p => patchVal isZero items m nv p (i ++ [0])) = none := by
          cases hh : (m.subs.findSome? fun p => patchVal isZero items m nv p (i ++ [0])) with
          | none => rfl
          | some w => rw [hh] at hsome; simp at hsome
        rw [hF0] at e0
        simp only [Option.none_or] at e0
        simp only
        rcases hfill' with ⟨arr, hd, hget⟩ | ⟨hd, hget⟩
        · -- non-callable default: already in the array
          have v1 : a1.get (i ++ [c]) = some (dfltVal dflt m nv i c) := by
            rw [e1, hget, hd]; rfl
          have v0 : (a1.get (i ++ [0])).isSome = true := by rw [e0, hget]; rfl
          split at h
          · split at h
            · cases h
            · rename_i d
              split at h
              · cases h
              · rename_i a2 hdl
                injection h with h
                obtain ⟨_, hg2⟩ := dfltLoop_get d m nv _ a1 a2 hdl
                have hnot : i ∉ nanCells m a1 := not_mem_nanCells m a1 i v0
                rw [key a2 h.symm, (hg2 i c).2 hnot, v1]; rfl
          · injection h with h
            rw [key a1 h.symm, v1]; rfl
        · -- sentinel: the default pass fills the cell
          have n1 : a1.get (i ++ [c]) = none := by rw [e1, hget]
          have n0 : a1.get (i ++ [0]) = none := by rw [e0, hget]
          have hany : anyNone a1 = true := anyNone_true a1 (i ++ [c]) (by rw [hs1, hs0]; exact hj) n1
          rw [hany] at h
          simp only [if_true] at h
          split at h
          · cases h
          · rename_i d
            split at h
            · cases h
            · rename_i a2 hdl
              injection h with h
              obtain ⟨_, hg2⟩ := dfltLoop_get d m nv _ a1 a2 hdl
              have hin : i ∈ nanCells m a1 := by
                rw [mem_nanCells]; exact ⟨mem_indicesC _ _ hi, by simp [n0]⟩
              obtain ⟨vs, hvs, _, hval⟩ := (hg2 i c).1 hin
              rw [key a2 h.symm, hval]
              simp only [Option.getD_some]
              exact dfltCell_val d m nv hlen i hi vs hvs c fun arr e => hd arr (by rw [e])

/-- no default and some cell that no listed subregion covers: rejected -/
theorem asArray_dict_nodefault (isZero : V → Bool) (items : List (String × Leaf V))
    (m : Mesh) (nv : Nat)
    (i : List Nat) (hi : inRange m.n i = true) (c : Nat) (hc : c < nv)
    (hun : (m.subs.findSome? fun p => patchVal isZero items m nv p (i ++ [c])) = none) :
    ∃ e, asArray isZero (.dict items none) m nv = .error e := by
  have hj : inRange (m.n ++ [nv]) (i ++ [c]) = true := by rw [inRange_snoc, hi]; simp [hc]
  simp only [asArray, fillOf]
  split
  · exact ⟨_, rfl⟩
  · rename_i a1 hloop
    obtain ⟨hs1, hg1⟩ := dictLoop_get isZero items m nv _ _ a1 hloop
    simp only [List.reverse_reverse] at hg1
    have n1 : a1.get (i ++ [c]) = none := by rw [hg1, hun]; rfl
    have hany : anyNone a1 = true := anyNone_true a1 (i ++ [c]) (by rw [hs1]; exact hj) n1
    rw [hany]
    exact ⟨.key, rfl⟩

end DFV.C02
