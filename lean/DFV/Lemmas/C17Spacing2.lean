import DFV.Lemmas.C17Spacing
/-! More about the spacing test: invariance under ANY non-zero factor (a negative one reverses the
direction of the axis) and under reversal of the coordinate, what accepted coordinates look like
(all steps zero, or all steps of the sign of the mean step and within `1 ± 1e-5` of it, hence
strictly monotone), and the two-point case. -/
namespace DFV.C17
open DFV

theorem absR_mul (s x : Rat) : absR (s * x) = |s| * absR x := by
  rw [absR_eq_abs, absR_eq_abs, abs_mul]

theorem isclose_scale_ne (s d m r : Rat) (hs : s ≠ 0) :
    Region.isclose (s * d) (s * m) r 0 = Region.isclose d m r 0 := by
  unfold Region.isclose
  have e : s * d - s * m = s * (d - m) := by ring
  have hp : 0 < |s| := abs_pos.mpr hs
  rw [e, absR_mul, absR_mul]
  apply decide_eq_decide.mpr
  constructor
  · intro h
    have h' : |s| * absR (d - m) ≤ |s| * (0 + r * absR m) := by linarith
    exact le_of_mul_le_mul_left h' hp
  · intro h
    have := mul_le_mul_of_nonneg_left h hp.le
    linarith

/-- **Invariance under any non-zero factor**: also a negative one (the axis pointing the other way) -/
theorem evenB_scale_ne (s : Rat) (hs : s ≠ 0) (v : List Rat) : evenB (v.map (s * ·)) = evenB v := by
  unfold evenB
  rw [List.length_map, meanDiff_map_mul, diffs_map_mul]
  have : (fun j => Region.isclose (((diffs v).map (s * ·)).getD j 0) (s * meanDiff v) (1/100000) 0)
      = fun j => Region.isclose ((diffs v).getD j 0) (meanDiff v) (1/100000) 0 := by
    funext j
    rw [getD_map_mul, isclose_scale_ne _ _ _ _ hs]
  rw [this]

/-- the factor `0` collapses every coordinate onto one point: all steps are `0`, which passes -/
theorem evenB_scale_zero (v : List Rat) : evenB (v.map ((0 : Rat) * ·)) = true := by
  rw [evenB_iff_spec]
  intro j hj
  rw [List.length_map] at hj
  rw [meanDiff_map_mul, getD_map_mul, getD_map_mul]
  simp [absR]

theorem getD_reverse (v : List Rat) (j : Nat) (hj : j < v.length) :
    v.reverse.getD j 0 = v.getD (v.length - 1 - j) 0 := by
  rw [List.getD_eq_getElem?_getD, List.getD_eq_getElem?_getD, List.getElem?_reverse hj]

theorem meanDiff_reverse (v : List Rat) : meanDiff v.reverse = - meanDiff v := by
  rw [meanDiff_eq, meanDiff_eq, List.length_reverse]
  by_cases h0 : v.length = 0
  · have : v = [] := List.length_eq_zero_iff.mp h0
    subst this; simp
  · rw [getD_reverse _ _ (by omega), getD_reverse _ _ (by omega)]
    have e1 : v.length - 1 - (v.length - 1) = 0 := by omega
    have e2 : v.length - 1 - 0 = v.length - 1 := by omega
    rw [e1, e2]
    ring

/-- the specification read from the other end -/
theorem evenSpec_reverse (v : List Rat) (h : EvenSpec v) : EvenSpec v.reverse := by
  intro j hj
  rw [List.length_reverse] at hj
  rw [meanDiff_reverse, getD_reverse _ _ (by omega), getD_reverse _ _ (by omega), absR_neg]
  have := h (v.length - 1 - (j + 1)) (by omega)
  have e : v.length - 1 - (j + 1) + 1 = v.length - 1 - j := by omega
  rw [e] at this
  have e2 : v.getD (v.length - 1 - (j + 1)) 0 - v.getD (v.length - 1 - j) 0 - -meanDiff v
      = -(v.getD (v.length - 1 - j) 0 - v.getD (v.length - 1 - (j + 1)) 0 - meanDiff v) := by ring
  rw [e2, absR_neg]
  exact this

/-- **Reversal invariance**: a coordinate read backwards (descending instead of ascending) gets
the same verdict -/
theorem evenB_reverse (v : List Rat) : evenB v.reverse = evenB v := by
  rw [Bool.eq_iff_iff, evenB_iff_spec, evenB_iff_spec]
  constructor
  · intro h
    have := evenSpec_reverse _ h
    rwa [List.reverse_reverse] at this
  · exact evenSpec_reverse v

/-- two coordinates are always evenly spaced (their single step is the mean step) -/
theorem evenB_two (a b : Rat) : evenB [a, b] = true := by
  rw [evenB_iff_spec]
  intro j hj
  have hj0 : j = 0 := by simp at hj; omega
  subst hj0
  rw [meanDiff_eq]
  have e : ([a, b] : List Rat).getD (0 + 1) 0 - ([a, b] : List Rat).getD 0 0
      - (([a, b] : List Rat).getD (([a, b] : List Rat).length - 1) 0 - ([a, b] : List Rat).getD 0 0)
          / (((([a, b] : List Rat).length - 1 : Nat)) : Rat) = 0 := by
    simp
  rw [e, absR_eq_abs, absR_eq_abs, abs_zero]
  positivity

/-- **What accepted coordinates look like**: every step `d` satisfies
`(1 - 1e-5)·|m| ≤ d·sign(m) ≤ (1 + 1e-5)·|m|` for the mean step `m`; stated without sign:
`d·m ≥ (1 - 1e-5)·m²` and `d·m ≤ (1 + 1e-5)·m²`. -/
theorem evenSpec_step_bounds (v : List Rat) (h : EvenSpec v) (j : Nat) (hj : j + 1 < v.length) :
    (1 - 1/100000) * (meanDiff v * meanDiff v) ≤ (v.getD (j + 1) 0 - v.getD j 0) * meanDiff v ∧
    (v.getD (j + 1) 0 - v.getD j 0) * meanDiff v ≤ (1 + 1/100000) * (meanDiff v * meanDiff v) := by
  have := h j hj
  rw [absR_eq_abs, absR_eq_abs] at this
  set d := v.getD (j + 1) 0 - v.getD j 0
  set m := meanDiff v
  rw [abs_le] at this
  obtain ⟨h1, h2⟩ := this
  rcases le_total 0 m with hm | hm
  · rw [abs_of_nonneg hm] at h1 h2
    constructor <;> nlinarith
  · rw [abs_of_nonpos hm] at h1 h2
    constructor <;> nlinarith

/-- accepted coordinates with mean step `0` are constant; otherwise every step has the sign of
the mean step: the coordinate is strictly monotone -/
theorem evenSpec_monotone (v : List Rat) (h : EvenSpec v) :
    (meanDiff v = 0 → ∀ j, j + 1 < v.length → v.getD (j + 1) 0 = v.getD j 0) ∧
    (0 < meanDiff v → ∀ j, j + 1 < v.length → v.getD j 0 < v.getD (j + 1) 0) ∧
    (meanDiff v < 0 → ∀ j, j + 1 < v.length → v.getD (j + 1) 0 < v.getD j 0) := by
  refine ⟨fun hm j hj => ?_, fun hm j hj => ?_, fun hm j hj => ?_⟩
  · have := h j hj
    rw [hm] at this
    rw [absR_eq_abs, absR_eq_abs, abs_zero, mul_zero, sub_zero] at this
    have := abs_nonpos_iff.mp this
    linarith
  · obtain ⟨h1, -⟩ := evenSpec_step_bounds v h j hj
    have : 0 < (1 - 1/100000 : Rat) * (meanDiff v * meanDiff v) := by positivity
    have hp : 0 < (v.getD (j + 1) 0 - v.getD j 0) * meanDiff v := by linarith
    by_contra hc
    have : v.getD (j + 1) 0 - v.getD j 0 ≤ 0 := by linarith
    have := mul_nonpos_of_nonpos_of_nonneg this hm.le
    linarith
  · obtain ⟨h1, -⟩ := evenSpec_step_bounds v h j hj
    have hmm : 0 < meanDiff v * meanDiff v := mul_pos_of_neg_of_neg hm hm
    have : 0 < (1 - 1/100000 : Rat) * (meanDiff v * meanDiff v) := by positivity
    have hp : 0 < (v.getD (j + 1) 0 - v.getD j 0) * meanDiff v := by linarith
    by_contra hc
    have : 0 ≤ v.getD (j + 1) 0 - v.getD j 0 := by linarith
    have := mul_nonpos_of_nonneg_of_nonpos this hm.le
    linarith

/-- the axis transformation of `scaleCoords`, any factor -/
theorem checkSpacing_scale_ne {α} (s : Rat) (hs : s ≠ 0) (xa : XA α) :
    checkSpacing (scaleCoords s xa) = checkSpacing xa := by
  unfold checkSpacing
  rw [geo_scaleCoords, List.all_map]
  have : ((fun a : Axis => evenB a.values) ∘ scaleAxis s) = fun a => evenB a.values := by
    funext ax
    cases hc : ax.coord with
    | none => simp [Function.comp, scaleAxis, Axis.values, hc]
    | some c =>
      simp only [Function.comp, scaleAxis, Axis.values, hc, Option.map_some]
      exact evenB_scale_ne s hs c.vals
  rw [this]

end DFV.C17
