import DFV.Lemmas.C13Forms
/-! C12 at object level: `k` vs `k mod 4`, the identity turn, composition of turns, on regions,
meshes and fields. -/
namespace DFV.T
open DFV DFV.C14

theorem cosq_mod4 (k : Int) : cosq (k % 4) = cosq k := by
  unfold cosq
  have : k % 4 % 4 = k % 4 := Int.emod_emod_of_dvd k (by norm_num)
  rw [this]
theorem sinq_mod4 (k : Int) : sinq (k % 4) = sinq k := by
  unfold sinq
  have : k % 4 % 4 = k % 4 := Int.emod_emod_of_dvd k (by norm_num)
  rw [this]
theorem isOdd_mod4 (k : Int) : isOdd (k % 4) = isOdd k := by
  unfold isOdd
  have : k % 4 % 2 = k % 2 := by omega
  rw [this]

theorem rotCoord_mod4 (p ref : List Rat) (i1 i2 : Nat) (k : Int) : rotCoord p ref i1 i2 (k % 4) = rotCoord p ref i1 i2 k := by
  funext a; unfold rotCoord; rw [cosq_mod4, sinq_mod4]
theorem rotUnits_mod4 (u : List String) (i1 i2 : Nat) (k : Int) : rotUnits u i1 i2 (k % 4) = rotUnits u i1 i2 k := by
  unfold rotUnits; rw [isOdd_mod4]
theorem rotN_mod4 (n : List Nat) (i1 i2 : Nat) (k : Int) : rotN n i1 i2 (k % 4) = rotN n i1 i2 k := by
  unfold rotN; rw [isOdd_mod4]
theorem rotBc_mod4 (bc a1 a2 : String) (k : Int) : rotBc bc a1 a2 (k % 4) = rotBc bc a1 a2 k := by
  unfold rotBc; rw [isOdd_mod4]
theorem rotVec_mod4 (v : List Rat) (c1 c2 : Nat) (k : Int) : rotVec v c1 c2 (k % 4) = rotVec v c1 c2 k := by
  unfold rotVec; rw [cosq_mod4, sinq_mod4]
theorem rot90_mod4' {α} (a : NDA α) (p q : Nat) (k : Int) : rot90 a p q (k % 4) = rot90 a p q k := by
  unfold rot90
  have : k % 4 % 4 = k % 4 := Int.emod_emod_of_dvd k (by norm_num)
  rw [this]

theorem rotate90R_mod4 (r : Region) (a1 a2 : String) (k : Int) (ref : Option (List Rat)) (b : Bool) :
    rotate90R r a1 a2 (k % 4) ref b = rotate90R r a1 a2 k ref b := by
  unfold rotate90R
  simp only [rotCoord_mod4, rotUnits_mod4]

theorem stepM_rot_mod4 (m : Mesh) (a1 a2 : String) (k : Int) (ref : Option (List Rat)) (b : Bool) :
    stepM m (.rotate90 a1 a2 (k % 4) ref b) = stepM m (.rotate90 a1 a2 k ref b) := by
  simp only [stepM, rotate90R_mod4, rotN_mod4, rotBc_mod4]

theorem rotate90F_mod4 (f : Fld) (a1 a2 : String) (k : Int) (ref : Option (List Rat)) (b : Bool) :
    rotate90F f a1 a2 (k % 4) ref b = rotate90F f a1 a2 k ref b := by
  unfold rotate90F
  simp only [stepM_rot_mod4, rot90_mod4', rotVec_mod4]
theorem quarter_add' (k l : Int) :
    cosq (k + l) = cosq k * cosq l - sinq k * sinq l ∧ sinq (k + l) = sinq k * cosq l + cosq k * sinq l := by
  unfold cosq sinq
  have hk : k % 4 = 0 ∨ k % 4 = 1 ∨ k % 4 = 2 ∨ k % 4 = 3 := by omega
  have hl : l % 4 = 0 ∨ l % 4 = 1 ∨ l % 4 = 2 ∨ l % 4 = 3 := by omega
  rcases hk with hk | hk | hk | hk <;> rcases hl with hl | hl | hl | hl <;>
    (have hkl : (k + l) % 4 = (k % 4 + l % 4) % 4 := Int.add_emod k l 4
     rw [hk, hl] at hkl
     norm_num at hkl
     simp [hk, hl, hkl])

/-- rotating a point by `k` and then by `l` about the same reference is rotating by `k + l` -/
theorem rotCoord_compose (p ref : List Rat) (i1 i2 : Nat) (k l : Int) (h12 : i1 ≠ i2)
    (h1 : i1 < p.length) (h2 : i2 < p.length) (a : Nat) (ha : a < p.length) :
    rotCoord (tab p.length (rotCoord p ref i1 i2 k)) ref i1 i2 l a = rotCoord p ref i1 i2 (k + l) a := by
  obtain ⟨hc, hs⟩ := quarter_add' k l
  have g1 : (tab p.length (rotCoord p ref i1 i2 k)).getD i1 0 = rotCoord p ref i1 i2 k i1 := getD_tab _ _ _ _ h1
  have g2 : (tab p.length (rotCoord p ref i1 i2 k)).getD i2 0 = rotCoord p ref i1 i2 k i2 := getD_tab _ _ _ _ h2
  have ga : (tab p.length (rotCoord p ref i1 i2 k)).getD a 0 = rotCoord p ref i1 i2 k a := getD_tab _ _ _ _ ha
  have r1 : rotCoord p ref i1 i2 k i1
      = ref.getD i1 0 + (cosq k * (p.getD i1 0 - ref.getD i1 0) - sinq k * (p.getD i2 0 - ref.getD i2 0)) := by
    simp [rotCoord]
  have r2 : rotCoord p ref i1 i2 k i2
      = ref.getD i2 0 + (sinq k * (p.getD i1 0 - ref.getD i1 0) + cosq k * (p.getD i2 0 - ref.getD i2 0)) := by
    simp [rotCoord, h12.symm]
  by_cases e1 : a = i1
  · rw [e1]
    simp only [rotCoord, if_true]
    rw [g1, g2, r1, r2, hc, hs]
    ring
  · by_cases e2 : a = i2
    · rw [e2]
      simp only [rotCoord, h12.symm, if_false, if_true]
      rw [g1, g2, r1, r2, hc, hs]
      ring
    · simp only [rotCoord, e1, e2, if_false, ga]

/-- a turn by a multiple of four quarter turns leaves every coordinate where it is -/
theorem rotCoord_zero (p ref : List Rat) (i1 i2 : Nat) (k : Int) (hk : k % 4 = 0) (a : Nat) :
    rotCoord p ref i1 i2 k a = p.getD a 0 := by
  have hc : cosq k = 1 := by simp [cosq, hk]
  have hs : sinq k = 0 := by simp [sinq, hk]
  unfold rotCoord
  rw [hc, hs]
  split
  · rename_i h; subst h; ring
  · split
    · rename_i h; subst h; ring
    · rfl

/-- the image of an affinely mapped, re-ordered pair of corners is the re-ordered image -/
theorem min_affine (A s X Y : Rat) : min (A + s * min X Y) (A + s * max X Y) = min (A + s * X) (A + s * Y) := by
  rcases le_total X Y with h | h
  · rw [min_eq_left h, max_eq_right h]
  · rw [min_eq_right h, max_eq_left h, min_comm]
theorem max_affine (A s X Y : Rat) : max (A + s * min X Y) (A + s * max X Y) = max (A + s * X) (A + s * Y) := by
  rcases le_total X Y with h | h
  · rw [min_eq_left h, max_eq_right h]
  · rw [min_eq_right h, max_eq_left h, max_comm]

theorem target_self (r : Region) (hr : r.Inv) : target r r.lo r.hi r.units = r := by
  obtain ⟨r0, r1, r2, r3, r4, r5⟩ := hr
  unfold target
  have e1 : (tab r.ndim fun a => min (r.lo a) (r.hi a)) = r.pmin := by
    symm; apply eq_tab_of_getD _ _ _ 0 rfl
    intro a ha; exact (min_eq_left (r5 a ha).le).symm
  have e2 : (tab r.ndim fun a => max (r.lo a) (r.hi a)) = r.pmax := by
    symm; apply eq_tab_of_getD _ _ _ 0 r1
    intro a ha; exact (max_eq_right (r5 a ha).le).symm
  rw [e1, e2]

/-- **Region: a turn by a multiple of four quarter turns is the identity** (either form) -/
theorem rotate90R_zero (r : Region) (hr : r.Inv) (a1 a2 : String) (k : Int) (hk : k % 4 = 0) (ref : Option (List Rat))
    (b : Bool) (x ret : Region) (h : rotate90R r a1 a2 k ref b = .ok (x, ret)) : ret = r ∧ x = r := by
  obtain ⟨_, _, i1, i2, _, _, _, _, _, _, e, ex⟩ := rotate90R_inv _ _ _ _ _ _ _ _ h
  have hodd : isOdd k = false := by unfold isOdd; simp; omega
  have : ret = r := by
    rw [e]
    have : rotUnits r.units i1 i2 k = r.units := by unfold rotUnits; rw [hodd]; rfl
    rw [this]
    have := target_congr r (rotCoord r.pmin (ref.getD r.center) i1 i2 k) (rotCoord r.pmax (ref.getD r.center) i1 i2 k) r.lo r.hi r.units
      (fun a _ => rotCoord_zero _ _ _ _ _ hk a) (fun a _ => rotCoord_zero _ _ _ _ _ hk a)
    rw [this, target_self r hr]
  refine ⟨this, ?_⟩
  rw [ex, this]; simp

theorem swapAt_swapAt {α} [Inhabited α] (u : List α) (i1 i2 : Nat) (h12 : i1 ≠ i2) (h1 : i1 < u.length) (h2 : i2 < u.length) :
    swapAt (swapAt u i1 i2) i1 i2 = u := by
  have hl : (swapAt u i1 i2).length = u.length := swapAt_length _ _ _
  apply list_ext_getD _ _ default (by rw [swapAt_length, hl])
  intro a ha
  by_cases e1 : a = i1
  · subst e1
    rw [getD_swapAt_left _ _ _ _ h12 (by rw [hl]; exact h1), getD_swapAt_right _ _ _ _ h2]
  · by_cases e2 : a = i2
    · subst e2
      rw [getD_swapAt_right _ _ _ _ (by rw [hl]; exact h2), getD_swapAt_left _ _ _ _ h12 h1]
    · rw [getD_swapAt_other _ _ _ _ _ e1 e2, getD_swapAt_other _ _ _ _ _ e1 e2]

theorem isOdd_add (k l : Int) : isOdd (k + l) = xor (isOdd k) (isOdd l) := by
  unfold isOdd
  have hk : k % 2 = 0 ∨ k % 2 = 1 := by omega
  have hl : l % 2 = 0 ∨ l % 2 = 1 := by omega
  rcases hk with hk | hk <;> rcases hl with hl | hl <;>
    (have : (k + l) % 2 = (k % 2 + l % 2) % 2 := Int.add_emod k l 2
     rw [hk, hl] at this
     simp [hk, hl, this])

theorem rotSwap_compose {α} [Inhabited α] (u : List α) (i1 i2 : Nat) (k l : Int) (h12 : i1 ≠ i2) (h1 : i1 < u.length) (h2 : i2 < u.length) :
    (if isOdd l then swapAt (if isOdd k then swapAt u i1 i2 else u) i1 i2 else (if isOdd k then swapAt u i1 i2 else u))
      = if isOdd (k + l) then swapAt u i1 i2 else u := by
  rw [isOdd_add]
  cases isOdd k <;> cases isOdd l <;> simp [swapAt_swapAt u i1 i2 h12 h1 h2]
/-- corners of the twice-turned region = corners of the region turned once by the sum -/
theorem rot_twice_corner (r : Region) (hr : r.Inv) (R : List Rat) (i1 i2 : Nat) (k l : Int) (h12 : i1 ≠ i2)
    (l1 : i1 < r.ndim) (l2 : i2 < r.ndim) (a : Nat) (ha : a < r.ndim) :
    let r1 := target r (rotCoord r.pmin R i1 i2 k) (rotCoord r.pmax R i1 i2 k) (rotUnits r.units i1 i2 k)
    min (rotCoord r1.pmin R i1 i2 l a) (rotCoord r1.pmax R i1 i2 l a)
        = min (rotCoord r.pmin R i1 i2 (k + l) a) (rotCoord r.pmax R i1 i2 (k + l) a) ∧
    max (rotCoord r1.pmin R i1 i2 l a) (rotCoord r1.pmax R i1 i2 l a)
        = max (rotCoord r.pmin R i1 i2 (k + l) a) (rotCoord r.pmax R i1 i2 (k + l) a) := by
  intro r1
  have hb : rotSrc i1 i2 l a < r.ndim := rotSrc_lt _ _ _ _ _ l1 l2 ha
  have hpl : r.pmax.length = r.pmin.length := hr.2.1
  have e1 : r1.pmin.getD (rotSrc i1 i2 l a) 0
      = min (rotCoord r.pmin R i1 i2 k (rotSrc i1 i2 l a)) (rotCoord r.pmax R i1 i2 k (rotSrc i1 i2 l a)) :=
    getD_tab _ _ _ _ hb
  have e2 : r1.pmax.getD (rotSrc i1 i2 l a) 0
      = max (rotCoord r.pmin R i1 i2 k (rotSrc i1 i2 l a)) (rotCoord r.pmax R i1 i2 k (rotSrc i1 i2 l a)) :=
    getD_tab _ _ _ _ hb
  have c1 : rotOff R i1 i2 l a + rotSign i1 i2 l a * rotCoord r.pmin R i1 i2 k (rotSrc i1 i2 l a)
      = rotCoord r.pmin R i1 i2 (k + l) a := by
    have t : (tab r.pmin.length (rotCoord r.pmin R i1 i2 k)).getD (rotSrc i1 i2 l a) 0
        = rotCoord r.pmin R i1 i2 k (rotSrc i1 i2 l a) := getD_tab _ _ _ _ hb
    rw [← t, ← rotCoord_affine (tab r.pmin.length (rotCoord r.pmin R i1 i2 k)) R i1 i2 l h12 a]
    exact rotCoord_compose r.pmin R i1 i2 k l h12 l1 l2 a ha
  have hb' : rotSrc i1 i2 l a < r.pmax.length := by rw [hpl]; exact hb
  have c2 : rotOff R i1 i2 l a + rotSign i1 i2 l a * rotCoord r.pmax R i1 i2 k (rotSrc i1 i2 l a)
      = rotCoord r.pmax R i1 i2 (k + l) a := by
    have t : (tab r.pmax.length (rotCoord r.pmax R i1 i2 k)).getD (rotSrc i1 i2 l a) 0
        = rotCoord r.pmax R i1 i2 k (rotSrc i1 i2 l a) := getD_tab _ _ _ _ hb'
    rw [← t, ← rotCoord_affine (tab r.pmax.length (rotCoord r.pmax R i1 i2 k)) R i1 i2 l h12 a]
    exact rotCoord_compose r.pmax R i1 i2 k l h12 (by rw [hpl]; exact l1) (by rw [hpl]; exact l2) a (by rw [hpl]; exact ha)
  rw [rotCoord_affine _ _ _ _ _ h12 a, rotCoord_affine r1.pmax _ _ _ _ h12 a, e1, e2, min_affine, max_affine, c1, c2]
  exact ⟨rfl, rfl⟩

/-- **Region: a turn by `k` followed by a turn by `l` about the same reference point is the turn
by `k + l`** — the second turn is always accepted, in any mix of forms. -/
theorem rotate90R_compose (r : Region) (hr : r.Inv) (a1 a2 : String) (k l : Int) (R : List Rat) (b b' b'' : Bool)
    (x1 r1 : Region) (h : rotate90R r a1 a2 k (some R) b = .ok (x1, r1)) :
    ∃ r2, rotate90R r1 a1 a2 l (some R) b' = .ok (if b' then r2 else r1, r2) ∧
          rotate90R r a1 a2 (k + l) (some R) b'' = .ok (if b'' then r2 else r, r2) := by
  obtain ⟨hax, href, i1, i2, h1, h2, h12, l1, l2, hne, e, _⟩ := rotate90R_inv _ _ _ _ _ _ _ _ h
  have hR : (some R : Option (List Rat)).getD r.center = R := rfl
  have hR1 : (some R : Option (List Rat)).getD r1.center = R := rfl
  rw [hR] at href hne e
  have hd : r.dims.length = r.ndim := hr.2.2.1
  rw [hd] at l1 l2
  have hu : (rotUnits r.units i1 i2 k).length = r.ndim := by rw [rotUnits_length]; exact hr.2.2.2.1
  have hr1 : r1.Inv := by rw [e]; exact target_inv r hr _ _ _ hu hne
  have hn1 : r1.ndim = r.ndim := by rw [e]; exact target_ndim _ _ _ _
  have hd1 : r1.dims = r.dims := by rw [e]; rfl
  have g1 : r1.dim2index a1 = .ok i1 := by unfold Region.dim2index; rw [hd1]; exact h1
  have g2 : r1.dim2index a2 = .ok i2 := by unfold Region.dim2index; rw [hd1]; exact h2
  obtain ⟨f1, f2⟩ := rot_forms_ok r1 hr1 a1 a2 l (some R) i1 i2 hax (by rw [hR1, hn1]; exact href) g1 g2
  obtain ⟨f3, f4⟩ := rot_forms_ok r hr a1 a2 (k + l) (some R) i1 i2 hax (by rw [hR]; exact href) h1 h2
  rw [hR1] at f1 f2
  rw [hR] at f3 f4
  have key : target r1 (rotCoord r1.pmin R i1 i2 l) (rotCoord r1.pmax R i1 i2 l) (rotUnits r1.units i1 i2 l)
      = target r (rotCoord r.pmin R i1 i2 (k + l)) (rotCoord r.pmax R i1 i2 (k + l)) (rotUnits r.units i1 i2 (k + l)) := by
    have hu2 : rotUnits r1.units i1 i2 l = rotUnits r.units i1 i2 (k + l) := by
      rw [e]; show rotUnits (rotUnits r.units i1 i2 k) i1 i2 l = _
      unfold rotUnits
      exact rotSwap_compose r.units i1 i2 k l h12 (by rw [hr.2.2.2.1]; exact l1) (by rw [hr.2.2.2.1]; exact l2)
    unfold target
    rw [hu2, hn1]
    have hcorner := fun a ha => rot_twice_corner r hr R i1 i2 k l h12 l1 l2 a ha
    simp only at hcorner
    rw [← e] at hcorner
    have p1 := tab_congr r.ndim _ _ (fun a ha => (hcorner a ha).1)
    have p2 := tab_congr r.ndim _ _ (fun a ha => (hcorner a ha).2)
    rw [p1, p2, e]
    rfl
  refine ⟨target r (rotCoord r.pmin R i1 i2 (k + l)) (rotCoord r.pmax R i1 i2 (k + l)) (rotUnits r.units i1 i2 (k + l)), ?_, ?_⟩
  · rw [← key]
    cases b'
    · simp only [Bool.false_eq_true, if_false]; exact f2
    · simp only [if_true]; exact f1
  · cases b''
    · simp only [Bool.false_eq_true, if_false]; exact f4
    · simp only [if_true]; exact f3
/-- mapping a list of subregions by `f` and then by `g` is mapping it by `h`, if that holds entry-wise -/
theorem mapSubs_compose (subs s1 : List (String × Region)) (f g h : Region → M (Region × Region))
    (hf : mapSubs subs f = .ok s1)
    (hc : ∀ p ∈ subs, ∀ x r1, f p.2 = .ok (x, r1) → ∃ r2 y z, g r1 = .ok (y, r2) ∧ h p.2 = .ok (z, r2)) :
    ∃ s2, mapSubs s1 g = .ok s2 ∧ mapSubs subs h = .ok s2 := by
  induction subs generalizing s1 with
  | nil =>
    have : s1 = [] := by
      have : mapSubs [] f = .ok [] := rfl
      rw [this] at hf; injection hf with hf; exact hf.symm
    subst this; exact ⟨[], rfl, rfl⟩
  | cons p ps ih =>
    rw [mapSubs_cons] at hf
    split at hf
    · cases hf
    · rename_i x r1 hp
      split at hf
      · cases hf
      · rename_i qs hqs
        injection hf with hf; subst hf
        obtain ⟨r2, y, z, hg, hh⟩ := hc p (by simp) x r1 hp
        obtain ⟨s2, i1, i2⟩ := ih qs hqs (fun q hq => hc q (List.mem_cons_of_mem _ hq))
        refine ⟨(p.1, r2) :: s2, ?_, ?_⟩
        · rw [mapSubs_cons]; simp only [hg, i1]
        · rw [mapSubs_cons]; simp only [hh, i2]

theorem rotN_compose (n : List Nat) (i1 i2 : Nat) (k l : Int) (h12 : i1 ≠ i2) (h1 : i1 < n.length) (h2 : i2 < n.length) :
    rotN (rotN n i1 i2 k) i1 i2 l = rotN n i1 i2 (k + l) := by
  unfold rotN; exact rotSwap_compose n i1 i2 k l h12 h1 h2

/-- **Mesh (in-place form): a turn by `k` followed by a turn by `l` about the same reference point
is the turn by `k + l`** on region, counts and every subregion; the second turn is always
accepted. -/
theorem stepM_rot_compose (m : Mesh) (hm : m.Inv) (hs : SubInv m) (a1 a2 : String) (k l : Int) (R : List Rat)
    (m1 m1' : Mesh) (h : stepM m (.rotate90 a1 a2 k (some R) true) = .ok (m1, m1')) :
    ∃ m2 m12, stepM m1' (.rotate90 a1 a2 l (some R) true) = .ok (m2, m2) ∧
      stepM m (.rotate90 a1 a2 (k + l) (some R) true) = .ok (m12, m12) ∧
      m2.region = m12.region ∧ m2.n = m12.n ∧ m2.subs = m12.subs ∧
      m2.bc = rotBc (rotBc m.bc a1 a2 k) a1 a2 l ∧ m12.bc = rotBc m.bc a1 a2 (k + l) := by
  have hk1 := stepM_keeps m hm _ _ _ h
  have hs1 := (stepM_subInv' m hm hs _ _ _ h).2.1
  rw [stepM_eq_stepMU] at h
  unfold stepMU at h
  split at h
  · cases h
  · cases h
  · rename_i x r1 s1 hreg hsub
    simp only [Op.inplace, if_true] at h
    injection h with h; injection h with ha hb
    subst ha
    simp only [stepR] at hreg
    simp only [subOp, stepR] at hsub
    obtain ⟨_, _, i1, i2, h1, h2, h12, l1, l2, _, er1, _⟩ := rotate90R_inv _ _ _ _ _ _ _ _ hreg
    obtain ⟨r2, f1, f2⟩ := rotate90R_compose m.region hm.1 a1 a2 k l R true true true x r1 hreg
    simp only [if_true] at f1 f2
    have hd1 : r1.dims = m.region.dims := by rw [er1]; rfl
    have g1 : r1.dim2index a1 = .ok i1 := by unfold Region.dim2index; rw [hd1]; exact h1
    have g2 : r1.dim2index a2 = .ok i2 := by unfold Region.dim2index; rw [hd1]; exact h2
    have hsr : ∀ (mm : Mesh), subRef mm (some R) = some R := fun _ => rfl
    obtain ⟨s2, c1, c2⟩ := mapSubs_compose m.subs s1 (fun s => rotate90R s a1 a2 k (subRef m (some R)) true)
      (fun s => rotate90R s a1 a2 l (some R) true) (fun s => rotate90R s a1 a2 (k + l) (some R) true) hsub
      (by
        intro p hp x' r1' hp'
        have hpi := subOkE_regionInv m hm p.2 (hs p hp)
        rw [hsr] at hp'
        obtain ⟨q2, e1, e2⟩ := rotate90R_compose p.2 hpi a1 a2 k l R true true true x' r1' hp'
        simp only [if_true] at e1 e2
        exact ⟨q2, q2, q2, e1, e2⟩)
    have hnl : m.n.length = m.region.dims.length := by rw [hm.2.1, hm.1.2.2.1]; rfl
    subst hb
    refine ⟨{ region := r2, n := rotN (rotN m.n i1 i2 k) i1 i2 l, bc := rotBc (rotBc m.bc a1 a2 k) a1 a2 l, subs := s2 },
            { region := r2, n := rotN m.n i1 i2 (k + l), bc := rotBc m.bc a1 a2 (k + l), subs := s2 }, ?_, ?_, rfl,
            rotN_compose _ _ _ _ _ h12 (hnl ▸ l1) (hnl ▸ l2), rfl, rfl, rfl⟩
    · rw [stepM_eq_stepMU]; unfold stepMU
      simp only [stepR, subOp, opN, opBc, Op.inplace, if_true, hsr, f1, g1, g2, h1, h2]
      rw [c1]
    · rw [stepM_eq_stepMU]; unfold stepMU
      simp only [stepR, subOp, opN, opBc, Op.inplace, if_true, hsr, f2, h1, h2]
      rw [c2]
theorem forall2_eq (l1 l2 : List (String × Region)) (R : String × Region → String × Region → Prop)
    (hR : ∀ p ∈ l1, ∀ q, R p q → q = p) (h : List.Forall₂ R l1 l2) : l2 = l1 := by
  induction h with
  | nil => rfl
  | @cons p q ps qs hr _ ih =>
    rw [hR p (by simp) q hr, ih (fun p' hp' => hR p' (List.mem_cons_of_mem _ hp'))]

theorem restamp_id (m : Mesh) (hs : SubInv m) : m.subs.map (restamp m.region) = m.subs := by
  conv => rhs; rw [← List.map_id m.subs]
  apply List.map_congr_left
  intro p hp
  obtain ⟨h1, h2, h3, _⟩ := hs p hp
  obtain ⟨nm, rg⟩ := p
  unfold restamp
  simp only [id]
  simp only at h1 h2 h3
  rw [← h1, ← h2, ← h3]

/-- **Mesh: a turn by a multiple of four quarter turns is the identity** — in place the mesh is
unchanged; the copying form returns it with `bc` lower-cased by the constructor. -/
theorem stepM_rot_zero (m : Mesh) (hm : m.Inv) (hs : SubInv m) (a1 a2 : String) (k : Int) (hk : k % 4 = 0)
    (ref : Option (List Rat)) (b : Bool) (recv ret : Mesh) (h : stepM m (.rotate90 a1 a2 k ref b) = .ok (recv, ret)) :
    ret = (if b then m else { m with bc := m.bc.toLower }) ∧ recv = m := by
  have hodd : isOdd k = false := by unfold isOdd; simp; omega
  rw [stepM_eq_stepMU] at h
  unfold stepMU at h
  split at h
  · cases h
  · cases h
  · rename_i x r' subs' hreg hsub
    simp only [stepR] at hreg
    simp only [subOp, stepR] at hsub
    obtain ⟨er, _⟩ := rotate90R_zero m.region hm.1 a1 a2 k hk ref b x r' hreg
    obtain ⟨_, _, i1, i2, h1, h2, _⟩ := rotate90R_inv _ _ _ _ _ _ _ _ hreg
    have hsubs : subs' = m.subs := by
      apply forall2_eq _ _ _ _ (mapSubs_inv _ _ _ hsub)
      intro p hp q ⟨hn, y, hq⟩
      obtain ⟨e, _⟩ := rotate90R_zero p.2 (subOkE_regionInv m hm p.2 (hs p hp)) a1 a2 k hk _ b y q.2 hq
      exact Prod.ext hn e
    have hN : opN m (.rotate90 a1 a2 k ref b) = m.n := by
      simp only [opN, h1, h2]; unfold rotN; rw [hodd]; rfl
    have hB : opBc m (.rotate90 a1 a2 k ref b) = m.bc := by
      simp only [opBc]; unfold rotBc; rw [hodd]; rfl
    rw [hN, hB, er, hsubs] at h
    cases b
    · simp only [Op.inplace, Bool.false_eq_true, if_false] at h ⊢
      split at h
      · cases h
      · rename_i m' hm'
        injection h with h; injection h with ha hb
        obtain ⟨e1, e2, e3, e4, _⟩ := mkMesh_inv _ _ _ _ _ hm'
        have e4' : m'.subs = m.subs := by rw [e4]; exact restamp_id m hs
        refine ⟨?_, ha.symm⟩
        rw [← hb]
        cases m'; simp only at e1 e2 e3 e4'; subst e1; subst e2; subst e3; subst e4'; rfl
    · simp only [Op.inplace, if_true] at h ⊢
      injection h with h; injection h with ha hb
      exact ⟨hb.symm, ha.symm⟩
/-- the two in-plane components of the `np.rot90` source index, as arithmetic on the pair -/
def srcPair (sp sq : Nat) (k : Int) (jp jq : Nat) : Nat × Nat :=
  if k % 4 = 0 then (jp, jq)
  else if k % 4 = 2 then (sp - 1 - jp, sq - 1 - jq)
  else if k % 4 = 1 then (jq, sq - 1 - jp)
  else (sp - 1 - jq, jp)

theorem srcIdx_length (sh j : List Nat) (p q : Nat) (k : Int) : (srcIdx sh p q k j).length = j.length := by
  unfold srcIdx
  split
  · rfl
  · split
    · simp [setAt_length]
    · split <;> simp [setAt_length, swapAt_length]

theorem srcIdx_pair (sh j : List Nat) (p q : Nat) (k : Int) (hpq : p ≠ q) (hp : p < j.length) (hq : q < j.length)
    (hsh : sh.length = j.length) :
    (srcIdx sh p q k j).getD p 0 = (srcPair (sh.getD p 0) (sh.getD q 0) k (j.getD p 0) (j.getD q 0)).1 ∧
    (srcIdx sh p q k j).getD q 0 = (srcPair (sh.getD p 0) (sh.getD q 0) k (j.getD p 0) (j.getD q 0)).2 ∧
    ∀ a, a ≠ p → a ≠ q → (srcIdx sh p q k j).getD a 0 = j.getD a 0 := by
  obtain ⟨c0, c2, c1, c3⟩ := srcIdx_comp sh j p q k hpq hp hq hsh
  unfold srcPair
  have hk : k % 4 = 0 ∨ k % 4 = 1 ∨ k % 4 = 2 ∨ k % 4 = 3 := by omega
  rcases hk with hk | hk | hk | hk
  · rw [if_pos hk]; exact ⟨c0 hk p, c0 hk q, fun a _ _ => c0 hk a⟩
  · rw [if_neg (by omega), if_neg (by omega), if_pos hk]; exact c1 hk
  · rw [if_neg (by omega), if_pos hk]; exact c2 hk
  · rw [if_neg (by omega), if_neg (by omega), if_neg (by omega)]; exact c3 hk

/-- composition of the pair maps: the inner map sees the shape already turned by `k` -/
theorem srcPair_compose (sp sq : Nat) (k l : Int) (jp jq : Nat)
    (hjp : jp < (if isOdd (k + l) then sq else sp)) (hjq : jq < (if isOdd (k + l) then sp else sq)) :
    srcPair sp sq k (srcPair (if isOdd k then sq else sp) (if isOdd k then sp else sq) l jp jq).1
        (srcPair (if isOdd k then sq else sp) (if isOdd k then sp else sq) l jp jq).2
      = srcPair sp sq (k + l) jp jq := by
  unfold srcPair isOdd at *
  have hk : k % 4 = 0 ∨ k % 4 = 1 ∨ k % 4 = 2 ∨ k % 4 = 3 := by omega
  have hl : l % 4 = 0 ∨ l % 4 = 1 ∨ l % 4 = 2 ∨ l % 4 = 3 := by omega
  rcases hk with hk | hk | hk | hk <;> rcases hl with hl | hl | hl | hl <;>
    (have hkl : (k + l) % 4 = (k % 4 + l % 4) % 4 := Int.add_emod k l 4
     have hk2 : k % 2 = (k % 4) % 2 := by omega
     have hkl2 : (k + l) % 2 = ((k + l) % 4) % 2 := by omega
     rw [hk, hl] at hkl
     norm_num at hkl
     rw [hkl2, hkl] at hjp hjq
     rw [hk2]
     simp [hk, hl, hkl] at hjp hjq ⊢
     try omega)
theorem rotShape_getD (sh : List Nat) (p q : Nat) (k : Int) (hpq : p ≠ q) (hp : p < sh.length) (hq : q < sh.length) :
    (if isOdd k then swapAt sh p q else sh).getD p 0 = (if isOdd k then sh.getD q 0 else sh.getD p 0) ∧
    (if isOdd k then swapAt sh p q else sh).getD q 0 = (if isOdd k then sh.getD p 0 else sh.getD q 0) := by
  have dflt : (default : Nat) = 0 := rfl
  cases isOdd k
  · exact ⟨rfl, rfl⟩
  · simp only [if_true]
    exact ⟨by rw [getD_swapAt_left _ _ _ _ hpq hp, dflt], by rw [getD_swapAt_right _ _ _ _ hq, dflt]⟩

/-- **`np.rot90` composes**: turning an array by `k` and then by `l` in the same plane gives the
array turned by `k + l` — same shape, same entry at every index of that shape. -/
theorem rot90_compose' {α} (a : NDA α) (p q : Nat) (k l : Int) (hpq : p ≠ q) (hp : p < a.shape.length) (hq : q < a.shape.length) :
    (rot90 (rot90 a p q k) p q l).shape = (rot90 a p q (k + l)).shape ∧
    ∀ j, inRange (rot90 a p q (k + l)).shape j = true →
      (rot90 (rot90 a p q k) p q l).get j = (rot90 a p q (k + l)).get j := by
  have hs1 := DFV.C13.rot90_shape a p q k
  have hs12 := DFV.C13.rot90_shape a p q (k + l)
  have hs2 := DFV.C13.rot90_shape (rot90 a p q k) p q l
  constructor
  · rw [hs2, hs1, hs12]; exact rotSwap_compose a.shape p q k l hpq hp hq
  · intro j hj
    rw [rot90_get, rot90_get, rot90_get]
    congr 1
    have hjl : j.length = a.shape.length := by
      rw [inRange_length _ _ hj, hs12]; split <;> simp [swapAt_length]
    have hl1 : (rot90 a p q k).shape.length = j.length := by
      rw [hs1, hjl]; split <;> simp [swapAt_length]
    have hpj : p < j.length := hjl ▸ hp
    have hqj : q < j.length := hjl ▸ hq
    have hjp := inRange_getD _ _ hj p (by rw [← inRange_length _ _ hj]; exact hpj)
    have hjq := inRange_getD _ _ hj q (by rw [← inRange_length _ _ hj]; exact hqj)
    rw [hs12] at hjp hjq
    obtain ⟨sp12, sq12⟩ := rotShape_getD a.shape p q (k + l) hpq hp hq
    rw [sp12] at hjp; rw [sq12] at hjq
    obtain ⟨sp1, sq1⟩ := rotShape_getD a.shape p q k hpq hp hq
    -- inner index
    obtain ⟨i_p, i_q, i_o⟩ := srcIdx_pair (rot90 a p q k).shape j p q l hpq hpj hqj hl1
    have hsp : (rot90 a p q k).shape.getD p 0 = (if isOdd k then a.shape.getD q 0 else a.shape.getD p 0) := by rw [hs1]; exact sp1
    have hsq : (rot90 a p q k).shape.getD q 0 = (if isOdd k then a.shape.getD p 0 else a.shape.getD q 0) := by rw [hs1]; exact sq1
    rw [hsp, hsq] at i_p i_q
    have hil : (srcIdx (rot90 a p q k).shape p q l j).length = j.length := srcIdx_length _ _ _ _ _
    obtain ⟨o_p, o_q, o_o⟩ := srcIdx_pair a.shape (srcIdx (rot90 a p q k).shape p q l j) p q k hpq (hil ▸ hpj) (hil ▸ hqj)
      (by rw [hil, hjl])
    obtain ⟨s_p, s_q, s_o⟩ := srcIdx_pair a.shape j p q (k + l) hpq hpj hqj hjl.symm
    have hc := srcPair_compose (a.shape.getD p 0) (a.shape.getD q 0) k l (j.getD p 0) (j.getD q 0) hjp hjq
    apply list_ext_getD _ _ 0 (by rw [srcIdx_length, srcIdx_length, srcIdx_length])
    intro b _
    by_cases e1 : b = p
    · subst e1; rw [o_p, s_p, i_p, i_q, hc]
    · by_cases e2 : b = q
      · subst e2; rw [o_q, s_q, i_p, i_q, hc]
      · rw [o_o b e1 e2, s_o b e1 e2, i_o b e1 e2]
/-- what an accepted field rotation returned -/
theorem rotate90F_inv (f : Fld) (a1 a2 : String) (k : Int) (ref : Option (List Rat)) (b : Bool) (x g : Fld)
    (h : rotate90F f a1 a2 k ref b = .ok (x, g)) :
    ∃ y m' i1 i2, stepM f.mesh (.rotate90 a1 a2 k ref false) = .ok (y, m') ∧
      f.mesh.region.dim2index a1 = .ok i1 ∧ f.mesh.region.dim2index a2 = .ok i2 ∧
      g.mesh = m' ∧ g.nvdim = f.nvdim ∧ g.vdims = f.vdims ∧ g.vmap = f.vmap ∧ g.unit = f.unit ∧
      g.valid = rot90 f.valid i1 i2 k ∧
      ((f.nvdim ≤ 1 ∧ g.data = rot90 f.data i1 i2 k) ∨
       (f.nvdim > 1 ∧ ∃ c1 c2, (f.rDim a1).bind f.vdimIndex = some c1 ∧ (f.rDim a2).bind f.vdimIndex = some c2 ∧
          g.data = (rot90 f.data i1 i2 k).map fun v => rotVec v c1 c2 k)) ∧
      x = if b then g else f := by
  unfold rotate90F at h
  split at h
  · cases h
  · cases h
  · cases h
  · rename_i y m' i1 i2 hm' h1 h2
    refine ⟨y, m', i1, i2, hm', h1, h2, ?_⟩
    split at h
    · rename_i hv
      split at h
      · rename_i c1 c2 hc1 hc2
        injection h with h; injection h with ha hb
        subst hb
        refine ⟨rfl, rfl, rfl, rfl, rfl, rfl, Or.inr ⟨hv, c1, c2, hc1, hc2, rfl⟩, ?_⟩
        cases b <;> exact ha.symm
      · cases h
    · rename_i hv
      injection h with h; injection h with ha hb
      subst hb
      refine ⟨rfl, rfl, rfl, rfl, rfl, rfl, Or.inl ⟨by omega, rfl⟩, ?_⟩
      cases b <;> exact ha.symm

theorem rotVec_zero (v : List Rat) (c1 c2 : Nat) (k : Int) (hk : k % 4 = 0) : rotVec v c1 c2 k = v := by
  have hc : cosq k = 1 := by simp [cosq, hk]
  have hs : sinq k = 0 := by simp [sinq, hk]
  unfold rotVec
  rw [hc, hs]
  symm; apply eq_tab_of_getD _ _ _ 0 rfl
  intro c _
  split
  · rename_i h; subst h; ring
  · split
    · rename_i h; subst h; ring
    · rfl

/-- **Field: a turn by a multiple of four quarter turns is the identity** on values, validity, labels
and mesh (the mesh comes back through the constructor: `bc` lower-cased). -/
theorem rotate90F_zero (f : Fld) (hf : FldInv f) (hs : SubInv f.mesh) (a1 a2 : String) (k : Int) (hk : k % 4 = 0)
    (ref : Option (List Rat)) (b : Bool) (x g : Fld) (h : rotate90F f a1 a2 k ref b = .ok (x, g)) :
    g = { f with mesh := { f.mesh with bc := f.mesh.bc.toLower } } := by
  obtain ⟨y, m', i1, i2, hm', _, _, e1, e2, e3, e4, e5, e6, e7, _⟩ := rotate90F_inv f a1 a2 k ref b x g h
  obtain ⟨em, _⟩ := stepM_rot_zero f.mesh hf.1 hs a1 a2 k hk ref false y m' hm'
  simp only [Bool.false_eq_true, if_false] at em
  have r0 : ∀ {α} (a : NDA α), rot90 a i1 i2 k = a := by intro α a; unfold rot90; rw [if_pos hk]
  have hdata : g.data = f.data := by
    rcases e7 with ⟨_, e⟩ | ⟨_, c1, c2, _, _, e⟩
    · rw [e, r0]
    · rw [e, r0]
      unfold NDA.map
      simp only [rotVec_zero _ _ _ _ hk]
  cases g
  simp only at e1 e2 e3 e4 e5 e6 hdata
  subst e1; subst e2; subst e3; subst e4; subst e5
  rw [e6, r0, hdata, em]
theorem rot90_map {α β} (φ : α → β) (a : NDA α) (p q : Nat) (k : Int) : rot90 (a.map φ) p q k = (rot90 a p q k).map φ := by
  unfold rot90
  split
  · rfl
  · split
    · rfl
    · split <;> rfl

theorem rotVec_compose' (v : List Rat) (c1 c2 : Nat) (k l : Int) (h12 : c1 ≠ c2)
    (h1 : c1 < v.length) (h2 : c2 < v.length) :
    rotVec (rotVec v c1 c2 k) c1 c2 l = rotVec v c1 c2 (k + l) := by
  unfold rotVec
  rw [tab_length]
  apply tab_congr
  intro c hc
  obtain ⟨hcs, hsn⟩ := quarter_add' k l
  rw [getD_tab _ _ _ _ h1, getD_tab _ _ _ _ h2, getD_tab _ _ _ _ hc]
  by_cases e1 : c = c1
  · rw [e1]
    simp only [if_true, h12, if_false, h12.symm, hcs, hsn]
    ring
  · by_cases e2 : c = c2
    · rw [e2]
      simp only [if_false, if_true, h12, h12.symm, hcs, hsn]
      ring
    · simp only [e1, e2, if_false]

/-- the axes found in a mesh, and that they survive a mesh step -/
theorem stepM_rot_axes (m : Mesh) (hm : m.Inv) (a1 a2 : String) (k : Int) (ref : Option (List Rat)) (b : Bool)
    (y m' : Mesh) (h : stepM m (.rotate90 a1 a2 k ref b) = .ok (y, m')) :
    ∃ i1 i2, m.region.dim2index a1 = .ok i1 ∧ m.region.dim2index a2 = .ok i2 ∧ i1 ≠ i2 ∧
      i1 < m.n.length ∧ i2 < m.n.length ∧ m'.region.dims = m.region.dims := by
  obtain ⟨_, _, _, x, hx⟩ := stepM_keeps m hm _ _ _ h
  simp only [stepR] at hx
  obtain ⟨_, _, i1, i2, h1, h2, h12, l1, l2, _, e, _⟩ := rotate90R_inv _ _ _ _ _ _ _ _ hx
  have hnl : m.n.length = m.region.dims.length := by rw [hm.2.1, hm.1.2.2.1]; rfl
  exact ⟨i1, i2, h1, h2, h12, hnl ▸ l1, hnl ▸ l2, by rw [e]; rfl⟩

/-- **Field arrays: a turn by `k` followed by a turn by `l` is the turn by `k + l`** — for the
validity array and the value array (same shape, same entries at every index of that shape; the
mapped components turned by the composed matrix), whatever the reference points and forms. -/
theorem rotate90F_compose_arrays (f : Fld) (hf : FldInv f) (a1 a2 : String) (k l : Int)
    (ref ref' ref'' : Option (List Rat)) (b b' b'' : Bool) (x1 g1 x2 g2 x12 g12 : Fld)
    (h1 : rotate90F f a1 a2 k ref b = .ok (x1, g1)) (h2 : rotate90F g1 a1 a2 l ref' b' = .ok (x2, g2))
    (h12 : rotate90F f a1 a2 (k + l) ref'' b'' = .ok (x12, g12)) :
    g2.valid.shape = g12.valid.shape ∧ g2.data.shape = g12.data.shape ∧
    (∀ j, inRange g12.valid.shape j = true → g2.valid.get j = g12.valid.get j) ∧
    (f.nvdim ≤ 1 → ∀ j, inRange g12.data.shape j = true → g2.data.get j = g12.data.get j) ∧
    (f.nvdim > 1 → ∃ i1 i2 c1 c2, f.mesh.region.dim2index a1 = .ok i1 ∧ f.mesh.region.dim2index a2 = .ok i2 ∧
        (f.rDim a1).bind f.vdimIndex = some c1 ∧ (f.rDim a2).bind f.vdimIndex = some c2 ∧
        ∀ j, inRange g12.data.shape j = true →
        g2.data.get j = rotVec (rotVec ((rot90 f.data i1 i2 (k + l)).get j) c1 c2 k) c1 c2 l ∧
        g12.data.get j = rotVec ((rot90 f.data i1 i2 (k + l)).get j) c1 c2 (k + l)) ∧
    g2.nvdim = g12.nvdim ∧ g2.vdims = g12.vdims ∧ g2.vmap = g12.vmap ∧ g2.unit = g12.unit := by
  obtain ⟨y1, m1, i1, i2, hm1, d1, d2, e1, e2, e3, e4, e5, e6, e7, _⟩ := rotate90F_inv f a1 a2 k ref b x1 g1 h1
  obtain ⟨y2, m2, j1, j2, hm2, d1', d2', u1, u2, u3, u4, u5, u6, u7, _⟩ := rotate90F_inv g1 a1 a2 l ref' b' x2 g2 h2
  obtain ⟨y3, m3, t1, t2, hm3, d1'', d2'', w1, w2, w3, w4, w5, w6, w7, _⟩ := rotate90F_inv f a1 a2 (k + l) ref'' b'' x12 g12 h12
  obtain ⟨q1, q2, hq1, hq2, h12', lq1, lq2, hdims⟩ := stepM_rot_axes f.mesh hf.1 a1 a2 k ref false y1 m1 hm1
  rw [d1] at hq1; rw [d2] at hq2
  injection hq1 with hq1; injection hq2 with hq2
  subst q1 q2
  -- the same axes in the turned field
  have hj1 : j1 = i1 := by
    have : g1.mesh.region.dim2index a1 = f.mesh.region.dim2index a1 := by unfold Region.dim2index; rw [e1, hdims]
    rw [this, d1] at d1'; injection d1' with d1'; exact d1'.symm
  have hj2 : j2 = i2 := by
    have : g1.mesh.region.dim2index a2 = f.mesh.region.dim2index a2 := by unfold Region.dim2index; rw [e1, hdims]
    rw [this, d2] at d2'; injection d2' with d2'; exact d2'.symm
  have ht1 : t1 = i1 := by rw [d1] at d1''; injection d1'' with d1''; exact d1''.symm
  have ht2 : t2 = i2 := by rw [d2] at d2''; injection d2'' with d2''; exact d2''.symm
  subst j1 j2 t1 t2
  have hvs : i1 < f.valid.shape.length := by rw [hf.2.2]; exact lq1
  have hvs2 : i2 < f.valid.shape.length := by rw [hf.2.2]; exact lq2
  have hds : i1 < f.data.shape.length := by rw [hf.2.1]; exact lq1
  have hds2 : i2 < f.data.shape.length := by rw [hf.2.1]; exact lq2
  obtain ⟨vs, vg⟩ := rot90_compose' f.valid i1 i2 k l h12' hvs hvs2
  obtain ⟨ds, dg⟩ := rot90_compose' f.data i1 i2 k l h12' hds hds2
  have s1 : g1.data.shape = (rot90 f.data i1 i2 k).shape := by
    rcases e7 with ⟨_, e⟩ | ⟨_, _, _, _, _, e⟩ <;> rw [e] <;> rfl
  have s2 : g2.data.shape = (rot90 g1.data i1 i2 l).shape := by
    rcases u7 with ⟨_, u⟩ | ⟨_, _, _, _, _, u⟩ <;> rw [u] <;> rfl
  have s12 : g12.data.shape = (rot90 f.data i1 i2 (k + l)).shape := by
    rcases w7 with ⟨_, w⟩ | ⟨_, _, _, _, _, w⟩ <;> rw [w] <;> rfl
  have hshape : g2.data.shape = g12.data.shape := by
    rw [s2, s12, ← ds, DFV.C13.rot90_shape g1.data, DFV.C13.rot90_shape (rot90 f.data i1 i2 k), s1]
  refine ⟨by rw [u6, w6, e6]; exact vs, hshape, ?_, ?_, ?_, by rw [u2, w2, e2], by rw [u3, w3, e3], by rw [u4, w4, e4],
    by rw [u5, w5, e5]⟩
  · intro j hj; rw [u6, w6, e6]; rw [w6] at hj; exact vg j hj
  · intro hv j hj
    rcases e7 with ⟨_, e⟩ | ⟨hgt, _⟩
    · rcases u7 with ⟨_, u⟩ | ⟨hgt, _⟩
      · rcases w7 with ⟨_, w⟩ | ⟨hgt, _⟩
        · rw [u, w, e]; rw [w] at hj; exact dg j hj
        · omega
      · rw [e2] at hgt; omega
    · omega
  · intro hv
    rcases e7 with ⟨hle, _⟩ | ⟨_, c1, c2, hc1, hc2, e⟩
    · omega
    · rcases u7 with ⟨hle, _⟩ | ⟨_, c1', c2', hc1', hc2', u⟩
      · rw [e2] at hle; omega
      · rcases w7 with ⟨hle, _⟩ | ⟨_, c1'', c2'', hc1'', hc2'', w⟩
        · omega
        · have r1 : (g1.rDim a1).bind g1.vdimIndex = (f.rDim a1).bind f.vdimIndex := by
            unfold Fld.rDim Fld.vdimIndex; rw [e3, e4]
          have r2 : (g1.rDim a2).bind g1.vdimIndex = (f.rDim a2).bind f.vdimIndex := by
            unfold Fld.rDim Fld.vdimIndex; rw [e3, e4]
          rw [r1, hc1] at hc1'; rw [r2, hc2] at hc2'
          rw [hc1] at hc1''; rw [hc2] at hc2''
          injection hc1' with hc1'; injection hc2' with hc2'
          injection hc1'' with hc1''; injection hc2'' with hc2''
          subst hc1'; subst hc2'; subst hc1''; subst hc2''
          refine ⟨i1, i2, c1, c2, d1, d2, hc1, hc2, ?_⟩
          intro j hj
          rw [u, w, e, rot90_map]
          rw [w] at hj
          simp only [NDA.map] at hj ⊢
          rw [dg j hj]
          exact ⟨rfl, trivial⟩
theorem forall2_imp_map {α β γ} (R : α → β → Prop) (R' : α → γ → Prop) (g : β → γ) (l1 : List α) (l2 : List β)
    (h : List.Forall₂ R l1 l2) (hi : ∀ a b, a ∈ l1 → R a b → R' a (g b)) : List.Forall₂ R' l1 (l2.map g) := by
  induction h with
  | nil => exact List.Forall₂.nil
  | @cons a b as bs hr _ ih =>
    rw [List.map_cons]
    exact List.Forall₂.cons (hi a b (by simp) hr) (ih fun a' b' ha' => hi a' b' (List.mem_cons_of_mem _ ha'))

/-- **Subregions move with the mesh**: an accepted mesh rotation turns the region and every
subregion by the same corner map `rotCoord · R i1 i2 k` about the same reference point `R` (the
given one, else the centre of the mesh region), keeping names and order. -/
theorem stepM_rot_subs (m : Mesh) (hd : ∀ p ∈ m.subs, p.2.dims = m.region.dims) (a1 a2 : String) (k : Int)
    (ref : Option (List Rat)) (b : Bool) (recv ret : Mesh) (h : stepM m (.rotate90 a1 a2 k ref b) = .ok (recv, ret)) :
    ∃ i1 i2, m.region.dim2index a1 = .ok i1 ∧ m.region.dim2index a2 = .ok i2 ∧
      ret.region = target m.region (rotCoord m.region.pmin (ref.getD m.region.center) i1 i2 k)
        (rotCoord m.region.pmax (ref.getD m.region.center) i1 i2 k) (rotUnits m.region.units i1 i2 k) ∧
      ret.n = rotN m.n i1 i2 k ∧
      List.Forall₂ (fun p q => q.1 = p.1 ∧
          q.2.pmin = (target p.2 (rotCoord p.2.pmin (ref.getD m.region.center) i1 i2 k)
            (rotCoord p.2.pmax (ref.getD m.region.center) i1 i2 k) (rotUnits p.2.units i1 i2 k)).pmin ∧
          q.2.pmax = (target p.2 (rotCoord p.2.pmin (ref.getD m.region.center) i1 i2 k)
            (rotCoord p.2.pmax (ref.getD m.region.center) i1 i2 k) (rotUnits p.2.units i1 i2 k)).pmax)
        m.subs ret.subs := by
  rw [stepM_eq_stepMU] at h
  unfold stepMU at h
  split at h
  · cases h
  · cases h
  · rename_i x r' subs' hreg hsub
    simp only [stepR] at hreg
    simp only [subOp, stepR] at hsub
    obtain ⟨_, _, i1, i2, h1, h2, _, _, _, _, er, _⟩ := rotate90R_inv _ _ _ _ _ _ _ _ hreg
    have hN : opN m (.rotate90 a1 a2 k ref b) = rotN m.n i1 i2 k := by simp only [opN, h1, h2]
    have hf := mapSubs_inv _ _ _ hsub
    have hsubs : List.Forall₂ (fun p q => q.1 = p.1 ∧
        q.2 = target p.2 (rotCoord p.2.pmin (ref.getD m.region.center) i1 i2 k)
            (rotCoord p.2.pmax (ref.getD m.region.center) i1 i2 k) (rotUnits p.2.units i1 i2 k)) m.subs subs' := by
      have hf' := forall2_imp_map _ (fun p q => q.1 = p.1 ∧
        q.2 = target p.2 (rotCoord p.2.pmin (ref.getD m.region.center) i1 i2 k)
            (rotCoord p.2.pmax (ref.getD m.region.center) i1 i2 k) (rotUnits p.2.units i1 i2 k)) id _ _ hf
        (by
          intro p q hp ⟨hn, y, hq⟩
          obtain ⟨_, _, j1, j2, g1, g2, _, _, _, _, e, _⟩ := rotate90R_inv _ _ _ _ _ _ _ _ hq
          have hR : (subRef m ref).getD p.2.center = ref.getD m.region.center := rfl
          rw [hR] at e
          have hj1 : j1 = i1 := by
            have : p.2.dim2index a1 = m.region.dim2index a1 := by unfold Region.dim2index; rw [hd p hp]
            rw [this, h1] at g1; injection g1 with g1; exact g1.symm
          have hj2 : j2 = i2 := by
            have : p.2.dim2index a2 = m.region.dim2index a2 := by unfold Region.dim2index; rw [hd p hp]
            rw [this, h2] at g2; injection g2 with g2; exact g2.symm
          subst j1 j2
          exact ⟨hn, e⟩)
      rwa [List.map_id] at hf'
    refine ⟨i1, i2, h1, h2, ?_⟩
    split at h
    · injection h with h; injection h with _ hb
      subst hb
      refine ⟨er, hN, ?_⟩
      have := forall2_imp_map _ (fun p q => q.1 = p.1 ∧
          q.2.pmin = (target p.2 (rotCoord p.2.pmin (ref.getD m.region.center) i1 i2 k)
            (rotCoord p.2.pmax (ref.getD m.region.center) i1 i2 k) (rotUnits p.2.units i1 i2 k)).pmin ∧
          q.2.pmax = (target p.2 (rotCoord p.2.pmin (ref.getD m.region.center) i1 i2 k)
            (rotCoord p.2.pmax (ref.getD m.region.center) i1 i2 k) (rotUnits p.2.units i1 i2 k)).pmax) id _ _ hsubs
        (by intro p q _ ⟨hn, e⟩; exact ⟨hn, by rw [id, e], by rw [id, e]⟩)
      rwa [List.map_id] at this
    · split at h
      · cases h
      · rename_i m' hm'
        injection h with h; injection h with _ hb
        subst hb
        obtain ⟨e1, e2, _, e4, _⟩ := mkMesh_inv _ _ _ _ _ hm'
        refine ⟨by rw [e1, er], by rw [e2, hN], ?_⟩
        rw [e4]
        exact forall2_imp_map _ _ _ _ _ hsubs (by intro p q _ ⟨hn, e⟩; exact ⟨hn, by simp only [e], by simp only [e]⟩)
/-- the in-place mesh step does not look at `bc` except to permute it -/
theorem stepM_bc_indep (m : Mesh) (bc' : String) (op : Op) (T1 T2 : Mesh)
    (h : stepM m (op.withInplace true) = .ok (T1, T2)) :
    stepM { m with bc := bc' } (op.withInplace true)
      = .ok ({ T2 with bc := opBc { m with bc := bc' } op }, { T2 with bc := opBc { m with bc := bc' } op }) := by
  rw [stepM_eq_stepMU] at h ⊢
  unfold stepMU at h ⊢
  split at h
  · cases h
  · cases h
  · rename_i x r' subs' hreg hsub
    simp only [inplace_withInplace, if_true, opN_withInplace, opBc_withInplace] at h ⊢
    injection h with h; injection h with _ hb
    have e1 : stepR ({ m with bc := bc' } : Mesh).region (op.withInplace true) = .ok (x, r') := hreg
    have e2 : mapSubs ({ m with bc := bc' } : Mesh).subs (fun s => stepR s (subOp { m with bc := bc' } (op.withInplace true))) = .ok subs' := by
      have : subOp { m with bc := bc' } (op.withInplace true) = subOp m (op.withInplace true) := by cases op <;> rfl
      rw [this]; exact hsub
    rw [e1, e2]
    have e3 : opN { m with bc := bc' } op = opN m op := by cases op <;> rfl
    simp only [e3]
    rw [← hb]

/-- **Mesh (copying form): composition.**  If the turn by `k`, the turn of its result by `l` and the
turn by `k + l` about the same reference point are all accepted in the copying form, the two final
meshes have the same region, counts and subregions (and are equal for non-periodic `bc`). -/
theorem stepM_rot_compose_copy (m : Mesh) (hm : m.Inv) (hs : SubInv m) (a1 a2 : String) (k l : Int) (R : List Rat)
    (y1 m1 y2 m2 y12 m12 : Mesh)
    (h1 : stepM m (.rotate90 a1 a2 k (some R) false) = .ok (y1, m1))
    (h2 : stepM m1 (.rotate90 a1 a2 l (some R) false) = .ok (y2, m2))
    (h12 : stepM m (.rotate90 a1 a2 (k + l) (some R) false) = .ok (y12, m12)) :
    m2.region = m12.region ∧ m2.n = m12.n ∧ m2.subs = m12.subs ∧ (PlainBc m.bc → m2 = m12) := by
  have hk1 := stepM_keeps m hm _ _ _ h1
  have hs1 := (stepM_subInv' m hm hs _ _ _ h1).2.1
  obtain ⟨_, T1, hT1, e1⟩ := stepM_copy_to_inplace m hm hs (.rotate90 a1 a2 k (some R) false) y1 m1 h1
  obtain ⟨_, T2', hT2', e2⟩ := stepM_copy_to_inplace m1 hk1.2.1 hs1 (.rotate90 a1 a2 l (some R) false) y2 m2 h2
  obtain ⟨_, T12, hT12, e12⟩ := stepM_copy_to_inplace m hm hs (.rotate90 a1 a2 (k + l) (some R) false) y12 m12 h12
  simp only [Op.withInplace] at hT1 hT2' hT12
  obtain ⟨T2, T12', g2, g12, c1, c2, c3, c4, c5⟩ := stepM_rot_compose m hm hs a1 a2 k l R T1 T1 hT1
  rw [hT12] at g12
  injection g12 with g12; injection g12 with g12 _
  subst g12
  -- m1 is T1 up to bc
  have hb := stepM_bc_indep T1 T1.bc.toLower (.rotate90 a1 a2 l (some R) false) T2 T2 g2
  simp only [Op.withInplace] at hb
  rw [← e1, hT2'] at hb
  injection hb with hb; injection hb with hb _
  have r1 : m2.region = T12.region := by rw [e2, hb]; exact c1
  have r2 : m2.n = T12.n := by rw [e2, hb]; exact c2
  have r3 : m2.subs = T12.subs := by rw [e2, hb]; exact c3
  have q1 : m2.region = m12.region := by rw [r1, e12]
  have q2 : m2.n = m12.n := by rw [r2, e12]
  have q3 : m2.subs = m12.subs := by rw [r3, e12]
  refine ⟨q1, q2, q3, ?_⟩
  intro hp
  have b1 := (stepM_plainBc m _ _ _ hp h1).1
  have hp1 : PlainBc m1.bc := b1 ▸ hp
  have b2 := (stepM_plainBc m1 _ _ _ hp1 h2).1
  have b12 := (stepM_plainBc m _ _ _ hp h12).1
  have q4 : m2.bc = m12.bc := by rw [b2, b1, b12]
  cases m2; cases m12; simp only at q1 q2 q3 q4; subst q1; subst q2; subst q3; subst q4; rfl
/-- **Mesh (copying form): a turn followed by its reverse** gives back region, counts, subregions
(the whole mesh for non-periodic `bc`). -/
theorem stepM_rot_inverse_copy (m : Mesh) (hm : m.Inv) (hs : SubInv m) (a1 a2 : String) (k : Int) (R : List Rat)
    (y1 m1 y2 m2 : Mesh)
    (h1 : stepM m (.rotate90 a1 a2 k (some R) false) = .ok (y1, m1))
    (h2 : stepM m1 (.rotate90 a1 a2 (-k) (some R) false) = .ok (y2, m2)) :
    m2.region = m.region ∧ m2.n = m.n ∧ m2.subs = m.subs ∧ (PlainBc m.bc → m2 = m) := by
  have hk1 := stepM_keeps m hm _ _ _ h1
  have hs1 := (stepM_subInv' m hm hs _ _ _ h1).2.1
  obtain ⟨_, T1, hT1, e1⟩ := stepM_copy_to_inplace m hm hs (.rotate90 a1 a2 k (some R) false) y1 m1 h1
  obtain ⟨_, T2', hT2', e2⟩ := stepM_copy_to_inplace m1 hk1.2.1 hs1 (.rotate90 a1 a2 (-k) (some R) false) y2 m2 h2
  simp only [Op.withInplace] at hT1 hT2'
  obtain ⟨T2, T12, g2, g12, c1, c2, c3, _, _⟩ := stepM_rot_compose m hm hs a1 a2 k (-k) R T1 T1 hT1
  obtain ⟨ez, _⟩ := stepM_rot_zero m hm hs a1 a2 (k + -k) (by simp) (some R) true _ T12 g12
  simp only [if_true] at ez
  subst ez
  have hb := stepM_bc_indep T1 T1.bc.toLower (.rotate90 a1 a2 (-k) (some R) false) T2 T2 g2
  simp only [Op.withInplace] at hb
  rw [← e1, hT2'] at hb
  injection hb with hb; injection hb with hb _
  have q1 : m2.region = T12.region := by rw [e2, hb]; exact c1
  have q2 : m2.n = T12.n := by rw [e2, hb]; exact c2
  have q3 : m2.subs = T12.subs := by rw [e2, hb]; exact c3
  refine ⟨q1, q2, q3, ?_⟩
  intro hp
  have b1 := (stepM_plainBc T12 _ _ _ hp h1).1
  have hp1 : PlainBc m1.bc := b1 ▸ hp
  have b2 := (stepM_plainBc m1 _ _ _ hp1 h2).1
  have q4 : m2.bc = T12.bc := by rw [b2, b1]
  cases m2; cases T12; simp only at q1 q2 q3 q4; subst q1; subst q2; subst q3; subst q4; rfl

theorem rot90_inverse_get {α} (a : NDA α) (p q : Nat) (k : Int) (hpq : p ≠ q) (hp : p < a.shape.length) (hq : q < a.shape.length) :
    (rot90 (rot90 a p q k) p q (-k)).shape = a.shape ∧
    ∀ j, inRange a.shape j = true → (rot90 (rot90 a p q k) p q (-k)).get j = a.get j := by
  obtain ⟨hs, hg⟩ := rot90_compose' a p q k (-k) hpq hp hq
  have hz : rot90 a p q (k + -k) = a := by unfold rot90; rw [if_pos (by simp)]
  rw [hz] at hs hg
  exact ⟨hs, hg⟩

/-- **Field: a turn followed by its reverse gives back the field** — mesh (region, counts,
subregions; all of it for non-periodic `bc`), labels, validity and values at every cell. -/
theorem rotate90F_inverse (f : Fld) (hf : FldInv f) (hs : SubInv f.mesh) (a1 a2 : String) (k : Int) (R : List Rat)
    (b b' : Bool) (x1 g1 x2 g2 : Fld)
    (h1 : rotate90F f a1 a2 k (some R) b = .ok (x1, g1)) (h2 : rotate90F g1 a1 a2 (-k) (some R) b' = .ok (x2, g2)) :
    g2.mesh.region = f.mesh.region ∧ g2.mesh.n = f.mesh.n ∧ g2.mesh.subs = f.mesh.subs ∧
    (PlainBc f.mesh.bc → g2.mesh = f.mesh) ∧
    g2.nvdim = f.nvdim ∧ g2.vdims = f.vdims ∧ g2.vmap = f.vmap ∧ g2.unit = f.unit ∧
    g2.valid.shape = f.valid.shape ∧ g2.data.shape = f.data.shape ∧
    ∀ j, inRange f.mesh.n j = true →
      g2.valid.get j = f.valid.get j ∧
      (f.nvdim ≤ 1 → g2.data.get j = f.data.get j) ∧
      (f.nvdim > 1 → ∃ c1 c2, (f.rDim a1).bind f.vdimIndex = some c1 ∧ (f.rDim a2).bind f.vdimIndex = some c2 ∧
        g2.data.get j = rotVec (rotVec (f.data.get j) c1 c2 k) c1 c2 (-k) ∧
        (c1 ≠ c2 → c1 < (f.data.get j).length → c2 < (f.data.get j).length → g2.data.get j = f.data.get j)) := by
  obtain ⟨y1, m1, i1, i2, hm1, d1, d2, e1, e2, e3, e4, e5, e6, e7, _⟩ := rotate90F_inv f a1 a2 k (some R) b x1 g1 h1
  obtain ⟨y2, m2, j1, j2, hm2, d1', d2', u1, u2, u3, u4, u5, u6, u7, _⟩ := rotate90F_inv g1 a1 a2 (-k) (some R) b' x2 g2 h2
  obtain ⟨q1, q2, hq1, hq2, h12', lq1, lq2, hdims⟩ := stepM_rot_axes f.mesh hf.1 a1 a2 k (some R) false y1 m1 hm1
  rw [d1] at hq1; rw [d2] at hq2
  injection hq1 with hq1; injection hq2 with hq2
  subst q1 q2
  have hj1 : j1 = i1 := by
    have : g1.mesh.region.dim2index a1 = f.mesh.region.dim2index a1 := by unfold Region.dim2index; rw [e1, hdims]
    rw [this, d1] at d1'; injection d1' with d1'; exact d1'.symm
  have hj2 : j2 = i2 := by
    have : g1.mesh.region.dim2index a2 = f.mesh.region.dim2index a2 := by unfold Region.dim2index; rw [e1, hdims]
    rw [this, d2] at d2'; injection d2' with d2'; exact d2'.symm
  subst j1 j2
  rw [e1] at hm2
  obtain ⟨r1, r2, r3, r4⟩ := stepM_rot_inverse_copy f.mesh hf.1 hs a1 a2 k R y1 m1 y2 m2 hm1 hm2
  have hvs : i1 < f.valid.shape.length := by rw [hf.2.2]; exact lq1
  have hvs2 : i2 < f.valid.shape.length := by rw [hf.2.2]; exact lq2
  have hds : i1 < f.data.shape.length := by rw [hf.2.1]; exact lq1
  have hds2 : i2 < f.data.shape.length := by rw [hf.2.1]; exact lq2
  have s1 : g1.data.shape = (rot90 f.data i1 i2 k).shape := by
    rcases e7 with ⟨_, e⟩ | ⟨_, _, _, _, _, e⟩ <;> rw [e] <;> rfl
  have s2 : g2.data.shape = (rot90 g1.data i1 i2 (-k)).shape := by
    rcases u7 with ⟨_, u⟩ | ⟨_, _, _, _, _, u⟩ <;> rw [u] <;> rfl
  have hsh : g2.data.shape = f.data.shape := by
    have := (rot90_compose' f.data i1 i2 k (-k) h12' hds hds2).1
    have hz : rot90 f.data i1 i2 (k + -k) = f.data := by unfold rot90; rw [if_pos (by simp)]
    rw [hz] at this
    rw [s2, ← this, DFV.C13.rot90_shape g1.data, DFV.C13.rot90_shape (rot90 f.data i1 i2 k), s1]
  refine ⟨u1 ▸ r1, u1 ▸ r2, u1 ▸ r3, fun hp => u1 ▸ r4 hp, by rw [u2, e2], by rw [u3, e3], by rw [u4, e4], by rw [u5, e5],
    ?_, hsh, ?_⟩
  · rw [u6, e6]; exact (rot90_inverse_get f.valid i1 i2 k h12' hvs hvs2).1
  · intro j hj
    have hjv : inRange f.valid.shape j = true := by rw [hf.2.2]; exact hj
    have hjd : inRange f.data.shape j = true := by rw [hf.2.1]; exact hj
    have gv := (rot90_inverse_get f.valid i1 i2 k h12' hvs hvs2).2 j hjv
    have gd := (rot90_inverse_get f.data i1 i2 k h12' hds hds2).2 j hjd
    refine ⟨by rw [u6, e6]; exact gv, ?_, ?_⟩
    · intro hv
      rcases e7 with ⟨_, e⟩ | ⟨hgt, _⟩
      · rcases u7 with ⟨_, u⟩ | ⟨hgt, _⟩
        · rw [u, e]; exact gd
        · rw [e2] at hgt; omega
      · omega
    · intro hv
      rcases e7 with ⟨hle, _⟩ | ⟨_, c1, c2, hc1, hc2, e⟩
      · omega
      · rcases u7 with ⟨hle, _⟩ | ⟨_, c1', c2', hc1', hc2', u⟩
        · rw [e2] at hle; omega
        · have t1 : (g1.rDim a1).bind g1.vdimIndex = (f.rDim a1).bind f.vdimIndex := by
            unfold Fld.rDim Fld.vdimIndex; rw [e3, e4]
          have t2 : (g1.rDim a2).bind g1.vdimIndex = (f.rDim a2).bind f.vdimIndex := by
            unfold Fld.rDim Fld.vdimIndex; rw [e3, e4]
          rw [t1, hc1] at hc1'; rw [t2, hc2] at hc2'
          injection hc1' with hc1'; injection hc2' with hc2'
          subst c1' c2'
          have hval : g2.data.get j = rotVec (rotVec (f.data.get j) c1 c2 k) c1 c2 (-k) := by
            rw [u, e, rot90_map]
            simp only [NDA.map]
            rw [gd]
          refine ⟨c1, c2, hc1, hc2, hval, ?_⟩
          intro hne l1 l2
          rw [hval, rotVec_compose' _ _ _ _ _ hne l1 l2, rotVec_zero _ _ _ _ (by simp)]
end DFV.T
