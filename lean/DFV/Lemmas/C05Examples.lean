import DFV.Lemmas.C05
/-! concrete fields used by the non-vacuity examples of `DFV/Props/C05.lean` -/
set_option linter.unusedSimpArgs false
namespace DFV.C05
open DFV DFV.C04

/-- 4×3×5 mesh on [0,4]×[0,6]×[0,10] with renamed axes `a,b,c` (cells 1×2×2), all directions open -/
def exMesh : Mesh :=
  { region := { pmin := [0, 0, 0], pmax := [4, 6, 10], dims := ["a", "b", "c"],
                units := ["m", "m", "m"], tol := 1/1000000000000 },
    n := [4, 3, 5], bc := "", subs := [] }

/-- the polynomial `x₀² + x₁·x₂` and its partial derivatives -/
def exP : (Nat → Rat) → Rat := fun x => x 0 ^ 2 + x 1 * x 2

def exP1 : Nat → (Nat → Rat) → Rat
  | 0, x => 2 * x 0
  | 1, x => x 2
  | _, x => x 1

def exP2 : Nat → (Nat → Rat) → Rat
  | 0, _ => 2
  | _, _ => 0

/-- plain scalar field sampling `exP` at the cell centres -/
def exS : Fld :=
  { mesh := exMesh, nvdim := 1,
    data := ⟨[4, 3, 5], fun i => [exP fun a => exMesh.centreAx a ((i.getD a 0 : Nat) : Int)]⟩,
    valid := ⟨[4, 3, 5], fun _ => true⟩, vdims := none, vmap := [], unit := none }

/-- vector field with labels `p,q,r` stored in that order and mapped `p→c, q→a, r→b`
(a non-identity permutation, dict order different from storage order) -/
def exV : Fld :=
  { mesh := exMesh, nvdim := 3,
    data := ⟨[4, 3, 5], fun i => [exMesh.centreAx 0 ((i.getD 0 0 : Nat) : Int) * exMesh.centreAx 1 ((i.getD 1 0 : Nat) : Int),
                                  exMesh.centreAx 2 ((i.getD 2 0 : Nat) : Int) ^ 2,
                                  exMesh.centreAx 0 ((i.getD 0 0 : Nat) : Int)]⟩,
    valid := ⟨[4, 3, 5], fun _ => true⟩, vdims := some ["p", "q", "r"],
    vmap := [("q", "a"), ("p", "c"), ("r", "b")], unit := some "T" }

theorem exMesh_exact : ExactMesh exS := by
  refine ⟨fun _ => rfl, ?_⟩
  intro a ha
  have : a = 0 ∨ a = 1 ∨ a = 2 := by unfold Mesh.ndim Region.ndim exS exMesh at ha; simp at ha; omega
  rcases this with rfl | rfl | rfl
  · refine ⟨by decide, by decide, ?_⟩
    simp [Mesh.cellAt, Mesh.nAt, exS, exMesh, Region.edge, Region.hi, Region.lo]
  · refine ⟨by decide, by decide, ?_⟩
    simp [Mesh.cellAt, Mesh.nAt, exS, exMesh, Region.edge, Region.hi, Region.lo]
  · refine ⟨by decide, by decide, ?_⟩
    simp [Mesh.cellAt, Mesh.nAt, exS, exMesh, Region.edge, Region.hi, Region.lo]

theorem exP_quad : ∀ a, a < 3 → QuadAlong exP a (exP1 a) (exP2 a) := by
  intro a ha
  have : a = 0 ∨ a = 1 ∨ a = 2 := by omega
  rcases this with rfl | rfl | rfl <;> intro x s <;> simp [exP, exP1, exP2, upd] <;> ring

/-- the pairing hypotheses of `div_eq` / `div_accepts` for the permuted field `exV`:
stored component 0 (`p`) ↦ axis 2 (`c`), 1 (`q`) ↦ 0 (`a`), 2 (`r`) ↦ 1 (`b`) -/
def exσ : Nat → Nat
  | 0 => 2
  | 1 => 0
  | _ => 1

/-- … and of `curl_eq`: axis 0 is paired with stored component 1, axis 1 with 2, axis 2 with 0 -/
def exρ : Nat → Nat
  | 0 => 1
  | 1 => 2
  | _ => 0

theorem exV_σ : ∀ c, c < exV.nvdim → exσ c < exV.mesh.ndim ∧
    Fld.lookup exV.vmap (["p", "q", "r"].getD c "") = some (exV.mesh.region.dims.getD (exσ c) "") := by
  intro c hc
  have : c = 0 ∨ c = 1 ∨ c = 2 := by unfold exV at hc; simp at hc; omega
  rcases this with rfl | rfl | rfl <;> exact ⟨by decide, by decide⟩

theorem exV_ρ : ∀ d, d < 3 → exρ d < 3 ∧
    rDimLast exV (exV.mesh.region.dims.getD d "") = some (["p", "q", "r"].getD (exρ d) "") := by
  intro d hd
  have : d = 0 ∨ d = 1 ∨ d = 2 := by omega
  rcases this with rfl | rfl | rfl <;> exact ⟨by decide, by decide⟩

theorem exS_wf : MeshWf exS := by
  refine ⟨rfl, rfl, ⟨rfl, by decide⟩, rfl, ?_, by simp [exS, exMesh, String.toLower], by decide, rfl⟩
  intro x hx
  have : x = 0 ∨ x = 1 ∨ x = 2 := by unfold Mesh.ndim Region.ndim exS exMesh at hx; simp at hx; omega
  rcases this with rfl | rfl | rfl <;> refine ⟨?_, by decide⟩ <;>
    simp [Region.lo, Region.hi, exS, exMesh]

theorem exV_wf : MeshWf exV := by
  refine ⟨rfl, rfl, ⟨rfl, by decide⟩, rfl, ?_, by simp [exV, exMesh, String.toLower], by decide, rfl⟩
  intro x hx
  have : x = 0 ∨ x = 1 ∨ x = 2 := by unfold Mesh.ndim Region.ndim exV exMesh at hx; simp at hx; omega
  rcases this with rfl | rfl | rfl <;> refine ⟨?_, by decide⟩ <;>
    simp [Region.lo, Region.hi, exV, exMesh]

/-- `exS` on the same mesh made periodic along axis `a` only -/
def exSP : Fld := { exS with mesh := { exMesh with bc := "a" } }

theorem lower_b : ("b" : String).toLower = "b" := by
  apply String.toList_inj.mp; simp [String.toLower]
theorem lower_a : ("a" : String).toLower = "a" := by
  apply String.toList_inj.mp; simp [String.toLower]
theorem lower_c : ("c" : String).toLower = "c" := by
  apply String.toList_inj.mp; simp [String.toLower]
theorem lower_e : ("" : String).toLower = "" := by
  apply String.toList_inj.mp; simp [String.toLower]

theorem exSP_wf : MeshWf exSP := by
  refine ⟨rfl, rfl, ⟨rfl, by decide⟩, rfl, ?_, lower_a, by decide, rfl⟩
  intro x hx
  have : x = 0 ∨ x = 1 ∨ x = 2 := by unfold Mesh.ndim Region.ndim exSP exS exMesh at hx; simp at hx; omega
  rcases this with rfl | rfl | rfl <;> refine ⟨?_, by decide⟩ <;>
    simp [Region.lo, Region.hi, exSP, exS, exMesh]

/-- a MIXED plane: axis `a` periodic, axis `b` open; the turn moves the periodicity to `b` -/
theorem exSP_tw01 : TurnWf exSP 0 1 := by
  have h : rotBc1 exSP.mesh.bc (exSP.mesh.region.dims.getD 0 "") (exSP.mesh.region.dims.getD 1 "") = "b" := by decide +kernel
  exact ⟨Or.inl ⟨by decide, by decide, lower_a, lower_b⟩, by rw [h]; exact lower_b, by rw [h]; decide⟩

theorem exSP_tw02 : TurnWf exSP 0 2 := by
  have h : rotBc1 exSP.mesh.bc (exSP.mesh.region.dims.getD 0 "") (exSP.mesh.region.dims.getD 2 "") = "c" := by decide +kernel
  exact ⟨Or.inl ⟨by decide, by decide, lower_a, lower_c⟩, by rw [h]; exact lower_c, by rw [h]; decide⟩

theorem exV_tw (a b : Nat) : TurnWf exV a b := by
  have h : ∀ da db, rotBc1 exV.mesh.bc da db = "" := by
    intro da db
    unfold rotBc1
    have : exV.mesh.bc = "" := rfl
    rw [this]
    simp
  have hp : ∀ d, C04.periodicBc "" d = false := by
    intro d; unfold C04.periodicBc
    have : ("" : String).toList = [] := by decide
    rw [this]; simp
  exact ⟨Or.inr (by unfold periodic; simp [exV, exMesh, hp]), by rw [h]; exact lower_e, by rw [h]; decide⟩

/-- `exSP` with one invalid cell (a masked field; periodic along `a`) -/
def exSM : Fld := { exSP with valid := ⟨[4, 3, 5], fun i => decide (i ≠ [1, 1, 2])⟩ }

theorem exSM_wf : MeshWf exSM :=
  ⟨exSP_wf.pmax_len, exSP_wf.n_len, exSP_wf.dims, exSP_wf.units_len, exSP_wf.pos, exSP_wf.bc_lower, exSP_wf.bc_ok,
   exSP_wf.data_shape⟩

theorem exSM_tw01 : TurnWf exSM 0 1 := ⟨exSP_tw01.turns, exSP_tw01.bc_lower, exSP_tw01.bc_ok⟩

theorem exSM_tw02 : TurnWf exSM 0 2 := ⟨exSP_tw02.turns, exSP_tw02.bc_lower, exSP_tw02.bc_ok⟩

/-- `exV` with two invalid cells -/
def exVM : Fld := { exV with valid := ⟨[4, 3, 5], fun i => decide (i ≠ [0, 0, 0] ∧ i ≠ [2, 1, 3])⟩ }

theorem exVM_wf : MeshWf exVM :=
  ⟨exV_wf.pmax_len, exV_wf.n_len, exV_wf.dims, exV_wf.units_len, exV_wf.pos, exV_wf.bc_lower, exV_wf.bc_ok,
   exV_wf.data_shape⟩

theorem exVM_tw (a b : Nat) : TurnWf exVM a b := ⟨(exV_tw a b).turns, (exV_tw a b).bc_lower, (exV_tw a b).bc_ok⟩

/-- `exV` with its components stored in another order (`g_k = f_{π k}`, `π = 2,0,1`), relabelled
`u,v,w`, the mapping carried along: `u→b, v→c, w→a` -/
def exVp : Fld :=
  { exV with
    data := ⟨[4, 3, 5], fun i => [(exV.data.get i).getD 2 0, (exV.data.get i).getD 0 0, (exV.data.get i).getD 1 0]⟩,
    vdims := some ["u", "v", "w"], vmap := [("u", "b"), ("v", "c"), ("w", "a")] }

def exπ : Nat → Nat
  | 0 => 2
  | 1 => 0
  | _ => 1

def exπ' : Nat → Nat
  | 2 => 0
  | 0 => 1
  | _ => 2

/-- `exS` (all directions open) with one invalid cell -/
def exSO : Fld := { exS with valid := ⟨[4, 3, 5], fun i => decide (i ≠ [3, 2, 4])⟩ }

end DFV.C05
