import DFV.Lemmas.C17Reject
/-! The spacing test of `from_xarray` against its index-level specification: the verdict is a
function of the steps `v[j+1] - v[j]` alone (hence independent of the origin), it is exactly
"every step within `1e-5·|mean step|` of the mean step", arithmetic progressions pass, and an
arithmetic progression with one interior coordinate moved by `δ·step` passes iff `|δ| ≤ 1e-5`. -/
namespace DFV.C17
open DFV

/-- index-level specification of the spacing test: every step is within `1e-5·|mean step|` of
the mean step (vacuous for fewer than two coordinates) -/
def EvenSpec (v : List Rat) : Prop :=
  ∀ j, j + 1 < v.length →
    absR ((v.getD (j + 1) 0 - v.getD j 0) - meanDiff v) ≤ 1/100000 * absR (meanDiff v)

/-- the code-shaped test (`size > 1 and not np.allclose(diff, diff.mean(), atol=0)` negated)
is the specification -/
theorem evenB_iff_spec (v : List Rat) : evenB v = true ↔ EvenSpec v := by
  unfold evenB EvenSpec
  rw [Bool.or_eq_true, allLt_iff]
  constructor
  · rintro (h | h) j hj
    · have := of_decide_eq_true h; omega
    · have := h j (by omega)
      unfold Region.isclose diffs at this
      rw [getD_tab _ _ _ _ (by omega)] at this
      have := of_decide_eq_true this
      linarith
  · intro h
    by_cases hl : v.length ≤ 1
    · left; exact decide_eq_true hl
    · right
      intro j hj
      have := h j (by omega)
      unfold Region.isclose diffs
      rw [getD_tab _ _ _ _ hj]
      apply decide_eq_true
      linarith

/-- the verdict depends on the coordinates only through their number and their steps -/
theorem evenB_congr_steps (v w : List Rat) (hl : v.length = w.length)
    (hs : ∀ j, j + 1 < v.length → v.getD (j + 1) 0 - v.getD j 0 = w.getD (j + 1) 0 - w.getD j 0) :
    evenB v = evenB w := by
  have hd : diffs v = diffs w := by
    unfold diffs
    rw [← hl]
    apply tab_congr
    intro j hj
    exact hs j (by omega)
  unfold evenB meanDiff
  rw [hd, hl]

/-- shifting the coordinates of every axis by its own offset -/
theorem evenB_affine (s t : Rat) (hs : 0 < s) (v : List Rat) : evenB (v.map fun x => s * x + t) = evenB v := by
  have : (v.map fun x => s * x + t) = (v.map (s * ·)).map (· + t) := by
    rw [List.map_map]; rfl
  rw [this, evenB_shift, evenB_scale s hs]

/-! ## one coordinate of an arithmetic progression moved -/

/-- `v0, v0+h, …` with coordinate `k` moved by `e` -/
def apMoved (v0 h : Rat) (n k : Nat) (e : Rat) : List Rat :=
  tab n fun j => v0 + (j : Rat) * h + (if j = k then e else 0)

@[simp] theorem apMoved_length (v0 h : Rat) (n k : Nat) (e : Rat) : (apMoved v0 h n k e).length = n := by
  simp [apMoved]

theorem apMoved_getD (v0 h : Rat) (n k : Nat) (e : Rat) (j : Nat) (hj : j < n) :
    (apMoved v0 h n k e).getD j 0 = v0 + (j : Rat) * h + (if j = k then e else 0) := by
  unfold apMoved; rw [getD_tab _ _ _ _ hj]

/-- telescoping: the steps sum to last minus first -/
theorem sumR_tab_diff (f : Nat → Rat) (m : Nat) : sumR (tab m fun j => f (j + 1) - f j) = f m - f 0 := by
  induction m with
  | zero => simp [tab, sumR]
  | succ k ih =>
    have : tab (k + 1) (fun j => f (j + 1) - f j) = tab k (fun j => f (j + 1) - f j) ++ [f (k + 1) - f k] := by
      simp [tab, List.range_succ]
    rw [this]
    have happ : ∀ (l : List Rat) (x : Rat), sumR (l ++ [x]) = sumR l + x := by
      intro l x
      induction l with
      | nil => simp [sumR]
      | cons y ys ihy => simp only [List.cons_append, sumR, ihy]; ring
    rw [happ, ih]; ring

/-- the mean step is `(last - first)/(n - 1)` -/
theorem meanDiff_eq (v : List Rat) :
    meanDiff v = (v.getD (v.length - 1) 0 - v.getD 0 0) / ((v.length - 1 : Nat) : Rat) := by
  unfold meanDiff diffs
  rw [sumR_tab_diff (fun j => v.getD j 0)]

/-- moving an interior coordinate leaves the mean step unchanged -/
theorem meanDiff_apMoved (v0 h : Rat) (n k : Nat) (e : Rat) (hk0 : 0 < k) (hk : k + 1 < n) :
    meanDiff (apMoved v0 h n k e) = h := by
  rw [meanDiff_eq, apMoved_length, apMoved_getD _ _ _ _ _ _ (by omega), apMoved_getD _ _ _ _ _ _ (by omega)]
  have h1 : ¬ (n - 1 = k) := by omega
  have h2 : ¬ (0 = k) := by omega
  simp only [h1, h2, if_false]
  have hn : ((n - 1 : Nat) : Rat) ≠ 0 := by
    have : 0 < n - 1 := by omega
    exact_mod_cast (Nat.pos_iff_ne_zero.mp this)
  field_simp
  push_cast
  ring

theorem absR_neg (x : Rat) : absR (-x) = absR x := by
  rw [absR_eq_abs, absR_eq_abs, abs_neg]

/-- **Exact threshold for one moved interior coordinate**: an arithmetic progression with any
origin `v0` and any step `h` whose interior coordinate `k` is moved by `e` passes the spacing
test iff `|e| ≤ 1e-5·|h|` — no dependence on `v0`, on the scale only through `e/h`. -/
theorem evenB_apMoved (v0 h : Rat) (n k : Nat) (e : Rat) (hk0 : 0 < k) (hk : k + 1 < n) :
    evenB (apMoved v0 h n k e) = true ↔ absR e ≤ 1/100000 * absR h := by
  rw [evenB_iff_spec]
  unfold EvenSpec
  rw [apMoved_length, meanDiff_apMoved _ _ _ _ _ hk0 hk]
  constructor
  · intro hs
    have := hs k (by omega)
    rw [apMoved_getD _ _ _ _ _ _ (by omega), apMoved_getD _ _ _ _ _ _ (by omega)] at this
    have h1 : ¬ (k + 1 = k) := by omega
    simp only [h1, if_false, if_true] at this
    have e1 : (v0 + ((k + 1 : Nat) : Rat) * h + 0 - (v0 + (k : Rat) * h + e) - h) = -e := by push_cast; ring
    rw [e1, absR_neg] at this
    exact this
  · intro he j hj
    rw [apMoved_getD _ _ _ _ _ _ (by omega), apMoved_getD _ _ _ _ _ _ (by omega)]
    have hnn := absR_nonneg h
    by_cases h1 : j + 1 = k
    · have h2 : ¬ (j = k) := by omega
      simp only [h1, h2, if_true, if_false]
      have e1 : (v0 + ((j + 1 : Nat) : Rat) * h + e - (v0 + (j : Rat) * h + 0) - h) = e := by push_cast; ring
      have e1' : (v0 + (k : Rat) * h + e - (v0 + (j : Rat) * h + 0) - h) = e := by
        rw [← h1]; exact e1
      rw [e1']; exact he
    · by_cases h2 : j = k
      · simp only [h2, if_true]
        have e1 : (v0 + ((k + 1 : Nat) : Rat) * h + 0 - (v0 + (k : Rat) * h + e) - h) = -e := by push_cast; ring
        have h3 : ¬ (k + 1 = k) := by omega
        simp only [h3, if_false]
        rw [e1, absR_neg]; exact he
      · simp only [h1, h2, if_false]
        have e1 : (v0 + ((j + 1 : Nat) : Rat) * h + 0 - (v0 + (j : Rat) * h + 0) - h) = 0 := by push_cast; ring
        rw [e1]
        have : absR 0 = 0 := by simp [absR]
        rw [this]
        nlinarith

/-! ## an end coordinate moved (the mean step moves too) -/

theorem meanDiff_apMoved_last (v0 h : Rat) (n : Nat) (e : Rat) (hn : 3 ≤ n) :
    meanDiff (apMoved v0 h n (n - 1) e) = h + e / ((n : Rat) - 1) := by
  rw [meanDiff_eq, apMoved_length, apMoved_getD _ _ _ _ _ _ (by omega), apMoved_getD _ _ _ _ _ _ (by omega)]
  have h2 : ¬ (0 = n - 1) := by omega
  simp only [h2, if_false, if_true]
  have hc : ((n - 1 : Nat) : Rat) = (n : Rat) - 1 := by
    rw [Nat.cast_sub (by omega)]; simp
  rw [hc]
  have hn' : (n : Rat) - 1 ≠ 0 := by
    have : (3 : Rat) ≤ (n : Rat) := by exact_mod_cast hn
    intro h0; linarith
  field_simp
  ring

theorem meanDiff_apMoved_first (v0 h : Rat) (n : Nat) (e : Rat) (hn : 3 ≤ n) :
    meanDiff (apMoved v0 h n 0 e) = h - e / ((n : Rat) - 1) := by
  rw [meanDiff_eq, apMoved_length, apMoved_getD _ _ _ _ _ _ (by omega), apMoved_getD _ _ _ _ _ _ (by omega)]
  have h2 : ¬ (n - 1 = 0) := by omega
  simp only [h2, if_false, if_true]
  have hc : ((n - 1 : Nat) : Rat) = (n : Rat) - 1 := by
    rw [Nat.cast_sub (by omega)]; simp
  rw [hc]
  have hn' : (n : Rat) - 1 ≠ 0 := by
    have : (3 : Rat) ≤ (n : Rat) := by exact_mod_cast hn
    intro h0; linarith
  field_simp
  ring

/-- |−e/N| ≤ |e(N−1)/N| for N ≥ 2 -/
theorem abs_small_le (e N : Rat) (hN : 2 ≤ N) : |(-(e / N))| ≤ |e * (N - 1) / N| := by
  have hN0 : 0 < N := by linarith
  rw [abs_neg, abs_div, abs_div, abs_mul, abs_of_pos hN0, abs_of_pos (by linarith : (0 : Rat) < N - 1)]
  apply div_le_div_of_nonneg_right _ hN0.le
  have := abs_nonneg e
  nlinarith

/-- the last coordinate displaced by `e` -/
theorem evenB_apMoved_last (v0 h : Rat) (n : Nat) (e : Rat) (hn : 3 ≤ n) :
    evenB (apMoved v0 h n (n - 1) e) = true ↔
      absR (e * ((n : Rat) - 2) / ((n : Rat) - 1)) ≤ 1/100000 * absR (h + e / ((n : Rat) - 1)) := by
  rw [evenB_iff_spec]
  unfold EvenSpec
  rw [apMoved_length, meanDiff_apMoved_last _ _ _ _ hn]
  have hN : (2 : Rat) ≤ (n : Rat) - 1 := by
    have : (3 : Rat) ≤ (n : Rat) := by exact_mod_cast hn
    linarith
  have hN0 : (n : Rat) - 1 ≠ 0 := by intro h0; linarith
  constructor
  · intro hs
    have := hs (n - 2) (by omega)
    rw [apMoved_getD _ _ _ _ _ _ (by omega), apMoved_getD _ _ _ _ _ _ (by omega)] at this
    have h1 : n - 2 + 1 = n - 1 := by omega
    have h2 : ¬ (n - 2 = n - 1) := by omega
    simp only [h1, h2, if_false, if_true] at this
    have hc1 : ((n - 1 : Nat) : Rat) = (n : Rat) - 1 := by rw [Nat.cast_sub (by omega)]; simp
    have hc2 : ((n - 2 : Nat) : Rat) = (n : Rat) - 2 := by rw [Nat.cast_sub (by omega)]; simp
    have e1 : (v0 + ((n - 1 : Nat) : Rat) * h + e - (v0 + ((n - 2 : Nat) : Rat) * h + 0) - (h + e / ((n : Rat) - 1)))
        = e * ((n : Rat) - 2) / ((n : Rat) - 1) := by
      rw [hc1, hc2]; field_simp; ring
    rw [e1] at this
    exact this
  · intro he j hj
    rw [apMoved_getD _ _ _ _ _ _ (by omega), apMoved_getD _ _ _ _ _ _ (by omega)]
    have h2 : ¬ (j = n - 1) := by omega
    simp only [h2, if_false]
    by_cases h1 : j + 1 = n - 1
    · simp only [h1, if_true]
      have hc1 : ((n - 1 : Nat) : Rat) = (n : Rat) - 1 := by rw [Nat.cast_sub (by omega)]; simp
      have hj' : (j : Rat) = (n : Rat) - 2 := by
        have : j = n - 2 := by omega
        rw [this, Nat.cast_sub (by omega)]; simp
      have e1 : (v0 + ((n - 1 : Nat) : Rat) * h + e - (v0 + (j : Rat) * h + 0) - (h + e / ((n : Rat) - 1)))
          = e * ((n : Rat) - 2) / ((n : Rat) - 1) := by
        rw [hc1, hj']; field_simp; ring
      rw [e1]; exact he
    · simp only [h1, if_false]
      have e1 : (v0 + ((j + 1 : Nat) : Rat) * h + 0 - (v0 + (j : Rat) * h + 0) - (h + e / ((n : Rat) - 1)))
          = -(e / ((n : Rat) - 1)) := by push_cast; ring
      rw [e1]
      have hb := abs_small_le e ((n : Rat) - 1) hN
      have e2 : e * ((n : Rat) - 1 - 1) / ((n : Rat) - 1) = e * ((n : Rat) - 2) / ((n : Rat) - 1) := by ring
      rw [e2] at hb
      rw [absR_eq_abs] at he ⊢
      linarith

/-- the first coordinate displaced by `e` -/
theorem evenB_apMoved_first (v0 h : Rat) (n : Nat) (e : Rat) (hn : 3 ≤ n) :
    evenB (apMoved v0 h n 0 e) = true ↔
      absR (e * ((n : Rat) - 2) / ((n : Rat) - 1)) ≤ 1/100000 * absR (h - e / ((n : Rat) - 1)) := by
  rw [evenB_iff_spec]
  unfold EvenSpec
  rw [apMoved_length, meanDiff_apMoved_first _ _ _ _ hn]
  have hN : (2 : Rat) ≤ (n : Rat) - 1 := by
    have : (3 : Rat) ≤ (n : Rat) := by exact_mod_cast hn
    linarith
  have hN0 : (n : Rat) - 1 ≠ 0 := by intro h0; linarith
  have habs : absR (-(e * ((n : Rat) - 2) / ((n : Rat) - 1))) = absR (e * ((n : Rat) - 2) / ((n : Rat) - 1)) := absR_neg _
  constructor
  · intro hs
    have := hs 0 (by omega)
    rw [apMoved_getD _ _ _ _ _ _ (by omega), apMoved_getD _ _ _ _ _ _ (by omega)] at this
    have h2 : ¬ (0 + 1 = 0) := by omega
    simp only [h2, if_false, if_true] at this
    have e1 : (v0 + ((0 + 1 : Nat) : Rat) * h + 0 - (v0 + ((0 : Nat) : Rat) * h + e) - (h - e / ((n : Rat) - 1)))
        = -(e * ((n : Rat) - 2) / ((n : Rat) - 1)) := by
      push_cast; field_simp; ring
    rw [e1, habs] at this
    exact this
  · intro he j hj
    rw [apMoved_getD _ _ _ _ _ _ (by omega), apMoved_getD _ _ _ _ _ _ (by omega)]
    have h2 : ¬ (j + 1 = 0) := by omega
    simp only [h2, if_false]
    by_cases h1 : j = 0
    · subst h1
      simp only [if_true]
      have e1 : (v0 + ((0 + 1 : Nat) : Rat) * h + 0 - (v0 + ((0 : Nat) : Rat) * h + e) - (h - e / ((n : Rat) - 1)))
          = -(e * ((n : Rat) - 2) / ((n : Rat) - 1)) := by
        push_cast; field_simp; ring
      rw [e1, habs]; exact he
    · simp only [h1, if_false]
      have e1 : (v0 + ((j + 1 : Nat) : Rat) * h + 0 - (v0 + (j : Rat) * h + 0) - (h - e / ((n : Rat) - 1)))
          = e / ((n : Rat) - 1) := by push_cast; ring
      rw [e1]
      have hb := abs_small_le e ((n : Rat) - 1) hN
      have e2 : e * ((n : Rat) - 1 - 1) / ((n : Rat) - 1) = e * ((n : Rat) - 2) / ((n : Rat) - 1) := by ring
      rw [e2, abs_neg] at hb
      rw [absR_eq_abs] at he ⊢
      linarith

/-! ## DataArray level -/

/-- move the assigned coordinates of dimension `d` by `t d` (dimensions without coordinate keep
xarray's index) -/
def shiftCoords {α} (t : String → Rat) (xa : XA α) : XA α :=
  { xa with axes := xa.axes.map fun ax =>
      { ax with coord := ax.coord.map fun c => { c with vals := c.vals.map (· + t ax.name) } } }

def shiftAxis (t : String → Rat) (ax : Axis) : Axis :=
  { ax with coord := ax.coord.map fun c => { c with vals := c.vals.map (· + t ax.name) } }

theorem geo_shiftCoords {α} (t : String → Rat) (xa : XA α) : geo (shiftCoords t xa) = (geo xa).map (shiftAxis t) := by
  show ((xa.axes.map (shiftAxis t)).filter fun a => decide (a.name ≠ "vdims")) = _
  rw [List.filter_map]
  rfl

theorem checkSpacing_shift {α} (t : String → Rat) (xa : XA α) : checkSpacing (shiftCoords t xa) = checkSpacing xa := by
  unfold checkSpacing
  rw [geo_shiftCoords, List.all_map]
  have : ((fun a : Axis => evenB a.values) ∘ shiftAxis t) = fun a => evenB a.values := by
    funext ax
    cases hc : ax.coord with
    | none => simp [Function.comp, shiftAxis, Axis.values, hc]
    | some c =>
      simp only [Function.comp, shiftAxis, Axis.values, hc, Option.map_some]
      exact evenB_shift (t ax.name) c.vals
  rw [this]

/-- the spacing loop passes iff every geometric coordinate meets the specification -/
theorem checkSpacing_iff {α} (xa : XA α) : checkSpacing xa = .ok () ↔ ∀ ax ∈ geo xa, EvenSpec ax.values := by
  unfold checkSpacing
  constructor
  · intro h ax hax
    split at h
    · next hall =>
      rw [List.all_eq_true] at hall
      exact (evenB_iff_spec _).mp (hall ax hax)
    · cases h
  · intro h
    have : (geo xa).all (fun a => evenB a.values) = true := by
      rw [List.all_eq_true]
      intro ax hax
      exact (evenB_iff_spec _).mpr (h ax hax)
    rw [this]; rfl

theorem checkSpacing_ok_or_value {α} (xa : XA α) : checkSpacing xa = .ok () ∨ checkSpacing xa = .error .value := by
  unfold checkSpacing
  split
  · left; rfl
  · right; rfl

end DFV.C17
