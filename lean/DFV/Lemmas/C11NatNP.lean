import DFV.Lemmas.C11Nat
/-!
C11: naturality of the library-convention real inverse `irfftnNP` (numpy's handling of half
spectra that are not Hermitian-consistent) in its carrier, like `IsHom.irfftn`.  Core Lean only.
-/
namespace DFV.C11
open DFV

section hom
variable {S R : Type} [Zero S] [One S] [Add S] [Mul S] [Zero R] [One R] [Add R] [Mul R]
variable {φ : S → R}

theorem symPlanes_map (h : IsHom φ) (cS : S → S) (cR : R → R) (hc : ∀ x, φ (cS x) = cR (φ x)) (hS : S)
    (s : List Nat) (A : List Nat → S) (m : List Nat) :
    φ (symPlanes cS hS s A m) = symPlanes cR (φ hS) s (fun i => φ (A i)) m := by
  unfold symPlanes
  split
  · rw [h.map_mul, h.map_add, hc]
  · rfl

theorem IsHom.symArr (h : IsHom φ) (cS : S → S) (cR : R → R) (hc : ∀ x, φ (cS x) = cR (φ x)) (hS : S)
    (nv : Nat) (s : List Nat) (a : NDA (List S)) :
    symArr cR (φ hS) nv s (mapA φ a) = mapA φ (symArr cS hS nv s a) := by
  simp only [C11.symArr, mapA, NDA.mk.injEq, true_and]
  funext m
  rw [tab_map]
  apply tab_congr
  intro c _
  rw [symPlanes_map h cS cR hc]
  congr 1
  funext i
  exact compA_mapA h a c i

theorem IsHom.irfftnArrNP (h : IsHom φ) (cS : S → S) (cR : R → R) (hc : ∀ x, φ (cS x) = cR (φ x)) (hS : S)
    (ρs : List (Root S)) (nv : Nat) (s : List Nat) (a : NDA (List S)) :
    irfftnArrNP cR (φ hS) (ρs.map (Root.map φ)) nv s (mapA φ a) = mapA φ (irfftnArrNP cS hS ρs nv s a) := by
  unfold C11.irfftnArrNP
  rw [h.symArr cS cR hc, h.irfftnArr cS cR hc]

/-- **`Field.irfftn` (library convention) commutes with `φ`** -/
theorem IsHom.irfftnNP (h : IsHom φ) (cS : S → S) (cR : R → R) (hc : ∀ x, φ (cS x) = cR (φ x)) (hS : S)
    (ρs : List (Root S)) (f : CF S) (shape : Option (List Nat)) :
    irfftnNP cR (φ hS) (ρs.map (Root.map φ)) (f.map φ) shape = mapM φ (irfftnNP cS hS ρs f shape) := by
  unfold C11.irfftnNP
  show (match meshIfftn f.mesh true shape with
    | .error e => (Except.error e : M (CF R))
    | .ok k => finish (f.map φ) k (C11.irfftnArrNP cR (φ hS) (ρs.map (Root.map φ)) f.nvdim k.n (mapA φ f.data)) true) = _
  cases meshIfftn f.mesh true shape with
  | error e => rfl
  | ok k => simp only; rw [h.irfftnArrNP cS cR hc, finish_map]

end hom

end DFV.C11
