import DFV.Lemmas.C15Round
/-!
Rounded arithmetic for C15, part 2: the computed norm, quotient and product of one cell
with explicit constants for cells of at most four components and `u ≤ 2^-10`
(binary64: `u = 2^-53`):

* computed norm within `15/4·u` of the length,
* `fl(x / nrm)` within `39/8·u` of `x/‖v‖`      (orientation),
* `fl(fl(x / nrm)·t)` within `6u` of `(t/‖v‖)·x` (setter).
-/
namespace DFV.C15
set_option linter.unusedSectionVars false
variable {K : Type} [Field K] [LinearOrder K] [IsStrictOrderedRing K]

theorem gam5_le {u : K} (hu : 0 ≤ u) (hu' : u ≤ 1 / 1024) : gam u 5 ≤ 51 / 10 * u := by
  have h2 : u * u ≤ u := by nlinarith
  have h3 : u * u * u ≤ u := by nlinarith [mul_nonneg hu hu]
  have h4 : u * u * u * u ≤ u := by nlinarith [mul_nonneg (mul_nonneg hu hu) hu]
  have e : gam u 5 = u * (5 + (10 * u + 10 * (u * u) + 5 * (u * u * u) + u * u * u * u)) := by
    unfold gam; ring
  rw [e]
  have : 10 * u + 10 * (u * u) + 5 * (u * u * u) + u * u * u * u ≤ 1 / 10 := by linarith
  nlinarith

theorem gam_le_of_len {u : K} (hu : 0 ≤ u) (hu' : u ≤ 1 / 1024) {n : Nat} (hn : n ≤ 4) :
    gam u (n + 1) ≤ 51 / 10 * u :=
  le_trans (gam_mono hu (by omega)) (gam5_le hu hu')

/-- **the computed norm**: for at most four components it is within `15/4·u` of the length -/
theorem flNormCell_err {fl sqrt : K → K} {u : K} (h : FlOk fl u) (hu : u ≤ 1 / 1024) (v : List K)
    (hlen : v.length ≤ 4) (hs : SqrtAt sqrt (sqLen v)) (hs' : SqrtAt sqrt (flSqLen fl v)) :
    |flNormCell fl sqrt v - normCell sqrt v| ≤ 15 / 4 * u * normCell sqrt v := by
  have hu0 := h.1
  have hγ := gam_le_of_len hu0 hu hlen
  have hγ0 := gam_nonneg hu0 (v.length + 1)
  have herr := flSqLen_err h v
  unfold flNormCell normCell
  set a := sqrt (flSqLen fl v) with ha
  set b := sqrt (sqLen v) with hb
  set γ := gam u (v.length + 1) with hγdef
  have hb0 : 0 ≤ b := hs.1
  have ha0 : 0 ≤ a := hs'.1
  have hγ1 : γ ≤ 1 := by linarith
  have hroot := root_perturb ha0 hb0 hγ0 hγ1 (by rw [hs'.2, hs.2]; exact herr)
  -- e ≤ 21/8 u b
  have he : |a - b| ≤ 21 / 8 * u * b := by
    have h2 : 0 < 2 - γ := by linarith
    have h3 : γ * b ≤ 21 / 8 * u * b * (2 - γ) := by
      have : γ ≤ 21 / 8 * u * (2 - γ) := by nlinarith
      nlinarith
    have : |a - b| * (2 - γ) ≤ 21 / 8 * u * b * (2 - γ) := le_trans hroot h3
    exact le_of_mul_le_mul_right this h2
  have hfl := h.2 a
  rw [abs_of_nonneg ha0] at hfl
  have hab : a ≤ b + 21 / 8 * u * b := by
    have := (abs_le.mp he).2; linarith
  have e : fl a - b = (fl a - a) + (a - b) := by ring
  rw [e]
  have t := abs_add_le (fl a - a) (a - b)
  have : u * a ≤ u * (b + 21 / 8 * u * b) := mul_le_mul_of_nonneg_left hab hu0
  have hub : 0 ≤ u * b := mul_nonneg hu0 hb0
  nlinarith

/-- the square of the computed norm is within `8u` of the sum of squares (the oracle's bound) -/
theorem flNormCell_sq_err {fl sqrt : K → K} {u : K} (h : FlOk fl u) (hu : u ≤ 1 / 1024) (v : List K)
    (hlen : v.length ≤ 4) (hs : SqrtAt sqrt (sqLen v)) (hs' : SqrtAt sqrt (flSqLen fl v)) :
    |flNormCell fl sqrt v * flNormCell fl sqrt v - sqLen v| ≤ 8 * u * sqLen v := by
  have h1 := flNormCell_err h hu v hlen hs hs'
  have hu0 := h.1
  have hb0 : 0 ≤ normCell sqrt v := hs.1
  have hbb : normCell sqrt v * normCell sqrt v = sqLen v := hs.2
  have := sq_err (w := flNormCell fl sqrt v) (z := normCell sqrt v) (ρ := 15 / 4 * u) (by linarith)
    (by rw [abs_of_nonneg hb0]; exact h1)
  rw [hbb] at this
  have hS := sqLen_nonneg v
  have : (2 * (15 / 4 * u) + 15 / 4 * u * (15 / 4 * u)) ≤ 8 * u := by nlinarith
  have := mul_le_mul_of_nonneg_right this hS
  linarith

/-- the computed norm is zero exactly on the zero vector: the setter's `where=` mask computed
in floating point is the exact mask -/
theorem flNormCell_eq_zero_iff {fl sqrt : K → K} {u : K} (h : FlOk fl u) (hu : u ≤ 1 / 1024)
    (v : List K) (hlen : v.length ≤ 4) (hs' : SqrtAt sqrt (flSqLen fl v)) :
    flNormCell fl sqrt v = 0 ↔ sqLen v = 0 := by
  have hu0 := h.1
  unfold flNormCell
  rw [h.eq_zero_iff (by linarith), hs'.eq_zero_iff]
  exact flSqLen_eq_zero_iff h v (by have := gam_le_of_len hu0 hu hlen; linarith)

/-- quotient by a denominator that carries a relative error `15/4·u`, then one rounding:
within `39/8·u`; then times `t` and one more rounding: within `6u` -/
theorem quot_mul_err {fl : K → K} {u : K} (h : FlOk fl u) (hu : u ≤ 1 / 1024) {b n : K}
    (hb : 0 < b) (hn : |n - b| ≤ 15 / 4 * u * b) (x t : K) :
    |fl (x / n) - x / b| ≤ 39 / 8 * u * |x / b| ∧
    |fl (fl (x / n) * t) - t / b * x| ≤ 6 * u * |t / b * x| := by
  have hu0 := h.1
  have hub : 0 ≤ u * b := mul_nonneg hu0 hb.le
  have hnlow : (1 - 15 / 4 * u) * b ≤ n := by
    have := (abs_le.mp hn).1; linarith
  have hnpos : 0 < n := by
    have : 0 < (1 - 15 / 4 * u) * b := mul_pos (by linarith) hb
    linarith
  have hq : |(b - n) / n| ≤ 61 / 16 * u := by
    rw [abs_div, abs_of_pos hnpos, div_le_iff₀ hnpos, abs_sub_comm]
    have : 15 / 4 * u * b ≤ 61 / 16 * u * ((1 - 15 / 4 * u) * b) := by
      have : 15 / 4 * u ≤ 61 / 16 * u * (1 - 15 / 4 * u) := by nlinarith
      nlinarith
    have := mul_le_mul_of_nonneg_left hnlow (by linarith : (0 : K) ≤ 61 / 16 * u)
    linarith
  have h1 : |x / n - x / b| ≤ 61 / 16 * u * |x / b| := by
    have e : x / n - x / b = x / b * ((b - n) / n) := by field_simp
    rw [e, abs_mul, mul_comm]
    exact mul_le_mul_of_nonneg_right hq (abs_nonneg _)
  have c1 := h.compose (by linarith : (0 : K) ≤ 61 / 16 * u) h1
  have hxb := abs_nonneg (x / b)
  have r1 : |fl (x / n) - x / b| ≤ 39 / 8 * u * |x / b| := by
    have : (1 + u) * (1 + 61 / 16 * u) - 1 ≤ 39 / 8 * u := by nlinarith
    have := mul_le_mul_of_nonneg_right this hxb
    linarith
  refine ⟨r1, ?_⟩
  have e2 : t / b * x = x / b * t := by field_simp
  rw [e2]
  have h2 : |fl (x / n) * t - x / b * t| ≤ 39 / 8 * u * |x / b * t| := by
    have : fl (x / n) * t - x / b * t = (fl (x / n) - x / b) * t := by ring
    rw [this, abs_mul, abs_mul, ← mul_assoc]
    exact mul_le_mul_of_nonneg_right r1 (abs_nonneg t)
  have c2 := h.compose (by linarith : (0 : K) ≤ 39 / 8 * u) h2
  have : (1 + u) * (1 + 39 / 8 * u) - 1 ≤ 6 * u := by nlinarith
  have := mul_le_mul_of_nonneg_right this (abs_nonneg (x / b * t))
  linarith

/-- `fl(x / n)·n` reproduces `x` within one rounding, whatever `n ≠ 0` is -/
theorem quot_times_err {fl : K → K} {u : K} (h : FlOk fl u) {n : K} (hn : n ≠ 0) (x : K) :
    |fl (x / n) * n - x| ≤ u * |x| := by
  have e : fl (x / n) * n - x = (fl (x / n) - x / n) * n := by field_simp
  rw [e, abs_mul]
  have := mul_le_mul_of_nonneg_right (h.2 (x / n)) (abs_nonneg n)
  have e2 : u * |x / n| * |n| = u * |x| := by
    rw [mul_assoc, ← abs_mul]; congr 2; field_simp
  linarith

/-! ### the rounded kernel with `fl := id` is the exact kernel -/

theorem foldl_sq_eq (v : List K) (a : K) :
    v.foldl (fun acc x => id (acc + id (x * x))) a = a + sqLen v := by
  induction v generalizing a with
  | nil => simp [sqLen]
  | cons x xs ih => simp only [List.foldl_cons, sqLen, id]; rw [← add_assoc]; exact ih _

theorem flSqLen_id (v : List K) : flSqLen id v = sqLen v := by
  unfold flSqLen; rw [foldl_sq_eq, zero_add]

/-- the setter as one map over the components when the computed norm is non-zero -/
theorem flSetCell_of_ne {fl sqrt : K → K} {v : List K} (t : K) (hne : flNormCell fl sqrt v ≠ 0) :
    flSetCell fl sqrt v t = v.map fun x => fl (fl (x / flNormCell fl sqrt v) * t) := by
  unfold flSetCell
  rw [if_neg hne, List.map_map]
  rfl

theorem flSetCell_of_eq {fl sqrt : K → K} {u : K} (h : FlOk fl u) {v : List K} (t : K)
    (he : flNormCell fl sqrt v = 0) : flSetCell fl sqrt v t = zeros v := by
  unfold flSetCell
  rw [if_pos he]
  unfold zeros
  rw [List.map_map]
  apply List.map_congr_left
  intro x _
  simp [h.zero]

end DFV.C15
