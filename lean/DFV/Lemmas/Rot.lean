import Mathlib.Tactic.FieldSimp
import DFV.Lemmas.Transform
import DFV.Lemmas.Index

namespace DFV.T
open DFV

theorem getD_setAt_eq {α} (xs : List α) (i : Nat) (a d : α) (h : i < xs.length) : (setAt xs i a).getD i d = a := by
  induction xs generalizing i with
  | nil => simp at h
  | cons x xs ih =>
    cases i with
    | zero => simp [setAt]
    | succ i => simp only [setAt, List.getD_cons_succ]; exact ih i (by simpa using h)

theorem getD_setAt_ne {α} (xs : List α) (i k : Nat) (a d : α) (h : k ≠ i) : (setAt xs i a).getD k d = xs.getD k d := by
  induction xs generalizing i k with
  | nil => simp [setAt]
  | cons x xs ih =>
    cases i with
    | zero =>
      cases k with
      | zero => exact absurd rfl h
      | succ k => simp [setAt]
    | succ i =>
      cases k with
      | zero => simp [setAt]
      | succ k => simp only [setAt, List.getD_cons_succ]; exact ih i k (by omega)

theorem getD_swapAt_left {α} [Inhabited α] (xs : List α) (i j : Nat) (d : α) (hij : i ≠ j) (hi : i < xs.length) :
    (swapAt xs i j).getD i d = xs.getD j default := by
  unfold swapAt
  rw [getD_setAt_ne _ _ _ _ _ hij, getD_setAt_eq _ _ _ _ hi]

theorem getD_swapAt_right {α} [Inhabited α] (xs : List α) (i j : Nat) (d : α) (hj : j < xs.length) :
    (swapAt xs i j).getD j d = xs.getD i default := by
  unfold swapAt
  rw [getD_setAt_eq _ _ _ _ (by rw [setAt_length]; exact hj)]

theorem getD_swapAt_other {α} [Inhabited α] (xs : List α) (i j k : Nat) (d : α) (h1 : k ≠ i) (h2 : k ≠ j) :
    (swapAt xs i j).getD k d = xs.getD k d := by
  unfold swapAt
  rw [getD_setAt_ne _ _ _ _ _ h2, getD_setAt_ne _ _ _ _ _ h1]

/-- index map of `np.rot90` on multi-indices -/
def srcIdx (sh : List Nat) (p q : Nat) (k : Int) (j : List Nat) : List Nat :=
  if k % 4 = 0 then j
  else if k % 4 = 2 then
    setAt (setAt j q (sh.getD q 0 - 1 - j.getD q 0)) p
      (sh.getD p 0 - 1 - (setAt j q (sh.getD q 0 - 1 - j.getD q 0)).getD p 0)
  else if k % 4 = 1 then setAt (swapAt j p q) q (sh.getD q 0 - 1 - (swapAt j p q).getD q 0)
  else swapAt (setAt j q ((swapAt sh p q).getD q 0 - 1 - j.getD q 0)) p q

/-- `np.rot90` moves values: entry `j` of the result is entry `srcIdx j` of the source -/
theorem rot90_get {α} (a : NDA α) (p q : Nat) (k : Int) (j : List Nat) :
    (rot90 a p q k).get j = a.get (srcIdx a.shape p q k j) := by
  unfold rot90 srcIdx
  split
  · rfl
  · split
    · rfl
    · split <;> rfl

theorem helper_plus (u v A L H : Rat) (n : Nat) (x : Rat) (hu : u = A + L) (hv : v = A + H) (hLH : L < H) (hn : 0 < n) :
    min u v + (x + 1/2) * ((max u v - min u v) / (n : Rat)) = A + (L + (x + 1/2) * ((H - L) / (n : Rat))) := by
  have huv : u < v := by rw [hu, hv]; linarith
  rw [min_eq_left huv.le, max_eq_right huv.le, hu, hv]
  ring

theorem helper_minus (u v A L H : Rat) (n x : Nat) (hu : u = A - L) (hv : v = A - H) (hLH : L < H) (hx : x < n) :
    min u v + ((x : Rat) + 1/2) * ((max u v - min u v) / (n : Rat))
      = A - (L + (((n - 1 - x : Nat) : Rat) + 1/2) * ((H - L) / (n : Rat))) := by
  have huv : v < u := by rw [hu, hv]; linarith
  rw [min_eq_right huv.le, max_eq_left huv.le, hu, hv]
  have hn : (n : Rat) ≠ 0 := by exact_mod_cast (by omega : n ≠ 0)
  have hc : ((n - 1 - x : Nat) : Rat) = (n : Rat) - 1 - (x : Rat) := by
    have : n - 1 - x = n - (1 + x) := by omega
    rw [this, Nat.cast_sub (by omega)]; push_cast; ring
  rw [hc]
  field_simp
  ring

/-- components of the source index of `np.rot90` -/
theorem srcIdx_comp (sh j : List Nat) (p q : Nat) (k : Int) (hpq : p ≠ q) (hp : p < j.length) (hq : q < j.length)
    (hsh : sh.length = j.length) :
    (k % 4 = 0 → ∀ a, (srcIdx sh p q k j).getD a 0 = j.getD a 0) ∧
    (k % 4 = 2 → (srcIdx sh p q k j).getD p 0 = sh.getD p 0 - 1 - j.getD p 0 ∧
                 (srcIdx sh p q k j).getD q 0 = sh.getD q 0 - 1 - j.getD q 0 ∧
                 ∀ a, a ≠ p → a ≠ q → (srcIdx sh p q k j).getD a 0 = j.getD a 0) ∧
    (k % 4 = 1 → (srcIdx sh p q k j).getD p 0 = j.getD q 0 ∧
                 (srcIdx sh p q k j).getD q 0 = sh.getD q 0 - 1 - j.getD p 0 ∧
                 ∀ a, a ≠ p → a ≠ q → (srcIdx sh p q k j).getD a 0 = j.getD a 0) ∧
    (k % 4 = 3 → (srcIdx sh p q k j).getD p 0 = sh.getD p 0 - 1 - j.getD q 0 ∧
                 (srcIdx sh p q k j).getD q 0 = j.getD p 0 ∧
                 ∀ a, a ≠ p → a ≠ q → (srcIdx sh p q k j).getD a 0 = j.getD a 0) := by
  have dflt : (default : Nat) = 0 := rfl
  refine ⟨?_, ?_, ?_, ?_⟩
  · intro h a; unfold srcIdx; rw [if_pos h]
  · intro h
    have h0 : ¬ (k % 4 = 0) := by omega
    unfold srcIdx; rw [if_neg h0, if_pos h]
    refine ⟨?_, ?_, ?_⟩
    · rw [getD_setAt_eq _ _ _ _ (by rw [setAt_length]; exact hp), getD_setAt_ne _ _ _ _ _ hpq]
    · rw [getD_setAt_ne _ _ _ _ _ (Ne.symm hpq), getD_setAt_eq _ _ _ _ hq]
    · intro a ha1 ha2
      rw [getD_setAt_ne _ _ _ _ _ ha1, getD_setAt_ne _ _ _ _ _ ha2]
  · intro h
    have h0 : ¬ (k % 4 = 0) := by omega
    have h2 : ¬ (k % 4 = 2) := by omega
    unfold srcIdx; rw [if_neg h0, if_neg h2, if_pos h]
    refine ⟨?_, ?_, ?_⟩
    · rw [getD_setAt_ne _ _ _ _ _ hpq, getD_swapAt_left _ _ _ _ hpq hp, dflt]
    · rw [getD_setAt_eq _ _ _ _ (by rw [swapAt_length]; exact hq), getD_swapAt_right _ _ _ _ hq, dflt]
    · intro a ha1 ha2
      rw [getD_setAt_ne _ _ _ _ _ ha2, getD_swapAt_other _ _ _ _ _ ha1 ha2]
  · intro h
    have h0 : ¬ (k % 4 = 0) := by omega
    have h2 : ¬ (k % 4 = 2) := by omega
    have h1 : ¬ (k % 4 = 1) := by omega
    unfold srcIdx; rw [if_neg h0, if_neg h2, if_neg h1]
    have hq' : q < sh.length := by rw [hsh]; exact hq
    refine ⟨?_, ?_, ?_⟩
    · rw [getD_swapAt_left _ _ _ _ hpq (by rw [setAt_length]; exact hp), dflt, getD_setAt_eq _ _ _ _ hq,
        getD_swapAt_right _ _ _ _ hq', dflt]
    · rw [getD_swapAt_right _ _ _ _ (by rw [setAt_length]; exact hq), dflt, getD_setAt_ne _ _ _ _ _ hpq]
    · intro a ha1 ha2
      rw [getD_swapAt_other _ _ _ _ _ ha1 ha2, getD_setAt_ne _ _ _ _ _ ha2]


/-- centre coordinate of a mesh axis, unfolded -/
theorem centreAx_eq (m : Mesh) (a : Nat) (x : Nat) :
    m.centreAx a (x : Int) = m.region.lo a + ((x : Rat) + 1/2) * ((m.region.hi a - m.region.lo a) / (m.nAt a : Rat)) := by
  unfold Mesh.centreAx Mesh.cellAt Region.edge
  push_cast; ring


/-- Geometry of a quarter turn through the `np.rot90` index map: for every cell `j` of the
rotated mesh and every axis `a`, the centre of `j` is the exact rotation `R + Q(p − R)` of the
centre `p` of the source cell `srcIdx j` — all `k`, all axis pairs, any reference point,
anisotropic counts and cell sizes. -/
theorem rot90_geometry' (m m' : Mesh) (hm : m.Inv) (i1 i2 : Nat) (h12 : i1 ≠ i2) (h1 : i1 < m.ndim) (h2 : i2 < m.ndim)
    (k : Int) (R : List Rat) (units : List String)
    (hr' : m'.region = target m.region (rotCoord m.region.pmin R i1 i2 k) (rotCoord m.region.pmax R i1 i2 k) units)
    (hn' : m'.n = rotN m.n i1 i2 k)
    (j : List Nat) (hj : inRange m'.n j = true) (a : Nat) (ha : a < m.ndim) :
    m'.centreAx a ((j.getD a 0 : Nat) : Int) = rotCoord (m.centre (srcIdx m.n i1 i2 k j)) R i1 i2 k a := by
  obtain ⟨hr, hnl, hpos⟩ := hm
  have hlohi : ∀ b, b < m.ndim → m.region.lo b < m.region.hi b := fun b hb => hr.2.2.2.2.2 b hb
  have hnlen : m.n.length = m.ndim := hnl
  have hn'len : m'.n.length = m.ndim := by rw [hn']; unfold rotN; split <;> simp [swapAt_length, hnlen]
  have hjlen : j.length = m.ndim := by rw [inRange_length _ _ hj, hn'len]
  have hjlt : ∀ b, b < m.ndim → j.getD b 0 < m'.n.getD b 0 := fun b hb =>
    inRange_getD _ _ hj b (by rw [hn'len]; exact hb)
  -- target corners
  have hlo' : ∀ b, b < m.ndim → m'.region.lo b = min (rotCoord m.region.pmin R i1 i2 k b) (rotCoord m.region.pmax R i1 i2 k b) := by
    intro b hb; rw [hr']; exact target_lo _ _ _ _ _ hb
  have hhi' : ∀ b, b < m.ndim → m'.region.hi b = max (rotCoord m.region.pmin R i1 i2 k b) (rotCoord m.region.pmax R i1 i2 k b) := by
    intro b hb; rw [hr']; exact target_hi _ _ _ _ _ hb
  have hcen : ∀ b, b < m.ndim → (m.centre (srcIdx m.n i1 i2 k j)).getD b 0
      = m.centreAx b (((srcIdx m.n i1 i2 k j).getD b 0 : Nat) : Int) := by
    intro b hb; unfold Mesh.centre; rw [getD_tab _ _ _ _ hb]
  have hcomp := srcIdx_comp m.n j i1 i2 k h12 (by rw [hjlen]; exact h1) (by rw [hjlen]; exact h2) (by rw [hnlen, hjlen])
  have pmin_lo : ∀ b, m.region.pmin.getD b 0 = m.region.lo b := fun b => rfl
  have pmax_hi : ∀ b, m.region.pmax.getD b 0 = m.region.hi b := fun b => rfl
  have dflt : (default : Nat) = 0 := rfl
  have hn1 : i1 < m.n.length := by rw [hnlen]; exact h1
  have hn2 : i2 < m.n.length := by rw [hnlen]; exact h2
  rw [centreAx_eq, hlo' a ha, hhi' a ha]
  unfold Mesh.nAt
  have hk : k % 4 = 0 ∨ k % 4 = 1 ∨ k % 4 = 2 ∨ k % 4 = 3 := by omega
  rcases hk with hk | hk | hk | hk
  · -- identity
    have hc : cosq k = 1 := by simp [cosq, hk]
    have hs : sinq k = 0 := by simp [sinq, hk]
    have hodd : isOdd k = false := by unfold isOdd; simp; omega
    have hnn : m'.n = m.n := by rw [hn']; unfold rotN; rw [hodd]; rfl
    have hsrc := hcomp.1 hk
    have e1 : ∀ p : List Rat, rotCoord p R i1 i2 k a = 0 + p.getD a 0 := by
      intro p; unfold rotCoord; rw [hc, hs]; split
      · rename_i h; rw [h]; ring
      · split
        · rename_i h; rw [h]; ring
        · ring
    rw [e1, e1, e1, hnn, pmin_lo, pmax_hi, hcen a ha, hsrc a, centreAx_eq]
    unfold Mesh.nAt
    rw [helper_plus _ _ 0 (m.region.lo a) (m.region.hi a) (m.n.getD a 0) _ rfl rfl (hlohi a ha) (hpos a ha)]
  · -- k ≡ 1: (x, y) ↦ (−y, x)
    have hc : cosq k = 0 := by simp [cosq, hk]
    have hs : sinq k = 1 := by simp [sinq, hk]
    have hodd : isOdd k = true := by unfold isOdd; simp; omega
    obtain ⟨s1, s2, s3⟩ := hcomp.2.2.1 hk
    have hnn : m'.n = swapAt m.n i1 i2 := by rw [hn']; unfold rotN; rw [hodd]; rfl
    by_cases ea : a = i1
    · rw [ea] at ha ⊢
      have e1 : ∀ p : List Rat, rotCoord p R i1 i2 k i1 = (R.getD i1 0 + R.getD i2 0) - p.getD i2 0 := by
        intro p; unfold rotCoord; rw [hc, hs, if_pos rfl]; ring
      have hx := hjlt i1 h1
      rw [hnn, getD_swapAt_left _ _ _ _ h12 hn1, dflt] at hx
      rw [e1, e1, e1, hnn, getD_swapAt_left _ _ _ _ h12 hn1, dflt, pmin_lo, pmax_hi, hcen i2 h2, s2, centreAx_eq]
      unfold Mesh.nAt
      exact helper_minus _ _ _ _ _ _ _ rfl rfl (hlohi i2 h2) hx
    · by_cases eb : a = i2
      · rw [eb] at ha ⊢
        have e1 : ∀ p : List Rat, rotCoord p R i1 i2 k i2 = (R.getD i2 0 - R.getD i1 0) + p.getD i1 0 := by
          intro p; unfold rotCoord; rw [hc, hs, if_neg h12.symm, if_pos rfl]; ring
        rw [e1, e1, e1, hnn, getD_swapAt_right _ _ _ _ hn2, dflt, pmin_lo, pmax_hi, hcen i1 h1, s1, centreAx_eq]
        unfold Mesh.nAt
        exact helper_plus _ _ _ _ _ _ _ rfl rfl (hlohi i1 h1) (hpos i1 h1)
      · have e1 : ∀ p : List Rat, rotCoord p R i1 i2 k a = 0 + p.getD a 0 := by
          intro p; unfold rotCoord; rw [if_neg ea, if_neg eb]; ring
        rw [e1, e1, e1, hnn, getD_swapAt_other _ _ _ _ _ ea eb, pmin_lo, pmax_hi, hcen a ha, s3 a ea eb, centreAx_eq]
        unfold Mesh.nAt
        exact helper_plus _ _ 0 _ _ _ _ rfl rfl (hlohi a ha) (hpos a ha)
  · -- k ≡ 2: (x, y) ↦ (−x, −y)
    have hc : cosq k = -1 := by simp [cosq, hk]
    have hs : sinq k = 0 := by simp [sinq, hk]
    have hodd : isOdd k = false := by unfold isOdd; simp; omega
    have hnn : m'.n = m.n := by rw [hn']; unfold rotN; rw [hodd]; rfl
    obtain ⟨s1, s2, s3⟩ := hcomp.2.1 hk
    by_cases ea : a = i1
    · rw [ea] at ha ⊢
      have e1 : ∀ p : List Rat, rotCoord p R i1 i2 k i1 = (2 * R.getD i1 0) - p.getD i1 0 := by
        intro p; unfold rotCoord; rw [hc, hs, if_pos rfl]; ring
      have hx := hjlt i1 h1
      rw [hnn] at hx
      rw [e1, e1, e1, hnn, pmin_lo, pmax_hi, hcen i1 h1, s1, centreAx_eq]
      unfold Mesh.nAt
      exact helper_minus _ _ _ _ _ _ _ rfl rfl (hlohi i1 h1) hx
    · by_cases eb : a = i2
      · rw [eb] at ha ⊢
        have e1 : ∀ p : List Rat, rotCoord p R i1 i2 k i2 = (2 * R.getD i2 0) - p.getD i2 0 := by
          intro p; unfold rotCoord; rw [hc, hs, if_neg h12.symm, if_pos rfl]; ring
        have hx := hjlt i2 h2
        rw [hnn] at hx
        rw [e1, e1, e1, hnn, pmin_lo, pmax_hi, hcen i2 h2, s2, centreAx_eq]
        unfold Mesh.nAt
        exact helper_minus _ _ _ _ _ _ _ rfl rfl (hlohi i2 h2) hx
      · have e1 : ∀ p : List Rat, rotCoord p R i1 i2 k a = 0 + p.getD a 0 := by
          intro p; unfold rotCoord; rw [if_neg ea, if_neg eb]; ring
        rw [e1, e1, e1, hnn, pmin_lo, pmax_hi, hcen a ha, s3 a ea eb, centreAx_eq]
        unfold Mesh.nAt
        exact helper_plus _ _ 0 _ _ _ _ rfl rfl (hlohi a ha) (hpos a ha)
  · -- k ≡ 3: (x, y) ↦ (y, −x)
    have hc : cosq k = 0 := by simp [cosq, hk]
    have hs : sinq k = -1 := by simp [sinq, hk]
    have hodd : isOdd k = true := by unfold isOdd; simp; omega
    obtain ⟨s1, s2, s3⟩ := hcomp.2.2.2 hk
    have hnn : m'.n = swapAt m.n i1 i2 := by rw [hn']; unfold rotN; rw [hodd]; rfl
    by_cases ea : a = i1
    · rw [ea] at ha ⊢
      have e1 : ∀ p : List Rat, rotCoord p R i1 i2 k i1 = (R.getD i1 0 - R.getD i2 0) + p.getD i2 0 := by
        intro p; unfold rotCoord; rw [hc, hs, if_pos rfl]; ring
      rw [e1, e1, e1, hnn, getD_swapAt_left _ _ _ _ h12 hn1, dflt, pmin_lo, pmax_hi, hcen i2 h2, s2, centreAx_eq]
      unfold Mesh.nAt
      exact helper_plus _ _ _ _ _ _ _ rfl rfl (hlohi i2 h2) (hpos i2 h2)
    · by_cases eb : a = i2
      · rw [eb] at ha ⊢
        have e1 : ∀ p : List Rat, rotCoord p R i1 i2 k i2 = (R.getD i2 0 + R.getD i1 0) - p.getD i1 0 := by
          intro p; unfold rotCoord; rw [hc, hs, if_neg h12.symm, if_pos rfl]; ring
        have hx := hjlt i2 h2
        rw [hnn, getD_swapAt_right _ _ _ _ hn2, dflt] at hx
        rw [e1, e1, e1, hnn, getD_swapAt_right _ _ _ _ hn2, dflt, pmin_lo, pmax_hi, hcen i1 h1, s1, centreAx_eq]
        unfold Mesh.nAt
        exact helper_minus _ _ _ _ _ _ _ rfl rfl (hlohi i1 h1) hx
      · have e1 : ∀ p : List Rat, rotCoord p R i1 i2 k a = 0 + p.getD a 0 := by
          intro p; unfold rotCoord; rw [if_neg ea, if_neg eb]; ring
        rw [e1, e1, e1, hnn, getD_swapAt_other _ _ _ _ _ ea eb, pmin_lo, pmax_hi, hcen a ha, s3 a ea eb, centreAx_eq]
        unfold Mesh.nAt
        exact helper_plus _ _ 0 _ _ _ _ rfl rfl (hlohi a ha) (hpos a ha)


end DFV.T
