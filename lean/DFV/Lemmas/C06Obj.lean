import DFV.Lemmas.C06Ex2
/-! Axis removal at object level (C06): a closed form of `Mesh.sel(d)` (region, counts, bc,
subregions), the commutation of two removals, and with it the independence of every chained
reduction (`selMany`, `integrate(d1).integrate(d2)…`, `mean([d1, d2, …])`) of the ORDER of the
directions - as whole objects: reduced mesh with dims, units, tolerance and subregions, labels,
unit, validity and values. -/
namespace DFV.C06
open DFV

/-! ## lists with two entries removed -/

theorem skip_skip (a b a' b' q : Nat) (h1 : skip a b' = b) (h2 : skip b a' = a) :
    skip a (skip b' q) = skip b (skip a' q) := by
  unfold skip at *
  split_ifs at * <;> omega

theorem removeAt_removeAt {α} (l : List α) (a b a' b' : Nat) (h1 : skip a b' = b) (h2 : skip b a' = a) :
    removeAt (removeAt l a) b' = removeAt (removeAt l b) a' := by
  induction l generalizing a b a' b' with
  | nil => simp [removeAt]
  | cons x xs ih =>
    cases a with
    | zero =>
      have hb : b = b' + 1 := by unfold skip at h1; simp at h1; omega
      subst hb
      have ha' : a' = 0 := by unfold skip at h2; split_ifs at h2 <;> omega
      subst ha'
      simp [removeAt]
    | succ a0 =>
      cases b with
      | zero =>
        have hb' : b' = 0 := by unfold skip at h1; split_ifs at h1 <;> omega
        subst hb'
        have ha' : a' = a0 := by unfold skip at h2; simp at h2; omega
        subst ha'
        simp [removeAt]
      | succ b0 =>
        cases b' with
        | zero => unfold skip at h1; simp at h1
        | succ b0' =>
          cases a' with
          | zero => unfold skip at h2; simp at h2
          | succ a0' =>
            simp only [removeAt]
            rw [ih a0 b0 a0' b0' (by unfold skip at h1 ⊢; split_ifs at h1 ⊢ <;> omega)
              (by unfold skip at h2 ⊢; split_ifs at h2 ⊢ <;> omega)]

/-! ## closed form of `Mesh.sel(d)` -/

/-- the coordinate a bare-name selection keeps along axis `a`: the centre of cell ⌊n/2⌋ -/
def selCoord (m : Mesh) (a : Nat) : Rat := m.region.lo a + (((m.nAt a / 2 : Nat) : Rat) + 1/2) * m.cellAt a

/-- a box with axis `ax` removed, carrying the names / units / tolerance of region `r` without
that axis -/
def cutRegion (r : Region) (ax : Nat) (pmin pmax : List Rat) : Region :=
  { pmin := removeAt pmin ax, pmax := removeAt pmax ax, dims := removeAt r.dims ax,
    units := removeAt r.units ax, tol := r.tol }

/-- the mesh `Mesh.sel(d)` returns, `ax` the axis named `d`: that axis removed from corners, names,
units and counts, same tolerance, no boundary conditions, and the subregions whose closed extent
along the axis contains the selected coordinate, each with the axis removed -/
def selF (m : Mesh) (ax : Nat) : Mesh :=
  { region := cutRegion m.region ax m.region.pmin m.region.pmax, n := removeAt m.n ax, bc := "",
    subs := (keepSubs ax (selCoord m ax) m.subs).map fun p => (p.1, cutRegion m.region ax p.2.pmin p.2.pmax) }

theorem region_ext (r r' : Region) (h1 : r.pmin = r'.pmin) (h2 : r.pmax = r'.pmax) (h3 : r.dims = r'.dims)
    (h4 : r.units = r'.units) (h5 : r.tol = r'.tol) : r = r' := by
  cases r; cases r'; simp only at h1 h2 h3 h4 h5; subst h1; subst h2; subst h3; subst h4; subst h5; rfl

theorem mesh_ext' (a b : Mesh) (h1 : a.region = b.region) (h2 : a.n = b.n) (h3 : a.bc = b.bc) (h4 : a.subs = b.subs) : a = b := by
  cases a; cases b; simp only at h1 h2 h3 h4; subst h1; subst h2; subst h3; subst h4; rfl

/-- `Mesh.sel(d)` in closed form: on a well-formed mesh (two or more dimensions) whose subregions
passed the setter it returns exactly `selF m ax` -/
theorem sel_eq_selF (m : Mesh) (hm : m.Inv) (hacc : SubsAcc m) (h2 : 2 ≤ m.ndim) (d : String) (ax : Nat)
    (hax : m.region.dim2index d = .ok ax) : sel m d = .ok (selF m ax) := by
  obtain ⟨s, mc, m', hs, hsel0, hsel, hm', _⟩ := sel_ok_acc m hm hacc h2 d ax hax
  have hm0 : ({ m with subs := [] } : Mesh).Inv := hm
  obtain ⟨ax', hax', haxlt, _, hpmin, hpmax, hdims, hunits, htol, hn, hbc, _⟩ := sel_spec _ hm0 d mc hsel0
  have hax0 : ({ m with subs := [] } : Mesh).region.dim2index d = .ok ax := hax
  rw [hax0] at hax'; injection hax' with hax'; subst hax'
  rw [selCentre_eq m hm ax haxlt] at hs
  injection hs with hs
  have hreg : mc.region = cutRegion m.region ax m.region.pmin m.region.pmax :=
    region_ext _ _ hpmin hpmax hdims hunits htol
  rw [hsel, hm']
  congr 1
  apply mesh_ext'
  · exact hreg
  · exact hn
  · exact hbc
  · show (keepSubs ax s m.subs).map _ = (keepSubs ax (selCoord m ax) m.subs).map _
    rw [← hs]
    apply List.map_congr_left
    intro p _
    show (p.1, restamp mc (projReg ax p.2)) = (p.1, cutRegion m.region ax p.2.pmin p.2.pmax)
    congr 1
    exact region_ext _ _ rfl rfl (by show mc.region.dims = _; rw [hdims]; rfl)
      (by show mc.region.units = _; rw [hunits]; rfl) (by show mc.region.tol = _; rw [htol]; rfl)

/-- what the next step needs: the reduced mesh is well formed, its subregions pass its setter,
it has one dimension less and every other direction is still a direction -/
theorem selF_facts (m : Mesh) (hm : m.Inv) (hacc : SubsAcc m) (h2 : 2 ≤ m.ndim) (d : String) (ax : Nat)
    (hax : m.region.dim2index d = .ok ax) :
    (selF m ax).Inv ∧ SubsAcc (selF m ax) ∧ (selF m ax).ndim + 1 = m.ndim ∧
    ∀ d' ∈ m.region.dims, d' ≠ d → d' ∈ (selF m ax).region.dims := by
  have hsel := sel_eq_selF m hm hacc h2 d ax hax
  obtain ⟨m', hsel', hacc'⟩ := sel_okA m hm hacc h2 d ax hax
  rw [hsel] at hsel'; injection hsel' with hsel'
  obtain ⟨haxd, hdname⟩ := dim2index_ok _ _ _ hax
  have haxlt : ax < m.region.pmin.length := by rw [← hm.1.2.2.1]; exact haxd
  refine ⟨sel_inv m hm d _ hsel, by rw [hsel']; exact hacc', ?_, ?_⟩
  · show (removeAt m.region.pmin ax).length + 1 = m.region.pmin.length
    rw [removeAt_length _ _ haxlt]; omega
  · intro d' hd' hne
    show d' ∈ removeAt m.region.dims ax
    exact mem_removeAt _ _ _ hd' (by rw [hdname]; exact fun h => hne h.symm)

/-! ## two removals commute -/

theorem selCoord_selF (m : Mesh) (a b b' : Nat) (h1 : skip a b' = b) : selCoord (selF m a) b' = selCoord m b := by
  unfold selCoord Mesh.cellAt Region.edge Region.lo Region.hi Mesh.nAt
  show (removeAt m.region.pmin a).getD b' 0 + _ * (((removeAt m.region.pmax a).getD b' 0 - (removeAt m.region.pmin a).getD b' 0) / _) = _
  show _ + (((((removeAt m.n a).getD b' 0 / 2 : Nat) : Rat)) + 1/2) * (_ / (((removeAt m.n a).getD b' 0 : Nat) : Rat)) = _
  rw [getD_removeAt_skip, getD_removeAt_skip, getD_removeAt_skip, h1]

theorem keepSubs_map_cut (r : Region) (a b b' : Nat) (h1 : skip a b' = b) (s : Rat) (l : List (String × Region)) :
    keepSubs b' s (l.map fun p => (p.1, cutRegion r a p.2.pmin p.2.pmax))
      = (keepSubs b s l).map fun p => (p.1, cutRegion r a p.2.pmin p.2.pmax) := by
  unfold keepSubs
  rw [List.filter_map]
  congr 1
  apply List.filter_congr
  intro p _
  simp only [Function.comp]
  have e1 : (cutRegion r a p.2.pmin p.2.pmax).hi b' = p.2.hi b := by
    show (removeAt p.2.pmax a).getD b' 0 = _
    rw [getD_removeAt_skip, h1]; rfl
  have e2 : (cutRegion r a p.2.pmin p.2.pmax).lo b' = p.2.lo b := by
    show (removeAt p.2.pmin a).getD b' 0 = _
    rw [getD_removeAt_skip, h1]; rfl
  rw [e1, e2]

theorem keepSubs_comm (a b : Nat) (s t : Rat) (l : List (String × Region)) :
    keepSubs b t (keepSubs a s l) = keepSubs a s (keepSubs b t l) := by
  unfold keepSubs
  rw [List.filter_filter, List.filter_filter]
  apply List.filter_congr
  intro p _
  exact Bool.and_comm _ _

/-- removing axis `a` and then the axis that was `b`, or the other way round, gives the same
mesh - region with names, units, tolerance; counts; subregions (the same ones survive, in the same
order, with the same corners) -/
theorem selF_comm (m : Mesh) (a b a' b' : Nat) (h1 : skip a b' = b) (h2 : skip b a' = a) :
    selF (selF m a) b' = selF (selF m b) a' := by
  apply mesh_ext'
  · apply region_ext
    · exact removeAt_removeAt _ a b a' b' h1 h2
    · exact removeAt_removeAt _ a b a' b' h1 h2
    · exact removeAt_removeAt _ a b a' b' h1 h2
    · exact removeAt_removeAt _ a b a' b' h1 h2
    · rfl
  · exact removeAt_removeAt _ a b a' b' h1 h2
  · rfl
  · show (keepSubs b' (selCoord (selF m a) b') (selF m a).subs).map _ = (keepSubs a' (selCoord (selF m b) a') (selF m b).subs).map _
    rw [selCoord_selF m a b b' h1, selCoord_selF m b a a' h2]
    show (keepSubs b' (selCoord m b) ((keepSubs a (selCoord m a) m.subs).map _)).map _
      = (keepSubs a' (selCoord m a) ((keepSubs b (selCoord m b) m.subs).map _)).map _
    rw [keepSubs_map_cut m.region a b b' h1, keepSubs_map_cut m.region b a a' h2, keepSubs_comm, List.map_map, List.map_map]
    apply List.map_congr_left
    intro p _
    simp only [Function.comp]
    congr 1
    apply region_ext
    · exact removeAt_removeAt _ a b a' b' h1 h2
    · exact removeAt_removeAt _ a b a' b' h1 h2
    · exact removeAt_removeAt _ a b a' b' h1 h2
    · exact removeAt_removeAt _ a b a' b' h1 h2
    · rfl

/-- `Mesh.sel(d1).sel(d2) = Mesh.sel(d2).sel(d1)`: on a well-formed mesh with three or more
dimensions whose subregions passed the setter both chains succeed and return the same mesh -/
theorem sel_sel_comm (m : Mesh) (hm : m.Inv) (hacc : SubsAcc m) (h3 : 3 ≤ m.ndim) (d1 d2 : String)
    (hd1 : d1 ∈ m.region.dims) (hd2 : d2 ∈ m.region.dims) (hne : d1 ≠ d2) :
    ∃ m1 m2 m12, sel m d1 = .ok m1 ∧ sel m1 d2 = .ok m12 ∧ sel m d2 = .ok m2 ∧ sel m2 d1 = .ok m12 ∧
      m12.Inv ∧ SubsAcc m12 ∧ m12.ndim + 2 = m.ndim ∧
      ∀ d' ∈ m.region.dims, d' ≠ d1 → d' ≠ d2 → d' ∈ m12.region.dims := by
  obtain ⟨a, ha⟩ := dim2index_of_mem _ _ hd1
  obtain ⟨b, hb⟩ := dim2index_of_mem _ _ hd2
  have hab : a ≠ b := by
    intro heq
    obtain ⟨_, e1⟩ := dim2index_ok _ _ _ ha
    obtain ⟨_, e2⟩ := dim2index_ok _ _ _ hb
    rw [heq] at e1
    exact hne (by rw [← e1, e2])
  have s1 := sel_eq_selF m hm hacc (by omega) d1 a ha
  have s2 := sel_eq_selF m hm hacc (by omega) d2 b hb
  obtain ⟨i1, c1, n1, k1⟩ := selF_facts m hm hacc (by omega) d1 a ha
  obtain ⟨i2, c2, n2, k2⟩ := selF_facts m hm hacc (by omega) d2 b hb
  obtain ⟨b', hb', hskb, _, _⟩ := sel_other_dir m hm d1 _ s1 a ha d2 b hb (Ne.symm hab)
  obtain ⟨a', ha', hska, _, _⟩ := sel_other_dir m hm d2 _ s2 b hb d1 a ha hab
  have s12 := sel_eq_selF (selF m a) i1 c1 (by omega) d2 b' hb'
  have s21 := sel_eq_selF (selF m b) i2 c2 (by omega) d1 a' ha'
  obtain ⟨i12, c12, n12, k12⟩ := selF_facts (selF m a) i1 c1 (by omega) d2 b' hb'
  have hc := selF_comm m a b a' b' hskb hska
  refine ⟨_, _, _, s1, s12, s2, by rw [s21, hc], i12, c12, by omega, ?_⟩
  intro d' hd' hn1 hn2
  exact k12 d' (k1 d' hd' hn1) hn2

/-! ## any order of removals -/

/-- `Mesh.sel(d1).sel(d2)…` does not depend on the order of the directions: for every list of
distinct directions (fewer than all) of a well-formed mesh whose subregions passed the setter and
every permutation of it, the two chains return the same result -/
theorem selMany_perm (ds ds' : List String) (hp : ds.Perm ds') :
    ∀ (m : Mesh), m.Inv → SubsAcc m → ds.Nodup → (∀ d ∈ ds, d ∈ m.region.dims) → ds.length < m.ndim →
      selMany m ds = selMany m ds' := by
  induction hp with
  | nil => intro m _ _ _ _ _; rfl
  | @cons x l1 l2 _ ih =>
    intro m hm hacc hnd hmem hlen
    obtain ⟨ax, hax⟩ := dim2index_of_mem _ _ (hmem x (by simp))
    have hlen' : l1.length + 1 < m.ndim := by simpa using hlen
    have s1 := sel_eq_selF m hm hacc (by omega) x ax hax
    obtain ⟨i1, c1, n1, k1⟩ := selF_facts m hm hacc (by omega) x ax hax
    obtain ⟨hx, hnd'⟩ := List.nodup_cons.mp hnd
    simp only [selMany, s1]
    exact ih _ i1 c1 hnd' (fun d hd => k1 d (hmem d (by simp [hd])) (fun h => hx (h ▸ hd))) (by omega)
  | swap x y l =>
    intro m hm hacc hnd hmem hlen
    have hlen' : l.length + 2 < m.ndim := by simpa using hlen
    obtain ⟨hy, hnd1⟩ := List.nodup_cons.mp hnd
    have hxy : y ≠ x := fun h => hy (by simp [h])
    obtain ⟨m1, m2, m12, e1, e12, e2, e21, _⟩ := sel_sel_comm m hm hacc (by omega) y x (hmem y (by simp)) (hmem x (by simp)) hxy
    simp only [selMany, e1, e12, e2, e21]
  | trans h1 _ ih1 ih2 =>
    intro m hm hacc hnd hmem hlen
    rw [ih1 m hm hacc hnd hmem hlen]
    exact ih2 m hm hacc (h1.nodup_iff.mp hnd) (fun d hd => hmem d (h1.mem_iff.mpr hd)) (by rw [← h1.length_eq]; exact hlen)


/-! ## `mean(list)` in any order: the same object -/

theorem sameMultiset_iff_perm' (a b : List String) : sameMultiset a b = true ↔ a.Perm b := by
  unfold sameMultiset
  rw [List.perm_iff_count]
  simp only [Bool.and_eq_true, List.all_eq_true, beq_iff_eq]
  constructor
  · intro ⟨h1, h2⟩ x
    by_cases hxa : x ∈ a
    · exact h1 x hxa
    · by_cases hxb : x ∈ b
      · exact h2 x hxb
      · rw [List.count_eq_zero_of_not_mem hxa, List.count_eq_zero_of_not_mem hxb]
  · intro h
    exact ⟨fun x _ => h x, fun x _ => h x⟩

theorem sameMultiset_perm (ds ds' dims : List String) (hp : ds.Perm ds') :
    sameMultiset ds dims = sameMultiset ds' dims := by
  rw [Bool.eq_iff_iff, sameMultiset_iff_perm', sameMultiset_iff_perm']
  exact ⟨fun h => hp.symm.trans h, fun h => hp.trans h⟩

theorem dimIndices_of_mem (r : Region) (ds : List String) (h : ∀ d ∈ ds, d ∈ r.dims) : ∃ axes, dimIndices r ds = .ok axes := by
  induction ds with
  | nil => exact ⟨[], rfl⟩
  | cons d ds ih =>
    obtain ⟨a, ha⟩ := dim2index_of_mem _ _ (h d (by simp))
    obtain ⟨t, ht⟩ := ih (fun d' hd' => h d' (by simp [hd']))
    exact ⟨a :: t, by simp only [dimIndices, ha, ht]⟩

theorem meanAxes_perm (nv : Nat) (a : NDA (List Rat)) (axes axes' : List Nat) (hp : axes.Perm axes') :
    meanAxes nv a axes = meanAxes nv a axes' := by
  unfold meanAxes
  rw [keepMask_perm _ _ _ hp]

/-- `mean` over a list of distinct directions of the mesh, in ANY order, is literally the same
result: the same reduced mesh (region with names, units, tolerance; counts; subregions), the same
labels, mapping, unit, validity and values -/
theorem mean_names_perm (f : Fld) (hf : WF f) (hacc : SubsAcc f.mesh) (ds ds' : List String) (hp : ds.Perm ds')
    (hnd : ds.Nodup) (hmem : ∀ d ∈ ds, d ∈ f.mesh.region.dims) :
    mean f (.names ds) = mean f (.names ds') := by
  have hd1 : hasDup ds = false := hasDup_of_nodup ds hnd
  have hd2 : hasDup ds' = false := hasDup_of_nodup ds' (hp.nodup_iff.mp hnd)
  unfold mean
  simp only [hd1, hd2, Bool.false_eq_true, if_false, sameMultiset_perm ds ds' _ hp]
  split
  · rfl
  · rename_i hns
    have hnp : ¬ ds'.Perm f.mesh.region.dims := fun h => hns ((sameMultiset_iff_perm' _ _).mpr h)
    have hnp1 : ¬ ds.Perm f.mesh.region.dims := fun h => hnp (hp.symm.trans h)
    have hdl : f.mesh.region.dims.length = f.mesh.ndim := hf.1.1.2.2.1
    have hlen := length_lt_of_not_perm ds _ hnd hmem hnp1
    rw [selMany_perm ds ds' hp f.mesh hf.1 hacc hnd hmem (by rw [← hdl]; exact hlen)]
    obtain ⟨axes, hax⟩ := dimIndices_of_mem f.mesh.region ds hmem
    obtain ⟨axes', hax', hpa⟩ := dimIndices_perm _ _ _ hp axes hax
    rw [hax, hax']
    simp only
    rw [meanAxes_perm _ _ _ _ hpa]

/-! ## chained integrals in any order: the same object -/

/-- a materialised array is determined by its in-range entries -/
theorem force_congr (A A' : NDA (List Rat)) (hs : A.shape = A'.shape) (hpos : ∀ n ∈ A.shape, 0 < n)
    (h : ∀ i, inRange A.shape i = true → A.get i = A'.get i) : A.force [] = A'.force [] := by
  unfold NDA.force NDA.toList
  rw [← hs]
  congr 1
  apply List.map_congr_left
  intro i hi
  exact h i ((mem_indicesC _ hpos i).mp hi)

/-- the shape of a successful chained integral over a non-empty list of directions -/
theorem integrateSeq_form (ds : List String) (hne : ds ≠ []) : ∀ (f g : Fld), integrateSeq f ds = .ok (.field g) →
    ∃ A : NDA (List Rat), g.data = A.force [] ∧ A.shape = g.mesh.n ∧ (∀ i, A.get i = tab f.nvdim fun c => cget A i c) ∧
      g.valid = NDA.const g.mesh.n true ∧ g.vdims = f.vdims ∧ g.vmap = f.vmap ∧ g.unit = none ∧ g.nvdim = f.nvdim := by
  induction ds with
  | nil => exact absurd rfl hne
  | cons d rest ih =>
    intro f g h
    unfold integrateSeq at h
    split at h
    · cases h
    · split at h <;> cases h
    · rename_i g1 hg1
      obtain ⟨ax, m', hax, _, hsel, hshape, hg1eq⟩ := integrate_dir_unpack f d g1 hg1
      cases rest with
      | nil =>
        simp only [integrateSeq] at h
        injection h with h; injection h with h; subst h
        subst hg1eq
        refine ⟨scaleBy f.nvdim (f.mesh.cellAt ax) (sumAxis f.nvdim f.data ax), rfl, hshape, ?_, rfl, rfl, rfl, rfl, rfl⟩
        intro i
        show (tab f.nvdim fun c => cget (sumAxis f.nvdim f.data ax) i c * f.mesh.cellAt ax) = _
        apply tab_congr
        intro c hc
        rw [cget_scaleBy _ _ _ _ _ hc]
      | cons d2 rest2 =>
        obtain ⟨A, e1, e2, e3, e4, e5, e6, e7, e8⟩ := ih (by simp) g1 g h
        have hnv : g1.nvdim = f.nvdim := by rw [hg1eq]
        have hvd : g1.vdims = f.vdims := by rw [hg1eq]
        have hvm : g1.vmap = f.vmap := by rw [hg1eq]
        exact ⟨A, e1, e2, by rw [← hnv]; exact e3, e4, by rw [e5, hvd], by rw [e6, hvm], e7, by rw [e8, hnv]⟩

theorem fld_ext (a b : Fld) (h1 : a.mesh = b.mesh) (h2 : a.nvdim = b.nvdim) (h3 : a.data = b.data) (h4 : a.valid = b.valid)
    (h5 : a.vdims = b.vdims) (h6 : a.vmap = b.vmap) (h7 : a.unit = b.unit) : a = b := by
  cases a; cases b; simp only at h1 h2 h3 h4 h5 h6 h7
  subst h1; subst h2; subst h3; subst h4; subst h5; subst h6; subst h7; rfl

/-- Fubini at object level: two chained integrals over permutations of the same distinct
directions (fewer than all) return THE SAME FIELD - reduced mesh with names, units, tolerance and
subregions, labels, mapping, unit, validity and the stored values -/
theorem integrateSeq_perm_obj (f : Fld) (hf : WF f) (hacc : SubsAcc f.mesh) (ds ds' : List String) (hp : ds.Perm ds')
    (hnd : ds.Nodup) (hmem : ∀ d ∈ ds, d ∈ f.mesh.region.dims) (hlen : ds.length < f.mesh.ndim) (g g' : Fld)
    (h : integrateSeq f ds = .ok (.field g)) (h' : integrateSeq f ds' = .ok (.field g')) : g' = g := by
  by_cases hne : ds = []
  · subst hne
    have : ds' = [] := hp.nil_eq.symm
    subst this
    simp only [integrateSeq] at h h'
    injection h with h; injection h with h
    injection h' with h'; injection h' with h'
    rw [← h, ← h']
  · have hne' : ds' ≠ [] := fun e => hne (by subst e; exact hp.eq_nil)
    obtain ⟨_, _, _, hsm, _, _⟩ := chain f hf ds f _ 1 g (chainInv_init f hf) h
    obtain ⟨_, _, _, hsm', hinv', _⟩ := chain f hf ds' f _ 1 g' (chainInv_init f hf) h'
    rw [selMany_perm ds ds' hp f.mesh hf.1 hacc hnd hmem hlen, hsm'] at hsm
    injection hsm with hmesh
    obtain ⟨_, _, _, _, hshape, _, hval⟩ := integrateSeq_perm' f hf ds ds' hp g g' h h'
    obtain ⟨A, e1, e2, e3, e4, e5, e6, e7, e8⟩ := integrateSeq_form ds hne f g h
    obtain ⟨A', e1', e2', e3', e4', e5', e6', e7', e8'⟩ := integrateSeq_form ds' hne' f g' h'
    have hwg' : WF g' := hinv'.1
    have hposA' : ∀ n ∈ A'.shape, 0 < n := by
      rw [e2']
      exact DFV.C13.mem_pos_of_nAt g'.mesh hwg'.1.2.1 hwg'.1.2.2
    apply fld_ext
    · exact hmesh
    · rw [e8, e8']
    · rw [e1, e1']
      apply force_congr A' A (by rw [e2, e2', hmesh]) hposA'
      intro i hi
      rw [e3 i, e3' i]
      apply tab_congr
      intro c hc
      have hig : inRange g.data.shape i = true := by
        rw [e1]; show inRange A.shape i = true
        rw [e2, ← hmesh, ← e2']; exact hi
      have hv := hval i c hig hc
      rw [e1, e1'] at hv
      rw [cget_force A' i c hi, cget_force A i c (by rw [e2, ← hmesh, ← e2']; exact hi)] at hv
      exact hv
    · rw [e4, e4', hmesh]
    · rw [e5, e5']
    · rw [e6, e6']
    · rw [e7, e7']

end DFV.C06
