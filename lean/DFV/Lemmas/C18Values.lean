import DFV.Lemmas.C18Field
/-! Values of the interpolant of the original field for C18: affine and uniform data, outside. -/
namespace DFV.C18
open DFV DFV.Mesh

/-- at least half a cell inside on axis `a` (strictly on the upper side): between the first
and the last cell centre -/
def Deep (m : Mesh) (a : Nat) (x : Rat) : Prop := centreRel m a 0 ≤ x ∧ x < centreRel m a (m.nAt a - 1)

theorem centreAbs_eq (m : Mesh) (a k : Nat) : centreAbs m a k = centreRel m a k + centreAt m a := by
  unfold centreAbs centreRel; ring

theorem deep_inPad (m : Mesh) (a : Nat) (h : AxOk m a) (x : Rat) (hd : Deep m a x) :
    gridNode m a 0 ≤ x ∧ x ≤ gridNode m a (m.nAt a + 1) := by
  obtain ⟨h1, h2⟩ := hd
  have hn := h.2
  have g1 := gridNode_mono m a h 0 1 (by omega) (by omega)
  rw [gridNode_centreRel m a h 0 hn] at g1
  have g2 := gridNode_mono m a h (m.nAt a) (m.nAt a + 1) (by omega) (by omega)
  have e : gridNode m a (m.nAt a) = centreRel m a (m.nAt a - 1) := by
    have := gridNode_centreRel m a h (m.nAt a - 1) (by omega)
    rwa [show m.nAt a - 1 + 1 = m.nAt a by omega] at this
  rw [e] at g2
  constructor <;> linarith

theorem deep_findIdx (m : Mesh) (a : Nat) (h : AxOk m a) (x : Rat) (hd : Deep m a x) :
    1 ≤ findIdx (gridNode m a) x (m.nAt a) ∧ findIdx (gridNode m a) x (m.nAt a) + 1 ≤ m.nAt a := by
  obtain ⟨h1, h2⟩ := hd
  have hn := h.2
  apply findIdx_interior m a x
  · rw [gridNode_centreRel m a h 0 hn]; exact h1
  · have := gridNode_centreRel m a h (m.nAt a - 1) (by omega)
    rw [show m.nAt a - 1 + 1 = m.nAt a by omega] at this
    rw [this]; exact h2
  · omega

/-- node coordinate of an interior node is the (relative) centre of the cell it pads -/
theorem gridNode_pad (m : Mesh) (a : Nat) (h : AxOk m a) (j : Nat) (h1 : 1 ≤ j) (h2 : j ≤ m.nAt a) :
    centreAbs m a (padIdx (m.nAt a) j) = gridNode m a j + centreAt m a := by
  rw [padIdx_interior _ _ h1 h2, gridNode_interior m a h j h1 h2]
  unfold centreAbs; ring

/-- **affine data**: if component `c` of the stored data is an affine function of the cell
centres, the interpolant reproduces it at every point at least half a cell inside -/
theorem origAt_affine (f : Fld) (hm : Mesh3 f.mesh) (c : Nat) (hc : c < f.nvdim) (α β0 β1 β2 : Rat)
    (hdata : ∀ i j k, i < f.mesh.nAt 0 → j < f.mesh.nAt 1 → k < f.mesh.nAt 2 →
      (f.data.get [i, j, k]).getD c 0
        = α + β0 * centreAbs f.mesh 0 i + β1 * centreAbs f.mesh 1 j + β2 * centreAbs f.mesh 2 k)
    (p : V3) (h0 : Deep f.mesh 0 p.x) (h1 : Deep f.mesh 1 p.y) (h2 : Deep f.mesh 2 p.z) :
    (origAt f p).getD c 0
      = α + β0 * (p.x + centreAt f.mesh 0) + β1 * (p.y + centreAt f.mesh 1) + β2 * (p.z + centreAt f.mesh 2) := by
  have m0 := hm 0 (by omega)
  have m1 := hm 1 (by omega)
  have m2 := hm 2 (by omega)
  have hin : InPad f p := by
    intro a ha
    have : a = 0 ∨ a = 1 ∨ a = 2 := by omega
    rcases this with e | e | e <;> subst e
    · exact deep_inPad _ _ m0 _ h0
    · exact deep_inPad _ _ m1 _ h1
    · exact deep_inPad _ _ m2 _ h2
  obtain ⟨a0, b0⟩ := deep_findIdx _ _ m0 _ h0
  obtain ⟨a1, b1⟩ := deep_findIdx _ _ m1 _ h1
  obtain ⟨a2, b2⟩ := deep_findIdx _ _ m2 _ h2
  rw [origAt_getD f p c hc, locOf_some f p hin]
  simp only [interpAt, frac]
  have hr : α + β0 * (p.x + centreAt f.mesh 0) + β1 * (p.y + centreAt f.mesh 1) + β2 * (p.z + centreAt f.mesh 2)
      = (α + β0 * centreAt f.mesh 0 + β1 * centreAt f.mesh 1 + β2 * centreAt f.mesh 2)
        + β0 * p.x + β1 * p.y + β2 * p.z := by ring
  rw [hr]
  apply sum8_affine
  · exact gridNode_ne _ _ m0 _ (by omega)
  · exact gridNode_ne _ _ m1 _ (by omega)
  · exact gridNode_ne _ _ m2 _ (by omega)
  · intro e0 e1 e2 he0 he1 he2
    unfold paddedOrig
    have q0 : padIdx (f.mesh.nAt 0) (findIdx (gridNode f.mesh 0) p.x (f.mesh.nAt 0) + e0) < f.mesh.nAt 0 := by
      rw [padIdx_interior _ _ (by omega) (by omega)]; omega
    have q1 : padIdx (f.mesh.nAt 1) (findIdx (gridNode f.mesh 1) p.y (f.mesh.nAt 1) + e1) < f.mesh.nAt 1 := by
      rw [padIdx_interior _ _ (by omega) (by omega)]; omega
    have q2 : padIdx (f.mesh.nAt 2) (findIdx (gridNode f.mesh 2) p.z (f.mesh.nAt 2) + e2) < f.mesh.nAt 2 := by
      rw [padIdx_interior _ _ (by omega) (by omega)]; omega
    rw [hdata _ _ _ q0 q1 q2, gridNode_pad _ _ m0 _ (by omega) (by omega), gridNode_pad _ _ m1 _ (by omega) (by omega),
      gridNode_pad _ _ m2 _ (by omega) (by omega)]
    have c0 : e0 = 0 ∨ e0 = 1 := by omega
    have c1 : e1 = 0 ∨ e1 = 1 := by omega
    have c2 : e2 = 0 ∨ e2 = 1 := by omega
    rcases c0 with c0 | c0 <;> rcases c1 with c1 | c1 <;> rcases c2 with c2 | c2 <;> subst c0 <;> subst c1 <;>
      subst c2 <;> simp <;> ring

theorem padIdx_lt (n j : Nat) (hn : 0 < n) : padIdx n j < n := by
  unfold padIdx; omega

/-- **uniform data**: a constant component is reproduced everywhere inside the padded box -/
theorem origAt_uniform (f : Fld) (hm : Mesh3 f.mesh) (c : Nat) (hc : c < f.nvdim) (v : Rat)
    (hdata : ∀ i j k, i < f.mesh.nAt 0 → j < f.mesh.nAt 1 → k < f.mesh.nAt 2 → (f.data.get [i, j, k]).getD c 0 = v)
    (p : V3) (hin : InPad f p) : (origAt f p).getD c 0 = v := by
  rw [origAt_getD f p c hc, locOf_some f p hin]
  simp only [interpAt]
  rw [sum8_congr _ _ _ _ (fun _ _ _ => v)]
  · exact sum8_const _ _ _ v
  · intro e0 e1 e2 _ _ _
    unfold paddedOrig
    exact hdata _ _ _ (padIdx_lt _ _ (hm 0 (by omega)).2) (padIdx_lt _ _ (hm 1 (by omega)).2)
      (padIdx_lt _ _ (hm 2 (by omega)).2)

/-- outside the padded box every component is the fill value -/
theorem valuesAt_outside (f : Fld) (R : M3) (ord : List Nat) (p : V3) (h : ¬ InPad f p) :
    valuesAt f R ord p = tab f.nvdim fun _ => 0 := by
  unfold valuesAt
  rw [locOf_none f p h]
  rfl

/-- a coordinate more than `1e-9` cell outside the region fails the bounds test -/
theorem outside_not_inPad (f : Fld) (p : V3) (a : Nat) (ha : a < 3)
    (h : p.get a + centreAt f.mesh a < f.mesh.region.lo a - f.mesh.cellAt a * tolI ∨
         f.mesh.region.hi a + f.mesh.cellAt a * tolI < p.get a + centreAt f.mesh a) : ¬ InPad f p := by
  intro hin
  have := hin a ha
  rw [gridNode_zero, gridNode_last] at this
  rcases h with h | h <;> linarith [this.1, this.2]

/-- "at least one cell inside" (the property's wording) implies `Deep` -/
theorem deep_of_one_cell_inside (m : Mesh) (a : Nat) (h : AxOk m a) (x : Rat)
    (h1 : m.region.lo a + m.cellAt a ≤ x + centreAt m a) (h2 : x + centreAt m a ≤ m.region.hi a - m.cellAt a) :
    Deep m a x := by
  have hc := cell_pos m a h
  have hcov := n_mul_cell m a h
  have hn := h.2
  unfold Deep centreRel
  have hcast : (((m.nAt a - 1 : Nat)) : Rat) = (m.nAt a : Rat) - 1 := by
    rw [Nat.cast_sub (by omega)]; simp
  rw [hcast]
  constructor
  · push_cast; nlinarith
  · nlinarith

/-- a `Deep` coordinate lies between two neighbouring cell centres -/
theorem between_of_deep (m : Mesh) (a : Nat) (h : AxOk m a) (x : Rat) (hd : Deep m a x) :
    ∃ k, Between m a k x := by
  obtain ⟨a1, b1⟩ := deep_findIdx m a h x hd
  have hin := deep_inPad m a h x hd
  have hb := findIdx_bracket (gridNode m a) x (m.nAt a) ((inBounds_iff _ _ _).mpr hin)
  refine ⟨findIdx (gridNode m a) x (m.nAt a) - 1, ?_, ?_, by omega⟩
  · have := gridNode_centreRel m a h (findIdx (gridNode m a) x (m.nAt a) - 1) (by omega)
    rw [show findIdx (gridNode m a) x (m.nAt a) - 1 + 1 = findIdx (gridNode m a) x (m.nAt a) by omega] at this
    rw [← this]; exact hb.1
  · have := gridNode_centreRel m a h (findIdx (gridNode m a) x (m.nAt a) - 1 + 1) (by omega)
    rw [← this]
    rw [show findIdx (gridNode m a) x (m.nAt a) - 1 + 1 + 1 = findIdx (gridNode m a) x (m.nAt a) + 1 by omega]
    exact findIdx_upper (gridNode m a) x (m.nAt a) _ (Nat.lt_succ_self _) (by omega)

end DFV.C18
