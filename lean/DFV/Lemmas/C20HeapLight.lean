import DFV.Lemmas.C20HeapRef
/-!
C20 helper lemmas, tenth part: the lightness plot on the heap refines the value model — the
lightness array that is normalised in place and the `rgb` array that receives the NaN writes
hold what `lightCore` computes.
-/
namespace DFV.C20
open DFV

theorem buf_mapAt_eq (h : AHeap) (a : Nat) (fn : Rat → Rat) (ha : a < h.length) :
    (h.mapAt a fn).buf a = fun i => (h.buf a i).map fn :=
  C07.getD_setAt_eq h a _ _ ha

/-- `_filter_values` on any buffer `R` of the heap, against the filter step of the value model -/
theorem filterValuesH_keep (h H : AHeap) (f F : HFld) (FA : Fld) (R : Nat)
    (fr : Frame h H) (hf : f.On h) (hR : R < H.length)
    (hF1 : FA.nvdim = F.nvdim) (hF2 : FA.mesh = F.mesh)
    (hsame : F.mesh.n = f.mesh.n → F.nvdim = 1 →
      ∀ x y, (H.buf F.arr [x, y, 0]).getD 0 = (FA.data.get [x, y]).getD 0 0)
    (hother : F.mesh.n ≠ f.mesh.n → F.abs H = FA) :
    match filterKeep (f.abs h) FA with
    | .error e => filterValuesH H f F R = .error e
    | .ok keep => ∃ H', filterValuesH H f F R = .ok H' ∧ H.length ≤ H'.length ∧
        (∀ a, a < H.length → a ≠ R → H'.buf a = H.buf a) ∧
        ∀ x y c, H'.buf R [x, y, c] = if keep.get [x, y] then H.buf R [x, y, c] else none := by
  unfold filterKeep
  by_cases c1 : F.nvdim ≠ 1
  · rw [if_pos (by rw [hF1]; exact c1)]
    simp only []
    unfold filterValuesH
    rw [if_pos c1]
  · rw [if_neg (by rw [hF1]; exact c1)]
    by_cases c2 : F.mesh.region.ndim ≠ 2
    · rw [if_pos (by rw [hF2]; exact c2)]
      simp only []
      unfold filterValuesH
      rw [if_neg c1, if_pos c2]
    · rw [if_neg (by rw [hF2]; exact c2)]
      have g1 : F.nvdim = 1 := not_not.mp c1
      have g2 : F.mesh.region.ndim = 2 := not_not.mp c2
      by_cases hn : F.mesh.n = f.mesh.n
      · rw [auxOnMesh_same (f.abs h) FA (by rw [hF2]; exact hn)]
        simp only []
        rw [filterValuesH_same H f F R hn g1 g2]
        refine ⟨_, rfl, by rw [nanWhere_len, nanWhere_len], ?_, fun x y c => ?_⟩
        · intro a _ hne
          rw [buf_nanWhere_ne _ _ _ _ hne, buf_nanWhere_ne _ _ _ _ hne]
        · rw [buf_two_writes _ _ _ _ hR]
          show (if (!f.validAt H [x, y]) = true then none else
            if decide ((H.buf F.arr [x, y, 0]).getD 0 = 0) = true then none else H.buf R [x, y, c]) = _
          rw [validAt_frame _ _ f fr hf, hsame hn g1 x y]
          show _ = if (!decide ((FA.data.get [x, y]).getD 0 0 = 0) && f.validAt h [x, y]) = true then _ else _
          cases f.validAt h [x, y] <;> by_cases hz : (FA.data.get [x, y]).getD 0 0 = 0 <;> simp [hz]
      · rw [filterValuesH_other H f F R hn g1 g2, abs_frame _ _ f fr hf, hother hn]
        cases ha : auxOnMesh (f.abs h) FA with
        | error e => rfl
        | ok a =>
          simp only []
          refine ⟨_, rfl, by rw [nanWhere_len, nanWhere_len, alloc_len]; omega, ?_, fun x y c => ?_⟩
          · intro b hb hne
            rw [buf_nanWhere_ne _ _ _ _ hne, buf_nanWhere_ne _ _ _ _ hne, buf_alloc_lt _ _ _ hb]
          · rw [buf_two_writes _ _ _ _ (by rw [alloc_len]; omega)]
            show (if (!f.validAt (H.alloc _).1 [x, y]) = true then none else
              if decide (((H.alloc _).1.buf H.length [x, y, 0]).getD 0 = 0) = true then none
              else (H.alloc _).1.buf R [x, y, c]) = _
            rw [validAt_frame _ _ f (fr.trans (frame_alloc H _)) hf, buf_alloc_new, buf_alloc_lt _ _ _ hR]
            show _ = if (!decide ((a.get [x, y]).getD 0 0 = 0) && f.validAt h [x, y]) = true then _ else _
            cases f.validAt h [x, y] <;> by_cases hz : (a.get [x, y]).getD 0 0 = 0 <;> simp [hz]

/-- relation between a filter field on the heap and the filter field of the value model, as far
as `_filter_values` looks at it -/
structure FilterRel (H : AHeap) (f F : HFld) (FA : Fld) : Prop where
  on : F.On H
  nvdim : FA.nvdim = F.nvdim
  mesh : FA.mesh = F.mesh
  same : F.mesh.n = f.mesh.n → F.nvdim = 1 →
    ∀ x y, (H.buf F.arr [x, y, 0]).getD 0 = (FA.data.get [x, y]).getD 0 0
  other : F.mesh.n ≠ f.mesh.n → F.abs H = FA

theorem FilterRel.frame {H H' : AHeap} {f F : HFld} {FA : Fld} (r : FilterRel H f F FA) (fr : Frame H H') :
    FilterRel H' f F FA :=
  ⟨⟨Nat.lt_of_lt_of_le r.on.1 fr.1, Nat.lt_of_lt_of_le r.on.2 fr.1⟩, r.nvdim, r.mesh,
   fun hn h1 x y => by rw [fr.2 _ r.on.1]; exact r.same hn h1 x y,
   fun hn => by rw [abs_frame _ _ F fr r.on]; exact r.other hn⟩

/-- the arrays of the final lightness stage against the value model, given the array `src` the
lightness is copied from -/
theorem lightArraysH_of_src (h H : AHeap) (f LF F : HFld) (FA : Fld) (clim : Rat × Rat)
    (lget : List Nat → Rat) (fr : Frame h H) (hf : f.On h) (rel : FilterRel H f F FA)
    (hp : AHeap × Nat)
    (hfa : filterArrH (H.alloc fun i => H.buf f.arr (i.take 2 ++ [0])).1 f LF = .ok hp)
    (hp2 : hp.2 < hp.1.length)
    (hsrc : ∀ i, hp.1.buf hp.2 (i ++ [0]) = some (lget i)) :
    match filterKeep (f.abs h) FA with
    | .error e => lightArraysH H f LF F clim = .error e
    | .ok keep => ∃ hr, lightArraysH H f LF F clim = .ok hr ∧
        (∀ x y, (hr.1.buf hr.2.2 [x, y, 0]).isNone = !keep.get [x, y]) ∧
        ∀ x y, (hr.1.buf hr.2.1 [x, y]).getD 0 =
          normalise (ndaMin ⟨f.mesh.n, lget⟩) (ndaMax ⟨f.mesh.n, lget⟩) clim (lget [x, y]) := by
  have frp : Frame H hp.1 := (frame_alloc H _).trans (frame_filterArrH _ f LF hp hfa)
  have hS : (fun i => (hp.1.buf hp.2 (i ++ [0])).getD 0) = lget := by
    funext i; rw [hsrc i]; rfl
  -- heap after `lightness = ….copy()`, the in-place normalisation and the allocation of `rgb`
  have frL : Frame H (hp.1.alloc fun i => hp.1.buf hp.2 (i.take 2 ++ [0])).1 := frp.trans (frame_alloc _ _)
  have hLlt : hp.1.length < (hp.1.alloc fun i => hp.1.buf hp.2 (i.take 2 ++ [0])).1.length := by
    rw [alloc_len]; omega
  have frM := frame_mapAt_fresh H _ hp.1.length
    (normalise (ndaMin ⟨f.mesh.n, fun i => (hp.1.buf hp.2 (i ++ [0])).getD 0⟩)
      (ndaMax ⟨f.mesh.n, fun i => (hp.1.buf hp.2 (i ++ [0])).getD 0⟩) clim) frL frp.1
  have frR := frM.trans (frame_alloc _ (fun _ => some (0 : Rat)))
  have key := filterValuesH_keep h _ f F FA (hp.1.length + 1) (fr.trans frR) hf
    (by rw [alloc_len, mapAt_len, alloc_len]; omega) rel.nvdim rel.mesh (rel.frame frR).same (rel.frame frR).other
  unfold lightArraysH
  rw [hfa]
  simp only []
  cases hk : filterKeep (f.abs h) FA with
  | error e =>
    rw [hk] at key
    simp only [] at key
    rw [key]
  | ok keep =>
    rw [hk] at key
    obtain ⟨H', hH', _, hoth, hR⟩ := key
    rw [hH']
    simp only []
    refine ⟨_, rfl, fun x y => ?_, fun x y => ?_⟩
    · show (H'.buf (hp.1.length + 1) [x, y, 0]).isNone = _
      rw [hR x y 0]
      have : ((hp.1.alloc fun i => hp.1.buf hp.2 (i.take 2 ++ [0])).1.mapAt hp.1.length
          (normalise (ndaMin ⟨f.mesh.n, fun i => (hp.1.buf hp.2 (i ++ [0])).getD 0⟩)
            (ndaMax ⟨f.mesh.n, fun i => (hp.1.buf hp.2 (i ++ [0])).getD 0⟩) clim)).length = hp.1.length + 1 := by
        rw [mapAt_len, alloc_len]
      rw [← this, buf_alloc_new]
      cases keep.get [x, y] <;> rfl
    · show (H'.buf hp.1.length [x, y]).getD 0 = _
      rw [hoth hp.1.length (by rw [alloc_len, mapAt_len, alloc_len]; omega) (by omega),
        buf_alloc_lt _ _ _ (by rw [mapAt_len, alloc_len]; omega), buf_mapAt_eq _ _ _ hLlt, buf_alloc_new]
      show ((hp.1.buf hp.2 [x, y, 0]).map _).getD 0 = _
      rw [show hp.1.buf hp.2 [x, y, 0] = some (lget [x, y]) from hsrc [x, y], hS]
      rfl

/-- lightness field in force, then the arrays: the two steps of the final stage that can fail
after the multiplier -/
def lightStageH (H : AHeap) (f : HFld) (aux : Option HFld) (F : HFld) (clim : Rat × Rat)
    (dflt : List Nat → Rat) : M (AHeap × Nat × Nat) :=
  match lightFieldH H f aux dflt with
  | .error e => .error e
  | .ok hl => lightArraysH hl.1 f hl.2 F clim

theorem lightArraysH_err (H : AHeap) (f LF F : HFld) (clim : Rat × Rat) (e : Err)
    (hfa : filterArrH (H.alloc fun i => H.buf f.arr (i.take 2 ++ [0])).1 f LF = .error e) :
    lightArraysH H f LF F clim = .error e := by
  unfold lightArraysH
  rw [hfa]

/-- **The arrays of the final lightness stage = the value model**: lightness source and filter
fail together and in the same order; otherwise `rgb` is NaN exactly in the cells the value model
drops and `lightness` holds the value model's normalised lightness -/
theorem lightStageH_spec (h H : AHeap) (f F : HFld) (aux : Option HFld) (FA : Fld) (clim : Rat × Rat)
    (dflt : List Nat → Rat) (fr : Frame h H) (hf : f.On h) (rel : FilterRel H f F FA)
    (haux : ∀ g, aux = some g → g.On h ∧ ∀ i, (h.buf g.arr i).isSome) :
    match lightSrc (f.abs h) (aux.map (·.abs h)) ⟨f.mesh.n, dflt⟩ with
    | .error e => lightStageH H f aux F clim dflt = .error e
    | .ok l =>
      match filterKeep (f.abs h) FA with
      | .error e => lightStageH H f aux F clim dflt = .error e
      | .ok keep => ∃ hr, lightStageH H f aux F clim dflt = .ok hr ∧
          (∀ x y, (hr.1.buf hr.2.2 [x, y, 0]).isNone = !keep.get [x, y]) ∧
          ∀ x y, (hr.1.buf hr.2.1 [x, y]).getD 0 =
            normalise (ndaMin ⟨f.mesh.n, l.get⟩) (ndaMax ⟨f.mesh.n, l.get⟩) clim (l.get [x, y]) := by
  cases aux with
  | none =>
    have hls : lightSrc (f.abs h) ((none : Option HFld).map (·.abs h)) ⟨f.mesh.n, dflt⟩
        = .ok ⟨f.mesh.n, dflt⟩ := rfl
    rw [hls]
    simp only []
    have frD : Frame H (derivedH H f dflt).1 := frame_derivedH H f dflt
    have hfa : filterArrH ((derivedH H f dflt).1.alloc fun i => (derivedH H f dflt).1.buf f.arr (i.take 2 ++ [0])).1 f
        (derivedH H f dflt).2 = .ok (((derivedH H f dflt).1.alloc fun i => (derivedH H f dflt).1.buf f.arr (i.take 2 ++ [0])).1,
          (derivedH H f dflt).2.arr) := by
      unfold filterArrH
      rw [if_pos (show (derivedH H f dflt).2.mesh.n = f.mesh.n from rfl)]
    have hlen : (derivedH H f dflt).1.length = H.length + 2 := by
      unfold derivedH; simp only [alloc_len]
    have hsrc : ∀ i, ((derivedH H f dflt).1.alloc fun i => (derivedH H f dflt).1.buf f.arr (i.take 2 ++ [0])).1.buf
        (derivedH H f dflt).2.arr (i ++ [0]) = some (dflt i) := by
      intro i
      show AHeap.buf _ H.length (i ++ [0]) = _
      rw [buf_alloc_lt _ _ _ (by rw [hlen]; omega)]
      show ((H.alloc _).1.alloc _).1.buf H.length (i ++ [0]) = _
      rw [buf_alloc_lt _ _ _ (by rw [alloc_len]; omega), buf_alloc_new, List.dropLast_concat]
    have key := lightArraysH_of_src h (derivedH H f dflt).1 f (derivedH H f dflt).2 F FA clim dflt
      (fr.trans frD) hf (rel.frame frD) _ hfa (by
        show H.length < _
        rw [alloc_len, hlen]; omega) hsrc
    unfold lightStageH lightFieldH
    exact key
  | some g =>
    obtain ⟨hgon, hgnum⟩ := haux g rfl
    have hgH : g.On H := ⟨Nat.lt_of_lt_of_le hgon.1 fr.1, Nat.lt_of_lt_of_le hgon.2 fr.1⟩
    unfold lightSrc lightStageH lightFieldH
    simp only [Option.map_some]
    by_cases c1 : g.nvdim ≠ 1
    · rw [if_pos (show (g.abs h).nvdim ≠ 1 from c1), if_pos c1]
    · rw [if_neg (show ¬ (g.abs h).nvdim ≠ 1 from c1), if_neg c1]
      by_cases c2 : g.mesh.region.ndim ≠ 2
      · rw [if_pos (show (g.abs h).mesh.region.ndim ≠ 2 from c2), if_pos c2]
      · rw [if_neg (show ¬ (g.abs h).mesh.region.ndim ≠ 2 from c2), if_neg c2]
        have g1 : g.nvdim = 1 := not_not.mp c1
        simp only []
        have frV : Frame H (H.alloc fun i => H.buf f.arr (i.take 2 ++ [0])).1 := frame_alloc H _
        by_cases hn : g.mesh.n = f.mesh.n
        · rw [auxOnMesh_same (f.abs h) (g.abs h) hn]
          simp only []
          have hfa : filterArrH (H.alloc fun i => H.buf f.arr (i.take 2 ++ [0])).1 f g
              = .ok ((H.alloc fun i => H.buf f.arr (i.take 2 ++ [0])).1, g.arr) := by
            unfold filterArrH
            rw [if_pos hn]
          have hsrc : ∀ i, (H.alloc fun i => H.buf f.arr (i.take 2 ++ [0])).1.buf g.arr (i ++ [0])
              = some (((g.abs h).data.get i).getD 0 0) := by
            intro i
            rw [frV.2 _ hgH.1, fr.2 _ hgon.1]
            have hv : ((g.abs h).data.get i).getD 0 0 = (h.buf g.arr (i ++ [0])).getD 0 := by
              show (tab g.nvdim fun c => (h.buf g.arr (i ++ [c])).getD 0).getD 0 0 = _
              rw [getD_tab _ _ _ _ (by omega)]
            rw [hv]
            have := hgnum (i ++ [0])
            cases hb : h.buf g.arr (i ++ [0]) with
            | none => rw [hb] at this; cases this
            | some v => rfl
          exact lightArraysH_of_src h H f g F FA clim _ fr hf rel _ hfa
            (Nat.lt_of_lt_of_le hgH.1 frV.1) hsrc
        · have hax : auxOnMesh (f.abs (H.alloc fun i => H.buf f.arr (i.take 2 ++ [0])).1)
              (g.abs (H.alloc fun i => H.buf f.arr (i.take 2 ++ [0])).1) = auxOnMesh (f.abs h) (g.abs h) := by
            rw [abs_frame _ _ f (fr.trans frV) hf, abs_frame _ _ g (fr.trans frV) hgon]
          cases ha : auxOnMesh (f.abs h) (g.abs h) with
          | error e =>
            simp only []
            apply lightArraysH_err
            unfold filterArrH
            rw [if_neg hn, hax, ha]
          | ok a =>
            simp only []
            have hfa : filterArrH (H.alloc fun i => H.buf f.arr (i.take 2 ++ [0])).1 f g
                = .ok ((H.alloc fun i => H.buf f.arr (i.take 2 ++ [0])).1.alloc
                    fun i => some ((a.get i.dropLast).getD 0 0)) := by
              unfold filterArrH
              rw [if_neg hn, hax, ha]
            refine lightArraysH_of_src h H f g F FA clim (fun i => (a.get i).getD 0 0) fr hf rel _ hfa
              (by show _ < ((H.alloc _).1.alloc _).1.length; rw [alloc_len]; exact Nat.lt_succ_self _) ?_
            intro i
            show ((H.alloc _).1.alloc _).1.buf (H.alloc _).1.length (i ++ [0]) = _
            rw [buf_alloc_new, List.dropLast_concat]

/-- the filter in force on the heap stands in `FilterRel` to the filter of the value model -/
theorem filterFieldH_rel (h : AHeap) (f : HFld) (o : HOpts) (hf : f.On h)
    (hflt : ∀ g, o.filter = some g → g.On h) :
    FilterRel (filterFieldH h f o.filter).1 f (filterFieldH h f o.filter).2
      (filterOf (f.abs h) (o.abs h)) := by
  cases hfo : o.filter with
  | none =>
    have e : filterOf (f.abs h) (o.abs h) = validAsField (f.abs h) := by
      unfold filterOf HOpts.abs; rw [hfo]; rfl
    rw [e]
    have hlen : (validAsFieldH h f).1.length = h.length + 2 := by
      unfold validAsFieldH; simp only [alloc_len]
    refine ⟨⟨?_, ?_⟩, rfl, rfl, fun _ _ x y => ?_, fun hn => absurd rfl hn⟩
    · show h.length < (validAsFieldH h f).1.length; rw [hlen]; omega
    · show h.length + 1 < (validAsFieldH h f).1.length; rw [hlen]; omega
    · show ((validAsFieldH h f).1.buf (validAsFieldH h f).2.arr [x, y, 0]).getD 0 = _
      rw [validAsFieldH_arr]
      rfl
  | some g =>
    have e : filterOf (f.abs h) (o.abs h) = g.abs h := by
      unfold filterOf HOpts.abs; rw [hfo]; rfl
    rw [e]
    exact ⟨hflt g hfo, rfl, rfl, fun _ h1 x y => (abs_data_one h g h1 x y).symm, fun _ => rfl⟩

theorem lightCoreH_stage (h : AHeap) (f : HFld) (o : HOpts) (clim : Option (Rat × Rat))
    (hue : List Nat → Hue) (dflt : List Nat → Rat) :
    (lightCoreH h f o clim hue dflt).2 =
      match setupMultiplier (f.abs h) o.mult with
      | .error e => .error e
      | .ok m =>
        match extent f.mesh.region m with
        | .error e => .error e
        | .ok ext =>
          match lightStageH (filterFieldH h f o.filter).1 f o.aux (filterFieldH h f o.filter).2
              (clim.getD (0, 1)) dflt with
          | .error e => .error e
          | .ok hr =>
            match axisLabels f.mesh.region m with
            | .error e => .error e
            | .ok lab =>
              .ok [.imshowHL
                ((⟨f.mesh.n, fun i =>
                    if (hr.1.buf hr.2.2 (i ++ [0])).isNone then none
                    else some (hue i, (hr.1.buf hr.2.1 i).getD 0)⟩ : NDA (Option (Hue × Rat))).transpose [1, 0])
                "lower" ext, lab] := by
  unfold lightCoreH lightStageH
  cases setupMultiplier (f.abs h) o.mult with
  | error e => rfl
  | ok m =>
    simp only []
    cases extent f.mesh.region m with
    | error e => rfl
    | ok ext =>
      simp only []
      cases lightFieldH (filterFieldH h f o.filter).1 f o.aux dflt with
      | error e => rfl
      | ok hl =>
        simp only []
        cases lightArraysH hl.1 f hl.2 (filterFieldH h f o.filter).2 (clim.getD (0, 1)) with
        | error e => rfl
        | ok hr =>
          simp only []
          cases axisLabels f.mesh.region m with
          | error e => rfl
          | ok lab => rfl

/-- **The final lightness stage on the heap refines the value model** -/
theorem lightCoreH_refines (h : AHeap) (f : HFld) (o : HOpts) (clim : Option (Rat × Rat))
    (hue : List Nat → Hue) (dflt : List Nat → Rat) (hinv : f.mesh.Inv) (h2 : f.mesh.region.ndim = 2)
    (hf : f.On h) (hflt : ∀ g, o.filter = some g → g.On h)
    (haux : ∀ g, o.aux = some g → g.On h ∧ ∀ i, (h.buf g.arr i).isSome) :
    (lightCoreH h f o clim hue dflt).2 =
      lightCore (f.abs h) { o.abs h with clim := clim } hue ⟨f.mesh.n, dflt⟩
        (filterOf (f.abs h) (o.abs h)) := by
  have hn : f.mesh.n.length = 2 := by rw [hinv.2.1, h2]
  rw [lightCoreH_stage]
  unfold lightCore
  simp only [abs_mesh]
  show _ = match setupMultiplier (f.abs h) o.mult with
    | .error e => Except.error e
    | .ok m => _
  cases setupMultiplier (f.abs h) o.mult with
  | error e => rfl
  | ok m =>
    simp only []
    cases extent f.mesh.region m with
    | error e => rfl
    | ok ext =>
      simp only []
      have spec := lightStageH_spec h (filterFieldH h f o.filter).1 f (filterFieldH h f o.filter).2 o.aux
        (filterOf (f.abs h) (o.abs h)) (clim.getD (0, 1)) dflt (frame_filterFieldH h f o.filter) hf
        (filterFieldH_rel h f o hf hflt) haux
      show _ = match lightSrc (f.abs h) (o.aux.map (·.abs h)) ⟨f.mesh.n, dflt⟩ with
        | .error e => Except.error e
        | .ok l => _
      cases hl : lightSrc (f.abs h) (o.aux.map (·.abs h)) ⟨f.mesh.n, dflt⟩ with
      | error e =>
        rw [hl] at spec
        simp only [] at spec
        rw [spec]
      | ok l =>
        rw [hl] at spec
        simp only [] at spec ⊢
        cases hk : filterKeep (f.abs h) (filterOf (f.abs h) (o.abs h)) with
        | error e =>
          rw [hk] at spec
          simp only [] at spec
          rw [spec]
        | ok keep =>
          rw [hk] at spec
          obtain ⟨hr, hst, hR, hL⟩ := spec
          rw [hst]
          simp only []
          cases axisLabels f.mesh.region m with
          | error e => rfl
          | ok lab =>
            simp only []
            congr 3
            refine imgOfBuf_eq f.mesh.n hn _ keep _ (fun x y => ?_)
            show (if (hr.1.buf hr.2.2 [x, y, 0]).isNone = true then none
              else some (hue [x, y], (hr.1.buf hr.2.1 [x, y]).getD 0)) = _
            rw [hR x y, hL x y]
            cases keep.get [x, y] <;> rfl


/-- handing a derived default lightness field on as `lightness_field` is the same as using its
values as the default lightness -/
theorem lightCore_default_field (fA : Fld) (oo : Opts) (hue : List Nat → Hue) (D : Fld) (flt : Fld)
    (d0 : NDA Rat) (hD1 : D.nvdim = 1) (hD2 : D.mesh = fA.mesh) (h2 : fA.mesh.region.ndim = 2) :
    lightCore fA { oo with aux := some (oo.aux.getD D) } hue d0 flt =
      lightCore fA oo hue ⟨fA.mesh.n, fun i => (D.data.get i).getD 0 0⟩ flt := by
  obtain ⟨mult, filter, aux, vd, uc, cl, pk⟩ := oo
  cases aux with
  | some g =>
    unfold lightCore
    simp only [Option.getD_some, lightSrc]
  | none =>
    unfold lightCore
    simp only [Option.getD_none, lightSrc, hD1, ne_eq, not_true_eq_false, if_false, hD2, h2,
      auxOnMesh_same fA D (by rw [hD2])]

theorem lightnessH_refines (sqrtF : Rat → Rat) (h : AHeap) (f : HFld) (o : HOpts) (clim : Option (Rat × Rat))
    (hinv : f.mesh.Inv) (hf : f.On h) (hflt : ∀ g, o.filter = some g → g.On h)
    (haux : ∀ g, o.aux = some g → g.On h ∧ ∀ i, (h.buf g.arr i).isSome) :
    (lightnessH sqrtF h f o clim).2 = mplLightness sqrtF (f.abs h) { o.abs h with clim := clim } := by
  unfold lightnessH mplLightness
  by_cases h2 : f.mesh.region.ndim ≠ 2
  · rw [if_pos h2, if_pos (show (f.abs h).mesh.region.ndim ≠ 2 from h2)]
  · rw [if_neg h2, if_neg (show ¬ (f.abs h).mesh.region.ndim ≠ 2 from h2)]
    have h2' : f.mesh.region.ndim = 2 := not_not.mp h2
    have hfo : filterOf (f.abs h) { o.abs h with clim := clim } = filterOf (f.abs h) (o.abs h) := rfl
    simp only [abs_nvdim, hfo]
    by_cases hn2 : f.nvdim = 2
    · rw [if_pos hn2, if_pos hn2]
      cases angleComps (f.abs h) with
      | error e => rfl
      | ok xy =>
        simp only []
        rw [lightCoreH_refines h f o clim _ _ hinv h2' hf hflt haux]
        exact (lightCore_default_field (f.abs h) { o.abs h with clim := clim } _
          { validAsField (f.abs h) with data := ⟨f.mesh.n, fun i => [sqrtF (normSq ((f.abs h).data.get i))]⟩ }
          _ _ rfl rfl h2').symm
    · rw [if_neg hn2, if_neg hn2]
      by_cases hn3 : f.nvdim = 3
      · rw [if_pos hn3, if_pos hn3]
        have eaux : (o.abs h).aux = o.aux.map (·.abs h) := rfl
        simp only [eaux, show (f.abs h).vmap = f.vmap from rfl, show (o.abs h).pick = o.pick from rfl]
        cases ha : o.aux with
        | some g =>
          simp only [Option.map_some]
          cases angleComps (f.abs h) with
          | error e => rfl
          | ok xy =>
            simp only []
            rw [lightCoreH_refines h f o clim _ _ hinv h2' hf hflt haux]
            have e2 : (o.abs h).aux = some (g.abs h) := by rw [eaux, ha]; rfl
            unfold lightCore
            simp only [e2, lightSrc]
        | none =>
          simp only [Option.map_none]
          by_cases hm : f.vmap.isEmpty = true
          · rw [if_pos hm, if_pos hm]
          · rw [if_neg hm, if_neg hm]
            cases thirdComp (f.abs h) (inplaneVdims (f.abs h)) o.pick with
            | error e => rfl
            | ok c =>
              simp only []
              cases angleComps (f.abs h) with
              | error e => rfl
              | ok xy =>
                simp only []
                rw [lightCoreH_refines h f o clim _ _ hinv h2' hf hflt haux]
                have e2 : (o.abs h).aux = none := by rw [eaux, ha]; rfl
                have := lightCore_default_field (f.abs h) { o.abs h with clim := clim }
                  (fun i => .angle (((f.abs h).data.get i).getD xy.2 0) (((f.abs h).data.get i).getD xy.1 0))
                  (compField (f.abs h) c) (filterOf (f.abs h) (o.abs h)) ⟨f.mesh.n, fun _ => 0⟩ rfl rfl h2'
                exact this.symm.trans (by simp only [e2, Option.getD_none]; rfl)
      · rw [if_neg hn3, if_neg hn3]
        by_cases hn4 : f.nvdim > 3
        · rw [if_pos hn4, if_pos hn4]
        · rw [if_neg hn4, if_neg hn4]
          exact lightCoreH_refines h f o clim _ _ hinv h2' hf hflt haux
end DFV.C20
