import Mathlib.Data.Nat.Log
import Mathlib.Data.Nat.Sqrt
import Mathlib.Tactic.Positivity
import Mathlib.Data.Rat.Lemmas
import DFV.Lemmas.C15Fl64
/-!
The executable correctly rounded root `sqrt64` (what the driver runs in the bit-exact
comparison with `np.sqrt`): its square is within `2u + 3u²` (`u = 2^-53`) of the radicand,
for every positive rational — a purely rational statement of "relative error at most `u`".
-/
namespace DFV.C15
open DFV

/-- rounding of the integer part of a root to 53 bits: the result `n` is within half a unit
`H` of the root, in the form `n - H ≤ s` and `s + 1 ≤ n + H` (or the root is exactly
`s = n + H`), and the unit is small: `2^53·H ≤ s` -/
theorem sqrt64Round_spec (s : Nat) (exact : Bool) (hs : 2 ^ 53 ≤ s) :
    ∃ H : Nat, 0 < H ∧ H ≤ sqrt64Round s exact ∧ sqrt64Round s exact ≤ s + H ∧
      (s + 1 ≤ sqrt64Round s exact + H ∨ (exact = true ∧ sqrt64Round s exact + H = s)) ∧
      2 ^ 53 * H ≤ s := by
  have hs0 : s ≠ 0 := by
    intro e; rw [e] at hs; exact absurd hs (by norm_num)
  have hL : 53 ≤ Nat.log2 s := (Nat.le_log2 hs0).mpr hs
  have hpow : 2 ^ Nat.log2 s ≤ s := Nat.log2_self_le hs0
  refine ⟨2 ^ (Nat.log2 s - 53), Nat.pos_of_ne_zero (by positivity), ?_⟩
  have hU : 2 ^ (Nat.log2 s + 1 - 53) = 2 * 2 ^ (Nat.log2 s - 53) := by
    have : Nat.log2 s + 1 - 53 = (Nat.log2 s - 53) + 1 := by omega
    rw [this, pow_succ]; ring
  have hsplit : 2 ^ Nat.log2 s = 2 ^ 53 * 2 ^ (Nat.log2 s - 53) := by
    rw [← pow_add]; congr 1; omega
  have hHs : 2 ^ 53 * 2 ^ (Nat.log2 s - 53) ≤ s := by rw [← hsplit]; exact hpow
  generalize 2 ^ (Nat.log2 s - 53) = H at *
  have hHpos : 0 < H := by
    rcases Nat.eq_zero_or_pos H with h | h
    · subst h
      rw [Nat.mul_zero] at hsplit
      exact absurd hsplit (by positivity)
    · exact h
  have hrem : s % (2 * H) < 2 * H := Nat.mod_lt _ (by omega)
  have hreml : s % (2 * H) ≤ s := Nat.mod_le _ _
  have hbig : 2 * H ≤ s := by
    have : 2 * H ≤ 2 ^ 53 * H := Nat.mul_le_mul_right H (by norm_num)
    omega
  unfold sqrt64Round
  rw [hU]
  generalize s % (2 * H) = rem at *
  generalize s / (2 * H) % 2 = par
  refine ⟨?_, ?_, ?_, hHs⟩
  · split
    · omega
    · split
      · omega
      · split <;> omega
  · split
    · omega
    · split
      · omega
      · split <;> omega
  · split
    · left; omega
    · split
      · left; omega
      · rename_i h1 h2
        split
        · rename_i h3
          right
          simp only [Bool.and_eq_true, decide_eq_true_eq] at h3
          exact ⟨h3.1, by omega⟩
        · left; omega

theorem scale_lower (x : Rat) (hx : 0 < x) : (2 : Rat) ^ 109 ≤ x * (4 : Rat) ^ sqrt64Scale x := by
  have hnum : (1 : Rat) ≤ (x.num : Rat) := by
    have : 0 < x.num := Rat.num_pos.mpr hx
    exact_mod_cast this
  have hden : (0 : Rat) < (x.den : Rat) := by exact_mod_cast x.den_pos
  have hdlt : (x.den : Rat) < (2 : Rat) ^ (Nat.log2 x.den + 1) := by
    exact_mod_cast (Nat.lt_log2_self (n := x.den))
  have hxeq : x = (x.num : Rat) / (x.den : Rat) := (Rat.num_div_den x).symm
  have h4 : (4 : Rat) ^ sqrt64Scale x = (2 : Rat) ^ 109 * (2 : Rat) ^ (Nat.log2 x.den + 1) * 2 ^ Nat.log2 x.den := by
    unfold sqrt64Scale
    have : (4 : Rat) = 2 ^ 2 := by norm_num
    rw [this, ← pow_mul, ← pow_add, ← pow_add]
    congr 1; omega
  rw [h4]
  have hp : (1 : Rat) ≤ (2 : Rat) ^ Nat.log2 x.den := one_le_pow₀ (by norm_num)
  have hx1 : 1 / (x.den : Rat) ≤ x := by
    rw [hxeq, Rat.num_div_den]
    rw [div_le_iff₀ hden]
    calc (1 : Rat) ≤ (x.num : Rat) := hnum
      _ = x * x.den := by rw [mul_comm]; exact (Rat.den_mul_eq_num x).symm ▸ rfl
  have hA : (1 : Rat) ≤ x * (2 : Rat) ^ (Nat.log2 x.den + 1) := by
    have : 1 / (x.den : Rat) * (x.den : Rat) = 1 := by field_simp
    have h1 : 1 / (x.den : Rat) * (x.den : Rat) ≤ x * (2 : Rat) ^ (Nat.log2 x.den + 1) :=
      mul_le_mul hx1 hdlt.le hden.le hx.le
    linarith
  have h109 : (0 : Rat) < (2 : Rat) ^ 109 := by positivity
  calc (2 : Rat) ^ 109 = 2 ^ 109 * 1 * 1 := by ring
    _ ≤ 2 ^ 109 * (x * 2 ^ (Nat.log2 x.den + 1)) * 2 ^ Nat.log2 x.den := by
        apply mul_le_mul _ hp (by norm_num) (by positivity)
        exact mul_le_mul_of_nonneg_left hA h109.le
    _ = x * (2 ^ 109 * 2 ^ (Nat.log2 x.den + 1) * 2 ^ Nat.log2 x.den) := by ring

/-- integer part: `s² ≤ y < (s+1)²` for `s = Nat.sqrt ⌊y⌋`, and `s ≥ 2^54` when `y ≥ 2^109` -/
theorem sqrtInt_bounds (y : Rat) (hy : (2 : Rat) ^ 109 ≤ y) :
    ((Nat.sqrt y.floor.toNat : Nat) : Rat) * (Nat.sqrt y.floor.toNat : Nat) ≤ y ∧
    y < (((Nat.sqrt y.floor.toNat : Nat) : Rat) + 1) * (((Nat.sqrt y.floor.toNat : Nat) : Rat) + 1) ∧
    2 ^ 54 ≤ Nat.sqrt y.floor.toNat := by
  have hy0 : 0 ≤ y := le_trans (by positivity) hy
  have hf0 : 0 ≤ y.floor := rat_floor_nonneg y hy0
  have hN : ((y.floor.toNat : Nat) : Rat) = (y.floor : Rat) := by
    have : ((y.floor.toNat : Nat) : Int) = y.floor := Int.toNat_of_nonneg hf0
    exact_mod_cast congrArg (fun z : Int => (z : Rat)) this
  have h1 := rat_floor_le y
  have h2 := rat_lt_floor_add_one y
  set N := y.floor.toNat with hNdef
  have hs1 : Nat.sqrt N * Nat.sqrt N ≤ N := by have := Nat.sqrt_le' N; rwa [pow_two] at this
  have hs2 : N < (Nat.sqrt N + 1) * (Nat.sqrt N + 1) := by
    have := Nat.lt_succ_sqrt' N; rwa [pow_two] at this
  refine ⟨?_, ?_, ?_⟩
  · have : ((Nat.sqrt N * Nat.sqrt N : Nat) : Rat) ≤ (N : Rat) := by exact_mod_cast hs1
    push_cast at this
    linarith
  · have : ((N : Nat) : Rat) + 1 ≤ (((Nat.sqrt N + 1) * (Nat.sqrt N + 1) : Nat) : Rat) := by
      exact_mod_cast hs2
    push_cast at this
    linarith
  · apply Nat.le_sqrt.mpr
    have : ((2 ^ 109 : Nat) : Int) ≤ y.floor := by
      apply rat_le_floor
      push_cast; exact hy
    have : (2 ^ 109 : Nat) ≤ N := by omega
    calc 2 ^ 54 * 2 ^ 54 ≤ 2 ^ 109 := by norm_num
      _ ≤ N := this

/-- **the root's core contract**, rationally: with `r = sqrt64 x` there are a half-unit `h` and
a lower bound `b` of the root with `h = 2^-53·b`, `b² ≤ x` and `(r − h)² ≤ x ≤ (r + h)²` -/
theorem sqrt64_core (x : Rat) (hx : 0 < x) :
    ∃ h b : Rat, 0 ≤ h ∧ h ≤ sqrt64 x ∧ h = 1 / 9007199254740992 * b ∧ 0 ≤ b ∧ b * b ≤ x ∧
      (sqrt64 x - h) * (sqrt64 x - h) ≤ x ∧ x ≤ (sqrt64 x + h) * (sqrt64 x + h) := by
  have hy := scale_lower x hx
  obtain ⟨hs1, hs2, hs3⟩ := sqrtInt_bounds _ hy
  unfold sqrt64
  rw [if_neg (not_le.mpr hx)]
  have hsI : sqrt64Int x = Nat.sqrt (x * (4 : Rat) ^ sqrt64Scale x).floor.toNat := rfl
  rw [← hsI] at hs1 hs2 hs3
  set s := sqrt64Int x with hsdef
  set k := sqrt64Scale x with hkdef
  set ex := decide (((s * s : Nat) : Rat) = x * (4 : Rat) ^ k) with hexdef
  obtain ⟨H, hH0, hHn, hnH, hup, hHs⟩ := sqrt64Round_spec s ex (le_trans (by norm_num) hs3)
  set n := sqrt64Round s ex with hndef
  have hP : (0 : Rat) < (2 : Rat) ^ k := by positivity
  have h4 : (4 : Rat) ^ k = (2 : Rat) ^ k * (2 : Rat) ^ k := by
    rw [← mul_pow]; norm_num
  have hxy : x = x * (4 : Rat) ^ k / ((2 : Rat) ^ k * (2 : Rat) ^ k) := by
    rw [h4]; field_simp
  refine ⟨(H : Rat) / 2 ^ k, (2 ^ 53 * H : Nat) / 2 ^ k, by positivity, ?_, ?_, by positivity, ?_, ?_, ?_⟩
  · exact div_le_div_of_nonneg_right (by exact_mod_cast hHn) hP.le
  · push_cast; field_simp
  · -- b² ≤ x
    have hbs : ((2 ^ 53 * H : Nat) : Rat) ≤ (s : Rat) := by exact_mod_cast hHs
    have hb0 : (0 : Rat) ≤ ((2 ^ 53 * H : Nat) : Rat) := by positivity
    have : ((2 ^ 53 * H : Nat) : Rat) * ((2 ^ 53 * H : Nat) : Rat) ≤ x * (4 : Rat) ^ k :=
      le_trans (mul_le_mul hbs hbs hb0 (by positivity)) hs1
    rw [div_mul_div_comm]
    conv_rhs => rw [hxy]
    exact div_le_div_of_nonneg_right this (by positivity)
  · -- (r - h)² ≤ x
    have e : (n : Rat) / 2 ^ k - (H : Rat) / 2 ^ k = ((n : Rat) - H) / 2 ^ k := by ring
    rw [e, div_mul_div_comm]
    conv_rhs => rw [hxy]
    apply div_le_div_of_nonneg_right _ (by positivity)
    have h1 : (0 : Rat) ≤ (n : Rat) - H := by
      have : (H : Rat) ≤ (n : Rat) := by exact_mod_cast hHn
      linarith
    have h2 : (n : Rat) - H ≤ (s : Rat) := by
      have : (n : Rat) ≤ (s : Rat) + H := by exact_mod_cast hnH
      linarith
    exact le_trans (mul_le_mul h2 h2 h1 (by positivity)) hs1
  · -- x ≤ (r + h)²
    have e : (n : Rat) / 2 ^ k + (H : Rat) / 2 ^ k = ((n : Rat) + H) / 2 ^ k := by ring
    rw [e, div_mul_div_comm]
    conv_lhs => rw [hxy]
    apply div_le_div_of_nonneg_right _ (by positivity)
    rcases hup with hup | ⟨hex, hup⟩
    · have h1 : (s : Rat) + 1 ≤ (n : Rat) + H := by exact_mod_cast hup
      have h0 : (0 : Rat) ≤ (s : Rat) + 1 := by positivity
      exact le_trans hs2.le (mul_le_mul h1 h1 h0 (by positivity))
    · have h1 : (n : Rat) + H = (s : Rat) := by exact_mod_cast hup
      have h2 : ((s * s : Nat) : Rat) = x * (4 : Rat) ^ k := by
        rw [hexdef] at hex; exact of_decide_eq_true hex
      rw [h1, ← h2]; push_cast; exact le_rfl

/-- **`sqrt64` has relative error at most `u = 2^-53`**, stated on squares: `r ≥ 0` and
`|r² − x| ≤ (2u + 3u²)·x` -/
theorem sqrt64_sq_err (x : Rat) (hx : 0 < x) :
    0 ≤ sqrt64 x ∧
    |sqrt64 x * sqrt64 x - x| ≤
      (2 * (1 / 9007199254740992) + 3 * (1 / 9007199254740992 * (1 / 9007199254740992))) * x := by
  obtain ⟨h, b, hh0, hhr, hhb, hb0, hbb, hlo, hup⟩ := sqrt64_core x hx
  set r := sqrt64 x with hr
  set u : Rat := 1 / 9007199254740992 with hu
  have hu0 : 0 ≤ u := by rw [hu]; norm_num
  have ha0 : 0 ≤ r - h := by linarith
  have hh2 : h * h ≤ u * u * x := by
    rw [hhb]
    have := mul_le_mul_of_nonneg_left hbb (mul_nonneg hu0 hu0)
    nlinarith
  have hha : h * (r - h) ≤ u * x := by
    have h1 : (h * (r - h)) * (h * (r - h)) ≤ (u * x) * (u * x) := by
      have : (h * h) * ((r - h) * (r - h)) ≤ (u * u * x) * x :=
        mul_le_mul hh2 hlo (mul_self_nonneg _) (by positivity)
      nlinarith
    exact (mul_self_le_mul_self_iff (mul_nonneg hh0 ha0) (by positivity)).mpr h1
  refine ⟨by linarith, ?_⟩
  rw [abs_le]
  constructor <;> nlinarith

theorem sqrt64_nonpos (x : Rat) (hx : x ≤ 0) : sqrt64 x = 0 := by
  unfold sqrt64; rw [if_pos hx]

end DFV.C15
