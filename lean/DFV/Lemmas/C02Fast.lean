import DFV.Lemmas.C02Src
/-! C02 helper lemmas, part 21: the closed-formula conversion of a source field (`asLeafFieldFast`)
equals the code-shaped one (`asLeaf`, nearest-centre scan) — a verified optimisation of the driver. -/
namespace DFV.C02
open DFV DFV.Mesh

variable {V : Type} [Inhabited V]

theorem region_inv_of_invB (r : Region) (h : r.invB = true) : r.Inv := by
  unfold Region.invB at h
  simp only [Bool.and_eq_true, decide_eq_true_eq, Bool.not_eq_true'] at h
  obtain ⟨⟨⟨⟨⟨h1, h2⟩, h3⟩, h4⟩, h5⟩, h6⟩ := h
  refine ⟨h1, h2, h3, h4, h5, ?_⟩
  intro a ha
  have := (allLt_iff _ _).mp h6 a ha
  simpa using this

theorem mesh_inv_of_invB (m : Mesh) (h : m.invB = true) : m.Inv := by
  unfold Mesh.invB at h
  simp only [Bool.and_eq_true, decide_eq_true_eq] at h
  obtain ⟨⟨h1, h2⟩, h3⟩ := h
  refine ⟨region_inv_of_invB _ h1, h2, ?_⟩
  intro a ha
  have := (allLt_iff _ _).mp h3 a ha
  simpa using this

omit [Inhabited V] in
theorem fieldFastOk_spec (src : VF V) (m : Mesh) (h : fieldFastOk src m = true) :
    m.Inv ∧ src.mesh.Inv ∧ src.mesh.ndim = m.ndim ∧
    ∀ a, a < m.ndim → src.mesh.region.lo a ≤ m.region.lo a ∧ m.region.hi a ≤ src.mesh.region.hi a := by
  unfold fieldFastOk at h
  simp only [Bool.and_eq_true, decide_eq_true_eq] at h
  obtain ⟨⟨⟨h1, h2⟩, h3⟩, h4⟩ := h
  refine ⟨mesh_inv_of_invB m h1, mesh_inv_of_invB _ h2, h3, fun a ha => ?_⟩
  have := (allLt_iff _ _).mp h4 a ha
  simpa using this

/-- same acceptance, same error, same shape, same entries -/
theorem asLeafFieldFast_eq (isZero : V → Bool) (src : VF V) (m : Mesh) (nv : Nat) (h : fieldFastOk src m = true) :
    (∀ e, asLeaf isZero (.field src) m nv = .error e ↔ asLeafFieldFast src m nv = .error e) ∧
    (∀ a, asLeaf isZero (.field src) m nv = .ok a →
      ∃ b, asLeafFieldFast src m nv = .ok b ∧ b.shape = a.shape ∧
        ∀ j, inRange (m.n ++ [nv]) j = true → b.get j = a.get j) := by
  obtain ⟨hm, hs, hnd, hin⟩ := fieldFastOk_spec src m h
  unfold asLeafFieldFast
  simp only [asLeaf]
  by_cases h1 : (!src.mesh.region.containsReg m.region) = true
  · simp [h1]
  · by_cases h2 : src.nvdim ≠ nv
    · simp [h1, h2]
    · by_cases h3 : m.region.dims ≠ src.mesh.region.dims
      · simp [h1, h2, h3]
      · simp only [h1, h2, h3, if_false, Bool.false_eq_true]
        refine ⟨fun e => by simp, fun a ha => ?_⟩
        injection ha with ha; subst ha
        refine ⟨_, rfl, rfl, fun j hj => ?_⟩
        have hnv : src.nvdim = nv := by simpa using h2
        -- split the index into cell and component
        have hl := inRange_length _ _ hj
        have hne : j ≠ [] := by intro e; rw [e] at hl; simp at hl
        obtain ⟨i, c, rfl⟩ : ∃ i c, j = i ++ [c] := ⟨_, _, (List.dropLast_append_getLast hne).symm⟩
        rw [inRange_snoc] at hj
        simp only [Bool.and_eq_true, decide_eq_true_eq] at hj
        simp only [List.dropLast_concat]
        rw [nearestIdx_eq_indexAx src.mesh m hm hs hnd hin i hj.1]

end DFV.C02
