import Mathlib.RingTheory.RootsOfUnity.Complex
import DFV.Lemmas.C11Arr
/-!
C11: the hypotheses of the value theorems are satisfiable — `exp(-2πi/n) ∈ ℂ` is a root in
the sense of `IsRoot` for every `n ≥ 1`, and complex conjugation satisfies `IsConj`/`ConjRoots`.
-/
namespace DFV.C11
open DFV Complex

theorem sumN_eq_finset {R : Type} [CommRing R] (n : Nat) (f : Nat → R) :
    sumN n f = ∑ i ∈ Finset.range n, f i := by
  induction n with
  | zero => simp [sumN]
  | succ n ih => rw [Finset.sum_range_succ, ← ih]; rfl

/-- the root structure of `exp(-2πi/n)` in ℂ -/
noncomputable def cRoot (n : Nat) : Root ℂ :=
  ⟨cexp (-(2 * Real.pi * I / n)), cexp (2 * Real.pi * I / n), 1 / (n : ℂ)⟩

/-- `exp(-2πi/n)` satisfies every hypothesis of the value theorems, for every `n ≥ 1` -/
theorem cRoot_isRoot (n : Nat) (hn : 0 < n) : IsRoot n (cRoot n) := by
  have hn0 : (n : ℂ) ≠ 0 := by exact_mod_cast (Nat.pos_iff_ne_zero.mp hn)
  have hprim := Complex.isPrimitiveRoot_exp n (Nat.pos_iff_ne_zero.mp hn)
  have hinv : cexp (-(2 * Real.pi * I / n)) = (cexp (2 * Real.pi * I / n))⁻¹ := by rw [Complex.exp_neg]
  have hprim' : IsPrimitiveRoot (cexp (-(2 * Real.pi * I / n))) n := by rw [hinv]; exact hprim.inv
  refine ⟨?_, ?_, ?_, ?_⟩
  · exact hprim'.pow_eq_one
  · show cexp (-(2 * Real.pi * I / n)) * cexp (2 * Real.pi * I / n) = 1
    rw [← Complex.exp_add]; simp
  · show 1 / (n : ℂ) * (n : ℂ) = 1
    field_simp
  · intro k hk hkn
    show sumN n (fun j => cexp (-(2 * Real.pi * I / n)) ^ (j * k)) = 0
    rw [sumN_eq_finset]
    generalize cexp (-(2 * Real.pi * I / n)) = w at hprim' ⊢
    have hne : w ^ k ≠ 1 := by
      intro h
      have := hprim'.dvd_of_pow_eq_one k h
      exact absurd (Nat.le_of_dvd hk this) (by omega)
    have hgeom : (∑ i ∈ Finset.range n, (w ^ k) ^ i) * (w ^ k - 1) = (w ^ k) ^ n - 1 := geom_sum_mul _ _
    have hz : (w ^ k) ^ n = 1 := by
      rw [← pow_mul, Nat.mul_comm, pow_mul, hprim'.pow_eq_one, one_pow]
    rw [hz, sub_self] at hgeom
    have hsum : ∑ i ∈ Finset.range n, (w ^ k) ^ i = 0 := by
      rcases mul_eq_zero.mp hgeom with h | h
      · exact h
      · exact absurd (sub_eq_zero.mp h) hne
    rw [← hsum]
    apply Finset.sum_congr rfl
    intro i _
    rw [← pow_mul, Nat.mul_comm]

theorem cRoots (ns : List Nat) (h : ∀ n ∈ ns, 0 < n) : Roots ns (ns.map cRoot) := by
  induction ns with
  | nil => trivial
  | cons n ns ih =>
    refine ⟨?_, ?_⟩
    · simp only [List.map_cons, List.headD_cons]; exact cRoot_isRoot n (h n (by simp))
    · simp only [List.map_cons, List.tail_cons]; exact ih (fun k hk => h k (by simp [hk]))

/-- complex conjugation is a ring endomorphism that inverts `exp(-2πi/n)` -/
theorem conj_isConj : IsConj (starRingEnd ℂ) :=
  ⟨map_zero _, map_one _, map_add _, map_mul _⟩

theorem cConjRoots (ns : List Nat) : ConjRoots (starRingEnd ℂ) ns (ns.map cRoot) := by
  induction ns with
  | nil => trivial
  | cons n ns ih =>
    refine ⟨?_, ih⟩
    simp only [List.map_cons, List.headD_cons, cRoot]
    rw [← Complex.exp_conj]
    congr 1
    simp only [map_neg, map_div₀, map_mul, Complex.conj_ofReal, Complex.conj_I, map_ofNat, map_natCast]
    ring

end DFV.C11
