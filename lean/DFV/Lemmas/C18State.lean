import DFV.Lemmas.C18Mat
/-! State-machine lemmas for C18 (`rotate` / `clear_rotation` histories). -/
namespace DFV.C18
open DFV

theorem prodL_append (Qs : List M3) (Q : M3) : prodL (Qs ++ [Q]) = Q.mul (prodL Qs) := by
  induction Qs with
  | nil => simp [prodL, M3.one_mul, M3.mul_one]
  | cons A As ih => simp only [List.cons_append, prodL, ih, M3.mul_assoc]

theorem run_append (s : Rotator) (a b : List Op) : run s (a ++ b) = run (run s a) b := by
  induction a generalizing s with
  | nil => rfl
  | cons op ops ih => simp only [List.cons_append, run]; exact ih _

theorem step_orig (s : Rotator) (op : Op) : (step s op).1.orig = s.orig := by
  cases op with
  | rotate Q n =>
    cases h : rotateOnce s.orig (Q.mul s.rot) n <;> simp only [step, h]
  | clear => rfl
  | unknown => rfl

theorem step_rotate_rot (s : Rotator) (Q : M3) (n : Option (List Nat)) : (step s (.rotate Q n)).1.rot = Q.mul s.rot := by
  cases h : rotateOnce s.orig (Q.mul s.rot) n <;> simp only [step, h]

theorem step_rotate_ok (s : Rotator) (Q : M3) (n : Option (List Nat)) (g : Fld)
    (h : rotateOnce s.orig (Q.mul s.rot) n = .ok g) :
    step s (.rotate Q n) = ({ s with rot := Q.mul s.rot, cur := g }, none) := by
  simp only [step, h]

theorem step_rotate_err (s : Rotator) (Q : M3) (n : Option (List Nat)) (e : Err)
    (h : rotateOnce s.orig (Q.mul s.rot) n = .error e) :
    step s (.rotate Q n) = ({ s with rot := Q.mul s.rot }, some e) := by
  simp only [step, h]

theorem run_orig (s : Rotator) (ops : List Op) : (run s ops).orig = s.orig := by
  induction ops generalizing s with
  | nil => rfl
  | cons op ops ih => simp only [run]; rw [ih, step_orig]

/-- the accumulated rotation after a history is the ordered product of the rotations issued
since the last clear -/
theorem run_rot (s : Rotator) (cur : List M3) (hs : s.rot = prodL cur) (ops : List Op) :
    (run s ops).rot = prodL (seg cur ops) := by
  induction ops generalizing s cur with
  | nil => exact hs
  | cons op ops ih =>
    cases op with
    | rotate Q n =>
      simp only [run, seg]
      apply ih
      rw [step_rotate_rot, prodL_append, hs]
    | clear =>
      simp only [run, seg]
      apply ih
      rfl
    | unknown =>
      simp only [run, seg]
      exact ih _ _ hs

theorem init?_ok_inv (f : Fld) (s : Rotator) (h : init? f = .ok s) : s = ⟨f, M3.one, f⟩ := by
  unfold init? at h
  split at h
  · cases h
  · split at h
    · cases h
    · split at h
      · cases h
      · injection h with h; exact h.symm

/-- a call with an unknown method name -/
def Op.isUnknown : Op → Bool
  | .unknown => true
  | _ => false

/-- refused method names leave no trace: the history without them reaches the same state -/
theorem run_skip_unknown (s : Rotator) (ops : List Op) : run s (ops.filter fun o => !o.isUnknown) = run s ops := by
  induction ops generalizing s with
  | nil => rfl
  | cons op ops ih =>
    cases op with
    | rotate Q n => simp only [List.filter, Op.isUnknown, Bool.not_false, run]; exact ih _
    | clear => simp only [List.filter, Op.isUnknown, Bool.not_false, run]; exact ih _
    | unknown => simp only [List.filter, Op.isUnknown, Bool.not_true, run, step]; exact ih _

end DFV.C18
