import DFV.Lemmas.C19BL
import DFV.Lemmas.C19Diff
/-! helper lemmas for C19: closed forms of the densities / emergent field and their behaviour
under the transformations of the inputs -/
namespace DFV.C19
open DFV

/-! ## continuous density in closed form -/

/-- SPEC: `1/(4π) · n·(∂₁n × ∂₂n)` at cell `i`, `n` the orientation field -/
def tcdCSpec (sq : Rat → Rat) (pi : Rat) (f : Fld) (i : List Nat) : Rat :=
  1 / (4 * pi) * V3.dot (orient sq (cellV f i))
    (V3.cross (Dv (orientation sq f) 0 1 true i) (Dv (orientation sq f) 1 1 true i))

theorem tcdContinuous_eq (sq : Rat → Rat) (pi : Rat) (f : Fld) (h3 : f.nvdim = 3) (h2 : f.mesh.ndim = 2) :
    tcdContinuous sq pi f
      = .ok { mesh := f.mesh, nvdim := 1, data := ⟨f.data.shape, fun i => [tcdCSpec sq pi f i]⟩,
              valid := f.valid, vdims := none, vmap := [], unit := none } := by
  unfold tcdContinuous
  have hn3 : ¬ f.nvdim ≠ 3 := by simp [h3]
  have hn2 : ¬ f.mesh.ndim ≠ 2 := by simp [h2]
  rw [if_neg hn3, if_neg hn2]
  have hd0 := diff_eq (orientation sq f) 0 1 true (Or.inl rfl) (by show 0 < f.mesh.ndim; omega)
  have hd1 := diff_eq (orientation sq f) 1 1 true (Or.inl rfl) (by show 1 < f.mesh.ndim; omega)
  rw [hd0, hd1]
  simp only
  congr 3
  funext i
  have o3 : (orientation sq f).nvdim = 3 := h3
  unfold tcdCAt tcdCSpec
  rw [cellV_diff _ _ 0 1 true o3 hd0, cellV_diff _ _ 1 1 true o3 hd1, cellV_orientation]

theorem tcdContinuous_err (sq : Rat → Rat) (pi : Rat) (f : Fld) (h : f.nvdim ≠ 3 ∨ f.mesh.ndim ≠ 2) :
    tcdContinuous sq pi f = .error .value := by
  unfold tcdContinuous
  by_cases h3 : f.nvdim ≠ 3
  · rw [if_pos h3]
  · rw [if_neg h3]
    have : f.mesh.ndim ≠ 2 := by
      rcases h with h | h
      · exact absurd h h3
      · exact h
    rw [if_pos this]

theorem tcdCSpec_rotF (sq : Rat → Rat) (pi : Rat) (q : M3) (hq : q.IsRot) (f : Fld) (i : List Nat) :
    tcdCSpec sq pi (rotF q f) i = tcdCSpec sq pi f i := by
  unfold tcdCSpec
  rw [orientation_rotF sq q hq.1, cellV_rotF, Dv_rotF, Dv_rotF, orient_mulVec sq q hq.1,
    cross_mulVec q hq, dot_mulVec q hq.1]

theorem tcdCSpec_negF (sq : Rat → Rat) (pi : Rat) (f : Fld) (i : List Nat) :
    tcdCSpec sq pi (negF f) i = -tcdCSpec sq pi f i := by
  unfold tcdCSpec
  rw [orientation_negF, cellV_negF, Dv_negF, Dv_negF, orient_neg]
  simp only [V3.dot, V3.cross, V3.neg]
  ring

theorem uniform_orientation (sq : Rat → Rat) (f : Fld) (v : V3) (hu : uniformF f v) :
    uniformF (orientation sq f) (orient sq v) := by
  intro i
  have := orientation_uniform sq f v hu i
  unfold cellV at this
  exact this

theorem tcdCSpec_uniform (sq : Rat → Rat) (pi : Rat) (f : Fld) (v : V3) (hu : uniformF f v) (i : List Nat) :
    tcdCSpec sq pi f i = 0 := by
  unfold tcdCSpec
  rw [Dv_uniform _ _ (uniform_orientation sq f v hu)]
  simp [V3.dot, V3.cross, V3.zero]

theorem orientation_affF (sq : Rat → Rat) (lam : Rat) (t : List Rat) (f : Fld) :
    orientation sq (affF lam t f) = affF lam t (orientation sq f) := rfl

theorem tcdCSpec_affF (sq : Rat → Rat) (pi lam : Rat) (t : List Rat) (f : Fld) (h2 : f.mesh.ndim = 2) (i : List Nat) :
    tcdCSpec sq pi (affF lam t f) i = tcdCSpec sq pi f i / (lam * lam) := by
  unfold tcdCSpec
  rw [orientation_affF, Dv_affF lam t _ 0 true i (by show 0 < f.mesh.ndim; omega),
    Dv_affF lam t _ 1 true i (by show 1 < f.mesh.ndim; omega)]
  have : cellV (affF lam t f) i = cellV f i := rfl
  rw [this]
  simp only [V3.dot, V3.cross, V3.sdiv]
  ring

/-! ## Berg–Lüscher density under mesh scaling -/

theorem tcdBLAt_affF (Om : Tri → Rat) (lam : Rat) (t : List Rat) (o : Fld) (h2 : o.mesh.ndim = 2) (i j : Nat) :
    tcdBLAt Om (affF lam t o) i j = tcdBLAt Om o i j / (lam * lam) := by
  have ht : triangles (affF lam t o) i j = triangles o i j := rfl
  have ha : triArea (affF lam t o).mesh = lam * lam * triArea o.mesh := by
    unfold triArea
    show 1 / 2 * (affMesh lam t o.mesh).cellAt 0 * (affMesh lam t o.mesh).cellAt 1 = _
    rw [affMesh_cellAt lam t o.mesh 0 (Or.inl (by omega)), affMesh_cellAt lam t o.mesh 1 (Or.inl (by omega))]
    ring
  unfold tcdBLAt
  rw [ht, ha]
  show (if o.valid.get [i, j] = true then _ else _) = _
  split
  · split
    · ring
    · simp
  · simp

/-! ## integrals -/

theorem lsum_map_congr {α} (l : List α) (g h : α → Rat) (hgh : ∀ x ∈ l, g x = h x) :
    lsum (l.map g) = lsum (l.map h) := by
  induction l with
  | nil => rfl
  | cons x xs ih =>
    simp only [List.map_cons, lsum]
    rw [hgh x (by simp), ih (fun y hy => hgh y (by simp [hy]))]

theorem lsum_map_div {α} (l : List α) (g : α → Rat) (k : Rat) :
    lsum (l.map fun x => g x / k) = lsum (l.map g) / k := by
  induction l with
  | nil => simp [lsum]
  | cons x xs ih => simp only [List.map_cons, lsum, ih]; ring

theorem lsum_map_neg' {α} (l : List α) (g : α → Rat) :
    lsum (l.map fun x => -g x) = -lsum (l.map g) := by
  induction l with
  | nil => simp [lsum]
  | cons x xs ih => simp only [List.map_cons, lsum, ih]; ring

theorem absR_neg (x : Rat) : absR (-x) = absR x := by
  rw [absR_eq_abs, absR_eq_abs, abs_neg]

theorem absR_div_sq (x lam : Rat) : absR (x / (lam * lam)) = absR x / (lam * lam) := by
  rw [absR_eq_abs, absR_eq_abs, abs_div, abs_of_nonneg (mul_self_nonneg lam)]

/-- integral of a scalar field written over its cells -/
theorem integrateAll_eq (a : Bool) (q : Fld) :
    integrateAll a q = lsum ((indicesC q.data.shape).map fun i =>
      if a then absR ((q.data.get i).getD 0 0) else (q.data.get i).getD 0 0) * ratProd q.mesh.cell := by
  unfold integrateAll NDA.toList
  rw [List.map_map]
  rfl

theorem ratProd_cell2 (m : Mesh) (h2 : m.ndim = 2) : ratProd m.cell = m.cellAt 0 * m.cellAt 1 := by
  unfold Mesh.cell
  rw [h2]
  simp [tab, ratProd, List.range_succ]

/-- scaling a 2-d mesh by `lam ≠ 0` and dividing the density by `lam²` keeps the integral -/
theorem integrateAll_aff (a : Bool) (q q' : Fld) (lam : Rat) (hl : lam ≠ 0)
    (hs : q'.data.shape = q.data.shape)
    (hd : ∀ i, (q'.data.get i).getD 0 0 = (q.data.get i).getD 0 0 / (lam * lam))
    (hc : ratProd q'.mesh.cell = lam * lam * ratProd q.mesh.cell) :
    integrateAll a q' = integrateAll a q := by
  rw [integrateAll_eq, integrateAll_eq, hs, hc]
  have e : ((indicesC q.data.shape).map fun i =>
        if a then absR ((q'.data.get i).getD 0 0) else (q'.data.get i).getD 0 0)
      = (indicesC q.data.shape).map fun i =>
        (if a then absR ((q.data.get i).getD 0 0) else (q.data.get i).getD 0 0) / (lam * lam) := by
    apply List.map_congr_left
    intro i _
    rw [hd i]
    cases a
    · simp
    · simp [absR_div_sq]
  rw [e, lsum_map_div]
  have : lam * lam ≠ 0 := mul_ne_zero hl hl
  field_simp

theorem integrateAll_congr (a : Bool) (q q' : Fld) (hs : q'.data.shape = q.data.shape)
    (hd : ∀ i, (q'.data.get i).getD 0 0 = (q.data.get i).getD 0 0) (hm : q'.mesh = q.mesh) :
    integrateAll a q' = integrateAll a q := by
  rw [integrateAll_eq, integrateAll_eq, hs, hm]
  congr 2
  apply List.map_congr_left
  intro i _
  rw [hd i]

theorem integrateAll_neg (q q' : Fld) (hs : q'.data.shape = q.data.shape)
    (hd : ∀ i, (q'.data.get i).getD 0 0 = -(q.data.get i).getD 0 0) (hm : q'.mesh = q.mesh) :
    integrateAll false q' = -integrateAll false q ∧ integrateAll true q' = integrateAll true q := by
  rw [integrateAll_eq, integrateAll_eq, integrateAll_eq, integrateAll_eq, hs, hm]
  constructor
  · have e : ((indicesC q.data.shape).map fun i => if false = true then absR ((q'.data.get i).getD 0 0) else (q'.data.get i).getD 0 0)
        = (indicesC q.data.shape).map fun i => -(if false = true then absR ((q.data.get i).getD 0 0) else (q.data.get i).getD 0 0) := by
      apply List.map_congr_left
      intro i _
      rw [hd i]; simp
    rw [e, lsum_map_neg']; ring
  · congr 2
    apply List.map_congr_left
    intro i _
    rw [hd i]; simp [absR_neg]

theorem integrateAll_zero (a : Bool) (q : Fld) (hd : ∀ i, (q.data.get i).getD 0 0 = 0) : integrateAll a q = 0 := by
  rw [integrateAll_eq]
  have : lsum ((indicesC q.data.shape).map fun i =>
      if a then absR ((q.data.get i).getD 0 0) else (q.data.get i).getD 0 0) = 0 := by
    apply lsum_zero
    intro x hx
    obtain ⟨i, _, rfl⟩ := List.mem_map.mp hx
    rw [hd i]
    cases a <;> simp [absR]
  rw [this]; ring

/-! ## emergent field in closed form -/

/-- SPEC: `F_kl = m·(∂_k m × ∂_l m)` -/
def emSpec (f : Fld) (k l : Nat) (i : List Nat) : Rat :=
  V3.dot (cellV f i) (V3.cross (Dv f k 1 true i) (Dv f l 1 true i))

theorem emergent_eq (f : Fld) (h3 : f.nvdim = 3) (hd : f.mesh.ndim = 3) :
    emergent f
      = .ok { mesh := f.mesh, nvdim := 3,
              data := ⟨f.data.shape, fun i => [emSpec f 1 2 i, emSpec f 2 0 i, emSpec f 0 1 i]⟩,
              valid := f.valid, vdims := some ["x", "y", "z"],
              vmap := List.zip ["x", "y", "z"] f.mesh.region.dims, unit := none } := by
  unfold emergent
  have hn3 : ¬ f.nvdim ≠ 3 := by simp [h3]
  have hnd : ¬ f.mesh.ndim ≠ 3 := by simp [hd]
  rw [if_neg hn3, if_neg hnd]
  have h0 := diff_eq f 0 1 true (Or.inl rfl) (by omega)
  have h1 := diff_eq f 1 1 true (Or.inl rfl) (by omega)
  have h2 := diff_eq f 2 1 true (Or.inl rfl) (by omega)
  rw [h0, h1, h2]
  simp only
  congr 3
  funext i
  unfold emAt emSpec
  rw [cellV_diff _ _ 0 1 true h3 h0, cellV_diff _ _ 1 1 true h3 h1, cellV_diff _ _ 2 1 true h3 h2]

theorem emSpec_rotF (q : M3) (hq : q.IsRot) (f : Fld) (k l : Nat) (i : List Nat) :
    emSpec (rotF q f) k l i = emSpec f k l i := by
  unfold emSpec
  rw [cellV_rotF, Dv_rotF, Dv_rotF, cross_mulVec q hq, dot_mulVec q hq.1]

theorem emSpec_negF (f : Fld) (k l : Nat) (i : List Nat) : emSpec (negF f) k l i = -emSpec f k l i := by
  unfold emSpec
  rw [cellV_negF, Dv_negF, Dv_negF]
  simp only [V3.dot, V3.cross, V3.neg]
  ring

theorem emSpec_uniform (f : Fld) (v : V3) (hu : uniformF f v) (k l : Nat) (i : List Nat) : emSpec f k l i = 0 := by
  unfold emSpec
  rw [Dv_uniform f v hu]
  simp [V3.dot, V3.cross, V3.zero]

/-! ## neighbour angles -/

theorem nbDot_rotF (sq : Rat → Rat) (q : M3) (hq : q.IsOrth) (f : Fld) (ax : Nat) (i : List Nat) :
    nbDot sq (rotF q f) ax i = nbDot sq f ax i := by
  unfold nbDot
  rw [cellV_rotF, cellV_rotF, orient_mulVec sq q hq, orient_mulVec sq q hq, dot_mulVec q hq]


/-! ## both methods at once: the value stored in cell `i` -/

/-- SPEC: the density value `topological_charge_density(field, method)` stores in cell `i` -/
def tcdVal (sq : Rat → Rat) (pi : Rat) (Om : Tri → Rat) (f : Fld) : Method → List Nat → Rat
  | .continuous, i => tcdCSpec sq pi f i
  | .bergLuescher, i => tcdBLAt Om (orientation sq f) (i.getD 0 0) (i.getD 1 0)
  | .other, _ => 0

/-- a successful call: the field was a 3-component field on a 2-d mesh, the method a known
one, and the result is the scalar field of `tcdVal` on the same mesh with the same validity -/
theorem tcd_ok (sq : Rat → Rat) (pi : Rat) (Om : Tri → Rat) (f q : Fld) (m : Method)
    (h : tcd sq pi Om f m = .ok q) :
    f.nvdim = 3 ∧ f.mesh.ndim = 2 ∧ m ≠ .other ∧
    q = { mesh := f.mesh, nvdim := 1, data := ⟨f.data.shape, fun i => [tcdVal sq pi Om f m i]⟩,
          valid := f.valid, vdims := none, vmap := [], unit := none } := by
  cases m with
  | continuous =>
    change tcdContinuous sq pi f = .ok q at h
    by_cases hc : f.nvdim ≠ 3 ∨ f.mesh.ndim ≠ 2
    · rw [tcdContinuous_err sq pi f hc] at h; cases h
    · have h3 : f.nvdim = 3 := by
        apply Classical.byContradiction; intro hn; exact hc (Or.inl hn)
      have h2 : f.mesh.ndim = 2 := by
        apply Classical.byContradiction; intro hn; exact hc (Or.inr hn)
      rw [tcdContinuous_eq sq pi f h3 h2] at h
      injection h with h
      exact ⟨h3, h2, by simp, h.symm⟩
  | bergLuescher =>
    change tcdBL sq Om f = .ok q at h
    unfold tcdBL at h
    by_cases h3 : f.nvdim ≠ 3
    · rw [if_pos h3] at h; cases h
    · rw [if_neg h3] at h
      by_cases h2 : f.mesh.ndim ≠ 2
      · rw [if_pos h2] at h; cases h
      · rw [if_neg h2] at h
        injection h with h
        exact ⟨Classical.not_not.mp h3, Classical.not_not.mp h2, by simp, h.symm⟩
  | other => cases h

/-- conversely every 3-component field on a 2-d mesh is accepted by both methods -/
theorem tcd_succeeds (sq : Rat → Rat) (pi : Rat) (Om : Tri → Rat) (f : Fld) (m : Method)
    (h3 : f.nvdim = 3) (h2 : f.mesh.ndim = 2) (hm : m ≠ .other) :
    tcd sq pi Om f m
      = .ok { mesh := f.mesh, nvdim := 1, data := ⟨f.data.shape, fun i => [tcdVal sq pi Om f m i]⟩,
              valid := f.valid, vdims := none, vmap := [], unit := none } := by
  cases m with
  | continuous =>
    change tcdContinuous sq pi f = _
    rw [tcdContinuous_eq sq pi f h3 h2]; rfl
  | bergLuescher =>
    change tcdBL sq Om f = _
    unfold tcdBL
    rw [if_neg (by simp [h3]), if_neg (by simp [h2])]
    rfl
  | other => exact absurd rfl hm

theorem tcdVal_rotF (sq : Rat → Rat) (pi : Rat) (Om : Tri → Rat) (q : M3) (hq : q.IsRot) (f : Fld) (m : Method)
    (i : List Nat) : tcdVal sq pi Om (rotF q f) m i = tcdVal sq pi Om f m i := by
  cases m with
  | continuous => exact tcdCSpec_rotF sq pi q hq f i
  | bergLuescher =>
    show tcdBLAt Om (orientation sq (rotF q f)) _ _ = tcdBLAt Om (orientation sq f) _ _
    rw [orientation_rotF sq q hq.1, tcdBLAt_rotF Om q hq]
  | other => rfl

theorem tcdVal_negF (sq : Rat → Rat) (pi : Rat) (Om : Tri → Rat)
    (hOm : ∀ tr, tr.t ≠ 0 → Om (flipT tr) = -Om tr) (f : Fld) (m : Method) (i : List Nat) :
    tcdVal sq pi Om (negF f) m i = -tcdVal sq pi Om f m i := by
  cases m with
  | continuous => exact tcdCSpec_negF sq pi f i
  | bergLuescher =>
    show tcdBLAt Om (orientation sq (negF f)) _ _ = -tcdBLAt Om (orientation sq f) _ _
    rw [orientation_negF, tcdBLAt_negF Om hOm]
  | other => simp [tcdVal]

theorem tcdVal_uniform (sq : Rat → Rat) (pi : Rat) (Om : Tri → Rat) (f : Fld) (v : V3) (hu : uniformF f v)
    (m : Method) (i : List Nat) : tcdVal sq pi Om f m i = 0 := by
  cases m with
  | continuous => exact tcdCSpec_uniform sq pi f v hu i
  | bergLuescher => exact tcdBLAt_uniform Om _ (orient sq v) (orientation_uniform sq f v hu) _ _
  | other => rfl

theorem tcdVal_affF (sq : Rat → Rat) (pi : Rat) (Om : Tri → Rat) (lam : Rat) (t : List Rat) (f : Fld)
    (h2 : f.mesh.ndim = 2) (m : Method) (i : List Nat) :
    tcdVal sq pi Om (affF lam t f) m i = tcdVal sq pi Om f m i / (lam * lam) := by
  cases m with
  | continuous => exact tcdCSpec_affF sq pi lam t f h2 i
  | bergLuescher =>
    show tcdBLAt Om (orientation sq (affF lam t f)) _ _ = tcdBLAt Om (orientation sq f) _ _ / _
    rw [orientation_affF, tcdBLAt_affF Om lam t _ (by exact h2)]
  | other => simp [tcdVal]

theorem tcdVal_scaleF (sq : Rat → Rat) (pi : Rat) (Om : Tri → Rat) (s : List Nat → Rat) (f : Fld)
    (h : ∀ i, orient sq ((V3.ofList (f.data.get i)).smul (s i)) = orient sq (V3.ofList (f.data.get i)))
    (m : Method) (i : List Nat) : tcdVal sq pi Om (scaleF s f) m i = tcdVal sq pi Om f m i := by
  have ho := orientation_scaleF sq s f h
  cases m with
  | continuous =>
    show tcdCSpec sq pi (scaleF s f) i = tcdCSpec sq pi f i
    unfold tcdCSpec
    rw [ho]
    have : orient sq (cellV (scaleF s f) i) = orient sq (cellV f i) := by
      have := h i
      simpa [cellV, scaleF] using this
    rw [this]
  | bergLuescher =>
    show tcdBLAt Om (orientation sq (scaleF s f)) _ _ = tcdBLAt Om (orientation sq f) _ _
    rw [ho]
  | other => rfl

theorem affMesh_ratProd (lam : Rat) (t : List Rat) (m : Mesh) (h2 : m.ndim = 2) :
    ratProd (affMesh lam t m).cell = lam * lam * ratProd m.cell := by
  have h2' : (affMesh lam t m).ndim = 2 := by
    show (tab m.region.ndim _).length = 2
    rw [tab_length]; exact h2
  rw [ratProd_cell2 _ h2', ratProd_cell2 _ h2, affMesh_cellAt lam t m 0 (Or.inl (by omega)),
    affMesh_cellAt lam t m 1 (Or.inl (by omega))]
  ring

theorem charge_of_tcd (sq : Rat → Rat) (pi : Rat) (Om : Tri → Rat) (f q : Fld) (m : Method) (a : Bool)
    (h : tcd sq pi Om f m = .ok q) : charge sq pi Om f m a = .ok (integrateAll a q) := by
  obtain ⟨h3, h2, _, _⟩ := tcd_ok sq pi Om f q m h
  unfold charge
  rw [if_neg (by simp [h3]), if_neg (by simp [h2]), h]

theorem charge_ok_inv (sq : Rat → Rat) (pi : Rat) (Om : Tri → Rat) (f : Fld) (m : Method) (a : Bool) (c : Rat)
    (h : charge sq pi Om f m a = .ok c) : ∃ q, tcd sq pi Om f m = .ok q ∧ c = integrateAll a q := by
  unfold charge at h
  by_cases h3 : f.nvdim ≠ 3
  · rw [if_pos h3] at h; cases h
  · rw [if_neg h3] at h
    by_cases h2 : f.mesh.ndim ≠ 2
    · rw [if_pos h2] at h; cases h
    · rw [if_neg h2] at h
      cases hq : tcd sq pi Om f m with
      | error e => rw [hq] at h; cases h
      | ok q =>
        rw [hq] at h
        injection h with h
        exact ⟨q, rfl, h.symm⟩

theorem charge_err_of_tcd (sq : Rat → Rat) (pi : Rat) (Om : Tri → Rat) (f : Fld) (m : Method) (a : Bool) (e : Err)
    (h : tcd sq pi Om f m = .error e) : ∃ e', charge sq pi Om f m a = .error e' := by
  unfold charge
  split
  · exact ⟨_, rfl⟩
  · split
    · exact ⟨_, rfl⟩
    · rw [h]; exact ⟨_, rfl⟩

end DFV.C19
