import DFV.Model.C20Heap
import DFV.Lemmas.C07List
/-!
C20 helper lemmas, eighth part: the heap of numpy buffers — `alloc` / `buf` / `nanWhere`, and
the FRAME property of the plot functions on the heap: every in-place write lands in a buffer
allocated by the call itself.
-/
namespace DFV.C20
open DFV

/-! ## heap primitives -/

theorem buf_alloc_lt (h : AHeap) (b : ABuf) (a : Nat) (ha : a < h.length) :
    (h.alloc b).1.buf a = h.buf a := by
  unfold AHeap.alloc AHeap.buf
  simp only [List.getD_eq_getElem?_getD]
  rw [List.getElem?_append_left ha]

theorem buf_alloc_new (h : AHeap) (b : ABuf) : (h.alloc b).1.buf h.length = b := by
  unfold AHeap.alloc AHeap.buf
  simp [List.getD_eq_getElem?_getD]

theorem alloc_len (h : AHeap) (b : ABuf) : (h.alloc b).1.length = h.length + 1 := by
  unfold AHeap.alloc; simp

theorem nanWhere_len (h : AHeap) (a : Nat) (m : List Nat → Bool) : (h.nanWhere a m).length = h.length :=
  C07.length_setAt _ _ _

theorem buf_nanWhere_ne (h : AHeap) (a b : Nat) (m : List Nat → Bool) (hne : b ≠ a) :
    (h.nanWhere a m).buf b = h.buf b :=
  C07.getD_setAt_ne h a b _ _ hne

theorem buf_nanWhere_eq (h : AHeap) (a : Nat) (m : List Nat → Bool) (ha : a < h.length) :
    (h.nanWhere a m).buf a = fun i => if m i then none else h.buf a i :=
  C07.getD_setAt_eq h a _ _ ha

/-- "`h'` extends `h` and agrees with it on every old address except possibly `v`" -/
def FrameExcept (h h' : AHeap) (v : Nat) : Prop :=
  h.length ≤ h'.length ∧ ∀ a, a < h.length → a ≠ v → h'.buf a = h.buf a

/-- "`h'` extends `h` and agrees with it on every old address" -/
def Frame (h h' : AHeap) : Prop :=
  h.length ≤ h'.length ∧ ∀ a, a < h.length → h'.buf a = h.buf a

theorem Frame.refl (h : AHeap) : Frame h h := ⟨Nat.le_refl _, fun _ _ => rfl⟩

theorem Frame.trans {h1 h2 h3 : AHeap} (a : Frame h1 h2) (b : Frame h2 h3) : Frame h1 h3 :=
  ⟨Nat.le_trans a.1 b.1, fun x hx => by rw [b.2 x (Nat.lt_of_lt_of_le hx a.1), a.2 x hx]⟩

theorem frame_alloc (h : AHeap) (b : ABuf) : Frame h (h.alloc b).1 :=
  ⟨by rw [alloc_len]; omega, fun a ha => buf_alloc_lt h b a ha⟩

/-- a write at an address that did not exist in `h0` keeps the frame of `h0` -/
theorem frame_nanWhere_fresh (h0 h : AHeap) (v : Nat) (m : List Nat → Bool) (hf : Frame h0 h)
    (hv : h0.length ≤ v) : Frame h0 (h.nanWhere v m) :=
  ⟨by rw [nanWhere_len]; exact hf.1,
   fun a ha => by rw [buf_nanWhere_ne h v a m (by omega), hf.2 a ha]⟩

/-! ## derived fields -/

theorem frame_validAsFieldH (h : AHeap) (f : HFld) : Frame h (validAsFieldH h f).1 := by
  unfold validAsFieldH
  exact (frame_alloc h _).trans (frame_alloc _ _)

theorem frame_filterFieldH (h : AHeap) (f : HFld) (flt : Option HFld) :
    Frame h (filterFieldH h f flt).1 := by
  cases flt with
  | none => exact frame_validAsFieldH h f
  | some g => exact Frame.refl h

theorem frame_filterArrH (h : AHeap) (f g : HFld) (hp : AHeap × Nat) (hk : filterArrH h f g = .ok hp) :
    Frame h hp.1 := by
  unfold filterArrH at hk
  split at hk
  · injection hk with hk; subst hk; exact Frame.refl h
  · split at hk
    · cases hk
    · injection hk with hk; subst hk; exact frame_alloc h _

/-- `_filter_values` writes only into `values` -/
theorem frame_filterValuesH (h0 h : AHeap) (f g : HFld) (v : Nat) (h' : AHeap) (hf : Frame h0 h)
    (hv : h0.length ≤ v) (hk : filterValuesH h f g v = .ok h') : Frame h0 h' := by
  unfold filterValuesH at hk
  split at hk
  · cases hk
  · split at hk
    · cases hk
    · split at hk
      · cases hk
      · rename_i hp hhp
        injection hk with hk
        subst hk
        exact frame_nanWhere_fresh h0 _ v _
          (frame_nanWhere_fresh h0 _ v _ (hf.trans (frame_filterArrH h f g hp hhp)) hv) hv

/-! ## the plot functions -/

theorem frame_maskedValuesH (h : AHeap) (f : HFld) (flt : Option HFld) (hv : AHeap × Nat)
    (hk : maskedValuesH h f flt = .ok hv) : Frame h hv.1 ∧ hv.2 = h.length := by
  unfold maskedValuesH at hk
  split at hk
  · cases hk
  · rename_i h' hh'
    injection hk with hk
    subst hk
    exact ⟨frame_filterValuesH h _ f _ h.length h'
      ((frame_alloc h _).trans (frame_filterFieldH _ f flt)) (Nat.le_refl _) hh', rfl⟩

/-- **Frame of the scalar plot**: every buffer that existed before the call is unchanged -/
theorem frame_scalarH (h : AHeap) (f : HFld) (o : HOpts) : Frame h (scalarH h f o).1 := by
  unfold scalarH
  split
  · exact Frame.refl h
  · split
    · exact Frame.refl h
    · split
      · exact Frame.refl h
      · split
        · exact Frame.refl h
        · split
          · exact Frame.refl h
          · rename_i hv hhv
            split <;> exact (frame_maskedValuesH h f o.filter hv hhv).1

theorem frame_contourH (h : AHeap) (f : HFld) (o : HOpts) : Frame h (contourH h f o).1 := by
  unfold contourH
  split
  · exact Frame.refl h
  · split
    · exact Frame.refl h
    · split
      · exact Frame.refl h
      · split
        · exact Frame.refl h
        · rename_i hv hhv
          split <;> exact (frame_maskedValuesH h f o.filter hv hhv).1

theorem frame_vectorH (h : AHeap) (f : HFld) (o : HOpts) : Frame h (vectorH h f o).1 := by
  unfold vectorH
  split
  · exact Frame.refl h
  · split
    · exact Frame.refl h
    · split
      · exact Frame.refl h
      · split
        · exact Frame.refl h
        · rename_i h' hh'
          have fr : Frame h h' := frame_filterValuesH h _ f _ h.length h'
            ((frame_alloc h _).trans (frame_validAsFieldH _ f)) (Nat.le_refl _) hh'
          repeat' split
          all_goals exact fr

/-! ## lightness -/

theorem mapAt_len (h : AHeap) (a : Nat) (fn : Rat → Rat) : (h.mapAt a fn).length = h.length :=
  C07.length_setAt _ _ _

theorem buf_mapAt_ne (h : AHeap) (a b : Nat) (fn : Rat → Rat) (hne : b ≠ a) :
    (h.mapAt a fn).buf b = h.buf b :=
  C07.getD_setAt_ne h a b _ _ hne

/-- an in-place update at an address that did not exist in `h0` keeps the frame of `h0` -/
theorem frame_mapAt_fresh (h0 h : AHeap) (v : Nat) (fn : Rat → Rat) (hf : Frame h0 h)
    (hv : h0.length ≤ v) : Frame h0 (h.mapAt v fn) :=
  ⟨by rw [mapAt_len]; exact hf.1,
   fun a ha => by rw [buf_mapAt_ne h v a fn (by omega), hf.2 a ha]⟩

theorem frame_derivedH (h : AHeap) (f : HFld) (vals : List Nat → Rat) : Frame h (derivedH h f vals).1 := by
  unfold derivedH
  exact (frame_alloc h _).trans (frame_alloc _ _)

theorem frame_lightFieldH (h : AHeap) (f : HFld) (lf : Option HFld) (dflt : List Nat → Rat)
    (hl : AHeap × HFld) (hk : lightFieldH h f lf dflt = .ok hl) : Frame h hl.1 := by
  unfold lightFieldH at hk
  split at hk
  · injection hk with hk; subst hk; exact frame_derivedH h f dflt
  · split at hk
    · cases hk
    · split at hk
      · cases hk
      · injection hk with hk; subst hk; exact Frame.refl h

/-- the lightness array that is normalised in place and the `rgb` array that receives the NaN
writes are both allocated by the call -/
theorem frame_lightArraysH (h : AHeap) (f lf flt : HFld) (clim : Rat × Rat) (hr : AHeap × Nat × Nat)
    (hk : lightArraysH h f lf flt clim = .ok hr) : Frame h hr.1 := by
  unfold lightArraysH at hk
  split at hk
  · cases hk
  · rename_i hp hhp
    split at hk
    · cases hk
    · rename_i h' hh'
      injection hk with hk
      subst hk
      have f1 : Frame h hp.1 := (frame_alloc h _).trans (frame_filterArrH _ f lf hp hhp)
      have f2 : Frame h (hp.1.alloc fun i => hp.1.buf hp.2 (i.take 2 ++ [0])).1 := f1.trans (frame_alloc _ _)
      have f3 := frame_mapAt_fresh h _ hp.1.length
        (normalise (ndaMin ⟨f.mesh.n, fun i => (hp.1.buf hp.2 (i ++ [0])).getD 0⟩)
          (ndaMax ⟨f.mesh.n, fun i => (hp.1.buf hp.2 (i ++ [0])).getD 0⟩) clim) f2 f1.1
      exact frame_filterValuesH h _ f flt (hp.1.length + 1) h' (f3.trans (frame_alloc _ _))
        (Nat.le_trans f1.1 (Nat.le_succ _)) hh'

theorem frame_lightCoreH (h : AHeap) (f : HFld) (o : HOpts) (clim : Option (Rat × Rat))
    (hue : List Nat → Hue) (dflt : List Nat → Rat) : Frame h (lightCoreH h f o clim hue dflt).1 := by
  unfold lightCoreH
  split
  · exact Frame.refl h
  · split
    · exact Frame.refl h
    · split
      · exact Frame.refl h
      · rename_i hl hhl
        split
        · exact Frame.refl h
        · rename_i hr hhr
          have fr : Frame h hr.1 :=
            ((frame_filterFieldH h f o.filter).trans (frame_lightFieldH _ f o.aux dflt hl hhl)).trans
              (frame_lightArraysH hl.1 f hl.2 _ _ hr hhr)
          split <;> exact fr

/-- **Frame of the lightness plot**, every number of components -/
theorem frame_lightnessH (sqrtF : Rat → Rat) (h : AHeap) (f : HFld) (o : HOpts) (clim : Option (Rat × Rat)) :
    Frame h (lightnessH sqrtF h f o clim).1 := by
  unfold lightnessH
  repeat' split
  all_goals first | exact Frame.refl h | exact frame_lightCoreH h f o clim _ _

/-! ## default plot -/

theorem frame_compFieldH (h : AHeap) (f : HFld) (c : Nat) : Frame h (compFieldH h f c).1 :=
  frame_derivedH h f _

/-- **Frame of the default plot** -/
theorem frame_defaultH (h : AHeap) (f : HFld) (o : HOpts) : Frame h (defaultH h f o).1 := by
  unfold defaultH
  split
  · exact Frame.refl h
  · split
    · exact Frame.refl h
    · rename_i m _
      split
      · have fr := (frame_filterFieldH h f o.filter).trans (frame_scalarH (filterFieldH h f o.filter).1 f
          { o with mult := some m, filter := some (filterFieldH h f o.filter).2 })
        repeat' split
        all_goals exact fr
      · split
        · have fr := frame_vectorH h f { o with mult := some m }
          repeat' split
          all_goals exact fr
        · split
          · split
            · exact Frame.refl h
            · rename_i c _
              have fr1 := ((frame_compFieldH h f c).trans (frame_filterFieldH _ f o.filter)).trans
                (frame_scalarH (filterFieldH (compFieldH h f c).1 f o.filter).1 (compFieldH h f c).2
                  { o with mult := some m, filter := some (filterFieldH (compFieldH h f c).1 f o.filter).2 })
              have fr2 := fr1.trans (frame_vectorH _ f { o with mult := some m })
              repeat' split
              all_goals first | exact fr1 | exact fr2
          · exact Frame.refl h

end DFV.C20
