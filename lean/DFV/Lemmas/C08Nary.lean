import DFV.Lemmas.C08Wf
/-! C08 helper lemmas, part 6: compound operations (`sum`, stacking with `<<`, ufuncs with
several field inputs, `grad`, `div`, `curl`, `laplace`, reflected operators) — shape, index-level
reading and acceptance of the programs `field.py` composes. -/
namespace DFV.C08
open DFV

theorem tab_const {α} (n : Nat) (x : α) : tab n (fun _ => x) = List.replicate n x := by
  unfold tab
  rw [List.map_const', List.length_range]

theorem chainF_shapeOf (env : Nat → Mask) (xs : List Prog) : ∀ acc, shapeOf env (chainF acc xs) = shapeOf env acc := by
  induction xs with
  | nil => intro acc; rfl
  | cons x xs ih => intro acc; simp only [chainF]; rw [ih]; rfl

theorem chainF_spec (env : Nat → Mask) (xs : List Prog) : ∀ acc j,
    spec env (chainF acc xs) j = (spec env acc j && xs.all fun x => spec env x j) := by
  induction xs with
  | nil => intro acc j; simp [chainF]
  | cons x xs ih =>
    intro acc j
    simp only [chainF, List.all_cons]
    rw [ih]
    simp only [spec, Bool.and_assoc]

theorem chainF_wf (env : Nat → Mask) (xs : List Prog) : ∀ acc,
    wf env (chainF acc xs) =
      (wf env acc && xs.all fun x => wf env x && decide (shapeOf env acc = shapeOf env x)) := by
  induction xs with
  | nil => intro acc; simp [chainF]
  | cons x xs ih =>
    intro acc
    simp only [chainF, List.all_cons]
    rw [ih]
    simp only [wf, shapeOf, Bool.and_assoc]
    rfl

theorem chainF_setterFree (xs : List Prog) : ∀ acc,
    setterFree (chainF acc xs) = (setterFree acc && xs.all setterFree) := by
  induction xs with
  | nil => intro acc; simp [chainF]
  | cons x xs ih =>
    intro acc
    simp only [chainF, List.all_cons]
    rw [ih]
    simp only [setterFree, Bool.and_assoc]

/-- a program with the shape, index-level reading and acceptance of `p` returns `p`'s mask -/
theorem same_mask_of_spec (env : Nat → Mask) (P p : Prog) (hsh : shapeOf env P = shapeOf env p)
    (hsp : ∀ j, spec env P j = spec env p j) (hwf : wf env P = true → wf env p = true) (m : Mask)
    (h : eval env P = .ok m) :
    ∃ m0, eval env p = .ok m0 ∧ m.shape = m0.shape ∧ ∀ j, inRange m0.shape j = true → m.get j = m0.get j := by
  obtain ⟨m0, hm0⟩ := (eval_ok_iff env p).mpr (hwf ((eval_ok_iff env P).mp ⟨m, h⟩))
  obtain ⟨h1, h2⟩ := eval_spec env P m h
  obtain ⟨h3, h4⟩ := eval_spec env p m0 hm0
  have hs : m.shape = m0.shape := by rw [h1, h3, hsh]
  refine ⟨m0, hm0, hs, fun j hj => ?_⟩
  rw [h2 j (by rw [hs]; exact hj), h4 j hj, hsp]

/-! ## lists of copies of one operand -/

theorem all_replicate_spec (env : Nat → Mask) (n : Nat) (x : Prog) (j : List Nat) (hn : 0 < n) :
    ((List.replicate n x).all fun y => spec env y j) = spec env x j := by
  induction n with
  | zero => omega
  | succ k ih =>
    cases k with
    | zero => simp
    | succ k => rw [List.replicate_succ, List.all_cons, ih (by omega), Bool.and_self]

theorem all_replicate_wf (env : Nat → Mask) (n : Nat) (x acc : Prog) (h : wf env x = true)
    (hs : shapeOf env acc = shapeOf env x) :
    ((List.replicate n x).all fun y => wf env y && decide (shapeOf env acc = shapeOf env y)) = true := by
  simp only [List.all_eq_true, List.mem_replicate]
  rintro y ⟨_, rfl⟩
  simp [h, hs]

/-- stacking / summing `n ≥ 1` results that all carry the reading of `p` -/
theorem stack_replicate (env : Nat → Mask) (n : Nat) (x p : Prog) (hn : 0 < n)
    (hsh : shapeOf env x = shapeOf env p) (hsp : ∀ j, spec env x j = spec env p j)
    (hwf : wf env x = wf env p) :
    shapeOf env (stackProg (List.replicate n x)) = shapeOf env p ∧
    (∀ j, spec env (stackProg (List.replicate n x)) j = spec env p j) ∧
    wf env (stackProg (List.replicate n x)) = wf env p := by
  obtain ⟨k, rfl⟩ : ∃ k, n = k + 1 := ⟨n - 1, by omega⟩
  rw [List.replicate_succ]
  simp only [stackProg]
  refine ⟨by rw [chainF_shapeOf, hsh], fun j => ?_, ?_⟩
  · rw [chainF_spec]
    cases k with
    | zero => simp [hsp]
    | succ k => rw [all_replicate_spec env _ x j (by omega), Bool.and_self, hsp]
  · rw [chainF_wf]
    by_cases hx : wf env x = true
    · rw [all_replicate_wf env k x x hx rfl, Bool.and_true, hwf]
    · simp only [Bool.not_eq_true] at hx
      rw [hx, Bool.false_and, ← hwf, hx]

theorem sum_replicate (env : Nat → Mask) (n : Nat) (x p : Prog) (hn : 0 < n)
    (hsh : shapeOf env x = shapeOf env p) (hsp : ∀ j, spec env x j = spec env p j)
    (hwf : wf env x = wf env p) :
    shapeOf env (sumProg (List.replicate n x)) = shapeOf env p ∧
    (∀ j, spec env (sumProg (List.replicate n x)) j = spec env p j) ∧
    wf env (sumProg (List.replicate n x)) = wf env p := by
  obtain ⟨k, rfl⟩ : ∃ k, n = k + 1 := ⟨n - 1, by omega⟩
  rw [List.replicate_succ]
  simp only [sumProg]
  refine ⟨by rw [chainF_shapeOf]; exact hsh, fun j => ?_, ?_⟩
  · rw [chainF_spec]
    show (spec env x j && _) = _
    cases k with
    | zero => simp [hsp]
    | succ k => rw [all_replicate_spec env _ x j (by omega), Bool.and_self, hsp]
  · rw [chainF_wf]
    show (wf env x && _) = _
    by_cases hx : wf env x = true
    · rw [all_replicate_wf env k x (.binC x) hx rfl, Bool.and_true, hwf]
    · simp only [Bool.not_eq_true] at hx
      rw [hx, Bool.false_and, ← hwf, hx]

/-! ## the differential operators -/

theorem gradProg_facts (env : Nat → Mask) (nd : Nat) (p : Prog) (hn : 0 < nd) :
    shapeOf env (gradProg nd p) = shapeOf env p ∧ (∀ j, spec env (gradProg nd p) j = spec env p j) ∧
    wf env (gradProg nd p) = wf env p := by
  unfold gradProg
  rw [tab_const]
  exact stack_replicate env nd (.un p) p hn rfl (fun _ => rfl) rfl

theorem divProg_facts (env : Nat → Mask) (nv : Nat) (p : Prog) (hn : 0 < nv) :
    shapeOf env (divProg nv p) = shapeOf env p ∧ (∀ j, spec env (divProg nv p) j = spec env p j) ∧
    wf env (divProg nv p) = wf env p := by
  unfold divProg
  rw [tab_const]
  exact sum_replicate env nv (.un (.un p)) p hn rfl (fun _ => rfl) rfl

theorem curlProg_facts (env : Nat → Mask) (p : Prog) :
    shapeOf env (curlProg p) = shapeOf env p ∧ (∀ j, spec env (curlProg p) j = spec env p j) ∧
    wf env (curlProg p) = wf env p := by
  unfold curlProg
  rw [tab_const]
  refine stack_replicate env 3 _ p (by omega) rfl (fun j => ?_) ?_
  · simp [spec]
  · simp [wf, shapeOf]

theorem laplaceProg_facts (env : Nat → Mask) (nd nv : Nat) (p : Prog) (hd : 0 < nd) (hv : 0 < nv) :
    shapeOf env (laplaceProg nd nv p) = shapeOf env p ∧ (∀ j, spec env (laplaceProg nd nv p) j = spec env p j) ∧
    wf env (laplaceProg nd nv p) = wf env p := by
  unfold laplaceProg
  split
  · rw [tab_const]
    obtain ⟨h1, h2, h3⟩ := sum_replicate env nd (.un p) p hd rfl (fun _ => rfl) rfl
    exact ⟨h1, h2, h3⟩
  · rw [tab_const, tab_const]
    obtain ⟨h1, h2, h3⟩ := sum_replicate env nd (.un (.un p)) p hd rfl (fun _ => rfl) rfl
    exact stack_replicate env nv _ p hv h1 h2 h3

/-! ## several field inputs -/

theorem ufuncProg_facts (env : Nat → Mask) (x : Prog) (xs : List Prog) :
    shapeOf env (ufuncProg (x :: xs)) = shapeOf env x ∧
    (∀ j, spec env (ufuncProg (x :: xs)) j = (x :: xs).all fun y => spec env y j) ∧
    wf env (ufuncProg (x :: xs)) = (wf env x && xs.all fun y => wf env y && decide (shapeOf env x = shapeOf env y)) := by
  simp only [ufuncProg]
  refine ⟨by rw [chainF_shapeOf]; rfl, fun j => ?_, ?_⟩
  · rw [chainF_spec]; rfl
  · rw [chainF_wf]; rfl

end DFV.C08
