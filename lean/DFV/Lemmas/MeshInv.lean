import DFV.Lemmas.Rot
import DFV.Lemmas.C14
/-! helper lemmas for the mesh-level invariant of C13 -/
namespace DFV.C13
open DFV DFV.T

theorem mkN_ok (r : Region) (n : List Nat) (bc : String) (m : Mesh) (h : Mesh.mkN? r n bc = .ok m) :
    m.region = r ∧ m.n = n ∧ n.length = r.ndim ∧ (∀ k ∈ n, 0 < k) := by
  unfold Mesh.mkN? at h
  split at h
  · cases h
  · rename_i hl
    split at h
    · cases h
    · rename_i hz
      split at h
      · cases h
      · injection h with h; subst h
        refine ⟨rfl, rfl, not_not.mp hl, ?_⟩
        intro k hk
        have : ¬ (n.any (· = 0)) = true := hz
        rw [List.any_eq_true] at this
        rcases Nat.eq_zero_or_pos k with h0 | h0
        · exact absurd ⟨k, hk, by simp [h0]⟩ this
        · exact h0

theorem mkMesh_ok (r : Region) (n : List Nat) (bc : String) (subs : List (String × Region)) (m : Mesh)
    (h : mkMesh? r n bc subs = .ok m) : m.region = r ∧ m.n = n ∧ n.length = r.ndim ∧ (∀ k ∈ n, 0 < k) := by
  unfold mkMesh? at h
  split at h
  · cases h
  · rename_i m0 h0
    obtain ⟨a, b, c, d⟩ := mkN_ok r n bc m0 h0
    unfold setSubs at h
    split at h
    · injection h with h; subst h
      exact ⟨a, b, c, d⟩
    · cases h

theorem nAt_pos_of_mem (m : Mesh) (hl : m.n.length = m.ndim) (h : ∀ k ∈ m.n, 0 < k) (a : Nat) (ha : a < m.ndim) :
    0 < m.nAt a := by
  unfold Mesh.nAt
  have : a < m.n.length := by rw [hl]; exact ha
  rw [List.getD_eq_getElem?_getD, List.getElem?_eq_getElem this]
  exact h _ (List.getElem_mem _)

theorem mem_pos_of_nAt (m : Mesh) (hl : m.n.length = m.ndim) (h : ∀ a, a < m.ndim → 0 < m.nAt a) : ∀ k ∈ m.n, 0 < k := by
  intro k hk
  obtain ⟨a, ha, rfl⟩ := List.mem_iff_getElem.mp hk
  have := h a (by rw [← hl]; exact ha)
  unfold Mesh.nAt at this
  rwa [List.getD_eq_getElem?_getD, List.getElem?_eq_getElem ha] at this

theorem mem_swapAt_pos (n : List Nat) (i j : Nat) (h : ∀ k ∈ n, 0 < k) (hi : i < n.length) (hj : j < n.length) :
    ∀ k ∈ swapAt n i j, 0 < k := by
  intro k hk
  obtain ⟨a, ha, rfl⟩ := List.mem_iff_getElem.mp hk
  have hlen : (swapAt n i j).length = n.length := swapAt_length n i j
  have ha' : a < n.length := by rw [← hlen]; exact ha
  have key : (swapAt n i j).getD a 0 ∈ n := by
    by_cases e1 : a = j
    · rw [e1, getD_swapAt_right _ _ _ _ hj]
      rw [List.getD_eq_getElem?_getD, List.getElem?_eq_getElem hi]; exact List.getElem_mem _
    · by_cases e2 : a = i
      · rw [e2, getD_swapAt_left _ _ _ _ (by intro h; exact e1 (e2 ▸ h)) hi]
        rw [List.getD_eq_getElem?_getD, List.getElem?_eq_getElem hj]; exact List.getElem_mem _
      · rw [getD_swapAt_other _ _ _ _ _ e2 e1]
        rw [List.getD_eq_getElem?_getD, List.getElem?_eq_getElem ha']; exact List.getElem_mem _
  rw [List.getD_eq_getElem?_getD, List.getElem?_eq_getElem ha] at key
  exact h _ key


theorem rot90_shape {α} (a : NDA α) (p q : Nat) (k : Int) :
    (rot90 a p q k).shape = if isOdd k then swapAt a.shape p q else a.shape := by
  unfold rot90 isOdd
  have hk : k % 4 = 0 ∨ k % 4 = 1 ∨ k % 4 = 2 ∨ k % 4 = 3 := by omega
  rcases hk with hk | hk | hk | hk
  · have : ¬ (k % 2 = 1) := by omega
    simp [hk, this]
  · have : k % 2 = 1 := by omega
    simp [hk, this, NDA.flip, NDA.swapaxes]
  · have : ¬ (k % 2 = 1) := by omega
    simp [hk, this, NDA.flip]
  · have : k % 2 = 1 := by omega
    simp [hk, this, NDA.flip, NDA.swapaxes]


end DFV.C13
