import DFV.Lemmas.C03b
/-! C03 helper lemmas, part c: array-level NumPy functions read cell by cell. -/
namespace DFV.C03
open DFV

/-- length of the last axis, 1 for 0-d arrays -/
def lastDim (s : List Nat) : Nat := if s = [] then 1 else lastAx s

theorem list_nil_or_concat (s : List Nat) : s = [] ∨ ∃ t m, s = t ++ [m] := by
  rcases List.eq_nil_or_concat s with h | ⟨t, m, h⟩
  · exact Or.inl h
  · exact Or.inr ⟨t, m, by simpa using h⟩

theorem lastDim_concat (t : List Nat) (m : Nat) : lastDim (t ++ [m]) = m := by
  unfold lastDim
  simp [getLastD_append_single]

theorem opdCell_length (a : NDA GQ) (i : List Nat) : (opdCell a i).length = lastDim a.shape := by
  unfold opdCell lastDim
  by_cases h : a.shape = []
  · simp [h]
  · simp [h, cellOfB]

theorem bproj_nil (idx : List Nat) : bproj [] idx = [] := by
  simp [bproj, bprojRev]

/-- reading the broadcast operand at `i ++ [c]` = reading its cell list at the broadcast component -/
theorem opdCell_getD (a : NDA GQ) (i : List Nat) (c : Nat)
    (hc : lastDim a.shape = 1 ∨ c < lastDim a.shape) :
    (opdCell a i).getD (if lastDim a.shape = 1 then 0 else c) GQ.zero = a.get (bproj a.shape (i ++ [c])) := by
  rcases list_nil_or_concat a.shape with h | ⟨t, m, h⟩
  · unfold opdCell lastDim
    simp [h, bproj_nil]
  · have hl : lastDim a.shape = m := by rw [h]; exact lastDim_concat t m
    have hne : ¬ a.shape = [] := by rw [h]; simp
    unfold opdCell
    simp only [hne, if_false, hl, cellOfB]
    rw [h, getLastD_append_single]
    by_cases hm : m = 1
    · subst hm
      simp only [if_true]
      rw [getD_tab _ _ _ _ (by omega), bproj_last_one t i c]
    · simp only [hm, if_false]
      have : c < m := by
        rcases hc with hc | hc
        · rw [hl] at hc; exact absurd hc hm
        · rw [hl] at hc; exact hc
      rw [getD_tab _ _ _ _ this]

theorem bshape_nil_left (t : List Nat) : bshape [] t = some t := by
  simp [bshape, bshapeRev]

theorem bshape_nil_right (t : List Nat) : bshape t [] = some t := by
  simp [bshape, bshapeRev_nil_right]

theorem bdim_one_left (m : Nat) : bdim 1 m = some m := by
  unfold bdim
  by_cases h : 1 = m
  · simp [h]
  · simp [h]

theorem bdim_one_right (m : Nat) : bdim m 1 = some m := by
  unfold bdim
  by_cases h : m = 1
  · simp [h]
  · simp [h]

/-- the last axis of a broadcast shape, in terms of `lastDim` -/
theorem bshape_lastDim (s t r : List Nat) (h : bshape s t = some r) (hr : r ≠ []) :
    bdim (lastDim s) (lastDim t) = some (lastAx r) := by
  rcases list_nil_or_concat s with hs | ⟨s', k, hs⟩
  · subst hs
    rw [bshape_nil_left] at h
    injection h with h
    subst h
    have : lastDim t = lastAx t := by simp [lastDim, hr]
    rw [this]
    exact bdim_one_left _
  · rcases list_nil_or_concat t with ht | ⟨t', m, ht⟩
    · subst ht
      rw [bshape_nil_right] at h
      injection h with h
      subst h
      have : lastDim s = lastAx s := by simp [lastDim, hr]
      rw [this]
      exact bdim_one_right _
    · subst hs; subst ht
      obtain ⟨d, r', hd, hr', _⟩ := bshape_last _ _ _ _ _ h
      rw [lastDim_concat, lastDim_concat, hr', getLastD_append_single]
      exact hd

/-- what `bdim k m = some d` says about `d` -/
theorem bdim_some (k m d : Nat) (h : bdim k m = some d) :
    d = (if k = 1 then m else k) ∧ (m = 1 ∨ m = d) := by
  unfold bdim at h
  by_cases h1 : k = m
  · subst h1; simp at h; subst h
    by_cases hk : k = 1 <;> simp [hk]
  · simp only [h1, if_false] at h
    by_cases h2 : k = 1
    · simp [h2] at h; subst h; simp [h2]
    · simp only [h2, if_false] at h
      by_cases h3 : m = 1
      · simp [h3] at h; subst h; simp [h2, h3]
      · simp [h3] at h

theorem cellOf_length (a : NDA GQ) (i : List Nat) (k : Nat) : (cellOf a i k).length = k := by
  simp [cellOf]

theorem bz_length (f : GQ → GQ → GQ) (xs ys : List GQ) :
    (bz f xs ys).length = (if xs.length = 1 then ys.length else xs.length) := by
  simp [bz]

/-- elementwise function on the broadcast views of two arrays at cell `i`: component `c`
is the function of the two arrays read at `i ++ [c]` through broadcasting -/
theorem bz_opdCell (fn : GQ → GQ → GQ) (A B : NDA GQ) (s : List Nat)
    (hs : bshape A.shape B.shape = some s) (hsne : s ≠ []) (i : List Nat) :
    bdim (lastDim A.shape) (lastDim B.shape) = some (lastAx s) ∧
    (bz fn (opdCell A i) (opdCell B i)).length = lastAx s ∧
    ∀ c, c < lastAx s →
      (bz fn (opdCell A i) (opdCell B i)).getD c GQ.zero =
        fn (A.get (bproj A.shape (i ++ [c]))) (B.get (bproj B.shape (i ++ [c]))) := by
  have hbd := bshape_lastDim _ _ _ hs hsne
  obtain ⟨hd1, hd2⟩ := bdim_some _ _ _ hbd
  have hlen : (bz fn (opdCell A i) (opdCell B i)).length = lastAx s := by
    rw [bz_length, opdCell_length, opdCell_length]; exact hd1.symm
  refine ⟨hbd, hlen, ?_⟩
  intro c h1
  have e1 : (bz fn (opdCell A i) (opdCell B i)).getD c GQ.zero =
      fn ((opdCell A i).getD (if lastDim A.shape = 1 then 0 else c) GQ.zero)
         ((opdCell B i).getD (if lastDim B.shape = 1 then 0 else c) GQ.zero) := by
    unfold bz
    rw [getD_tab _ _ _ _ (by rw [opdCell_length, opdCell_length, ← hd1]; exact h1)]
    simp only [opdCell_length]
  rw [e1]
  have hcA : lastDim A.shape = 1 ∨ c < lastDim A.shape := by
    by_cases hA : lastDim A.shape = 1
    · exact Or.inl hA
    · right; rw [hd1] at h1; simpa [hA] using h1
  have hcB : lastDim B.shape = 1 ∨ c < lastDim B.shape := by
    rcases hd2 with hB | hB
    · exact Or.inl hB
    · right; rw [hB]; exact h1
  rw [opdCell_getD A i c hcA, opdCell_getD B i c hcB]

/-- **array-level = cell-level** for a NumPy binary function followed by the constructor:
if `function(A, B)` is accepted by `Field(mesh, nvdim=res.shape[-1], value=res, …)` then
cell `i` of the new field is the function applied, with broadcasting of one-element
lists, to the component lists of `A` and `B` at cell `i`. -/
theorem npBin_cells (fn : GQ → GQ → GQ) (mesh : Mesh) (A B res : NDA GQ)
    (hrank : mesh.n.length < A.shape.length ∨ mesh.n.length < B.shape.length)
    (hres : npBin fn A B = .ok res)
    (kind : Kind) (vd : Option (List String)) (valid : Option (NDA Bool)) (vm : Option VMap)
    (unit : Option String) (g : CF)
    (hvs : ∀ v, valid = some v → v.shape = mesh.n)
    (hg : mkField mesh (lastAx res.shape) (.arr res) kind vd valid vm unit = .ok g) :
    g.mesh = mesh ∧ CFwf g ∧ g.unit = unit ∧ g.kind = kind.ctor ∧
    bdim (lastDim A.shape) (lastDim B.shape) = some g.nvdim ∧
    (∀ i, inRange mesh.n i = true → g.valid.get i = validAt valid i) ∧
    (∀ i, inRange mesh.n i = true →
      cellOf g.data i g.nvdim = bz fn (opdCell A i) (opdCell B i)) := by
  unfold npBin at hres
  cases hs : bshape A.shape B.shape with
  | none => simp [hs] at hres
  | some s =>
    simp only [hs] at hres
    injection hres with hres
    have hslen := bshape_length _ _ _ hs
    have hrk : mesh.n.length < res.shape.length := by
      rw [← hres]; simp only; omega
    obtain ⟨hm, hn, hwf, hu, hk, hl, hlen, hb, hdata, hvalid⟩ :=
      mkField_arr mesh _ res kind vd valid vm unit g hrk hvs hg
    have hsne : s ≠ [] := by
      intro h0; rw [← hres] at hlen; simp [h0] at hlen
    have hshape : res.shape = s := by rw [← hres]
    have hbd0 := (bz_opdCell fn A B s hs hsne []).1
    refine ⟨hm, hwf, hu, hk, ?_, hvalid, ?_⟩
    · rw [hn, hshape]; exact hbd0
    intro i hi
    obtain ⟨_, hbl, hbg⟩ := bz_opdCell fn A B s hs hsne i
    apply List.ext_getElem
    · rw [cellOf_length, hbl, hn, hshape]
    · intro c h1 h2
      rw [cellOf_length] at h1
      have hc : c < lastAx s := by rw [← hshape]; rw [hn] at h1; exact h1
      have hidx : inRange (mesh.n ++ [lastAx res.shape]) (i ++ [c]) = true := by
        rw [inRange_append_single]; exact ⟨hi, by rw [hshape]; exact hc⟩
      simp only [cellOf, getElem_tab]
      rw [hdata _ hidx]
      have hil : (i ++ [c]).length = mesh.n.length + 1 := by
        simp [inRange_length _ _ hi]
      have := hbg c hc
      rw [List.getD_eq_getElem?_getD, List.getElem?_eq_getElem h2] at this
      simp only [Option.getD_some] at this
      rw [this, ← hres]
      simp only
      rw [bproj_bproj A.shape s (i ++ [c]) (into_left _ _ _ hs) (by rw [← hshape, hlen, hil]),
          bproj_bproj B.shape s (i ++ [c]) (into_right _ _ _ hs) (by rw [← hshape, hlen, hil])]

/-- the broadcast view of a well-formed field array at an in-range cell is the cell itself -/
theorem opdCell_field (f : CF) (hw : CFwf f) (i : List Nat) (hi : inRange f.mesh.n i = true) :
    opdCell f.data i = cellOf f.data i f.nvdim := by
  obtain ⟨hs, _, hp⟩ := hw
  unfold opdCell cellOfB cellOf
  have hne : ¬ f.data.shape = [] := by rw [hs]; simp
  simp only [hne, if_false]
  rw [hs, getLastD_append_single]
  apply tab_congr
  intro c hc
  rw [bproj_inRange]
  rw [inRange_append_single]
  exact ⟨hi, hc⟩

end DFV.C03
