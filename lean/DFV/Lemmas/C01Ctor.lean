import Std.Data.String.ToNat
import DFV.Lemmas.C01Tol
/-! C01 helper lemmas, round 2: what the constructors `Region(p1, p2)` and `Mesh(region, n)`
accept (as equivalences on the inputs) and what they establish (the invariants every other
theorem assumes), volume of a region in closed form. -/
namespace DFV.C01
open DFV DFV.Mesh

/-! ### default dimension names never repeat (same argument as in `Lemmas/C10Str.lean`) -/

theorem hasDup_false_iff_nodup (l : List String) : hasDup l = false ↔ l.Nodup := by
  induction l with
  | nil => simp [hasDup]
  | cons x xs ih =>
    simp only [hasDup, Bool.or_eq_false_iff, List.nodup_cons, ih]
    constructor
    · rintro ⟨h1, h2⟩
      refine ⟨?_, h2⟩
      intro hm
      have : xs.contains x = true := by simpa using hm
      rw [this] at h1; cases h1
    · rintro ⟨h1, h2⟩
      refine ⟨?_, h2⟩
      simpa using h1

theorem prefixed_inj (pre : String) (i j : Nat) (h : pre ++ toString i = pre ++ toString j) : i = j := by
  have := congrArg String.toList h
  simp only [String.toList_append] at this
  have h2 := List.append_cancel_left this
  have h3 : toString i = toString j := String.toList_inj.mp h2
  exact Nat.repr_inj.mp h3

theorem hasDup_defaultDims (n : Nat) : hasDup (Region.defaultDims n) = false := by
  unfold Region.defaultDims
  split
  · rename_i h
    have : n = 0 ∨ n = 1 ∨ n = 2 ∨ n = 3 := by omega
    rcases this with rfl | rfl | rfl | rfl <;> decide
  · rw [hasDup_false_iff_nodup]
    unfold List.Nodup
    rw [List.pairwise_map]
    exact (List.nodup_range (n := n)).imp fun hab e => hab (prefixed_inj "x" _ _ e)

theorem defaultDims_length (n : Nat) : (Region.defaultDims n).length = n := by
  unfold Region.defaultDims
  split
  · simp; omega
  · simp

/-! ### `Region(p1, p2, dims, units)` -/

/-- what the `dims` / `units` setters demand of an explicit argument -/
def DimsArgOk (n : Nat) (dims : Option (List String)) : Prop :=
  ∀ d, dims = some d → d.length = n ∧ hasDup d = false

def UnitsArgOk (n : Nat) (units : Option (List String)) : Prop :=
  ∀ u, units = some u → u.length = n

theorem dimsOk_iff (n : Nat) (dims : Option (List String)) :
    (∃ d, Region.dimsOk n dims = .ok d) ↔ DimsArgOk n dims := by
  unfold DimsArgOk
  cases dims with
  | none => simp [Region.dimsOk]
  | some d0 =>
    simp only [Region.dimsOk]
    constructor
    · rintro ⟨d, h⟩
      split at h
      · cases h
      · rename_i h1
        split at h
        · cases h
        · rename_i h2
          intro d' e; cases e
          exact ⟨by simpa using h1, by simpa using h2⟩
    · intro h
      obtain ⟨h1, h2⟩ := h d0 rfl
      rw [if_neg (not_not.mpr h1), h2]
      exact ⟨d0, rfl⟩

theorem dimsOk_spec (n : Nat) (dims : Option (List String)) (d : List String) (h : Region.dimsOk n dims = .ok d) :
    d.length = n ∧ hasDup d = false ∧ (∀ d', dims = some d' → d = d') ∧ (dims = none → d = Region.defaultDims n) := by
  cases dims with
  | none =>
    simp only [Region.dimsOk] at h
    cases h
    exact ⟨defaultDims_length n, hasDup_defaultDims n, (fun _ e => by cases e), fun _ => rfl⟩
  | some d0 =>
    simp only [Region.dimsOk] at h
    split at h
    · cases h
    · rename_i h1
      split at h
      · cases h
      · rename_i h2
        cases h
        exact ⟨by simpa using h1, by simpa using h2, (fun d' e => by cases e; rfl), fun e => by cases e⟩

theorem unitsOk_iff (n : Nat) (units : Option (List String)) :
    (∃ u, Region.unitsOk n units = .ok u) ↔ UnitsArgOk n units := by
  unfold UnitsArgOk
  cases units with
  | none => simp [Region.unitsOk]
  | some u0 =>
    simp only [Region.unitsOk]
    constructor
    · rintro ⟨u, h⟩
      split at h
      · cases h
      · rename_i h1
        intro u' e; cases e
        simpa using h1
    · intro h
      rw [if_neg (not_not.mpr (h u0 rfl))]
      exact ⟨u0, rfl⟩

theorem unitsOk_spec (n : Nat) (units : Option (List String)) (u : List String) (h : Region.unitsOk n units = .ok u) :
    u.length = n := by
  cases units with
  | none => simp only [Region.unitsOk] at h; cases h; simp
  | some u0 =>
    simp only [Region.unitsOk] at h
    split at h
    · cases h
    · rename_i h1; cases h; simpa using h1

/-- everything `Region.__init__` establishes when it succeeds -/
theorem region_mk_spec (p1 p2 : List Rat) (dims units : Option (List String)) (tol : Rat) (r : Region)
    (h : Region.mk? p1 p2 dims units tol = .ok r) :
    p1.length = p2.length ∧ p1.length ≠ 0 ∧ (∀ a, a < p1.length → p1.getD a 0 ≠ p2.getD a 0) ∧
    r.Inv ∧ r.ndim = p1.length ∧ r.tol = tol ∧
    (∀ a, a < p1.length → r.lo a = min (p1.getD a 0) (p2.getD a 0) ∧ r.hi a = max (p1.getD a 0) (p2.getD a 0)) ∧
    (∀ d, dims = some d → r.dims = d) ∧ (dims = none → r.dims = Region.defaultDims p1.length) := by
  unfold Region.mk? at h
  split at h
  · cases h
  rename_i hl
  split at h
  · cases h
  rename_i h0
  split at h
  · cases h
  rename_i d hd
  split at h
  · cases h
  rename_i u hu
  split at h
  · cases h
  rename_i hne
  injection h with h
  subst h
  have hl : p1.length = p2.length := not_not.mp hl
  have hne' : ∀ a, a < p1.length → p1.getD a 0 ≠ p2.getD a 0 := by
    have : allLt p1.length (fun a => decide (p1.getD a 0 ≠ p2.getD a 0)) = true := by simpa using hne
    intro a ha
    have := (allLt_iff _ _).mp this a ha
    simpa using this
  obtain ⟨d1, d2, d3, d4⟩ := dimsOk_spec _ _ _ hd
  have u1 := unitsOk_spec _ _ _ hu
  have hlo : ∀ a, a < p1.length →
      Region.lo ⟨tab p1.length fun a => min (p1.getD a 0) (p2.getD a 0),
        tab p1.length fun a => max (p1.getD a 0) (p2.getD a 0), d, u, tol⟩ a = min (p1.getD a 0) (p2.getD a 0) := by
    intro a ha; unfold Region.lo; simp only; rw [getD_tab _ _ _ _ ha]
  have hhi : ∀ a, a < p1.length →
      Region.hi ⟨tab p1.length fun a => min (p1.getD a 0) (p2.getD a 0),
        tab p1.length fun a => max (p1.getD a 0) (p2.getD a 0), d, u, tol⟩ a = max (p1.getD a 0) (p2.getD a 0) := by
    intro a ha; unfold Region.hi; simp only; rw [getD_tab _ _ _ _ ha]
  refine ⟨hl, h0, hne', ⟨?_, ?_, ?_, ?_, d2, ?_⟩, ?_, rfl, fun a ha => ⟨hlo a ha, hhi a ha⟩, ?_, ?_⟩
  · simp only [tab_length]; omega
  · simp only [tab_length]
  · simp only [tab_length]; exact d1
  · simp only [tab_length]; exact u1
  · intro a ha
    simp only [tab_length] at ha
    rw [hlo a ha, hhi a ha]
    have := hne' a ha
    rcases lt_or_gt_of_ne this with h | h
    · rw [min_eq_left h.le, max_eq_right h.le]; exact h
    · rw [min_eq_right h.le, max_eq_left h.le]; exact h
  · simp [Region.ndim]
  · intro d' e; exact d3 d' e
  · intro e; exact d4 e

/-- `Region(p1, p2, dims, units)` exists exactly when the corner lists have the same non-zero
length, differ in every coordinate, and explicit `dims` / `units` have that length (`dims`
without repetition) -/
theorem region_mk_ok_iff' (p1 p2 : List Rat) (dims units : Option (List String)) (tol : Rat) :
    (∃ r, Region.mk? p1 p2 dims units tol = .ok r) ↔
      p1.length = p2.length ∧ p1.length ≠ 0 ∧ DimsArgOk p1.length dims ∧ UnitsArgOk p1.length units ∧
      ∀ a, a < p1.length → p1.getD a 0 ≠ p2.getD a 0 := by
  constructor
  · rintro ⟨r, h⟩
    obtain ⟨a1, a2, a3, _⟩ := region_mk_spec _ _ _ _ _ _ h
    refine ⟨a1, a2, ?_, ?_, a3⟩
    · rw [← dimsOk_iff]
      unfold Region.mk? at h
      rw [if_neg (not_not.mpr a1), if_neg a2] at h
      split at h
      · cases h
      · rename_i d hd; exact ⟨d, hd⟩
    · rw [← unitsOk_iff]
      unfold Region.mk? at h
      rw [if_neg (not_not.mpr a1), if_neg a2] at h
      split at h
      · cases h
      · split at h
        · cases h
        · rename_i u hu; exact ⟨u, hu⟩
  · rintro ⟨a1, a2, a3, a4, a5⟩
    obtain ⟨d, hd⟩ := (dimsOk_iff _ _).mpr a3
    obtain ⟨u, hu⟩ := (unitsOk_iff _ _).mpr a4
    unfold Region.mk?
    rw [if_neg (not_not.mpr a1), if_neg a2]
    simp only [hd, hu]
    have : allLt p1.length (fun a => decide (p1.getD a 0 ≠ p2.getD a 0)) = true := by
      rw [allLt_iff]; intro a ha; simpa using a5 a ha
    rw [this]
    exact ⟨_, rfl⟩

/-! ### `Mesh(region, n)` -/

theorem mkN_ok_iff' (r : Region) (n : List Nat) (bc : String) (m : Mesh) :
    Mesh.mkN? r n bc = .ok m ↔
      n.length = r.ndim ∧ (∀ a, a < r.ndim → 1 ≤ n.getD a 0) ∧ bcOk r.dims bc.toLower = true ∧
      m = { region := r, n := n, bc := bc.toLower, subs := [] } := by
  unfold Mesh.mkN?
  by_cases hl : n.length = r.ndim
  · rw [if_neg (not_not.mpr hl)]
    by_cases hz : n.any (· = 0) = true
    · rw [if_pos hz]
      constructor
      · intro h; cases h
      · rintro ⟨_, h2, _⟩
        exfalso
        rw [List.any_eq_true] at hz
        obtain ⟨k, hk, hk0⟩ := hz
        obtain ⟨a, ha, e⟩ := List.getElem_of_mem hk
        have := h2 a (by rw [← hl]; exact ha)
        rw [List.getD_eq_getElem?_getD, List.getElem?_eq_getElem ha, Option.getD_some, e] at this
        simp at hk0; omega
    · rw [if_neg hz]
      have hpos : ∀ a, a < r.ndim → 1 ≤ n.getD a 0 := by
        intro a ha
        have ha' : a < n.length := by rw [hl]; exact ha
        rw [List.getD_eq_getElem?_getD, List.getElem?_eq_getElem ha', Option.getD_some]
        rcases Nat.eq_zero_or_pos n[a] with h0 | h0
        · exfalso; apply hz
          rw [List.any_eq_true]
          exact ⟨n[a], List.getElem_mem _, by simp [h0]⟩
        · exact h0
      by_cases hb : bcOk r.dims bc.toLower = true
      · rw [hb]
        simp only [Bool.not_true, Bool.false_eq_true, if_false]
        constructor
        · intro h; injection h with h; exact ⟨hl, hpos, trivial, h.symm⟩
        · rintro ⟨_, _, _, h⟩; rw [h]
      · have hb' : bcOk r.dims bc.toLower = false := by simpa using hb
        rw [hb']
        simp only [Bool.not_false, if_true]
        constructor
        · intro h; cases h
        · rintro ⟨_, _, h, _⟩; cases h
  · rw [if_pos hl]
    constructor
    · intro h; cases h
    · rintro ⟨h, _⟩; exact absurd h hl

/-- a mesh built by `Mesh(region, n)` on a region with the region invariant has the mesh invariant -/
theorem mkN_inv (r : Region) (hr : r.Inv) (n : List Nat) (bc : String) (m : Mesh)
    (h : Mesh.mkN? r n bc = .ok m) : m.Inv ∧ m.region = r ∧ m.n = n := by
  obtain ⟨h1, h2, _, h4⟩ := (mkN_ok_iff' r n bc m).mp h
  subst h4
  exact ⟨⟨hr, h1, fun a ha => h2 a ha⟩, rfl, rfl⟩

/-! ### volume -/

def intProd : List Int → Int
  | [] => 1
  | x :: xs => x * intProd xs

theorem ratProd_cast_int (l : List Int) : ratProd (l.map (Int.cast : Int → Rat)) = ((intProd l : Int) : Rat) := by
  induction l with
  | nil => simp [ratProd, intProd]
  | cons x xs ih => simp only [List.map_cons, ratProd, intProd]; push_cast; rw [ih]

theorem ratProd_pos (l : List Rat) (h : ∀ x ∈ l, 0 < x) : 0 < ratProd l := by
  induction l with
  | nil => simp [ratProd]
  | cons x xs ih =>
    simp only [ratProd]
    exact mul_pos (h x (by simp)) (ih fun y hy => h y (by simp [hy]))

end DFV.C01
