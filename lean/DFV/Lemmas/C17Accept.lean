import DFV.Lemmas.C17Attrs
import DFV.Lemmas.C17Spacing2
import DFV.Props.C01
/-! Exact acceptance conditions of the steps of `from_xarray`, each as an equivalence on the
inputs with its refusal classes, and their composition: which DataArrays the geometry steps accept
and which mesh results (through the acceptance theorems of `Region(…)` and `Mesh(region, cell)`
of C01). -/
namespace DFV.C17
open DFV

theorem bind_ok_iff {β γ : Type} (x : M β) (f : β → M γ) (c : γ) :
    x.bind f = .ok c ↔ ∃ b, x = .ok b ∧ f b = .ok c := by
  cases x with
  | error e => simp [Except.bind]
  | ok b => simp [Except.bind]

section
variable {α : Type}

/-! ## cell sizes -/

/-- the cell sizes the importer works with: the attribute, else the mean step of every
geometric coordinate -/
def cellUsed (xa : XA α) : List Rat :=
  match xa.attrs.cell with
  | some c => c
  | none => (geo xa).map fun a => meanDiff a.values

/-- what inferring the cell sizes needs: no length-1 entry among `xa.values.shape[:-1]` and at
least two values on every geometric coordinate -/
def InferOk (xa : XA α) : Prop :=
  xa.attrs.cell = none → (∀ x ∈ xa.data.shape.dropLast, x ≠ 1) ∧ ∀ ax ∈ geo xa, 2 ≤ ax.values.length

theorem cellOf_ok_iff (xa : XA α) (c : List Rat) : cellOf xa = .ok c ↔ InferOk xa ∧ c = cellUsed xa := by
  unfold cellOf InferOk cellUsed
  cases hc : xa.attrs.cell with
  | some c0 =>
    simp only [reduceCtorEq, false_imp_iff, true_and, Except.ok.injEq]
    exact eq_comm
  | none =>
    simp only [true_imp_iff]
    by_cases h1 : xa.data.shape.dropLast.any (· == 1) = true
    · rw [if_pos h1]
      constructor
      · intro h; cases h
      · rintro ⟨⟨h2, -⟩, -⟩
        obtain ⟨x, hx, hx1⟩ := List.any_eq_true.mp h1
        exact absurd (by simpa using hx1) (h2 x hx)
    · rw [if_neg h1]
      have h1' : ∀ x ∈ xa.data.shape.dropLast, x ≠ 1 := by
        intro x hx hx1
        apply h1
        exact List.any_eq_true.mpr ⟨x, hx, by simp [hx1]⟩
      by_cases h2 : (geo xa).any (fun a => decide (a.values.length ≤ 1)) = true
      · rw [if_pos h2]
        constructor
        · intro h; cases h
        · rintro ⟨⟨-, h3⟩, -⟩
          obtain ⟨ax, hax, hl⟩ := List.any_eq_true.mp h2
          have := h3 ax hax
          have := of_decide_eq_true hl
          omega
      · rw [if_neg h2]
        have h2' : ∀ ax ∈ geo xa, 2 ≤ ax.values.length := by
          intro ax hax
          by_contra hlt
          apply h2
          exact List.any_eq_true.mpr ⟨ax, hax, decide_eq_true (by omega)⟩
        simp only [Except.ok.injEq]
        constructor
        · intro h; exact ⟨⟨h1', h2'⟩, h.symm⟩
        · rintro ⟨-, h⟩; exact h.symm

/-- the two refusal classes of the cell inference: `KeyError` iff `cell` is absent and
`xa.values.shape[:-1]` contains a 1; `ValueError` (the NaN cell size `Mesh` refuses) iff `cell` is
absent, no such 1, and some geometric coordinate has fewer than two values -/
theorem cellOf_err_iff (xa : XA α) :
    (cellOf xa = .error .key ↔ xa.attrs.cell = none ∧ 1 ∈ xa.data.shape.dropLast) ∧
    (cellOf xa = .error .value ↔ xa.attrs.cell = none ∧ ¬ 1 ∈ xa.data.shape.dropLast ∧
      ∃ ax ∈ geo xa, ax.values.length ≤ 1) := by
  unfold cellOf
  cases hc : xa.attrs.cell with
  | some c0 => simp
  | none =>
    simp only [true_and]
    by_cases h1 : xa.data.shape.dropLast.any (· == 1) = true
    · rw [if_pos h1]
      have : 1 ∈ xa.data.shape.dropLast := by
        obtain ⟨x, hx, hx1⟩ := List.any_eq_true.mp h1
        have : x = 1 := by simpa using hx1
        rwa [this] at hx
      simp [this]
    · rw [if_neg h1]
      have h1' : ¬ 1 ∈ xa.data.shape.dropLast := by
        intro hx
        exact h1 (List.any_eq_true.mpr ⟨1, hx, by simp⟩)
      by_cases h2 : (geo xa).any (fun a => decide (a.values.length ≤ 1)) = true
      · rw [if_pos h2]
        obtain ⟨ax, hax, hl⟩ := List.any_eq_true.mp h2
        refine ⟨by simp [h1'], ?_⟩
        simp only [true_iff]
        exact ⟨h1', ax, hax, of_decide_eq_true hl⟩
      · rw [if_neg h2]
        refine ⟨by simp [h1'], ?_⟩
        simp only [reduceCtorEq, false_iff, not_and, not_exists]
        intro _ ax hax hl
        exact h2 (List.any_eq_true.mpr ⟨ax, hax, decide_eq_true hl⟩)

/-! ## corners -/

/-- the lower corner the importer passes to `Region`: the attribute, else first coordinate minus
half a cell -/
def p1Used (xa : XA α) : List Rat :=
  match xa.attrs.pmin with
  | some p => p
  | none => List.zipWith (fun a c => a.values.getD 0 0 - c / 2) (geo xa) (cellUsed xa)

/-- the upper corner: the attribute, else last coordinate plus half a cell -/
def p2Used (xa : XA α) : List Rat :=
  match xa.attrs.pmax with
  | some p => p
  | none => List.zipWith (fun a c => a.values.getD (a.values.length - 1) 0 + c / 2) (geo xa) (cellUsed xa)

/-- what inferring a corner needs: every geometric coordinate that is paired with a cell size
has at least one value -/
def CornerOk (att : Option (List Rat)) (xa : XA α) : Prop :=
  att = none → ∀ p ∈ List.zip (geo xa) (cellUsed xa), p.1.values ≠ []

theorem any_isEmpty_iff (l : List (Axis × Rat)) :
    l.any (fun p => p.1.values.isEmpty) = false ↔ ∀ p ∈ l, p.1.values ≠ [] := by
  rw [List.any_eq_false]
  constructor
  · intro h p hp he; have := h p hp; simp [he] at this
  · intro h p hp; have := h p hp; simpa using this

theorem p1Of_ok_iff (xa : XA α) (p : List Rat) :
    p1Of xa (cellUsed xa) = .ok p ↔ CornerOk xa.attrs.pmin xa ∧ p = p1Used xa := by
  unfold p1Of CornerOk p1Used
  cases hp : xa.attrs.pmin with
  | some p0 => simp only [reduceCtorEq, false_imp_iff, true_and, Except.ok.injEq]; exact eq_comm
  | none =>
    simp only [true_imp_iff]
    cases ha : (List.zip (geo xa) (cellUsed xa)).any (fun p => p.1.values.isEmpty) with
    | true =>
      simp only [if_true, reduceCtorEq, false_iff, not_and]
      intro h
      have := (any_isEmpty_iff _).mpr h
      rw [ha] at this; cases this
    | false =>
      simp only [Bool.false_eq_true, if_false, Except.ok.injEq]
      exact ⟨fun h => ⟨(any_isEmpty_iff _).mp ha, h.symm⟩, fun h => h.2.symm⟩

theorem p2Of_ok_iff (xa : XA α) (p : List Rat) :
    p2Of xa (cellUsed xa) = .ok p ↔ CornerOk xa.attrs.pmax xa ∧ p = p2Used xa := by
  unfold p2Of CornerOk p2Used
  cases hp : xa.attrs.pmax with
  | some p0 => simp only [reduceCtorEq, false_imp_iff, true_and, Except.ok.injEq]; exact eq_comm
  | none =>
    simp only [true_imp_iff]
    cases ha : (List.zip (geo xa) (cellUsed xa)).any (fun p => p.1.values.isEmpty) with
    | true =>
      simp only [if_true, reduceCtorEq, false_iff, not_and]
      intro h
      have := (any_isEmpty_iff _).mpr h
      rw [ha] at this; cases this
    | false =>
      simp only [Bool.false_eq_true, if_false, Except.ok.injEq]
      exact ⟨fun h => ⟨(any_isEmpty_iff _).mp ha, h.symm⟩, fun h => h.2.symm⟩

/-- a corner that cannot be inferred is an `IndexError` (a dimension of size 0) -/
theorem p1Of_err (xa : XA α) (e : Err) (h : p1Of xa (cellUsed xa) = .error e) : e = .index := by
  unfold p1Of at h
  split at h
  · cases h
  · split at h
    · injection h with h; exact h.symm
    · cases h

/-! ## units, tolerance -/

/-- the units the region gets: the coordinates' if EVERY geometric coordinate has them, else the
default `m` on every axis -/
def unitsUsed (xa : XA α) : List String :=
  if (geo xa).any (fun a => a.units.isNone) then List.replicate (geo xa).length "m"
  else (geo xa).map fun a => a.units.getD ""

theorem unitsOk_unitsOf (xa : XA α) (n : Nat) (hn : (geo xa).length = n) :
    Region.unitsOk n (unitsOf xa) = .ok (unitsUsed xa) := by
  unfold unitsOf unitsUsed
  split
  · rw [hn]; rfl
  · unfold Region.unitsOk
    simp [hn]

theorem unitsArgOk_unitsOf (xa : XA α) (n : Nat) : C01.UnitsArgOk n (unitsOf xa) ↔ (unitsOf xa = none ∨ (geo xa).length = n) := by
  unfold C01.UnitsArgOk unitsOf
  split
  · simp
  · simp

/-! ## the geometry steps: factorisation -/

/-- the region the importer builds before the tolerance factor is assigned -/
def regionUsed (xa : XA α) : Region :=
  { pmin := tab (p1Used xa).length fun a => min ((p1Used xa).getD a 0) ((p2Used xa).getD a 0),
    pmax := tab (p1Used xa).length fun a => max ((p1Used xa).getD a 0) ((p2Used xa).getD a 0),
    dims := (geo xa).map Axis.name, units := unitsUsed xa, tol := defaultTol }

theorem regionMk_eq (p1 p2 : List Rat) (d : List String) (units : Option (List String)) (tol : Rat) (r : Region)
    (h : Region.mk? p1 p2 (some d) units tol = .ok r) :
    ∃ u, Region.unitsOk p1.length units = .ok u ∧
      r = { pmin := tab p1.length fun a => min (p1.getD a 0) (p2.getD a 0),
            pmax := tab p1.length fun a => max (p1.getD a 0) (p2.getD a 0), dims := d, units := u, tol := tol } := by
  unfold Region.mk? at h
  split at h
  · cases h
  split at h
  · cases h
  split at h
  · cases h
  next dd hd =>
  split at h
  · cases h
  next uu hu =>
  split at h
  · cases h
  injection h with h
  obtain ⟨e1, -, -⟩ := dimsOk_inv _ _ _ hd
  exact ⟨uu, hu, by rw [← h, e1]⟩

theorem mkCellNow_eq (r : Region) (cell : List Rat) : mkCellNow? r cell = Mesh.mkCell? r cell "" := by
  unfold mkCellNow?
  cases h : Mesh.mkCell? r cell "" with
  | error e => rfl
  | ok m =>
    simp only [Except.bind]
    have hn : m.n.any (fun k => decide (k < 1)) = false := by
      unfold Mesh.mkCell? at h
      split at h; · cases h
      split at h; · cases h
      split at h; · cases h
      split at h; · cases h
      split at h; · cases h
      next h5 =>
      split at h; · cases h
      injection h with h
      rw [← h]
      have h5' : allLt r.ndim (fun a => decide (1 ≤ (Mesh.roundHalfEven (r.edge a / cell.getD a 0)).toNat)) = true := by
        simpa using h5
      rw [allLt_iff] at h5'
      rw [List.any_eq_false]
      intro k hk
      obtain ⟨a, ha, rfl⟩ := mem_tab _ _ _ hk
      have := of_decide_eq_true (h5' a ha)
      intro hd
      have := of_decide_eq_true hd
      omega
    rw [hn]; rfl

/-- **The geometry steps, factored**: they succeed with mesh `m` iff the spacing specification
holds, cell sizes and corners can be taken or inferred, `Region(p1, p2, dims, units)` accepts the
corners and `Mesh(region, cell)` accepts the cell sizes; `m` is that mesh with the tolerance factor
of the attribute -/
theorem geometryOf_ok_iff (xa : XA α) (m : Mesh) :
    geometryOf xa = .ok m ↔
      (∀ ax ∈ geo xa, EvenSpec ax.values) ∧ InferOk xa ∧ CornerOk xa.attrs.pmin xa ∧ CornerOk xa.attrs.pmax xa ∧
      ∃ r m0, Region.mk? (p1Used xa) (p2Used xa) (some ((geo xa).map Axis.name)) (unitsOf xa) defaultTol = .ok r ∧
        Mesh.mkCell? r (cellUsed xa) "" = .ok m0 ∧ m = setTol m0 xa.attrs.tol := by
  unfold geometryOf
  rw [bind_ok_iff]
  constructor
  · rintro ⟨u, h1, h2⟩
    rw [bind_ok_iff] at h2
    obtain ⟨cell, h2, h3⟩ := h2
    obtain ⟨hinf, rfl⟩ := (cellOf_ok_iff xa cell).mp h2
    unfold meshOf at h3
    rw [bind_ok_iff] at h3
    obtain ⟨p1, h4, h3⟩ := h3
    rw [bind_ok_iff] at h3
    obtain ⟨p2, h5, h3⟩ := h3
    rw [bind_ok_iff] at h3
    obtain ⟨r, h6, h3⟩ := h3
    rw [bind_ok_iff] at h3
    obtain ⟨m0, h7, h3⟩ := h3
    obtain ⟨hc1, rfl⟩ := (p1Of_ok_iff xa p1).mp h4
    obtain ⟨hc2, rfl⟩ := (p2Of_ok_iff xa p2).mp h5
    injection h3 with h3
    rw [mkCellNow_eq] at h7
    exact ⟨(checkSpacing_iff xa).mp h1, hinf, hc1, hc2, r, m0, h6, h7, h3.symm⟩
  · rintro ⟨hs, hinf, hc1, hc2, r, m0, h6, h7, rfl⟩
    refine ⟨(), (checkSpacing_iff xa).mpr hs, ?_⟩
    rw [bind_ok_iff]
    refine ⟨cellUsed xa, (cellOf_ok_iff xa _).mpr ⟨hinf, rfl⟩, ?_⟩
    unfold meshOf
    rw [(p1Of_ok_iff xa _).mpr ⟨hc1, rfl⟩, (p2Of_ok_iff xa _).mpr ⟨hc2, rfl⟩]
    simp only [Except.bind]
    rw [h6]
    simp only []
    rw [mkCellNow_eq, h7]

theorem setTol_n (m : Mesh) (t : Option Rat) : (setTol m t).n = m.n := by cases t <;> rfl

theorem defaultTol_nonneg : (0 : Rat) ≤ defaultTol := by unfold defaultTol; norm_num

theorem regionUsed_ndim (xa : XA α) : (regionUsed xa).ndim = (p1Used xa).length := by
  unfold regionUsed Region.ndim
  simp only [tab_length]

/-- `Region.mk?` on the importer's arguments returns `regionUsed` -/
theorem regionMk_used (xa : XA α) (r : Region)
    (h : Region.mk? (p1Used xa) (p2Used xa) (some ((geo xa).map Axis.name)) (unitsOf xa) defaultTol = .ok r) :
    r = regionUsed xa ∧ (geo xa).length = (p1Used xa).length := by
  have hd := ((C01.region_mk_ok_iff _ _ _ _ _).mp ⟨r, h⟩).2.2.1 _ rfl
  have hlen : (geo xa).length = (p1Used xa).length := by rw [← hd.1, List.length_map]
  obtain ⟨u, hu, hr⟩ := regionMk_eq _ _ _ _ _ _ h
  rw [unitsOk_unitsOf xa _ hlen] at hu
  injection hu with hu
  refine ⟨?_, hlen⟩
  rw [hr, ← hu]
  rfl

/-- **The geometry steps, from the inputs alone**: `from_xarray` builds mesh `m` iff
* every geometric coordinate meets the spacing specification;
* `cell` is present, or `xa.values.shape[:-1]` has no 1 and every coordinate has two values;
* `pmin` / `pmax` are present or every coordinate has a value;
* the two corners have the same non-zero length, one per geometric dimension, the dimension names
  are distinct, and the corners differ on every axis (`Region`);
* there is one positive cell size per axis, no cell exceeds its edge by more than the comparison
  tolerance, and every edge is within `min(cell)/1000` of a whole number `≥ 1` of cells (`Mesh`);
and `m` is the mesh on `regionUsed` (componentwise min / max of the corners, the names, the units,
tolerance factor from the attribute or the default) with those whole numbers as counts. -/
theorem geometryOf_ok_iff_inputs (xa : XA α) (m : Mesh) :
    geometryOf xa = .ok m ↔
      (∀ ax ∈ geo xa, EvenSpec ax.values) ∧ InferOk xa ∧ CornerOk xa.attrs.pmin xa ∧ CornerOk xa.attrs.pmax xa ∧
      ((p1Used xa).length = (p2Used xa).length ∧ (p1Used xa).length ≠ 0 ∧ (geo xa).length = (p1Used xa).length ∧
        hasDup ((geo xa).map Axis.name) = false ∧
        ∀ a, a < (p1Used xa).length → (p1Used xa).getD a 0 ≠ (p2Used xa).getD a 0) ∧
      ((cellUsed xa).length = (p1Used xa).length ∧ (∀ c ∈ cellUsed xa, 0 < c) ∧
        ∀ a, a < (p1Used xa).length → (cellUsed xa).getD a 0 - (regionUsed xa).edge a
          ≤ C01.band (regionUsed xa) ((regionUsed xa).lo a + (cellUsed xa).getD a 0)) ∧
      m.region = { regionUsed xa with tol := xa.attrs.tol.getD defaultTol } ∧ m.bc = "" ∧ m.subs = [] ∧
      m.n.length = (p1Used xa).length ∧
      ∀ a, a < (p1Used xa).length → 1 ≤ m.nAt a ∧
        |(regionUsed xa).edge a - (m.nAt a : Rat) * (cellUsed xa).getD a 0| ≤ listMin (cellUsed xa) / 1000 := by
  rw [geometryOf_ok_iff]
  have hbc : Mesh.bcOk ((geo xa).map Axis.name) ("" : String).toLower = true := by
    rw [toLower_empty]; simp [Mesh.bcOk]
  constructor
  · rintro ⟨hs, hinf, hc1, hc2, r, m0, h6, h7, rfl⟩
    obtain ⟨a1, a2, a3, -, a5⟩ := (C01.region_mk_ok_iff _ _ _ _ _).mp ⟨r, h6⟩
    obtain ⟨hr, hlen⟩ := regionMk_used xa r h6
    have hinv := (C01.region_mk_normalises _ _ _ _ _ r h6).1
    subst hr
    have ht : 0 ≤ (regionUsed xa).tol := defaultTol_nonneg
    obtain ⟨⟨b1, b2, b3, -⟩, c1, c2, c3, c4, c5⟩ := (C01.by_cell_ok_iff _ hinv ht _ _ _).mp h7
    rw [regionUsed_ndim] at b1 b3 c4 c5
    refine ⟨hs, hinf, hc1, hc2, ⟨a1, a2, hlen, (a3 _ rfl).2, a5⟩, ⟨b1, b2, b3⟩, ?_, ?_, ?_,
      by rw [setTol_n]; exact c4, by unfold Mesh.nAt; rw [setTol_n]; exact c5⟩
    · cases xa.attrs.tol <;> simp [setTol, c1] <;> rfl
    · cases xa.attrs.tol <;> simp [setTol, c2, toLower_empty]
    · cases xa.attrs.tol <;> simp [setTol, c3]
  · rintro ⟨hs, hinf, hc1, hc2, ⟨a1, a2, hlen, a4, a5⟩, ⟨b1, b2, b3⟩, c1, c2, c3, c4, c5⟩
    have hex : ∃ r, Region.mk? (p1Used xa) (p2Used xa) (some ((geo xa).map Axis.name)) (unitsOf xa) defaultTol = .ok r := by
      rw [C01.region_mk_ok_iff]
      refine ⟨a1, a2, ?_, ?_, a5⟩
      · intro d hd
        injection hd with hd
        rw [← hd, List.length_map]
        exact ⟨hlen, a4⟩
      · rw [unitsArgOk_unitsOf]; exact Or.inr hlen
    obtain ⟨r, h6⟩ := hex
    obtain ⟨hr, -⟩ := regionMk_used xa r h6
    have hinv := (C01.region_mk_normalises _ _ _ _ _ r h6).1
    subst hr
    have ht : 0 ≤ (regionUsed xa).tol := defaultTol_nonneg
    refine ⟨hs, hinf, hc1, hc2, regionUsed xa, { region := regionUsed xa, n := m.n, bc := "", subs := [] }, h6, ?_, ?_⟩
    · rw [C01.by_cell_ok_iff _ hinv ht]
      rw [regionUsed_ndim]
      exact ⟨⟨b1, b2, b3, hbc⟩, rfl, toLower_empty.symm, rfl, c4, c5⟩
    · cases m with
      | mk reg n bc subs =>
        simp only at c1 c2 c3
        subst c1 c2 c3
        cases xa.attrs.tol <;> rfl


/-! ## data and labels -/

/-- numpy's broadcasting rule, index level: `src` has at most as many axes as `tgt` and, aligned
at the last axis, every length is 1 or the target's -/
def BcastSpec (src tgt : List Nat) : Prop :=
  src.length ≤ tgt.length ∧ ∀ a, a < src.length → src.getD a 0 = 1 ∨ src.getD a 0 = tgt.getD (a + (tgt.length - src.length)) 0

theorem bcastOk_iff (src tgt : List Nat) : bcastOk src tgt = true ↔ BcastSpec src tgt := by
  unfold bcastOk BcastSpec
  rw [Bool.and_eq_true, allLt_iff, decide_eq_true_iff]
  constructor
  · rintro ⟨h1, h2⟩
    refine ⟨h1, fun a ha => ?_⟩
    have := h2 a ha
    simpa using this
  · rintro ⟨h1, h2⟩
    refine ⟨h1, fun a ha => ?_⟩
    have := h2 a ha
    simpa using this

/-- the shapes `_as_array` accepts for a mesh with counts `n` and `k` components: the mesh's own
shape (scalar field), or last axis `k` and broadcastable to `(*n, k)` -/
def DataFits (shape n : List Nat) (k : Nat) : Prop :=
  (k = 1 ∧ shape = n) ∨ (shape.getLast? = some k ∧ BcastSpec shape (n ++ [k]))

theorem asArray_ok_iff (val : NDA α) (n : List Nat) (k : Nat) :
    (∃ d, asArray val n k = .ok d) ↔ DataFits val.shape n k := by
  unfold asArray DataFits
  by_cases h1 : k = 1 ∧ val.shape = n
  · rw [if_pos h1]
    exact ⟨fun _ => Or.inl h1, fun _ => ⟨_, rfl⟩⟩
  · rw [if_neg h1]
    by_cases h2 : val.shape.getLast? ≠ some k
    · rw [if_pos h2]
      constructor
      · rintro ⟨d, hd⟩; cases hd
      · rintro (h | h)
        · exact absurd h h1
        · exact absurd h.1 h2
    · rw [if_neg h2]
      cases h3 : bcastOk val.shape (n ++ [k]) with
      | false =>
        simp only [Bool.not_false, if_true]
        constructor
        · rintro ⟨d, hd⟩; cases hd
        · rintro (h | h)
          · exact absurd h h1
          · have := (bcastOk_iff _ _).mpr h.2
            rw [h3] at this; cases this
      | true =>
        simp only [Bool.not_true, Bool.false_eq_true, if_false]
        exact ⟨fun _ => Or.inr ⟨not_not.mp h2, (bcastOk_iff _ _).mp h3⟩, fun _ => ⟨_, rfl⟩⟩

section
variable [FieldAttrs]

/-- the label coordinates the `vdims` setter accepts: none, an empty one, or `k` distinct strings
none of which names an attribute of `Field` -/
def LabelsOk (k : Nat) (vc : Option (List String)) : Prop :=
  ∀ l, vc = some l → l = [] ∨ (l.length = k ∧ hasDup l = false ∧ l.any FieldAttrs.has = false)

theorem vdimsSet_ok_iff (k : Nat) (vc : Option (List String)) :
    (∃ vd, vdimsSet k vc = .ok vd) ↔ LabelsOk k vc := by
  unfold LabelsOk
  cases vc with
  | none => simp [vdimsSet]
  | some l =>
    cases l with
    | nil => simp [vdimsSet]
    | cons x xs =>
      unfold vdimsSet
      dsimp only
      by_cases h1 : (x :: xs).length ≠ k
      · rw [if_pos h1]
        constructor
        · rintro ⟨_, h⟩; cases h
        · intro h
          rcases h _ rfl with h | h
          · cases h
          · exact absurd h.1 h1
      · rw [if_neg h1]
        cases h2 : hasDup (x :: xs) with
        | true =>
          simp only [if_true]
          constructor
          · rintro ⟨_, h⟩; cases h
          · intro h
            rcases h _ rfl with h | h
            · cases h
            · rw [h2] at h; cases h.2.1
        | false =>
          simp only [Bool.false_eq_true, if_false]
          cases h3 : (x :: xs).any FieldAttrs.has with
          | true =>
            simp only [if_true]
            constructor
            · rintro ⟨_, h⟩; cases h
            · intro h
              rcases h _ rfl with h | h
              · cases h
              · rw [h3] at h; cases h.2.2
          | false =>
            simp only [Bool.false_eq_true, if_false]
            refine ⟨fun _ l hl => ?_, fun _ => ⟨_, rfl⟩⟩
            injection hl with hl
            subst hl
            exact Or.inr ⟨not_not.mp h1, h2, h3⟩

/-- `Field(mesh, nvdim, value, vdims, dtype)` as the importer calls it succeeds iff the data fit
the mesh and the labels are acceptable -/
theorem fieldOf_ok_iff (xa : XA α) (m : Mesh) (k : Nat) :
    (∃ g, fieldOf xa m k = .ok g) ↔ DataFits (valOf xa k).shape m.n k ∧ LabelsOk k xa.vdimsCoord := by
  constructor
  · rintro ⟨g, h⟩
    unfold fieldOf at h
    rw [bind_ok_iff] at h
    obtain ⟨d1, h1, h⟩ := h
    rw [bind_ok_iff] at h
    obtain ⟨d, h2, h⟩ := h
    rw [bind_ok_iff] at h
    obtain ⟨vd, h3, h⟩ := h
    exact ⟨(asArray_ok_iff _ _ _).mp ⟨d1, h1⟩, (vdimsSet_ok_iff _ _).mp ⟨vd, h3⟩⟩
  · rintro ⟨h1, h2⟩
    obtain ⟨d1, hd1⟩ := (asArray_ok_iff _ _ _).mpr h1
    obtain ⟨d, hd, -⟩ := asArray_same d1 m.n k (asArray_shape _ _ _ _ hd1)
    obtain ⟨vd, hvd⟩ := (vdimsSet_ok_iff _ _).mpr h2
    unfold fieldOf
    rw [hd1]
    simp only [Except.bind]
    rw [hd]
    simp only []
    rw [hvd]
    exact ⟨_, rfl⟩

/-- **`from_xarray` succeeds exactly when** the component-count checks pass with some `k`, the
geometry steps build some mesh `m` (`geometryOf_ok_iff_inputs`), the data fit `(*m.n, k)` and the
label coordinate is acceptable -/
theorem fromXA_ok_iff (xa : XA α) :
    (∃ g, fromXA xa = .ok g) ↔
      ∃ (k : Nat) (m : Mesh), (1 ≤ k ∧ xa.attrs.nvdim = some (.int (k : Int)) ∧ (1 < k → "vdims" ∈ xa.dims)) ∧
        geometryOf xa = .ok m ∧
        DataFits (valOf xa k).shape m.n k ∧ LabelsOk k xa.vdimsCoord := by
  constructor
  · rintro ⟨g, h⟩
    rw [fromXA_eq, bind_ok_iff] at h
    obtain ⟨k, h1, h⟩ := h
    rw [bind_ok_iff] at h
    obtain ⟨m, h2, h⟩ := h
    exact ⟨k, m, checkNvdim_inv _ _ _ h1, h2, (fieldOf_ok_iff xa m k).mp ⟨g, h⟩⟩
  · rintro ⟨k, m, ⟨hk, hnv, hvd⟩, h2, h3⟩
    obtain ⟨g, hg⟩ := (fieldOf_ok_iff xa m k).mpr h3
    refine ⟨g, ?_⟩
    have h1 : checkNvdim xa.attrs.nvdim xa.dims = .ok k := by
      rw [hnv]
      unfold checkNvdim
      have h1 : ¬ ((k : Int) < 1) := by omega
      have h2 : ¬ (1 < (k : Int) ∧ ¬ xa.dims.contains "vdims" = true) := by
        rintro ⟨h3, h4⟩
        exact h4 (List.contains_iff_mem.mpr (hvd (by omega)))
      simp only [h1, h2, if_false, Int.toNat_natCast]
    rw [fromXA_eq, h1]
    simp only [Except.bind]
    rw [h2]
    exact hg

/-- **The values of every accepted DataArray whose data have the mesh's shape** (no
broadcasting): the imported array has shape `(*n, k)` and entry `i` is the DataArray's entry `i`
(scalar fields: `i` without its trailing 0) — whatever the attributes say about the geometry. -/
theorem fromXA_values (xa : XA α) (g : XFld α) (h : fromXA xa = .ok g)
    (hshape : xa.data.shape = g.mesh.n ++ (if 1 < g.nvdim then [g.nvdim] else [])) :
    g.data.shape = g.mesh.n ++ [g.nvdim] ∧
    ∀ i, inRange (g.mesh.n ++ [g.nvdim]) i = true →
      g.data.get i = xa.data.get (if 1 < g.nvdim then i else i.dropLast) := by
  rw [fromXA_eq, bind_ok_iff] at h
  obtain ⟨k, h1, h⟩ := h
  rw [bind_ok_iff] at h
  obtain ⟨m, h2, h⟩ := h
  obtain ⟨hk, -, -⟩ := checkNvdim_inv _ _ _ h1
  unfold fieldOf at h
  rw [bind_ok_iff] at h
  obtain ⟨d1, hd1, h⟩ := h
  rw [bind_ok_iff] at h
  obtain ⟨d, hd, h⟩ := h
  rw [bind_ok_iff] at h
  obtain ⟨vd, hvd, h⟩ := h
  injection h with h
  subst h
  simp only at hshape ⊢
  have hvs : (valOf xa k).shape = m.n ++ [k] := by
    unfold valOf
    by_cases hk1 : k = 1
    · have h2 : ¬ (1 < k) := by omega
      simp only [hk1, if_true]
      show xa.data.shape ++ [1] = _
      rw [hshape, hk1]; simp
    · have h2 : 1 < k := by omega
      simp only [hk1, if_false]
      rw [hshape]; simp only [h2, if_true]
  obtain ⟨d1', hd1', ha1⟩ := asArray_same (valOf xa k) m.n k hvs
  rw [hd1] at hd1'; injection hd1' with e1; subst e1
  obtain ⟨d', hd', ha2⟩ := asArray_same d1 m.n k (ha1.1.trans hvs)
  rw [hd] at hd'; injection hd' with e2; subst e2
  have hag := ha2.trans ha1
  refine ⟨hag.1.trans hvs, fun i hi => ?_⟩
  rw [hag.2 i (by rw [hag.1, hvs]; exact hi)]
  unfold valOf
  by_cases hk1 : k = 1
  · subst hk1; simp
  · have h2 : 1 < k := by omega
    simp only [hk1, if_false, h2, if_true]


omit [FieldAttrs] in
/-- the entries `_as_array` produces: the value itself for a mesh-shaped scalar array, else the
entry numpy's broadcasting reads -/
theorem asArray_get (val : NDA α) (n : List Nat) (k : Nat) (d : NDA α) (h : asArray val n k = .ok d) (i : List Nat) :
    d.get i = if k = 1 ∧ val.shape = n then val.get i.dropLast else val.get (bcastIx val.shape (n ++ [k]) i) := by
  unfold asArray at h
  split at h
  · next h1 => injection h with h; rw [← h, if_pos h1]
  · next h1 =>
    split at h
    · cases h
    · split at h
      · cases h
      · injection h with h; rw [← h, if_neg h1]

/-- **The values of EVERY accepted DataArray**, broadcasting included: entry `i` of the imported
array is the entry of `np.expand_dims(xa.values, -1)` (scalar) / `xa.values` (vector) that numpy's
broadcasting into `(*n, nvdim)` reads — the entry itself when the shapes agree, entry 0 along every
source axis of length 1; a scalar array that has exactly the mesh's shape after the expansion is
taken as it is. -/
theorem fromXA_values_gen (xa : XA α) (g : XFld α) (h : fromXA xa = .ok g) :
    g.data.shape = g.mesh.n ++ [g.nvdim] ∧
    ∀ i, inRange (g.mesh.n ++ [g.nvdim]) i = true →
      g.data.get i =
        if g.nvdim = 1 ∧ (valOf xa g.nvdim).shape = g.mesh.n then (valOf xa g.nvdim).get i.dropLast
        else (valOf xa g.nvdim).get (bcastIx (valOf xa g.nvdim).shape (g.mesh.n ++ [g.nvdim]) i) := by
  rw [fromXA_eq, bind_ok_iff] at h
  obtain ⟨k, h1, h⟩ := h
  rw [bind_ok_iff] at h
  obtain ⟨m, h2, h⟩ := h
  unfold fieldOf at h
  rw [bind_ok_iff] at h
  obtain ⟨d1, hd1, h⟩ := h
  rw [bind_ok_iff] at h
  obtain ⟨d, hd, h⟩ := h
  rw [bind_ok_iff] at h
  obtain ⟨vd, hvd, h⟩ := h
  injection h with h
  subst h
  simp only
  have hs1 := asArray_shape _ _ _ _ hd1
  obtain ⟨d', hd', ha2⟩ := asArray_same d1 m.n k hs1
  rw [hd] at hd'; injection hd' with e2; subst e2
  refine ⟨ha2.1.trans hs1, fun i hi => ?_⟩
  rw [ha2.2 i (by rw [ha2.1, hs1]; exact hi)]
  exact asArray_get _ _ _ _ hd1 i

end
end
end DFV.C17
