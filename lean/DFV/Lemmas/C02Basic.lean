import DFV.Model.C02
import DFV.Lemmas.Tab
import DFV.Lemmas.Index
/-! C02 helper lemmas, part 1: broadcasting, index enumeration, the callable loop, `seqM`. -/
namespace DFV.C02
open DFV

variable {V : Type}

/-! ### lists -/

theorem getD_append_left' {α} (l r : List α) (a : Nat) (d : α) (h : a < l.length) :
    (l ++ r).getD a d = l.getD a d := by
  simp [List.getD_eq_getElem?_getD, List.getElem?_append_left h]

theorem getD_append_last {α} (l : List α) (x : α) (d : α) : (l ++ [x]).getD l.length d = x := by
  simp [List.getD_eq_getElem?_getD]

theorem dropLast_snoc {α} (l : List α) (x : α) : (l ++ [x]).dropLast = l := by simp

theorem getLastD_snoc {α} (l : List α) (x d : α) : (l ++ [x]).getLastD d = x := by
  simp [List.getLastD_eq_getLast?]

theorem inRange_iff (ns t : List Nat) :
    inRange ns t = true ↔ t.length = ns.length ∧ ∀ a, a < ns.length → t.getD a 0 < ns.getD a 0 := by
  constructor
  · intro h; exact ⟨inRange_length ns t h, fun a ha => inRange_getD ns t h a ha⟩
  · induction ns generalizing t with
    | nil => intro ⟨hl, _⟩; cases t <;> simp_all [inRange]
    | cons n ns ih =>
      intro ⟨hl, h⟩
      cases t with
      | nil => simp at hl
      | cons i is =>
        rw [inRange_cons]
        refine ⟨by simpa using h 0 (by simp), ih is ⟨by simpa using hl, fun a ha => ?_⟩⟩
        simpa using h (a + 1) (by simpa using ha)

theorem inRange_snoc (ns t : List Nat) (n i : Nat) :
    inRange (ns ++ [n]) (t ++ [i]) = (inRange ns t && decide (i < n)) := by
  induction ns generalizing t with
  | nil =>
    cases t with
    | nil => simp [inRange]
    | cons x xs => cases xs <;> simp [inRange]
  | cons m ns ih =>
    cases t with
    | nil => cases ns <;> simp [inRange]
    | cons x xs => simp [inRange, ih, Bool.and_assoc]

theorem inRange_reverse (ns t : List Nat) : inRange ns.reverse t.reverse = inRange ns t := by
  induction ns generalizing t with
  | nil => cases t <;> simp [inRange]
  | cons n ns ih =>
    cases t with
    | nil =>
      simp only [List.reverse_cons, List.reverse_nil, inRange]
      cases h : ns.reverse ++ [n] <;> simp_all [inRange]
    | cons i is =>
      simp only [List.reverse_cons, inRange_snoc, ih, inRange, Bool.and_comm]

theorem mem_product (ns t : List Nat) : t ∈ productLastFastest ns ↔ inRange ns t = true := by
  induction ns generalizing t with
  | nil => cases t <;> simp [productLastFastest, inRange]
  | cons n ns ih =>
    cases t with
    | nil => simp [productLastFastest, inRange]
    | cons i is =>
      simp only [productLastFastest, List.mem_flatMap, List.mem_range, List.mem_map, inRange_cons]
      constructor
      · rintro ⟨k, hk, s, hs, he⟩
        injection he with h1 h2
        subst h1; subst h2
        exact ⟨hk, (ih s).mp hs⟩
      · rintro ⟨hi, hr⟩
        exact ⟨i, hi, is, (ih is).mpr hr, rfl⟩

/-- `Mesh.indices` enumerates exactly the in-range multi-indices -/
theorem mem_indicesCode (ns i : List Nat) : i ∈ indicesCode ns ↔ inRange ns i = true := by
  unfold indicesCode
  rw [List.mem_map]
  constructor
  · rintro ⟨t, ht, rfl⟩
    rw [← inRange_reverse, List.reverse_reverse]
    exact (mem_product _ _).mp ht
  · intro h
    refine ⟨i.reverse, (mem_product _ _).mpr ?_, List.reverse_reverse i⟩
    rw [inRange_reverse]; exact h

theorem mem_indicesC (ns i : List Nat) (h : inRange ns i = true) : i ∈ indicesC ns := by
  unfold indicesC
  rw [List.mem_map]
  exact ⟨flatC ns i, List.mem_range.mpr (flatC_lt ns i h), unflatC_flatC ns i h⟩

theorem zip_map_self {α β} (l : List α) (g : α → β) : l.zip (l.map g) = l.map fun x => (x, g x) := by
  induction l with
  | nil => rfl
  | cons x xs ih => simp [ih]

/-! ### broadcasting -/

theorem bcast_ok (t : List Nat) (a b : NDA V) (h : bcast t a = .ok b) :
    b.shape = t ∧ ∀ j, b.get j = a.get (bcastIdx t a.shape j) := by
  unfold bcast at h
  split at h
  · injection h with h; subst h; exact ⟨rfl, fun _ => rfl⟩
  · cases h

theorem bcastOk_self (t : List Nat) : bcastOk t t = true := by
  simp [bcastOk, allLt]

theorem bcastIdx_self (t j : List Nat) (h : inRange t j = true) : bcastIdx t t j = j := by
  obtain ⟨hl, hj⟩ := (inRange_iff t j).mp h
  unfold bcastIdx
  symm
  apply eq_tab_of_getD j t.length _ 0 hl
  intro a ha
  have := hj a ha
  split
  · omega
  · simp

/-- an array that already has the target shape is taken as it is -/
theorem bcast_same (t : List Nat) (a : NDA V) (h : a.shape = t) :
    ∃ b, bcast t a = .ok b ∧ b.shape = t ∧ ∀ j, inRange t j = true → b.get j = a.get j := by
  refine ⟨⟨t, fun j => a.get (bcastIdx t a.shape j)⟩, ?_, rfl, ?_⟩
  · unfold bcast; rw [h, bcastOk_self]; rfl
  · intro j hj; simp only; rw [h, bcastIdx_self t j hj]

theorem bcastIdx_vec (n : List Nat) (nv : Nat) (i : List Nat) (c : Nat) (hi : i.length = n.length)
    (hc : c < nv) : bcastIdx (n ++ [nv]) [nv] (i ++ [c]) = [c] := by
  have h1 : (n ++ [nv]).length - 1 + 0 = i.length := by simp [hi]
  unfold bcastIdx
  simp only [tab, List.length_singleton, List.range_one, List.map_cons, List.map_nil, List.getD_cons_zero]
  rw [h1, getD_append_last]
  split
  · congr 1; omega
  · rfl

/-- a vector of `nv` numbers is repeated in every cell -/
theorem bcast_vec (n : List Nat) (nv : Nat) (a : NDA V) (h : a.shape = [nv]) :
    ∃ b, bcast (n ++ [nv]) a = .ok b ∧ b.shape = n ++ [nv] ∧
      ∀ i c, i.length = n.length → c < nv → b.get (i ++ [c]) = a.get [c] := by
  refine ⟨⟨n ++ [nv], fun j => a.get (bcastIdx (n ++ [nv]) a.shape j)⟩, ?_, rfl, ?_⟩
  · unfold bcast
    have : bcastOk (n ++ [nv]) a.shape = true := by
      rw [h]; simp [bcastOk, allLt, List.getD_eq_getElem?_getD]
    rw [this]; rfl
  · intro i c hi hc
    simp only
    rw [h, bcastIdx_vec n nv i c hi hc]

/-! ### the callable loop -/

section
variable [Inhabited V]

theorem setCell_get (a : NDA V) (idx : List Nat) (vs : List V) (i : List Nat) (c : Nat) :
    (setCell a idx vs).get (i ++ [c]) = if i = idx then vs.getD c default else a.get (i ++ [c]) := by
  simp [setCell, List.getLastD_eq_getLast?]

theorem funcLoop_shape (f : List Rat → List V) (nv : Nat) (l : List (List Nat × List Rat)) (a b : NDA V)
    (h : funcLoop f nv l a = .ok b) : b.shape = a.shape := by
  induction l generalizing a with
  | nil => simp [funcLoop] at h; rw [← h]
  | cons p rest ih =>
    obtain ⟨idx, pt⟩ := p
    simp only [funcLoop] at h
    split at h
    · cases h
    · exact (ih _ h).trans rfl

/-- after the loop, a visited cell holds the callable's value at its point, an unvisited cell
is untouched -/
theorem funcLoop_get (f : List Rat → List V) (nv : Nat) (g : List Nat → List Rat)
    (l : List (List Nat × List Rat)) (hl : ∀ p ∈ l, p.2 = g p.1) (a b : NDA V)
    (h : funcLoop f nv l a = .ok b) (i : List Nat) (c : Nat) :
    b.get (i ++ [c]) = if i ∈ l.map (·.1) then (f (g i)).getD c default else a.get (i ++ [c]) := by
  induction l generalizing a with
  | nil => simp [funcLoop] at h; simp [← h]
  | cons p rest ih =>
    obtain ⟨idx, pt⟩ := p
    simp only [funcLoop] at h
    split at h
    · cases h
    · have hpt : pt = g idx := hl (idx, pt) (by simp)
      rw [ih (fun q hq => hl q (by simp [hq])) _ h, setCell_get]
      by_cases h1 : i ∈ rest.map (·.1)
      · simp [h1]
      · by_cases h2 : i = idx
        · simp [h1, h2, hpt]
        · simp [h1, h2]

theorem funcLoop_len (f : List Rat → List V) (nv : Nat) (l : List (List Nat × List Rat)) (a b : NDA V)
    (h : funcLoop f nv l a = .ok b) : ∀ p ∈ l, (f p.2).length = nv := by
  induction l generalizing a with
  | nil => simp
  | cons p rest ih =>
    obtain ⟨idx, pt⟩ := p
    simp only [funcLoop] at h
    split at h
    · cases h
    · rename_i hlen
      intro q hq
      rcases List.mem_cons.mp hq with rfl | hq
      · simpa using hlen
      · exact ih _ h q hq

theorem funcLoop_err (f : List Rat → List V) (nv : Nat) (l : List (List Nat × List Rat)) (a : NDA V)
    (p : List Nat × List Rat) (hp : p ∈ l) (hlen : (f p.2).length ≠ nv) :
    funcLoop f nv l a = .error .value := by
  induction l generalizing a with
  | nil => simp at hp
  | cons q rest ih =>
    obtain ⟨idx, pt⟩ := q
    simp only [funcLoop]
    split
    · rfl
    · rename_i hq
      rcases List.mem_cons.mp hp with rfl | hp
      · exact absurd hlen (by simpa using hq)
      · exact ih _ hp

theorem funcLoop_ok (f : List Rat → List V) (nv : Nat) (l : List (List Nat × List Rat)) (a : NDA V)
    (hlen : ∀ p ∈ l, (f p.2).length = nv) : ∃ b, funcLoop f nv l a = .ok b := by
  induction l generalizing a with
  | nil => exact ⟨a, rfl⟩
  | cons q rest ih =>
    obtain ⟨idx, pt⟩ := q
    simp only [funcLoop]
    have : (f pt).length = nv := hlen (idx, pt) (by simp)
    simp only [this, ne_eq, not_true_eq_false, if_false]
    exact ih _ fun p hp => hlen p (by simp [hp])

end

/-! ### `seqM` -/

theorem seqM_ok {α} (l : List (M α)) (vs : List α) (h : seqM l = .ok vs) : l = vs.map .ok := by
  induction l generalizing vs with
  | nil => simp [seqM] at h; simp [← h]
  | cons x xs ih =>
    simp only [seqM] at h
    split at h
    · cases h
    · split at h
      · cases h
      · rename_i v _ ws hws
        injection h with h; subst h
        simp [ih ws hws]

theorem seqM_err {α} (l : List (M α)) (e : Err) (h : .error e ∈ l) : ∃ e', seqM l = .error e' := by
  induction l with
  | nil => simp at h
  | cons x xs ih =>
    simp only [seqM]
    cases x with
    | error e1 => exact ⟨e1, rfl⟩
    | ok v =>
      have h' : .error e ∈ xs := by simpa using h
      obtain ⟨e', he⟩ := ih h'
      exact ⟨e', by simp [he]⟩

end DFV.C02
