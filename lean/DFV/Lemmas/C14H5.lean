import DFV.Lemmas.C14Persist
import DFV.Model.C10
/-! C14: persistence of subregions through HDF5 — the C14-side view of C10's model of
`io/hdf5.py` (`DFV.Model.C10`, read-only): what the reader returns keeps `SubInv`, and whatever a
file contains, loaded subregions went through the setter. -/
namespace DFV.C14
open DFV DFV.T DFV.C10

/-- the untyped mesh (values only) of a mesh of the HDF5 model, whose corner arrays carry a dtype -/
def meshOfT (m : TMesh) : Mesh :=
  { region := m.region.toRegion, n := m.n, bc := m.bc, subs := m.subs.map fun p => (p.1, p.2.toRegion) }

/-- a cast that does not go from float to integer keeps the numbers -/
theorem cast_vals (k : NK) (a : NumArr) (h : a.kind = .int ∨ k = .float) : (a.cast k).vals = a.vals := by
  cases k <;> cases a <;> simp_all [NumArr.cast, NumArr.vals, NumArr.kind]

theorem joinAll_int_mem (ks : List NK) (h : joinAll ks = .int) (k : NK) (hk : k ∈ ks) : k = .int := by
  unfold joinAll at h
  split at h
  · rename_i hall
    have := List.all_eq_true.mp hall k hk
    simpa using this
  · cases h

/-- the dtype of the corner table never forces a float-to-integer cast on a stored corner array -/
theorem tableKind_covers (m : TMesh) (p : String × TReg) (hp : p ∈ m.subs) :
    (p.2.pmin.kind = .int ∨ tableKind m = .float) ∧ (p.2.pmax.kind = .int ∨ tableKind m = .float) := by
  cases hk : tableKind m with
  | float => exact ⟨Or.inr rfl, Or.inr rfl⟩
  | int =>
    unfold tableKind at hk
    constructor
    · left
      apply joinAll_int_mem _ hk
      simp only [List.mem_cons, List.mem_append, List.mem_map]
      exact Or.inr (Or.inl ⟨p, hp, rfl⟩)
    · left
      apply joinAll_int_mem _ hk
      simp only [List.mem_cons, List.mem_append, List.mem_map]
      exact Or.inr (Or.inr ⟨p, hp, rfl⟩)

/-- **The mesh the HDF5 reader returns has the same values**: `TMesh.loaded` (what
`DFV.C10.mesh_roundtrip` proves `meshLoad (meshSave m)` returns) differs from `m` only in the dtype
of the subregion corner arrays — region, counts, `bc`, names, order and every corner VALUE agree. -/
theorem meshOfT_loaded (m : TMesh) : meshOfT m.loaded = meshOfT m := by
  unfold meshOfT TMesh.loaded
  simp only [List.map_map]
  congr 1
  apply List.map_congr_left
  intro p hp
  obtain ⟨h1, h2⟩ := tableKind_covers m p hp
  simp only [Function.comp, TReg.toRegion, TReg.castCorners, cast_vals _ _ h1, cast_vals _ _ h2]

/-- **Subregions read back from an HDF5 file satisfy `SubInv` on the loaded mesh**: if the mesh
written satisfies `SubInv` (values), so does the mesh the reader returns, with the same names in
the same order and the same corners. -/
theorem h5_loaded_subInv' (m : TMesh) (hs : SubInv (meshOfT m)) :
    SubInv (meshOfT m.loaded) ∧ (meshOfT m.loaded).subs = (meshOfT m).subs ∧
    (meshOfT m.loaded).region = (meshOfT m).region ∧ (meshOfT m.loaded).n = (meshOfT m).n := by
  rw [meshOfT_loaded]; exact ⟨hs, rfl, rfl, rfl⟩

/-! ## whatever the file contains: loaded subregions went through the setter -/

theorem mapE_inv {α β : Type} (f : α → M β) (l : List α) (l' : List β) (h : mapE f l = .ok l') :
    List.Forall₂ (fun a b => f a = .ok b) l l' := by
  induction l generalizing l' with
  | nil =>
    simp only [mapE] at h
    injection h with h; subst h; exact List.Forall₂.nil
  | cons a as ih =>
    simp only [mapE] at h
    cases ha : f a with
    | error e => rw [ha] at h; cases h
    | ok b =>
      rw [ha] at h
      simp only [Except.bind] at h
      cases has : mapE f as with
      | error e => rw [has] at h; cases h
      | ok bs =>
        rw [has] at h
        simp only at h
        injection h with h; subst h
        exact List.Forall₂.cons ha (ih bs has)

theorem init_meta (p1 p2 : NumArr) (d u : List String) (t : Num) (s : TReg) (h : TReg.init p1 p2 (some d) (some u) t = .ok s) :
    s.dims = d ∧ s.units = u ∧ s.tol = t ∧ s.pmin = NumArr.minimum p1 p2 ∧ s.pmax = NumArr.maximum p1 p2 := by
  unfold TReg.init at h
  split at h
  · cases h
  · split at h
    · cases h
    · split at h
      · cases h
      · rename_i d' hd
        split at h
        · cases h
        · rename_i u' hu
          split at h
          · cases h
          · injection h with h; subst h
            obtain ⟨_, _, e1⟩ := dimsOk_some_inv _ _ _ hd
            obtain ⟨_, e2⟩ := unitsOk_some_inv _ _ _ hu
            exact ⟨e1, e2, rfl, rfl, rfl⟩


theorem rebuild_forall2 (r : TReg) (cands stored : List (String × TReg))
    (hf : List.Forall₂ (fun a b => rebuildSub r a = .ok b) cands stored) :
    List.Forall₂ (fun c p => p.1 = c.1 ∧ p.2.dims = r.dims ∧ p.2.units = r.units ∧ p.2.tol = r.tol ∧
      p.2.pmin = NumArr.minimum c.2.pmin c.2.pmax ∧ p.2.pmax = NumArr.maximum c.2.pmin c.2.pmax) cands stored := by
  induction hf with
  | nil => exact List.Forall₂.nil
  | @cons c p cs ps hcp _ ih =>
    refine List.Forall₂.cons ?_ ih
    unfold rebuildSub at hcp
    cases hi : TReg.init c.2.pmin c.2.pmax (some r.dims) (some r.units) r.tol with
    | error e => rw [hi] at hcp; cases hcp
    | ok s =>
      rw [hi] at hcp
      simp only [Except.bind] at hcp
      injection hcp with hcp; subst hcp
      obtain ⟨e1, e2, e3, e4, e5⟩ := init_meta _ _ _ _ _ _ hi
      exact ⟨rfl, e1, e2, e3, e4, e5⟩

theorem numArr_vals_length (a : NumArr) : a.vals.length = a.length := by
  cases a <;> simp [NumArr.vals, NumArr.length]

/-- an accepted candidate is stored as a subregion that passes the three tests AS STORED (repo fix
5591fed0: the tests are made on the re-created copy) -/
theorem candOk_stored (r : TReg) (n : List Nat) (c p : String × TReg) (hc : C10.candOk r n c.2 = true)
    (hp : rebuildSub r c = .ok p) : subAccept r.toRegion n p.2.toRegion = true := by
  unfold rebuildSub at hp
  cases hi : TReg.init c.2.pmin c.2.pmax (some r.dims) (some r.units) r.tol with
  | error e => rw [hi] at hp; cases hp
  | ok s =>
    rw [hi] at hp
    simp only [Except.bind] at hp
    injection hp with hp; subst hp
    unfold C10.candOk at hc
    by_cases hn : c.2.ndim = r.ndim
    · rw [if_pos hn, hi] at hc
      exact hc
    · exfalso
      rw [if_neg hn] at hc
      simp only at hc
      unfold subAccept Region.containsReg Region.containsPt at hc
      simp only [Bool.and_eq_true, decide_eq_true_eq] at hc
      have h1 := hc.1.1.1
      apply hn
      unfold TReg.ndim
      have e1 : c.2.toRegion.pmin.length = c.2.pmin.length := numArr_vals_length _
      have e2 : r.toRegion.ndim = r.pmin.length := numArr_vals_length _
      rw [← e1, ← e2]; exact h1

/-- **Whatever an HDF5 file contains, loaded subregions went through the setter.**  If the reader
(`_MeshIO_HDF5._h5_load`, model `meshLoad`) returns a mesh `g`, its subregions are the result of the
`subregions` setter of `g` on some candidate dictionary: every candidate passed the setter's check
(`candOk`: the three tests — inside, whole cells, on the lattice — made on the candidate re-created
with the mesh's names, units and tolerance factor), every stored subregion is the candidate
re-created with the mesh's dimension names, units and tolerance, corners ordered, names kept — and
every STORED subregion passes the three tests of THIS mesh as it is stored. -/
theorem h5_load_through_setter' (h : H5Mesh) (g : TMesh) (hg : meshLoad h = .ok g) :
    ∃ cands : List (String × TReg), C10.setSubs g.region g.n cands = .ok g.subs ∧
      (∀ c ∈ cands, C10.candOk g.region g.n c.2 = true) ∧
      List.Forall₂ (fun c p => p.1 = c.1 ∧ p.2.dims = g.region.dims ∧ p.2.units = g.region.units ∧
          p.2.tol = g.region.tol ∧ p.2.pmin = NumArr.minimum c.2.pmin c.2.pmax ∧
          p.2.pmax = NumArr.maximum c.2.pmin c.2.pmax) cands g.subs ∧
      (∀ p ∈ g.subs, subAccept g.region.toRegion g.n p.2.toRegion = true) := by
  unfold meshLoad at hg
  cases hr : regionLoad h.region with
  | error e => rw [hr] at hg; cases hg
  | ok r =>
    rw [hr] at hg
    simp only [Except.bind] at hg
    cases hss : subsLoad r.ndim h.subs with
    | error e => rw [hss] at hg; cases hg
    | ok ss =>
      rw [hss] at hg
      simp only at hg
      unfold TMesh.init at hg
      split at hg
      · cases hg
      · split at hg
        · cases hg
        · split at hg
          · cases hg
          · cases hset : C10.setSubs r (h.n.map Int.toNat) ss with
            | error e => rw [hset] at hg; cases hg
            | ok stored =>
              rw [hset] at hg
              simp only [Except.bind] at hg
              injection hg with hg; subst hg
              have hset' := hset
              unfold C10.setSubs at hset
              split at hset
              · cases hset
              · rename_i hall
                have hall' : ∀ c ∈ ss, C10.candOk r (h.n.map Int.toNat) c.2 = true := by
                  have : ss.all (fun p => C10.candOk r (h.n.map Int.toNat) p.2) = true := by simpa using hall
                  exact fun c hc => List.all_eq_true.mp this c hc
                have hf := mapE_inv _ _ _ hset
                refine ⟨ss, hset', hall', rebuild_forall2 r ss stored hf, ?_⟩
                intro p hp
                obtain ⟨c, hc, hcp⟩ := forall2_mem_right _ _ _ hf p hp
                exact candOk_stored r _ c p (hall' c hc) hcp

/-- `SubInv` of the re-attached side-car: the mesh `load_subregions` produces from the side-car of a
mesh satisfying `SubInv` (same geometry) satisfies `SubInv` -/
theorem sidecar_subInv (m m0 : Mesh) (hs : SubInv m) (hr : m0.region = m.region) (hn : m0.n = m.n) :
    SubInv { m0 with subs := m.subs } := by
  intro p hp
  obtain ⟨h1, h2, h3, h4⟩ := hs p hp
  exact ⟨by rw [h1, hr], by rw [h2, hr], by rw [h3, hr], fitsE_congr m _ p.2 p.2 hr hn rfl rfl h4⟩

/-! ## the two models of the setter's tests agree -/

theorem allLt_congr (n : Nat) (p q : Nat → Bool) (h : ∀ a, a < n → p a = q a) : allLt n p = allLt n q := by
  rw [Bool.eq_iff_iff, allLt_iff, allLt_iff]
  constructor
  · intro h' a ha; rw [← h a ha]; exact h' a ha
  · intro h' a ha; rw [h a ha]; exact h' a ha

/-- what an accepted `Mesh(region=s, cell=…)` returned, as far as the alignment test needs it -/
theorem mkCell_region (s : Region) (cell : List Rat) (sm : Mesh) (h : Mesh.mkCell? s cell = .ok sm) :
    sm.region = s ∧ cell.length = s.ndim := by
  unfold Mesh.mkCell? at h
  split at h
  · cases h
  · rename_i hl
    split at h
    · cases h
    · split at h
      · cases h
      · split at h
        · cases h
        · split at h
          · cases h
          · split at h
            · cases h
            · injection h with h; subst h; exact ⟨rfl, not_not.mp hl⟩

/-- C10's model of `Mesh.is_aligned` and the one of `Transform.lean` are the same function (on
meshes of equal dimension) -/
theorem isAligned_models_agree (m o : Mesh) (hd : o.ndim = m.ndim) :
    C10.isAligned m o = T.isAligned m o := by
  unfold C10.isAligned T.isAligned
  congr 1
  · congr 1
    unfold allcloseL
    have hl : m.cell.length = m.ndim := by unfold Mesh.cell; rw [tab_length]
    rw [hl]
    apply allLt_congr
    intro a ha
    rw [cell_getD m a ha, cell_getD o a (hd ▸ ha)]
    unfold Region.isclose allcloseAx
    congr 1
    apply propext
    constructor <;> intro h <;> linarith

/-- **C10's model of the subregion setter's tests and C14's are the same function.** -/
theorem subAccept_eq_subOk (r : Region) (n : List Nat) (s : Region) :
    C10.subAccept r n s = T.subOk { region := r, n := n, bc := "", subs := [] } s := by
  unfold C10.subAccept T.subOk
  congr 1
  cases hmk : Mesh.mkCell? s (Mesh.cell { region := r, n := n, bc := "", subs := [] }) with
  | error e => rfl
  | ok sm =>
    obtain ⟨e1, e2⟩ := mkCell_region _ _ _ hmk
    have hd : sm.ndim = ({ region := r, n := n, bc := "", subs := [] } : Mesh).ndim := by
      unfold Mesh.ndim; rw [e1, ← e2]; unfold Mesh.cell; rw [tab_length]; rfl
    exact isAligned_models_agree _ sm hd


/-- the setter's tests look only at the region and the counts of the mesh -/
theorem subOk_congr (m m' : Mesh) (s : Region) (hr : m'.region = m.region) (hn : m'.n = m.n) : T.subOk m' s = T.subOk m s := by
  cases m; cases m'
  simp only at hr hn
  subst hr; subst hn
  rfl

/-- … so every subregion an HDF5 load attaches passes — as it is stored — exactly the three tests
`T.subOk` of the loaded mesh that C14's setter theorems (`set_accepts`, `set_rejects`,
`set_accepts_exact`) are about -/
theorem h5_load_subOk (h : H5Mesh) (g : TMesh) (hg : meshLoad h = .ok g) :
    ∃ cands : List (String × TReg), C10.setSubs g.region g.n cands = .ok g.subs ∧
      ∀ p ∈ g.subs, T.subOk (meshOfT g) p.2.toRegion = true := by
  obtain ⟨cands, h1, _, _, h4⟩ := h5_load_through_setter' h g hg
  refine ⟨cands, h1, ?_⟩
  intro p hp
  have := h4 p hp
  rw [subAccept_eq_subOk] at this
  rw [← this]
  exact subOk_congr _ _ _ rfl rfl


/-- `exM` as a mesh of the HDF5 model: integer region corners, subregion "a" with integer and "b"
with float corner arrays (so the corner table is float) -/
def exT : TMesh :=
  { region := ⟨.ints [0, 0, 0], .ints [8, 6, 2], ["x", "y", "z"], ["m", "s", "K"], .float (1/1000000000000)⟩,
    n := [4, 6, 1], bc := "x",
    subs := [("a", ⟨.ints [2, 1, 0], .ints [6, 3, 2], ["x", "y", "z"], ["m", "s", "K"], .float (1/1000000000000)⟩),
             ("b", ⟨.floats [6, 0, 0], .floats [8, 6, 2], ["x", "y", "z"], ["m", "s", "K"], .float (1/1000000000000)⟩)] }

end DFV.C14
