import DFV.Lemmas.C09CsvFile
import DFV.Lemmas.C09IeeeV
/-! C09, second round: non-vacuity for the text-file theorems - a lawful text codec on `Nat`, the
example field as a text file, a cut inside its last row. -/
namespace DFV.C09
open DFV

/-- a 1 x 2 x 1 OVF 1.0 content, mesh unit `m` -/
def exContent : Content Nat :=
  { base := [1/2, 1/4, 1], step := [1, 1/2, 2], nodes := [1, 2, 1], vd := 3, meshunit := "m",
    values := [1, 2, 3, 4, 5, 6] }

/-- decimal digits as the text of a natural number -/
def toyTextIO : TextIO Nat := ⟨fun n => (toString n).toList, fun cs => parseNat (String.ofList cs)⟩

theorem toyTextIO_lawful : toyTextIO.LawfulOn (fun _ => True) where
  parse_fmt x _ := by
    simp only [toyTextIO]
    rw [String.ofList_toList, parseNat_toString]
  clean x _ := by
    obtain ⟨hne, hdig, _⟩ := toString_digits x
    simp only [toyTextIO]
    refine ⟨hne, ?_⟩
    intro c hc
    have := isDigit_ne c (hdig c hc)
    exact ⟨this.2.1, this.2.2.1, this.2.2.2.1, isDigit_ascii c (hdig c hc)⟩

/-- the example field written as a text file, down to the bytes (597 of them; the rows end at 565) -/
def exTextBytes : List Byte :=
  match toOvfBytesT toyNum toyTextIO toyCodec exField "txt" false with
  | .ok b => b
  | .error _ => []

/-- the value of cell (1, 0, 2), component 2 after reading the first `t` bytes of the file -/
def exCutVal (t : Nat) : Option Nat :=
  match fromOvfBytesT toyNum toyTextIO toyCodec isWordC (fun _ => false) (exTextBytes.take t) none with
  | .ok g => some (g.arr.get [1, 0, 2, 2])
  | .error _ => none

theorem exCutVal_ok (t v : Nat) (h : exCutVal t = some v) :
    ∃ g, fromOvfBytesT toyNum toyTextIO toyCodec isWordC (fun _ => false) (exTextBytes.take t) none = .ok g ∧
      g.arr.get [1, 0, 2, 2] = v := by
  unfold exCutVal at h
  split at h
  · rename_i g hg
    injection h with h
    exact ⟨g, hg, h⟩
  · cases h


/-! ## the decimal text codec on binary64 values -/

/-- `fmtDec` / `parseDec` on binary64 values (a parsed number that is no binary64 value becomes 0) -/
noncomputable def decV : TextIO V64 := ⟨fun v => fmtDec v.val, fun cs => (parseDec cs).map guard64⟩

theorem decV_lawful : decV.LawfulOn (fun v => ShortDec v.val) where
  parse_fmt v h := by
    show (parseDec (fmtDec v.val)).map guard64 = some v
    rw [parseDec_fmtDec v.val h, Option.map_some, guard64_of v.val v.property]
  clean v h := decIO_lawful.clean v.val h

/-- a search that starts at or below a good exponent finds one -/
theorem decScale_good (x : Rat) (fuel start k : Nat) (hk : start ≤ k) (hf : k ≤ start + fuel)
    (hg : (x * (10 : Rat) ^ k).den = 1) : (x * (10 : Rat) ^ decScale x fuel start).den = 1 := by
  induction fuel generalizing start with
  | zero =>
    have : k = start := by omega
    subst this; exact hg
  | succ fuel ih =>
    unfold decScale
    split
    · assumption
    · rename_i hns
      have : start ≠ k := by intro e; subst e; exact hns hg
      exact ih (start + 1) (by omega) (by omega)

/-- every rational that becomes an integer when multiplied by a power of ten not larger than
`10^den` is a short decimal (dyadic rationals `a / 2^j` are: `j ≤ 2^j`) -/
theorem shortDec_of_scale (x : Rat) (k : Nat) (hk : k ≤ x.den) (hg : (x * (10 : Rat) ^ k).den = 1) : ShortDec x :=
  decScale_good x x.den 0 k (Nat.zero_le _) (by omega) hg

/-! ## the rows of a written text file -/

theorem flatPayload_mem {α} (f : OField α) (x : α) (h : x ∈ flatPayload f) : ∃ idx, x = f.arr.get idx := by
  unfold flatPayload NDA.toList at h
  obtain ⟨i, _, rfl⟩ := List.mem_map.mp h
  exact ⟨_, rfl⟩

theorem written_rows_values' {α} (c : Codec α) (f : OField α) (e : Bool) (P : α → Prop)
    (hP : ∀ idx, P (f.arr.get idx)) (h0 : P c.zero) : ∀ r ∈ textRows c f e, ∀ v ∈ r, P v := by
  have hget : ∀ k, P ((flatPayload f).getD k c.zero) := by
    intro k
    rw [List.getD_eq_getElem?_getD]
    cases hk : (flatPayload f)[k]? with
    | none => exact h0
    | some x =>
      obtain ⟨idx, rfl⟩ := flatPayload_mem f x (List.mem_of_getElem? hk)
      exact hP idx
  intro r hr v hv
  unfold textRows at hr
  obtain ⟨a, _, rfl⟩ := mem_tab _ _ _ hr
  split at hv
  · simp only [List.append_assoc, List.mem_append, List.mem_cons, List.mem_nil_iff, or_false] at hv
    rcases hv with hv | (rfl | rfl) | hv
    · obtain ⟨b, _, rfl⟩ := mem_tab _ _ _ (List.mem_of_mem_take hv)
      exact hget _
    · exact h0
    · exact h0
    · obtain ⟨b, _, rfl⟩ := mem_tab _ _ _ (List.mem_of_mem_drop hv)
      exact hget _
  · obtain ⟨b, _, rfl⟩ := mem_tab _ _ _ hv
    exact hget _


/-- what `_to_ovf` returns for `txt`, with the rows and the footer spelled out -/
theorem toOvfE_txt_body {α} (c : Codec α) (f : OField α) (V : Valid f) (e : Bool) (F : OvfFile α)
    (hF : toOvfE c f "txt" e = .ok F) : F.body = .text (textRows c f e) (footerLines ["Text"]) := by
  obtain ⟨labels, _, hlab, _, _, _, _⟩ := toOvfE_shape c f "txt" e F hF
  rw [toOvf_txt_e c f V e labels hlab] at hF
  injection hF with hF
  rw [← hF]

theorem rowsOk_written {α} (T : TextIO α) (P : α → Prop) (c : Codec α) (f : OField α) (V : Valid f) (e : Bool)
    (he : e = true → f.nvdim = 1) (hP : ∀ idx, P (f.arr.get idx)) (h0 : P c.zero) :
    RowsOk T P (textRows c f e) := by
  obtain ⟨_, huni, _⟩ := textRows_flatten c f V e he
  have hwd : 0 < writeDim f e := by rw [writeDim_e f e he]; split <;> [omega; exact V.nv]
  refine ⟨?_, written_rows_values' c f e P hP h0⟩
  intro r hr hnil
  have := huni r hr
  rw [hnil] at this
  simp at this
  omega


end DFV.C09
