import Mathlib.Algebra.Order.Field.Basic
import Mathlib.Tactic.Ring
import Mathlib.Tactic.FieldSimp
import Mathlib.Tactic.Linarith
import Mathlib.Tactic.Positivity
import DFV.Lemmas.C15
/-!
Rounded arithmetic for C15 (standard model: every operation returns the exact result
times `1 + δ`, `|δ| ≤ u`).  `FlOk fl u` is a *hypothesis* carried by the theorems, like
`C01.Rounding` (of which it is the carrier-generic form, see `Lemmas/C15RoundRat.lean`);
everything is generic in the ordered field `K`, so it applies to `Rat` and to `ℝ`.

Contents: error of the rounded sum of rounded squares, of the root (perturbation of the
non-negative root), of the quotient and the product; consequences for squared length,
cross terms and the dot product of a vector whose components carry a relative error.
-/
namespace DFV.C15
set_option linter.unusedSectionVars false
variable {K : Type} [Field K] [LinearOrder K] [IsStrictOrderedRing K]

/-- standard model of rounding: `|fl x - x| ≤ u·|x|` for every `x` -/
def FlOk (fl : K → K) (u : K) : Prop := 0 ≤ u ∧ ∀ x, |fl x - x| ≤ u * |x|

theorem FlOk.zero {fl : K → K} {u : K} (h : FlOk fl u) : fl 0 = 0 := by
  have := h.2 0
  simp only [sub_zero, abs_zero, mul_zero] at this
  exact abs_eq_zero.mp (le_antisymm this (abs_nonneg _))

/-- rounding never produces a zero out of a non-zero number (no underflow in the model) -/
theorem FlOk.eq_zero_iff {fl : K → K} {u : K} (h : FlOk fl u) (hu : u < 1) (x : K) :
    fl x = 0 ↔ x = 0 := by
  constructor
  · intro e
    have := h.2 x
    rw [e, zero_sub, abs_neg] at this
    by_contra hx
    have hp : 0 < |x| := abs_pos.mpr hx
    nlinarith
  · rintro rfl; exact h.zero

theorem FlOk.nonneg {fl : K → K} {u : K} (h : FlOk fl u) (hu : u ≤ 1) {x : K} (hx : 0 ≤ x) :
    0 ≤ fl x := by
  have := h.2 x
  rw [abs_of_nonneg hx] at this
  have := (abs_le.mp this).1
  nlinarith

/-- one more rounding on top of a relative error `α`: the error becomes `(1+u)(1+α) - 1` -/
theorem FlOk.compose {fl : K → K} {u : K} (h : FlOk fl u) {p p' α : K} (_hα : 0 ≤ α)
    (hp : |p' - p| ≤ α * |p|) : |fl p' - p| ≤ ((1 + u) * (1 + α) - 1) * |p| := by
  have h1 := h.2 p'
  have hu := h.1
  have hp' : |p'| ≤ (1 + α) * |p| := by
    have := abs_add_le (p' - p) p
    simp only [sub_add_cancel] at this
    linarith
  have e : fl p' - p = (fl p' - p') + (p' - p) := by ring
  rw [e]
  have t := abs_add_le (fl p' - p') (p' - p)
  have : u * |p'| ≤ u * ((1 + α) * |p|) := mul_le_mul_of_nonneg_left hp' hu
  nlinarith

/-- `γ k = (1+u)^k - 1` : the accumulated relative error of `k` roundings -/
def gam (u : K) (k : Nat) : K := (1 + u) ^ k - 1

theorem gam_nonneg {u : K} (hu : 0 ≤ u) (k : Nat) : 0 ≤ gam u k := by
  unfold gam
  have : (1 : K) ≤ (1 + u) ^ k := one_le_pow₀ (by linarith)
  linarith

theorem gam_succ (u : K) (k : Nat) : gam u (k + 1) = (1 + u) * (1 + gam u k) - 1 := by
  unfold gam; ring

theorem gam_mono {u : K} (hu : 0 ≤ u) {j k : Nat} (h : j ≤ k) : gam u j ≤ gam u k := by
  unfold gam
  have : (1 + u) ^ j ≤ (1 + u) ^ k := pow_le_pow_right₀ (by linarith) h
  linarith

theorem u_le_gam {u : K} (hu : 0 ≤ u) {k : Nat} (hk : 1 ≤ k) : u ≤ gam u k := by
  have := gam_mono hu hk
  simpa [gam] using this

/-! ### the rounded sum of rounded squares -/

theorem flSqLen_foldl_err {fl : K → K} {u : K} (h : FlOk fl u) (v : List K) :
    ∀ (k : Nat) (a a' : K), 1 ≤ k → 0 ≤ a → |a' - a| ≤ gam u k * a →
      |v.foldl (fun acc x => fl (acc + fl (x * x))) a' - (a + sqLen v)| ≤
        gam u (k + v.length) * (a + sqLen v) := by
  induction v with
  | nil => intro k a a' _ _ hk; simpa [sqLen] using hk
  | cons x xs ih =>
    intro k a a' hk1 ha hk
    simp only [List.foldl_cons, List.length_cons, sqLen]
    have hxx : 0 ≤ x * x := mul_self_nonneg x
    have hsum : 0 ≤ a + x * x := by linarith
    have hg := gam_nonneg h.1 k
    have hs : |fl (x * x) - x * x| ≤ u * (x * x) := by
      have := h.2 (x * x); rwa [abs_of_nonneg hxx] at this
    have hug : u ≤ gam u k := u_le_gam h.1 hk1
    have hpre : |a' + fl (x * x) - (a + x * x)| ≤ gam u k * |a + x * x| := by
      rw [abs_of_nonneg hsum]
      have e : a' + fl (x * x) - (a + x * x) = (a' - a) + (fl (x * x) - x * x) := by ring
      rw [e]
      have t := abs_add_le (a' - a) (fl (x * x) - x * x)
      have : u * (x * x) ≤ gam u k * (x * x) := mul_le_mul_of_nonneg_right hug hxx
      nlinarith
    have hpost := h.compose hg hpre
    rw [abs_of_nonneg hsum, ← gam_succ] at hpost
    have := ih (k + 1) (a + x * x) (fl (a' + fl (x * x))) (by omega) hsum hpost
    have e1 : a + x * x + sqLen xs = a + (x * x + sqLen xs) := by ring
    have e2 : k + 1 + xs.length = k + (xs.length + 1) := by omega
    rw [e1, e2] at this
    exact this

/-- **rounded sum of squares**: relative error at most `(1+u)^(n+1) - 1` for `n` components -/
theorem flSqLen_err {fl : K → K} {u : K} (h : FlOk fl u) (v : List K) :
    |flSqLen fl v - sqLen v| ≤ gam u (v.length + 1) * sqLen v := by
  have := flSqLen_foldl_err h v 1 0 0 le_rfl le_rfl (by simp)
  simp only [zero_add] at this
  rw [Nat.add_comm]
  exact this

theorem flSqLen_nonneg {fl : K → K} {u : K} (h : FlOk fl u) (hu : u ≤ 1) (v : List K) :
    0 ≤ flSqLen fl v := by
  unfold flSqLen
  suffices ∀ (a : K), 0 ≤ a → 0 ≤ v.foldl (fun acc x => fl (acc + fl (x * x))) a from this 0 le_rfl
  induction v with
  | nil => intro a ha; exact ha
  | cons x xs ih =>
    intro a ha
    simp only [List.foldl_cons]
    exact ih _ (h.nonneg hu (add_nonneg ha (h.nonneg hu (mul_self_nonneg x))))

/-- the rounded sum of squares vanishes exactly when the vector is zero -/
theorem flSqLen_eq_zero_iff {fl : K → K} {u : K} (h : FlOk fl u) (v : List K)
    (hg : gam u (v.length + 1) < 1) : flSqLen fl v = 0 ↔ sqLen v = 0 := by
  have he := flSqLen_err h v
  have hs := sqLen_nonneg v
  constructor
  · intro e
    rw [e, zero_sub, abs_neg, abs_of_nonneg hs] at he
    by_contra hne
    have : 0 < sqLen v := lt_of_le_of_ne hs (Ne.symm hne)
    nlinarith
  · intro e
    rw [e, mul_zero, sub_zero] at he
    exact abs_eq_zero.mp (le_antisymm he (abs_nonneg _))

/-! ### perturbation of the non-negative root -/

/-- if `a² = S'`, `b² = S`, `a, b ≥ 0` and `|S' - S| ≤ γ S` with `γ ≤ 1`, then
`|a - b|·(2 - γ) ≤ γ·b` (half the relative error of the radicand, to first order) -/
theorem root_perturb {a b γ : K} (ha : 0 ≤ a) (hb : 0 ≤ b) (hγ0 : 0 ≤ γ) (hγ : γ ≤ 1)
    (h : |a * a - b * b| ≤ γ * (b * b)) : |a - b| * (2 - γ) ≤ γ * b := by
  rcases eq_or_lt_of_le hb with rfl | hbpos
  · simp only [mul_zero, sub_zero] at h
    have : a * a = 0 := abs_eq_zero.mp (le_antisymm h (abs_nonneg _))
    have : a = 0 := mul_self_eq_zero.mp this
    subst this; simp
  · -- a ≥ (1-γ) b
    have hlow : (1 - γ) * b ≤ a := by
      have h1 : (1 - γ) * (b * b) ≤ a * a := by
        have := (abs_le.mp h).1; linarith
      have h2 : ((1 - γ) * b) * ((1 - γ) * b) ≤ a * a := by
        have : (1 - γ) * (1 - γ) ≤ (1 - γ) := by nlinarith
        nlinarith [mul_pos hbpos hbpos]
      by_contra hc
      have hc' : a < (1 - γ) * b := not_le.mp hc
      have : a * a < ((1 - γ) * b) * ((1 - γ) * b) := mul_self_lt_mul_self ha hc'
      linarith
    have hsum : (2 - γ) * b ≤ a + b := by linarith
    have hab : |a - b| * (a + b) = |a * a - b * b| := by
      have : a * a - b * b = (a - b) * (a + b) := by ring
      rw [this, abs_mul, abs_of_nonneg (by linarith : 0 ≤ a + b)]
    have h4 : |a - b| * ((2 - γ) * b) ≤ γ * b * b := by
      have := mul_le_mul_of_nonneg_left hsum (abs_nonneg (a - b))
      nlinarith
    have h5 : (|a - b| * (2 - γ)) * b ≤ (γ * b) * b := by nlinarith
    exact le_of_mul_le_mul_right h5 hbpos

/-! ### a vector whose components carry a relative error `ρ` against `lam • v` -/

theorem sq_err {w z ρ : K} (hρ : 0 ≤ ρ) (h : |w - z| ≤ ρ * |z|) :
    |w * w - z * z| ≤ (2 * ρ + ρ * ρ) * (z * z) := by
  have e : w * w - z * z = (w - z) * (w + z) := by ring
  rw [e, abs_mul]
  have hw : |w + z| ≤ (2 + ρ) * |z| := by
    have : w + z = (w - z) + 2 * z := by ring
    rw [this]
    have t := abs_add_le (w - z) (2 * z)
    rw [abs_mul, abs_two] at t
    linarith
  have hz : z * z = |z| * |z| := (abs_mul_abs_self z).symm
  rw [hz]
  have := mul_le_mul h hw (abs_nonneg _) (mul_nonneg hρ (abs_nonneg z))
  nlinarith [abs_nonneg z]

/-- squared length of a componentwise perturbed multiple -/
theorem sqLen_map_err (f : K → K) (lam ρ : K) (hρ : 0 ≤ ρ) (v : List K)
    (h : ∀ x ∈ v, |f x - lam * x| ≤ ρ * |lam * x|) :
    |sqLen (v.map f) - lam * lam * sqLen v| ≤ (2 * ρ + ρ * ρ) * (lam * lam * sqLen v) := by
  induction v with
  | nil => simp [sqLen]
  | cons x xs ih =>
    simp only [List.map_cons, sqLen]
    have h1 := sq_err hρ (h x (List.mem_cons_self))
    have h2 := ih fun y hy => h y (List.mem_cons_of_mem _ hy)
    have e : f x * f x + sqLen (xs.map f) - lam * lam * (x * x + sqLen xs) =
        (f x * f x - lam * x * (lam * x)) + (sqLen (xs.map f) - lam * lam * sqLen xs) := by ring
    rw [e]
    have t := abs_add_le (f x * f x - lam * x * (lam * x)) (sqLen (xs.map f) - lam * lam * sqLen xs)
    nlinarith

theorem getD_map_zero (f : K → K) (v : List K) (a : Nat) :
    (v.map f).getD a 0 = if a < v.length then f (v.getD a 0) else 0 := by
  by_cases h : a < v.length
  · simp [List.getD_eq_getElem?_getD, h]
  · simp [List.getD_eq_getElem?_getD, h]

theorem getD_mem_or_zero (v : List K) (a : Nat) (h : a < v.length) : v.getD a 0 ∈ v := by
  simp [List.getD_eq_getElem?_getD, h]

/-- cross terms of a componentwise perturbed multiple: `|w_a v_b - w_b v_a| ≤ 2ρ·|lam v_a v_b|` -/
theorem cross_err (f : K → K) (lam ρ : K) (v : List K)
    (h : ∀ x ∈ v, |f x - lam * x| ≤ ρ * |lam * x|) (a b : Nat) :
    |(v.map f).getD a 0 * v.getD b 0 - (v.map f).getD b 0 * v.getD a 0| ≤
      2 * ρ * |lam * v.getD a 0 * v.getD b 0| := by
  rw [getD_map_zero, getD_map_zero]
  by_cases ha : a < v.length
  · by_cases hb : b < v.length
    · simp only [ha, hb, if_true]
      have h1 := h _ (getD_mem_or_zero v a ha)
      have h2 := h _ (getD_mem_or_zero v b hb)
      generalize v.getD a 0 = x at *
      generalize v.getD b 0 = y at *
      have e : f x * y - f y * x = (f x - lam * x) * y - (f y - lam * y) * x := by ring
      rw [e]
      have t := abs_sub (( f x - lam * x) * y) ((f y - lam * y) * x)
      rw [abs_mul, abs_mul] at t
      have e2 : |lam * x * y| = |lam * x| * |y| := abs_mul _ _
      have e3 : |lam * x * y| = |lam * y| * |x| := by
        rw [abs_mul, abs_mul, abs_mul]; ring
      have m1 := mul_le_mul_of_nonneg_right h1 (abs_nonneg y)
      have m2 := mul_le_mul_of_nonneg_right h2 (abs_nonneg x)
      have e4 : 2 * ρ * |lam * x * y| = ρ * (|lam * x| * |y|) + ρ * (|lam * y| * |x|) := by
        rw [← e2, ← e3]; ring
      linarith
    · have : v.getD b 0 = 0 := by simp [List.getD_eq_getElem?_getD, hb]
      simp [ha, hb]
  · have : v.getD a 0 = 0 := by simp [List.getD_eq_getElem?_getD, ha]
    by_cases hb : b < v.length <;> simp [ha, hb]

/-- the lower bound that turns the absolute cross-term bound into the relative one the
harness uses -/
theorem cross_low (f : K → K) (lam ρ : K) (v : List K)
    (h : ∀ x ∈ v, |f x - lam * x| ≤ ρ * |lam * x|) (a b : Nat) (ha : a < v.length) :
    (1 - ρ) * |lam * v.getD a 0 * v.getD b 0| ≤ |(v.map f).getD a 0 * v.getD b 0| := by
  rw [getD_map_zero]
  simp only [ha, if_true]
  have h1 := h _ (getD_mem_or_zero v a ha)
  generalize v.getD a 0 = x at *
  generalize v.getD b 0 = y at *
  rw [abs_mul (f x), abs_mul (lam * x)]
  have : |lam * x| - |f x - lam * x| ≤ |f x| := by
    have := abs_sub_abs_le_abs_sub (lam * x) (f x)
    rw [abs_sub_comm] at this; linarith
  have : (1 - ρ) * |lam * x| ≤ |f x| := by linarith
  have := mul_le_mul_of_nonneg_right this (abs_nonneg y)
  linarith

/-- `Σ_c w_c v_c` -/
def dot : List K → List K → K
  | x :: xs, y :: ys => x * y + dot xs ys
  | _, _ => 0

/-- the perturbed multiple still points the same way: `w·v ≥ (1-ρ)·lam·‖v‖²` for `lam ≥ 0` -/
theorem dot_map_low (f : K → K) (lam ρ : K) (hl : 0 ≤ lam) (v : List K)
    (h : ∀ x ∈ v, |f x - lam * x| ≤ ρ * |lam * x|) :
    (1 - ρ) * (lam * sqLen v) ≤ dot (v.map f) v := by
  induction v with
  | nil => simp [dot, sqLen]
  | cons x xs ih =>
    simp only [List.map_cons, dot, sqLen]
    have h1 := h x List.mem_cons_self
    have h2 := ih fun y hy => h y (List.mem_cons_of_mem _ hy)
    have hx : (1 - ρ) * (lam * (x * x)) ≤ f x * x := by
      have e : f x * x = lam * (x * x) + (f x - lam * x) * x := by ring
      rw [e]
      have : -(ρ * |lam * x| * |x|) ≤ (f x - lam * x) * x := by
        have t := neg_abs_le ((f x - lam * x) * x)
        rw [abs_mul] at t
        have := mul_le_mul_of_nonneg_right h1 (abs_nonneg x)
        linarith
      have e2 : |lam * x| * |x| = lam * (x * x) := by
        rw [abs_mul, abs_of_nonneg hl, mul_assoc, abs_mul_abs_self]
      have e3 : ρ * |lam * x| * |x| = ρ * (lam * (x * x)) := by rw [mul_assoc, e2]
      linarith
    linarith

end DFV.C15
