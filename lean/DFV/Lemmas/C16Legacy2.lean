import DFV.Lemmas.C16Store
/-! C16 helper lemmas, part 12: the legacy point-data reader on files whose coordinate blocks
run over several lines, with a side-car; refusals of the two readers. -/
namespace DFV.C16
open DFV DFV.Mesh

/-- the side-car loader changes nothing but the subregions -/
theorem loadSubs_geom (m m1 : Mesh) (sc : Option (List (String × Region))) (h : loadSubs m sc = .ok m1) :
    m1.region = m.region ∧ m1.n = m.n ∧ m1.bc = m.bc := by
  cases sc with
  | none =>
    injection h with h
    subst h
    exact ⟨rfl, rfl, rfl⟩
  | some l =>
    unfold loadSubs at h
    simp only at h
    split at h
    · cases h
    · obtain ⟨e, _⟩ := C14.setSubs_ok_eq _ _ _ h
      rw [e]
      exact ⟨rfl, rfl, rfl⟩

theorem coordEntries_block' (c : Nat) (xs : List Rat) (cont rest : List LLine) (es : List (Nat × List Rat))
    (hq : ∀ x ∈ cont, ∀ k, x ≠ .coords k)
    (h : coordEntries rest = .ok es) : coordEntries (.coords c :: .nums xs :: cont ++ rest) = .ok ((c, xs) :: es) := by
  simp only [List.cons_append, coordEntries]
  rw [coordEntries_skip cont rest hq, h]

/-- the whole reader on a file of the old layout whose coordinate blocks may run over several
lines, with any side-car the loader accepts -/
theorem legacyRead_split (pre mid post : List LLine) (N : Nat → Nat) (o c : Nat → Rat) (first : Nat → List Rat)
    (cont : Nat → List LLine) (vec : Bool) (rows : List (List Rat))
    (sidecar : Option (List (String × Region))) (m1 : Mesh)
    (hpre : Quiet pre) (hmid : Quiet mid) (hcont : ∀ a, a < 3 → Quiet (cont a))
    (hpost : ∀ x ∈ post, ∀ k, x ≠ .coords k)
    (hsc : vec = false → (∀ x ∈ pre ++ (cont 0 ++ (cont 1 ++ (cont 2 ++ mid))), x ≠ .scalars) ∧ ∀ x ∈ post, x ≠ .vectors)
    (hN : ∀ a, a < 3 → 1 ≤ N a) (hc : ∀ a, a < 3 → 0 < c a)
    (hfirst : ∀ a, a < 3 → 1 ≤ (first a).length ∧ (first a).getD 0 0 = o a ∧
      (1 < N a → 1 < (first a).length ∧ (first a).getD 1 0 = o a + c a) ∧ (N a = 1 → (first a).length = 1))
    (hrows : rows.length = natProd [N 0, N 1, N 2]) (hrow : ∀ r ∈ rows, r.length = if vec then 3 else 1)
    (hsub : loadSubs { region := plainRegion (tab 3 (fun a => o a - legCe N c a * (1/2)))
                                  (tab 3 (fun a => o a - legCe N c a * (1/2) + (N a : Rat) * legCe N c a)),
                       n := [N 0, N 1, N 2], bc := "", subs := [] } sidecar = .ok m1) :
    ∃ f', legacyRead (legacyFileSplit pre mid post N first cont vec rows) sidecar = .ok f' ∧
      f'.mesh = m1 ∧ f'.nvdim = (if vec then 3 else 1) ∧
      f'.vdims = (if vec then some ["x", "y", "z"] else none) ∧
      (∀ idx, inRange [N 0, N 1, N 2] idx = true →
        f'.data.get idx = rows.getD (flatF [N 0, N 1, N 2] idx) [] ∧ f'.valid.get idx = true) := by
  set es : List (Nat × List Rat) := [(N 0, first 0), (N 1, first 1), (N 2, first 2)] with hes
  set tail : List LLine := (if vec then [LLine.vectors] else [.scalars, .alpha]) ++ (rows.map .nums ++ post) with htail
  have hfile : legacyFileSplit pre mid post N first cont vec rows =
      pre ++ ((.coords (N 0) :: .nums (first 0) :: cont 0) ++ ((.coords (N 1) :: .nums (first 1) :: cont 1) ++
        ((.coords (N 2) :: .nums (first 2) :: cont 2) ++ (mid ++ tail)))) := rfl
  -- coordinate blocks
  have htailc : ∀ x ∈ mid ++ tail, ∀ k, x ≠ .coords k := by
    intro x hx k
    rcases List.mem_append.mp hx with hx | hx
    · exact (hmid x hx).1 k
    · rw [htail] at hx
      rcases List.mem_append.mp hx with hx | hx
      · cases vec <;> simp at hx <;> rcases hx with rfl | rfl <;> simp
      · rcases List.mem_append.mp hx with hx | hx
        · obtain ⟨r, _, rfl⟩ := List.mem_map.mp hx; simp
        · exact hpost x hx k
  have hce : coordEntries (legacyFileSplit pre mid post N first cont vec rows) = .ok es := by
    rw [hfile, coordEntries_skip pre _ (fun x hx => (hpre x hx).1)]
    apply coordEntries_block' _ _ _ _ _ (fun x hx => (hcont 0 (by omega) x hx).1)
    apply coordEntries_block' _ _ _ _ _ (fun x hx => (hcont 1 (by omega) x hx).1)
    apply coordEntries_block' _ _ _ _ _ (fun x hx => (hcont 2 (by omega) x hx).1)
    exact coordEntries_none _ htailc
  -- the lines before the data marker
  set head : List LLine := pre ++ ((.coords (N 0) :: .nums (first 0) :: cont 0) ++
    ((.coords (N 1) :: .nums (first 1) :: cont 1) ++ ((.coords (N 2) :: .nums (first 2) :: cont 2) ++ mid))) with hhead
  have hsplit : legacyFileSplit pre mid post N first cont vec rows = head ++ tail := by
    rw [hfile, hhead]; simp
  have hheadmem : ∀ x ∈ head, x ∈ pre ++ (cont 0 ++ (cont 1 ++ (cont 2 ++ mid))) ∨
      (∃ k, x = .coords k) ∨ (∃ xs, x = .nums xs) := by
    intro x hx
    rw [hhead] at hx
    simp only [List.mem_append, List.mem_cons] at hx ⊢
    rcases hx with h | (h | h | h) | (h | h | h) | (h | h | h) | h
    · exact Or.inl (Or.inl h)
    · exact Or.inr (Or.inl ⟨_, h⟩)
    · exact Or.inr (Or.inr ⟨_, h⟩)
    · exact Or.inl (Or.inr (Or.inl h))
    · exact Or.inr (Or.inl ⟨_, h⟩)
    · exact Or.inr (Or.inr ⟨_, h⟩)
    · exact Or.inl (Or.inr (Or.inr (Or.inl h)))
    · exact Or.inr (Or.inl ⟨_, h⟩)
    · exact Or.inr (Or.inr ⟨_, h⟩)
    · exact Or.inl (Or.inr (Or.inr (Or.inr (Or.inl h))))
    · exact Or.inl (Or.inr (Or.inr (Or.inr (Or.inr h))))
  have hquiet : ∀ x ∈ pre ++ (cont 0 ++ (cont 1 ++ (cont 2 ++ mid))), x ≠ .vectors := by
    intro x hx
    simp only [List.mem_append] at hx
    rcases hx with h | h | h | h | h
    · exact (hpre x h).2
    · exact (hcont 0 (by omega) x h).2
    · exact (hcont 1 (by omega) x h).2
    · exact (hcont 2 (by omega) x h).2
    · exact (hmid x h).2
  -- is it a vector file?
  have hvec : (legacyFileSplit pre mid post N first cont vec rows).contains .vectors = vec := by
    cases vec with
    | true =>
      rw [List.contains_iff_mem, hsplit]
      simp [htail]
    | false =>
      obtain ⟨_, hp2⟩ := hsc rfl
      have : ¬ LLine.vectors ∈ legacyFileSplit pre mid post N first cont false rows := by
        rw [hsplit, htail]
        simp only [List.mem_append, not_or]
        refine ⟨?_, ?_, ?_, fun h => hp2 _ h rfl⟩
        · intro h
          rcases hheadmem _ h with h | ⟨k, h⟩ | ⟨xs, h⟩
          · exact hquiet _ h rfl
          · cases h
          · cases h
        · simp
        · simp
      simpa [List.contains_iff_mem] using this
  -- the data marker
  have hmark : afterMarker vec (legacyFileSplit pre mid post N first cont vec rows) =
      some ((if vec then [] else [LLine.alpha]) ++ (rows.map .nums ++ post)) := by
    have hq : ∀ x ∈ head, ((vec && x == .vectors) || (!vec && x == .scalars)) = false := by
      intro x hx
      cases vec with
      | true =>
        have : x ≠ .vectors := by
          rcases hheadmem _ hx with h | ⟨k, h⟩ | ⟨xs, h⟩
          · exact hquiet _ h
          · rw [h]; simp
          · rw [h]; simp
        simpa using this
      | false =>
        obtain ⟨hp1, _⟩ := hsc rfl
        have : x ≠ .scalars := by
          rcases hheadmem _ hx with h | ⟨k, h⟩ | ⟨xs, h⟩
          · exact hp1 _ h
          · rw [h]; simp
          · rw [h]; simp
        simpa using this
    rw [hsplit, afterMarker_skip vec _ _ hq, htail]
    cases vec <;> simp [afterMarker]
  -- geometry
  have hcell : ∀ a, a < 3 → (legCell es).getD a 0 = legCe N c a := by
    intro a ha
    obtain ⟨h1, h2, h3, h4⟩ := hfirst a ha
    have key : (if 1 < (first a).length then (first a).getD 1 0 - (first a).getD 0 0 else nm1) = legCe N c a := by
      unfold legCe
      by_cases hNa : 1 < N a
      · obtain ⟨h5, h6⟩ := h3 hNa
        rw [if_pos h5, if_pos hNa, h6, h2]; ring
      · have : N a = 1 := by have := hN a ha; omega
        have h5 := h4 this
        rw [if_neg (by omega), if_neg hNa]
    have : a = 0 ∨ a = 1 ∨ a = 2 := by omega
    rcases this with rfl | rfl | rfl <;>
    · simp only [legCell, hes, List.map_cons, List.map_nil, List.getD_cons_zero, List.getD_cons_succ]
      exact key
  have horg : ∀ a, a < 3 → (legOrigin es).getD a 0 = o a := by
    intro a ha
    have : a = 0 ∨ a = 1 ∨ a = 2 := by omega
    rcases this with rfl | rfl | rfl <;>
    · simp only [legOrigin, hes, List.map_cons, List.map_nil, List.getD_cons_zero, List.getD_cons_succ]
      exact (hfirst _ (by omega)).2.1
  have hn : legN es = [N 0, N 1, N 2] := rfl
  have hp1 : legP1 es = tab 3 (fun a => o a - legCe N c a * (1/2)) := by
    unfold legP1
    apply tab_congr
    intro a ha
    rw [horg a ha, hcell a ha]
  have hp2 : legP2 es = tab 3 (fun a => o a - legCe N c a * (1/2) + (N a : Rat) * legCe N c a) := by
    unfold legP2
    apply tab_congr
    intro a ha
    have ha' : a < 3 := ha
    rw [hp1, getD_tab _ _ _ _ ha', hcell a ha', hn]
    have : a = 0 ∨ a = 1 ∨ a = 2 := by omega
    rcases this with rfl | rfl | rfl <;> simp
  have hcepos : ∀ a, a < 3 → 0 < legCe N c a := by
    intro a ha
    unfold legCe
    split
    · exact hc a ha
    · exact nm1_pos
  have hmesh := meshOf_plain (legP1 es) (legP2 es) (legN es) (by simp [legP1, hes]) (by simp [legP2, hes]) rfl
    (by
      intro a ha
      rw [hp2, hp1, getD_tab _ _ _ _ ha, getD_tab _ _ _ _ ha]
      have h1 : (1 : Rat) ≤ (N a : Rat) := by exact_mod_cast hN a ha
      have := hcepos a ha
      nlinarith)
    (by
      intro k hk
      rw [hn] at hk
      simp only [List.mem_cons, List.mem_nil_iff, or_false] at hk
      rcases hk with rfl | rfl | rfl
      · have := hN 0 (by omega); omega
      · have := hN 1 (by omega); omega
      · have := hN 2 (by omega); omega)
  rw [hp1, hp2, hn] at hmesh
  obtain ⟨hm1r, hm1n, _⟩ := loadSubs_geom _ _ _ hsub
  simp only at hm1r hm1n
  -- the data loop
  have hrow' : ∀ r ∈ rows, r.length = (if vec then 3 else 1) := hrow
  obtain ⟨res, hf1, hf2, hf3, _⟩ := fill_rows (if vec then 3 else 1) post (indicesF [N 0, N 1, N 2]) rows
    (NDA.const [N 0, N 1, N 2] (List.replicate (if vec then 3 else 1) 0)) (indicesF_nodup _)
    (by rw [hrows]; simp [indicesF]) hrow'
  refine ⟨{ mesh := m1, nvdim := if vec then 3 else 1, data := res, valid := NDA.const [N 0, N 1, N 2] true,
            vdims := if vec then some ["x", "y", "z"] else none,
            vmap := defaultVmap (if vec then 3 else 1) m1.region.dims (if vec then some ["x", "y", "z"] else none),
            unit := none }, ?_, rfl, rfl, rfl, ?_⟩
  · unfold legacyRead
    rw [hce]
    simp only
    have hany : (es.any fun e => decide (e.2.length = 0)) = false := by
      rw [List.any_eq_false]
      intro e he
      simp only [hes, List.mem_cons, List.mem_nil_iff, or_false] at he
      rcases he with rfl | rfl | rfl <;> simp only [decide_eq_true_eq]
      · have := (hfirst 0 (by omega)).1; omega
      · have := (hfirst 1 (by omega)).1; omega
      · have := (hfirst 2 (by omega)).1; omega
    rw [hany]
    simp only [Bool.false_eq_true, if_false]
    rw [hp1, hp2, hn, hmesh]
    simp only [hsub, hvec]
    rw [mkField_legacy m1 vec (by rw [hm1r]; rfl)]
    simp only
    rw [hmark]
    simp only
    have hdrop : (((if vec then [] else [LLine.alpha]) ++ (rows.map LLine.nums ++ post)).drop (if vec then 0 else 1)) =
        rows.map LLine.nums ++ post := by
      cases vec <;> simp
    rw [hdrop, hm1n, C01.indices_refines, hf1]
  · intro idx hi
    constructor
    · have := hf3 (flatF [N 0, N 1, N 2] idx) (by
        have := flatF_lt _ _ hi
        simpa [indicesF] using this)
      rw [indicesF_getD _ _ hi] at this
      exact this
    · rfl

/-! ## refusals -/

theorem afterMarker_none (vec : Bool) (l : List LLine)
    (h : ∀ x ∈ l, ((vec && x == .vectors) || (!vec && x == .scalars)) = false) : afterMarker vec l = none := by
  have := afterMarker_skip vec l [] h
  simpa [afterMarker] using this

/-- the name scan finds a `field` array exactly when there is one -/
theorem scan_fieldIdx_none (l : List VArr) (i : Nat) (s : Scan) (hs : s.fieldIdx = none)
    (h : ∀ a ∈ l, a.name ≠ "field") : (scan l i s).fieldIdx = none := by
  induction l generalizing i s with
  | nil => simpa [scan]
  | cons a as ih =>
    have ha := h a (by simp)
    simp only [scan, if_neg ha]
    split
    · exact ih _ _ hs fun b hb => h b (by simp [hb])
    · split
      · exact ih _ _ hs fun b hb => h b (by simp [hb])
      · exact ih _ _ hs fun b hb => h b (by simp [hb])

end DFV.C16
