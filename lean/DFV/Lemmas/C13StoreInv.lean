import DFV.Lemmas.C13Store
/-! C13 / C14 (round 3): invariants of the store model that hold after EVERY session (each Region object
stays a proper region with its dimension names; the subregion objects of the meshes are pairwise
different objects, created after the region object of their mesh), and exclusive ownership under the
caller's discipline. -/
namespace DFV.S
open DFV DFV.T DFV.C14

theorem mem_setAt {α} (l : List α) (i : Nat) (a x : α) (h : x ∈ setAt l i a) : x = a ∨ x ∈ l := by
  induction l generalizing i with
  | nil => cases h
  | cons y ys ih =>
    cases i with
    | zero =>
      simp only [setAt, List.mem_cons] at h
      rcases h with h | h
      · exact Or.inl h
      · exact Or.inr (List.mem_cons_of_mem _ h)
    | succ j =>
      simp only [setAt, List.mem_cons] at h
      rcases h with h | h
      · exact Or.inr (by rw [h]; exact List.mem_cons_self)
      · rcases ih j h with h | h
        · exact Or.inl h
        · exact Or.inr (List.mem_cons_of_mem _ h)

theorem flatMap_split {α β} (l : List α) (f : α → List β) (i : Nat) (b : α) (h : l[i]? = some b) :
    l.flatMap f = (l.take i).flatMap f ++ f b ++ (l.drop (i + 1)).flatMap f := by
  induction l generalizing i with
  | nil => simp at h
  | cons y ys ih =>
    cases i with
    | zero => simp at h; subst h; simp
    | succ j =>
      simp at h
      simp only [List.flatMap_cons, List.take_succ_cons, List.drop_succ_cons]
      rw [ih j h]; simp [List.append_assoc]

theorem flatMap_setAt {α β} (l : List α) (f : α → List β) (i : Nat) (a b : α) (h : l[i]? = some b) :
    (setAt l i a).flatMap f = (l.take i).flatMap f ++ f a ++ (l.drop (i + 1)).flatMap f := by
  induction l generalizing i with
  | nil => simp at h
  | cons y ys ih =>
    cases i with
    | zero => simp at h; simp [setAt]
    | succ j =>
      simp at h
      simp only [setAt, List.flatMap_cons, List.take_succ_cons, List.drop_succ_cons]
      rw [ih j h]; simp [List.append_assoc]

theorem nodup_of_flatMap {α β} (l : List α) (f : α → List β) (h : (l.flatMap f).Nodup) (a : α) (ha : a ∈ l) : (f a).Nodup := by
  induction l with
  | nil => cases ha
  | cons y ys ih =>
    rw [List.flatMap_cons, List.nodup_append] at h
    rcases List.mem_cons.mp ha with e | e
    · rw [e]; exact h.1
    · exact ih h.2.1 e

theorem getElem?_setAt_eq {α} (l : List α) (i : Nat) (a : α) (h : i < l.length) : (setAt l i a)[i]? = some a := by
  induction l generalizing i with
  | nil => simp at h
  | cons y ys ih =>
    cases i with
    | zero => simp [setAt]
    | succ j => simp [setAt]; exact ih j (by simpa using h)

theorem getElem?_setAt_ne {α} (l : List α) (i j : Nat) (a : α) (h : j ≠ i) : (setAt l i a)[j]? = l[j]? := by
  induction l generalizing i j with
  | nil => rfl
  | cons y ys ih =>
    cases i with
    | zero =>
      cases j with
      | zero => exact absurd rfl h
      | succ j' => simp [setAt]
    | succ i' =>
      cases j with
      | zero => simp [setAt]
      | succ j' => simp [setAt]; exact ih i' j' (by omega)

/-! ## what never changes about a Region object; what is always true about a mesh object -/

/-- the ids of all subregion objects, mesh by mesh -/
def subIds (s : Store) : List Nat := s.meshes.flatMap fun mo => mo.subs.map (·.2)

/-- the ids of the region objects of the meshes -/
def regIds (s : Store) : List Nat := s.meshes.map (·.region)

/-- `b` is a proper region with the dimension and the dimension names of `a` (no method changes them) -/
def Similar (a b : Region) : Prop := b.Inv ∧ b.ndim = a.ndim ∧ b.dims = a.dims

/-- the state of one mesh object: its region object exists, its subregion objects exist and were
created after the region object; counts positive, one per direction; `bc` lower-cased and checked; the
subregions carry the dimension names of the region -/
def MeshVal (s : Store) (mo : MeshObj) : Prop :=
  mo.region < s.regs.length ∧ (∀ p ∈ mo.subs, mo.region < p.2 ∧ p.2 < s.regs.length) ∧
  mo.n.length = (s.reg mo.region).ndim ∧ (∀ k ∈ mo.n, 0 < k) ∧ BcInv (absMesh s mo) ∧
  ∀ p ∈ mo.subs, (s.reg p.2).dims = (s.reg mo.region).dims

/-- the invariant of the store: every Region object is a proper region; no Region object is the
subregion of two meshes or twice of one; every mesh object is in a proper state -/
def Good (s : Store) : Prop :=
  (∀ i, i < s.regs.length → (s.reg i).Inv) ∧ (subIds s).Nodup ∧ ∀ mo ∈ s.meshes, MeshVal s mo

theorem similar_refl (a : Region) (h : a.Inv) : Similar a a := ⟨h, rfl, rfl⟩

theorem similar_trans (a b c : Region) (h1 : Similar a b) (h2 : Similar b c) : Similar a c :=
  ⟨h2.1, h2.2.1.trans h1.2.1, h2.2.2.trans h1.2.2⟩

theorem stepR_similar (r : Region) (hr : r.Inv) (op : Op) (x r' : Region) (h : stepR r op = .ok (x, r')) : Similar r r' := by
  obtain ⟨a, b, c, _⟩ := stepR_keeps r hr op x r' h
  exact ⟨a, b, c⟩

/-- the in-place method on one Region object: same objects, same meshes, the object keeps its skeleton -/
theorem updReg_similar (s s' : Store) (i : Nat) (op : Op) (h : updReg s i op = .ok s')
    (hinv : ∀ j, j < s.regs.length → (s.reg j).Inv) :
    s'.meshes = s.meshes ∧ s'.regs.length = s.regs.length ∧ ∀ j, j < s.regs.length → Similar (s.reg j) (s'.reg j) := by
  obtain ⟨r', hst, e⟩ := updReg_ok s s' i op h
  subst e
  refine ⟨rfl, setReg_length _ _ _, ?_⟩
  intro j hj
  by_cases hji : j = i
  · subst hji
    rw [reg_setReg_eq _ _ _ hj]
    exact stepR_similar _ (hinv j hj) _ _ _ hst
  · rw [reg_setReg_ne _ _ _ _ hji]; exact similar_refl _ (hinv j hj)

/-- … on a dictionary of Region objects, wherever the sequence stops -/
theorem updSubs_similar (s s' : Store) (subs : List (String × Nat)) (op : Op) (b : Bool) (h : updSubs s subs op = (s', b))
    (hinv : ∀ j, j < s.regs.length → (s.reg j).Inv) :
    s'.meshes = s.meshes ∧ s'.regs.length = s.regs.length ∧ ∀ j, j < s.regs.length → Similar (s.reg j) (s'.reg j) := by
  induction subs generalizing s with
  | nil =>
    simp only [updSubs] at h
    injection h with h1 _
    subst h1
    exact ⟨rfl, rfl, fun j hj => similar_refl _ (hinv j hj)⟩
  | cons p ps ih =>
    simp only [updSubs] at h
    cases hu : updReg s p.2 op with
    | error e =>
      rw [hu] at h
      injection h with h1 _
      subst h1
      exact ⟨rfl, rfl, fun j hj => similar_refl _ (hinv j hj)⟩
    | ok s1 =>
      rw [hu] at h
      obtain ⟨a1, a2, a3⟩ := updReg_similar s s1 p.2 op hu hinv
      obtain ⟨b1, b2, b3⟩ := ih s1 h (fun j hj => (a3 j (a2 ▸ hj)).1)
      exact ⟨b1.trans a1, b2.trans a2, fun j hj => similar_trans _ _ _ (a3 j hj) (b3 j (a2 ▸ hj))⟩

theorem bcInv_congr (m m' : Mesh) (hb : m'.bc = m.bc) (hd : m'.region.dims = m.region.dims) (h : BcInv m) : BcInv m' := by
  unfold BcInv at h ⊢
  rw [hb, hd]; exact h

theorem char_toLower_of_not (c : Char) (h : ¬ (c.val ≥ 'A'.val ∧ c.val ≤ 'Z'.val)) : c.toLower = c := by
  unfold Char.toLower; rw [dif_neg h]

theorem char_toLower_idem (c : Char) : c.toLower.toLower = c.toLower := by
  by_cases h : c.val ≥ 'A'.val ∧ c.val ≤ 'Z'.val
  · have e : c.toLower.val = c.val + ('a'.val - 'A'.val) := by
      unfold Char.toLower; rw [dif_pos h]
    apply char_toLower_of_not
    rw [e]
    obtain ⟨h1, h2⟩ := h
    rw [ge_iff_le, UInt32.le_iff_toNat_le] at h1
    rw [UInt32.le_iff_toNat_le] at h2
    intro ⟨_, h4⟩
    rw [UInt32.le_iff_toNat_le, UInt32.toNat_add] at h4
    have a : 'A'.val.toNat = 65 := by decide
    have z : 'Z'.val.toNat = 90 := by decide
    have d : ('a'.val - 'A'.val).toNat = 32 := by decide
    rw [a] at h1; rw [z] at h2 h4; rw [d] at h4
    omega
  · rw [char_toLower_of_not c h, char_toLower_of_not c h]

/-- `str.lower` is idempotent -/
theorem toLower_idem (s : String) : s.toLower.toLower = s.toLower := by
  rw [lower_iff, toLower_toList]
  intro c hc
  obtain ⟨d, _, e⟩ := List.mem_map.mp hc
  rw [← e]; exact char_toLower_idem d

/-- a mesh object that is not touched stays in a proper state while the Region objects keep their skeletons -/
theorem meshVal_similar (s s' : Store) (mo : MeshObj) (h : MeshVal s mo) (hlen : s.regs.length ≤ s'.regs.length)
    (hsim : ∀ j, j < s.regs.length → Similar (s.reg j) (s'.reg j)) : MeshVal s' mo := by
  obtain ⟨h1, h2, h3, h4, h5, h6⟩ := h
  have hr := hsim mo.region h1
  refine ⟨by omega, fun p hp => ⟨(h2 p hp).1, by have := (h2 p hp).2; omega⟩, by rw [hr.2.1]; exact h3, h4, ?_, ?_⟩
  · exact bcInv_congr (absMesh s mo) (absMesh s' mo) rfl hr.2.2 h5
  · intro p hp
    rw [(hsim p.2 (h2 p hp).2).2.2, hr.2.2]; exact h6 p hp

theorem mem_meshes_getElem? (s : Store) (mo : MeshObj) (h : mo ∈ s.meshes) : ∃ i : Nat, s.meshes[i]? = some mo := by
  obtain ⟨i, hi, e⟩ := List.mem_iff_getElem.mp h
  exact ⟨i, by rw [List.getElem?_eq_getElem hi, e]⟩

/-- the store stays good while the list of mesh objects is the same, the old Region objects keep their
skeletons and the new ones are proper regions -/
theorem good_same_meshes (s s' : Store) (hg : Good s) (hm : s'.meshes = s.meshes) (hlen : s.regs.length ≤ s'.regs.length)
    (hsim : ∀ j, j < s.regs.length → Similar (s.reg j) (s'.reg j))
    (hnew : ∀ j, s.regs.length ≤ j → j < s'.regs.length → (s'.reg j).Inv) : Good s' := by
  obtain ⟨g1, g2, g3⟩ := hg
  refine ⟨?_, by unfold subIds; rw [hm]; exact g2, ?_⟩
  · intro i hi
    by_cases h : i < s.regs.length
    · exact (hsim i h).1
    · exact hnew i (by omega) hi
  · intro mo hmo
    rw [hm] at hmo
    exact meshVal_similar s s' mo (g3 mo hmo) hlen hsim

/-- … or one mesh object is replaced by one that holds the same Region objects and is in a proper state -/
theorem good_setAt_same_ids (s s' : Store) (hg : Good s) (mid : Nat) (mo mo' : MeshObj) (hmo : s.meshes[mid]? = some mo)
    (hm : s'.meshes = setAt s.meshes mid mo') (hsub : mo'.subs = mo.subs) (hval : MeshVal s' mo')
    (hlen : s.regs.length ≤ s'.regs.length) (hsim : ∀ j, j < s.regs.length → Similar (s.reg j) (s'.reg j))
    (hnew : ∀ j, s.regs.length ≤ j → j < s'.regs.length → (s'.reg j).Inv) : Good s' := by
  obtain ⟨g1, g2, g3⟩ := hg
  refine ⟨?_, ?_, ?_⟩
  · intro i hi
    by_cases h : i < s.regs.length
    · exact (hsim i h).1
    · exact hnew i (by omega) hi
  · unfold subIds at g2 ⊢
    rw [hm, flatMap_setAt _ _ _ _ _ hmo, hsub, ← flatMap_split _ _ _ _ hmo]
    exact g2
  · intro m hmem
    rw [hm] at hmem
    rcases mem_setAt _ _ _ _ hmem with e | e
    · rw [e]; exact hval
    · exact meshVal_similar s s' m (g3 m e) hlen hsim

theorem subIds_lt (s : Store) (hg : Good s) (i : Nat) (hi : i ∈ subIds s) : i < s.regs.length := by
  unfold subIds at hi
  rw [List.mem_flatMap] at hi
  obtain ⟨mo, hmo, hmem⟩ := hi
  obtain ⟨p, hp, e⟩ := List.mem_map.mp hmem
  rw [← e]; exact ((hg.2.2 mo hmo).2.1 p hp).2

/-- … or a new mesh object is appended whose subregion objects are new objects -/
theorem good_append (s s' : Store) (hg : Good s) (mo' : MeshObj) (hm : s'.meshes = s.meshes ++ [mo'])
    (hfresh : (mo'.subs.map (·.2)).Nodup ∧ ∀ p ∈ mo'.subs, s.regs.length ≤ p.2) (hval : MeshVal s' mo')
    (hlen : s.regs.length ≤ s'.regs.length) (hsim : ∀ j, j < s.regs.length → Similar (s.reg j) (s'.reg j))
    (hnew : ∀ j, s.regs.length ≤ j → j < s'.regs.length → (s'.reg j).Inv) : Good s' := by
  have hlt := subIds_lt s hg
  obtain ⟨g1, g2, g3⟩ := hg
  refine ⟨?_, ?_, ?_⟩
  · intro i hi
    by_cases h : i < s.regs.length
    · exact (hsim i h).1
    · exact hnew i (by omega) hi
  · unfold subIds at g2 hlt ⊢
    rw [hm, List.flatMap_append, List.nodup_append]
    refine ⟨g2, by simpa using hfresh.1, ?_⟩
    intro a ha b hb e
    simp only [List.flatMap_cons, List.flatMap_nil, List.append_nil] at hb
    obtain ⟨p, hp, e2⟩ := List.mem_map.mp hb
    have := hfresh.2 p hp
    have := hlt a ha
    omega
  · intro m hmem
    rw [hm] at hmem
    rcases List.mem_append.mp hmem with e | e
    · exact meshVal_similar s s' m (g3 m e) hlen hsim
    · simp only [List.mem_singleton] at e; rw [e]; exact hval

/-- … or one mesh object gets a new dictionary of new objects -/
theorem good_setAt_fresh (s s' : Store) (hg : Good s) (mid : Nat) (mo mo' : MeshObj) (hmo : s.meshes[mid]? = some mo)
    (hm : s'.meshes = setAt s.meshes mid mo')
    (hfresh : (mo'.subs.map (·.2)).Nodup ∧ ∀ p ∈ mo'.subs, s.regs.length ≤ p.2) (hval : MeshVal s' mo')
    (hlen : s.regs.length ≤ s'.regs.length) (hsim : ∀ j, j < s.regs.length → Similar (s.reg j) (s'.reg j))
    (hnew : ∀ j, s.regs.length ≤ j → j < s'.regs.length → (s'.reg j).Inv) : Good s' := by
  have hlt := subIds_lt s hg
  obtain ⟨g1, g2, g3⟩ := hg
  refine ⟨?_, ?_, ?_⟩
  · intro i hi
    by_cases h : i < s.regs.length
    · exact (hsim i h).1
    · exact hnew i (by omega) hi
  · unfold subIds at g2 hlt ⊢
    rw [hm, flatMap_setAt _ _ _ _ _ hmo]
    rw [flatMap_split _ _ _ _ hmo] at g2 hlt
    rw [List.nodup_append] at g2 ⊢
    obtain ⟨g21, g22, g23⟩ := g2
    rw [List.nodup_append] at g21 ⊢
    refine ⟨⟨g21.1, hfresh.1, ?_⟩, g22, ?_⟩
    · intro a ha b hb e
      obtain ⟨p, hp, e2⟩ := List.mem_map.mp hb
      have := hfresh.2 p hp
      have := hlt a (List.mem_append_left _ (List.mem_append_left _ ha))
      omega
    · intro a ha b hb e
      rcases List.mem_append.mp ha with ha | ha
      · exact g23 a (List.mem_append_left _ ha) b hb e
      · obtain ⟨p, hp, e2⟩ := List.mem_map.mp ha
        have := hfresh.2 p hp
        have := hlt b (List.mem_append_right _ hb)
        omega
  · intro m hmem
    rw [hm] at hmem
    rcases mem_setAt _ _ _ _ hmem with e | e
    · rw [e]; exact hval
    · exact meshVal_similar s s' m (g3 m e) hlen hsim

/-! ## every statement keeps the store good -/

theorem subOk_lengths (m : Mesh) (c : Region) (h : candOk m c = true) : c.pmin.length = m.region.ndim :=
  candOk_ndim m c h

/-- the Region object the setter creates for an accepted candidate is a proper region with the
names of the mesh region -/
theorem stamp_inv (r c : Region) (hr : r.Inv) (hc : c.Inv) (hl : c.pmin.length = r.ndim) : Similar r (stamp r c) := by
  obtain ⟨r1, r2, r3, r4, r5, r6⟩ := hr
  obtain ⟨c1, c2, c3, c4, c5, c6⟩ := hc
  have hl' : c.pmin.length = r.pmin.length := hl
  refine ⟨⟨c1, c2, by show r.dims.length = c.pmin.length; rw [r3, hl'], by show r.units.length = c.pmin.length; rw [r4, hl'],
    r5, c6⟩, hl, rfl⟩

theorem idsOk_iff (s : Store) (subs : List (String × Nat)) : idsOk s subs = true ↔ ∀ p ∈ subs, p.2 < s.regs.length := by
  unfold idsOk; rw [List.all_eq_true]
  constructor
  · intro h p hp; simpa using h p hp
  · intro h p hp; simpa using h p hp

theorem attach_ok (s s' : Store) (m : Mesh) (subs ids : List (String × Nat)) (h : attach s m subs = .ok (s', ids)) :
    s' = s.allocs (subs.map fun p => stamp m.region (s.reg p.2)) ∧ ids = freshIds s.regs.length subs ∧
    ∀ p ∈ subs, candOk m (s.reg p.2) = true := by
  unfold attach at h
  split at h
  · rename_i hall
    injection h with h; injection h with h1 h2
    refine ⟨h1.symm, h2.symm, ?_⟩
    intro p hp
    exact List.all_eq_true.mp hall (p.1, s.reg p.2) (List.mem_map_of_mem hp)
  · cases h

theorem getD_map_of_lt {α β} (l : List α) (f : α → β) (k : Nat) (d : β) (hk : k < l.length) :
    (l.map f).getD k d = f l[k] := by
  rw [List.getD_eq_getElem?_getD, List.getElem?_map, List.getElem?_eq_getElem hk]; rfl

/-- after an accepted assignment of subregions: old objects untouched, the new ones are proper
regions with the names of the mesh region, the new dictionary consists of new, pairwise different ids -/
theorem attach_facts (s s' : Store) (m : Mesh) (subs ids : List (String × Nat)) (h : attach s m subs = .ok (s', ids))
    (hinv : ∀ i, i < s.regs.length → (s.reg i).Inv) (hm : m.region.Inv) (hids : ∀ p ∈ subs, p.2 < s.regs.length) :
    s'.meshes = s.meshes ∧ s'.regs.length = s.regs.length + subs.length ∧
    (∀ j, j < s.regs.length → s'.reg j = s.reg j) ∧
    (∀ j, s.regs.length ≤ j → j < s'.regs.length → Similar m.region (s'.reg j)) ∧
    (ids.map (·.2)).Nodup ∧ (∀ p ∈ ids, s.regs.length ≤ p.2 ∧ p.2 < s'.regs.length) := by
  obtain ⟨e1, e2, hall⟩ := attach_ok s s' m subs ids h
  subst e1; subst e2
  refine ⟨rfl, by rw [allocs_length]; simp, fun j hj => reg_allocs_lt _ _ _ hj, ?_, freshIds_nodup _ _, ?_⟩
  · intro j h1 h2
    rw [allocs_length, List.length_map] at h2
    have : j = s.regs.length + (j - s.regs.length) := by omega
    rw [this, reg_allocs_ge, getD_map_of_lt _ _ _ _ (by omega)]
    have hmem : subs[j - s.regs.length] ∈ subs := List.getElem_mem _
    exact stamp_inv _ _ hm (hinv _ (hids _ hmem)) (subOk_lengths m _ (hall _ hmem))
  · intro p hp
    have := freshIds_mem _ _ _ hp
    rw [allocs_length, List.length_map]; exact this

theorem mkN?_ok (r : Region) (n : List Nat) (bc : String) (m : Mesh) (h : Mesh.mkN? r n bc = .ok m) :
    m = { region := r, n := n, bc := bc.toLower, subs := [] } ∧ n.length = r.ndim ∧ (∀ k ∈ n, 0 < k) ∧
    Mesh.bcOk r.dims bc.toLower = true := by
  obtain ⟨_, _, a3, a4⟩ := DFV.C13.mkN_ok r n bc m h
  unfold Mesh.mkN? at h
  split at h
  · cases h
  · split at h
    · cases h
    · split at h
      · cases h
      · rename_i hbc
        injection h with h
        exact ⟨h.symm, a3, a4, by simpa using hbc⟩

/-- the constructor keeps the store good, whatever Region objects it is given; the new mesh object
holds a NEW region object (with the value of the given one) and new subregion objects -/
theorem mkMeshS_good (s s' : Store) (hg : Good s) (rid : Nat) (n : List Nat) (bc : String) (subs : List (String × Nat))
    (h : mkMeshS s rid n bc subs = .ok s') :
    Good s' ∧ s.regs.length ≤ s'.regs.length ∧ (∀ j, j < s.regs.length → s'.reg j = s.reg j) ∧
    ∃ mo', s'.meshes = s.meshes ++ [mo'] ∧ mo'.region = s.regs.length ∧ rid < s.regs.length ∧
      s'.reg s.regs.length = s.reg rid ∧ ∀ p ∈ mo'.subs, s.regs.length < p.2 := by
  unfold mkMeshS at h
  split at h
  · cases h
  · rename_i hrid
    split at h
    · cases h
    · rename_i hidsb
      have hids := (idsOk_iff s subs).mp (by simpa using hidsb)
      split at h
      · cases h
      · rename_i m0 hm0
        obtain ⟨em, hnl, hnp, hbc⟩ := mkN?_ok _ _ _ _ hm0
        split at h
        · cases h
        · rename_i s1 ids hat
          injection h with h
          subst h
          have hrid' : rid < s.regs.length := by omega
          have hreg : m0.region = s.reg rid := by rw [em]
          have hri : (s.reg rid).Inv := hg.1 rid hrid'
          -- the store after the region object of the mesh has been created
          have h0len : (s.allocs [s.reg rid]).regs.length = s.regs.length + 1 := by rw [allocs_length]; rfl
          have h0old : ∀ j, j < s.regs.length → (s.allocs [s.reg rid]).reg j = s.reg j := fun j hj => reg_allocs_lt _ _ _ hj
          have h0new : (s.allocs [s.reg rid]).reg s.regs.length = s.reg rid := by
            have := reg_allocs_ge s [s.reg rid] 0
            simpa using this
          have h0inv : ∀ i, i < (s.allocs [s.reg rid]).regs.length → ((s.allocs [s.reg rid]).reg i).Inv := by
            intro i hi
            by_cases hlt : i < s.regs.length
            · rw [h0old i hlt]; exact hg.1 i hlt
            · have : i = s.regs.length := by omega
              rw [this, h0new]; exact hri
          obtain ⟨f1, f2, f3, f4, f5, f6⟩ := attach_facts (s.allocs [s.reg rid]) s1 m0 subs ids hat h0inv (by rw [hreg]; exact hri)
            (fun p hp => by have := hids p hp; omega)
          rw [h0len] at f2 f3 f4 f6
          have g3 : ∀ j, j < s.regs.length → s1.reg j = s.reg j := fun j hj => by rw [f3 j (by omega), h0old j hj]
          have g3' : s1.reg s.regs.length = s.reg rid := by rw [f3 _ (by omega), h0new]
          refine ⟨?_, by show s.regs.length ≤ s1.regs.length; omega, g3,
            { region := s.regs.length, n := n, bc := bc.toLower, subs := ids }, by show s1.meshes ++ _ = _; rw [f1]; rfl, rfl, hrid',
            g3', fun p hp => by have := (f6 p hp).1; omega⟩
          apply good_append s { s1 with meshes := s1.meshes ++ [{ region := s.regs.length, n := n, bc := bc.toLower, subs := ids }] } hg
            { region := s.regs.length, n := n, bc := bc.toLower, subs := ids } (by show s1.meshes ++ _ = _; rw [f1]; rfl)
            ⟨f5, fun p hp => by have := (f6 p hp).1; omega⟩ ?_ (by show s.regs.length ≤ s1.regs.length; omega)
            (fun j hj => by show Similar _ (s1.reg j); rw [g3 j hj]; exact similar_refl _ (hg.1 j hj))
            (fun j h1 h2 => by
              show (s1.reg j).Inv
              by_cases hj : j = s.regs.length
              · rw [hj, g3']; exact hri
              · exact (f4 j (by omega) h2).1)
          have hsr : ∀ j, ({ s1 with meshes := s1.meshes ++ [{ region := s.regs.length, n := n, bc := bc.toLower, subs := ids }] } : Store).reg j = s1.reg j :=
            fun _ => rfl
          refine ⟨by show s.regs.length < s1.regs.length; omega,
            fun p hp => ⟨by show s.regs.length < p.2; have := (f6 p hp).1; omega, (f6 p hp).2⟩, ?_, hnp, ?_, ?_⟩
          · rw [hsr, g3']; exact hnl
          · show BcInv _
            unfold BcInv
            simp only [absMesh, hsr, g3']
            exact ⟨toLower_idem bc, hbc⟩
          · intro p hp
            rw [hsr, hsr, g3', (f4 p.2 (f6 p hp).1 (f6 p hp).2).2.2, hreg]

theorem empty_good : Good Store.empty :=
  ⟨fun i hi => absurd hi (by simp [Store.empty]), List.nodup_nil, fun mo hmo => by simp [Store.empty] at hmo⟩

theorem rotN_length' (n : List Nat) (i1 i2 : Nat) (k : Int) : (rotN n i1 i2 k).length = n.length := by
  unfold rotN; split <;> simp [swapAt_length]

/-- the in-place mesh step keeps the store good on EVERY path — also when an exception leaves Region
objects already moved -/
theorem meshInplace_good (s : Store) (hg : Good s) (mid : Nat) (op : Op) : Good (meshInplace s mid op).1 := by
  unfold meshInplace
  cases hmo : s.meshes[mid]? with
  | none => exact hg
  | some mo =>
    simp only
    have hmem : mo ∈ s.meshes := List.mem_of_getElem? hmo
    obtain ⟨v1, v2, v3, v4, v5, v6⟩ := hg.2.2 mo hmem
    cases hu : updReg s mo.region op with
    | error e => exact hg
    | ok s1 =>
      simp only
      obtain ⟨a1, a2, a3⟩ := updReg_similar s s1 mo.region op hu hg.1
      cases hs : updSubs s1 mo.subs (subOpInplace (s.reg mo.region) (s1.reg mo.region) op) with
      | mk s2 b =>
        obtain ⟨b1, b2, b3⟩ := updSubs_similar s1 s2 _ _ b hs (fun j hj => (a3 j (a2 ▸ hj)).1)
        have hm2 : s2.meshes = s.meshes := b1.trans a1
        have hl2 : s2.regs.length = s.regs.length := b2.trans a2
        have hsim : ∀ j, j < s.regs.length → Similar (s.reg j) (s2.reg j) :=
          fun j hj => similar_trans _ _ _ (a3 j hj) (b3 j (a2 ▸ hj))
        have hg2 : Good s2 := good_same_meshes s s2 hg hm2 (by omega) hsim (fun j h1 h2 => by omega)
        cases b with
        | false => exact hg2
        | true =>
          simp only
          cases op with
          | translate v i => exact hg2
          | scale f ref i => exact hg2
          | rotate90 a1' a2' k ref i =>
            simp only [finishInplace]
            cases hd1 : (s2.reg mo.region).dim2index a1' with
            | error e => exact hg2
            | ok i1 =>
              cases hd2 : (s2.reg mo.region).dim2index a2' with
              | error e => exact hg2
              | ok i2 =>
                simp only
                have hr2 := hsim mo.region v1
                have hdl : (s2.reg mo.region).dims.length = (s2.reg mo.region).ndim := hr2.1.2.2.1
                have l1 : i1 < mo.n.length := by
                  rw [v3, ← hr2.2.1, ← hdl]; exact dim2index_lt _ _ _ hd1
                have l2 : i2 < mo.n.length := by
                  rw [v3, ← hr2.2.1, ← hdl]; exact dim2index_lt _ _ _ hd2
                have hpos : ∀ q ∈ rotN mo.n i1 i2 k, 0 < q := by
                  unfold rotN; split
                  · exact DFV.C13.mem_swapAt_pos mo.n i1 i2 v4 l1 l2
                  · exact v4
                have hmo2 : s2.meshes[mid]? = some mo := by rw [hm2]; exact hmo
                have hval2 := meshVal_similar s s2 mo ⟨v1, v2, v3, v4, v5, v6⟩ (by omega) hsim
                obtain ⟨w1, w2, w3, w4, w5, w6⟩ := hval2
                by_cases hbc : Mesh.bcOk (s2.reg mo.region).dims (rotBc mo.bc a1' a2' k).toLower = true
                · rw [hbc]
                  simp only [Bool.not_true, Bool.false_eq_true, if_false]
                  apply good_setAt_same_ids s2
                    { s2 with meshes := setAt s2.meshes mid { mo with n := rotN mo.n i1 i2 k, bc := (rotBc mo.bc a1' a2' k).toLower } }
                    hg2 mid mo _ hmo2 rfl rfl _ (le_refl _)
                    (fun j hj => similar_refl _ (hg2.1 j hj)) (fun j h1 h2 => by have h3 : j < s2.regs.length := h2; omega)
                  exact ⟨w1, w2, by show (rotN mo.n i1 i2 k).length = _; rw [rotN_length']; exact w3, hpos,
                    ⟨toLower_idem _, hbc⟩, w6⟩
                · have hbc' : Mesh.bcOk (s2.reg mo.region).dims (rotBc mo.bc a1' a2' k).toLower = false := by simpa using hbc
                  rw [hbc']
                  simp only [Bool.not_false, if_true]
                  apply good_setAt_same_ids s2
                    { s2 with meshes := setAt s2.meshes mid { mo with n := rotN mo.n i1 i2 k } }
                    hg2 mid mo _ hmo2 rfl rfl _ (le_refl _)
                    (fun j hj => similar_refl _ (hg2.1 j hj)) (fun j h1 h2 => by have h3 : j < s2.regs.length := h2; omega)
                  exact ⟨w1, w2, by show (rotN mo.n i1 i2 k).length = _; rw [rotN_length']; exact w3, hpos, w5, w6⟩

theorem mapSubs_all_inv (l l' : List (String × Region)) (f : Region → M (Region × Region)) (h : mapSubs l f = .ok l')
    (hl : ∀ p ∈ l, p.2.Inv) (hf : ∀ c x y, c.Inv → f c = .ok (x, y) → y.Inv) : ∀ q ∈ l', q.2.Inv := by
  induction l generalizing l' with
  | nil =>
    have : l' = [] := by
      have h' : mapSubs [] f = .ok [] := rfl
      rw [h] at h'; injection h' with h'
    subst this; intro q hq; cases hq
  | cons p ps ih =>
    rw [mapSubs_cons] at h
    cases hp : f p.2 with
    | error e => rw [hp] at h; cases h
    | ok xy =>
      obtain ⟨x, y⟩ := xy
      rw [hp] at h
      simp only at h
      cases hps : mapSubs ps f with
      | error e => rw [hps] at h; cases h
      | ok qs =>
        rw [hps] at h
        injection h with h
        subst h
        intro q hq
        rcases List.mem_cons.mp hq with e | e
        · rw [e]; exact hf _ _ _ (hl p (by simp)) hp
        · exact ih qs hps (fun r hr => hl r (List.mem_cons_of_mem _ hr)) q e

/-- the copying mesh step keeps the store good -/
theorem meshCopy_good (s : Store) (hg : Good s) (mid : Nat) (op : Op) : Good (meshCopy s mid op).1 := by
  unfold meshCopy
  cases hmo : s.meshes[mid]? with
  | none => exact hg
  | some mo =>
    simp only
    have hmem : mo ∈ s.meshes := List.mem_of_getElem? hmo
    obtain ⟨v1, v2, _⟩ := hg.2.2 mo hmem
    cases hr : stepR (s.reg mo.region) (op.withInplace false) with
    | error e => exact hg
    | ok xr =>
      obtain ⟨x, r'⟩ := xr
      cases hsub : mapSubs (valsOf s mo.subs) (fun c => stepR c (subOpCopy (s.reg mo.region) op)) with
      | error e => exact hg
      | ok subs' =>
        simp only
        have hr' : r'.Inv := (stepR_keeps _ (hg.1 _ v1) _ _ _ hr).1
        have hsubs' : ∀ q ∈ subs', q.2.Inv := by
          apply mapSubs_all_inv _ _ _ hsub
          · intro p hp
            obtain ⟨q, hq, e⟩ := List.mem_map.mp hp
            rw [← e]; exact hg.1 _ (v2 q hq).2
          · intro c a b hc hab; exact (stepR_keeps c hc _ _ _ hab).1
        have hg1 : Good (s.allocs (r' :: subs'.map (·.2))) := by
          apply good_same_meshes s (s.allocs (r' :: subs'.map (·.2))) hg rfl (by rw [allocs_length]; omega)
            (fun j hj => by rw [reg_allocs_lt _ _ _ hj]; exact similar_refl _ (hg.1 j hj))
          intro j h1 h2
          rw [allocs_length] at h2
          have : j = s.regs.length + (j - s.regs.length) := by omega
          rw [this, reg_allocs_ge]
          cases hk : j - s.regs.length with
          | zero => exact hr'
          | succ k =>
            simp only [List.getD_cons_succ]
            have hk' : k < subs'.length := by simp at h2; omega
            rw [getD_map_of_lt _ _ _ _ hk']
            exact hsubs' _ (List.getElem_mem _)
        cases hmk : mkMeshS (s.allocs (r' :: subs'.map (·.2))) s.regs.length (opNS (s.reg mo.region) mo.n op) (opBcS mo.bc op)
            (freshIds (s.regs.length + 1) subs') with
        | error e => exact hg
        | ok s' => exact (mkMeshS_good _ s' hg1 _ _ _ _ hmk).1

/-- **every statement keeps the store good** — on every path, rejected statements and statements that
raise half-way included -/
theorem exec_good (s : Store) (hg : Good s) (st : Stmt) : Good (exec s st).1 := by
  cases st with
  | newRegion r =>
    simp only [exec]
    by_cases hr : r.invB = true
    · rw [if_pos hr]
      apply good_same_meshes s (s.allocs [r]) hg rfl (by rw [allocs_length]; omega)
        (fun j hj => by rw [reg_allocs_lt _ _ _ hj]; exact similar_refl _ (hg.1 j hj))
      intro j h1 h2
      rw [allocs_length] at h2
      have : j = s.regs.length + 0 := by simp at h2; omega
      rw [this, reg_allocs_ge]
      exact region_inv_of_invB' r hr
    · rw [if_neg hr]; exact hg
  | newMesh rid n bc subs =>
    simp only [exec]
    cases hmk : mkMeshS s rid n bc subs with
    | error e => exact hg
    | ok s' => exact (mkMeshS_good s s' hg _ _ _ _ hmk).1
  | setSubs mid subs =>
    simp only [exec]
    cases hmo : s.meshes[mid]? with
    | none => exact hg
    | some mo =>
      simp only
      have hmem : mo ∈ s.meshes := List.mem_of_getElem? hmo
      obtain ⟨v1, v2, v3, v4, v5, v6⟩ := hg.2.2 mo hmem
      by_cases hidsb : idsOk s subs = true
      · rw [hidsb]
        simp only [Bool.not_true, Bool.false_eq_true, if_false]
        have hids := (idsOk_iff s subs).mp hidsb
        cases hat : attach s (absMesh s mo) subs with
        | error e => exact hg
        | ok r =>
          obtain ⟨s1, ids⟩ := r
          simp only
          obtain ⟨f1, f2, f3, f4, f5, f6⟩ := attach_facts s s1 (absMesh s mo) subs ids hat hg.1 (hg.1 _ v1) hids
          have hsr : ∀ j, ({ s1 with meshes := setAt s1.meshes mid { mo with subs := ids } } : Store).reg j = s1.reg j := fun _ => rfl
          apply good_setAt_fresh s { s1 with meshes := setAt s1.meshes mid { mo with subs := ids } } hg mid mo { mo with subs := ids } hmo
            (by show setAt s1.meshes mid _ = _; rw [f1]) ⟨f5, fun p hp => (f6 p hp).1⟩ ?_
            (by show s.regs.length ≤ s1.regs.length; omega)
            (fun j hj => by rw [hsr, f3 j hj]; exact similar_refl _ (hg.1 j hj))
            (fun j h1 h2 => by rw [hsr]; exact (f4 j h1 h2).1)
          refine ⟨by show mo.region < s1.regs.length; omega,
            fun p hp => ⟨by show mo.region < p.2; have := (f6 p hp).1; omega, (f6 p hp).2⟩, ?_, v4, ?_, ?_⟩
          · rw [hsr, f3 _ v1]; exact v3
          · refine bcInv_congr (absMesh s mo)
              (absMesh { s1 with meshes := setAt s1.meshes mid { mo with subs := ids } } { mo with subs := ids }) rfl ?_ v5
            show (s1.reg mo.region).dims = _
            rw [f3 _ v1]; rfl
          · intro p hp
            rw [hsr, hsr, f3 _ v1, (f4 p.2 (f6 p hp).1 (f6 p hp).2).2.2]; rfl
      · have : idsOk s subs = false := by simpa using hidsb
        rw [this]; exact hg
  | meshOp mid op =>
    simp only [exec]
    split
    · exact meshInplace_good s hg mid op
    · exact meshCopy_good s hg mid op
  | regionOp rid op =>
    simp only [exec]
    by_cases hrid : s.regs.length ≤ rid
    · rw [if_pos hrid]; exact hg
    · rw [if_neg hrid]
      split
      · cases hu : updReg s rid op with
        | error e => exact hg
        | ok s' =>
          obtain ⟨a1, a2, a3⟩ := updReg_similar s s' rid op hu hg.1
          exact good_same_meshes s s' hg a1 (by omega) a3 (fun j h1 h2 => by omega)
      · cases hst : stepR (s.reg rid) (op.withInplace false) with
        | error e => exact hg
        | ok xr =>
          obtain ⟨x, ret⟩ := xr
          simp only
          apply good_same_meshes s (s.allocs [ret]) hg rfl (by rw [allocs_length]; omega)
            (fun j hj => by rw [reg_allocs_lt _ _ _ hj]; exact similar_refl _ (hg.1 j hj))
          intro j h1 h2
          rw [allocs_length] at h2
          have : j = s.regs.length + 0 := by simp at h2; omega
          rw [this, reg_allocs_ge]
          exact (stepR_keeps _ (hg.1 rid (by omega)) _ _ _ hst).1

/-- **the invariant holds after ANY session** (induction over the list of statements) -/
theorem run_good (s : Store) (hg : Good s) (sts : List Stmt) : Good (run s sts) := by
  induction sts generalizing s with
  | nil => exact hg
  | cons st sts ih => exact ih _ (exec_good s hg st)

end DFV.S
