import DFV.Lemmas.C01FlLin
/-! C01 helper lemmas, round 2: `np.prod` in rounded arithmetic (`prodFl`: sequential
`acc = fl(acc·x)`) of perturbed positive factors, for lists of any length. -/
namespace DFV.C01
open DFV DFV.Mesh

/-- factor-wise closeness of two lists: `0 < x` and `(1 − ρ)x ≤ y ≤ (1 + ρ)x` -/
def Near (ρ : Rat) (ys xs : List Rat) : Prop :=
  List.Forall₂ (fun y x => 0 < x ∧ (1 - ρ) * x ≤ y ∧ y ≤ (1 + ρ) * x) ys xs

theorem foldl_fl_bounds (R : Rounding) (ρ : Rat) (hρ0 : 0 ≤ ρ) (hρ1 : ρ ≤ 1) (ys xs : List Rat) (h : Near ρ ys xs)
    (acc A FL FU : Rat) (hA : 0 ≤ A) (hFL : 0 ≤ FL) (hlo : FL * A ≤ acc) (hhi : acc ≤ FU * A) :
    FL * ((1 - ρ) * (1 - R.u)) ^ xs.length * (A * ratProd xs) ≤ ys.foldl (fun acc y => R.fl (acc * y)) acc ∧
    ys.foldl (fun acc y => R.fl (acc * y)) acc ≤ FU * ((1 + ρ) * (1 + R.u)) ^ xs.length * (A * ratProd xs) := by
  have hu := R.u_nonneg
  have hu1 : R.u ≤ 1 := le_trans R.u_small (by norm_num)
  induction h generalizing acc A FL FU with
  | nil => simp [ratProd]; exact ⟨hlo, hhi⟩
  | @cons y x ys xs hyx _ ih =>
    obtain ⟨hx, hy1, hy2⟩ := hyx
    simp only [List.foldl_cons, List.length_cons, ratProd]
    have hacc0 : 0 ≤ acc := le_trans (mul_nonneg hFL hA) hlo
    have hy0 : 0 ≤ y := le_trans (mul_nonneg (by linarith) hx.le) hy1
    have hFU : 0 ≤ FU * A := le_trans hacc0 hhi
    obtain ⟨b1, b2⟩ := fl_bounds_nonneg R (acc * y) (mul_nonneg hacc0 hy0)
    have l1 : FL * A * ((1 - ρ) * x) ≤ acc * y :=
      mul_le_mul hlo hy1 (mul_nonneg (by linarith) hx.le) hacc0
    have u1 : acc * y ≤ FU * A * ((1 + ρ) * x) := mul_le_mul hhi hy2 hy0 hFU
    have := ih (R.fl (acc * y)) (A * x) (FL * ((1 - ρ) * (1 - R.u))) (FU * ((1 + ρ) * (1 + R.u)))
      (mul_nonneg hA hx.le) (mul_nonneg hFL (mul_nonneg (by linarith) (by linarith)))
      (by
        have : (1 - R.u) * (FL * A * ((1 - ρ) * x)) ≤ (1 - R.u) * (acc * y) := mul_le_mul_of_nonneg_left l1 (by linarith)
        have e : FL * ((1 - ρ) * (1 - R.u)) * (A * x) = (1 - R.u) * (FL * A * ((1 - ρ) * x)) := by ring
        rw [e]; linarith)
      (by
        have : (1 + R.u) * (acc * y) ≤ (1 + R.u) * (FU * A * ((1 + ρ) * x)) := mul_le_mul_of_nonneg_left u1 (by linarith)
        have e : FU * ((1 + ρ) * (1 + R.u)) * (A * x) = (1 + R.u) * (FU * A * ((1 + ρ) * x)) := by ring
        rw [e]; linarith)
    obtain ⟨r1, r2⟩ := this
    constructor
    · have e : FL * ((1 - ρ) * (1 - R.u)) ^ (xs.length + 1) * (A * (x * ratProd xs))
          = FL * ((1 - ρ) * (1 - R.u)) * ((1 - ρ) * (1 - R.u)) ^ xs.length * (A * x * ratProd xs) := by
        rw [pow_succ]; ring
      rw [e]; exact r1
    · have e : FU * ((1 + ρ) * (1 + R.u)) ^ (xs.length + 1) * (A * (x * ratProd xs))
          = FU * ((1 + ρ) * (1 + R.u)) * ((1 + ρ) * (1 + R.u)) ^ xs.length * (A * x * ratProd xs) := by
        rw [pow_succ]; ring
      rw [e]; exact r2

/-- **`np.prod` of `d ≥ 1` positive factors, each within `ρ`, computed with `d − 1` rounded
multiplications** lies within the factors `(1 ∓ ρ)·((1 ∓ ρ)(1 ∓ u))^(d−1)` of the exact product -/
theorem prodFl_bounds (R : Rounding) (ρ : Rat) (hρ0 : 0 ≤ ρ) (hρ1 : ρ ≤ 1) (ys xs : List Rat)
    (h : Near ρ ys xs) (hne : xs ≠ []) :
    (1 - ρ) * ((1 - ρ) * (1 - R.u)) ^ (xs.length - 1) * ratProd xs ≤ prodFl R.fl ys ∧
    prodFl R.fl ys ≤ (1 + ρ) * ((1 + ρ) * (1 + R.u)) ^ (xs.length - 1) * ratProd xs := by
  cases h with
  | nil => exact absurd rfl hne
  | @cons y x ys xs hyx hrest =>
    obtain ⟨hx, hy1, hy2⟩ := hyx
    have := foldl_fl_bounds R ρ hρ0 hρ1 ys xs hrest y x (1 - ρ) (1 + ρ) hx.le (by linarith) hy1 hy2
    simp only [prodFl, List.length_cons, Nat.add_sub_cancel, ratProd]
    exact this

theorem near_tab (ρ : Rat) (n : Nat) (f' f : Nat → Rat)
    (h : ∀ a, a < n → 0 < f a ∧ (1 - ρ) * f a ≤ f' a ∧ f' a ≤ (1 + ρ) * f a) : Near ρ (tab n f') (tab n f) := by
  unfold Near tab
  rw [List.forall₂_map_left_iff, List.forall₂_map_right_iff]
  apply List.forall₂_same.mpr
  intro a ha
  exact h a (List.mem_range.mp ha)

end DFV.C01
