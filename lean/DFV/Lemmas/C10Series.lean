import DFV.Lemmas.C10
/-! C10: the code-shaped writer (`toHdf5`: empty dataset, then assignment) against the store
`h5Save`, and the time-series helpers: `writeLoc` / `readLoc` on the flat buffer obey the
read-over-write laws; by induction over a history of slot writes every slot holds what was
written to it last; on whole fields: `_h5_load_field(…, k)` returns the structure of the file
with the data of slot `k`. -/
namespace DFV.C10
open DFV

/-! ## lists: replacing a window, reading a window -/

theorem getElem?_splice {α : Type} (v w : List α) (start : Nat) (h : start + w.length ≤ v.length) (j : Nat) :
    (v.take start ++ w ++ v.drop (start + w.length))[j]? =
      if j < start then v[j]? else if j < start + w.length then w[j - start]? else v[j]? := by
  have hl : (v.take start).length = start := by rw [List.length_take]; omega
  by_cases h1 : j < start
  · rw [if_pos h1, List.append_assoc, List.getElem?_append_left (by rw [hl]; exact h1), List.getElem?_take, if_pos h1]
  · rw [if_neg h1, List.append_assoc, List.getElem?_append_right (by rw [hl]; omega), hl]
    by_cases h2 : j < start + w.length
    · rw [if_pos h2, List.getElem?_append_left (by omega)]
    · rw [if_neg h2, List.getElem?_append_right (by omega), List.getElem?_drop]
      congr 1
      omega

theorem length_splice {α : Type} (v w : List α) (start : Nat) (h : start + w.length ≤ v.length) :
    (v.take start ++ w ++ v.drop (start + w.length)).length = v.length := by
  simp only [List.length_append, List.length_take, List.length_drop]
  omega

theorem window_splice_same {α : Type} (v w : List α) (start : Nat) (h : start + w.length ≤ v.length) :
    ((v.take start ++ w ++ v.drop (start + w.length)).drop start).take w.length = w := by
  apply List.ext_getElem?
  intro i
  rw [List.getElem?_take]
  by_cases hi : i < w.length
  · rw [if_pos hi, List.getElem?_drop, getElem?_splice v w start h, if_neg (by omega), if_pos (by omega)]
    congr 1
    omega
  · rw [if_neg hi]
    symm
    rw [List.getElem?_eq_none_iff]
    omega

theorem window_splice_other {α : Type} (v w : List α) (start s len : Nat) (h : start + w.length ≤ v.length)
    (hd : s + len ≤ start ∨ start + w.length ≤ s) :
    ((v.take start ++ w ++ v.drop (start + w.length)).drop s).take len = (v.drop s).take len := by
  apply List.ext_getElem?
  intro i
  rw [List.getElem?_take, List.getElem?_take]
  by_cases hi : i < len
  · rw [if_pos hi, if_pos hi, List.getElem?_drop, List.getElem?_drop, getElem?_splice v w start h]
    rcases hd with hd | hd
    · rw [if_pos (by omega)]
    · rw [if_neg (by omega), if_neg (by omega)]
  · rw [if_neg hi, if_neg hi]

/-! ## typed buffers -/

namespace DBuf

theorem castTo_kind (k : DK) (b c : DBuf) (h : b.castTo k = .ok c) : c.kind = k := by
  cases k <;> cases b <;> simp [castTo] at h <;> subst h <;> rfl

theorem castTo_length (k : DK) (b c : DBuf) (h : b.castTo k = .ok c) : c.length = b.length := by
  cases k <;> cases b <;> simp [castTo] at h <;> subst h <;> simp [length]

/-- writing into a dataset of the array's own dtype converts nothing -/
theorem castTo_self (b : DBuf) : b.castTo b.kind = .ok b := by
  cases b <;> rfl

theorem castTo_of_kind (k : DK) (b : DBuf) (h : b.kind = k) : b.castTo k = .ok b := by
  subst h; exact castTo_self b

/-- real and complex never convert into one another -/
theorem castTo_ok_iff (k : DK) (b : DBuf) :
    (∃ c, b.castTo k = .ok c) ↔ (k = .complex ↔ b.kind = .complex) := by
  cases k <;> cases b <;> simp [castTo, kind]

theorem zeros_kind (k : DK) (n : Nat) : (zeros k n).kind = k := by cases k <;> rfl

theorem zeros_length (k : DK) (n : Nat) : (zeros k n).length = n := by
  cases k <;> simp [zeros, length]

theorem splice_kind (d b : DBuf) (s : Nat) : (d.splice s b).kind = d.kind := by
  cases d <;> cases b <;> rfl

theorem splice_length (d b : DBuf) (s : Nat) (hk : b.kind = d.kind) (h : s + b.length ≤ d.length) :
    (d.splice s b).length = d.length := by
  cases d <;> cases b <;> simp only [kind, reduceCtorEq] at hk <;>
    simp only [splice, length] at h ⊢ <;> exact length_splice _ _ _ h

theorem slice_length (d : DBuf) (s len : Nat) (h : s + len ≤ d.length) : (d.slice s len).length = len := by
  cases d <;> simp only [slice, length, List.length_take, List.length_drop] at h ⊢ <;> omega

theorem slice_kind (d : DBuf) (s len : Nat) : (d.slice s len).kind = d.kind := by
  cases d <;> rfl

/-- **read over write, same window** -/
theorem slice_splice_same (d b : DBuf) (s : Nat) (hk : b.kind = d.kind) (h : s + b.length ≤ d.length) :
    (d.splice s b).slice s b.length = b := by
  cases d <;> cases b <;> simp only [kind, reduceCtorEq] at hk <;>
    simp only [splice, slice, length] at h ⊢ <;> rw [window_splice_same _ _ _ h]

/-- **read over write, disjoint window** -/
theorem slice_splice_other (d b : DBuf) (s s' len : Nat) (hk : b.kind = d.kind) (h : s + b.length ≤ d.length)
    (hd : s' + len ≤ s ∨ s + b.length ≤ s') :
    (d.splice s b).slice s' len = d.slice s' len := by
  cases d <;> cases b <;> simp only [kind, reduceCtorEq] at hk <;>
    simp only [splice, slice, length] at h ⊢ <;> rw [window_splice_other _ _ _ _ _ h hd]

theorem slice_zeros (k : DK) (n s len : Nat) (h : s + len ≤ n) : (zeros k n).slice s len = zeros k len := by
  cases k <;> simp only [zeros, slice, List.drop_replicate, List.take_replicate] <;> congr 2 <;> omega

theorem slice_all (d : DBuf) : d.slice 0 d.length = d := by
  cases d <;> simp [slice, length]

end DBuf

/-! ## the code-shaped writer -/

/-- **`_to_hdf5` (empty dataset of the field's dtype, then `dataset[:] = array`) leaves exactly
the store `h5Save f`**: the array dataset is the array, value for value, dtype included. -/
theorem toHdf5_eq (f : TFld) (hs : f.data.shape = f.mesh.n ++ [f.nvdim]) : toHdf5 f = .ok (h5Save f) := by
  unfold toHdf5 saveData saveStructure writeLoc
  simp only [hs, ne_eq, not_true_eq_false, if_false, DBuf.zeros_kind, DBuf.castTo_self, bind_ok, h5Save, fieldSave]
  congr 3
  rw [← hs]

/-! ## slots -/

/-- the slot an index addresses (`-1` is the last one) -/
def slotOf (T : Nat) (t : Int) : Nat := (t % (T : Int)).toNat

theorem slotOf_lt (T : Nat) (t : Int) (hT : 0 < T) : slotOf T t < T := by
  unfold slotOf
  have h1 : 0 ≤ t % (T : Int) := Int.emod_nonneg _ (by omega)
  have h2 : t % (T : Int) < T := Int.emod_lt_of_pos _ (by omega)
  omega

theorem slotOf_nat (T k : Nat) (hk : k < T) : slotOf T (k : Int) = k := by
  unfold slotOf
  rw [Int.emod_eq_of_lt (by omega) (by omega)]
  simp

/-- a negative index counts from the end -/
theorem slotOf_neg (T k : Nat) (hk : k < T) : slotOf T ((k : Int) - T) = k := by
  unfold slotOf
  have : ((k : Int) - T) % (T : Int) = k := by
    rw [Int.sub_emod, Int.emod_self, Int.sub_zero, Int.emod_emod_of_dvd _ (dvd_refl _), Int.emod_eq_of_lt (by omega) (by omega)]
  rw [this]
  simp

/-- well-formed dataset: the buffer has as many entries as the shape says -/
def DArr.wf (a : DArr) : Prop := a.buf.length = natProd a.shape

theorem slot_bound (T k S : Nat) (hk : k < T) : k * S + S ≤ T * S := by
  have : (k + 1) * S ≤ T * S := Nat.mul_le_mul_right S (by omega)
  rw [Nat.add_mul, Nat.one_mul] at this
  exact this

theorem slots_disjoint (k k' S : Nat) (hne : k ≠ k') : k' * S + S ≤ k * S ∨ k * S + S ≤ k' * S := by
  rcases Nat.lt_or_gt_of_ne hne with h | h
  · right
    have : (k + 1) * S ≤ k' * S := Nat.mul_le_mul_right S (by omega)
    rw [Nat.add_mul, Nat.one_mul] at this
    exact this
  · left
    have : (k' + 1) * S ≤ k * S := Nat.mul_le_mul_right S (by omega)
    rw [Nat.add_mul, Nat.one_mul] at this
    exact this

/-- what a successful slot write is -/
theorem writeLoc_idx_ok (ds ds' a : DArr) (T : Nat) (rest : List Nat) (t : Int) (hsh : ds.shape = T :: rest)
    (h : writeLoc ds (.idx t) a = .ok ds') :
    (-(T : Int) ≤ t ∧ t < T) ∧ a.shape = rest ∧
      ∃ b, a.buf.castTo ds.buf.kind = .ok b ∧
        ds' = { shape := T :: rest, buf := ds.buf.splice (slotOf T t * natProd rest) b } := by
  unfold writeLoc at h
  simp only [hsh] at h
  split at h
  · cases h
  · rename_i hr
    split at h
    · cases h
    · rename_i hs
      cases hc : a.buf.castTo ds.buf.kind with
      | error e => rw [hc] at h; cases h
      | ok b =>
        rw [hc] at h
        simp only [bind_ok] at h
        cases h
        refine ⟨by omega, by simpa using hs, b, rfl, rfl⟩

/-- **acceptance**: an index in range, the slot's shape and a dtype with a conversion path are
all a slot write needs -/
theorem writeLoc_idx_accepts (ds a : DArr) (T : Nat) (rest : List Nat) (t : Int) (hsh : ds.shape = T :: rest)
    (ht : -(T : Int) ≤ t ∧ t < T) (hs : a.shape = rest) (hk : ds.buf.kind = .complex ↔ a.buf.kind = .complex) :
    ∃ ds', writeLoc ds (.idx t) a = .ok ds' := by
  obtain ⟨b, hb⟩ := (DBuf.castTo_ok_iff ds.buf.kind a.buf).mpr hk
  unfold writeLoc
  simp only [hsh]
  rw [if_neg (by omega), if_neg (by simp [hs]), hb]
  exact ⟨_, rfl⟩

theorem readLoc_idx (ds : DArr) (T : Nat) (rest : List Nat) (k : Nat) (hsh : ds.shape = T :: rest) (hk : k < T) :
    readLoc ds (.idx (k : Int)) = .ok { shape := rest, buf := ds.buf.slice (k * natProd rest) (natProd rest) } := by
  unfold readLoc
  simp only [hsh]
  rw [if_neg (by omega)]
  have := slotOf_nat T k hk
  unfold slotOf at this
  rw [this]

/-- reading with a negative index reads the slot counted from the end -/
theorem readLoc_idx_neg (ds : DArr) (T : Nat) (rest : List Nat) (k : Nat) (hsh : ds.shape = T :: rest) (hk : k < T) :
    readLoc ds (.idx ((k : Int) - T)) = readLoc ds (.idx (k : Int)) := by
  rw [readLoc_idx ds T rest k hsh hk]
  unfold readLoc
  simp only [hsh]
  rw [if_neg (by omega)]
  have := slotOf_neg T k hk
  unfold slotOf at this
  rw [this]

/-- reading outside `[-T, T)` is an error -/
theorem readLoc_out_of_range (ds : DArr) (T : Nat) (rest : List Nat) (t : Int) (hsh : ds.shape = T :: rest)
    (ht : t < -(T : Int) ∨ (T : Int) ≤ t) : readLoc ds (.idx t) = .error .index := by
  unfold readLoc
  simp only [hsh]
  rw [if_pos ht]

/-- one write: shape, dtype and well-formedness are kept; the slot written holds the converted
array, every other slot is untouched -/
theorem writeLoc_step (ds ds' a : DArr) (T : Nat) (rest : List Nat) (t : Int) (hsh : ds.shape = T :: rest)
    (hwf : ds.wf) (hawf : a.wf) (h : writeLoc ds (.idx t) a = .ok ds') :
    ds'.shape = T :: rest ∧ ds'.buf.kind = ds.buf.kind ∧ ds'.wf ∧
    ∃ b, a.buf.castTo ds.buf.kind = .ok b ∧ b.length = natProd rest ∧
      ∀ k, k < T → ds'.buf.slice (k * natProd rest) (natProd rest) =
        if slotOf T t = k then b else ds.buf.slice (k * natProd rest) (natProd rest) := by
  obtain ⟨ht, hs, b, hb, rfl⟩ := writeLoc_idx_ok ds ds' a T rest t hsh h
  have hT : 0 < T := by omega
  have hbk := DBuf.castTo_kind _ _ _ hb
  have hbl : b.length = natProd rest := by
    rw [DBuf.castTo_length _ _ _ hb, hawf, hs]
  have hdl : ds.buf.length = T * natProd rest := by
    rw [hwf, hsh]; rfl
  have hfit : slotOf T t * natProd rest + b.length ≤ ds.buf.length := by
    rw [hbl, hdl]; exact slot_bound T _ _ (slotOf_lt T t hT)
  refine ⟨rfl, DBuf.splice_kind _ _ _, ?_, b, hb, hbl, ?_⟩
  · show (ds.buf.splice _ b).length = natProd (T :: rest)
    rw [DBuf.splice_length _ _ _ hbk hfit, hdl]; rfl
  · intro k hk
    show (ds.buf.splice _ b).slice _ _ = _
    split
    · rename_i he
      subst he
      have := DBuf.slice_splice_same _ _ _ hbk hfit
      rw [hbl] at this
      exact this
    · rename_i hne
      apply DBuf.slice_splice_other _ _ _ _ _ hbk hfit
      rw [hbl]
      exact slots_disjoint _ _ _ hne

/-! ## histories of slot writes -/

/-- a history of slot writes (every one must succeed) -/
def writeAll (ds : DArr) : List (Int × DArr) → M DArr
  | [] => .ok ds
  | w :: ws => (writeLoc ds (.idx w.1) w.2).bind fun ds' => writeAll ds' ws

/-- the conversion of `a` into dtype `k` where there is one -/
def castOr (k : DK) (a : DBuf) (dflt : DBuf) : DBuf :=
  match a.castTo k with
  | .ok b => b
  | .error _ => dflt

/-- what slot `k` holds after a history: the (converted) array of the last write that addressed
it, else what it held before -/
def slotAfter (T : Nat) (kind : DK) (k : Nat) (init : DBuf) (ws : List (Int × DArr)) : DBuf :=
  ws.foldl (fun cur w => if slotOf T w.1 = k then castOr kind w.2.buf cur else cur) init

theorem slotAfter_nil (T : Nat) (kind : DK) (k : Nat) (init : DBuf) : slotAfter T kind k init [] = init := rfl

/-- a later write to the slot replaces its content, a write elsewhere does not touch it -/
theorem slotAfter_append (T : Nat) (kind : DK) (k : Nat) (init : DBuf) (ws : List (Int × DArr)) (w : Int × DArr) :
    slotAfter T kind k init (ws ++ [w]) =
      if slotOf T w.1 = k then castOr kind w.2.buf (slotAfter T kind k init ws) else slotAfter T kind k init ws := by
  simp [slotAfter, List.foldl_append]

/-- a slot no write addressed holds what it held -/
theorem slotAfter_untouched (T : Nat) (kind : DK) (k : Nat) (init : DBuf) (ws : List (Int × DArr))
    (h : ∀ w ∈ ws, slotOf T w.1 ≠ k) : slotAfter T kind k init ws = init := by
  induction ws generalizing init with
  | nil => rfl
  | cons w ws ih =>
    simp only [slotAfter, List.foldl_cons]
    rw [if_neg (h w (by simp))]
    exact ih init fun w' hw' => h w' (by simp [hw'])

/-- **History of slot writes.**  After any sequence of successful slot writes — in any order,
with rewrites, with negative indices — the dataset keeps shape, dtype and size, and reading
slot `k` returns what `slotAfter` says: the array written there last (converted to the
dataset's dtype), or what the slot held before. -/
theorem readLoc_writeAll (ws : List (Int × DArr)) (ds ds' : DArr) (T : Nat) (rest : List Nat)
    (hsh : ds.shape = T :: rest) (hwf : ds.wf) (haw : ∀ w ∈ ws, w.2.wf) (h : writeAll ds ws = .ok ds') :
    ds'.shape = T :: rest ∧ ds'.buf.kind = ds.buf.kind ∧ ds'.wf ∧
    ∀ k, k < T → readLoc ds' (.idx (k : Int)) =
      .ok { shape := rest,
            buf := slotAfter T ds.buf.kind k (ds.buf.slice (k * natProd rest) (natProd rest)) ws } := by
  induction ws generalizing ds with
  | nil =>
    simp only [writeAll] at h
    have e : ds = ds' := by injection h
    rw [← e]
    exact ⟨hsh, rfl, hwf, fun k hk => readLoc_idx ds T rest k hsh hk⟩
  | cons w ws ih =>
    simp only [writeAll] at h
    cases h1 : writeLoc ds (.idx w.1) w.2 with
    | error e => rw [h1] at h; cases h
    | ok ds1 =>
      rw [h1] at h
      simp only [bind_ok] at h
      obtain ⟨hsh1, hk1, hwf1, b, hb, _, hsl⟩ := writeLoc_step ds ds1 w.2 T rest w.1 hsh hwf (haw w (by simp)) h1
      obtain ⟨hsh', hk', hwf', hrd⟩ := ih ds1 hsh1 hwf1 (fun w' hw' => haw w' (by simp [hw'])) h
      refine ⟨hsh', by rw [hk', hk1], hwf', ?_⟩
      intro k hk
      rw [hrd k hk, hk1, hsl k hk]
      simp only [slotAfter, List.foldl_cons, castOr, hb]

/-- **acceptance of a history**: indices in range, slot-shaped arrays and dtypes with a
conversion path — then every write succeeds -/
theorem writeAll_accepts (ws : List (Int × DArr)) (ds : DArr) (T : Nat) (rest : List Nat)
    (hsh : ds.shape = T :: rest) (hwf : ds.wf)
    (hw : ∀ w ∈ ws, (-(T : Int) ≤ w.1 ∧ w.1 < T) ∧ w.2.shape = rest ∧ w.2.wf ∧
      (ds.buf.kind = .complex ↔ w.2.buf.kind = .complex)) :
    ∃ ds', writeAll ds ws = .ok ds' := by
  induction ws generalizing ds with
  | nil => exact ⟨ds, rfl⟩
  | cons w ws ih =>
    obtain ⟨ht, hs, hawf, hk⟩ := hw w (by simp)
    obtain ⟨ds1, h1⟩ := writeLoc_idx_accepts ds w.2 T rest w.1 hsh ht hs hk
    obtain ⟨hsh1, hk1, hwf1, _⟩ := writeLoc_step ds ds1 w.2 T rest w.1 hsh hwf hawf h1
    obtain ⟨ds', h'⟩ := ih ds1 hsh1 hwf1 (fun w' hw' => by rw [hk1]; exact hw w' (by simp [hw']))
    exact ⟨ds', by simp only [writeAll, h1, bind_ok, h']⟩

/-! ## whole fields -/

/-- reading a field at a location is reading the single-field group that holds that slot -/
theorem fieldLoadAt_of_read (h : H5Field) (loc : Loc) (a : DArr) (hr : readLoc h.array loc = .ok a) :
    fieldLoadAt h loc = fieldLoad { h with array := a } := by
  unfold fieldLoad fieldLoadAt
  rw [hr]
  simp only [readLoc, bind_ok]

/-- a history of `_h5_save_data(dataset, t)` calls -/
def saveAll (h : H5Field) : List (Int × TFld) → M H5Field
  | [] => .ok h
  | w :: ws => (saveData h (.idx w.1) w.2).bind fun h' => saveAll h' ws

theorem saveAll_eq (ws : List (Int × TFld)) (h h' : H5Field) (hr : saveAll h ws = .ok h') :
    writeAll h.array (ws.map fun w => (w.1, w.2.data)) = .ok h'.array ∧ h' = { h with array := h'.array } := by
  induction ws generalizing h with
  | nil =>
    simp only [saveAll] at hr
    cases hr
    exact ⟨rfl, rfl⟩
  | cons w ws ih =>
    simp only [saveAll, saveData] at hr
    cases h1 : writeLoc h.array (.idx w.1) w.2.data with
    | error e => rw [h1] at hr; cases hr
    | ok a =>
      rw [h1] at hr
      simp only [bind_ok] at hr
      obtain ⟨e1, e2⟩ := ih _ hr
      refine ⟨?_, ?_⟩
      · simp only [List.map_cons, writeAll, h1, bind_ok]
        exact e1
      · rw [e2]

theorem saveAll_of_writeAll (ws : List (Int × TFld)) (h : H5Field) (a : DArr)
    (hr : writeAll h.array (ws.map fun w => (w.1, w.2.data)) = .ok a) : saveAll h ws = .ok { h with array := a } := by
  induction ws generalizing h with
  | nil =>
    simp only [List.map_nil, writeAll] at hr
    cases hr
    rfl
  | cons w ws ih =>
    simp only [List.map_cons, writeAll] at hr
    cases h1 : writeLoc h.array (.idx w.1) w.2.data with
    | error e => rw [h1] at hr; cases hr
    | ok a1 =>
      rw [h1] at hr
      simp only [bind_ok] at hr
      simp only [saveAll, saveData, h1, bind_ok]
      exact ih { h with array := a1 } hr

theorem data_wf_of_inv (f : TFld) (hf : f.Inv) : DArr.wf f.data := by
  obtain ⟨_, _, hds, hdl, _⟩ := (TFld.inv_iff f).mp hf
  unfold DArr.wf
  rw [hdl, hds]

theorem slotAfter_length (T : Nat) (kind : DK) (k S : Nat) (init : DBuf) (ws : List (Int × DArr))
    (hi : init.length = S) (hw : ∀ w ∈ ws, w.2.buf.length = S) : (slotAfter T kind k init ws).length = S := by
  induction ws generalizing init with
  | nil => exact hi
  | cons w ws ih =>
    simp only [slotAfter, List.foldl_cons]
    apply ih _ _ (fun w' hw' => hw w' (by simp [hw']))
    split
    · unfold castOr
      cases hc : w.2.buf.castTo kind with
      | error e => exact hi
      | ok b => simp only; rw [DBuf.castTo_length _ _ _ hc]; exact hw w (by simp)
    · exact hi

/-- **acceptance of a series history**: a `T`-slot group created for `f0` accepts every history of
writes whose indices lie in `[-T, T)` and whose fields have `f0`'s array shape and a dtype on
`f0`'s side of the real/complex divide -/
theorem saveAll_accepts (f0 : TFld) (T : Nat) (ws : List (Int × TFld))
    (hw : ∀ w ∈ ws, (-(T : Int) ≤ w.1 ∧ w.1 < T) ∧ w.2.Inv ∧ w.2.data.shape = f0.mesh.n ++ [f0.nvdim] ∧
      (f0.data.buf.kind = .complex ↔ w.2.data.buf.kind = .complex)) :
    ∃ h, saveAll (saveStructure f0 (T :: (f0.mesh.n ++ [f0.nvdim]))) ws = .ok h := by
  have hwf : DArr.wf (saveStructure f0 (T :: (f0.mesh.n ++ [f0.nvdim]))).array := by
    unfold DArr.wf saveStructure
    simp only [DBuf.zeros_length]
  obtain ⟨a, ha⟩ := writeAll_accepts (ws.map fun w => (w.1, w.2.data)) _ T (f0.mesh.n ++ [f0.nvdim]) rfl hwf (by
    intro w hw'
    obtain ⟨w', hw'', rfl⟩ := List.mem_map.mp hw'
    obtain ⟨ht, hinv, hs, hk⟩ := hw w' hw''
    refine ⟨ht, hs, data_wf_of_inv _ hinv, ?_⟩
    show (DBuf.zeros f0.data.buf.kind _).kind = .complex ↔ _
    rw [DBuf.zeros_kind]; exact hk)
  exact ⟨_, saveAll_of_writeAll ws _ a ha⟩

/-- the field with `f0`'s structure and, as data, what slot `k` of a `T`-slot dataset created for
`f0` holds after the history `ws` of slot writes (zeros if nothing was written there) -/
def slotField (f0 : TFld) (T k : Nat) (ws : List (Int × TFld)) : TFld :=
  { f0 with data := { shape := f0.mesh.n ++ [f0.nvdim],
                      buf := slotAfter T f0.data.buf.kind k
                        (DBuf.zeros f0.data.buf.kind (natProd (f0.mesh.n ++ [f0.nvdim])))
                        (ws.map fun w => (w.1, w.2.data)) } }

/-- **Time series.**  A group created by `_h5_save_structure(f0, (T, *n, nvdim))`, then any history
of `_h5_save_data(dataset, t)` calls (fields with `f0`'s array shape, any order, rewrites, negative
indices): `_h5_load_field(group, k)` returns, for every slot `k < T`, the state `loaded` of the
field that has `f0`'s structure (mesh with subregions, labels, unit, validity) and as data what was
written to slot `k` last — zeros if nothing was (`reread`: unit and labels as the single-field
reader treats them). -/
theorem series_load (f0 : TFld) (hf : f0.Inv) (T : Nat) (ws : List (Int × TFld)) (hws : ∀ w ∈ ws, w.2.Inv)
    (h : H5Field) (hrun : saveAll (saveStructure f0 (T :: (f0.mesh.n ++ [f0.nvdim]))) ws = .ok h) (k : Nat) (hk : k < T) :
    fieldLoadAt h (.idx (k : Int)) =
      .ok (reread (slotField f0 T k ws)) := by
  obtain ⟨hwr, hh⟩ := saveAll_eq ws _ h hrun
  have hsh : (saveStructure f0 (T :: (f0.mesh.n ++ [f0.nvdim]))).array.shape = T :: (f0.mesh.n ++ [f0.nvdim]) := rfl
  have hwf : DArr.wf (saveStructure f0 (T :: (f0.mesh.n ++ [f0.nvdim]))).array := by
    unfold DArr.wf saveStructure
    simp only [DBuf.zeros_length]
  have haw : ∀ w ∈ (ws.map fun w => (w.1, w.2.data)), DArr.wf w.2 := by
    intro w hw
    obtain ⟨w', hw', rfl⟩ := List.mem_map.mp hw
    exact data_wf_of_inv _ (hws w' hw')
  obtain ⟨_, _, _, hrd⟩ := readLoc_writeAll _ _ _ T _ hsh hwf haw hwr
  have hr := hrd k hk
  rw [fieldLoadAt_of_read h _ _ hr]
  have hz : (saveStructure f0 (T :: (f0.mesh.n ++ [f0.nvdim]))).array.buf.slice
      (k * natProd (f0.mesh.n ++ [f0.nvdim])) (natProd (f0.mesh.n ++ [f0.nvdim]))
      = DBuf.zeros f0.data.buf.kind (natProd (f0.mesh.n ++ [f0.nvdim])) := by
    simp only [saveStructure]
    apply DBuf.slice_zeros
    exact slot_bound T k _ hk
  have hkind : (saveStructure f0 (T :: (f0.mesh.n ++ [f0.nvdim]))).array.buf.kind = f0.data.buf.kind :=
    DBuf.zeros_kind _ _
  rw [hz, hkind]
  -- the single-field group holding that slot is the store of the field with that data
  obtain ⟨hm, hnv, hds, hdl, hvs, hvl, hvd⟩ := (TFld.inv_iff f0).mp hf
  -- the arrays successfully written all have the slot's shape, hence its size
  have hshape : ∀ w ∈ (ws.map fun w => (w.1, w.2.data)), w.2.buf.length = natProd (f0.mesh.n ++ [f0.nvdim]) := by
    have key : ∀ (l : List (Int × DArr)) (ds ds' : DArr), ds.shape = T :: (f0.mesh.n ++ [f0.nvdim]) → DArr.wf ds →
        (∀ w ∈ l, DArr.wf w.2) → writeAll ds l = .ok ds' →
        ∀ w ∈ l, w.2.buf.length = natProd (f0.mesh.n ++ [f0.nvdim]) := by
      intro l
      induction l with
      | nil => intro _ _ _ _ _ _ w hw; cases hw
      | cons w l ih =>
        intro ds ds' hs hw haw hrun w' hw'
        simp only [writeAll] at hrun
        cases h1 : writeLoc ds (.idx w.1) w.2 with
        | error e => rw [h1] at hrun; cases hrun
        | ok ds1 =>
          rw [h1] at hrun
          simp only [bind_ok] at hrun
          obtain ⟨_, hs1, _⟩ := writeLoc_idx_ok ds ds1 w.2 T _ w.1 hs h1
          obtain ⟨hsh1, _, hwf1, _⟩ := writeLoc_step ds ds1 w.2 T _ w.1 hs hw (haw w (by simp)) h1
          rcases List.mem_cons.mp hw' with rfl | hw''
          · rw [haw w' (by simp), hs1]
          · exact ih ds1 ds' hsh1 hwf1 (fun x hx => haw x (by simp [hx])) hrun w' hw''
    exact key _ _ _ hsh hwf haw hwr
  have hlen := slotAfter_length T f0.data.buf.kind k (natProd (f0.mesh.n ++ [f0.nvdim]))
    (DBuf.zeros f0.data.buf.kind (natProd (f0.mesh.n ++ [f0.nvdim]))) (ws.map fun w => (w.1, w.2.data))
    (DBuf.zeros_length _ _) hshape
  have hinv : (slotField f0 T k ws).Inv := by
    rw [TFld.inv_iff]
    exact ⟨hm, hnv, rfl, hlen, hvs, hvl, hvd⟩
  have := fieldLoad_fieldSave_gen _ hinv
  rw [hh]
  exact this

end DFV.C10
