import DFV.Lemmas.C06MeanSeq
import DFV.Lemmas.C14
/-! Subregions the setter accepts only thanks to its tolerances (C06): the three checks of the
`subregions` setter (inside the region up to `atol`, a whole number of cells up to 0.1 % of the
smallest cell, aligned up to 1e-12) are inherited axis by axis by `Mesh.sel(dim)`, so axis
removal - and with it `integrate(d)`, `mean(d)`, `mean(list)` - succeeds on every mesh whose
subregions passed the setter, exactly fitting or not. -/
namespace DFV.C06
open DFV

/-! ## `listMin` -/

theorem foldl_min_le_init (xs : List Rat) (x : Rat) : xs.foldl min x ≤ x := by
  induction xs generalizing x with
  | nil => exact le_refl _
  | cons y ys ih => exact le_trans (ih (min x y)) (min_le_left _ _)

theorem foldl_min_le_mem (xs : List Rat) (x y : Rat) (h : y ∈ xs) : xs.foldl min x ≤ y := by
  induction xs generalizing x with
  | nil => simp at h
  | cons z zs ih =>
    simp only [List.foldl_cons]
    rcases List.mem_cons.mp h with rfl | h
    · exact le_trans (foldl_min_le_init zs _) (min_le_right _ _)
    · exact ih _ h

theorem listMin_le_of_mem (xs : List Rat) (y : Rat) (h : y ∈ xs) : listMin xs ≤ y := by
  cases xs with
  | nil => simp at h
  | cons x xs =>
    simp only [listMin]
    rcases List.mem_cons.mp h with rfl | h
    · exact foldl_min_le_init xs _
    · exact foldl_min_le_mem xs x y h

theorem le_foldl_min (xs : List Rat) (x b : Rat) (hx : b ≤ x) (h : ∀ y ∈ xs, b ≤ y) : b ≤ xs.foldl min x := by
  induction xs generalizing x with
  | nil => simpa
  | cons y ys ih =>
    simp only [List.foldl_cons]
    exact ih (min x y) (le_min hx (h y (by simp))) (fun z hz => h z (by simp [hz]))

theorem le_listMin (xs : List Rat) (hne : xs ≠ []) (b : Rat) (h : ∀ y ∈ xs, b ≤ y) : b ≤ listMin xs := by
  cases xs with
  | nil => exact absurd rfl hne
  | cons x xs =>
    simp only [listMin]
    exact le_foldl_min xs x b (h x (by simp)) (fun z hz => h z (by simp [hz]))

theorem mem_tab {α} (n : Nat) (f : Nat → α) (y : α) : y ∈ tab n f ↔ ∃ a, a < n ∧ f a = y := by
  unfold tab
  simp [List.mem_map, List.mem_range]

/-- the smallest entry over all axes is at most the smallest entry over the axes that remain -/
theorem listMin_tab_skip (n : Nat) (f : Nat → Rat) (ax : Nat) (hn : 2 ≤ n) :
    listMin (tab n f) ≤ listMin (tab (n - 1) fun a => f (skip ax a)) := by
  apply le_listMin
  · intro h
    have : (tab (n - 1) fun a => f (skip ax a)).length = n - 1 := by simp [tab]
    rw [h] at this
    simp at this
    omega
  · intro y hy
    obtain ⟨a, ha, rfl⟩ := (mem_tab _ _ _).mp hy
    exact listMin_le_of_mem _ _ ((mem_tab _ _ _).mpr ⟨skip ax a, skip_lt ax a n ha, rfl⟩)

/-! ## tolerant containment, axis by axis -/

theorem isclose_mono (a b rtol atol atol' : Rat) (h : atol ≤ atol') (hc : Region.isclose a b rtol atol = true) :
    Region.isclose a b rtol atol' = true := by
  unfold Region.isclose at hc ⊢
  simp only [decide_eq_true_eq] at hc ⊢
  linarith

/-- with a non-positive bound `isclose` only holds for equal numbers -/
theorem isclose_nonpos (a b rtol atol : Rat) (h1 : rtol ≤ 0) (h2 : atol ≤ 0) (hc : Region.isclose a b rtol atol = true) :
    a = b := by
  unfold Region.isclose at hc
  simp only [decide_eq_true_eq] at hc
  have h3 := absR_nonneg b
  have h4 := absR_nonneg (a - b)
  have h5 : rtol * absR b ≤ 0 := mul_nonpos_of_nonpos_of_nonneg h1 h3
  have h6 : absR (a - b) = 0 := by linarith
  rw [absR_eq_abs] at h6
  have := abs_eq_zero.mp h6
  linarith

/-- one axis of the tolerant box test carries over to a box with the same bounds on that axis,
the same relative tolerance and an absolute tolerance that is not smaller (or, for a negative
tolerance factor, whatever it is: the tolerant part never holds then) -/
theorem containsAx_mono (r r' : Region) (a a' : Nat) (x : Rat) (hlo : r'.lo a' = r.lo a) (hhi : r'.hi a' = r.hi a)
    (htol : r'.tol = r.tol) (hat : 0 ≤ r.tol → r.atol ≤ r'.atol) (hneg : r.tol < 0 → r.atol ≤ 0)
    (h : r.containsAx a x = true) : r'.containsAx a' x = true := by
  unfold Region.containsAx at h ⊢
  rw [hlo, hhi, htol]
  simp only [Bool.and_eq_true, Bool.or_eq_true, decide_eq_true_eq] at h ⊢
  by_cases ht : 0 ≤ r.tol
  · obtain ⟨h1, h2⟩ := h
    constructor
    · rcases h1 with h1 | h1
      · exact Or.inl h1
      · exact Or.inr (isclose_mono _ _ _ _ _ (hat ht) h1)
    · rcases h2 with h2 | h2
      · exact Or.inl h2
      · exact Or.inr (isclose_mono _ _ _ _ _ (hat ht) h2)
  · have ht' : r.tol < 0 := not_le.mp ht
    obtain ⟨h1, h2⟩ := h
    constructor
    · rcases h1 with h1 | h1
      · exact Or.inl h1
      · exact Or.inl (le_of_eq (isclose_nonpos _ _ _ _ (le_of_lt ht') (hneg ht') h1))
    · rcases h2 with h2 | h2
      · exact Or.inl h2
      · exact Or.inl (le_of_eq (isclose_nonpos _ _ _ _ (le_of_lt ht') (hneg ht') h2).symm)

/-- a region with one axis removed, seen from the original: bounds of the remaining axes, same
tolerance factor -/
structure IsProj (ax : Nat) (r r' : Region) : Prop where
  ndim : r'.ndim + 1 = r.ndim
  two : 2 ≤ r.ndim
  lo : ∀ a, r'.lo a = r.lo (skip ax a)
  hi : ∀ a, r'.hi a = r.hi (skip ax a)
  tol : r'.tol = r.tol
  pos : ∀ a, a < r.ndim → r.lo a < r.hi a

theorem IsProj.edge {ax : Nat} {r r' : Region} (h : IsProj ax r r') (a : Nat) : r'.edge a = r.edge (skip ax a) := by
  unfold Region.edge; rw [h.lo, h.hi]

theorem IsProj.edges_pos {ax : Nat} {r r' : Region} (h : IsProj ax r r') : ∀ y ∈ r.edges, 0 ≤ y := by
  intro y hy
  obtain ⟨a, ha, rfl⟩ := (mem_tab _ _ _).mp hy
  have := h.pos a ha
  unfold Region.edge; linarith

theorem IsProj.atol_le {ax : Nat} {r r' : Region} (h : IsProj ax r r') (ht : 0 ≤ r.tol) : r.atol ≤ r'.atol := by
  unfold Region.atol
  rw [h.tol]
  apply mul_le_mul_of_nonneg_right _ ht
  unfold Region.edges
  have hn : r'.ndim = r.ndim - 1 := by have := h.ndim; omega
  rw [hn]
  have : (tab (r.ndim - 1) r'.edge) = tab (r.ndim - 1) fun a => r.edge (skip ax a) :=
    tab_congr _ _ _ fun a _ => h.edge a
  rw [this]
  exact listMin_tab_skip r.ndim r.edge ax h.two

theorem IsProj.atol_neg {ax : Nat} {r r' : Region} (h : IsProj ax r r') (ht : r.tol < 0) : r.atol ≤ 0 := by
  unfold Region.atol
  exact mul_nonpos_of_nonneg_of_nonpos (listMin_nonneg _ h.edges_pos) (le_of_lt ht)

/-- the tolerant box test of a point with one coordinate removed, in the box with that axis
removed -/
theorem containsPt_proj (ax : Nat) (r r' : Region) (h : IsProj ax r r') (p : List Rat) (hax : ax < r.ndim)
    (hp : r.containsPt p = true) : r'.containsPt (removeAt p ax) = true := by
  unfold Region.containsPt at hp ⊢
  simp only [Bool.and_eq_true, decide_eq_true_eq] at hp ⊢
  obtain ⟨hl, hall⟩ := hp
  have hn : r'.ndim = r.ndim - 1 := by have := h.ndim; omega
  refine ⟨by rw [removeAt_length _ _ (by rw [hl]; exact hax), hl, hn], ?_⟩
  rw [allLt_iff] at hall ⊢
  intro a ha
  rw [getD_removeAt_skip]
  exact containsAx_mono r r' (skip ax a) a _ (h.lo a) (h.hi a) h.tol h.atol_le h.atol_neg
    (hall (skip ax a) (skip_lt ax a _ (by omega)))


/-! ## `Mesh(region=…, cell=…)`: exactly which (region, cell) pairs are accepted -/

theorem bcOk_empty (dims : List String) : Mesh.bcOk dims "" = true := by simp [Mesh.bcOk]

/-- acceptance of `Mesh(region=r, cell=cell)` is the conjunction of its five checks -/
theorem mkCell_iff (r : Region) (cell : List Rat) :
    (∃ o, Mesh.mkCell? r cell = .ok o) ↔
      cell.length = r.ndim ∧ cell.any (fun c => decide (c ≤ 0)) = false ∧
      r.containsPt (tab r.ndim fun a => r.lo a + cell.getD a 0) = true ∧
      allLt r.ndim (fun a => !Mesh.notDivisible (r.edge a) (cell.getD a 0) (listMin cell / 1000)) = true ∧
      allLt r.ndim (fun a => decide (1 ≤ (Mesh.roundHalfEven (r.edge a / cell.getD a 0)).toNat)) = true := by
  constructor
  · rintro ⟨o, h⟩
    unfold Mesh.mkCell? at h
    split at h
    · cases h
    · rename_i h1
      split at h
      · cases h
      · rename_i h2
        split at h
        · cases h
        · rename_i h3
          split at h
          · cases h
          · rename_i h4
            split at h
            · cases h
            · rename_i h5
              exact ⟨by simpa using h1, by simpa using h2, by simpa using h3, by simpa using h4, by simpa using h5⟩
  · rintro ⟨h1, h2, h3, h4, h5⟩
    unfold Mesh.mkCell?
    simp only [h1, ne_eq, not_true_eq_false, if_false, h2, Bool.false_eq_true, h3, Bool.not_true, h4, h5,
      toLower_empty, bcOk_empty]
    exact ⟨_, rfl⟩

theorem mem_of_mem_removeAt {α} (l : List α) (ax : Nat) (y : α) (h : y ∈ removeAt l ax) : y ∈ l := by
  induction l generalizing ax with
  | nil => simp [removeAt] at h
  | cons x xs ih =>
    cases ax with
    | zero => simp only [removeAt] at h; exact List.mem_cons_of_mem _ h
    | succ k =>
      simp only [removeAt] at h
      rcases List.mem_cons.mp h with rfl | h
      · exact List.mem_cons_self
      · exact List.mem_cons_of_mem _ (ih k h)

theorem listMin_removeAt_ge (l : List Rat) (ax : Nat) (hax : ax < l.length) (h2 : 2 ≤ l.length) :
    listMin l ≤ listMin (removeAt l ax) := by
  apply le_listMin
  · intro h
    have := removeAt_length l ax hax
    rw [h] at this
    simp at this
    omega
  · intro y hy
    exact listMin_le_of_mem _ _ (mem_of_mem_removeAt _ _ _ hy)

theorem notDivisible_mono (e c t t' : Rat) (h : t ≤ t') (hn : Mesh.notDivisible e c t = false) :
    Mesh.notDivisible e c t' = false := by
  unfold Mesh.notDivisible at hn ⊢
  simp only [Bool.and_eq_false_iff, decide_eq_false_iff_not, not_lt] at hn ⊢
  rcases hn with hn | hn
  · exact Or.inl (le_trans hn h)
  · exact Or.inr (by linarith)

/-- `Mesh(region, cell)` of a box and cell list with one axis removed is accepted whenever the
full one is, and has the cell counts of the remaining axes -/
theorem mkCell_proj (ax : Nat) (s s' : Region) (hp : IsProj ax s s') (cell : List Rat) (hax : ax < s.ndim)
    (o : Mesh) (h : Mesh.mkCell? s cell = .ok o) :
    ∃ o', Mesh.mkCell? s' (removeAt cell ax) = .ok o' ∧ ∀ a, a < s'.ndim → o'.nAt a = o.nAt (skip ax a) := by
  obtain ⟨h1, h2, h3, h4, h5⟩ := (mkCell_iff s cell).mp ⟨o, h⟩
  have hn : s'.ndim = s.ndim - 1 := by have := hp.ndim; omega
  have hcl : (removeAt cell ax).length = s'.ndim := by
    rw [removeAt_length _ _ (by rw [h1]; exact hax), h1, hn]
  have hg : ∀ a, (removeAt cell ax).getD a 0 = cell.getD (skip ax a) 0 := fun a => getD_removeAt_skip _ _ _ _
  have hex : ∃ o', Mesh.mkCell? s' (removeAt cell ax) = .ok o' := by
    rw [mkCell_iff]
    refine ⟨hcl, ?_, ?_, ?_, ?_⟩
    · rw [List.any_eq_false] at h2 ⊢
      intro c hc
      exact h2 c (mem_of_mem_removeAt _ _ _ hc)
    · have : (tab s'.ndim fun a => s'.lo a + (removeAt cell ax).getD a 0)
          = removeAt (tab s.ndim fun a => s.lo a + cell.getD a 0) ax := by
        rw [removeAt_tab _ _ _ hax, hn]
        apply tab_congr
        intro a _
        rw [hp.lo, hg]
      rw [this]
      exact containsPt_proj ax s s' hp _ hax h3
    · rw [allLt_iff] at h4 ⊢
      intro a ha
      have := h4 (skip ax a) (skip_lt ax a _ (by omega))
      simp only [Bool.not_eq_true'] at this ⊢
      rw [hg, hp.edge]
      refine notDivisible_mono _ _ _ _ ?_ this
      have := listMin_removeAt_ge cell ax (by rw [h1]; exact hax) (by rw [h1]; exact hp.two)
      linarith
    · rw [allLt_iff] at h5 ⊢
      intro a ha
      rw [hg, hp.edge]
      exact h5 (skip ax a) (skip_lt ax a _ (by omega))
  obtain ⟨o', ho'⟩ := hex
  refine ⟨o', ho', ?_⟩
  intro a ha
  have e1 := mkCell_ok _ _ _ ho'
  have e2 := mkCell_ok _ _ _ h
  unfold Mesh.nAt
  rw [e1, e2]
  simp only
  rw [getD_tab _ _ _ _ ha, getD_tab _ _ _ _ (skip_lt ax a _ (by omega)), hg, hp.edge]

/-! ## `is_aligned`, axis by axis -/

theorem aligned_proj (ax : Nat) (m mc o o' : Mesh) (t : Rat) (hnd : mc.ndim + 1 = m.ndim)
    (hc : ∀ a, mc.cellAt a = m.cellAt (skip ax a)) (hoc : ∀ a, a < mc.ndim → o'.cellAt a = o.cellAt (skip ax a))
    (hlo : ∀ a, mc.region.lo a = m.region.lo (skip ax a)) (hhi : ∀ a, mc.region.hi a = m.region.hi (skip ax a))
    (holo : ∀ a, o'.region.lo a = o.region.lo (skip ax a)) (hohi : ∀ a, o'.region.hi a = o.region.hi (skip ax a))
    (h : aligned m o t = true) : aligned mc o' t = true := by
  unfold aligned at h ⊢
  simp only [Bool.and_eq_true] at h ⊢
  obtain ⟨⟨h1, h2⟩, h3⟩ := h
  rw [allLt_iff] at h1 h2 h3
  have hs : ∀ a, a < mc.ndim → skip ax a < m.ndim := fun a ha => skip_lt ax a _ (by omega)
  refine ⟨⟨?_, ?_⟩, ?_⟩
  · rw [allLt_iff]; intro a ha
    rw [hc, hoc a ha]; exact h1 _ (hs a ha)
  · rw [allLt_iff]; intro a ha
    rw [hc, hlo, holo]; exact h2 _ (hs a ha)
  · rw [allLt_iff]; intro a ha
    rw [hc, hhi, hohi]; exact h3 _ (hs a ha)

/-! ## the setter's checks on one candidate -/

/-- `df.Region(p1=s.pmin, p2=s.pmax)`: the same box with default names, units and tolerance -/
def canon (s : Region) : Region :=
  { pmin := s.pmin, pmax := s.pmax, dims := Region.defaultDims s.pmin.length,
    units := List.replicate s.pmin.length "m", tol := 1/1000000000000 }

/-- the three checks of the `subregions` setter on one candidate region: inside the mesh region
(tolerant), `Mesh(region=r, cell=mesh.cell)` can be built (0.1 % divisibility, at least one
cell), and that mesh is aligned with the mesh (1e-12) -/
def SubOk (m : Mesh) (r : Region) : Prop :=
  m.region.containsReg r = true ∧ ∃ o, Mesh.mkCell? r m.cell = .ok o ∧ aligned m o (1/1000000000000) = true

/-- a stored subregion passes the setter's checks when it is offered again as a plain box
(`df.Region(p1, p2)` - what `Mesh.sel` does with the subregions it keeps) -/
def SubAcc (m : Mesh) (s : Region) : Prop := SubOk m (canon s)

/-- every subregion held by the mesh passes the setter's checks -/
def SubsAcc (m : Mesh) : Prop := ∀ p ∈ m.subs, SubAcc m p.2

theorem subsAcc_nil (m : Mesh) (h : m.subs = []) : SubsAcc m := by
  intro p hp; rw [h] at hp; simp at hp

/-- the setter accepts a list of candidates exactly when each passes the three checks, and
then stores each with the mesh's dims, units, tolerance -/
theorem setSubs_iff (m : Mesh) (subs : List (String × Region)) :
    (∃ t, setSubs m subs = .ok t) ↔ ∀ p ∈ subs, SubOk m p.2 := by
  induction subs with
  | nil => simp [setSubs]
  | cons p rest ih =>
    obtain ⟨k, r⟩ := p
    constructor
    · rintro ⟨t, h⟩
      unfold setSubs at h
      split at h
      · cases h
      · rename_i h1
        split at h
        · cases h
        · rename_i o ho
          split at h
          · cases h
          · rename_i h3
            split at h
            · cases h
            · rename_i t' ht'
              intro q hq
              rcases List.mem_cons.mp hq with rfl | hq
              · exact ⟨by simpa using h1, o, ho, by simpa using h3⟩
              · exact (ih.mp ⟨t', ht'⟩) q hq
    · intro hall
      obtain ⟨h1, o, ho, h3⟩ := hall (k, r) (by simp)
      obtain ⟨t', ht'⟩ := ih.mpr (fun q hq => hall q (by simp [hq]))
      unfold setSubs
      simp only [h1, Bool.not_true, Bool.false_eq_true, if_false, ho, h3, ht']
      exact ⟨_, rfl⟩

theorem setSubs_val (m : Mesh) (subs t : List (String × Region)) (h : setSubs m subs = .ok t) :
    t = subs.map fun p => (p.1, restamp m p.2) := by
  induction subs generalizing t with
  | nil => simp [setSubs] at h; subst h; rfl
  | cons p rest ih =>
    obtain ⟨k, r⟩ := p
    unfold setSubs at h
    split at h
    · cases h
    · split at h
      · cases h
      · split at h
        · cases h
        · split at h
          · cases h
          · rename_i t' ht'
            injection h with h
            rw [← h, ih t' ht']
            rfl


/-! ## what acceptance says about the box, and the exact fit as a special case -/

theorem roundHalfEven_nonpos (q : Rat) (h : q ≤ 0) : Mesh.roundHalfEven q ≤ 0 := by
  unfold Mesh.roundHalfEven
  have h1 := rat_floor_le q
  have hf : q.floor ≤ 0 := by
    have : ((q.floor : Int) : Rat) ≤ 0 := le_trans h1 h
    exact_mod_cast this
  by_cases h0 : q.floor = 0
  · have hq : q = 0 := by
      rw [h0] at h1; push_cast at h1; linarith
    subst hq
    rw [h0]
    norm_num
  · have : q.floor + 1 ≤ 0 := by omega
    split_ifs <;> omega

theorem cell_getD (m : Mesh) (a : Nat) (ha : a < m.ndim) : m.cell.getD a 0 = m.cellAt a := by
  unfold Mesh.cell; exact getD_tab _ _ _ _ ha

/-- an accepted box has one coordinate per direction and a positive extent on every axis -/
theorem subOk_basic (m : Mesh) (hm : m.Inv) (r : Region) (h : SubOk m r) :
    r.pmin.length = m.ndim ∧ r.pmax.length = m.ndim ∧ ∀ a, a < m.ndim → r.lo a < r.hi a := by
  obtain ⟨hc, o, ho, _⟩ := h
  unfold Region.containsReg at hc
  rw [Bool.and_eq_true] at hc
  have hl1 : r.pmin.length = m.ndim := by
    have := hc.1; unfold Region.containsPt at this
    simp only [Bool.and_eq_true, decide_eq_true_eq] at this; exact this.1
  have hl2 : r.pmax.length = m.ndim := by
    have := hc.2; unfold Region.containsPt at this
    simp only [Bool.and_eq_true, decide_eq_true_eq] at this; exact this.1
  refine ⟨hl1, hl2, ?_⟩
  intro a ha
  obtain ⟨_, _, _, _, h5⟩ := (mkCell_iff r m.cell).mp ⟨o, ho⟩
  rw [allLt_iff] at h5
  have h5a := h5 a (by show a < r.pmin.length; rw [hl1]; exact ha)
  simp only [decide_eq_true_eq] at h5a
  by_contra hlt
  have hle : r.edge a ≤ 0 := by unfold Region.edge; linarith [not_lt.mp hlt]
  have hc := cell_pos' m hm a ha
  have hq : r.edge a / m.cell.getD a 0 ≤ 0 := by
    rw [cell_getD m a ha]
    exact div_nonpos_of_nonpos_of_nonneg hle (le_of_lt hc)
  have := roundHalfEven_nonpos _ hq
  omega

theorem subAcc_basic (m : Mesh) (hm : m.Inv) (s : Region) (h : SubAcc m s) :
    s.pmin.length = m.ndim ∧ s.pmax.length = m.ndim ∧ ∀ a, a < m.ndim → s.lo a < s.hi a :=
  subOk_basic m hm (canon s) h

/-- a box that fits the mesh exactly passes the setter's checks -/
theorem subAcc_of_fits (m : Mesh) (hm : m.Inv) (s : Region) (hs : SubFits m s) : SubAcc m s := by
  have hs' : SubFits m (canon s) := hs
  obtain ⟨o, ho, hor, hoc⟩ := subMesh_ok m hm (canon s) hs'
  exact ⟨containsReg_of_fits m hm _ hs', o, ho, aligned_of_fits m hm _ hs' o hor hoc⟩

theorem subsAcc_of_fit (m : Mesh) (hm : m.Inv) (h : SubsFit m) : SubsAcc m :=
  fun p hp => subAcc_of_fits m hm p.2 (h p hp)

/-! ## axis removal keeps accepted subregions accepted -/

theorem projReg_mk' (m : Mesh) (ax : Nat) (hax : ax < m.ndim) (h2 : 2 ≤ m.ndim) (s : Region)
    (hs : s.pmin.length = m.ndim ∧ s.pmax.length = m.ndim ∧ ∀ a, a < m.ndim → s.lo a < s.hi a) :
    Region.mk? (removeAt s.pmin ax) (removeAt s.pmax ax) none none = .ok (projReg ax s) := by
  have hl1 : (removeAt s.pmin ax).length = m.ndim - 1 := by
    rw [removeAt_length _ _ (by rw [hs.1]; exact hax), hs.1]
  have hl2 : (removeAt s.pmax ax).length = m.ndim - 1 := by
    rw [removeAt_length _ _ (by rw [hs.2.1]; exact hax), hs.2.1]
  rw [region_mk_none _ _ (by rw [hl1, hl2]) (by rw [hl1]; omega)]
  · rfl
  · intro a ha
    rw [hl1] at ha
    rw [getD_removeAt_skip, getD_removeAt_skip]
    exact hs.2.2 _ (skip_lt ax a _ ha)

theorem projSubs_eq' (m : Mesh) (ax : Nat) (hax : ax < m.ndim) (h2 : 2 ≤ m.ndim) (s : Rat)
    (subs : List (String × Region))
    (hb : ∀ p ∈ subs, p.2.pmin.length = m.ndim ∧ p.2.pmax.length = m.ndim ∧ ∀ a, a < m.ndim → p.2.lo a < p.2.hi a) :
    projSubs ax s subs = .ok ((keepSubs ax s subs).map fun p => (p.1, projReg ax p.2)) := by
  induction subs with
  | nil => rfl
  | cons p rest ih =>
    obtain ⟨k, r⟩ := p
    have ih' := ih (fun q hq => hb q (by simp [hq]))
    have hr := hb (k, r) (by simp)
    unfold projSubs
    by_cases hc : (decide (r.hi ax < s) || decide (s < r.lo ax)) = true
    · simp only [hc, if_true]
      rw [ih']
      have hf : keepSubs ax s ((k, r) :: rest) = keepSubs ax s rest := by
        unfold keepSubs; rw [List.filter_cons]; simp only [hc, Bool.not_true, Bool.false_eq_true, if_false]
      rw [hf]
    · have hc' : (decide (r.hi ax < s) || decide (s < r.lo ax)) = false := by simpa using hc
      simp only [hc', Bool.false_eq_true, if_false, projReg_mk' m ax hax h2 r hr, ih']
      have hf : keepSubs ax s ((k, r) :: rest) = (k, r) :: keepSubs ax s rest := by
        unfold keepSubs; rw [List.filter_cons]; simp only [hc', Bool.not_false, if_true]
      rw [hf]; rfl

/-- THE inheritance step: a stored subregion that passes the setter's checks of the mesh passes,
with one axis removed, the setter's checks of the reduced mesh.  Every check is per axis except
three tolerances taken from a minimum over the axes (the region's `atol`, the box's own `atol`,
0.1 % of the smallest cell) - and a minimum over fewer axes is not smaller. -/
theorem subOk_proj (m : Mesh) (hm : m.Inv) (d : String) (ax : Nat) (hax : m.region.dim2index d = .ok ax)
    (mc : Mesh) (hsel : sel { m with subs := [] } d = .ok mc) (s : Region) (hs : SubAcc m s) :
    SubOk mc (projReg ax s) := by
  have hm0 : ({ m with subs := [] } : Mesh).Inv := hm
  obtain ⟨ax', hax', haxlt, h2, hpmin, hpmax, _, _, htol, hn, _, _⟩ := sel_spec _ hm0 d mc hsel
  have hax0 : ({ m with subs := [] } : Mesh).region.dim2index d = .ok ax := hax
  rw [hax0] at hax'; injection hax' with hax'; subst hax'
  have haxlt : ax < m.ndim := haxlt
  have h2 : 2 ≤ m.ndim := h2
  have hpmin : mc.region.pmin = removeAt m.region.pmin ax := hpmin
  have hpmax : mc.region.pmax = removeAt m.region.pmax ax := hpmax
  have htol : mc.region.tol = m.region.tol := htol
  have hcell : ∀ a, mc.cellAt a = m.cellAt (skip ax a) := fun a => sel_cellAt _ hm0 d mc hsel ax hax0 a
  have hnd : mc.ndim = m.ndim - 1 := by
    show mc.region.pmin.length = _
    rw [hpmin, removeAt_length _ _ haxlt]; rfl
  obtain ⟨hl1, hl2, hpos⟩ := subAcc_basic m hm s hs
  have hlo : ∀ a, mc.region.lo a = m.region.lo (skip ax a) := by
    intro a; unfold Region.lo; rw [hpmin, getD_removeAt_skip]
  have hhi : ∀ a, mc.region.hi a = m.region.hi (skip ax a) := by
    intro a; unfold Region.hi; rw [hpmax, getD_removeAt_skip]
  have hP : IsProj ax m.region mc.region :=
    ⟨by show mc.ndim + 1 = m.ndim; omega, h2, hlo, hhi, htol, hm.1.2.2.2.2.2⟩
  have hQ : IsProj ax (canon s) (projReg ax s) := by
    refine ⟨?_, ?_, ?_, ?_, rfl, ?_⟩
    · show (removeAt s.pmin ax).length + 1 = s.pmin.length
      rw [removeAt_length _ _ (by rw [hl1]; exact haxlt)]; omega
    · show 2 ≤ s.pmin.length
      rw [hl1]; exact h2
    · intro a; show (removeAt s.pmin ax).getD a 0 = s.pmin.getD (skip ax a) 0
      rw [getD_removeAt_skip]
    · intro a; show (removeAt s.pmax ax).getD a 0 = s.pmax.getD (skip ax a) 0
      rw [getD_removeAt_skip]
    · intro a ha
      exact hpos a (by rw [← hl1]; exact ha)
  obtain ⟨hc, o, ho, hal⟩ := hs
  unfold Region.containsReg at hc
  rw [Bool.and_eq_true] at hc
  have hmcell : mc.cell = removeAt m.cell ax := by
    unfold Mesh.cell
    rw [removeAt_tab _ _ _ haxlt, hnd]
    exact tab_congr _ _ _ fun a _ => hcell a
  obtain ⟨o', ho', hon⟩ := mkCell_proj ax (canon s) (projReg ax s) hQ m.cell
    (by show ax < s.pmin.length; rw [hl1]; exact haxlt) o ho
  have hor' : o'.region = projReg ax s := by rw [mkCell_ok _ _ _ ho']
  have hor : o.region = canon s := by rw [mkCell_ok _ _ _ ho]
  have hpn : (projReg ax s).ndim = mc.ndim := by
    show (removeAt s.pmin ax).length = _
    rw [removeAt_length _ _ (by rw [hl1]; exact haxlt), hl1, hnd]
  refine ⟨?_, o', by rw [hmcell]; exact ho', ?_⟩
  · unfold Region.containsReg
    rw [Bool.and_eq_true]
    exact ⟨containsPt_proj ax _ _ hP _ haxlt hc.1, containsPt_proj ax _ _ hP _ haxlt hc.2⟩
  · apply aligned_proj ax m mc o o' _ (by omega) hcell ?_ hlo hhi ?_ ?_ hal
    · intro a ha
      unfold Mesh.cellAt
      rw [hon a (by rw [hpn]; exact ha), hor', hor, hQ.edge]
    · intro a; rw [hor', hor]; exact hQ.lo a
    · intro a; rw [hor', hor]; exact hQ.hi a

/-- `Mesh.sel(d)` succeeds on every well-formed mesh (two or more dimensions) whose subregions
pass the setter's checks - exactly fitting or only within the tolerances -, for every direction
name of the mesh; the result carries the subregions whose closed extent along the removed axis
contains the selected coordinate, each with that axis removed, and these pass the checks of
the reduced mesh again. -/
theorem sel_ok_acc (m : Mesh) (hm : m.Inv) (hacc : SubsAcc m) (h2 : 2 ≤ m.ndim) (d : String) (ax : Nat)
    (hax : m.region.dim2index d = .ok ax) :
    ∃ s mc m', selCentre m ax = .ok s ∧ sel { m with subs := [] } d = .ok mc ∧ sel m d = .ok m' ∧
      m' = { mc with subs := (keepSubs ax s m.subs).map fun p => (p.1, restamp mc (projReg ax p.2)) } ∧
      SubsAcc m' := by
  obtain ⟨s, r, mc, hs, hr, hmc, hmcs, hsel0⟩ := selCore_ok m hm h2 d ax hax
  obtain ⟨haxd, _⟩ := dim2index_ok _ _ _ hax
  have haxlt : ax < m.ndim := by
    show ax < m.region.pmin.length
    rw [← hm.1.2.2.1]; exact haxd
  have hkeep : ∀ p ∈ keepSubs ax s m.subs, SubAcc m p.2 := fun p hp => hacc p (List.mem_of_mem_filter hp)
  have hL : ∀ q ∈ (keepSubs ax s m.subs).map (fun p => (p.1, projReg ax p.2)), SubOk mc q.2 := by
    intro q hq
    obtain ⟨p, hp, rfl⟩ := List.mem_map.mp hq
    exact subOk_proj m hm d ax hax mc hsel0 p.2 (hkeep p hp)
  obtain ⟨t, ht⟩ := (setSubs_iff mc _).mpr hL
  have htv := setSubs_val mc _ t ht
  refine ⟨s, mc, _, hs, hsel0, ?_, rfl, ?_⟩
  · unfold sel
    simp only [hax, hs, projSubs_eq' m ax haxlt h2 s m.subs (fun p hp => subAcc_basic m hm p.2 (hacc p hp)), hr, hmc, ht]
    rw [htv, List.map_map]
    rfl
  · intro q hq
    obtain ⟨p, hp, rfl⟩ := List.mem_map.mp hq
    exact subOk_proj m hm d ax hax mc hsel0 p.2 (hkeep p hp)

/-- short form of `sel_ok_acc` -/
theorem sel_okA (m : Mesh) (hm : m.Inv) (hacc : SubsAcc m) (h2 : 2 ≤ m.ndim) (d : String) (ax : Nat)
    (hax : m.region.dim2index d = .ok ax) : ∃ m', sel m d = .ok m' ∧ SubsAcc m' := by
  obtain ⟨_, _, m', _, _, hsel, _, hf⟩ := sel_ok_acc m hm hacc h2 d ax hax
  exact ⟨m', hsel, hf⟩


/-! ## what the tolerances let through, per axis (the numeric content of the three checks) -/

/-- the remainder test used by the 0.1 % divisibility check and by `is_aligned`: a length that
passes is within the tolerance of a whole number of cells (the statement of C14's
`aligned_tol_sound`, here for any non-negative-or-not length `e`) -/
theorem remainder_test_sound (e c t : Rat) (hc : 0 < c)
    (h : (decide (t < Mesh.remainder e c) && decide (Mesh.remainder e c < c - t)) = false) :
    ∃ z : Int, absR (e - (z : Rat) * c) ≤ t := by
  have h0 := C14.remainder_nonneg e c hc
  have h1 := C14.remainder_lt e c hc
  have heq := C14.remainder_eq e c
  by_cases ha : t < Mesh.remainder e c
  · have hb : ¬ (Mesh.remainder e c < c - t) := by
      intro hb; simp [ha, hb] at h
    refine ⟨(e / c).floor + 1, ?_⟩
    rw [absR_eq_abs, abs_le]
    push_cast
    constructor <;> linarith
  · refine ⟨(e / c).floor, ?_⟩
    rw [absR_eq_abs, abs_le]
    constructor <;> linarith

/-- … and conversely a length within the tolerance of a whole number of cells passes, as long
as the tolerance is below half a cell -/
theorem remainder_test_complete (e c t : Rat) (hc : 0 < c) (z : Int) (hz : absR (e - (z : Rat) * c) ≤ t) :
    (decide (t < Mesh.remainder e c) && decide (Mesh.remainder e c < c - t)) = false := by
  have h0 := C14.remainder_nonneg e c hc
  have h1 := C14.remainder_lt e c hc
  have heq := C14.remainder_eq e c
  rw [absR_eq_abs, abs_le] at hz
  by_contra hne
  simp only [Bool.and_eq_false_iff, decide_eq_false_iff_not, not_or, not_not] at hne
  obtain ⟨ha, hb⟩ := hne
  -- e = f c + r with t < r < c - t, and |e - z c| ≤ t: (f - z) c + r ∈ [-t, t]
  set f := (e / c).floor with hf
  have hcase : f < z ∨ f = z ∨ z < f := lt_trichotomy f z
  rcases hcase with hlt | heq' | hgt
  · have : (f : Rat) + 1 ≤ (z : Rat) := by exact_mod_cast hlt
    nlinarith
  · rw [heq'] at heq; linarith
  · have : (z : Rat) + 1 ≤ (f : Rat) := by exact_mod_cast hgt
    nlinarith

/-- What the setter's three checks say about an accepted box, on every axis `a`: it has a positive
extent; its faces lie inside the mesh region or within the region's tolerance of its faces; its
extent is within 0.1 % of the smallest cell of a whole number of cells and rounds to `k ≥ 1`
cells, whose length `edge / k` agrees with the mesh's cell length to `1e-12 + 1e-5·`; and both
faces sit within `1e-12` of a whole number of cells from the corresponding faces of the region. -/
theorem subOk_sound (m : Mesh) (hm : m.Inv) (r : Region) (h : SubOk m r) (a : Nat) (ha : a < m.ndim) :
    r.lo a < r.hi a ∧
    (m.region.lo a ≤ r.lo a ∨ absR (m.region.lo a - r.lo a) ≤ m.region.atol + m.region.tol * absR (r.lo a)) ∧
    (r.hi a ≤ m.region.hi a ∨ absR (m.region.hi a - r.hi a) ≤ m.region.atol + m.region.tol * absR (r.hi a)) ∧
    (∃ z : Int, absR (r.edge a - (z : Rat) * m.cellAt a) ≤ listMin m.cell / 1000) ∧
    (∃ k : Nat, 1 ≤ k ∧ (k : Int) = Mesh.roundHalfEven (r.edge a / m.cellAt a) ∧
      absR (m.cellAt a - r.edge a / (k : Rat)) ≤ 1/1000000000000 + (1/100000) * absR (r.edge a / (k : Rat))) ∧
    (∃ z : Int, absR (absR (m.region.lo a - r.lo a) - (z : Rat) * m.cellAt a) ≤ 1/1000000000000) ∧
    (∃ z : Int, absR (absR (m.region.hi a - r.hi a) - (z : Rat) * m.cellAt a) ≤ 1/1000000000000) := by
  obtain ⟨hl1, hl2, hpos⟩ := subOk_basic m hm r h
  obtain ⟨hc, o, ho, hal⟩ := h
  have hcp := cell_pos' m hm a ha
  have har : a < r.ndim := by show a < r.pmin.length; rw [hl1]; exact ha
  unfold Region.containsReg at hc
  rw [Bool.and_eq_true] at hc
  obtain ⟨hc1, hc2⟩ := hc
  unfold Region.containsPt at hc1 hc2
  simp only [Bool.and_eq_true, decide_eq_true_eq] at hc1 hc2
  have g1 := (allLt_iff _ _).mp hc1.2 a ha
  have g2 := (allLt_iff _ _).mp hc2.2 a ha
  unfold Region.containsAx Region.isclose at g1 g2
  simp only [Bool.and_eq_true, Bool.or_eq_true, decide_eq_true_eq] at g1 g2
  obtain ⟨_, _, _, h4, h5⟩ := (mkCell_iff r m.cell).mp ⟨o, ho⟩
  have h4a := (allLt_iff _ _).mp h4 a har
  have h5a := (allLt_iff _ _).mp h5 a har
  rw [cell_getD m a ha] at h4a h5a
  simp only [Bool.not_eq_true'] at h4a
  simp only [decide_eq_true_eq] at h5a
  have ho' := mkCell_ok _ _ _ ho
  have hon : o.nAt a = (Mesh.roundHalfEven (r.edge a / m.cellAt a)).toNat := by
    unfold Mesh.nAt; rw [ho']; simp only
    rw [getD_tab _ _ _ _ har, cell_getD m a ha]
  have hoc : o.cellAt a = r.edge a / ((Mesh.roundHalfEven (r.edge a / m.cellAt a)).toNat : Rat) := by
    have hor0 : o.region = r := by rw [ho']
    show o.region.edge a / (o.nAt a : Rat) = _
    rw [hon, hor0]
  unfold aligned at hal
  simp only [Bool.and_eq_true] at hal
  obtain ⟨⟨a1, a2⟩, a3⟩ := hal
  have b1 := (allLt_iff _ _).mp a1 a ha
  have b2 := (allLt_iff _ _).mp a2 a ha
  have b3 := (allLt_iff _ _).mp a3 a ha
  simp only [Bool.not_eq_true'] at b2 b3
  unfold Region.isclose at b1
  simp only [decide_eq_true_eq] at b1
  rw [hoc] at b1
  have hor : o.region = r := by rw [ho']
  rw [hor] at b2 b3
  refine ⟨hpos a ha, g1.1, ?_, ?_, ?_, ?_, ?_⟩
  · rcases g2.2 with g | g
    · exact Or.inl g
    · exact Or.inr g
  · unfold Mesh.notDivisible at h4a
    exact remainder_test_sound _ _ _ hcp h4a
  · refine ⟨(Mesh.roundHalfEven (r.edge a / m.cellAt a)).toNat, h5a, ?_, b1⟩
    have : 0 ≤ Mesh.roundHalfEven (r.edge a / m.cellAt a) := by omega
    exact Int.toNat_of_nonneg this
  · exact remainder_test_sound _ _ _ hcp b2
  · exact remainder_test_sound _ _ _ hcp b3

end DFV.C06
