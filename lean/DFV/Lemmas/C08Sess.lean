import DFV.Lemmas.C08Nary
/-! C08 helper lemmas, part 7: sessions — histories of statements with in-place changes.
Invariant: every variable names an existing object, every object's mask buffer is inside the
store, and DISTINCT OBJECTS OWN DISTINCT BUFFERS.  Preserved by every statement. -/
namespace DFV.C08
open DFV

/-! ## list helpers -/

theorem getD_append_lt {α} (l l' : List α) (i : Nat) (d : α) (h : i < l.length) :
    (l ++ l').getD i d = l.getD i d := by
  simp only [List.getD_eq_getElem?_getD, List.getElem?_append_left h]

theorem getD_append_len {α} (l : List α) (x d : α) : (l ++ [x]).getD l.length d = x := by
  simp [List.getD_eq_getElem?_getD]

theorem getD_set_ne' {α} (l : List α) (i j : Nat) (x d : α) (h : j ≠ i) : (l.set i x).getD j d = l.getD j d := by
  simp only [List.getD_eq_getElem?_getD, List.getElem?_set_ne (Ne.symm h)]

theorem getD_set_eq' {α} (l : List α) (i : Nat) (x d : α) (h : i < l.length) : (l.set i x).getD i d = x := by
  simp [List.getD_eq_getElem?_getD, h]

/-! ## the invariant -/

structure Sess.Inv (st : Sess) : Prop where
  vars_lt : ∀ i, i < st.vars.length → st.vars.getD i 0 < st.objs.length
  addr_lt : ∀ o, o < st.objs.length → (st.objs.getD o (0, [])).1 < st.store.length
  addr_inj : ∀ o o', o < st.objs.length → o' < st.objs.length →
    (st.objs.getD o (0, [])).1 = (st.objs.getD o' (0, [])).1 → o = o'

theorem Sess.init_inv (leaves : List Mask) : (Sess.init leaves).Inv := by
  refine ⟨fun i hi => ?_, fun o ho => ?_, fun o o' ho ho' h => ?_⟩
  · simp only [Sess.init, List.length_range, List.length_map] at hi ⊢
    rw [List.getD_eq_getElem?_getD, List.getElem?_range hi]; exact hi
  · simp only [Sess.init, List.length_range, List.length_map] at ho ⊢
    rw [List.getD_eq_getElem?_getD, List.getElem?_map, List.getElem?_range ho]; exact ho
  · simp only [Sess.init, List.length_range, List.length_map] at ho ho' h
    rw [List.getD_eq_getElem?_getD, List.getElem?_map, List.getElem?_range ho,
      List.getD_eq_getElem?_getD, List.getElem?_map, List.getElem?_range ho'] at h
    exact h

theorem Sess.init_mask (leaves : List Mask) (k : Nat) (hk : k < leaves.length) :
    (Sess.init leaves).mask k = (leaves.getD k (NDA.const [] false)).force false := by
  unfold Sess.mask Sess.shapeOfVar Sess.addrOf Sess.objOf Sess.init
  simp only
  have h1 : (List.range leaves.length).getD k 0 = k := by
    rw [List.getD_eq_getElem?_getD, List.getElem?_range hk]; rfl
  rw [h1]
  have h2 : ((List.range leaves.length).map fun k => (k, (leaves.getD k (NDA.const [] false)).shape)).getD k (0, [])
      = (k, (leaves.getD k (NDA.const [] false)).shape) := by
    rw [List.getD_eq_getElem?_getD, List.getElem?_map, List.getElem?_range hk]; rfl
  rw [h2]
  have h3 : (leaves.map NDA.toList).getD k [] = (leaves.getD k (NDA.const [] false)).toList := by
    simp only [List.getD_eq_getElem?_getD, List.getElem?_map]
    rw [List.getElem?_eq_getElem hk]; rfl
  rw [h3]
  rfl

/-! ## what one statement does -/

/-- a mask is determined by the object's shape and the buffer's content -/
theorem Sess.mask_congr (st st' : Sess) (j j' : Nat) (hs : st'.shapeOfVar j' = st.shapeOfVar j)
    (hb : st'.store.getD (st'.addrOf j') [] = st.store.getD (st.addrOf j) []) : st'.mask j' = st.mask j := by
  unfold Sess.mask; rw [hs, hb]

theorem Sess.step_inv (st st' : Sess) (s : Stmt) (hI : st.Inv) (h : st.step s = .ok st') : st'.Inv := by
  obtain ⟨h1, h2, h3⟩ := hI
  -- a new buffer appended, one object re-pointed to it
  have repoint : ∀ (o : Nat) (sh : List Nat) (buf : List Bool), o < st.objs.length →
      Sess.Inv { st with objs := st.objs.set o (st.store.length, sh), store := st.store ++ [buf] } := by
    intro o sh buf ho
    refine ⟨fun i hi => ?_, fun o1 ho1 => ?_, fun o1 o2 ho1 ho2 he => ?_⟩
    · simp only [List.length_set]; exact h1 i hi
    · simp only [List.length_set] at ho1
      simp only [List.length_append, List.length_singleton]
      by_cases c : o1 = o
      · subst c; rw [getD_set_eq' _ _ _ _ ho1]; simp
      · rw [getD_set_ne' _ _ _ _ _ c]; have := h2 o1 ho1; omega
    · simp only [List.length_set] at ho1 ho2
      by_cases c1 : o1 = o <;> by_cases c2 : o2 = o
      · rw [c1, c2]
      · subst c1
        rw [getD_set_eq' _ _ _ _ ho1, getD_set_ne' _ _ _ _ _ c2] at he
        have := h2 o2 ho2; simp only at he; omega
      · subst c2
        rw [getD_set_eq' _ _ _ _ ho2, getD_set_ne' _ _ _ _ _ c1] at he
        have := h2 o1 ho1; simp only at he; omega
      · rw [getD_set_ne' _ _ _ _ _ c1, getD_set_ne' _ _ _ _ _ c2] at he
        exact h3 o1 o2 ho1 ho2 he
  cases s with
  | build p =>
    simp only [Sess.step] at h
    split at h
    · cases h
    · rename_i hl
      split at h
      · cases h
      · rename_i m hm
        split at h
        · rename_i k hk
          simp only [Except.ok.injEq] at h; subst h
          -- the alias names an existing variable
          have hk' : k < st.vars.length := by
            have : ∀ q : Prog, aliasOf q = some k → leavesLt st.vars.length q = true → k < st.vars.length := by
              intro q
              induction q with
              | leaf k' => intro ha hl; simp [aliasOf] at ha; subst ha; simpa [leavesLt] using hl
              | pos q ih => intro ha hl; exact ih (by simpa [aliasOf] using ha) (by simpa [leavesLt] using hl)
              | _ => intro ha; simp [aliasOf] at ha
            exact this p hk (by simpa using hl)
          refine ⟨fun i hi => ?_, h2, h3⟩
          simp only [List.length_append, List.length_singleton] at hi
          by_cases c : i < st.vars.length
          · rw [getD_append_lt _ _ _ _ c]; exact h1 i c
          · have : i = st.vars.length := by omega
            subst this
            rw [getD_append_len]; exact h1 k hk'
        · simp only [Except.ok.injEq] at h; subst h
          refine ⟨fun i hi => ?_, fun o ho => ?_, fun o o' ho ho' he => ?_⟩
          · simp only [List.length_append, List.length_singleton] at hi ⊢
            by_cases c : i < st.vars.length
            · rw [getD_append_lt _ _ _ _ c]; have := h1 i c; omega
            · have : i = st.vars.length := by omega
              subst this
              rw [getD_append_len]; omega
          · simp only [List.length_append, List.length_singleton] at ho ⊢
            by_cases c : o < st.objs.length
            · rw [getD_append_lt _ _ _ _ c]; have := h2 o c; omega
            · have : o = st.objs.length := by omega
              subst this
              rw [getD_append_len]; simp
          · simp only [List.length_append, List.length_singleton] at ho ho'
            by_cases c : o < st.objs.length <;> by_cases c' : o' < st.objs.length
            · rw [getD_append_lt _ _ _ _ c, getD_append_lt _ _ _ _ c'] at he
              exact h3 o o' c c' he
            · have e' : o' = st.objs.length := by omega
              subst e'
              rw [getD_append_lt _ _ _ _ c, getD_append_len] at he
              have := h2 o c; simp only at he; omega
            · have e : o = st.objs.length := by omega
              subst e
              rw [getD_append_lt _ _ _ _ c', getD_append_len] at he
              have := h2 o' c'; simp only at he; omega
            · omega
  | assign i s =>
    simp only [Sess.step] at h
    split at h
    · cases h
    · rename_i hi
      split at h
      · cases h
      · simp only [Except.ok.injEq] at h; subst h
        exact repoint _ _ _ (h1 i (by omega))
  | rotI i a b k =>
    simp only [Sess.step] at h
    split at h
    · cases h
    · rename_i hi
      split at h
      · simp only [Except.ok.injEq] at h; subst h
        exact repoint _ _ _ (h1 i (by omega))
      · cases h
  | poke i pos v =>
    simp only [Sess.step] at h
    split at h
    · cases h
    · simp only [Except.ok.injEq] at h; subst h
      refine ⟨h1, fun o ho => ?_, h3⟩
      have := h2 o ho
      simpa [write] using this

theorem Sess.run_inv (h : List Stmt) : ∀ (st st' : Sess), st.Inv → st.run h = .ok st' → st'.Inv := by
  induction h with
  | nil => intro st st' hI hr; simp only [Sess.run, Except.ok.injEq] at hr; subst hr; exact hI
  | cons s rest ih =>
    intro st st' hI hr
    simp only [Sess.run] at hr
    split at hr
    · cases hr
    · rename_i st1 hs
      exact ih st1 st' (Sess.step_inv st st1 s hI hs) hr

/-! ## effects on the masks -/

/-- two variables that name different objects read different buffers -/
theorem Sess.addr_ne (st : Sess) (hI : st.Inv) (i j : Nat) (hi : i < st.vars.length) (hj : j < st.vars.length)
    (h : st.objOf j ≠ st.objOf i) : st.addrOf j ≠ st.addrOf i := fun he =>
  h (hI.addr_inj _ _ (hI.vars_lt j hj) (hI.vars_lt i hi) he)

/-- `x_i.valid[pos] = v` leaves the mask of every variable that names another object as it was -/
theorem Sess.poke_other (st st' : Sess) (hI : st.Inv) (i pos : Nat) (v : Bool)
    (h : st.step (.poke i pos v) = .ok st') (j : Nat) (hj : j < st.vars.length)
    (hne : st.objOf j ≠ st.objOf i) : st'.mask j = st.mask j := by
  simp only [Sess.step] at h
  split at h
  · cases h
  · rename_i hi
    simp only [Except.ok.injEq] at h; subst h
    apply Sess.mask_congr
    · rfl
    · show (write st.store (st.addrOf i) pos v).getD (st.addrOf j) [] = _
      exact write_other _ _ _ _ _ (Sess.addr_ne st hI i j (by omega) hj hne)

/-- … and changes the buffer of the variables naming the same object at exactly that position -/
theorem Sess.poke_same (st st' : Sess) (i pos : Nat) (v : Bool)
    (h : st.step (.poke i pos v) = .ok st') (j : Nat) (he : st.objOf j = st.objOf i) :
    st'.shapeOfVar j = st.shapeOfVar j ∧
    st'.store.getD (st'.addrOf j) [] = (st.store.getD (st.addrOf j) []).set pos v := by
  simp only [Sess.step] at h
  split at h
  · cases h
  · simp only [Except.ok.injEq] at h; subst h
    refine ⟨rfl, ?_⟩
    have ha : st.addrOf j = st.addrOf i := by unfold Sess.addrOf; rw [he]
    show (write st.store (st.addrOf i) pos v).getD (st.addrOf j) [] = _
    rw [ha]
    unfold write
    simp only [List.getD_eq_getElem?_getD]
    by_cases c : st.addrOf i < st.store.length
    · rw [List.getElem?_set_self c]; rfl
    · rw [List.set_eq_of_length_le (by omega), List.getElem?_eq_none (by omega)]; simp

/-- re-pointing the object of variable `i` to a new buffer: other objects keep shape and buffer,
every name of the object sees the new one, the store only grows -/
theorem Sess.repoint_effect (st : Sess) (hI : st.Inv) (i : Nat) (hi : i < st.vars.length) (sh : List Nat)
    (buf : List Bool) (st' : Sess)
    (hst : st' = { st with objs := st.objs.set (st.objOf i) (st.store.length, sh), store := st.store ++ [buf] }) :
    (∀ j, j < st.vars.length → st.objOf j ≠ st.objOf i → st'.mask j = st.mask j) ∧
    (∀ j, st.objOf j = st.objOf i → st'.mask j = NDA.ofList sh buf false) ∧
    st'.store = st.store ++ [buf] ∧ st'.vars = st.vars := by
  subst hst
  refine ⟨fun j hj hne => ?_, fun j he => ?_, rfl, rfl⟩
  · have hshape : ∀ d, (st.objs.set (st.objOf i) (st.store.length, sh)).getD (st.objOf j) d = st.objs.getD (st.objOf j) d :=
      fun d => getD_set_ne' _ _ _ _ _ hne
    apply Sess.mask_congr
    · show ((st.objs.set (st.objOf i) (st.store.length, sh)).getD (st.objOf j) (0, [])).2 = _
      rw [hshape]; rfl
    · show (st.store ++ [buf]).getD ((st.objs.set (st.objOf i) (st.store.length, sh)).getD (st.objOf j) (0, [])).1 [] = _
      rw [hshape]
      exact getD_append_lt _ _ _ _ (hI.addr_lt _ (hI.vars_lt j hj))
  · have ho : st.vars.getD i 0 < st.objs.length := hI.vars_lt i hi
    unfold Sess.mask Sess.shapeOfVar Sess.addrOf Sess.objOf
    simp only
    have : st.vars.getD j 0 = st.vars.getD i 0 := he
    rw [this, getD_set_eq' _ _ _ _ ho]
    simp only
    rw [getD_append_len]

theorem Sess.assign_effect (st st' : Sess) (hI : st.Inv) (i : Nat) (s : MSpec)
    (h : st.step (.assign i s) = .ok st') :
    ∃ m, setMask (st.shapeOfVar i) s = .ok m ∧
      (∀ j, j < st.vars.length → st.objOf j ≠ st.objOf i → st'.mask j = st.mask j) ∧
      (∀ j, st.objOf j = st.objOf i → st'.mask j = m.force false) ∧
      st'.store = st.store ++ [m.toList] ∧ st'.vars = st.vars := by
  simp only [Sess.step] at h
  split at h
  · cases h
  · rename_i hi
    split at h
    · cases h
    · rename_i m hm
      simp only [Except.ok.injEq] at h
      exact ⟨m, hm, Sess.repoint_effect st hI i (by omega) m.shape m.toList st' h.symm⟩

theorem Sess.rotI_effect (st st' : Sess) (hI : st.Inv) (i a b : Nat) (k : Int)
    (h : st.step (.rotI i a b k) = .ok st') :
    (MapOp.rot a b k).ok (st.shapeOfVar i) = true ∧
      (∀ j, j < st.vars.length → st.objOf j ≠ st.objOf i → st'.mask j = st.mask j) ∧
      (∀ j, st.objOf j = st.objOf i → st'.mask j = (own ((MapOp.rot a b k).apply (st.mask i) false)).force false) ∧
      st'.vars = st.vars := by
  simp only [Sess.step] at h
  split at h
  · cases h
  · rename_i hi
    split at h
    · rename_i hok
      simp only [Except.ok.injEq] at h
      obtain ⟨e1, e2, _, e4⟩ := Sess.repoint_effect st hI i (by omega) _ _ st' h.symm
      exact ⟨hok, e1, e2, e4⟩
    · cases h

/-- `x_new = <expression>`: nothing that existed changes; a result that is not an input field
itself is a new object with a new buffer holding the evaluated mask -/
theorem Sess.build_effect (st st' : Sess) (hI : st.Inv) (p : Prog) (h : st.step (.build p) = .ok st') :
    ∃ m, eval st.mask p = .ok m ∧
      (∀ j, j < st.vars.length → st'.mask j = st.mask j ∧ st'.objOf j = st.objOf j) ∧
      st'.vars.length = st.vars.length + 1 ∧
      (aliasOf p = none → st'.mask st.vars.length = m.force false ∧ st'.objOf st.vars.length = st.objs.length ∧
        st'.addrOf st.vars.length = st.store.length) ∧
      (∀ k, aliasOf p = some k → st'.objOf st.vars.length = st.objOf k ∧ st'.store = st.store) := by
  simp only [Sess.step] at h
  split at h
  · cases h
  · split at h
    · cases h
    · rename_i m hm
      refine ⟨m, hm, ?_⟩
      split at h
      · rename_i k hk
        simp only [Except.ok.injEq] at h; subst h
        refine ⟨fun j hj => ?_, by simp, fun hn => by simp [hk] at hn, fun k' hk' => ?_⟩
        · have hv : (st.vars ++ [st.vars.getD k 0]).getD j 0 = st.vars.getD j 0 := getD_append_lt _ _ _ _ hj
          refine ⟨?_, hv⟩
          unfold Sess.mask Sess.shapeOfVar Sess.addrOf Sess.objOf
          simp only [hv]
        · rw [hk] at hk'; simp only [Option.some.injEq] at hk'; subst hk'
          exact ⟨getD_append_len _ _ _, rfl⟩
      · rename_i hk
        simp only [Except.ok.injEq] at h; subst h
        refine ⟨fun j hj => ?_, by simp, fun _ => ?_, fun k hk' => by rw [hk'] at hk; simp at hk⟩
        · have hv : (st.vars ++ [st.objs.length]).getD j 0 = st.vars.getD j 0 := getD_append_lt _ _ _ _ hj
          have ho : st.vars.getD j 0 < st.objs.length := hI.vars_lt j hj
          refine ⟨?_, hv⟩
          unfold Sess.mask Sess.shapeOfVar Sess.addrOf Sess.objOf
          simp only [hv]
          rw [getD_append_lt _ _ _ _ ho, getD_append_lt _ _ _ _ (hI.addr_lt _ ho)]
        · have hv : (st.vars ++ [st.objs.length]).getD st.vars.length 0 = st.objs.length := getD_append_len _ _ _
          refine ⟨?_, hv, ?_⟩
          · unfold Sess.mask Sess.shapeOfVar Sess.addrOf Sess.objOf
            simp only [hv]
            rw [getD_append_len]
            simp only
            rw [getD_append_len]
            rfl
          · unfold Sess.addrOf Sess.objOf
            simp only [hv]
            rw [getD_append_len]

/-! ## without unary plus no two variables name one object -/

def Sess.Distinct (st : Sess) : Prop :=
  ∀ i j, i < st.vars.length → j < st.vars.length → st.objOf i = st.objOf j → i = j

theorem Sess.init_distinct (leaves : List Mask) : (Sess.init leaves).Distinct := by
  intro i j hi hj h
  simp only [Sess.init, List.length_range] at hi hj
  unfold Sess.objOf Sess.init at h
  simp only at h
  rw [List.getD_eq_getElem?_getD, List.getElem?_range hi, List.getD_eq_getElem?_getD, List.getElem?_range hj] at h
  exact h

theorem Sess.step_distinct (st st' : Sess) (s : Stmt) (hI : st.Inv) (hD : st.Distinct) (hs : s.aliases = false)
    (h : st.step s = .ok st') : st'.Distinct := by
  cases s with
  | build p =>
    obtain ⟨m, _, e1, e2, e3, _⟩ := Sess.build_effect st st' hI p h
    have hn : aliasOf p = none := by
      simp only [Stmt.aliases] at hs
      cases hp : aliasOf p with
      | none => rfl
      | some k => rw [hp] at hs; simp at hs
    obtain ⟨_, e4, _⟩ := e3 hn
    intro i j hi hj he
    rw [e2] at hi hj
    by_cases ci : i < st.vars.length <;> by_cases cj : j < st.vars.length
    · rw [(e1 i ci).2, (e1 j cj).2] at he; exact hD i j ci cj he
    · have : j = st.vars.length := by omega
      subst this
      rw [(e1 i ci).2, e4] at he
      have := hI.vars_lt i ci
      unfold Sess.objOf at he; omega
    · have : i = st.vars.length := by omega
      subst this
      rw [(e1 j cj).2, e4] at he
      have := hI.vars_lt j cj
      unfold Sess.objOf at he; omega
    · omega
  | assign i s =>
    obtain ⟨_, _, _, _, _, hv⟩ := Sess.assign_effect st st' hI i s h
    intro a b ha hb he
    unfold Sess.objOf at he
    rw [hv] at ha hb he
    exact hD a b ha hb he
  | rotI i a b k =>
    obtain ⟨_, _, _, hv⟩ := Sess.rotI_effect st st' hI i a b k h
    intro x y hx hy he
    unfold Sess.objOf at he
    rw [hv] at hx hy he
    exact hD x y hx hy he
  | poke i pos v =>
    simp only [Sess.step] at h
    split at h
    · cases h
    · simp only [Except.ok.injEq] at h; subst h
      exact hD

theorem Sess.run_distinct (h : List Stmt) : ∀ (st st' : Sess), st.Inv → st.Distinct →
    (h.all fun s => !s.aliases) = true → st.run h = .ok st' → st'.Distinct := by
  induction h with
  | nil => intro st st' _ hD _ hr; simp only [Sess.run, Except.ok.injEq] at hr; subst hr; exact hD
  | cons s rest ih =>
    intro st st' hI hD ha hr
    simp only [List.all_cons, Bool.and_eq_true, Bool.not_eq_true'] at ha
    simp only [Sess.run] at hr
    split at hr
    · cases hr
    · rename_i st1 hs
      exact ih st1 st' (Sess.step_inv st st1 s hI hs) (Sess.step_distinct st st1 s hI hD ha.1 hs)
        (by simpa using ha.2) hr

/-! ## a variable nobody targets keeps its mask through a whole history -/

theorem Sess.step_vars_len (st st' : Sess) (s : Stmt) (hI : st.Inv) (h : st.step s = .ok st') :
    st.vars.length ≤ st'.vars.length := by
  cases s with
  | build p => obtain ⟨_, _, _, e, _⟩ := Sess.build_effect st st' hI p h; omega
  | assign i sp => obtain ⟨_, _, _, _, _, e⟩ := Sess.assign_effect st st' hI i sp h; rw [e]
  | rotI i a b k => obtain ⟨_, _, _, e⟩ := Sess.rotI_effect st st' hI i a b k h; rw [e]
  | poke i pos v =>
    simp only [Sess.step] at h
    split at h
    · cases h
    · simp only [Except.ok.injEq] at h; subst h; exact Nat.le_refl _

/-- a statement that is not an in-place change of variable `j` (and no two variables name one
object) leaves the mask of `j` as it was -/
theorem Sess.step_keeps (st st' : Sess) (s : Stmt) (hI : st.Inv) (hD : st.Distinct) (j : Nat) (hj : j < st.vars.length)
    (ht : s.target ≠ some j) (h : st.step s = .ok st') : st'.mask j = st.mask j := by
  cases s with
  | build p => obtain ⟨_, _, e, _⟩ := Sess.build_effect st st' hI p h; exact (e j hj).1
  | assign i sp =>
    obtain ⟨_, _, e, _⟩ := Sess.assign_effect st st' hI i sp h
    have hi : i < st.vars.length := by
      simp only [Sess.step] at h
      split at h
      · cases h
      · omega
    exact e j hj fun he => ht (by rw [hD j i hj hi he]; rfl)
  | rotI i a b k =>
    obtain ⟨_, e, _⟩ := Sess.rotI_effect st st' hI i a b k h
    have hi : i < st.vars.length := by
      simp only [Sess.step] at h
      split at h
      · cases h
      · omega
    exact e j hj fun he => ht (by rw [hD j i hj hi he]; rfl)
  | poke i pos v =>
    have hi : i < st.vars.length := by
      simp only [Sess.step] at h
      split at h
      · cases h
      · omega
    exact Sess.poke_other st st' hI i pos v h j hj fun he => ht (by rw [hD j i hj hi he]; rfl)

theorem Sess.run_keeps (h : List Stmt) (j : Nat) : ∀ (st st' : Sess), st.Inv → st.Distinct → j < st.vars.length →
    (h.all fun s => !s.aliases && decide (s.target ≠ some j)) = true → st.run h = .ok st' →
    st'.mask j = st.mask j := by
  induction h with
  | nil => intro st st' _ _ _ _ hr; simp only [Sess.run, Except.ok.injEq] at hr; subst hr; rfl
  | cons s rest ih =>
    intro st st' hI hD hj ha hr
    simp only [List.all_cons, Bool.and_eq_true, Bool.not_eq_true', decide_eq_true_eq] at ha
    simp only [Sess.run] at hr
    split at hr
    · cases hr
    · rename_i st1 hs
      have hI1 := Sess.step_inv st st1 s hI hs
      have hD1 := Sess.step_distinct st st1 s hI hD ha.1.1 hs
      have hl := Sess.step_vars_len st st1 s hI hs
      rw [ih st1 st' hI1 hD1 (by omega) (by simpa using ha.2) hr]
      exact Sess.step_keeps st st1 s hI hD j hj ha.1.2 hs

/-! ## the constructor route: handing a Boolean array to the setter stores a copy of it -/

theorem setMask_asArr (m : Mask) : setMask m.shape (.arr (asArr m)) = .ok (own m) := by
  have hs : (asArr m).shape = m.shape := rfl
  simp only [setMask, if_pos hs]
  have : (⟨m.shape, fun j => decide ((asArr m).get j ≠ 0)⟩ : Mask) = m := by
    have hf : (fun j => decide ((asArr m).get j ≠ 0)) = m.get := by
      funext j
      show decide ((if m.get j then (1 : Rat) else 0) ≠ 0) = m.get j
      cases m.get j <;> simp
    rw [hf]
  rw [this]

/-! ## a field as validity (the route `resample` takes) -/

theorem lookupIdx_inRange (s : List Nat) (cs xs : Nat → Nat → Rat) (j : List Nat)
    (hpos : ∀ b, b < s.length → 0 < s.getD b 0) : inRange s (lookupIdx s cs xs j) = true := by
  unfold lookupIdx
  apply inRange_tab _ _ _ rfl
  intro b hb
  have := nearestUpTo_le (cs b) (xs b (j.getD b 0)) (s.getD b 0 - 1)
  have := hpos b hb
  omega

/-- centres of both meshes on the same edges: the lookup is the nearest-cell map of `resample` -/
theorem lookupIdx_same_region (s n' : List Nat) (lo E : Nat → Rat) (hE : ∀ b, 0 < E b) (j : List Nat) :
    lookupIdx s (fun b k => lo b + ((k : Rat) + 1 / 2) * (E b / (s.getD b 0 : Rat)))
      (fun b k => lo b + ((k : Rat) + 1 / 2) * (E b / (n'.getD b 0 : Rat))) j
      = tab s.length fun b => nearest (s.getD b 0) (n'.getD b 0) (j.getD b 0) := by
  unfold lookupIdx
  apply tab_congr
  intro b _
  unfold nearest
  simp only [centre_affine]
  exact nearestUpTo_affine (centre01 (s.getD b 0)) (centre01 (n'.getD b 0) (j.getD b 0)) (lo b) (E b) (hE b) _

theorem setMask_lookup_resample (m : Mask) (n' : List Nat) (hl : m.shape.length = n'.length) (lo E : Nat → Rat)
    (hE : ∀ b, 0 < E b) :
    setMask n' (.lookup m true (fun b k => lo b + ((k : Rat) + 1 / 2) * (E b / (m.shape.getD b 0 : Rat)))
        (fun b k => lo b + ((k : Rat) + 1 / 2) * (E b / (n'.getD b 0 : Rat))))
      = .ok (own ((MapOp.resample n').apply m false)) := by
  simp only [setMask, Bool.not_true, Bool.false_eq_true, if_false, hl, ne_eq, not_true_eq_false]
  congr 2
  show (⟨n', _⟩ : Mask) = ⟨n', _⟩
  congr 1
  funext j
  rw [lookupIdx_same_region m.shape n' lo E hE j]
  rfl

end DFV.C08
