import DFV.Lemmas.C11Trip
import DFV.Lemmas.C11Irf
/-!
C11: acceptance of the inverse transforms as equivalences — what `Mesh.ifftn` requires of its
input mesh and shape, what `Field.ifftn` / `Field.irfftn` require of a k-space field that did
not come from `fftn`; the mesh `Mesh.ifftn` returns on ANY valid k-mesh; forward ∘ inverse at
field level.
-/
namespace DFV.C11
open DFV

/-! ### the counts -/

theorem ifftShape_some_ok_iff (m : Mesh) (rfft : Bool) (s s' : List Nat) :
    ifftShape m rfft (some s) = .ok s' ↔
      s' = s ∧ s.length = m.ndim ∧ (∀ a, a < m.ndim - 1 → s.getD a 0 = m.nAt a) ∧
        s.getD (m.ndim - 1) 0 / 2 + 1 = m.nAt (m.ndim - 1) := by
  rw [ifftShape_some]
  constructor
  · intro h
    by_cases h1 : s.length ≠ m.ndim
    · rw [if_pos h1] at h; cases h
    · rw [if_neg h1] at h
      cases h2 : allLt (m.ndim - 1) (fun a => s.getD a 0 == m.nAt a) with
      | false => rw [h2] at h; simp at h
      | true =>
        rw [h2] at h
        simp only [Bool.not_true, Bool.false_eq_true, if_false] at h
        by_cases h3 : s.getD (m.ndim - 1) 0 / 2 + 1 ≠ m.nAt (m.ndim - 1)
        · rw [if_pos h3] at h; cases h
        · rw [if_neg h3] at h
          injection h with h
          refine ⟨h.symm, by omega, ?_, by omega⟩
          intro a ha
          have := (allLt_iff _ _).mp h2 a ha
          simpa using this
  · rintro ⟨rfl, h1, h2, h3⟩
    have h2' : allLt (m.ndim - 1) (fun a => s'.getD a 0 == m.nAt a) = true := by
      rw [allLt_iff]; intro a ha; rw [beq_iff_eq]; exact h2 a ha
    rw [if_neg (by omega), h2']
    simp only [Bool.not_true, Bool.false_eq_true, if_false]
    rw [if_neg (by omega)]

theorem ifftShape_length (m : Mesh) (rfft : Bool) (shape : Option (List Nat)) (s : List Nat)
    (hn : m.n.length = m.ndim) (h : ifftShape m rfft shape = .ok s) : s.length = m.ndim := by
  cases shape with
  | some s0 =>
    have := (ifftShape_some_ok_iff m rfft s0 s).mp h
    rw [this.1]; exact this.2.1
  | none =>
    rw [ifftShape_none] at h
    injection h with h
    rw [← h]
    split
    · rw [setAt_length]; exact hn
    · exact hn

/-- the default counts are positive on every valid mesh -/
theorem ifftShape_none_pos (m : Mesh) (hm : m.Inv) (rfft : Bool) (s : List Nat)
    (h : ifftShape m rfft none = .ok s) (a : Nat) (ha : a < m.ndim) : 0 < s.getD a 0 := by
  rw [ifftShape_none] at h
  injection h with h
  rw [← h]
  split
  · rename_i hc
    rw [setAt_getD]
    split
    · have hl := hm.2.2 _ (last_lt m hm)
      simp only [Bool.and_eq_true, bne_iff_ne, ne_eq] at hc
      omega
    · exact hm.2.2 a ha
  · exact hm.2.2 a ha

/-- the half shape of the counts `Mesh.ifftn(rfft=True, …)` works with is the k-mesh's own shape -/
theorem ifftShape_half (m : Mesh) (hm : m.Inv) (shape : Option (List Nat)) (s : List Nat)
    (h : ifftShape m true shape = .ok s) : halfShape s = m.n := by
  have hl := last_lt m hm
  have hlen := ifftShape_length m true shape s hm.2.1 h
  have hnl : m.n.length = m.ndim := hm.2.1
  unfold halfShape
  symm
  apply eq_tab_of_getD m.n _ _ 0 (by rw [hlen]; exact hnl)
  intro a ha
  rw [hlen] at ha
  cases shape with
  | some s0 =>
    obtain ⟨rfl, _, h2, h3⟩ := (ifftShape_some_ok_iff m true s0 s).mp h
    by_cases hlast : a + 1 = s.length
    · rw [if_pos hlast]
      have : a = m.ndim - 1 := by omega
      subst this; exact h3.symm
    · rw [if_neg hlast]; exact (h2 a (by omega)).symm
  | none =>
    rw [ifftShape_none] at h
    injection h with h
    subst h
    by_cases h1 : m.nAt (m.ndim - 1) = 1
    · have hc : (true && (m.nAt (m.ndim - 1) != 1)) = false := by simp [h1]
      rw [hc] at hlen ⊢
      simp only [Bool.false_eq_true, if_false] at hlen ⊢
      by_cases hlast : a + 1 = m.n.length
      · rw [if_pos hlast]
        have : a = m.ndim - 1 := by omega
        subst this
        show m.nAt (m.ndim - 1) = m.nAt (m.ndim - 1) / 2 + 1
        rw [h1]
      · rw [if_neg hlast]
    · have hc : (true && (m.nAt (m.ndim - 1) != 1)) = true := by simp [h1]
      rw [hc] at hlen ⊢
      simp only [if_true] at hlen ⊢
      rw [setAt_length, setAt_getD]
      have hp := hm.2.2 _ hl
      by_cases hlast : a + 1 = m.n.length
      · rw [if_pos hlast]
        have : a = m.ndim - 1 := by omega
        subst this
        rw [if_pos ⟨rfl, by omega⟩]
        show m.nAt (m.ndim - 1) = _
        omega
      · rw [if_neg hlast, if_neg (by omega)]

/-! ### `Mesh.ifftn`: acceptance as an equivalence, and the result on any valid k-mesh -/

theorem region_mk_dup (p1 p2 : List Rat) (dims : List String) (units : Option (List String)) (tol : Rat)
    (hd : hasDup dims = true) : ∃ e, Region.mk? p1 p2 (some dims) units tol = .error e := by
  have hdo : Region.dimsOk p1.length (some dims) = .error .value := by
    show (if dims.length ≠ p1.length then Except.error Err.value
      else if hasDup dims = true then Except.error Err.value else Except.ok dims) = _
    rw [hd]
    split <;> rfl
  unfold Region.mk?
  split
  · exact ⟨_, rfl⟩
  · split
    · exact ⟨_, rfl⟩
    · rw [hdo]; exact ⟨_, rfl⟩

/-- what a successful `Mesh.ifftn` call implies about its inputs -/
theorem meshIfftn_inv (k : Mesh) (rfft : Bool) (shape : Option (List Nat)) (b : Mesh)
    (h : meshIfftn k rfft shape = .ok b) :
    ∃ s, ifftShape k rfft shape = .ok s ∧ s.any (· = 0) = false ∧
      hasDup (k.region.dims.map (stripPre "k_")) = false := by
  unfold meshIfftn at h
  cases hs : ifftShape k rfft shape with
  | error e => rw [hs] at h; cases h
  | ok s =>
    rw [hs] at h
    simp only at h
    cases h0 : s.any (· = 0) with
    | true => rw [h0] at h; simp at h
    | false =>
      refine ⟨s, rfl, h0, ?_⟩
      cases hd : hasDup (k.region.dims.map (stripPre "k_")) with
      | false => rfl
      | true =>
        exfalso
        rw [h0] at h
        simp only [Bool.false_eq_true, if_false] at h
        obtain ⟨e, he⟩ := region_mk_dup (tab k.ndim (rP1 k s)) (tab k.ndim (rP2 k s)) _
          (some (k.region.units.map stripUnit)) k.region.tol hd
        rw [he] at h
        cases h

theorem any_zero_false (s : List Nat) (h : s.any (· = 0) = false) (a : Nat) (ha : a < s.length) : 0 < s.getD a 0 := by
  rw [List.getD_eq_getElem?_getD, List.getElem?_eq_getElem ha, Option.getD_some]
  have hm : s[a] ∈ s := List.getElem_mem ha
  rcases Nat.eq_zero_or_pos s[a] with h0 | h0
  · exfalso
    have : s.any (· = 0) = true := by
      rw [List.any_eq_true]; exact ⟨_, hm, by simp [h0]⟩
    rw [h] at this; cases this
  · exact h0

/-- **`Mesh.ifftn` on a valid mesh: accepted iff** the counts derived from `shape` are accepted
and positive and no two dimension names coincide once the prefix `k_` is stripped; the result is
then `rMesh k s` -/
theorem meshIfftn_ok_iff (k : Mesh) (hk : k.Inv) (rfft : Bool) (shape : Option (List Nat)) (b : Mesh) :
    meshIfftn k rfft shape = .ok b ↔
      ∃ s, ifftShape k rfft shape = .ok s ∧ (∀ a, a < k.ndim → 0 < s.getD a 0) ∧
        hasDup (k.region.dims.map (stripPre "k_")) = false ∧ b = rMesh k s := by
  constructor
  · intro h
    obtain ⟨s, hs, h0, hd⟩ := meshIfftn_inv k rfft shape b h
    have hl := ifftShape_length k rfft shape s hk.2.1 hs
    have hp : ∀ a, a < k.ndim → 0 < s.getD a 0 := fun a ha => any_zero_false s h0 a (by omega)
    have := meshIfftn_ok k rfft shape s hk hs hl hp hd
    rw [this] at h
    injection h with h
    exact ⟨s, hs, hp, hd, h.symm⟩
  · rintro ⟨s, hs, hp, hd, rfl⟩
    exact meshIfftn_ok k rfft shape s hk hs (ifftShape_length k rfft shape s hk.2.1 hs) hp hd

/-! ### geometry of `rMesh k s` for any valid `k` -/

theorem rMesh_ndim (k : Mesh) (s : List Nat) : (rMesh k s).ndim = k.ndim := by
  simp [rMesh, Mesh.ndim, Region.ndim]

theorem rMesh_edge (k : Mesh) (s : List Nat) (a : Nat) (ha : a < k.ndim) :
    (rMesh k s).region.edge a = 1 / k.cellAt a := by
  simp only [rMesh, Region.edge, Region.lo, Region.hi]
  rw [getD_tab _ _ _ _ ha, getD_tab _ _ _ _ ha]
  ring

theorem rMesh_cellAt (k : Mesh) (s : List Nat) (a : Nat) (ha : a < k.ndim) :
    (rMesh k s).cellAt a = 1 / ((s.getD a 0 : Rat) * k.cellAt a) := by
  unfold Mesh.cellAt
  rw [rMesh_edge k s a ha]
  show 1 / k.cellAt a / ((s.getD a 0 : Nat) : Rat) = _
  rw [div_div, mul_comm]
  rfl

theorem rMesh_inv (k : Mesh) (hk : k.Inv) (s : List Nat) (hl : s.length = k.ndim)
    (hp : ∀ a, a < k.ndim → 0 < s.getD a 0) (hd : hasDup (k.region.dims.map (stripPre "k_")) = false) :
    (rMesh k s).Inv := by
  have hk' := hk
  obtain ⟨⟨hpos, hmax, hdl, hul, _, _⟩, _, _⟩ := hk'
  have hnd : k.ndim = k.region.pmin.length := rfl
  refine ⟨⟨by simp [rMesh]; omega, by simp [rMesh], by simp [rMesh, hdl, hnd], by simp [rMesh, hul, hnd], hd, ?_⟩,
    by simp [rMesh, Region.ndim, hl], ?_⟩
  · intro a ha
    have ha' : a < k.ndim := by simpa [rMesh] using ha
    have hc := cell_pos k hk a ha'
    have : (rMesh k s).region.hi a - (rMesh k s).region.lo a = 1 / k.cellAt a := rMesh_edge k s a ha'
    have h1 : 0 < 1 / k.cellAt a := by positivity
    linarith
  · intro a ha
    rw [rMesh_ndim] at ha
    exact hp a ha

/-! ### `_fftn` (inverse direction): acceptance as an equivalence -/

/-- if the images of a list are pairwise different, the map is injective on the list -/
theorem inj_of_hasDup_map (f : String → String) (l : List String) (h : hasDup (l.map f) = false) :
    ∀ u ∈ l, ∀ v ∈ l, f u = f v → u = v := by
  induction l with
  | nil => intro u hu; cases hu
  | cons x xs ih =>
    simp only [List.map_cons, hasDup_cons] at h
    obtain ⟨hx, hxs⟩ := h
    have hnot : ∀ v ∈ xs, f x ≠ f v := by
      intro v hv e
      exact hx (List.mem_map.mpr ⟨v, hv, e.symm⟩)
    intro u hu v hv e
    rcases List.mem_cons.mp hu with rfl | hu'
    · rcases List.mem_cons.mp hv with rfl | hv'
      · rfl
      · exact absurd e (hnot v hv')
    · rcases List.mem_cons.mp hv with rfl | hv'
      · exact absurd e.symm (hnot u hu')
      · exact ih hxs u hu' v hv' e

section
variable {R : Type}

/-- **`_fftn(ifftn=True)` on a valid field: accepted iff the labels stay distinct once the prefix
`ft_` is stripped** (data of the mesh's shape) -/
theorem finish_inv_ok_iff (f : CF R) (hf : CFInv f) (mesh : Mesh) (data : NDA (List R))
    (hshape : data.shape = mesh.n) :
    (∃ g, finish f mesh data true = .ok g) ↔
      ∀ vs, f.vdims = some vs → hasDup (vs.map (stripPre "ft_")) = false := by
  constructor
  · rintro ⟨g, h⟩ vs hv
    have hne : vs ≠ [] := by
      rcases hf.labels with ⟨hv', _, _⟩ | ⟨vs', hv', hne, _⟩
      · rw [hv'] at hv; cases hv
      · rw [hv'] at hv; injection hv with hv; subst hv; exact hne
    unfold finish at h
    rw [hv] at h
    simp only [if_true] at h
    obtain ⟨_, _, _, _, _, hvd, _⟩ := mkCF_ok h
    rcases vdimsSetter_some _ _ _ hvd with ⟨he, _⟩ | ⟨_, _, hd, _⟩
    · exact absurd (List.map_eq_nil_iff.mp he) hne
    · exact hd
  · intro h
    exact ⟨_, finish_ok_of_inv f hf mesh data true hshape
      (fun vs hv _ => ⟨h vs hv, inj_of_hasDup_map _ vs (h vs hv)⟩)⟩

end

section
variable {R : Type} [Zero R] [One R] [Add R] [Mul R]

theorem ifftShape_false_none (m : Mesh) : ifftShape m false none = .ok m.n := by
  simp [ifftShape]

/-- the result of `Field.ifftn` when it is accepted -/
def ifftnResult (ρs : List (Root R)) (f : CF R) : CF R :=
  { mesh := rMesh f.mesh f.mesh.n, nvdim := f.nvdim, data := ifftnArr ρs f.nvdim f.data,
    vdims := f.vdims.map fun vs => vs.map (stripPre "ft_"),
    vmap := f.vmap.map fun p => (stripPre "ft_" p.1, stripPre "k_" p.2), unit := f.unit }

/-- **`Field.ifftn` on a valid field (any k-space field, not only results of `fftn`): accepted
iff** no two dimension names coincide once `k_` is stripped and no two labels coincide once `ft_`
is stripped; the result is then `ifftnResult` -/
theorem ifftn_ok_iff (ρs : List (Root R)) (f : CF R) (hf : CFInv f) (g : CF R) :
    ifftn ρs f = .ok g ↔
      hasDup (f.mesh.region.dims.map (stripPre "k_")) = false ∧
      (∀ vs, f.vdims = some vs → hasDup (vs.map (stripPre "ft_")) = false) ∧ g = ifftnResult ρs f := by
  have hpos : ∀ a, a < f.mesh.ndim → 0 < f.mesh.n.getD a 0 := hf.mesh.2.2
  constructor
  · intro h
    unfold ifftn at h
    cases hm : meshIfftn f.mesh false none with
    | error e => rw [hm] at h; cases h
    | ok k =>
      rw [hm] at h
      simp only at h
      obtain ⟨s, hs, _, hd, rfl⟩ := (meshIfftn_ok_iff f.mesh hf.mesh false none k).mp hm
      rw [ifftShape_false_none] at hs
      injection hs with hs
      subst hs
      have hshape : (ifftnArr ρs f.nvdim f.data).shape = (rMesh f.mesh f.mesh.n).n := hf.shape
      have hl := (finish_inv_ok_iff f hf _ _ hshape).mp ⟨g, h⟩
      refine ⟨hd, hl, ?_⟩
      rw [finish_ok_of_inv f hf _ _ true hshape
        (fun vs hv _ => ⟨hl vs hv, inj_of_hasDup_map _ vs (hl vs hv)⟩)] at h
      injection h with h
      rw [← h]
      simp only [if_true]
      rfl
  · rintro ⟨hd, hl, rfl⟩
    unfold ifftn
    rw [(meshIfftn_ok_iff f.mesh hf.mesh false none _).mpr
      ⟨f.mesh.n, ifftShape_false_none f.mesh, hpos, hd, rfl⟩]
    simp only
    rw [finish_ok_of_inv f hf _ _ true (by exact hf.shape)
      (fun vs hv _ => ⟨hl vs hv, inj_of_hasDup_map _ vs (hl vs hv)⟩)]
    simp only [if_true]
    rfl

/-- the result of `Field.irfftn` for output counts `s` when it is accepted -/
def irfftnResult (conj : R → R) (ρs : List (Root R)) (f : CF R) (s : List Nat) : CF R :=
  { mesh := rMesh f.mesh s, nvdim := f.nvdim, data := irfftnArr conj ρs f.nvdim s f.data,
    vdims := f.vdims.map fun vs => vs.map (stripPre "ft_"),
    vmap := f.vmap.map fun p => (stripPre "ft_" p.1, stripPre "k_" p.2), unit := f.unit }

/-- **`Field.irfftn(shape)` on a valid field: accepted iff** the counts derived from `shape` are
accepted and positive, and dimension names and labels stay distinct once stripped -/
theorem irfftn_ok_iff (conj : R → R) (ρs : List (Root R)) (f : CF R) (hf : CFInv f) (shape : Option (List Nat))
    (g : CF R) :
    irfftn conj ρs f shape = .ok g ↔
      ∃ s, ifftShape f.mesh true shape = .ok s ∧ (∀ a, a < f.mesh.ndim → 0 < s.getD a 0) ∧
        hasDup (f.mesh.region.dims.map (stripPre "k_")) = false ∧
        (∀ vs, f.vdims = some vs → hasDup (vs.map (stripPre "ft_")) = false) ∧
        g = irfftnResult conj ρs f s := by
  constructor
  · intro h
    unfold irfftn at h
    cases hm : meshIfftn f.mesh true shape with
    | error e => rw [hm] at h; cases h
    | ok k =>
      rw [hm] at h
      simp only at h
      obtain ⟨s, hs, hp, hd, rfl⟩ := (meshIfftn_ok_iff f.mesh hf.mesh true shape k).mp hm
      have hshape : (irfftnArr conj ρs f.nvdim (rMesh f.mesh s).n f.data).shape = (rMesh f.mesh s).n := rfl
      have hl := (finish_inv_ok_iff f hf _ _ hshape).mp ⟨g, h⟩
      refine ⟨s, hs, hp, hd, hl, ?_⟩
      rw [finish_ok_of_inv f hf _ _ true hshape
        (fun vs hv _ => ⟨hl vs hv, inj_of_hasDup_map _ vs (hl vs hv)⟩)] at h
      injection h with h
      rw [← h]
      simp only [if_true]
      rfl
  · rintro ⟨s, hs, hp, hd, hl, rfl⟩
    unfold irfftn
    rw [(meshIfftn_ok_iff f.mesh hf.mesh true shape _).mpr ⟨s, hs, hp, hd, rfl⟩]
    simp only
    rw [finish_ok_of_inv f hf _ _ true (by rfl)
      (fun vs hv _ => ⟨hl vs hv, inj_of_hasDup_map _ vs (hl vs hv)⟩)]
    simp only [if_true]
    rfl

/-- the library's `irfftn` is the plain one on the field whose half-spectrum planes were replaced
by their Hermitian part -/
theorem irfftnNP_eq (conj : R → R) (half : R) (ρs : List (Root R)) (f : CF R) (shape : Option (List Nat))
    (k : Mesh) (hk : meshIfftn f.mesh true shape = .ok k) :
    irfftnNP conj half ρs f shape
      = irfftn conj ρs { f with data := symArr conj half f.nvdim k.n f.data } shape := by
  unfold irfftnNP irfftn
  simp only [hk]
  rfl

/-- acceptance of the library's `irfftn` does not depend on the data -/
theorem irfftnNP_ok_iff (conj : R → R) (half : R) (ρs : List (Root R)) (f : CF R) (hf : CFInv f)
    (shape : Option (List Nat)) (g : CF R) :
    irfftnNP conj half ρs f shape = .ok g ↔
      ∃ s, ifftShape f.mesh true shape = .ok s ∧ (∀ a, a < f.mesh.ndim → 0 < s.getD a 0) ∧
        hasDup (f.mesh.region.dims.map (stripPre "k_")) = false ∧
        (∀ vs, f.vdims = some vs → hasDup (vs.map (stripPre "ft_")) = false) ∧
        g = { irfftnResult conj ρs f s with data := irfftnArrNP conj half ρs f.nvdim s f.data } := by
  cases hm : meshIfftn f.mesh true shape with
  | error e =>
    constructor
    · intro h
      unfold irfftnNP at h
      rw [hm] at h; cases h
    · rintro ⟨s, hs, hp, hd, _, _⟩
      rw [(meshIfftn_ok_iff f.mesh hf.mesh true shape _).mpr ⟨s, hs, hp, hd, rfl⟩] at hm
      cases hm
  | ok k =>
    rw [irfftnNP_eq conj half ρs f shape k hm]
    have hf' : CFInv ({ f with data := symArr conj half f.nvdim k.n f.data } : CF R) :=
      ⟨hf.mesh, hf.shape, hf.nv, hf.labels⟩
    rw [irfftn_ok_iff conj ρs _ hf' shape g]
    obtain ⟨s0, hs0, _, _, rfl⟩ := (meshIfftn_ok_iff f.mesh hf.mesh true shape k).mp hm
    constructor
    · rintro ⟨s, hs, hp, hd, hl, rfl⟩
      refine ⟨s, hs, hp, hd, hl, ?_⟩
      have : s = s0 := by
        have h1 : ifftShape f.mesh true shape = .ok s := hs
        rw [hs0] at h1; injection h1 with h1; exact h1.symm
      subst this
      rfl
    · rintro ⟨s, hs, hp, hd, hl, rfl⟩
      refine ⟨s, hs, hp, hd, hl, ?_⟩
      have : s = s0 := by
        rw [hs0] at hs; injection hs with hs; exact hs.symm
      subst this
      rfl

end

end DFV.C11
