import DFV.Lemmas.C18Values
import DFV.Model.C18Ext
/-! The edge-padded band of the interpolator (C18): between a face of the region (more exactly:
the padded node `1e-9` cell outside it) and the first / last cell centre the interpolant does not
depend on the coordinate normal to the face — it continues the boundary cells' values. -/
namespace DFV.C18
open DFV DFV.Mesh

theorem a_cases' (a : Nat) (ha : a < 3) : a = 0 ∨ a = 1 ∨ a = 2 := by omega

/-- one linear interpolation step -/
def lin (t a b : Rat) : Rat := (1 - t) * a + t * b

theorem lin_same (t a : Rat) : lin t a a = a := by unfold lin; ring
theorem lin_zero (a b : Rat) : lin 0 a b = a := by unfold lin; ring

/-- 1-d interpolation of samples `V` on the nodes `g 0 … g (m+1)` -/
def lin1 (g : Nat → Rat) (m : Nat) (V : Nat → Rat) (x : Rat) : Rat :=
  lin (frac g (findIdx g x m) x) (V (findIdx g x m)) (V (findIdx g x m + 1))

/-- `x` moved into `[g 1, g m]` -/
def clampG (g : Nat → Rat) (m : Nat) (x : Rat) : Rat := if x < g 1 then g 1 else if g m < x then g m else x

theorem frac_node (g : Nat → Rat) (i : Nat) : frac g i (g i) = 0 := by unfold frac; simp

/-- with edge padding (`V 0 = V 1`, `V m = V (m+1)`) the 1-d interpolant is constant outside
`[g 1, g m]` -/
theorem lin1_clamp (g : Nat → Rat) (m : Nat) (hm : 1 ≤ m) (hs : ∀ j, j ≤ m → g j < g (j + 1)) (V : Nat → Rat)
    (h0 : V 0 = V 1) (h1 : V m = V (m + 1)) (x : Rat) :
    lin1 g m V (clampG g m x) = lin1 g m V x := by
  unfold clampG
  by_cases c1 : x < g 1
  · rw [if_pos c1]
    have e : findIdx g x m = 0 := by
      apply findIdx_eq _ _ _ _ (by omega) (Or.inr rfl)
      intro j hj hjm
      by_cases e1 : j = 1
      · subst e1; exact c1
      · exact lt_trans c1 (mono_of_step g m hs 1 j (by omega) (by omega))
    unfold lin1
    rw [e, findIdx_at_node g m hs 1 hm, frac_node, lin_zero, h0, lin_same]
  · rw [if_neg c1]
    by_cases c2 : g m < x
    · rw [if_pos c2]
      have e : findIdx g x m = m := by
        apply findIdx_eq _ _ _ _ (le_refl _) (Or.inl c2.le)
        intro j hj hjm; omega
      unfold lin1
      rw [e, findIdx_at_node g m hs m (le_refl _), frac_node, lin_zero, ← h1, lin_same]
    · rw [if_neg c2]

theorem clampG_inBounds (g : Nat → Rat) (m : Nat) (hm : 1 ≤ m) (hs : ∀ j, j ≤ m → g j < g (j + 1)) (x : Rat) :
    inBounds g m (clampG g m x) = true := by
  have a0 : g 0 < g 1 := hs 0 (by omega)
  have a1 : g m < g (m + 1) := hs m (le_refl _)
  have a2 : g 1 ≤ g m := by
    by_cases e : m = 1
    · subst e; exact le_refl _
    · exact (mono_of_step g m hs 1 m (by omega) (by omega)).le
  unfold inBounds clampG
  simp only [Bool.and_eq_true, decide_eq_true_eq]
  split
  · constructor <;> linarith
  · split
    · constructor <;> linarith
    · constructor <;> linarith

/-- regrouping of the eight-corner sum along each axis -/
theorem sum8_lin0 (t0 t1 t2 : Rat) (W : Nat → Nat → Nat → Rat) :
    sum8 t0 t1 t2 W = lin t0 (lin t1 (lin t2 (W 0 0 0) (W 0 0 1)) (lin t2 (W 0 1 0) (W 0 1 1)))
      (lin t1 (lin t2 (W 1 0 0) (W 1 0 1)) (lin t2 (W 1 1 0) (W 1 1 1))) := by
  unfold sum8 wgt lin; simp; ring

theorem sum8_lin1 (t0 t1 t2 : Rat) (W : Nat → Nat → Nat → Rat) :
    sum8 t0 t1 t2 W = lin t1 (lin t0 (lin t2 (W 0 0 0) (W 0 0 1)) (lin t2 (W 1 0 0) (W 1 0 1)))
      (lin t0 (lin t2 (W 0 1 0) (W 0 1 1)) (lin t2 (W 1 1 0) (W 1 1 1))) := by
  unfold sum8 wgt lin; simp; ring

theorem sum8_lin2 (t0 t1 t2 : Rat) (W : Nat → Nat → Nat → Rat) :
    sum8 t0 t1 t2 W = lin t2 (lin t0 (lin t1 (W 0 0 0) (W 0 1 0)) (lin t1 (W 1 0 0) (W 1 1 0)))
      (lin t0 (lin t1 (W 0 0 1) (W 0 1 1)) (lin t1 (W 1 0 1) (W 1 1 1))) := by
  unfold sum8 wgt lin; simp; ring

/-- edge padding of a sample array on the three axes -/
structure Padded3 (m0 m1 m2 : Nat) (W : Nat → Nat → Nat → Rat) : Prop where
  a0 : ∀ j k, W 0 j k = W 1 j k
  b0 : ∀ j k, W m0 j k = W (m0 + 1) j k
  a1 : ∀ i k, W i 0 k = W i 1 k
  b1 : ∀ i k, W i m1 k = W i (m1 + 1) k
  a2 : ∀ i j, W i j 0 = W i j 1
  b2 : ∀ i j, W i j m2 = W i j (m2 + 1)

theorem trilin_clamp0 (g0 g1 g2 : Nat → Rat) (m0 m1 m2 : Nat) (hm : 1 ≤ m0) (hs : ∀ j, j ≤ m0 → g0 j < g0 (j + 1))
    (W : Nat → Nat → Nat → Rat) (hW : Padded3 m0 m1 m2 W) (p : V3) (hb : inBounds g0 m0 p.x = true) :
    trilin g0 g1 g2 m0 m1 m2 W ⟨clampG g0 m0 p.x, p.y, p.z⟩ = trilin g0 g1 g2 m0 m1 m2 W p := by
  unfold trilin locate
  simp only
  rw [clampG_inBounds g0 m0 hm hs, hb]
  by_cases hr : (inBounds g1 m1 p.y && inBounds g2 m2 p.z) = true
  · simp only [Bool.true_and, hr, if_true, interpAt]
    rw [sum8_lin0, sum8_lin0]
    simp only [Nat.add_zero]
    exact lin1_clamp g0 m0 hm hs
      (fun i => lin (frac g1 (findIdx g1 p.y m1) p.y)
        (lin (frac g2 (findIdx g2 p.z m2) p.z) (W i (findIdx g1 p.y m1) (findIdx g2 p.z m2)) (W i (findIdx g1 p.y m1) (findIdx g2 p.z m2 + 1)))
        (lin (frac g2 (findIdx g2 p.z m2) p.z) (W i (findIdx g1 p.y m1 + 1) (findIdx g2 p.z m2)) (W i (findIdx g1 p.y m1 + 1) (findIdx g2 p.z m2 + 1))))
      (by simp only [hW.a0]) (by simp only [hW.b0]) p.x
  · simp only [Bool.true_and, hr, Bool.false_eq_true, if_false]

theorem trilin_clamp1 (g0 g1 g2 : Nat → Rat) (m0 m1 m2 : Nat) (hm : 1 ≤ m1) (hs : ∀ j, j ≤ m1 → g1 j < g1 (j + 1))
    (W : Nat → Nat → Nat → Rat) (hW : Padded3 m0 m1 m2 W) (p : V3) (hb : inBounds g1 m1 p.y = true) :
    trilin g0 g1 g2 m0 m1 m2 W ⟨p.x, clampG g1 m1 p.y, p.z⟩ = trilin g0 g1 g2 m0 m1 m2 W p := by
  unfold trilin locate
  simp only
  rw [clampG_inBounds g1 m1 hm hs, hb]
  by_cases hr : (inBounds g0 m0 p.x && inBounds g2 m2 p.z) = true
  · have hr' := hr
    simp only [Bool.and_eq_true] at hr'
    simp only [hr'.1, hr'.2, Bool.true_and, if_true, interpAt]
    rw [sum8_lin1, sum8_lin1]
    simp only [Nat.add_zero]
    exact lin1_clamp g1 m1 hm hs
      (fun j => lin (frac g0 (findIdx g0 p.x m0) p.x)
        (lin (frac g2 (findIdx g2 p.z m2) p.z) (W (findIdx g0 p.x m0) j (findIdx g2 p.z m2)) (W (findIdx g0 p.x m0) j (findIdx g2 p.z m2 + 1)))
        (lin (frac g2 (findIdx g2 p.z m2) p.z) (W (findIdx g0 p.x m0 + 1) j (findIdx g2 p.z m2)) (W (findIdx g0 p.x m0 + 1) j (findIdx g2 p.z m2 + 1))))
      (by simp only [hW.a1]) (by simp only [hW.b1]) p.y
  · have : (inBounds g0 m0 p.x && true && inBounds g2 m2 p.z) = false := by
      simp only [Bool.and_true]; simpa using hr
    simp only [this, Bool.false_eq_true, if_false]

theorem trilin_clamp2 (g0 g1 g2 : Nat → Rat) (m0 m1 m2 : Nat) (hm : 1 ≤ m2) (hs : ∀ j, j ≤ m2 → g2 j < g2 (j + 1))
    (W : Nat → Nat → Nat → Rat) (hW : Padded3 m0 m1 m2 W) (p : V3) (hb : inBounds g2 m2 p.z = true) :
    trilin g0 g1 g2 m0 m1 m2 W ⟨p.x, p.y, clampG g2 m2 p.z⟩ = trilin g0 g1 g2 m0 m1 m2 W p := by
  unfold trilin locate
  simp only
  rw [clampG_inBounds g2 m2 hm hs, hb]
  by_cases hr : (inBounds g0 m0 p.x && inBounds g1 m1 p.y) = true
  · simp only [hr, Bool.and_true, if_true, interpAt]
    rw [sum8_lin2, sum8_lin2]
    simp only [Nat.add_zero]
    exact lin1_clamp g2 m2 hm hs
      (fun k => lin (frac g0 (findIdx g0 p.x m0) p.x)
        (lin (frac g1 (findIdx g1 p.y m1) p.y) (W (findIdx g0 p.x m0) (findIdx g1 p.y m1) k) (W (findIdx g0 p.x m0) (findIdx g1 p.y m1 + 1) k))
        (lin (frac g1 (findIdx g1 p.y m1) p.y) (W (findIdx g0 p.x m0 + 1) (findIdx g1 p.y m1) k) (W (findIdx g0 p.x m0 + 1) (findIdx g1 p.y m1 + 1) k)))
      (by simp only [hW.a2]) (by simp only [hW.b2]) p.z
  · simp only [hr, Bool.and_true, Bool.false_eq_true, if_false]

/-- **edge padding in three dimensions**: inside the node grid the interpolant of edge-padded
samples is the interpolant at the position clamped to the box of the first / last interior nodes -/
theorem trilin_clamp (g0 g1 g2 : Nat → Rat) (m0 m1 m2 : Nat) (h0 : 1 ≤ m0) (h1 : 1 ≤ m1) (h2 : 1 ≤ m2)
    (hs0 : ∀ j, j ≤ m0 → g0 j < g0 (j + 1)) (hs1 : ∀ j, j ≤ m1 → g1 j < g1 (j + 1)) (hs2 : ∀ j, j ≤ m2 → g2 j < g2 (j + 1))
    (W : Nat → Nat → Nat → Rat) (hW : Padded3 m0 m1 m2 W) (p : V3)
    (b0 : inBounds g0 m0 p.x = true) (b1 : inBounds g1 m1 p.y = true) (b2 : inBounds g2 m2 p.z = true) :
    trilin g0 g1 g2 m0 m1 m2 W ⟨clampG g0 m0 p.x, clampG g1 m1 p.y, clampG g2 m2 p.z⟩ = trilin g0 g1 g2 m0 m1 m2 W p := by
  rw [← trilin_clamp0 g0 g1 g2 m0 m1 m2 h0 hs0 W hW p b0,
    ← trilin_clamp1 g0 g1 g2 m0 m1 m2 h1 hs1 W hW ⟨clampG g0 m0 p.x, p.y, p.z⟩ b1,
    ← trilin_clamp2 g0 g1 g2 m0 m1 m2 h2 hs2 W hW ⟨clampG g0 m0 p.x, clampG g1 m1 p.y, p.z⟩ b2]

/-! ### specialisation to the original field -/

theorem padIdx_01 (n : Nat) : padIdx n 0 = padIdx n 1 := by unfold padIdx; omega
theorem padIdx_last (n : Nat) : padIdx n n = padIdx n (n + 1) := by unfold padIdx; omega

theorem paddedOrig_padded3 (f : Fld) (c : Nat) :
    Padded3 (f.mesh.nAt 0) (f.mesh.nAt 1) (f.mesh.nAt 2) (paddedOrig f c) := by
  constructor <;> intros <;> unfold paddedOrig
  · rw [padIdx_01]
  · rw [padIdx_last]
  · rw [padIdx_01]
  · rw [padIdx_last]
  · rw [padIdx_01]
  · rw [padIdx_last]

theorem gridNode_lastCentre (m : Mesh) (a : Nat) (h : AxOk m a) : gridNode m a (m.nAt a) = centreRel m a (m.nAt a - 1) := by
  have := gridNode_centreRel m a h (m.nAt a - 1) (by have := h.2; omega)
  rwa [show m.nAt a - 1 + 1 = m.nAt a by have := h.2; omega] at this

theorem clampAx_eq (m : Mesh) (a : Nat) (h : AxOk m a) (x : Rat) : clampAx m a x = clampG (gridNode m a) (m.nAt a) x := by
  unfold clampAx clampG
  rw [gridNode_centreRel m a h 0 h.2, gridNode_lastCentre m a h]

/-- the clamped coordinate lies between the first and the last cell centre -/
theorem clampAx_range (m : Mesh) (a : Nat) (h : AxOk m a) (x : Rat) :
    centreRel m a 0 ≤ clampAx m a x ∧ clampAx m a x ≤ centreRel m a (m.nAt a - 1) := by
  have hmono : centreRel m a 0 ≤ centreRel m a (m.nAt a - 1) := by
    have hc := cell_pos m a h
    unfold centreRel
    have : (0 : Rat) ≤ ((m.nAt a - 1 : Nat) : Rat) := Nat.cast_nonneg _
    push_cast
    nlinarith
  unfold clampAx
  split
  · exact ⟨le_refl _, hmono⟩
  · split
    · exact ⟨hmono, le_refl _⟩
    · constructor <;> linarith

/-- a coordinate that is already between the first and last centre is not moved -/
theorem clampAx_id (m : Mesh) (a : Nat) (x : Rat) (h1 : centreRel m a 0 ≤ x) (h2 : x ≤ centreRel m a (m.nAt a - 1)) :
    clampAx m a x = x := by
  unfold clampAx
  rw [if_neg (by linarith), if_neg (by linarith)]

theorem origAt_eq_trilin (f : Fld) (p : V3) :
    origAt f p = tab f.nvdim fun c => trilin (gridNode f.mesh 0) (gridNode f.mesh 1) (gridNode f.mesh 2)
      (f.mesh.nAt 0) (f.mesh.nAt 1) (f.mesh.nAt 2) (paddedOrig f c) p := rfl

/-- **the edge band**: for a position that passes the bounds test, the interpolant of the original
is the interpolant at the position clamped (per axis) to the box spanned by the first and last
cell centres — `np.pad(mode="edge")` continues the boundary cells up to the padded faces -/
theorem origAt_clamp (f : Fld) (hm : Mesh3 f.mesh) (p : V3) (hin : InPad f p) :
    origAt f (clampV f.mesh p) = origAt f p := by
  rw [origAt_eq_trilin, origAt_eq_trilin]
  apply tab_congr
  intro c _
  unfold clampV
  rw [clampAx_eq _ _ (hm 0 (by omega)), clampAx_eq _ _ (hm 1 (by omega)), clampAx_eq _ _ (hm 2 (by omega))]
  exact trilin_clamp _ _ _ _ _ _ (hm 0 (by omega)).2 (hm 1 (by omega)).2 (hm 2 (by omega)).2
    (fun j hj => gridNode_strict _ _ (hm 0 (by omega)) j hj) (fun j hj => gridNode_strict _ _ (hm 1 (by omega)) j hj)
    (fun j hj => gridNode_strict _ _ (hm 2 (by omega)) j hj) _ (paddedOrig_padded3 f c) p
    ((inBounds_iff _ _ _).mpr (hin 0 (by omega))) ((inBounds_iff _ _ _).mpr (hin 1 (by omega)))
    ((inBounds_iff _ _ _).mpr (hin 2 (by omega)))

/-! ### closed brackets: positions between the first and the last cell centre, ends included -/

/-- `x` lies in the bracket of cell `k`: between the centres of cells `k` and `k + 1`, or exactly
on the centre of cell `k` (the only possibility for the last cell) -/
def Br (m : Mesh) (a k : Nat) (x : Rat) : Prop :=
  k < m.nAt a ∧ centreRel m a k ≤ x ∧ ((x < centreRel m a (k + 1) ∧ k + 1 < m.nAt a) ∨ x = centreRel m a k)

theorem br_of_between (m : Mesh) (a k : Nat) (x : Rat) (h : Between m a k x) : Br m a k x :=
  ⟨by have := h.2.2; omega, h.1, Or.inl ⟨h.2.1, h.2.2⟩⟩

/-- every coordinate between the first and the last centre has a bracket -/
theorem br_exists (m : Mesh) (a : Nat) (h : AxOk m a) (x : Rat) (h1 : centreRel m a 0 ≤ x)
    (h2 : x ≤ centreRel m a (m.nAt a - 1)) : ∃ k, Br m a k x := by
  by_cases e : x = centreRel m a (m.nAt a - 1)
  · exact ⟨m.nAt a - 1, by have := h.2; omega, e.ge, Or.inr e⟩
  · obtain ⟨k, hk⟩ := between_of_deep m a h x ⟨h1, lt_of_le_of_ne h2 e⟩
    exact ⟨k, br_of_between m a k x hk⟩

theorem br_findIdx (m : Mesh) (a : Nat) (h : AxOk m a) (k : Nat) (x : Rat) (hb : Br m a k x) :
    findIdx (gridNode m a) x (m.nAt a) = k + 1 ∧
    frac (gridNode m a) (k + 1) x = (x - centreRel m a k) / m.cellAt a ∧
    (k + 1 < m.nAt a ∨ (x - centreRel m a k) / m.cellAt a = 0) ∧
    (gridNode m a 0 ≤ x ∧ x ≤ gridNode m a (m.nAt a + 1)) := by
  obtain ⟨hk, hlo, hup⟩ := hb
  by_cases hk1 : k + 1 < m.nAt a
  · have hbt : Between m a k x := by
      rcases hup with ⟨u, _⟩ | e
      · exact ⟨hlo, u, hk1⟩
      · refine ⟨hlo, ?_, hk1⟩
        rw [e]; have := centreRel_step m a k; have := cell_pos m a h; linarith
    exact ⟨findIdx_between m a h k x hbt, frac_between m a h k x hk1, Or.inl hk1, between_inPad m a h k x hbt⟩
  · have hkn : k + 1 = m.nAt a := by omega
    have e : x = centreRel m a k := by
      rcases hup with ⟨_, u⟩ | e
      · omega
      · exact e
    have hg : gridNode m a (k + 1) = x := by rw [gridNode_centreRel m a h k hk, e]
    refine ⟨?_, ?_, Or.inr (by rw [e]; simp), ?_⟩
    · rw [← hg]
      exact findIdx_at_node _ _ (fun j hj => gridNode_strict m a h j hj) (k + 1) (by omega)
    · rw [← hg, frac_node, hg, e]; simp
    · rw [← hg]
      constructor
      · exact (gridNode_mono m a h 0 (k + 1) (by omega) (by omega)).le
      · exact (gridNode_mono m a h (k + 1) (m.nAt a + 1) (by omega) (by omega)).le

/-- weighted congruence of the eight-corner sum: corners with zero weight do not matter -/
theorem sum8_congr_w (t0 t1 t2 : Rat) (W W' : Nat → Nat → Nat → Rat)
    (h : ∀ e0 e1 e2, e0 ≤ 1 → e1 ≤ 1 → e2 ≤ 1 → wgt t0 e0 * wgt t1 e1 * wgt t2 e2 = 0 ∨ W e0 e1 e2 = W' e0 e1 e2) :
    sum8 t0 t1 t2 W = sum8 t0 t1 t2 W' := by
  have key : ∀ e0 e1 e2, e0 ≤ 1 → e1 ≤ 1 → e2 ≤ 1 →
      wgt t0 e0 * wgt t1 e1 * wgt t2 e2 * W e0 e1 e2 = wgt t0 e0 * wgt t1 e1 * wgt t2 e2 * W' e0 e1 e2 := by
    intro e0 e1 e2 h0 h1 h2
    rcases h e0 e1 e2 h0 h1 h2 with z | e
    · rw [z]; simp
    · rw [e]
  unfold sum8
  rw [key 0 0 0 (by omega) (by omega) (by omega), key 0 0 1 (by omega) (by omega) (by omega),
    key 0 1 0 (by omega) (by omega) (by omega), key 0 1 1 (by omega) (by omega) (by omega),
    key 1 0 0 (by omega) (by omega) (by omega), key 1 0 1 (by omega) (by omega) (by omega),
    key 1 1 0 (by omega) (by omega) (by omega), key 1 1 1 (by omega) (by omega) (by omega)]

theorem padIdx_br (n k e : Nat) (he : e ≤ 1) (h : e = 0 ∨ k + 1 < n) (hk : k < n) : padIdx n (k + 1 + e) = k + e := by
  unfold padIdx; omega

/-- **closed-bracket form of the interpolant**: at a position in the brackets of cells
`k0, k1, k2` the interpolant of the original is the eight-cell formula between the centres of
cells `k` and `k + 1` (on an axis where `k` is the last cell the offset is `0` and the missing
neighbour carries weight zero) -/
theorem origAt_br (f : Fld) (hm : Mesh3 f.mesh) (p : V3) (k0 k1 k2 : Nat)
    (h0 : Br f.mesh 0 k0 p.x) (h1 : Br f.mesh 1 k1 p.y) (h2 : Br f.mesh 2 k2 p.z) (c : Nat) (hc : c < f.nvdim) :
    (origAt f p).getD c 0 = cellInterp f c k0 k1 k2 ((p.x - centreRel f.mesh 0 k0) / f.mesh.cellAt 0)
      ((p.y - centreRel f.mesh 1 k1) / f.mesh.cellAt 1) ((p.z - centreRel f.mesh 2 k2) / f.mesh.cellAt 2) := by
  obtain ⟨i0, f0, z0, b0⟩ := br_findIdx _ _ (hm 0 (by omega)) k0 _ h0
  obtain ⟨i1, f1, z1, b1⟩ := br_findIdx _ _ (hm 1 (by omega)) k1 _ h1
  obtain ⟨i2, f2, z2, b2⟩ := br_findIdx _ _ (hm 2 (by omega)) k2 _ h2
  have hin : InPad f p := by
    intro a ha
    rcases a_cases' a ha with rfl | rfl | rfl
    · exact b0
    · exact b1
    · exact b2
  rw [origAt_getD f p c hc, locOf_some f p hin, i0, i1, i2, f0, f1, f2]
  unfold cellInterp
  simp only [interpAt]
  apply sum8_congr_w
  intro e0 e1 e2 he0 he1 he2
  by_cases g0 : e0 = 0 ∨ k0 + 1 < f.mesh.nAt 0
  · by_cases g1 : e1 = 0 ∨ k1 + 1 < f.mesh.nAt 1
    · by_cases g2 : e2 = 0 ∨ k2 + 1 < f.mesh.nAt 2
      · right
        unfold paddedOrig
        rw [padIdx_br _ _ _ he0 g0 h0.1, padIdx_br _ _ _ he1 g1 h1.1, padIdx_br _ _ _ he2 g2 h2.1]
      · left
        have e : e2 = 1 := by omega
        have z : (p.z - centreRel f.mesh 2 k2) / f.mesh.cellAt 2 = 0 := by rcases z2 with z | z <;> [omega; exact z]
        rw [e, z]; simp [wgt]
    · left
      have e : e1 = 1 := by omega
      have z : (p.y - centreRel f.mesh 1 k1) / f.mesh.cellAt 1 = 0 := by rcases z1 with z | z <;> [omega; exact z]
      rw [e, z]; simp [wgt]
  · left
    have e : e0 = 1 := by omega
    have z : (p.x - centreRel f.mesh 0 k0) / f.mesh.cellAt 0 = 0 := by rcases z0 with z | z <;> [omega; exact z]
    rw [e, z]; simp [wgt]

end DFV.C18
