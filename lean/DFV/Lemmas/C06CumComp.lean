import DFV.Lemmas.C06Rot
/-! Cumulative integrals composed with further `integrate` calls (C06): the cumulative integral is
a field on the same mesh, so it can be integrated again - along the same direction (a weighted
sum: every cell counts with its distance to the upper face), along another direction (the two
operations commute), or cumulatively along another direction (again commuting). -/
namespace DFV.C06
open DFV

/-! ## sums -/

/-- Σ_{j<n} (Σ_{l<j} x_l + x_j/2) = Σ_{l<n} (n - l - 1/2)·x_l : summing the half-cell prefix
sums weighs every cell with the number of cells from its centre to the end -/
theorem sumTo_cum_weights (n : Nat) (x : Nat → Rat) :
    sumTo n (fun j => sumTo j x + x j / 2) = sumTo n (fun l => ((n : Rat) - (l : Rat) - 1/2) * x l) := by
  induction n with
  | zero => rfl
  | succ n ih =>
    simp only [sumTo]
    rw [ih]
    have : sumTo n (fun l => (((n + 1 : Nat) : Rat) - (l : Rat) - 1/2) * x l)
        = sumTo n (fun l => ((n : Rat) - (l : Rat) - 1/2) * x l) + sumTo n x := by
      rw [← sumTo_add]
      apply sumTo_congr
      intro l _
      push_cast; ring
    rw [this]
    push_cast; ring

/-- exchanging a prefix sum along one axis with a full sum along another -/
theorem cum_comm_alg (a b : Rat) (P N : Nat) (X : Nat → Nat → Rat) (y : Nat → Rat) :
    b * sumTo N (fun j => a * (sumTo P (fun l => X l j) + y j / 2))
      = a * (sumTo P (fun l => b * sumTo N (fun j => X l j)) + b * sumTo N y / 2) := by
  have e1 : sumTo N (fun j => a * (sumTo P (fun l => X l j) + y j / 2))
      = a * (sumTo N (fun j => sumTo P (fun l => X l j)) + sumTo N y / 2) := by
    rw [sumTo_mul_left, sumTo_add, sumTo_div]
  have e2 : sumTo P (fun l => b * sumTo N (fun j => X l j)) = b * sumTo N (fun j => sumTo P (fun l => X l j)) := by
    rw [sumTo_mul_left, sumTo_comm]
  rw [e1, e2]; ring

/-- the cells strictly between positions `a` and `a + b + 1` -/
theorem sumTo_between (a b : Nat) (x : Nat → Rat) :
    sumTo (a + b + 1) x - sumTo a x = x a + sumTo b (fun t => x (a + 1 + t)) := by
  have h1 : a + b + 1 = (a + 1) + b := by omega
  rw [h1, sumTo_append (a + 1) b x]
  simp only [sumTo]
  ring

/-! ## multi-indices with one entry inserted -/

theorem getD_insertAt_skip (i : List Nat) (ax p j : Nat) (h : ax ≤ i.length) :
    (insertAt i ax j).getD (skip ax p) 0 = i.getD p 0 := by
  rw [← getD_removeAt_skip, removeAt_insertAt i ax j h]

theorem setAt_insertAt_skip (i : List Nat) (ax p j l : Nat) (h : ax ≤ i.length) :
    setAt (insertAt i ax j) (skip ax p) l = insertAt (setAt i p l) ax j := by
  induction i generalizing ax p with
  | nil =>
    have : ax = 0 := by simpa using h
    subst this
    simp [skip, setAt, insertAt]
  | cons x xs ih =>
    cases ax with
    | zero =>
      have : skip 0 p = p + 1 := by simp [skip]
      rw [this]
      simp [insertAt, setAt]
    | succ a =>
      cases p with
      | zero =>
        have : skip (a + 1) 0 = 0 := by simp [skip]
        rw [this]
        simp only [insertAt_cons_succ, setAt]
      | succ q =>
        have : skip (a + 1) (q + 1) = skip a q + 1 := by
          unfold skip; split <;> split <;> omega
        rw [this]
        simp only [insertAt_cons_succ, setAt]
        rw [ih a q (by simpa using h)]

theorem setAt_comm {α} (i : List α) (a b : Nat) (x y : α) (hab : a ≠ b) :
    setAt (setAt i a x) b y = setAt (setAt i b y) a x := by
  induction i generalizing a b with
  | nil => simp [setAt]
  | cons z zs ih =>
    cases a with
    | zero =>
      cases b with
      | zero => exact absurd rfl hab
      | succ b => simp [setAt]
    | succ a =>
      cases b with
      | zero => simp [setAt]
      | succ b =>
        simp only [setAt]
        rw [ih a b (by omega)]

theorem getD_setAt_other (i : List Nat) (a b x : Nat) (hab : b ≠ a) : (setAt i a x).getD b 0 = i.getD b 0 := by
  rw [getD_setAt]
  simp [hab]

/-! ## directions of the reduced mesh -/

theorem nodup_getD_inj (xs : List String) (hn : xs.Nodup) (a b : Nat) (ha : a < xs.length) (hb : b < xs.length)
    (h : xs.getD a "" = xs.getD b "") : a = b := by
  induction xs generalizing a b with
  | nil => simp at ha
  | cons x xs ih =>
    obtain ⟨hx, hxs⟩ := List.nodup_cons.mp hn
    have hmem : ∀ k, k < xs.length → xs.getD k "" ∈ xs := by
      intro k hk
      rw [List.getD_eq_getElem?_getD, List.getElem?_eq_getElem hk]
      exact List.getElem_mem _
    cases a with
    | zero =>
      cases b with
      | zero => rfl
      | succ b =>
        simp only [List.getD_cons_zero, List.getD_cons_succ] at h
        exact absurd (h ▸ hmem b (by simpa using hb)) hx
    | succ a =>
      cases b with
      | zero =>
        simp only [List.getD_cons_zero, List.getD_cons_succ] at h
        exact absurd (h ▸ hmem a (by simpa using ha)) hx
      | succ b =>
        simp only [List.getD_cons_succ] at h
        rw [ih hxs a b (by simpa using ha) (by simpa using hb) h]

/-- a direction other than the removed one is a direction of the reduced mesh, at the position
that `skip` maps back to its original position, with the same cell length -/
theorem sel_other_dir (m : Mesh) (hm : m.Inv) (d' : String) (m' : Mesh) (h : sel m d' = .ok m')
    (ax' : Nat) (hax' : m.region.dim2index d' = .ok ax') (d : String) (ax : Nat) (hax : m.region.dim2index d = .ok ax)
    (hne : ax ≠ ax') :
    ∃ p, m'.region.dim2index d = .ok p ∧ skip ax' p = ax ∧ m'.cellAt p = m.cellAt ax ∧ p < m'.ndim := by
  obtain ⟨a2, ha2, ha2lt, _, hpmin, _, hdims, _, _, _, _, _⟩ := sel_spec m hm d' m' h
  rw [hax'] at ha2; injection ha2 with ha2; subst ha2
  obtain ⟨haxl, haxd⟩ := dim2index_ok _ _ _ hax
  obtain ⟨hax'l, hax'd⟩ := dim2index_ok _ _ _ hax'
  have hnd : m.region.dims.Nodup := nodup_of_hasDup _ hm.1.2.2.2.2.1
  have hmem : d ∈ m'.region.dims := by
    rw [hdims]
    apply mem_removeAt _ _ _ (mem_of_dim2index _ _ _ hax)
    intro heq
    exact hne (nodup_getD_inj _ hnd ax ax' haxl hax'l (by rw [haxd, heq]))
  obtain ⟨p, hp⟩ := dim2index_of_mem _ _ hmem
  obtain ⟨hpl, hpd⟩ := dim2index_ok _ _ _ hp
  have hlen' : m'.region.dims.length = m.region.dims.length - 1 := by
    rw [hdims, removeAt_length _ _ hax'l]
  have hsk : skip ax' p < m.region.dims.length := skip_lt ax' p _ (by rw [← hlen']; exact hpl)
  have hskip : skip ax' p = ax := by
    apply nodup_getD_inj _ hnd _ _ hsk haxl
    rw [haxd, ← hpd, hdims, getD_removeAt_skip]
  refine ⟨p, hp, hskip, by rw [sel_cellAt m hm d' m' h ax' hax' p, hskip], ?_⟩
  show p < m'.region.pmin.length
  have hdl : m.region.dims.length = m.region.pmin.length := hm.1.2.2.1
  rw [hpmin, removeAt_length _ _ (by rw [← hdl]; exact hax'l), ← hdl, ← hlen']
  exact hpl


/-! ## values of the two directional forms, at lemma level -/

/-- `integrate(d, cumulative=True)`: same mesh, half-cell prefix sums times the cell length -/
theorem cum_spec (f : Fld) (d : String) (g : Fld) (h : integrate f (.name d) true = .ok (.field g)) :
    ∃ ax, f.mesh.region.dim2index d = .ok ax ∧ g.mesh = f.mesh ∧ g.data.shape = f.data.shape ∧
      f.data.shape = f.mesh.n ∧ g.nvdim = f.nvdim ∧
      ∀ i c, inRange f.data.shape i = true → c < f.nvdim →
        cget g.data i c = f.mesh.cellAt ax *
          (sumTo (i.getD ax 0) (fun l => cget f.data (setAt i ax l) c) + cget f.data i c / 2) := by
  obtain ⟨ax, hax, hsh, hr⟩ := integrate_cum_unpack f d _ h
  injection hr with hr
  subst hr
  refine ⟨ax, hax, rfl, rfl, hsh, rfl, ?_⟩
  intro i c hi hc
  simp only
  rw [cget_force (cumAxis f.nvdim (f.mesh.cellAt ax) f.data ax) i c hi, cget_cumAxis _ _ _ _ _ _ hc]
  split
  · rename_i h0
    rw [h0]; simp only [sumTo]; ring
  · rename_i h0
    rw [cumTo_eq]
    have : i.getD ax 0 - 1 + 1 = i.getD ax 0 := by omega
    rw [this]; ring

/-- `integrate(d)` in any number of dimensions (field on the reduced mesh, or the bare array in
1-d): cell length times the sum along the axis -/
theorem dir_cval (f : Fld) (hf : WF f) (d : String) (r : Res) (h : integrate f (.name d) false = .ok r) :
    ∃ ax, f.mesh.region.dim2index d = .ok ax ∧ ax < f.mesh.ndim ∧ r.shape = removeAt f.mesh.n ax ∧
      r.nv = f.nvdim ∧
      ∀ i c, inRange (removeAt f.mesh.n ax) i = true → c < f.nvdim →
        r.cval i c = f.mesh.cellAt ax * sumTo (f.mesh.nAt ax) fun j => cget f.data (insertAt i ax j) c := by
  cases r with
  | field g =>
    obtain ⟨ax, hax, haxlt, _, _, _, _, _, hs, hnv, _, _, _, _, hval⟩ := integrate_dir_spec f hf d g h
    exact ⟨ax, hax, haxlt, hs, hnv, hval⟩
  | vals v =>
    obtain ⟨ax, hax, h1, hv⟩ := integrate_dir_1d_unpack f d v h
    obtain ⟨haxlt, _⟩ := dim2index_ok _ _ _ hax
    have hdl : f.mesh.region.dims.length = f.mesh.ndim := hf.1.1.2.2.1
    have hax0 : ax = 0 := by omega
    subst hax0
    have hlen1 : f.mesh.n.length = 1 := by rw [hf.1.2.1]; exact h1
    have hrm : removeAt f.mesh.n 0 = [] := by
      match hn : f.mesh.n, hlen1 with
      | [k], _ => rfl
    refine ⟨0, hax, by omega, by rw [hrm]; rfl, by rw [hv]; simp [Res.nv, scaleBy, tab], ?_⟩
    intro i c hi hc
    rw [hrm] at hi
    have := inRange_nil_iff i hi
    subst this
    show v.getD c 0 = _
    rw [hv]
    have : ((scaleBy f.nvdim (f.mesh.cellAt 0) (sumAxis f.nvdim f.data 0)).get []).getD c 0
        = cget (scaleBy f.nvdim (f.mesh.cellAt 0) (sumAxis f.nvdim f.data 0)) [] c := rfl
    rw [this, cget_scaleBy _ _ _ _ _ hc, cget_sumAxis _ _ _ _ _ hc, hf.2, mul_comm]
    rfl

theorem cum_wf (f : Fld) (hf : WF f) (d : String) (g : Fld) (h : integrate f (.name d) true = .ok (.field g)) : WF g := by
  obtain ⟨_, _, hm, hs, _, _, _⟩ := cum_spec f d g h
  exact ⟨by rw [hm]; exact hf.1, by rw [hs, hm]; exact hf.2⟩

/-! ## the cumulative integral integrated again -/

/-- along the SAME direction: `∫ F = cell² · Σ_l (n - l - 1/2)·x_l` - every cell counts with the
distance from its centre to the upper face (discrete Cauchy formula for a repeated integral) -/
theorem cum_then_same (f : Fld) (hf : WF f) (d : String) (gc : Fld) (r : Res)
    (hc : integrate f (.name d) true = .ok (.field gc)) (hr : integrate gc (.name d) false = .ok r) :
    ∃ ax, f.mesh.region.dim2index d = .ok ax ∧ r.shape = removeAt f.mesh.n ax ∧ r.nv = f.nvdim ∧
      ∀ i c, inRange (removeAt f.mesh.n ax) i = true → c < f.nvdim →
        r.cval i c = f.mesh.cellAt ax * f.mesh.cellAt ax *
          sumTo (f.mesh.nAt ax) (fun l => ((f.mesh.nAt ax : Rat) - (l : Rat) - 1/2) * cget f.data (insertAt i ax l) c) := by
  obtain ⟨ax, hax, hm, hs, _, hnv, hcum⟩ := cum_spec f d gc hc
  have hwg := cum_wf f hf d gc hc
  obtain ⟨ax', hax', haxlt, hrs, hrnv, hval⟩ := dir_cval gc hwg d r hr
  rw [hm, hax] at hax'; injection hax' with hax'; subst hax'
  rw [hm] at haxlt hrs hval
  refine ⟨ax, hax, hrs, by rw [hrnv, hnv], ?_⟩
  intro i c hi hcn
  rw [hval i c hi (by rw [hnv]; exact hcn), ← sumTo_cum_weights, mul_assoc]
  congr 1
  rw [← sumTo_mul_left]
  apply sumTo_congr
  intro j hj
  have haxn : ax < f.mesh.n.length := by rw [hf.1.2.1]; exact haxlt
  have hrl := removeAt_length f.mesh.n ax haxn
  have hil := inRange_length _ _ hi
  have hilen : i.length + 1 = f.mesh.n.length := by omega
  have haxi : ax ≤ i.length := by omega
  have hin : inRange f.data.shape (insertAt i ax j) = true := by
    rw [hf.2]
    exact inRange_insertAt f.mesh.n i ax j (by rw [hf.1.2.1]; exact haxlt) hi hj
  rw [hcum _ c hin hcn, getD_insertAt_self i ax j haxi]
  congr 2
  apply sumTo_congr
  intro l _
  have : setAt (insertAt i ax j) ax l = insertAt i ax l := by
    rw [← insertAt_removeAt (insertAt i ax j) ax l (by rw [insertAt_length]; omega), removeAt_insertAt i ax j haxi]
  rw [this]

/-- along ANOTHER direction: integrating the cumulative integral along `d'` is the cumulative
integral (along `d`) of the integral along `d'` - same reduced mesh, same values -/
theorem cum_then_other (f : Fld) (hf : WF f) (d d' : String) (gc g1 h g2 : Fld)
    (hc : integrate f (.name d) true = .ok (.field gc))
    (h1 : integrate gc (.name d') false = .ok (.field g1))
    (hh : integrate f (.name d') false = .ok (.field h))
    (h2 : integrate h (.name d) true = .ok (.field g2)) :
    g1.mesh = g2.mesh ∧ g1.data.shape = g2.data.shape ∧ g1.nvdim = g2.nvdim ∧
    ∀ i c, inRange g1.data.shape i = true → c < f.nvdim → cget g1.data i c = cget g2.data i c := by
  obtain ⟨ax, hax, hm, hs, _, hnv, hcum⟩ := cum_spec f d gc hc
  have hwg := cum_wf f hf d gc hc
  obtain ⟨ax', m1, hax', _, hsel1, _, hg1⟩ := integrate_dir_unpack gc d' g1 h1
  obtain ⟨ax1, hax1, hax1lt, _, _, _, _, _, hs1, hnv1, _, _, _, _, hval1⟩ := integrate_dir_spec gc hwg d' g1 h1
  rw [hax'] at hax1; injection hax1 with hax1; subst hax1
  obtain ⟨ax2, mh, hax2, _, hselh, _, hhg⟩ := integrate_dir_unpack f d' h hh
  obtain ⟨ax3, hax3, _, _, _, _, _, _, hsh, hnvh, _, _, _, _, hvalh⟩ := integrate_dir_spec f hf d' h hh
  rw [hax2] at hax3; injection hax3 with hax3; subst hax3
  rw [hm] at hax' hsel1 hax1lt hs1 hval1
  rw [hax'] at hax2; injection hax2 with hax2; subst hax2
  rw [hselh] at hsel1; injection hsel1 with hsel1
  have hhm : h.mesh = mh := by rw [hhg]
  have hg1m : g1.mesh = m1 := by rw [hg1]
  obtain ⟨p, hp, hm2, hs2, hshn, hnv2, hcum2⟩ := cum_spec h d g2 h2
  have hne : ax ≠ ax' := by
    intro heq
    subst heq
    -- `d` would have been removed from the reduced mesh
    obtain ⟨a0, ha0, _, _, _, _, hdims, _, _, _, _, hdup⟩ := sel_spec f.mesh hf.1 d' mh hselh
    rw [hax'] at ha0; injection ha0 with ha0; subst ha0
    have hd' : d' ∈ h.mesh.region.dims := by
      have := mem_of_dim2index _ _ _ hp
      obtain ⟨_, e1⟩ := dim2index_ok _ _ _ hax
      obtain ⟨_, e2⟩ := dim2index_ok _ _ _ hax'
      rw [← e2, e1]; exact this
    rw [hhm, hdims] at hd'
    obtain ⟨hl, e⟩ := dim2index_ok _ _ _ hax'
    have hnd : f.mesh.region.dims.Nodup := nodup_of_hasDup _ hf.1.1.2.2.2.2.1
    -- the removed name does not occur among the remaining ones
    obtain ⟨q, hq, hqe⟩ := List.getElem_of_mem hd'
    have hq' : q < f.mesh.region.dims.length - 1 := by rwa [removeAt_length _ _ hl] at hq
    have e3 : (removeAt f.mesh.region.dims ax).getD q "" = d' := by
      rw [List.getD_eq_getElem?_getD, List.getElem?_eq_getElem hq]; simpa using hqe
    rw [getD_removeAt_skip] at e3
    have := nodup_getD_inj _ hnd _ _ (skip_lt ax q _ hq') hl (by rw [e3, e])
    exact skip_ne ax q this
  obtain ⟨p', hp', hskip, hcellp, _⟩ := sel_other_dir f.mesh hf.1 d' mh hselh ax' hax' d ax hax hne
  rw [hhm] at hp
  rw [hp] at hp'; injection hp' with hp'; subst hp'
  have hshape : g1.data.shape = g2.data.shape := by rw [hs1, hs2, hsh]
  refine ⟨by rw [hg1m, hm2, hhm, hsel1], hshape, by rw [hnv1, hnv2, hnvh, hnv], ?_⟩
  intro i c hi hcn
  rw [hs1] at hi
  have hnlen : f.mesh.n.length = f.mesh.ndim := hf.1.2.1
  have hax'n : ax' < f.mesh.n.length := by rw [hnlen]; exact hax1lt
  have hilen : i.length + 1 = f.mesh.n.length := by
    have := inRange_length _ _ hi
    rw [this, removeAt_length _ _ hax'n]; omega
  have hax'i : ax' ≤ i.length := by omega
  rw [hval1 i c hi (by rw [hnv]; exact hcn), hcum2 i c (by rw [hsh]; exact hi) (by rw [hnvh]; exact hcn)]
  rw [hvalh i c hi hcn, hhm, hcellp]
  -- left: cell' · Σ_j cum[insert j]; right: cell · (Σ_{l<i[p]} h[set l] + h[i]/2)
  have hL : ∀ j, j < f.mesh.nAt ax' →
      cget gc.data (insertAt i ax' j) c = f.mesh.cellAt ax *
        (sumTo (i.getD p 0) (fun l => cget f.data (insertAt (setAt i p l) ax' j) c) + cget f.data (insertAt i ax' j) c / 2) := by
    intro j hj
    have hin : inRange f.data.shape (insertAt i ax' j) = true := by
      rw [hf.2]; exact inRange_insertAt f.mesh.n i ax' j hax'n hi hj
    rw [hcum _ c hin hcn, ← hskip, getD_insertAt_skip i ax' p j hax'i]
    congr 2
    apply sumTo_congr
    intro l _
    rw [setAt_insertAt_skip i ax' p j l hax'i]
  rw [sumTo_congr _ _ _ hL]
  have hR : ∀ l, l < i.getD p 0 →
      cget h.data (setAt i p l) c = f.mesh.cellAt ax' * sumTo (f.mesh.nAt ax') (fun j => cget f.data (insertAt (setAt i p l) ax' j) c) := by
    intro l hl
    apply hvalh _ c _ hcn
    have hpl : p < (removeAt f.mesh.n ax').length := by
      by_contra hnot
      have : i.getD p 0 = 0 := by
        rw [List.getD_eq_getElem?_getD, List.getElem?_eq_none (by rw [inRange_length _ _ hi]; omega)]; rfl
      omega
    exact inRange_setAt _ _ _ _ hi (lt_trans hl (inRange_getD _ _ hi p hpl))
  rw [sumTo_congr _ _ _ hR]
  exact cum_comm_alg (f.mesh.cellAt ax) (f.mesh.cellAt ax') (i.getD p 0) (f.mesh.nAt ax')
    (fun l j => cget f.data (insertAt (setAt i p l) ax' j) c) (fun j => cget f.data (insertAt i ax' j) c)


/-- exchanging two prefix sums (with their half-cell terms) -/
theorem cum_cum_alg (a b x : Rat) (A B : Nat) (X : Nat → Nat → Rat) (Y Y' : Nat → Rat) :
    b * (sumTo B (fun l' => a * (sumTo A (fun l => X l l') + Y' l' / 2)) + a * (sumTo A Y + x / 2) / 2)
      = a * (sumTo A (fun l => b * (sumTo B (fun l' => X l l') + Y l / 2)) + b * (sumTo B Y' + x / 2) / 2) := by
  have e1 : sumTo B (fun l' => a * (sumTo A (fun l => X l l') + Y' l' / 2))
      = a * (sumTo B (fun l' => sumTo A (fun l => X l l')) + sumTo B Y' / 2) := by
    rw [sumTo_mul_left, sumTo_add, sumTo_div]
  have e2 : sumTo A (fun l => b * (sumTo B (fun l' => X l l') + Y l / 2))
      = b * (sumTo B (fun l' => sumTo A (fun l => X l l')) + sumTo A Y / 2) := by
    rw [sumTo_mul_left, sumTo_add, sumTo_div, sumTo_comm]
  rw [e1, e2]; ring

/-- two cumulative integrals along different directions commute: same mesh, same values -/
theorem cum_cum_comm (f : Fld) (d d' : String) (hne : d ≠ d') (g1 g12 g2 g21 : Fld)
    (h1 : integrate f (.name d) true = .ok (.field g1)) (h12 : integrate g1 (.name d') true = .ok (.field g12))
    (h2 : integrate f (.name d') true = .ok (.field g2)) (h21 : integrate g2 (.name d) true = .ok (.field g21)) :
    g12.mesh = g21.mesh ∧ g12.data.shape = g21.data.shape ∧ g12.nvdim = g21.nvdim ∧
    ∀ i c, inRange f.data.shape i = true → c < f.nvdim → cget g12.data i c = cget g21.data i c := by
  obtain ⟨ax, hax, m1, s1, hsn, n1, v1⟩ := cum_spec f d g1 h1
  obtain ⟨ax', hax', m2, s2, _, n2, v2⟩ := cum_spec f d' g2 h2
  obtain ⟨bx', hbx', m12, s12, _, n12, v12⟩ := cum_spec g1 d' g12 h12
  obtain ⟨bx, hbx, m21, s21, _, n21, v21⟩ := cum_spec g2 d g21 h21
  rw [m1, hax'] at hbx'; injection hbx' with hbx'; subst hbx'
  rw [m2, hax] at hbx; injection hbx with hbx; subst hbx
  have hax_ne : ax ≠ ax' := by
    intro heq
    obtain ⟨_, e1⟩ := dim2index_ok _ _ _ hax
    obtain ⟨_, e2⟩ := dim2index_ok _ _ _ hax'
    rw [heq] at e1
    exact hne (by rw [← e1, e2])
  refine ⟨by rw [m12, m21, m1, m2], by rw [s12, s21, s1, s2], by rw [n12, n21, n1, n2], ?_⟩
  intro i c hi hc
  rw [v12 i c (by rw [s1]; exact hi) (by rw [n1]; exact hc), v21 i c (by rw [s2]; exact hi) (by rw [n2]; exact hc), m1, m2]
  have hA : ∀ l', l' < i.getD ax' 0 →
      cget g1.data (setAt i ax' l') c = f.mesh.cellAt ax *
        (sumTo (i.getD ax 0) (fun l => cget f.data (setAt (setAt i ax l) ax' l') c) + cget f.data (setAt i ax' l') c / 2) := by
    intro l' hl'
    have hax'l : ax' < f.data.shape.length := by
      by_contra hnot
      have : i.getD ax' 0 = 0 := by
        rw [List.getD_eq_getElem?_getD, List.getElem?_eq_none (by rw [inRange_length _ _ hi]; omega)]; rfl
      omega
    have hin : inRange f.data.shape (setAt i ax' l') = true :=
      inRange_setAt _ _ _ _ hi (lt_trans hl' (inRange_getD _ _ hi ax' hax'l))
    rw [v1 _ c hin hc, getD_setAt_other i ax' ax l' hax_ne]
    congr 2
    apply sumTo_congr
    intro l _
    rw [setAt_comm i ax' ax l' l (Ne.symm hax_ne)]
  have hB : ∀ l, l < i.getD ax 0 →
      cget g2.data (setAt i ax l) c = f.mesh.cellAt ax' *
        (sumTo (i.getD ax' 0) (fun l' => cget f.data (setAt (setAt i ax l) ax' l') c) + cget f.data (setAt i ax l) c / 2) := by
    intro l hl
    have haxl : ax < f.data.shape.length := by
      by_contra hnot
      have : i.getD ax 0 = 0 := by
        rw [List.getD_eq_getElem?_getD, List.getElem?_eq_none (by rw [inRange_length _ _ hi]; omega)]; rfl
      omega
    have hin : inRange f.data.shape (setAt i ax l) = true :=
      inRange_setAt _ _ _ _ hi (lt_trans hl (inRange_getD _ _ hi ax haxl))
    rw [v2 _ c hin hc, getD_setAt_other i ax ax' l (Ne.symm hax_ne)]
  rw [sumTo_congr _ _ _ hA, sumTo_congr _ _ _ hB, v1 i c hi hc, v2 i c hi hc]
  exact cum_cum_alg (f.mesh.cellAt ax) (f.mesh.cellAt ax') (cget f.data i c) (i.getD ax 0) (i.getD ax' 0)
    (fun l l' => cget f.data (setAt (setAt i ax l) ax' l') c)
    (fun l => cget f.data (setAt i ax l) c) (fun l' => cget f.data (setAt i ax' l') c)

end DFV.C06
