import DFV.Lemmas.C16Reader
import DFV.Lemmas.C16Cells
/-! C16 helper lemmas, part 14: the field read back is well-formed again and converts to the
very same grid (file → field → file is the identity). -/
namespace DFV.C16
open DFV DFV.Mesh

/-- a coordinate strictly inside lattice interval `i` lies in no other closed lattice interval -/
theorem interval_unique (lo c x : Rat) (hc : 0 < c) (i j : Nat)
    (h1 : lo + (i : Rat) * c < x) (h2 : x < lo + ((i : Rat) + 1) * c)
    (h3 : lo + (j : Rat) * c ≤ x) (h4 : x ≤ lo + ((j : Rat) + 1) * c) : j = i := by
  have a : (i : Rat) < (j : Rat) + 1 := by
    by_contra hh
    have : (j : Rat) + 1 ≤ (i : Rat) := not_lt.mp hh
    have := mul_le_mul_of_nonneg_right this hc.le
    linarith
  have b : (j : Rat) < (i : Rat) + 1 := by
    by_contra hh
    have : (i : Rat) + 1 ≤ (j : Rat) := not_lt.mp hh
    have := mul_le_mul_of_nonneg_right this hc.le
    linarith
  have a' : i < j + 1 := by exact_mod_cast a
  have b' : j < i + 1 := by exact_mod_cast b
  omega

theorem toFile_ok_iff (f : Fld) (rep : String) (save : Bool) (rnd : Rat → Rat) :
    (∃ v, toFile f rep save rnd = .ok v) ↔
      ((rep = "xml" ∨ rep = "bin" ∨ rep = "bin8" ∨ rep = "txt") ∧ f.mesh.region.ndim = 3 ∧
        ¬ (1 < f.nvdim ∧ f.vdims = none)) := by
  constructor
  · rintro ⟨v, hv⟩
    unfold toFile at hv
    split at hv
    · cases hv
    · rename_i r hr
      split at hv
      · cases hv
      · rename_i g hg
        refine ⟨?_, ?_, ?_⟩
        · rcases repOf_cases rep with ⟨h, _⟩ | ⟨h, _⟩ | ⟨h, _⟩ | ⟨_, _, _, _, e⟩
          · exact Or.inl h
          · rcases h with h | h
            · exact Or.inr (Or.inl h)
            · exact Or.inr (Or.inr (Or.inl h))
          · exact Or.inr (Or.inr (Or.inr h))
          · rw [e] at hr; cases hr
        · by_contra hn
          unfold toVtk at hg
          rw [if_pos hn] at hg
          cases hg
        · intro hl
          unfold toVtk at hg
          split at hg
          · cases hg
          · cases hg
  · rintro ⟨hrep, h3, hl⟩
    have hr : ∃ r, repOf rep = .ok r := by
      rcases repOf_cases rep with ⟨_, e⟩ | ⟨_, e⟩ | ⟨_, e⟩ | ⟨h1, h2, h3', h4, _⟩
      · exact ⟨_, e⟩
      · exact ⟨_, e⟩
      · exact ⟨_, e⟩
      · rcases hrep with h | h | h | h <;> contradiction
    obtain ⟨r, hr⟩ := hr
    unfold toFile
    rw [hr]
    unfold toVtk
    rw [if_neg (not_not.mpr h3), if_neg hl]
    exact ⟨_, rfl⟩

/-! ## well-formedness of what is read back -/

theorem inv_congr (m m' : Mesh) (hr : m'.region = m.region) (hn : m'.n = m.n) (h : m.Inv) : m'.Inv := by
  unfold Mesh.Inv Mesh.ndim Mesh.nAt at *
  rw [hr, hn]
  exact h

theorem vertices_congr (m m' : Mesh) (h1 : m'.region.pmin = m.region.pmin) (h2 : m'.region.pmax = m.region.pmax)
    (hn : m'.n = m.n) : m'.vertices = m.vertices := by
  unfold Mesh.vertices Mesh.ndim Region.ndim Mesh.nAt Region.lo Region.hi
  rw [h1, h2, hn]

/-- what `_from_vtk` returns for the grid of a well-formed field is well-formed -/
theorem roundtrip_wf (f : Fld) (nx ny nz : Nat) (h : WF f nx ny nz) (g : Grid) (hg : toVtk f = .ok g)
    (sc : Option (List (String × Region))) (f' : Fld) (hf' : fromCells g sc = .ok f') :
    WF f' nx ny nz ∧ f'.mesh.region.pmin = f.mesh.region.pmin ∧ f'.mesh.region.pmax = f.mesh.region.pmax ∧
    f'.nvdim = f.nvdim ∧ f'.vdims = (if f.nvdim = 1 then none else f.vdims) ∧
    ∀ idx, inRange [nx, ny, nz] idx = true →
      f'.data.get idx = (tab f.nvdim fun c => (f.data.get idx).getD c 0) ∧ f'.valid.get idx = f.valid.get idx := by
  -- the loader must have succeeded
  obtain ⟨hgn, hmesh⟩ := meshOf_toVtk f nx ny nz h g hg
  have hm1 : ∃ m1, loadSubs { region := plainRegion f.mesh.region.pmin f.mesh.region.pmax, n := [nx, ny, nz],
                              bc := "", subs := [] } sc = .ok m1 := by
    have hf'' := hf'
    unfold fromCells at hf''
    split at hf''
    · cases hf''
    · split at hf''
      · cases hf''
      · split at hf''
        · cases hf''
        · split at hf''
          · cases hf''
          · rename_i m0 hm0
            split at hf''
            · cases hf''
            · rename_i m hm
              rw [hgn] at hmesh
              rw [hgn, hmesh] at hm0
              injection hm0 with hm0
              rw [← hm0] at hm
              exact ⟨m, hm⟩
  obtain ⟨m1, hm1⟩ := hm1
  obtain ⟨f'', h1, h2, h3, h4, _, h6, h7, h8⟩ := fromCells_toVtk f nx ny nz h g hg sc m1 hm1
  rw [hf'] at h1
  injection h1 with h1
  subst h1
  obtain ⟨hr, hn, _⟩ := loadSubs_geom _ _ _ hm1
  simp only at hr hn
  have hinv : f'.mesh.Inv := by
    rw [h2]
    exact inv_congr (rebuiltMesh f.mesh.region.pmin f.mesh.region.pmax [nx, ny, nz]) m1 hr hn
      (rebuiltMesh_inv f nx ny nz h)
  refine ⟨⟨hinv, by rw [h2, hn], h6, h7, by rw [h3]; exact h.nv, ?_⟩, by rw [h2, hr]; rfl, by rw [h2, hr]; rfl, h3, h4, h8⟩
  intro hnv
  rw [h3] at hnv
  obtain ⟨vs, hvs, hl, hok⟩ := h.labels hnv
  refine ⟨vs, ?_, by rw [h3]; exact hl, hok⟩
  rw [h4, if_neg (by omega), hvs]

/-! ## the grid of the field read back -/

theorem sumSq_congr (v w : List Rat) (nv : Nat) (h : ∀ c, c < nv → v.getD c 0 = w.getD c 0) : sumSq v nv = sumSq w nv := by
  unfold sumSq
  congr 1
  apply tab_congr
  intro c hc
  rw [h c hc]

theorem flat4_congr (a b : NDA Rat) (nx ny nz nv : Nat) (ha : a.shape = [nx, ny, nz, nv]) (hb : b.shape = [nx, ny, nz, nv])
    (hx : 0 < nx) (hy : 0 < ny) (hz : 0 < nz)
    (h : ∀ idx c, inRange [nx, ny, nz] idx = true → c < nv → a.get (idx ++ [c]) = b.get (idx ++ [c])) :
    flat4 a = flat4 b := by
  rw [flat4_eq a nx ny nz nv ha, flat4_eq b nx ny nz nv hb]
  apply tab_congr
  intro q hq
  have hnv : 0 < nv := by
    rcases Nat.eq_zero_or_pos nv with h0 | h0
    · rw [h0] at hq; simp at hq
    · exact h0
  exact h _ _ (unflatF3_inRange nx ny nz _ hx hy hz) (Nat.mod_lt _ hnv)

theorem flat3_congr (a b : NDA Rat) (nx ny nz : Nat) (ha : a.shape = [nx, ny, nz]) (hb : b.shape = [nx, ny, nz])
    (hx : 0 < nx) (hy : 0 < ny) (hz : 0 < nz)
    (h : ∀ idx, inRange [nx, ny, nz] idx = true → a.get idx = b.get idx) : flat3 a = flat3 b := by
  rw [flat3_eq a nx ny nz ha, flat3_eq b nx ny nz hb]
  apply tab_congr
  intro q _
  exact h _ (unflatF3_inRange nx ny nz _ hx hy hz)

theorem indexOf_lt (vs : List String) (hd : hasDup vs = false) (l : String) (hl : l ∈ vs) :
    ∃ c, c < vs.length ∧ indexOf? vs l = some c := by
  obtain ⟨c, hc, rfl⟩ := List.getElem_of_mem hl
  refine ⟨c, hc, ?_⟩
  have := indexOf_getD vs hd c hc
  rw [List.getD_eq_getElem?_getD, List.getElem?_eq_getElem hc] at this
  simpa using this

/-- two well-formed fields on meshes with the same corners and counts, with the same labels and
cell-wise the same first `nvdim` entries and flags, are converted to the same grid -/
theorem toVtk_congr (f f' : Fld) (nx ny nz : Nat) (h : WF f nx ny nz) (h' : WF f' nx ny nz)
    (hp1 : f'.mesh.region.pmin = f.mesh.region.pmin) (hp2 : f'.mesh.region.pmax = f.mesh.region.pmax)
    (hnv : f'.nvdim = f.nvdim) (hvd : 1 < f.nvdim → f'.vdims = f.vdims)
    (hdata : ∀ idx, inRange [nx, ny, nz] idx = true → ∀ c, c < f.nvdim →
      (f'.data.get idx).getD c 0 = (f.data.get idx).getD c 0)
    (hvalid : ∀ idx, inRange [nx, ny, nz] idx = true → f'.valid.get idx = f.valid.get idx) :
    toVtk f' = toVtk f := by
  obtain ⟨hx, hy, hz⟩ := wf_pos f nx ny nz h
  rw [toVtk_ok f nx ny nz h, toVtk_ok f' nx ny nz h']
  have hverts : f'.mesh.vertices = f.mesh.vertices := vertices_congr _ _ hp1 hp2 (by rw [h'.n, h.n])
  have hnorm : normVArr f' = normVArr f := by
    unfold normVArr
    congr 1
    apply flat4_congr _ _ nx ny nz 1 (by simp [normSqArr, h'.dshape]) (by simp [normSqArr, h.dshape]) hx hy hz
    intro idx c hi _
    have hl := inRange_length _ _ hi
    simp only [normSqArr, h'.dshape, h.dshape, List.length_cons, List.length_nil]
    have e : (idx ++ [c]).take (0 + 1 + 1 + 1) = idx := by
      rw [List.take_append_of_le_length (by simp [hl])]
      exact List.take_of_length_le (by simp [hl])
    rw [e, hnv]
    exact sumSq_congr _ _ _ (hdata idx hi)
  have hfield : fieldVArr f' = fieldVArr f := by
    unfold fieldVArr
    rw [hnv]
    congr 1
    apply flat4_congr _ _ nx ny nz f.nvdim (by rw [← hnv]; exact array4_shape f' nx ny nz h'.dshape)
      (array4_shape f nx ny nz h.dshape) hx hy hz
    intro idx c hi hc
    obtain ⟨i, j, k, rfl, _, _, _⟩ := inRange3_cases nx ny nz idx hi
    simp only [List.cons_append, List.nil_append]
    rw [array4_get f' nx ny nz h'.dshape, array4_get f nx ny nz h.dshape]
    exact hdata _ hi c hc
  have hval : validVArr f' = validVArr f := by
    unfold validVArr
    congr 1
    apply flat3_congr _ _ nx ny nz (by simp [validInt, NDA.map, h'.vshape]) (by simp [validInt, NDA.map, h.vshape]) hx hy hz
    intro idx hi
    simp only [validInt, NDA.map]
    rw [hvalid idx hi]
  have hcomps : comps f' = comps f := by
    unfold comps
    rw [hnv]
    by_cases h1 : 1 < f.nvdim
    · simp only [h1, if_true]
      rw [hvd h1]
      obtain ⟨vs, hvs, hlen, hd, _⟩ := h.labels h1
      rw [hvs]
      simp only [Option.getD_some]
      apply List.map_congr_left
      intro l hl
      obtain ⟨c, hc, hidx⟩ := indexOf_lt vs hd l hl
      unfold compVArr
      congr 1
      rw [hidx]
      simp only [Option.getD_some]
      apply flat4_congr _ _ nx ny nz 1 (by simp [compArr, h'.dshape]) (by simp [compArr, h.dshape]) hx hy hz
      intro idx c' hi _
      obtain ⟨i, j, k, rfl, _, _, _⟩ := inRange3_cases nx ny nz idx hi
      simp only [compArr, h'.dshape, h.dshape, List.length_cons, List.length_nil, List.cons_append, List.nil_append,
        List.take_succ_cons, List.take_zero]
      rw [array4_get f' nx ny nz h'.dshape, array4_get f nx ny nz h.dshape]
      exact hdata _ hi c (by omega)
    · simp [h1]
  rw [hverts, hnorm, hfield, hval, hcomps]

end DFV.C16
