import DFV.Lemmas.C03d
/-! C03 helper lemmas, part e: binary ufuncs, `dot`, `cross`, `<<` read cell by cell. -/
namespace DFV.C03
open DFV

/-! ## binary ufuncs -/

theorem firstFld_some (l r : Val) (self : CF) (h : firstFld l r = some self) :
    l = .fld self ∨ r = .fld self := by
  cases l with
  | fld f => simp [firstFld] at h; subst h; exact Or.inl rfl
  | raw od =>
    cases r with
    | fld o => simp [firstFld] at h; subst h; exact Or.inr rfl
    | raw od2 => simp [firstFld] at h

theorem ufuncInput_fld (f : CF) (a : NDA GQ) (k : Kind) (h : ufuncInput (.fld f) = .ok (a, k)) : a = f.data := by
  simp only [ufuncInput] at h
  injection h with h
  injection h with h1 h2
  exact h1.symm

theorem ufuncInput_raw (od : Opd) (a : NDA GQ) (k : Kind) (h : ufuncInput (.raw od) = .ok (a, k)) :
    ∀ i, opdCell a i = rawCell od i := by
  cases od with
  | num z k' np =>
    simp only [ufuncInput] at h
    injection h with h
    injection h with h1 h2
    subst h1
    intro i
    rw [opdCell_scalarArr]; rfl
  | arr a' k' np =>
    simp only [ufuncInput] at h
    split at h
    · injection h with h
      injection h with h1 h2
      subst h1
      intro i; rfl
    · cases h

theorem ufuncInput_cells (n : List Nat) (v : Val) (cv : List Nat → List GQ) (vv : List Nat → Bool)
    (hv : ValCells n v cv vv) (a : NDA GQ) (k : Kind) (h : ufuncInput v = .ok (a, k)) :
    ∀ i, inRange n i = true → opdCell a i = cv i := by
  cases v with
  | fld f =>
    have hf : Cells n f cv vv := hv
    rw [ufuncInput_fld f a k h]
    exact fun i hi => hf.opd i hi
  | raw od =>
    intro i _
    rw [hv.1 i, ufuncInput_raw od a k h i]

/-- the validity a binary ufunc hands to the constructor -/
theorem ufuncValid_cells (n : List Nat) (self : CF) (l r : Val) (cl cr : List Nat → List GQ)
    (vl vr : List Nat → Bool) (hl : ValCells n l cl vl) (hr : ValCells n r cr vr)
    (hs : firstFld l r = some self) :
    (ufuncValid self l r).shape = n ∧
      ∀ i, inRange n i = true → (ufuncValid self l r).get i = (vl i && vr i) := by
  cases l with
  | fld f =>
    have hf : Cells n f cl vl := hl
    cases r with
    | fld o =>
      have ho : Cells n o cr vr := hr
      refine ⟨by show f.valid.shape = n; rw [hf.1.2.1, hf.2.1], fun i hi => ?_⟩
      show (f.valid.get i && o.valid.get i) = _
      rw [(hf.2.2 i hi).2, (ho.2.2 i hi).2]
    | raw od =>
      refine ⟨by show f.valid.shape = n; rw [hf.1.2.1, hf.2.1], fun i hi => ?_⟩
      show f.valid.get i = _
      rw [(hf.2.2 i hi).2, hr.2 i]; simp
  | raw od =>
    cases r with
    | fld o =>
      have ho : Cells n o cr vr := hr
      refine ⟨by show o.valid.shape = n; rw [ho.1.2.1, ho.2.1], fun i hi => ?_⟩
      show o.valid.get i = _
      rw [(ho.2.2 i hi).2, hl.2 i]; simp
    | raw od2 => simp [firstFld] at hs

theorem ufunc2_cells (fn : GQ → GQ → GQ) (pw : Bool) (n : List Nat) (l r : Val) (g : CF)
    (cl cr : List Nat → List GQ) (vl vr : List Nat → Bool)
    (hl : ValCells n l cl vl) (hr : ValCells n r cr vr)
    (h : ufunc2 fn pw l r = .ok g) :
    Cells n g (fun i => bz fn (cl i) (cr i)) (fun i => vl i && vr i) ∧
      (∃ self, firstFld l r = some self ∧ g.mesh = self.mesh) ∧
      ∀ i, inRange n i = true → Compat (cl i).length (cr i).length := by
  unfold ufunc2 at h
  cases hff : firstFld l r with
  | none => simp [hff] at h
  | some self =>
    simp only [hff] at h
    cases ha : ufuncInput l with
    | error e => simp [ha] at h
    | ok p =>
      obtain ⟨a, ka⟩ := p
      simp only [ha] at h
      cases hb : ufuncInput r with
      | error e => simp [hb] at h
      | ok q =>
        obtain ⟨b, kb⟩ := q
        simp only [hb] at h
        cases hm1 : ufuncMeshOk self l with
        | error e => simp [hm1] at h
        | ok u1 =>
          simp only [hm1] at h
          cases hm2 : ufuncMeshOk self r with
          | error e => simp [hm2] at h
          | ok u2 =>
            simp only [hm2] at h
            split at h
            · cases h
            · cases hnb : npBin fn a b with
              | error e => simp [hnb] at h
              | ok res =>
                simp only [hnb] at h
                obtain ⟨_, hmk⟩ := ufuncWrap_ok _ _ _ _ _ h
                have hself : self.mesh.n = n ∧
                    (self.mesh.n.length < a.shape.length ∨ self.mesh.n.length < b.shape.length) := by
                  rcases firstFld_some l r self hff with hl' | hr'
                  · subst hl'
                    have hf : Cells n self cl vl := hl
                    rw [ufuncInput_fld self a ka ha]
                    exact ⟨hf.2.1, Or.inl hf.rank⟩
                  · subst hr'
                    have hf : Cells n self cr vr := hr
                    rw [ufuncInput_fld self b kb hb]
                    exact ⟨hf.2.1, Or.inr hf.rank⟩
                obtain ⟨hsn, hrank⟩ := hself
                obtain ⟨hvsh, hvget⟩ := ufuncValid_cells n self l r cl cr vl vr hl hr hff
                obtain ⟨hm, hwf, _, _, hbd, hvalid, hcell⟩ :=
                  npBin_cells fn self.mesh a b res hrank hnb _ _ (some (ufuncValid self l r)) _ _ g
                    (by intro v hv; injection hv with hv; subst hv; rw [hvsh, hsn]) hmk
                refine ⟨⟨hwf, by rw [hm]; exact hsn, ?_⟩, ⟨self, rfl, hm⟩, ?_⟩
                · intro i hi
                  have hi' : inRange self.mesh.n i = true := by rw [hsn]; exact hi
                  refine ⟨?_, by rw [hvalid i hi']; exact hvget i hi⟩
                  show cellOf g.data i g.nvdim = bz fn (cl i) (cr i)
                  rw [hcell i hi', ufuncInput_cells n l cl vl hl a ka ha i hi,
                    ufuncInput_cells n r cr vr hr b kb hb i hi]
                · intro i hi
                  rw [← ufuncInput_cells n l cl vl hl a ka ha i hi, ← ufuncInput_cells n r cr vr hr b kb hb i hi,
                    opdCell_length, opdCell_length]
                  exact compat_of_bdim _ _ _ hbd

/-! ## sums -/

theorem sumTo_succ (n : Nat) (f : Nat → GQ) : sumTo (n + 1) f = GQ.add (sumTo n f) (f n) := by
  simp [sumTo, List.range_succ]

theorem sumTo_congr (n : Nat) (f g : Nat → GQ) (h : ∀ c, c < n → f c = g c) : sumTo n f = sumTo n g := by
  induction n with
  | zero => rfl
  | succ n ih =>
    rw [sumTo_succ, sumTo_succ, ih (fun c hc => h c (by omega)), h n (by omega)]

theorem bproj_snoc (t i : List Nat) (m c : Nat) :
    bproj (t ++ [m]) (i ++ [c]) = bproj t i ++ [if m = 1 then 0 else c] := by
  unfold bproj
  simp [bprojRev]

/-- for `c` below the last axis, extending a projected cell index by `c` is projecting the extended index -/
theorem bproj_snoc_lt (t i : List Nat) (m c : Nat) (hc : c < m) :
    bproj t i ++ [c] = bproj (t ++ [m]) (i ++ [c]) := by
  rw [bproj_snoc]
  by_cases hm : m = 1
  · have : c = 0 := by omega
    simp [hm, this]
  · simp [hm]

/-! ## `dot` -/

theorem einsum_cells (mesh : Mesh) (A B res : NDA GQ)
    (hrank : mesh.n.length < A.shape.length ∨ mesh.n.length < B.shape.length)
    (hres : einsumDot A B = .ok res)
    (kind : Kind) (vd : Option (List String)) (valid : Option (NDA Bool)) (vm : Option VMap)
    (unit : Option String) (g : CF)
    (hvs : ∀ v, valid = some v → v.shape = mesh.n)
    (hg : mkField mesh 1 (.arr ⟨res.shape ++ [1], fun idx => res.get idx.dropLast⟩) kind vd valid vm unit = .ok g) :
    g.mesh = mesh ∧ CFwf g ∧ g.nvdim = 1 ∧ g.unit = unit ∧ g.kind = kind.ctor ∧
    Compat (lastDim A.shape) (lastDim B.shape) ∧
    (∀ i, inRange mesh.n i = true → g.valid.get i = validAt valid i) ∧
    (∀ i, inRange mesh.n i = true →
      cellOf g.data i g.nvdim = [dotCell (opdCell A i) (opdCell B i)]) := by
  unfold einsumDot at hres
  split at hres
  · cases hres
  · rename_i hne
    cases hs : bshape A.shape B.shape with
    | none => simp [hs] at hres
    | some s =>
      simp only [hs] at hres
      injection hres with hres
      have hslen := bshape_length _ _ _ hs
      have hsne : s ≠ [] := by
        intro h0
        rw [h0] at hslen
        simp at hslen
        have : A.shape.length = 0 := by omega
        exact hne (Or.inl (List.length_eq_zero_iff.mp this))
      obtain ⟨s', m, hsm⟩ : ∃ s' m, s = s' ++ [m] := by
        rcases list_nil_or_concat s with h | h
        · exact absurd h hsne
        · exact h
      have hrs : res.shape = s' := by rw [← hres, hsm]; simp
      have hrk : mesh.n.length < (res.shape ++ [1]).length := by
        rw [hrs]; rw [hsm] at hslen; simp at hslen ⊢; omega
      obtain ⟨hm, hn, hwf, hu, hk, _, hlen, _, hdata, hvalid⟩ :=
        mkField_arr mesh 1 ⟨res.shape ++ [1], fun idx => res.get idx.dropLast⟩ kind vd valid vm unit g hrk hvs hg
      obtain ⟨hbd, hbl, hbg⟩ := bz_opdCell GQ.mul A B s hs hsne []
      refine ⟨hm, hwf, hn, hu, hk, compat_of_bdim _ _ _ hbd, hvalid, ?_⟩
      intro i hi
      obtain ⟨_, hbl, hbg⟩ := bz_opdCell GQ.mul A B s hs hsne i
      have hidx : inRange (mesh.n ++ [1]) (i ++ [0]) = true := by
        rw [inRange_append_single]; exact ⟨hi, by omega⟩
      have hil : i.length = mesh.n.length := inRange_length _ _ hi
      have hs'len : s'.length = mesh.n.length := by
        simp only at hlen; rw [hrs] at hlen; simpa using hlen
      rw [hn]
      have : cellOf g.data i 1 = [g.data.get (i ++ [0])] := by simp [cellOf, tab]
      rw [this, hdata _ hidx]
      simp only
      rw [hrs, bproj_snoc]
      simp only [if_true, List.dropLast_concat]
      rw [← hres]
      simp only
      congr 1
      unfold dotCell
      rw [hbl]
      have hlast : lastAx s = m := by rw [hsm, getLastD_append_single]
      rw [hlast]
      apply sumTo_congr
      intro c hc
      rw [hbg c (by rw [hlast]; exact hc)]
      rw [bproj_snoc_lt s' i m c hc, ← hsm]
      rw [bproj_bproj A.shape s (i ++ [c]) (into_left _ _ _ hs) (by rw [hsm]; simp [hs'len, hil]),
          bproj_bproj B.shape s (i ++ [c]) (into_right _ _ _ hs) (by rw [hsm]; simp [hs'len, hil])]

theorem dotOp_fld_cells (n : List Nat) (f o g : CF) (cf co : List Nat → List GQ) (vf vo : List Nat → Bool)
    (hf : Cells n f cf vf) (ho : Cells n o co vo) (h : dotOp f (.fld o) = .ok g) :
    Cells n g (fun i => [dotCell (cf i) (co i)]) (fun i => vf i && vo i) ∧ g.mesh = f.mesh ∧ g.nvdim = 1 ∧
      Compat f.nvdim o.nvdim := by
  simp only [dotOp] at h
  cases hcs : checkSame f o false with
  | error e => simp [hcs] at h
  | ok u =>
    simp only [hcs] at h
    cases hes : einsumDot f.data o.data with
    | error e => simp [hes] at h
    | ok res =>
      simp only [hes] at h
      have hvs : ∀ v, some (NDA.zipWith (fun x y => x && y) f.valid o.valid) = some v → v.shape = f.mesh.n := by
        intro v hv; injection hv with hv; subst hv
        exact hf.1.2.1
      obtain ⟨hm, hwf, hnv, _, _, hcp, hvalid, hcell⟩ :=
        einsum_cells f.mesh f.data o.data res (Or.inl hf.rank) hes _ _ _ _ _ g hvs h
      rw [hf.lastDim, ho.lastDim] at hcp
      refine ⟨⟨hwf, by rw [hm]; exact hf.2.1, ?_⟩, hm, hnv, hcp⟩
      intro i hi
      have hi' : inRange f.mesh.n i = true := by rw [hf.2.1]; exact hi
      refine ⟨?_, ?_⟩
      · show cellOf g.data i g.nvdim = [dotCell (cf i) (co i)]
        rw [hcell i hi', hf.opd i hi, ho.opd i hi]
      · rw [hvalid i hi']
        show (f.valid.get i && o.valid.get i) = _
        rw [(hf.2.2 i hi).2, (ho.2.2 i hi).2]

theorem dotOp_raw_cells (n : List Nat) (f g : CF) (od : Opd) (cf : List Nat → List GQ) (vf : List Nat → Bool)
    (hf : Cells n f cf vf) (h : dotOp f (.raw od) = .ok g) :
    Cells n g (fun i => [dotCell (cf i) (rawCell od i)]) vf ∧ g.mesh = f.mesh ∧ g.nvdim = 1 ∧
      Compat f.nvdim (rawLast od) := by
  cases od with
  | num z k np => simp [dotOp] at h
  | arr a k np =>
    simp only [dotOp] at h
    cases hes : einsumDot f.data a with
    | error e => simp [hes] at h
    | ok res =>
      simp only [hes] at h
      have hvs : ∀ v, some f.valid = some v → v.shape = f.mesh.n := by
        intro v hv; injection hv with hv; subst hv
        exact hf.1.2.1
      obtain ⟨hm, hwf, hnv, _, _, hcp, hvalid, hcell⟩ :=
        einsum_cells f.mesh f.data a res (Or.inl hf.rank) hes _ _ _ _ _ g hvs h
      rw [hf.lastDim] at hcp
      refine ⟨⟨hwf, by rw [hm]; exact hf.2.1, ?_⟩, hm, hnv, hcp⟩
      intro i hi
      have hi' : inRange f.mesh.n i = true := by rw [hf.2.1]; exact hi
      refine ⟨?_, ?_⟩
      · show cellOf g.data i g.nvdim = [dotCell (cf i) (rawCell (.arr a k np) i)]
        rw [hcell i hi', hf.opd i hi]; rfl
      · rw [hvalid i hi']; exact (hf.2.2 i hi).2

end DFV.C03
