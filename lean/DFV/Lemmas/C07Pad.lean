import DFV.Lemmas.C07Get
/-! Padding: the loop of `Mesh.pad`, the dictionary of `Field.pad`, `numpy.pad` index maps. -/
namespace DFV.C07
open DFV DFV.Mesh

/-- total width requested for axis `b` (the dictionary loop of `Mesh.pad` adds them up) -/
def sumW (m : Mesh) (sel : PadW → Int) : List PadW → Nat → Int
  | [], _ => 0
  | w :: rest, b =>
    (match m.region.dim2index w.dim with
     | .ok a => if a = b then sel w else 0
     | .error _ => 0) + sumW m sel rest b

theorem sumW_cons (m : Mesh) (sel : PadW → Int) (w : PadW) (rest : List PadW) (b : Nat) :
    sumW m sel (w :: rest) b =
      (match m.region.dim2index w.dim with
       | .ok a => if a = b then sel w else 0
       | .error _ => 0) + sumW m sel rest b := rfl

theorem padCorners_inv (m : Mesh) (pw : List PadW) (pmin pmax p1 p2 : List Rat)
    (h : padCorners m pw pmin pmax = .ok (p1, p2)) :
    p1.length = pmin.length ∧ p2.length = pmax.length ∧
    (∀ b, b < pmin.length → p1.getD b 0 = pmin.getD b 0 - (sumW m (·.lo) pw b : Rat) * m.cellAt b) ∧
    (∀ b, b < pmax.length → p2.getD b 0 = pmax.getD b 0 + (sumW m (·.hi) pw b : Rat) * m.cellAt b) := by
  induction pw generalizing pmin pmax with
  | nil =>
    unfold padCorners at h
    injection h with h
    injection h with h1 h2
    subst h1; subst h2
    simp [sumW]
  | cons w rest ih =>
    unfold padCorners at h
    split at h
    · cases h
    · rename_i a hd
      obtain ⟨i1, i2, i3, i4⟩ := ih _ _ h
      rw [length_setAt] at i1 i2 i3 i4
      refine ⟨i1, i2, ?_, ?_⟩
      · intro b hb
        rw [i3 b hb, sumW_cons, hd]
        by_cases hab : a = b
        · subst hab
          rw [getD_setAt_eq _ _ _ _ hb]
          simp only [if_true]
          push_cast; ring
        · rw [getD_setAt_ne _ _ _ _ _ (fun hh => hab hh.symm)]
          simp only [hab, if_false]
          push_cast; ring
      · intro b hb
        rw [i4 b hb, sumW_cons, hd]
        by_cases hab : a = b
        · subst hab
          rw [getD_setAt_eq _ _ _ _ hb]
          simp only [if_true]
          push_cast; ring
        · rw [getD_setAt_ne _ _ _ _ _ (fun hh => hab hh.symm)]
          simp only [hab, if_false]
          push_cast; ring

/-- mesh after padding by non-negative total widths `L b`, `H b` (cells) -/
theorem padMesh_inv (m : Mesh) (hm : m.Inv) (pw : List PadW)
    (hL : ∀ b, b < m.ndim → 0 ≤ sumW m (·.lo) pw b) (hH : ∀ b, b < m.ndim → 0 ≤ sumW m (·.hi) pw b)
    (g : Mesh) (h : padMesh m pw = .ok g) :
    g.ndim = m.ndim ∧ g.n.length = m.ndim ∧ g.region.dims = m.region.dims ∧
    g.region.units = m.region.units ∧ g.region.tol = m.region.tol ∧ g.bc = m.bc.toLower ∧
    g.region.pmax.length = m.ndim ∧
    ∀ b, b < m.ndim →
      g.nAt b = m.nAt b + (sumW m (·.lo) pw b).toNat + (sumW m (·.hi) pw b).toNat ∧
      g.region.lo b = m.region.lo b - ((sumW m (·.lo) pw b).toNat : Rat) * m.cellAt b ∧
      g.region.hi b = m.region.hi b + ((sumW m (·.hi) pw b).toNat : Rat) * m.cellAt b ∧
      AxisBlock m g b b (sumW m (·.lo) pw b).toNat (m.nAt b) := by
  unfold padMesh at h
  split at h
  · cases h
  · rename_i pp hpp
    split at h
    · cases h
    · rename_i r hr
      obtain ⟨p1, p2⟩ := pp
      obtain ⟨c1, c2, c3, c4⟩ := padCorners_inv m pw _ _ p1 p2 hpp
      obtain ⟨e1, e2, e3, e4, e5, _, e7, e8, e9, e10, e11⟩ := regionMk_inv _ _ _ _ _ _ hr
      obtain ⟨g1, g2, _, g4, _⟩ := mkCell_inv _ _ _ _ h
      have hp1 : p1.length = m.ndim := c1
      have hp2 : p2.length = m.ndim := by rw [c2]; exact inv_pmax_length hm
      have hrn : r.ndim = m.ndim := by unfold Region.ndim; rw [e7, tab_length]; exact hp1
      have hax : ∀ b, b < m.ndim →
          r.lo b = m.region.lo b - ((sumW m (·.lo) pw b).toNat : Rat) * m.cellAt b ∧
          r.hi b = m.region.hi b + ((sumW m (·.hi) pw b).toNat : Rat) * m.cellAt b := by
        intro b hb
        have hc := inv_cell_pos hm hb
        have hlt := inv_lo_lt_hi hm hb
        have hLr : ((sumW m (·.lo) pw b).toNat : Rat) = (sumW m (·.lo) pw b : Rat) := by
          have : ((sumW m (·.lo) pw b).toNat : Int) = sumW m (·.lo) pw b := Int.toNat_of_nonneg (hL b hb)
          exact_mod_cast this
        have hHr : ((sumW m (·.hi) pw b).toNat : Rat) = (sumW m (·.hi) pw b : Rat) := by
          have : ((sumW m (·.hi) pw b).toNat : Int) = sumW m (·.hi) pw b := Int.toNat_of_nonneg (hH b hb)
          exact_mod_cast this
        have hL0 : (0 : Rat) ≤ (sumW m (·.lo) pw b : Rat) := by exact_mod_cast hL b hb
        have hH0 : (0 : Rat) ≤ (sumW m (·.hi) pw b : Rat) := by exact_mod_cast hH b hb
        have q1 := c3 b hb
        have q2 := c4 b (by rw [inv_pmax_length hm]; exact hb)
        rw [← lo_def] at q1
        rw [← hi_def] at q2
        constructor
        · rw [lo_def, e7, getD_tab _ _ _ _ (by show b < p1.length; rw [hp1]; exact hb)]
          show min (p1.getD b 0) (p2.getD b 0) = _
          rw [q1, q2, hLr]
          apply min_eq_left; nlinarith
        · rw [hi_def, e8, getD_tab _ _ _ _ (by show b < p1.length; rw [hp1]; exact hb)]
          show max (p1.getD b 0) (p2.getD b 0) = _
          rw [q1, q2, hHr]
          apply max_eq_right; nlinarith
      refine ⟨by unfold Mesh.ndim; rw [g1]; exact hrn, by rw [g2, tab_length, hrn],
        by rw [g1, e9], by rw [g1, e10], by rw [g1, e11], g4,
        by rw [g1, e8, tab_length]; exact hp1, ?_⟩
      intro b hb
      obtain ⟨hl, hh⟩ := hax b hb
      have hc := inv_cell_pos hm hb
      have hn := inv_n_pos hm hb
      have hnb : g.nAt b = m.nAt b + (sumW m (·.lo) pw b).toNat + (sumW m (·.hi) pw b).toNat := by
        rw [nAt_def, g2, getD_tab _ _ _ _ (by omega), cell_getD m _ hb]
        apply count_of_edge _ _ _ hc.ne'
        unfold Region.edge; rw [hl, hh, hi_eq m b hn]; push_cast; ring
      have hcell : g.cellAt b = m.cellAt b := by
        have : g.cellAt b = (g.region.hi b - g.region.lo b) / (g.nAt b : Rat) := rfl
        rw [this, hnb, g1, hl, hh, hi_eq m b hn]
        have : ((m.nAt b + (sumW m (·.lo) pw b).toNat + (sumW m (·.hi) pw b).toNat : Nat) : Rat) ≠ 0 := by
          have : 0 < m.nAt b + (sumW m (·.lo) pw b).toNat + (sumW m (·.hi) pw b).toNat := by omega
          exact_mod_cast this.ne'
        field_simp
        push_cast; ring
      refine ⟨hnb, by rw [g1]; exact hl, by rw [g1]; exact hh, ?_⟩
      exact ⟨by rw [g1, hl, hcell]; ring, rfl, hcell.symm, by rw [hnb]; omega⟩

/-! ## the dictionary of `Field.pad` agrees with the loop of `Mesh.pad` when keys are distinct -/

theorem sumW_zero (m : Mesh) (sel : PadW → Int) (pw : List PadW) (b : Nat)
    (h : ∀ w, w ∈ pw → m.region.dim2index w.dim ≠ .ok b) : sumW m sel pw b = 0 := by
  induction pw with
  | nil => rfl
  | cons w rest ih =>
    rw [sumW_cons, ih (fun w' hw' => h w' (List.mem_cons_of_mem _ hw'))]
    have := h w (List.mem_cons_self ..)
    cases hd : m.region.dim2index w.dim with
    | error e => simp
    | ok a =>
      have : a ≠ b := by intro hab; subst hab; exact this hd
      simp [this]

theorem widthOf_eq_sumW (m : Mesh) (pw : List PadW) (d : List (Nat × Int × Int))
    (hnd : (pw.map (·.dim)).Nodup) (h : padAxes m pw = .ok d) (b : Nat) :
    widthOf d b = (sumW m (·.lo) pw b, sumW m (·.hi) pw b) := by
  induction pw generalizing d with
  | nil =>
    unfold padAxes at h
    injection h with h; subst h
    rfl
  | cons w rest ih =>
    unfold padAxes at h
    split at h
    · cases h
    · rename_i a hd
      split at h
      · cases h
      · rename_i d' hd'
        injection h with h; subst h
        have hnd' : (rest.map (·.dim)).Nodup := by
          simp only [List.map_cons, List.nodup_cons] at hnd; exact hnd.2
        have hnotin : w.dim ∉ rest.map (·.dim) := by
          simp only [List.map_cons, List.nodup_cons] at hnd; exact hnd.1
        unfold widthOf
        rw [sumW_cons, sumW_cons, hd]
        by_cases hab : a = b
        · subst hab
          have hz : ∀ sel, sumW m sel rest a = 0 := by
            intro sel
            apply sumW_zero
            intro w' hw' hcon
            have h1 := (dim2index_lt m.region _ _ hd).2
            have h2 := (dim2index_lt m.region _ _ hcon).2
            apply hnotin
            rw [← h1, h2]
            exact List.mem_map_of_mem hw'
          simp [hz]
        · simp only [hab, if_false]
          rw [ih d' hnd' hd']
          simp

theorem padAxes_nonneg (d : List (Nat × Int × Int))
    (h : (d.any fun e => decide (e.2.1 < 0) || decide (e.2.2 < 0)) = false) (b : Nat) :
    0 ≤ (widthOf d b).1 ∧ 0 ≤ (widthOf d b).2 := by
  induction d with
  | nil => simp [widthOf]
  | cons e rest ih =>
    simp only [List.any_cons, Bool.or_eq_false_iff] at h
    unfold widthOf
    split
    · have := h.1
      simp only [Bool.or_eq_false_iff, decide_eq_false_iff_not, not_lt] at this
      exact this
    · exact ih h.2

/-! ## `numpy.pad` along one axis -/

theorem padSrc_inside (mode : PadMode) (n lo j : Nat) (h1 : lo ≤ j) (h2 : j < lo + n) :
    padSrc mode n lo j = some (j - lo) := by
  unfold padSrc; rw [if_pos ⟨h1, h2⟩]

end DFV.C07

namespace DFV.C07
open DFV DFV.Mesh

theorem centre_bounds (m : Mesh) (a : Nat) (i : Nat) (hi : i < m.nAt a) (hc : 0 < m.cellAt a) :
    m.region.lo a ≤ m.centreAx a ((i : Nat) : Int) ∧ m.centreAx a ((i : Nat) : Int) ≤ m.region.hi a := by
  rw [centreAx_cast, hi_eq m a (by omega)]
  have h0 : (0 : Rat) ≤ (i : Rat) := by exact_mod_cast Nat.zero_le _
  have h1 : (i : Rat) + 1 ≤ (m.nAt a : Rat) := by exact_mod_cast hi
  constructor <;> nlinarith

/-- inversion of `Field.pad` -/
theorem padFld_inv (f : Fld) (hf : FldWF f) (pw : List PadW) (hnd : (pw.map (·.dim)).Nodup)
    (mode : PadMode) (g : Fld) (h : padFld f pw mode = .ok g) :
    padMesh f.mesh pw = .ok g.mesh ∧
    (∀ b, 0 ≤ sumW f.mesh (·.lo) pw b ∧ 0 ≤ sumW f.mesh (·.hi) pw b) ∧
    g.data = padNDA mode (fun b => (sumW f.mesh (·.lo) pw b, sumW f.mesh (·.hi) pw b))
      (List.replicate f.nvdim 0) f.data ∧
    g.valid = padNDA mode (fun b => (sumW f.mesh (·.lo) pw b, sumW f.mesh (·.hi) pw b)) false f.valid := by
  unfold padFld at h
  split at h
  · cases h
  · rename_i d hd
    split at h
    · cases h
    · rename_i hneg
      split at h
      · cases h
      · rename_i m' hm'
        obtain ⟨q1, q2, q3, _⟩ := mkFld_inv _ _ _ _ _ h
        have hw : widthOf d = fun b => (sumW f.mesh (·.lo) pw b, sumW f.mesh (·.hi) pw b) := by
          funext b; exact widthOf_eq_sumW f.mesh pw d hnd hd b
        have hneg' : (d.any fun e => decide (e.2.1 < 0) || decide (e.2.2 < 0)) = false := by
          cases hh : (d.any fun e => decide (e.2.1 < 0) || decide (e.2.2 < 0)) with
          | false => rfl
          | true => exact absurd hh hneg
        refine ⟨by rw [q1]; exact hm', ?_, by rw [q2, hw], by rw [q3, hw]⟩
        intro b
        have := padAxes_nonneg d hneg' b
        rw [hw] at this
        exact this

end DFV.C07
