import DFV.Lemmas.C06Lin
/-! Success lemmas for C06: on a well-formed mesh without subregions `Mesh.sel(dim)` succeeds
for every direction of a mesh with at least two dimensions (so the hypotheses "… = .ok …" of
the property theorems are satisfiable for every such field). -/
namespace DFV.C06
open DFV

theorem containsPt_of_exact (r : Region) (p : List Rat) (hl : p.length = r.ndim)
    (h : ∀ a, a < r.ndim → r.lo a ≤ p.getD a 0 ∧ p.getD a 0 ≤ r.hi a) : r.containsPt p = true := by
  unfold Region.containsPt
  simp only [hl, decide_true, Bool.true_and]
  rw [allLt_iff]
  intro a ha
  obtain ⟨h1, h2⟩ := h a ha
  unfold Region.containsAx
  simp only [Bool.and_eq_true, Bool.or_eq_true, decide_eq_true_eq]
  exact ⟨Or.inl h1, Or.inl h2⟩

theorem indexAx_lt (m : Mesh) (a : Nat) (x : Rat) (hn : 0 < m.nAt a) : m.indexAx a x < m.nAt a := by
  unfold Mesh.indexAx Mesh.clipInt
  split
  · simpa using hn
  · split
    · omega
    · omega

theorem getD_map_ofNat (l : List Nat) (a : Nat) : (l.map Int.ofNat).getD a 0 = ((l.getD a 0 : Nat) : Int) := by
  simp only [List.getD_eq_getElem?_getD, List.getElem?_map]
  cases l[a]? <;> simp

theorem selCentre_ok (m : Mesh) (hm : m.Inv) (ax : Nat) : ∃ s, selCentre m ax = .ok s := by
  obtain ⟨⟨hpos, hmax, hdims, hunits, hdup, hlt⟩, hnlen, hnpos⟩ := hm
  have hcl : m.region.center.length = m.ndim := by simp [Region.center, Mesh.ndim]
  have hcont : m.region.containsPt m.region.center = true := by
    apply containsPt_of_exact _ _ hcl
    intro a ha
    have := hlt a ha
    unfold Region.center
    rw [getD_tab _ _ _ _ ha]
    constructor <;> linarith
  unfold selCentre Mesh.point2index
  simp only [hcl, ne_eq, not_true_eq_false, if_false, hcont, Bool.not_true, Bool.false_eq_true]
  unfold Mesh.index2point
  have hl2 : ((tab m.ndim fun a => m.indexAx a (m.region.center.getD a 0)).map Int.ofNat).length = m.ndim := by
    simp
  have hrange : allLt m.ndim (fun a =>
      decide (0 ≤ ((tab m.ndim fun a => m.indexAx a (m.region.center.getD a 0)).map Int.ofNat).getD a 0) &&
      decide (((tab m.ndim fun a => m.indexAx a (m.region.center.getD a 0)).map Int.ofNat).getD a 0 < (m.nAt a : Int))) = true := by
    rw [allLt_iff]
    intro a ha
    rw [getD_map_ofNat, getD_tab _ _ _ _ ha]
    have := indexAx_lt m a (m.region.center.getD a 0) (hnpos a ha)
    simp only [Bool.and_eq_true, decide_eq_true_eq]
    constructor
    · exact Int.natCast_nonneg _
    · exact_mod_cast this
  simp only [hl2, ne_eq, not_true_eq_false, if_false, hrange, Bool.not_true, Bool.false_eq_true]
  exact ⟨_, rfl⟩


theorem contains_removeAt (xs : List String) (x : String) (ax : Nat) (h : xs.contains x = false) :
    (removeAt xs ax).contains x = false := by
  induction xs generalizing ax with
  | nil => simp [removeAt]
  | cons y ys ih =>
    simp only [List.contains_cons, Bool.or_eq_false_iff] at h
    cases ax with
    | zero => simpa [removeAt] using h.2
    | succ ax =>
      simp only [removeAt, List.contains_cons, Bool.or_eq_false_iff]
      exact ⟨h.1, ih ax h.2⟩

theorem hasDup_removeAt (xs : List String) (ax : Nat) (h : hasDup xs = false) :
    hasDup (removeAt xs ax) = false := by
  induction xs generalizing ax with
  | nil => simp [removeAt, hasDup]
  | cons y ys ih =>
    simp only [hasDup, Bool.or_eq_false_iff] at h
    cases ax with
    | zero => simpa [removeAt] using h.2
    | succ ax =>
      simp only [removeAt, hasDup, Bool.or_eq_false_iff]
      exact ⟨contains_removeAt ys y ax h.1, ih ax h.2⟩

/-- the region constructor accepts corners that differ on every axis, with matching
dims/units lists -/
theorem region_mk_of (p1 p2 : List Rat) (dims units : List String) (tol : Rat)
    (h1 : p1.length = p2.length) (h2 : p1.length ≠ 0) (h3 : dims.length = p1.length)
    (h4 : hasDup dims = false) (h5 : units.length = p1.length)
    (h6 : ∀ a, a < p1.length → p1.getD a 0 ≠ p2.getD a 0) :
    ∃ r, Region.mk? p1 p2 (some dims) (some units) tol = .ok r := by
  have h6' : allLt p1.length (fun a => decide (p1.getD a 0 ≠ p2.getD a 0)) = true := by
    rw [allLt_iff]; intro a ha; simpa using h6 a ha
  unfold Region.mk?
  simp only [h1, ne_eq, not_true_eq_false, if_false, Region.dimsOk, Region.unitsOk]
  rw [← h1]
  simp only [h2, if_false, h3, not_true_eq_false, h4, Bool.false_eq_true, h5, h6', Bool.not_true]
  exact ⟨_, rfl⟩

theorem foldl_min_nonneg (xs : List Rat) (x : Rat) (hx : 0 ≤ x) (h : ∀ y ∈ xs, 0 ≤ y) : 0 ≤ xs.foldl min x := by
  induction xs generalizing x with
  | nil => simpa
  | cons y ys ih =>
    simp only [List.foldl_cons]
    exact ih (min x y) (le_min hx (h y (by simp))) (fun z hz => h z (by simp [hz]))

theorem listMin_nonneg (xs : List Rat) (h : ∀ y ∈ xs, 0 ≤ y) : 0 ≤ listMin xs := by
  cases xs with
  | nil => simp [listMin]
  | cons x xs =>
    simp only [listMin]
    exact foldl_min_nonneg xs x (h x (by simp)) (fun z hz => h z (by simp [hz]))

/-- `Mesh(region=r, cell=cell)` accepts cells that divide the edges exactly -/
theorem mkCell_of (r : Region) (cell : List Rat) (k : Nat → Nat) (hl : cell.length = r.ndim)
    (hlt : ∀ a, a < r.ndim → r.lo a < r.hi a)
    (hk : ∀ a, a < r.ndim → 0 < k a)
    (hc : ∀ a, a < r.ndim → cell.getD a 0 = r.edge a / (k a : Rat)) :
    ∃ m', Mesh.mkCell? r cell = .ok m' := by
  have hpos : ∀ a, a < r.ndim → 0 < cell.getD a 0 := by
    intro a ha
    rw [hc a ha]
    have : (0 : Rat) < (k a : Rat) := by exact_mod_cast hk a ha
    unfold Region.edge
    exact div_pos (by have := hlt a ha; linarith) this
  have hle : ∀ a, a < r.ndim → cell.getD a 0 ≤ r.edge a := by
    intro a ha
    rw [hc a ha]
    have h1 : (1 : Rat) ≤ (k a : Rat) := by exact_mod_cast hk a ha
    have he : 0 < r.edge a := by unfold Region.edge; have := hlt a ha; linarith
    rw [div_le_iff₀ (by linarith)]
    nlinarith
  have hany : cell.any (fun c => decide (c ≤ 0)) = false := by
    rw [List.any_eq_false]
    intro c hcm
    obtain ⟨a, ha, rfl⟩ := List.getElem_of_mem hcm
    have := hpos a (by rw [← hl]; exact ha)
    simp only [List.getD_eq_getElem?_getD, ha, List.getElem?_eq_getElem, Option.getD_some] at this
    simpa using this
  have hcont : r.containsPt (tab r.ndim fun a => r.lo a + cell.getD a 0) = true := by
    apply containsPt_of_exact _ _ (by simp)
    intro a ha
    rw [getD_tab _ _ _ _ ha]
    have := hpos a ha
    have := hle a ha
    unfold Region.edge at this
    constructor <;> linarith
  have hmin : 0 ≤ listMin cell := by
    apply listMin_nonneg
    intro c hcm
    obtain ⟨a, ha, rfl⟩ := List.getElem_of_mem hcm
    have := hpos a (by rw [← hl]; exact ha)
    simp only [List.getD_eq_getElem?_getD, ha, List.getElem?_eq_getElem, Option.getD_some] at this
    exact le_of_lt this
  have hdiv : allLt r.ndim (fun a => !Mesh.notDivisible (r.edge a) (cell.getD a 0) (listMin cell / 1000)) = true := by
    rw [allLt_iff]
    intro a ha
    have hk0 : ((k a : Nat) : Rat) ≠ 0 := by exact_mod_cast (Nat.pos_iff_ne_zero.mp (hk a ha))
    have he : r.edge a ≠ 0 := by unfold Region.edge; have := hlt a ha; intro h0; linarith
    have hq : r.edge a / cell.getD a 0 = (k a : Rat) := by rw [hc a ha]; field_simp
    have hrem : Mesh.remainder (r.edge a) (cell.getD a 0) = 0 := by
      unfold Mesh.remainder
      rw [hq]
      have hf : ((k a : Nat) : Rat).floor = (k a : Int) := by
        apply rat_floor_eq
        · push_cast; exact le_refl _
        · push_cast; linarith
      rw [hf, hc a ha]
      push_cast
      field_simp
      ring
    unfold Mesh.notDivisible
    rw [hrem]
    have : ¬ (listMin cell / 1000 < 0) := by
      have : 0 ≤ listMin cell / 1000 := by positivity
      linarith
    simp [this]
  have hcnt : allLt r.ndim (fun a => decide (1 ≤ (Mesh.roundHalfEven (r.edge a / cell.getD a 0)).toNat)) = true := by
    rw [allLt_iff]
    intro a ha
    have hk0 : ((k a : Nat) : Rat) ≠ 0 := by exact_mod_cast (Nat.pos_iff_ne_zero.mp (hk a ha))
    have he : r.edge a ≠ 0 := by unfold Region.edge; have := hlt a ha; intro h0; linarith
    have hq : r.edge a / cell.getD a 0 = (k a : Rat) := by rw [hc a ha]; field_simp
    rw [hq, roundHalfEven_nat]
    have := hk a ha
    simp only [Int.toNat_natCast, decide_eq_true_eq]
    omega
  unfold Mesh.mkCell?
  simp only [hl, ne_eq, not_true_eq_false, if_false, hany, Bool.false_eq_true, hcont, Bool.not_true, hdiv, hcnt,
    toLower_empty]
  have : Mesh.bcOk r.dims "" = true := by simp [Mesh.bcOk]
  simp only [this, Bool.not_true, Bool.false_eq_true, if_false]
  exact ⟨_, rfl⟩


/-- `Mesh.sel(d)` succeeds on a well-formed mesh without subregions that has at least two
dimensions, for every direction name of the mesh -/
theorem sel_ok (m : Mesh) (hm : m.Inv) (hsubs : m.subs = []) (h2 : 2 ≤ m.ndim) (d : String) (ax : Nat)
    (hax : m.region.dim2index d = .ok ax) : ∃ m', sel m d = .ok m' ∧ m'.subs = [] := by
  obtain ⟨s, hs⟩ := selCentre_ok m hm ax
  obtain ⟨haxd, _⟩ := dim2index_ok _ _ _ hax
  obtain ⟨⟨hpos, hmax, hdims, hunits, hdup, hlt⟩, hnlen, hnpos⟩ := hm
  have hnd : m.ndim = m.region.pmin.length := rfl
  have haxn : ax < m.region.pmin.length := by rw [← hdims]; exact haxd
  have hl1 : (removeAt m.region.pmin ax).length = m.region.pmin.length - 1 := removeAt_length _ _ haxn
  have hl2 : (removeAt m.region.pmax ax).length = m.region.pmin.length - 1 := by
    rw [removeAt_length _ _ (by omega), hmax]
  obtain ⟨r, hr⟩ := region_mk_of (removeAt m.region.pmin ax) (removeAt m.region.pmax ax)
    (removeAt m.region.dims ax) (removeAt m.region.units ax) m.region.tol
    (by rw [hl1, hl2]) (by rw [hl1]; omega)
    (by rw [removeAt_length _ _ haxd, hdims, hl1])
    (hasDup_removeAt _ _ hdup)
    (by rw [removeAt_length _ _ (by omega), hunits, hl1])
    (by
      intro a ha
      rw [getD_removeAt_skip, getD_removeAt_skip]
      have := hlt (skip ax a) (skip_lt ax a _ (by omega))
      unfold Region.lo Region.hi at this
      exact ne_of_lt this)
  obtain ⟨_, _, _, _, _, hreq⟩ := region_mk_ok _ _ _ _ _ _ hr
  have hlohi : ∀ a, a < (removeAt m.region.pmin ax).length →
      (removeAt m.region.pmin ax).getD a 0 < (removeAt m.region.pmax ax).getD a 0 := by
    intro a ha
    rw [getD_removeAt_skip, getD_removeAt_skip]
    exact hlt (skip ax a) (skip_lt ax a _ (by omega))
  have hpmin : r.pmin = removeAt m.region.pmin ax := by
    rw [hreq]; simp only
    symm
    apply eq_tab_of_getD _ _ _ 0 rfl
    intro a ha
    exact (min_eq_left (le_of_lt (hlohi a ha))).symm
  have hpmax : r.pmax = removeAt m.region.pmax ax := by
    rw [hreq]; simp only
    symm
    apply eq_tab_of_getD _ _ _ 0 (by rw [hl1, hl2])
    intro a ha
    exact (max_eq_right (le_of_lt (hlohi a ha))).symm
  have hrnd : r.ndim = m.region.pmin.length - 1 := by unfold Region.ndim; rw [hpmin, hl1]
  have hrlo : ∀ a, r.lo a = m.region.lo (skip ax a) := by
    intro a; unfold Region.lo; rw [hpmin, getD_removeAt_skip]
  have hrhi : ∀ a, r.hi a = m.region.hi (skip ax a) := by
    intro a; unfold Region.hi; rw [hpmax, getD_removeAt_skip]
  obtain ⟨mc, hmc⟩ := mkCell_of r (removeAt m.cell ax) (fun a => m.nAt (skip ax a))
    (by rw [removeAt_length _ _ (by simp [Mesh.cell, hnd]; exact haxn), hrnd]; simp [Mesh.cell, hnd])
    (by intro a ha; rw [hrlo, hrhi]; exact hlt _ (skip_lt ax a _ (by omega)))
    (by intro a ha; exact hnpos _ (by rw [hnd]; exact skip_lt ax a _ (by omega)))
    (by
      intro a ha
      rw [getD_removeAt_skip]
      unfold Mesh.cell
      rw [getD_tab _ _ _ _ (by rw [hnd]; exact skip_lt ax a _ (by omega))]
      unfold Mesh.cellAt Region.edge
      rw [hrlo, hrhi])
  unfold sel
  simp only [hax, hs, hsubs, projSubs, hr, hmc, setSubs]
  exact ⟨_, rfl, rfl⟩

theorem indexOf_go_of_mem (x : String) (xs : List String) (k : Nat) (h : x ∈ xs) :
    ∃ r, indexOf?.go x xs k = some r := by
  induction xs generalizing k with
  | nil => simp at h
  | cons y ys ih =>
    simp only [indexOf?.go]
    split
    · exact ⟨k, rfl⟩
    · rename_i hne
      rcases List.mem_cons.mp h with rfl | h
      · exact absurd rfl hne
      · exact ih (k + 1) h

/-- every name in `dims` is found by `_dim2index` -/
theorem dim2index_of_mem (r : Region) (d : String) (h : d ∈ r.dims) : ∃ ax, r.dim2index d = .ok ax := by
  obtain ⟨k, hk⟩ := indexOf_go_of_mem d r.dims 0 h
  unfold Region.dim2index indexOf?
  rw [hk]
  exact ⟨k, rfl⟩

theorem mem_removeAt (xs : List String) (x : String) (ax : Nat) (h : x ∈ xs) (hne : xs.getD ax "" ≠ x) :
    x ∈ removeAt xs ax := by
  induction xs generalizing ax with
  | nil => simp at h
  | cons y ys ih =>
    cases ax with
    | zero =>
      simp only [removeAt]
      rcases List.mem_cons.mp h with rfl | h
      · simp at hne
      · exact h
    | succ ax =>
      simp only [removeAt]
      rcases List.mem_cons.mp h with rfl | h
      · simp
      · exact List.mem_cons_of_mem _ (ih ax h (by simpa using hne))

/-! ## a concrete instance for the non-vacuity examples -/

/-- a concrete anisotropic 2×3 field with two components (for non-vacuity examples):
region [0,2]×[1,4] named (x, y), cells 1 × 1, data `[i + 10 j, i·j]` -/
def exFld : Fld :=
  { mesh := { region := { pmin := [0, 1], pmax := [2, 4], dims := ["x", "y"], units := ["m", "m"],
                          tol := 1/1000000000000 },
              n := [2, 3], bc := "", subs := [] },
    nvdim := 2,
    data := ⟨[2, 3], fun i => [(i.getD 0 0 : Rat) + 10 * (i.getD 1 0 : Rat), (i.getD 0 0 : Rat) * (i.getD 1 0 : Rat)]⟩,
    valid := NDA.const [2, 3] true, vdims := some ["x", "y"], vmap := [], unit := none }

theorem exFld_wf : WF exFld := by
  refine ⟨⟨⟨by decide, by decide, by decide, by decide, by decide, ?_⟩, by decide, ?_⟩, rfl⟩
  · intro a ha
    have : a = 0 ∨ a = 1 := by
      have : a < 2 := ha
      omega
    rcases this with rfl | rfl <;> decide
  · intro a ha
    have : a = 0 ∨ a = 1 := by
      have : a < 2 := ha
      omega
    rcases this with rfl | rfl <;> decide

/-- a concrete 1-d field with 3 cells of length 1/2 -/
def exFld1 : Fld :=
  { mesh := { region := { pmin := [1], pmax := [5/2], dims := ["x"], units := ["m"], tol := 1/1000000000000 },
              n := [3], bc := "", subs := [] },
    nvdim := 1,
    data := ⟨[3], fun i => [(i.getD 0 0 : Rat) + 1]⟩,
    valid := NDA.const [3] true, vdims := none, vmap := [], unit := none }

theorem exFld1_wf : WF exFld1 := by
  refine ⟨⟨⟨by decide, by decide, by decide, by decide, by decide, ?_⟩, by decide, ?_⟩, rfl⟩
  · intro a ha
    have : a = 0 := by
      have : a < 1 := ha
      omega
    subst this; norm_num [exFld1, Region.lo, Region.hi]
  · intro a ha
    have : a = 0 := by
      have : a < 1 := ha
      omega
    subst this; decide

/-- a concrete 2×2×3 field with all cell sizes different (1, 1/2, 2) -/
def exFld3 : Fld :=
  { mesh := { region := { pmin := [0, 0, -1], pmax := [2, 1, 5], dims := ["x", "y", "z"],
                          units := ["m", "m", "m"], tol := 1/1000000000000 },
              n := [2, 2, 3], bc := "", subs := [] },
    nvdim := 1,
    data := ⟨[2, 2, 3], fun i => [(i.getD 0 0 : Rat) + 3 * (i.getD 1 0 : Rat) + 7 * (i.getD 2 0 : Rat)]⟩,
    valid := NDA.const [2, 2, 3] true, vdims := none, vmap := [], unit := some "T" }

theorem exFld3_wf : WF exFld3 := by
  refine ⟨⟨⟨by decide, by decide, by decide, by decide, by decide, ?_⟩, by decide, ?_⟩, rfl⟩
  · intro a ha
    have : a = 0 ∨ a = 1 ∨ a = 2 := by
      have : a < 3 := ha
      omega
    rcases this with rfl | rfl | rfl <;> decide
  · intro a ha
    have : a = 0 ∨ a = 1 ∨ a = 2 := by
      have : a < 3 := ha
      omega
    rcases this with rfl | rfl | rfl <;> decide

end DFV.C06
