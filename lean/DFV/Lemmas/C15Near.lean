import DFV.Lemmas.C15Fld
import DFV.Lemmas.RatFloor
/-!
A field given as norm (`Field._as_array(val: Field, …)`): the nearest-coordinate
selection (`nearestIdx`, larger index on a tie) on the cell midpoints of a mesh is
"floor, then clip" — the cell that contains the point, lower face inclusive.
-/
namespace DFV.C15
open DFV DFV.Mesh

/-- scanning arg-min that keeps the later index on a tie -/
def scanMin (d : Nat → Rat) (n : Nat) : Nat :=
  (List.range n).foldl (fun best j => if d j ≤ d best then j else best) 0

theorem scanMin_succ (d : Nat → Rat) (n : Nat) :
    scanMin d (n + 1) = if d n ≤ d (scanMin d n) then n else scanMin d n := by
  unfold scanMin
  rw [List.range_succ, List.foldl_append]
  rfl

theorem scanMin_lt (d : Nat → Rat) (n : Nat) : scanMin d n < max n 1 := by
  induction n with
  | zero => simp [scanMin]
  | succ k ih =>
    rw [scanMin_succ]
    split
    · omega
    · omega

/-- the scan returns the index `r` that minimises `d`, strictly better than everything
after it -/
theorem scanMin_eq (d : Nat → Rat) (n r : Nat) (hr : r < n) (hmin : ∀ j, j < n → d r ≤ d j)
    (hstrict : ∀ j, r < j → j < n → d r < d j) : scanMin d n = r := by
  suffices h : ∀ k, r < k → k ≤ n → scanMin d k = r from h n hr le_rfl
  intro k hk
  induction k with
  | zero => omega
  | succ k ih =>
    intro hkn
    rw [scanMin_succ]
    by_cases hkr : k = r
    · subst hkr
      have hb : scanMin d k < n := by have := scanMin_lt d k; omega
      rw [if_pos (hmin _ hb)]
    · have hk' : r < k := by omega
      rw [ih hk' (by omega), if_neg (not_le.mpr (hstrict k hk' (by omega)))]

theorem nearestIdx_eq_scanMin (xs : List Rat) (p : Rat) :
    nearestIdx xs p = scanMin (fun j => absR (xs.getD j 0 - p)) xs.length := rfl

/-- **nearest midpoint = containing cell**: on the midpoints `lo + (j+½)c`, `j < n`, the
nearest-coordinate selection with ties to the larger index is `clip(⌊(p−lo)/c⌋, 0, n−1)` -/
theorem nearestIdx_midpoints (lo c p : Rat) (n : Nat) (hc : 0 < c) (hn : 0 < n) :
    nearestIdx (tab n fun j => lo + ((j : Rat) + 1 / 2) * c) p =
      (clipInt ((p - lo) / c).floor 0 ((n : Int) - 1)).toNat := by
  rw [nearestIdx_eq_scanMin, tab_length]
  set q := (p - lo) / c with hq
  have hp : p = lo + q * c := by rw [hq]; field_simp; ring
  have hd : ∀ j, j < n → absR ((tab n fun j => lo + ((j : Rat) + 1 / 2) * c).getD j 0 - p) =
      c * |(j : Rat) + 1 / 2 - q| := by
    intro j hj
    rw [getD_tab _ _ _ _ hj, absR_eq_abs, hp]
    have : lo + ((j : Rat) + 1 / 2) * c - (lo + q * c) = c * ((j : Rat) + 1 / 2 - q) := by ring
    rw [this, abs_mul, abs_of_pos hc]
  have hfl := rat_floor_le q
  have hfu := rat_lt_floor_add_one q
  -- reduce to statements about e j = j + 1/2 - q
  have key : ∀ r : Nat, r < n → (∀ j : Nat, j < n → |(r : Rat) + 1 / 2 - q| ≤ |(j : Rat) + 1 / 2 - q|) →
      (∀ j : Nat, r < j → j < n → |(r : Rat) + 1 / 2 - q| < |(j : Rat) + 1 / 2 - q|) →
      scanMin (fun j => absR ((tab n fun j => lo + ((j : Rat) + 1 / 2) * c).getD j 0 - p)) n = r := by
    intro r hr h1 h2
    apply scanMin_eq _ n r hr
    · intro j hj
      show absR _ ≤ absR _
      rw [hd r hr, hd j hj]
      exact mul_le_mul_of_nonneg_left (h1 j hj) hc.le
    · intro j hrj hj
      show absR _ < absR _
      rw [hd r hr, hd j hj]
      exact mul_lt_mul_of_pos_left (h2 j hrj hj) hc
  unfold clipInt
  split
  · -- ⌊q⌋ < 0
    rename_i hneg
    have hq0 : q < 0 := by
      have : (q.floor : Rat) + 1 ≤ 0 := by exact_mod_cast (by omega : q.floor + 1 ≤ 0)
      linarith
    show _ = (0 : Int).toNat
    apply key 0 hn
    · intro j _
      have hj0 : (0 : Rat) ≤ (j : Rat) := Nat.cast_nonneg j
      rw [abs_of_pos (by push_cast; linarith), abs_of_pos (by linarith)]
      push_cast; linarith
    · intro j hj _
      have hj0 : (1 : Rat) ≤ (j : Rat) := by exact_mod_cast hj
      rw [abs_of_pos (by push_cast; linarith), abs_of_pos (by linarith)]
      push_cast; linarith
  · split
    · -- n - 1 < ⌊q⌋
      rename_i _ hbig
      have hqn : (n : Rat) ≤ q := by
        have : ((n : Int) : Rat) ≤ (q.floor : Rat) := by exact_mod_cast (by omega : (n : Int) ≤ q.floor)
        push_cast at this
        linarith
      have e : ((n : Int) - 1).toNat = n - 1 := by omega
      rw [e]
      have hcast : ((n - 1 : Nat) : Rat) = (n : Rat) - 1 := by
        rw [Nat.cast_sub (by omega)]; simp
      apply key (n - 1) (by omega)
      · intro j hj
        have hjn : (j : Rat) ≤ (n : Rat) - 1 := by
          have : j ≤ n - 1 := by omega
          rw [← hcast]; exact_mod_cast this
        rw [hcast, abs_of_neg (by linarith), abs_of_neg (by linarith)]
        linarith
      · intro j hj hjn; omega
    · -- 0 ≤ ⌊q⌋ ≤ n - 1
      rename_i hlo hhi
      have h0 : 0 ≤ q.floor := by omega
      have hcast : ((q.floor.toNat : Nat) : Rat) = (q.floor : Rat) := by
        have : ((q.floor.toNat : Nat) : Int) = q.floor := Int.toNat_of_nonneg h0
        exact_mod_cast congrArg (fun z : Int => (z : Rat)) this
      apply key q.floor.toNat (by omega)
      · intro j hj
        rw [hcast]
        have hr : |(q.floor : Rat) + 1 / 2 - q| ≤ 1 / 2 := by
          rw [abs_le]; constructor <;> linarith
        by_cases hjr : (j : Int) ≤ q.floor
        · rcases eq_or_lt_of_le hjr with hje | hjlt
          · have : (j : Rat) = (q.floor : Rat) := by exact_mod_cast congrArg (fun z : Int => (z : Rat)) hje
            rw [this]
          · have : (j : Rat) + 1 ≤ (q.floor : Rat) := by exact_mod_cast (by omega : (j : Int) + 1 ≤ q.floor)
            have : 1 / 2 ≤ |(j : Rat) + 1 / 2 - q| := by
              rw [abs_of_neg (by linarith)]; linarith
            linarith
        · have : (q.floor : Rat) + 1 ≤ (j : Rat) := by exact_mod_cast (by omega : q.floor + 1 ≤ (j : Int))
          have : 1 / 2 ≤ |(j : Rat) + 1 / 2 - q| := by
            rw [abs_of_pos (by linarith)]; linarith
          linarith
      · intro j hrj hj
        rw [hcast]
        have hr : |(q.floor : Rat) + 1 / 2 - q| ≤ 1 / 2 := by
          rw [abs_le]; constructor <;> linarith
        have : (q.floor : Rat) + 1 ≤ (j : Rat) := by
          have : q.floor + 1 ≤ (j : Int) := by omega
          exact_mod_cast this
        have : 1 / 2 < |(j : Rat) + 1 / 2 - q| := by
          rw [abs_of_pos (by linarith)]; linarith
        linarith

/-- `Mesh.cells` along one axis (`np.linspace` between the first and the last midpoint) is the
list of cell midpoints -/
theorem cells_axis (m : Mesh) (a : Nat) (ha : a < m.ndim) (hn : 0 < m.nAt a) :
    m.cells.getD a [] = tab (m.nAt a) fun j => m.region.lo a + ((j : Rat) + 1 / 2) * m.cellAt a := by
  unfold Mesh.cells
  rw [getD_tab _ _ _ _ ha]
  unfold linspace
  have hnq : (0 : Rat) < (m.nAt a : Rat) := by exact_mod_cast hn
  have hedge : m.region.hi a - m.region.lo a = (m.nAt a : Rat) * m.cellAt a := by
    unfold Mesh.cellAt Region.edge; field_simp
  split
  · rename_i h1
    rw [h1]
    simp [tab]
    ring
  · rename_i h1
    apply tab_congr
    intro j _
    have hn1 : ((m.nAt a : Rat) - 1) ≠ 0 := by
      intro e
      have : (m.nAt a : Rat) = 1 := by linarith
      exact h1 (by exact_mod_cast this)
    have : m.region.hi a - m.cellAt a / 2 - (m.region.lo a + m.cellAt a / 2) =
        ((m.nAt a : Rat) - 1) * m.cellAt a := by linarith
    rw [this]
    field_simp
    ring

/-- midpoint → index → the same cell (one axis) -/
theorem indexAx_centre (m : Mesh) (a i : Nat) (hi : i < m.nAt a) (hc : 0 < m.cellAt a) :
    m.indexAx a (m.region.lo a + ((i : Rat) + 1 / 2) * m.cellAt a) = i := by
  unfold Mesh.indexAx
  have e : (m.region.lo a + ((i : Rat) + 1 / 2) * m.cellAt a - m.region.lo a) / m.cellAt a =
      (i : Rat) + 1 / 2 := by field_simp; ring
  rw [e]
  have hf : ((i : Rat) + 1 / 2).floor = (i : Int) :=
    rat_floor_eq _ _ (by push_cast; linarith) (by push_cast; linarith)
  rw [hf]
  unfold clipInt
  rw [if_neg (by omega), if_neg (by omega)]
  simp

theorem cellAt_pos (m : Mesh) (hm : m.Inv) (a : Nat) (ha : a < m.ndim) : 0 < m.cellAt a := by
  obtain ⟨hr, _, hn⟩ := hm
  have h1 := hr.2.2.2.2.2 a ha
  have h2 : (0 : Rat) < (m.nAt a : Rat) := by exact_mod_cast hn a ha
  unfold Mesh.cellAt Region.edge
  exact div_pos (by linarith) h2

theorem centre_getD (m : Mesh) (i : List Nat) (a : Nat) (ha : a < m.ndim) :
    (m.centre i).getD a 0 = m.region.lo a + (((i.getD a 0 : Nat) : Rat) + 1 / 2) * m.cellAt a := by
  unfold Mesh.centre
  rw [getD_tab _ _ _ _ ha]
  unfold Mesh.centreAx
  push_cast
  rfl

/-- the coordinate `mesh.cells.<dim>[i_a]` the selection is made at is the `a`-th
coordinate of the centre of cell `i` -/
theorem cells_getD (m : Mesh) (hm : m.Inv) (i : List Nat) (a : Nat) (ha : a < m.ndim)
    (hi : i.getD a 0 < m.nAt a) :
    (m.cells.getD a []).getD (i.getD a 0) 0 = (m.centre i).getD a 0 := by
  rw [cells_axis m a ha (hm.2.2 a ha), getD_tab _ _ _ _ hi, centre_getD m i a ha]

theorem containsReg_ndim {r o : Region} (h : r.containsReg o = true) : o.ndim = r.ndim := by
  unfold Region.containsReg Region.containsPt at h
  simp only [Bool.and_eq_true, decide_eq_true_eq] at h
  exact h.1.1

theorem fieldAsArray1_ok {m : Mesh} {h : Fld} {t : NDA Rat} (ht : fieldAsArray1 m h = .ok t) :
    h.mesh.region.containsReg m.region = true ∧ h.nvdim = 1 ∧ h.mesh.region.dims = m.region.dims ∧
    t = ⟨m.n, fun i => (h.data.get (tab m.ndim fun a =>
      nearestIdx (h.mesh.cells.getD a []) ((m.cells.getD a []).getD (i.getD a 0) 0))).getD 0 0⟩ := by
  unfold fieldAsArray1 at ht
  split at ht
  · cases ht
  · rename_i h1
    split at ht
    · cases ht
    · rename_i h2
      split at ht
      · cases ht
      · rename_i h3
        simp only [Except.ok.injEq] at ht
        refine ⟨by simpa using h1, by simpa using h2, by simpa using h3, ht.symm⟩

/-- **a field as norm**: the target of cell `i` is the value of the norm field at the cell
that contains the centre of cell `i` (per axis `clip(⌊(p − pmin)/cell⌋, 0, n − 1)`, i.e. a
centre lying exactly on a face belongs to the cell above it) -/
theorem fieldAsArray1_get {m : Mesh} {h : Fld} {t : NDA Rat} (ht : fieldAsArray1 m h = .ok t)
    (hm : m.Inv) (hh : h.mesh.Inv) (i : List Nat) (hi : ∀ a, a < m.ndim → i.getD a 0 < m.nAt a) :
    t.get i = (h.data.get (tab m.ndim fun a => h.mesh.indexAx a ((m.centre i).getD a 0))).getD 0 0 := by
  obtain ⟨hc, _, _, rfl⟩ := fieldAsArray1_ok ht
  have hnd : m.ndim = h.mesh.ndim := containsReg_ndim hc
  show (h.data.get _).getD 0 0 = _
  congr 2
  apply tab_congr
  intro a ha
  have ha' : a < h.mesh.ndim := hnd ▸ ha
  rw [cells_getD m hm i a ha (hi a ha), cells_axis h.mesh a ha' (hh.2.2 a ha')]
  rw [nearestIdx_midpoints _ _ _ _ (cellAt_pos h.mesh hh a ha') (hh.2.2 a ha')]
  rfl

theorem containsAx_self (r : Region) (a : Nat) (x : Rat) (h1 : r.lo a ≤ x) (h2 : x ≤ r.hi a) :
    r.containsAx a x = true := by
  unfold Region.containsAx
  simp [h1, h2]

theorem containsReg_self (r : Region) (hr : r.Inv) : r.containsReg r = true := by
  obtain ⟨_, hmax, _, _, _, hlt⟩ := hr
  unfold Region.containsReg Region.containsPt
  simp only [Bool.and_eq_true, decide_eq_true_eq]
  refine ⟨⟨rfl, ?_⟩, ⟨hmax, ?_⟩⟩
  · rw [allLt_iff]
    intro a ha
    exact containsAx_self r a _ le_rfl (hlt a ha).le
  · rw [allLt_iff]
    intro a ha
    exact containsAx_self r a _ (hlt a ha).le le_rfl

/-- a one-component field on the receiver's own mesh is accepted and cell `i` gets that
field's value at cell `i` -/
theorem fieldAsArray1_same (m : Mesh) (h : Fld) (hm : m.Inv) (hmesh : h.mesh = m) (hnv : h.nvdim = 1) :
    ∃ t, fieldAsArray1 m h = .ok t ∧ t.shape = m.n ∧
      ∀ i : List Nat, i.length = m.ndim → (∀ a, a < m.ndim → i.getD a 0 < m.nAt a) →
        t.get i = (h.data.get i).getD 0 0 := by
  have hacc : fieldAsArray1 m h = .ok ⟨m.n, fun i => (h.data.get (tab m.ndim fun a =>
      nearestIdx (h.mesh.cells.getD a []) ((m.cells.getD a []).getD (i.getD a 0) 0))).getD 0 0⟩ := by
    unfold fieldAsArray1
    rw [hmesh, containsReg_self m.region hm.1]
    simp [hnv]
  refine ⟨_, hacc, rfl, fun i hl hi => ?_⟩
  rw [fieldAsArray1_get hacc hm (hmesh ▸ hm) i hi]
  congr 2
  symm
  apply eq_tab_of_getD i m.ndim _ 0 hl
  intro a ha
  rw [hmesh, centre_getD m i a ha, indexAx_centre m a _ (hi a ha) (cellAt_pos m hm a ha)]

end DFV.C15
