import DFV.Lemmas.C14Tol
import DFV.Lemmas.C13Forms
/-! C14 / C13 (round 3): the copying form of a mesh step is the constructor applied to the in-place
result — for meshes whose subregions are proper regions but need NOT fit exactly (tolerance-accepted
boxes): it is accepted exactly when the in-place result passes the `bc` check and the setter's
three tolerant tests.  Finding D18 delimited. -/
namespace DFV.T
open DFV DFV.C14

/-- the region step and the subregion steps of a mesh step do not depend on the form — for
subregions that are proper regions (no exact fit needed) -/
theorem stepMU_parts_flag' (m : Mesh) (hm : m.Inv) (hp : ∀ p ∈ m.subs, p.2.Inv) (op : Op) (b b' : Bool) (x r' : Region)
    (subs' : List (String × Region))
    (hreg : stepR m.region (op.withInplace b) = .ok (x, r'))
    (hsub : mapSubs m.subs (fun s => stepR s (subOp m (op.withInplace b))) = .ok subs') :
    stepR m.region (op.withInplace b') = .ok (if b' then r' else m.region, r') ∧
    mapSubs m.subs (fun s => stepR s (subOp m (op.withInplace b'))) = .ok subs' := by
  refine ⟨stepR_flag _ hm.1 op b b' x r' hreg, ?_⟩
  apply mapSubs_iff _ _ _ _ _ hsub
  intro p hpm ret ⟨y, hy⟩
  rw [subOp_withInplace] at hy ⊢
  have := stepR_flag p.2 (hp p hpm) (subOp m op) b b' y ret hy
  exact ⟨_, this⟩

/-- the setter's check looks only at the region and the counts of the mesh -/
theorem candOk_congr (m m' : Mesh) (s : Region) (hr : m'.region = m.region) (hn : m'.n = m.n) : candOk m' s = candOk m s := by
  cases m; cases m'
  simp only at hr hn
  subst hr; subst hn
  rfl

/-- the mesh constructor with a subregion dictionary, as one conditional -/
theorem mkMesh?_eq (r : Region) (n : List Nat) (bc : String) (subs : List (String × Region))
    (hl : n.length = r.ndim) (hz : ∀ k ∈ n, 0 < k) :
    mkMesh? r n bc subs =
      if Mesh.bcOk r.dims bc.toLower = true ∧ ∀ p ∈ subs, candOk { region := r, n := n, bc := bc.toLower, subs := [] } p.2 = true then
        .ok { region := r, n := n, bc := bc.toLower, subs := subs.map (restamp r) }
      else .error .value := by
  unfold mkMesh? Mesh.mkN?
  rw [if_neg (not_not.mpr hl)]
  have hz' : n.any (· = 0) = false := by
    rw [List.any_eq_false]; intro k hk; have := hz k hk; simp; omega
  rw [hz']
  simp only [Bool.false_eq_true, if_false]
  cases hbc : Mesh.bcOk r.dims bc.toLower
  · simp
  · simp only [Bool.not_true, Bool.false_eq_true, if_false, true_and]
    unfold setSubs
    by_cases hall : (subs.all fun p => candOk { region := r, n := n, bc := bc.toLower, subs := [] } p.2) = true
    · rw [if_pos hall, if_pos (fun p hp => List.all_eq_true.mp hall p hp)]; rfl
    · rw [if_neg hall, if_neg (fun h => hall (List.all_eq_true.mpr h))]

/-- **The copying form is the constructor applied to the in-place result.**  For a mesh satisfying the
mesh invariant whose subregions are proper regions (NOT necessarily fitting exactly): if the
in-place form of a step is accepted with result `T`, the copying form evaluates
`Mesh(region=T.region, n=T.n, bc=T.bc, subregions=T.subregions)` — it returns that mesh (receiver
untouched) or is rejected with it; if the in-place form is rejected, so is the copying form. -/
theorem stepM_copy_is_ctor (m : Mesh) (hm : m.Inv) (hp : ∀ p ∈ m.subs, p.2.Inv) (op : Op) :
    (∀ T1 T2, stepM m (op.withInplace true) = .ok (T1, T2) →
      T1 = T2 ∧ stepM m (op.withInplace false) =
        match mkMesh? T2.region T2.n T2.bc T2.subs with
        | .error e => .error e
        | .ok m' => .ok (m, m')) ∧
    ((∃ e, stepM m (op.withInplace true) = .error e) → ∃ e, stepM m (op.withInplace false) = .error e) := by
  constructor
  · intro T1 T2 h
    rw [stepM_eq_stepMU] at h ⊢
    unfold stepMU at h ⊢
    split at h
    · cases h
    · cases h
    · rename_i x r' subs' hreg hsub
      obtain ⟨g1, g2⟩ := stepMU_parts_flag' m hm hp op true false x r' subs' hreg hsub
      rw [g1, g2]
      simp only [inplace_withInplace, if_true, Bool.false_eq_true, if_false, opN_withInplace, opBc_withInplace] at h ⊢
      injection h with h; injection h with ha hb
      subst ha
      refine ⟨hb, ?_⟩
      subst hb
      rfl
  · rintro ⟨e, he⟩
    cases hF : stepM m (op.withInplace false) with
    | error e' => exact ⟨e', rfl⟩
    | ok q =>
      exfalso
      obtain ⟨y, T⟩ := q
      rw [stepM_eq_stepMU] at he hF
      unfold stepMU at he hF
      split at hF
      · cases hF
      · cases hF
      · rename_i x r' subs' hreg hsub
        obtain ⟨g1, g2⟩ := stepMU_parts_flag' m hm hp op false true x r' subs' hreg hsub
        rw [g1, g2] at he
        simp only [inplace_withInplace, if_true] at he
        cases he

/-- **Copying form accepted ⟺ the in-place result passes the `bc` check and the setter's tests.**
Same hypotheses; `T` the in-place result.  Then the copying form is accepted iff `T.bc` (lower-cased)
passes the `bc` check and EVERY subregion of `T` passes the setter's check against `T` itself (`candOk`: the
three tolerant tests — inside, whole cells within 0.1 %, aligned within the absolute 1e-12 — on the
subregion re-created with `T`'s names, units and tolerance factor); and when it is, it
returns `T` with `bc` lower-cased and the subregions re-created with `T`'s metadata — so in-place ==
copying holds exactly when the in-place result passes (D18: with the absolute tolerance of
`is_aligned`, an in-place result whose subregions carry coordinate errors above 1e-12 does not). -/
theorem stepM_copy_accepted_iff (m : Mesh) (hm : m.Inv) (hp : ∀ p ∈ m.subs, p.2.Inv) (op : Op) (T1 T : Mesh)
    (hT : stepM m (op.withInplace true) = .ok (T1, T)) :
    ((∃ y m', stepM m (op.withInplace false) = .ok (y, m')) ↔
      (Mesh.bcOk T.region.dims T.bc.toLower = true ∧ ∀ p ∈ T.subs, candOk T p.2 = true)) ∧
    (∀ y m', stepM m (op.withInplace false) = .ok (y, m') →
      y = m ∧ m' = { T with bc := T.bc.toLower, subs := T.subs.map (restamp T.region) }) := by
  obtain ⟨_, hcopy⟩ := (stepM_copy_is_ctor m hm hp op).1 T1 T hT
  obtain ⟨_, hTi, _, _⟩ := stepM_keeps m hm _ _ _ hT
  have hz : ∀ k ∈ T.n, 0 < k := DFV.C13.mem_pos_of_nAt T hTi.2.1 hTi.2.2
  rw [mkMesh?_eq T.region T.n T.bc T.subs hTi.2.1 hz] at hcopy
  have hcong : ∀ p : String × Region,
      candOk { region := T.region, n := T.n, bc := T.bc.toLower, subs := [] } p.2 = candOk T p.2 :=
    fun p => candOk_congr T _ p.2 rfl rfl
  simp only [hcong] at hcopy
  constructor
  · constructor
    · rintro ⟨y, m', h⟩
      by_contra hn
      rw [hcopy, if_neg hn] at h
      cases h
    · intro h
      rw [hcopy, if_pos h]
      exact ⟨_, _, rfl⟩
  · intro y m' h
    rw [hcopy] at h
    by_cases hc : Mesh.bcOk T.region.dims T.bc.toLower = true ∧ ∀ p ∈ T.subs, candOk T p.2 = true
    · rw [if_pos hc] at h
      injection h with h; injection h with h1 h2
      exact ⟨h1.symm, h2.symm⟩
    · rw [if_neg hc] at h; cases h

end DFV.T
