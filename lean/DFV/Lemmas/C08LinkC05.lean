import DFV.Model.C05
import DFV.Lemmas.C08Wf
/-! C08 helper lemmas, part 15: the object-level link to the C05 model.  `C05.grad`, `C05.div`,
`C05.curl`, `C05.laplace` (and `C04.diff` / `C05.diffDim` underneath) return a field whose validity
array has the operand's shape and the operand's entry at EVERY index. -/
namespace DFV.C08
open DFV

/-- same shape, same entries (the C05 model stores the array it is handed, without a copy) -/
def SameMask (m m0 : NDA Bool) : Prop := m.shape = m0.shape ∧ ∀ j, m.get j = m0.get j

theorem SameMask.refl (m : NDA Bool) : SameMask m m := ⟨rfl, fun _ => rfl⟩

theorem SameMask.of_eq {m m0 : NDA Bool} (h : m = m0) : SameMask m m0 := by subst h; exact SameMask.refl _

theorem SameMask.and {a b m0 : NDA Bool} (ha : SameMask a m0) (hb : SameMask b m0) :
    SameMask (C05.andValid a b) m0 :=
  ⟨ha.1, fun j => by show (a.get j && b.get j) = _; rw [ha.2 j, hb.2 j, Bool.and_self]⟩

theorem c05_mkFld_valid {mesh : Mesh} {nv : Nat} {data : NDA (List Rat)} {valid : NDA Bool} {vd vm u} {g : Fld}
    (h : C05.mkFld mesh nv data valid vd vm u = .ok g) : g.valid = valid := by
  unfold C05.mkFld at h
  split at h
  · cases h
  · split at h
    · cases h
    · split at h
      · cases h
      · simp only [Except.ok.injEq] at h; subst h; rfl

theorem c05_getComp_valid {f g : Fld} {l : String} (h : C05.getComp f l = .ok g) : g.valid = f.valid := by
  unfold C05.getComp at h
  split at h
  · cases h
  · exact c05_mkFld_valid h

theorem c04_diff_valid {f g : Fld} {ax o : Nat} {r : Bool} (h : C04.diff f ax o r = .ok g) : g.valid = f.valid := by
  unfold C04.diff at h
  split at h
  · cases h
  · split at h
    · cases h
    · simp only [Except.ok.injEq] at h; subst h; rfl

theorem c05_diffDim_valid {f g : Fld} {d : String} {o : Nat} (h : C05.diffDim f d o = .ok g) : g.valid = f.valid := by
  unfold C05.diffDim at h
  split at h
  · cases h
  · split at h
    · cases h
    · exact c04_diff_valid h

theorem c05_binop_valid {op : Rat → Rat → Rat} {a b g : Fld} (h : C05.binop op a b = .ok g) :
    g.valid = C05.andValid a.valid b.valid := by
  unfold C05.binop at h
  split at h
  · cases h
  · split at h
    · cases h
    · exact c05_mkFld_valid h

theorem c05_addNum_valid {a g : Fld} {q : Rat} (h : C05.addNum a q = .ok g) : g.valid = a.valid :=
  c05_mkFld_valid h

theorem c05_lshift_valid {a b g : Fld} (h : C05.lshift a b = .ok g) : g.valid = C05.andValid a.valid b.valid := by
  unfold C05.lshift at h
  split at h
  · cases h
  · exact c05_mkFld_valid h

theorem c05_mapE_mem {α β} (gfn : α → M β) : ∀ (xs : List α) (ys : List β), C05.mapE gfn xs = .ok ys →
    ys.length = xs.length ∧ ∀ y ∈ ys, ∃ x ∈ xs, gfn x = .ok y := by
  intro xs
  induction xs with
  | nil => intro ys h; simp only [C05.mapE, Except.ok.injEq] at h; subst h; simp
  | cons x xs ih =>
    intro ys h
    simp only [C05.mapE] at h
    split at h
    · cases h
    · rename_i y hy
      split at h
      · cases h
      · rename_i ys' hys'
        simp only [Except.ok.injEq] at h; subst h
        obtain ⟨h1, h2⟩ := ih ys' hys'
        refine ⟨by simp [h1], fun z hz => ?_⟩
        rcases List.mem_cons.mp hz with rfl | hz
        · exact ⟨x, by simp, hy⟩
        · obtain ⟨x', hx', hg⟩ := h2 z hz
          exact ⟨x', by simp [hx'], hg⟩

theorem c05_stackGo_valid (m0 : NDA Bool) : ∀ (ds : List Fld) (acc g : Fld), C05.stackGo acc ds = .ok g →
    SameMask acc.valid m0 → (∀ d ∈ ds, SameMask d.valid m0) → SameMask g.valid m0 := by
  intro ds
  induction ds with
  | nil => intro acc g h ha _; simp only [C05.stackGo, Except.ok.injEq] at h; subst h; exact ha
  | cons d ds ih =>
    intro acc g h ha hd
    simp only [C05.stackGo] at h
    split at h
    · cases h
    · rename_i r hr
      refine ih r g h ?_ (fun d' hd' => hd d' (by simp [hd']))
      rw [c05_lshift_valid hr]
      exact SameMask.and ha (hd d (by simp))

theorem c05_stack_valid (m0 : NDA Bool) (ds : List Fld) (g : Fld) (h : C05.stack ds = .ok g)
    (hd : ∀ d ∈ ds, SameMask d.valid m0) : SameMask g.valid m0 ∧ ds ≠ [] := by
  cases ds with
  | nil => simp [C05.stack] at h
  | cons d ds =>
    exact ⟨c05_stackGo_valid m0 ds d g h (hd d (by simp)) (fun d' hd' => hd d' (by simp [hd'])), by simp⟩

theorem c05_sumGo_valid (m0 : NDA Bool) : ∀ (ts : List Fld) (acc g : Fld), C05.sumGo acc ts = .ok g →
    SameMask acc.valid m0 → (∀ t ∈ ts, SameMask t.valid m0) → SameMask g.valid m0 := by
  intro ts
  induction ts with
  | nil => intro acc g h ha _; simp only [C05.sumGo, Except.ok.injEq] at h; subst h; exact ha
  | cons t ts ih =>
    intro acc g h ha ht
    simp only [C05.sumGo] at h
    split at h
    · cases h
    · rename_i r hr
      refine ih r g h ?_ (fun t' ht' => ht t' (by simp [ht']))
      have : r.valid = C05.andValid acc.valid t.valid := c05_binop_valid hr
      rw [this]
      exact SameMask.and ha (ht t (by simp))

theorem c05_sumF_valid (m0 : NDA Bool) (ts : List Fld) (g : Fld) (h : C05.sumF ts = .ok g)
    (ht : ∀ t ∈ ts, SameMask t.valid m0) : SameMask g.valid m0 ∧ ts ≠ [] := by
  cases ts with
  | nil => simp [C05.sumF] at h
  | cons t ts =>
    simp only [C05.sumF] at h
    split at h
    · cases h
    · rename_i acc hacc
      refine ⟨c05_sumGo_valid m0 ts acc g h ?_ (fun t' ht' => ht t' (by simp [ht'])), by simp⟩
      rw [c05_addNum_valid hacc]; exact ht t (by simp)

/-- `Field.grad` -/
theorem c05_grad_valid (f g : Fld) (h : C05.grad f = .ok g) :
    SameMask g.valid f.valid ∧ 0 < f.mesh.region.dims.length := by
  unfold C05.grad at h
  split at h
  · cases h
  · split at h
    · cases h
    · rename_i ds hds
      obtain ⟨hl, hm⟩ := c05_mapE_mem _ _ _ hds
      obtain ⟨h1, h2⟩ := c05_stack_valid f.valid ds g h (fun d hd => by
        obtain ⟨x, _, hx⟩ := hm d hd
        exact SameMask.of_eq (c05_diffDim_valid hx))
      refine ⟨h1, ?_⟩
      rw [← hl]
      exact List.length_pos_iff.mpr h2

theorem c05_divTerm_valid {f t : Fld} {v : String} (h : C05.divTerm f v = .ok t) : t.valid = f.valid := by
  unfold C05.divTerm at h
  split at h
  · cases h
  · split at h
    · cases h
    · rename_i c hc
      rw [c05_diffDim_valid h, c05_getComp_valid hc]

/-- `Field.div` -/
theorem c05_div_valid (f g : Fld) (h : C05.div f = .ok g) :
    SameMask g.valid f.valid ∧ ∃ vs, f.vdims = some vs ∧ 0 < vs.length := by
  unfold C05.div at h
  split at h
  · cases h
  · split at h
    · cases h
    · rename_i vs hvs
      split at h
      · cases h
      · split at h
        · cases h
        · rename_i ts hts
          obtain ⟨hl, hm⟩ := c05_mapE_mem _ _ _ hts
          obtain ⟨h1, h2⟩ := c05_sumF_valid f.valid ts g h (fun t ht => by
            obtain ⟨x, _, hx⟩ := hm t ht
            exact SameMask.of_eq (c05_divTerm_valid hx))
          refine ⟨h1, vs, hvs, ?_⟩
          rw [← hl]
          exact List.length_pos_iff.mpr h2

theorem c05_compOfDim_valid {f c : Fld} {d : String} (h : C05.compOfDim f d = .ok c) : c.valid = f.valid := by
  unfold C05.compOfDim at h
  split at h
  · cases h
  · exact c05_getComp_valid h

theorem c05_curlComp_valid {f t : Fld} {d1 e1 d2 e2 : String} (h : C05.curlComp f d1 e1 d2 e2 = .ok t) :
    SameMask t.valid f.valid := by
  unfold C05.curlComp at h
  split at h
  · cases h
  · rename_i c1 hc1
    split at h
    · cases h
    · rename_i t1 ht1
      split at h
      · cases h
      · rename_i c2 hc2
        split at h
        · cases h
        · rename_i t2 ht2
          have : t.valid = C05.andValid t1.valid t2.valid := c05_binop_valid h
          rw [this]
          refine SameMask.and (SameMask.of_eq ?_) (SameMask.of_eq ?_)
          · rw [c05_diffDim_valid ht1, c05_compOfDim_valid hc1]
          · rw [c05_diffDim_valid ht2, c05_compOfDim_valid hc2]

/-- `Field.curl` -/
theorem c05_curl_valid (f g : Fld) (h : C05.curl f = .ok g) : SameMask g.valid f.valid := by
  unfold C05.curl at h
  split at h
  · cases h
  · split at h
    · cases h
    · split at h
      · cases h
      · split at h
        · rename_i x y z _
          split at h
          · cases h
          · rename_i cx hcx
            split at h
            · cases h
            · rename_i cy hcy
              split at h
              · cases h
              · rename_i cz hcz
                split at h
                · cases h
                · rename_i cxy hcxy
                  rw [c05_lshift_valid h]
                  refine SameMask.and ?_ (c05_curlComp_valid hcz)
                  rw [c05_lshift_valid hcxy]
                  exact SameMask.and (c05_curlComp_valid hcx) (c05_curlComp_valid hcy)
        · cases h

theorem c05_setVmap_valid {f g : Fld} {vm} (h : C05.setVmap f vm = .ok g) : g.valid = f.valid := by
  unfold C05.setVmap at h
  split at h
  · cases h
  · simp only [Except.ok.injEq] at h; subst h; rfl

theorem c05_setVdims_valid {f g : Fld} {vd} (h : C05.setVdims f vd = .ok g) : g.valid = f.valid := by
  unfold C05.setVdims at h
  split at h
  · cases h
  · split at h
    · split at h
      · split at h
        · cases h
        · exact (c05_setVmap_valid h).trans rfl
      · simp only [Except.ok.injEq] at h; subst h; rfl
    · simp only [Except.ok.injEq] at h; subst h; rfl
    · simp only [Except.ok.injEq] at h; subst h; rfl

theorem c05_lapComp_valid {f t : Fld} {v : String} (h : C05.lapComp f v = .ok t) :
    SameMask t.valid f.valid ∧ 0 < f.mesh.region.dims.length := by
  unfold C05.lapComp at h
  split at h
  · cases h
  · rename_i ts hts
    obtain ⟨hl, hm⟩ := c05_mapE_mem _ _ _ hts
    obtain ⟨h1, h2⟩ := c05_sumF_valid f.valid ts t h (fun t' ht' => by
      obtain ⟨x, _, hx⟩ := hm t' ht'
      split at hx
      · cases hx
      · rename_i c hc
        exact SameMask.of_eq (by rw [c05_diffDim_valid hx, c05_getComp_valid hc]))
    refine ⟨h1, ?_⟩
    rw [← hl]
    exact List.length_pos_iff.mpr h2

/-- `Field.laplace` -/
theorem c05_laplace_valid (f g : Fld) (h : C05.laplace f = .ok g) :
    SameMask g.valid f.valid ∧ 0 < f.mesh.region.dims.length ∧
      (f.nvdim ≠ 1 → ∃ vs, f.vdims = some vs ∧ 0 < vs.length) := by
  unfold C05.laplace at h
  split at h
  · rename_i hn
    split at h
    · cases h
    · rename_i ts hts
      obtain ⟨hl, hm⟩ := c05_mapE_mem _ _ _ hts
      obtain ⟨h1, h2⟩ := c05_sumF_valid f.valid ts g h (fun t ht => by
        obtain ⟨x, _, hx⟩ := hm t ht
        exact SameMask.of_eq (c05_diffDim_valid hx))
      refine ⟨h1, ?_, fun hne => absurd hn hne⟩
      rw [← hl]
      exact List.length_pos_iff.mpr h2
  · split at h
    · cases h
    · rename_i vs hvs
      split at h
      · cases h
      · rename_i ds hds
        split at h
        · cases h
        · rename_i r hr
          split at h
          · cases h
          · rename_i r' hr'
            obtain ⟨hl, hm⟩ := c05_mapE_mem _ _ _ hds
            obtain ⟨h1, h2⟩ := c05_stack_valid f.valid ds r hr (fun d hd => by
              obtain ⟨x, _, hx⟩ := hm d hd
              exact (c05_lapComp_valid hx).1)
            obtain ⟨d0, hd0⟩ := List.exists_mem_of_ne_nil ds h2
            obtain ⟨x0, _, hx0⟩ := hm d0 hd0
            refine ⟨?_, (c05_lapComp_valid hx0).2, fun _ => ⟨vs, hvs, ?_⟩⟩
            · rw [c05_setVmap_valid h, c05_setVdims_valid hr']; exact h1
            · rw [← hl]; exact List.length_pos_iff.mpr h2

end DFV.C08
