import Mathlib.Tactic.Ring
import Mathlib.Tactic.Linarith
import Mathlib.Tactic.FieldSimp
import Mathlib.Tactic.Push
import Mathlib.Tactic.SplitIfs
import DFV.Model.C05
import DFV.Props.C04
/-! helper lemmas for C05 (constructor path, component access, stacking, sums; spec-level `D`) -/
namespace DFV.C05
open DFV

theorem cellv_length (f : Fld) (i : List Nat) : (cellv f i).length = f.nvdim := by simp [cellv]

theorem cellv_getD (f : Fld) (i : List Nat) (c : Nat) (hc : c < f.nvdim) :
    (cellv f i).getD c 0 = (f.data.get i).getD c 0 := by
  unfold cellv; rw [getD_tab _ _ _ _ hc]

/-! ## constructor path -/

theorem mkFld_ok {mesh : Mesh} {nvdim : Nat} {data : NDA (List Rat)} {valid : NDA Bool}
    {vdims : Option (List String)} {vmap : Option (List (String × String))} {unit : Option String} {g : Fld}
    (h : mkFld mesh nvdim data valid vdims vmap unit = .ok g) :
    g.mesh = mesh ∧ g.nvdim = nvdim ∧ g.data = data ∧ g.valid = valid ∧ g.unit = unit ∧ 1 ≤ nvdim ∧
    vdimsSet nvdim vdims = .ok g.vdims ∧ vmapSet mesh nvdim g.vdims vmap = .ok g.vmap := by
  unfold mkFld at h
  split at h
  · cases h
  · split at h
    · cases h
    · split at h
      · cases h
      · injection h with h
        subst h
        simp_all
        omega

/-! ## diff -/

theorem diff_ok {f g : Fld} {ax order : Nat} {r : Bool} (h : C04.diff f ax order r = .ok g) :
    g.mesh = f.mesh ∧ g.nvdim = f.nvdim ∧ g.valid = f.valid ∧ g.vdims = f.vdims ∧ g.vmap = f.vmap ∧
    g.unit = f.unit ∧ (order = 1 ∨ order = 2) ∧ ax < f.mesh.ndim ∧ g.data.shape = f.data.shape := by
  unfold C04.diff at h
  split at h
  · cases h
  · split at h
    · cases h
    · injection h with h
      subst h
      refine ⟨rfl, rfl, rfl, rfl, rfl, rfl, ?_, ?_, rfl⟩ <;> omega

theorem diff_data {f g : Fld} {ax order : Nat} (h : C04.diff f ax order true = .ok g)
    (i : List Nat) (c : Nat) (hc : c < f.nvdim) : (g.data.get i).getD c 0 = D f ax order c i := by
  unfold C04.diff at h
  split at h
  · cases h
  · split at h
    · cases h
    · injection h with h
      subst h
      simp only []
      rw [getD_tab _ _ _ _ hc]
      rfl

theorem indexOf?_go_getD (xs : List String) (k a : Nat) (hd : hasDup xs = false) (ha : a < xs.length) :
    indexOf?.go (xs.getD a "") xs k = some (k + a) := by
  induction xs generalizing k a with
  | nil => simp at ha
  | cons x xs ih =>
    unfold indexOf?.go
    cases a with
    | zero => simp
    | succ a =>
      simp only [hasDup, Bool.or_eq_false_iff] at hd
      have hx : x ≠ (x :: xs).getD (a + 1) "" := by
        intro he
        have hm : xs.contains x = true := by
          rw [he]
          simp only [List.getD_cons_succ]
          rw [List.getD_eq_getElem?_getD, List.getElem?_eq_getElem (by simpa using ha)]
          simp
        rw [hm] at hd
        exact absurd hd.1 (by simp)
      simp only [hx, if_false]
      rw [List.getD_cons_succ, ih (k + 1) a hd.2 (by simpa using ha)]
      congr 1; omega

theorem indexOf?_getD (xs : List String) (a : Nat) (hd : hasDup xs = false) (ha : a < xs.length) :
    indexOf? xs (xs.getD a "") = some a := by
  unfold indexOf?
  rw [indexOf?_go_getD xs 0 a hd ha]; simp

theorem diffDim_eq (f : Fld) (a order : Nat) (hd : hasDup f.mesh.region.dims = false)
    (ha : a < f.mesh.region.dims.length) :
    diffDim f (f.mesh.region.dims.getD a "") order = C04.diff f a order true := by
  unfold diffDim
  rw [indexOf?_getD _ _ hd ha]
  unfold C04.diff
  by_cases ho : order ≠ 1 ∧ order ≠ 2 <;> simp [ho]


/-! ## component access -/

theorem vdimIndex_getD (f : Fld) (vs : List String) (hv : f.vdims = some vs) (hd : hasDup vs = false)
    (c : Nat) (hc : c < vs.length) : f.vdimIndex (vs.getD c "") = some c := by
  unfold Fld.vdimIndex
  rw [hv]
  exact indexOf?_getD vs c hd hc

theorem getComp_ok {f g : Fld} {l : String} {k : Nat} (hk : f.vdimIndex l = some k) (h : getComp f l = .ok g) :
    g.mesh = f.mesh ∧ g.nvdim = 1 ∧ g.valid = f.valid ∧ g.unit = f.unit ∧ g.vdims = none ∧ g.vmap = [] ∧
    g.data.shape = f.data.shape ∧ ∀ i, g.data.get i = [(f.data.get i).getD k 0] := by
  unfold getComp at h
  rw [hk] at h
  have m := mkFld_ok h
  obtain ⟨m1, m2, m3, m4, m5, _, m7, m8⟩ := m
  have hv : g.vdims = none := by
    simp [vdimsSet, Fld.defaultVdims] at m7
    exact m7.symm
  refine ⟨m1, m2, m4, m5, hv, ?_, ?_, ?_⟩
  · rw [hv] at m8
    unfold vmapSet at m8
    cases hl : Fld.lookup f.vmap l <;> simp [hl] at m8 <;> exact m8
  · rw [m3]
  · intro i; rw [m3]

/-- the component field sees the same lines: its derivative is the derivative of that component -/
theorem D_getComp {f g : Fld} {l : String} {k : Nat} (hk : f.vdimIndex l = some k) (h : getComp f l = .ok g)
    (ax order : Nat) (i : List Nat) : D g ax order 0 i = D f ax order k i := by
  obtain ⟨m1, _, m3, _, _, _, _, m8⟩ := getComp_ok hk h
  unfold D periodic NDA.line
  rw [m1, m3]
  simp only [m8]
  rfl

/-! ## `<<` and stacking -/

theorem lshift_ok {a b g : Fld} (h : lshift a b = .ok g) :
    g.mesh = a.mesh ∧ a.mesh = b.mesh ∧ g.nvdim = a.nvdim + b.nvdim ∧ g.valid = andValid a.valid b.valid ∧
    g.unit = none ∧ (∀ i, g.data.get i = cellv a i ++ cellv b i) ∧
    vdimsSet (a.nvdim + b.nvdim) (lshiftVdims a.vdims b.vdims) = .ok g.vdims ∧
    vmapSet a.mesh (a.nvdim + b.nvdim) g.vdims (lshiftVmap a b) = .ok g.vmap := by
  unfold lshift at h
  split at h
  · cases h
  · rename_i hm
    obtain ⟨m1, m2, m3, m4, m5, _, m7, m8⟩ := mkFld_ok h
    refine ⟨m1, by simpa using hm, m2, m4, m5, ?_, m7, m8⟩
    intro i; rw [m3]; rfl

theorem cellv_lshift {a b g : Fld} (h : lshift a b = .ok g) (i : List Nat) :
    cellv g i = cellv a i ++ cellv b i := by
  obtain ⟨_, _, m2, _, _, m3, _, _⟩ := lshift_ok h
  have hl : (cellv a i ++ cellv b i).length = g.nvdim := by simp [cellv_length, m2]
  unfold cellv at hl ⊢
  rw [m3 i]
  apply List.ext_getElem
  · simp [m2]
  · intro k h1 h2
    rw [getElem_tab]
    unfold cellv
    rw [List.getD_eq_getElem?_getD, List.getElem?_eq_getElem h2]; rfl

/-- stacking scalar fields: the components are the stacked fields, in order -/
theorem stackGo_ok (ds : List Fld) : ∀ (acc g : Fld), (∀ d ∈ ds, d.nvdim = 1) → stackGo acc ds = .ok g →
    g.mesh = acc.mesh ∧ g.nvdim = acc.nvdim + ds.length ∧
    (∀ i, cellv g i = cellv acc i ++ ds.map fun d => (d.data.get i).getD 0 0) ∧
    (∀ i, g.valid.get i = (acc.valid.get i && ds.all fun d => d.valid.get i)) := by
  induction ds with
  | nil =>
    intro acc g _ h
    simp only [stackGo] at h
    injection h with h; subst h; simp
  | cons d ds ih =>
    intro acc g hs h
    simp only [stackGo] at h
    split at h
    · cases h
    · rename_i r hr
      have hd1 : d.nvdim = 1 := hs d (by simp)
      obtain ⟨e1, e2, e3, e4⟩ := ih r g (fun d' hd' => hs d' (by simp [hd'])) h
      obtain ⟨m1, _, m2, m4, _, _, _, _⟩ := lshift_ok hr
      refine ⟨by rw [e1, m1], by rw [e2, m2, hd1]; simp; omega, ?_, ?_⟩
      · intro i
        rw [e3 i, cellv_lshift hr i]
        have : cellv d i = [(d.data.get i).getD 0 0] := by simp [cellv, hd1, tab]
        rw [this]; simp
      · intro i
        rw [e4 i, m4]; simp [andValid, Bool.and_assoc]

/-! ## `+`, `-`, `sum` -/

theorem binop_ok {op : Rat → Rat → Rat} {a b g : Fld} (h : binop op a b = .ok g) :
    g.mesh = a.mesh ∧ a.mesh = b.mesh ∧ g.nvdim = max a.nvdim b.nvdim ∧ g.valid = andValid a.valid b.valid ∧
    g.unit = none ∧
    ∀ i, g.data.get i = tab (max a.nvdim b.nvdim) fun c =>
        op ((a.data.get i).getD (if a.nvdim = 1 then 0 else c) 0)
           ((b.data.get i).getD (if b.nvdim = 1 then 0 else c) 0) := by
  unfold binop at h
  split at h
  · cases h
  · rename_i hm
    split at h
    · cases h
    · obtain ⟨m1, m2, m3, m4, m5, _, _, _⟩ := mkFld_ok h
      refine ⟨m1, by simpa using hm, m2, m4, m5, ?_⟩
      intro i; rw [m3]

/-- two scalar fields -/
theorem binop_scalar {op : Rat → Rat → Rat} {a b g : Fld} (ha : a.nvdim = 1) (hb : b.nvdim = 1)
    (h : binop op a b = .ok g) :
    g.mesh = a.mesh ∧ g.nvdim = 1 ∧ (∀ i, g.valid.get i = (a.valid.get i && b.valid.get i)) ∧
    ∀ i, (g.data.get i).getD 0 0 = op ((a.data.get i).getD 0 0) ((b.data.get i).getD 0 0) := by
  obtain ⟨m1, _, m2, m4, _, m3⟩ := binop_ok h
  refine ⟨m1, by rw [m2, ha, hb]; rfl, ?_, ?_⟩
  · intro i; rw [m4]; rfl
  · intro i; rw [m3 i, ha, hb]; simp [tab]

theorem addNum_ok {a g : Fld} {q : Rat} (h : addNum a q = .ok g) :
    g.mesh = a.mesh ∧ g.nvdim = a.nvdim ∧ g.valid = a.valid ∧ g.unit = none ∧
    ∀ i c, c < a.nvdim → (g.data.get i).getD c 0 = (a.data.get i).getD c 0 + q := by
  unfold addNum at h
  obtain ⟨m1, m2, m3, m4, m5, _, _, _⟩ := mkFld_ok h
  refine ⟨m1, m2, m4, m5, ?_⟩
  intro i c hc
  rw [m3]; simp only []
  rw [getD_tab _ _ _ _ hc]

theorem sumTo_congr (n : Nat) (f g : Nat → Rat) (h : ∀ k, k < n → f k = g k) : sumTo n f = sumTo n g := by
  induction n with
  | zero => rfl
  | succ n ih => simp only [sumTo]; rw [ih (fun k hk => h k (by omega)), h n (by omega)]

theorem sumTo_succ' (n : Nat) (f : Nat → Rat) : sumTo (n + 1) f = f 0 + sumTo n fun k => f (k + 1) := by
  induction n with
  | zero => simp [sumTo]
  | succ n ih => rw [sumTo, ih]; simp only [sumTo]; ring

theorem sumGo_ok (ts : List Fld) : ∀ (acc g : Fld), acc.nvdim = 1 → (∀ t ∈ ts, t.nvdim = 1) →
    sumGo acc ts = .ok g →
    g.mesh = acc.mesh ∧ g.nvdim = 1 ∧
    (∀ i, g.valid.get i = (acc.valid.get i && ts.all fun t => t.valid.get i)) ∧
    ∀ i, (g.data.get i).getD 0 0 = (acc.data.get i).getD 0 0 + sumTo ts.length fun k => ((ts.getD k acc).data.get i).getD 0 0 := by
  induction ts with
  | nil =>
    intro acc g ha _ h
    simp only [sumGo] at h
    injection h with h; subst h
    simp [sumTo, ha]
  | cons t ts ih =>
    intro acc g ha hs h
    simp only [sumGo] at h
    split at h
    · cases h
    · rename_i r hr
      have ht1 : t.nvdim = 1 := hs t (by simp)
      obtain ⟨b1, b2, b3, b4⟩ := binop_scalar ha ht1 hr
      obtain ⟨e1, e2, e3, e4⟩ := ih r g b2 (fun t' ht' => hs t' (by simp [ht'])) h
      refine ⟨by rw [e1, b1], e2, ?_, ?_⟩
      · intro i; rw [e3 i, b3 i]; simp [Bool.and_assoc]
      · intro i
        rw [e4 i, b4 i, List.length_cons, sumTo_succ']
        simp only [List.getD_cons_zero, List.getD_cons_succ]
        rw [sumTo_congr _ (fun k => ((ts.getD k r).data.get i).getD 0 0) (fun k => ((ts.getD k acc).data.get i).getD 0 0)]
        · ring
        · intro k hk
          simp only [List.getD_eq_getElem?_getD, List.getElem?_eq_getElem hk, Option.getD_some]

/-- builtin `sum` over scalar fields: the cell values are added up, starting from `0` -/
theorem sumF_ok (ts : List Fld) (g : Fld) (hs : ∀ t ∈ ts, t.nvdim = 1) (h : sumF ts = .ok g) :
    ∃ t0, ts.head? = some t0 ∧ g.mesh = t0.mesh ∧ g.nvdim = 1 ∧ g.unit = none ∧
    (∀ i, g.valid.get i = ts.all fun t => t.valid.get i) ∧
    ∀ i, (g.data.get i).getD 0 0 = sumTo ts.length fun k => ((ts.getD k t0).data.get i).getD 0 0 := by
  cases ts with
  | nil => simp [sumF] at h
  | cons t ts =>
    simp only [sumF] at h
    split at h
    · cases h
    · rename_i acc hacc
      have ht1 : t.nvdim = 1 := hs t (by simp)
      obtain ⟨a1, a2, a3, a4, a5⟩ := addNum_ok hacc
      obtain ⟨e1, e2, e3, e4⟩ := sumGo_ok ts acc g (by rw [a2, ht1]) (fun t' ht' => hs t' (by simp [ht'])) h
      refine ⟨t, rfl, by rw [e1, a1], e2, ?_, ?_, ?_⟩
      · -- unit: the last `+` (or the reflected add) drops it
        cases ts with
        | nil => simp only [sumGo] at h; injection h with h; subst h; exact a4
        | cons t' ts' =>
          -- result of a binop chain: unit none at every step
          have : ∀ (l : List Fld) (a r : Fld), a.unit = none → sumGo a l = .ok r → r.unit = none := by
            intro l
            induction l with
            | nil => intro a r hu hh; simp only [sumGo] at hh; injection hh with hh; subst hh; exact hu
            | cons x l ihl =>
              intro a r _ hh
              simp only [sumGo] at hh
              split at hh
              · cases hh
              · rename_i r' hr'
                exact ihl r' r (binop_ok hr').2.2.2.2.1 hh
          exact this _ _ _ a4 h
      · intro i; rw [e3 i, a3]; simp
      · intro i
        rw [e4 i, a5 i 0 (by omega), List.length_cons, sumTo_succ']
        simp only [List.getD_cons_zero, List.getD_cons_succ]
        rw [sumTo_congr _ (fun k => ((ts.getD k acc).data.get i).getD 0 0) (fun k => ((ts.getD k t).data.get i).getD 0 0)]
        · ring
        · intro k hk
          simp only [List.getD_eq_getElem?_getD, List.getElem?_eq_getElem hk, Option.getD_some]

/-! ## list plumbing -/

theorem mapE_ok {α β} (g : α → M β) : ∀ (xs : List α) (ys : List β), mapE g xs = .ok ys →
    ys.length = xs.length ∧ ∀ k (h1 : k < xs.length) (h2 : k < ys.length), g xs[k] = .ok ys[k] := by
  intro xs
  induction xs with
  | nil => intro ys h; simp only [mapE] at h; injection h with h; subst h; simp
  | cons x xs ih =>
    intro ys h
    simp only [mapE] at h
    split at h
    · cases h
    · rename_i y hy
      split at h
      · cases h
      · rename_i ys' hys
        injection h with h; subst h
        obtain ⟨l, e⟩ := ih ys' hys
        refine ⟨by simp [l], ?_⟩
        intro k h1 h2
        cases k with
        | zero => simpa using hy
        | succ k => simpa using e k (by simpa using h1) (by simpa using h2)

end DFV.C05
