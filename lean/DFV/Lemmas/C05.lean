import Mathlib.Tactic.Ring
import Mathlib.Tactic.Linarith
import Mathlib.Tactic.FieldSimp
import Mathlib.Tactic.Push
import Mathlib.Tactic.SplitIfs
import DFV.Model.C05
import DFV.Props.C04
/-! helper lemmas for C05 (constructor path, component access, stacking, sums; spec-level `D`) -/
set_option linter.unusedSimpArgs false
namespace DFV.C05
open DFV DFV.C04

theorem cellv_length (f : Fld) (i : List Nat) : (cellv f i).length = f.nvdim := by simp [cellv]

theorem cellv_getD (f : Fld) (i : List Nat) (c : Nat) (hc : c < f.nvdim) :
    (cellv f i).getD c 0 = (f.data.get i).getD c 0 := by
  unfold cellv; rw [getD_tab _ _ _ _ hc]

/-! ## constructor path -/

theorem mkFld_ok {mesh : Mesh} {nvdim : Nat} {data : NDA (List Rat)} {valid : NDA Bool}
    {vdims : Option (List String)} {vmap : Option (List (String × String))} {unit : Option String} {g : Fld}
    (h : mkFld mesh nvdim data valid vdims vmap unit = .ok g) :
    g.mesh = mesh ∧ g.nvdim = nvdim ∧ g.data = data ∧ g.valid = valid ∧ g.unit = unit ∧ 1 ≤ nvdim ∧
    vdimsSet nvdim vdims = .ok g.vdims ∧ vmapSet mesh nvdim g.vdims vmap = .ok g.vmap := by
  unfold mkFld at h
  split at h
  · cases h
  · split at h
    · cases h
    · split at h
      · cases h
      · injection h with h
        subst h
        simp_all
        omega

/-! ## diff -/

theorem diff_ok {f g : Fld} {ax order : Nat} {r : Bool} (h : C04.diff f ax order r = .ok g) :
    g.mesh = f.mesh ∧ g.nvdim = f.nvdim ∧ g.valid = f.valid ∧ g.vdims = f.vdims ∧ g.vmap = f.vmap ∧
    g.unit = f.unit ∧ (order = 1 ∨ order = 2) ∧ ax < f.mesh.ndim ∧ g.data.shape = f.data.shape := by
  unfold C04.diff at h
  split at h
  · cases h
  · split at h
    · cases h
    · injection h with h
      subst h
      refine ⟨rfl, rfl, rfl, rfl, rfl, rfl, ?_, ?_, rfl⟩ <;> omega

theorem diff_data {f g : Fld} {ax order : Nat} (h : C04.diff f ax order true = .ok g)
    (i : List Nat) (c : Nat) (hc : c < f.nvdim) : (g.data.get i).getD c 0 = D f ax order c i := by
  unfold C04.diff at h
  split at h
  · cases h
  · split at h
    · cases h
    · injection h with h
      subst h
      simp only []
      rw [getD_tab _ _ _ _ hc]
      rfl

theorem indexOf?_go_getD (xs : List String) (k a : Nat) (hd : hasDup xs = false) (ha : a < xs.length) :
    indexOf?.go (xs.getD a "") xs k = some (k + a) := by
  induction xs generalizing k a with
  | nil => simp at ha
  | cons x xs ih =>
    unfold indexOf?.go
    cases a with
    | zero => simp
    | succ a =>
      simp only [hasDup, Bool.or_eq_false_iff] at hd
      have hx : x ≠ (x :: xs).getD (a + 1) "" := by
        intro he
        have hm : xs.contains x = true := by
          rw [he]
          simp only [List.getD_cons_succ]
          rw [List.getD_eq_getElem?_getD, List.getElem?_eq_getElem (by simpa using ha)]
          simp
        rw [hm] at hd
        exact absurd hd.1 (by simp)
      simp only [hx, if_false]
      rw [List.getD_cons_succ, ih (k + 1) a hd.2 (by simpa using ha)]
      congr 1; omega

theorem indexOf?_getD (xs : List String) (a : Nat) (hd : hasDup xs = false) (ha : a < xs.length) :
    indexOf? xs (xs.getD a "") = some a := by
  unfold indexOf?
  rw [indexOf?_go_getD xs 0 a hd ha]; simp

theorem diffDim_eq (f : Fld) (a order : Nat) (hd : hasDup f.mesh.region.dims = false)
    (ha : a < f.mesh.region.dims.length) :
    diffDim f (f.mesh.region.dims.getD a "") order = C04.diff f a order true := by
  unfold diffDim
  rw [indexOf?_getD _ _ hd ha]
  unfold C04.diff
  by_cases ho : order ≠ 1 ∧ order ≠ 2 <;> simp [ho]


/-! ## component access -/

theorem vdimIndex_getD (f : Fld) (vs : List String) (hv : f.vdims = some vs) (hd : hasDup vs = false)
    (c : Nat) (hc : c < vs.length) : f.vdimIndex (vs.getD c "") = some c := by
  unfold Fld.vdimIndex
  rw [hv]
  exact indexOf?_getD vs c hd hc

theorem getComp_ok {f g : Fld} {l : String} {k : Nat} (hk : f.vdimIndex l = some k) (h : getComp f l = .ok g) :
    g.mesh = f.mesh ∧ g.nvdim = 1 ∧ g.valid = f.valid ∧ g.unit = f.unit ∧ g.vdims = none ∧ g.vmap = [] ∧
    g.data.shape = f.data.shape ∧ ∀ i, g.data.get i = [(f.data.get i).getD k 0] := by
  unfold getComp at h
  rw [hk] at h
  have m := mkFld_ok h
  obtain ⟨m1, m2, m3, m4, m5, _, m7, m8⟩ := m
  have hv : g.vdims = none := by
    simp [vdimsSet, Fld.defaultVdims] at m7
    exact m7.symm
  refine ⟨m1, m2, m4, m5, hv, ?_, ?_, ?_⟩
  · rw [hv] at m8
    unfold vmapSet at m8
    cases hl : Fld.lookup f.vmap l <;> simp [hl] at m8 <;> exact m8
  · rw [m3]
  · intro i; rw [m3]

/-- the component field sees the same lines: its derivative is the derivative of that component -/
theorem D_getComp {f g : Fld} {l : String} {k : Nat} (hk : f.vdimIndex l = some k) (h : getComp f l = .ok g)
    (ax order : Nat) (i : List Nat) : D g ax order 0 i = D f ax order k i := by
  obtain ⟨m1, _, m3, _, _, _, _, m8⟩ := getComp_ok hk h
  unfold D periodic NDA.line
  rw [m1, m3]
  simp only [m8]
  rfl

/-! ## `<<` and stacking -/

theorem lshift_ok {a b g : Fld} (h : lshift a b = .ok g) :
    g.mesh = a.mesh ∧ a.mesh = b.mesh ∧ g.nvdim = a.nvdim + b.nvdim ∧ g.valid = andValid a.valid b.valid ∧
    g.unit = none ∧ (∀ i, g.data.get i = cellv a i ++ cellv b i) ∧
    vdimsSet (a.nvdim + b.nvdim) (lshiftVdims a.vdims b.vdims) = .ok g.vdims ∧
    vmapSet a.mesh (a.nvdim + b.nvdim) g.vdims (lshiftVmap a b) = .ok g.vmap := by
  unfold lshift at h
  split at h
  · cases h
  · rename_i hm
    obtain ⟨m1, m2, m3, m4, m5, _, m7, m8⟩ := mkFld_ok h
    refine ⟨m1, by simpa using hm, m2, m4, m5, ?_, m7, m8⟩
    intro i; rw [m3]; rfl

theorem cellv_lshift {a b g : Fld} (h : lshift a b = .ok g) (i : List Nat) :
    cellv g i = cellv a i ++ cellv b i := by
  obtain ⟨_, _, m2, _, _, m3, _, _⟩ := lshift_ok h
  have hl : (cellv a i ++ cellv b i).length = g.nvdim := by simp [cellv_length, m2]
  unfold cellv at hl ⊢
  rw [m3 i]
  apply List.ext_getElem
  · simp [m2]
  · intro k h1 h2
    rw [getElem_tab]
    unfold cellv
    rw [List.getD_eq_getElem?_getD, List.getElem?_eq_getElem h2]; rfl

/-- stacking scalar fields: the components are the stacked fields, in order -/
theorem stackGo_ok (ds : List Fld) : ∀ (acc g : Fld), (∀ d ∈ ds, d.nvdim = 1) → stackGo acc ds = .ok g →
    g.mesh = acc.mesh ∧ g.nvdim = acc.nvdim + ds.length ∧
    (∀ i, cellv g i = cellv acc i ++ ds.map fun d => (d.data.get i).getD 0 0) ∧
    (∀ i, g.valid.get i = (acc.valid.get i && ds.all fun d => d.valid.get i)) := by
  induction ds with
  | nil =>
    intro acc g _ h
    simp only [stackGo] at h
    injection h with h; subst h; simp
  | cons d ds ih =>
    intro acc g hs h
    simp only [stackGo] at h
    split at h
    · cases h
    · rename_i r hr
      have hd1 : d.nvdim = 1 := hs d (by simp)
      obtain ⟨e1, e2, e3, e4⟩ := ih r g (fun d' hd' => hs d' (by simp [hd'])) h
      obtain ⟨m1, _, m2, m4, _, _, _, _⟩ := lshift_ok hr
      refine ⟨by rw [e1, m1], by rw [e2, m2, hd1]; simp; omega, ?_, ?_⟩
      · intro i
        rw [e3 i, cellv_lshift hr i]
        have : cellv d i = [(d.data.get i).getD 0 0] := by simp [cellv, hd1, tab]
        rw [this]; simp
      · intro i
        rw [e4 i, m4]; simp [andValid, Bool.and_assoc]

/-! ## `+`, `-`, `sum` -/

theorem binop_ok {op : Rat → Rat → Rat} {a b g : Fld} (h : binop op a b = .ok g) :
    g.mesh = a.mesh ∧ a.mesh = b.mesh ∧ g.nvdim = max a.nvdim b.nvdim ∧ g.valid = andValid a.valid b.valid ∧
    g.unit = none ∧
    ∀ i, g.data.get i = tab (max a.nvdim b.nvdim) fun c =>
        op ((a.data.get i).getD (if a.nvdim = 1 then 0 else c) 0)
           ((b.data.get i).getD (if b.nvdim = 1 then 0 else c) 0) := by
  unfold binop at h
  split at h
  · cases h
  · rename_i hm
    split at h
    · cases h
    · obtain ⟨m1, m2, m3, m4, m5, _, _, _⟩ := mkFld_ok h
      refine ⟨m1, by simpa using hm, m2, m4, m5, ?_⟩
      intro i; rw [m3]

/-- two scalar fields -/
theorem binop_scalar {op : Rat → Rat → Rat} {a b g : Fld} (ha : a.nvdim = 1) (hb : b.nvdim = 1)
    (h : binop op a b = .ok g) :
    g.mesh = a.mesh ∧ g.nvdim = 1 ∧ (∀ i, g.valid.get i = (a.valid.get i && b.valid.get i)) ∧
    ∀ i, (g.data.get i).getD 0 0 = op ((a.data.get i).getD 0 0) ((b.data.get i).getD 0 0) := by
  obtain ⟨m1, _, m2, m4, _, m3⟩ := binop_ok h
  refine ⟨m1, by rw [m2, ha, hb]; rfl, ?_, ?_⟩
  · intro i; rw [m4]; rfl
  · intro i; rw [m3 i, ha, hb]; simp [tab]

theorem addNum_ok {a g : Fld} {q : Rat} (h : addNum a q = .ok g) :
    g.mesh = a.mesh ∧ g.nvdim = a.nvdim ∧ g.valid = a.valid ∧ g.unit = none ∧
    ∀ i c, c < a.nvdim → (g.data.get i).getD c 0 = (a.data.get i).getD c 0 + q := by
  unfold addNum at h
  obtain ⟨m1, m2, m3, m4, m5, _, _, _⟩ := mkFld_ok h
  refine ⟨m1, m2, m4, m5, ?_⟩
  intro i c hc
  rw [m3]; simp only []
  rw [getD_tab _ _ _ _ hc]

theorem sumTo_congr (n : Nat) (f g : Nat → Rat) (h : ∀ k, k < n → f k = g k) : sumTo n f = sumTo n g := by
  induction n with
  | zero => rfl
  | succ n ih => simp only [sumTo]; rw [ih (fun k hk => h k (by omega)), h n (by omega)]

theorem sumTo_succ' (n : Nat) (f : Nat → Rat) : sumTo (n + 1) f = f 0 + sumTo n fun k => f (k + 1) := by
  induction n with
  | zero => simp [sumTo]
  | succ n ih => rw [sumTo, ih]; simp only [sumTo]; ring

theorem sumGo_ok (ts : List Fld) : ∀ (acc g : Fld), acc.nvdim = 1 → (∀ t ∈ ts, t.nvdim = 1) →
    sumGo acc ts = .ok g →
    g.mesh = acc.mesh ∧ g.nvdim = 1 ∧
    (∀ i, g.valid.get i = (acc.valid.get i && ts.all fun t => t.valid.get i)) ∧
    ∀ i, (g.data.get i).getD 0 0 = (acc.data.get i).getD 0 0 + sumTo ts.length fun k => ((ts.getD k acc).data.get i).getD 0 0 := by
  induction ts with
  | nil =>
    intro acc g ha _ h
    simp only [sumGo] at h
    injection h with h; subst h
    simp [sumTo, ha]
  | cons t ts ih =>
    intro acc g ha hs h
    simp only [sumGo] at h
    split at h
    · cases h
    · rename_i r hr
      have ht1 : t.nvdim = 1 := hs t (by simp)
      obtain ⟨b1, b2, b3, b4⟩ := binop_scalar ha ht1 hr
      obtain ⟨e1, e2, e3, e4⟩ := ih r g b2 (fun t' ht' => hs t' (by simp [ht'])) h
      refine ⟨by rw [e1, b1], e2, ?_, ?_⟩
      · intro i; rw [e3 i, b3 i]; simp [Bool.and_assoc]
      · intro i
        rw [e4 i, b4 i, List.length_cons, sumTo_succ']
        simp only [List.getD_cons_zero, List.getD_cons_succ]
        rw [sumTo_congr _ (fun k => ((ts.getD k r).data.get i).getD 0 0) (fun k => ((ts.getD k acc).data.get i).getD 0 0)]
        · ring
        · intro k hk
          simp only [List.getD_eq_getElem?_getD, List.getElem?_eq_getElem hk, Option.getD_some]

/-- builtin `sum` over scalar fields: the cell values are added up, starting from `0` -/
theorem sumF_ok (ts : List Fld) (g : Fld) (hs : ∀ t ∈ ts, t.nvdim = 1) (h : sumF ts = .ok g) :
    ∃ t0, ts.head? = some t0 ∧ g.mesh = t0.mesh ∧ g.nvdim = 1 ∧ g.unit = none ∧
    (∀ i, g.valid.get i = ts.all fun t => t.valid.get i) ∧
    ∀ i, (g.data.get i).getD 0 0 = sumTo ts.length fun k => ((ts.getD k t0).data.get i).getD 0 0 := by
  cases ts with
  | nil => simp [sumF] at h
  | cons t ts =>
    simp only [sumF] at h
    split at h
    · cases h
    · rename_i acc hacc
      have ht1 : t.nvdim = 1 := hs t (by simp)
      obtain ⟨a1, a2, a3, a4, a5⟩ := addNum_ok hacc
      obtain ⟨e1, e2, e3, e4⟩ := sumGo_ok ts acc g (by rw [a2, ht1]) (fun t' ht' => hs t' (by simp [ht'])) h
      refine ⟨t, rfl, by rw [e1, a1], e2, ?_, ?_, ?_⟩
      · -- unit: the last `+` (or the reflected add) drops it
        cases ts with
        | nil => simp only [sumGo] at h; injection h with h; subst h; exact a4
        | cons t' ts' =>
          -- result of a binop chain: unit none at every step
          have : ∀ (l : List Fld) (a r : Fld), a.unit = none → sumGo a l = .ok r → r.unit = none := by
            intro l
            induction l with
            | nil => intro a r hu hh; simp only [sumGo] at hh; injection hh with hh; subst hh; exact hu
            | cons x l ihl =>
              intro a r _ hh
              simp only [sumGo] at hh
              split at hh
              · cases hh
              · rename_i r' hr'
                exact ihl r' r (binop_ok hr').2.2.2.2.1 hh
          exact this _ _ _ a4 h
      · intro i; rw [e3 i, a3]; simp
      · intro i
        rw [e4 i, a5 i 0 (by omega), List.length_cons, sumTo_succ']
        simp only [List.getD_cons_zero, List.getD_cons_succ]
        rw [sumTo_congr _ (fun k => ((ts.getD k acc).data.get i).getD 0 0) (fun k => ((ts.getD k t).data.get i).getD 0 0)]
        · ring
        · intro k hk
          simp only [List.getD_eq_getElem?_getD, List.getElem?_eq_getElem hk, Option.getD_some]

/-! ## list plumbing -/

theorem mapE_ok {α β} (g : α → M β) : ∀ (xs : List α) (ys : List β), mapE g xs = .ok ys →
    ys.length = xs.length ∧ ∀ k (h1 : k < xs.length) (h2 : k < ys.length), g xs[k] = .ok ys[k] := by
  intro xs
  induction xs with
  | nil => intro ys h; simp only [mapE] at h; injection h with h; subst h; simp
  | cons x xs ih =>
    intro ys h
    simp only [mapE] at h
    split at h
    · cases h
    · rename_i y hy
      split at h
      · cases h
      · rename_i ys' hys
        injection h with h; subst h
        obtain ⟨l, e⟩ := ih ys' hys
        refine ⟨by simp [l], ?_⟩
        intro k h1 h2
        cases k with
        | zero => simpa using hy
        | succ k => simpa using e k (by simpa using h1) (by simpa using h2)

/-! ## building blocks of the operators -/

/-- all of a list of Booleans that are each `b` (the list non-empty or not), and-ed to `b` -/
theorem and_all_const {α} (b : Bool) (l : List α) (p : α → Bool) (h : ∀ x ∈ l, p x = b) :
    (b && l.all p) = b := by
  cases b with
  | false => simp
  | true =>
    simp only [Bool.true_and, List.all_eq_true]
    exact h

theorem divTerm_ok {f t : Fld} {vs : List String} (hv : f.vdims = some vs) (hvd : hasDup vs = false)
    (hdims : DimsOk f) {c a : Nat} (hc : c < vs.length) (ha : a < f.mesh.ndim)
    (hm : Fld.lookup f.vmap (vs.getD c "") = some (f.mesh.region.dims.getD a ""))
    (h : divTerm f (vs.getD c "") = .ok t) :
    t.nvdim = 1 ∧ t.mesh = f.mesh ∧ t.valid = f.valid ∧ ∀ i, (t.data.get i).getD 0 0 = D f a 1 c i := by
  unfold divTerm at h
  rw [hm] at h
  simp only [] at h
  split at h
  · cases h
  · rename_i comp hcomp
    have hk := vdimIndex_getD f vs hv hvd c hc
    obtain ⟨m1, m2, m3, _, _, _, _, _⟩ := getComp_ok hk hcomp
    have hdd : DimsOk comp := by unfold DimsOk; rw [m1]; exact hdims
    rw [← m1] at h ha
    rw [diffDim_eq comp a 1 hdd.2 (by rw [hdd.1]; exact ha)] at h
    obtain ⟨d1, d2, d3, _⟩ := diff_ok h
    refine ⟨by rw [d2, m2], by rw [d1, m1], by rw [d3, m3], ?_⟩
    intro i
    rw [diff_data h i 0 (by omega), D_getComp hk hcomp]

theorem curlComp_ok {f t : Fld} {vs : List String} (hv : f.vdims = some vs) (hvd : hasDup vs = false)
    (hdims : DimsOk f) {d1 e1 d2 e2 c1 c2 : Nat}
    (he1 : e1 < f.mesh.ndim) (he2 : e2 < f.mesh.ndim) (hc1 : c1 < vs.length) (hc2 : c2 < vs.length)
    (hr1 : rDimLast f (f.mesh.region.dims.getD d1 "") = some (vs.getD c1 ""))
    (hr2 : rDimLast f (f.mesh.region.dims.getD d2 "") = some (vs.getD c2 ""))
    (h : curlComp f (f.mesh.region.dims.getD d1 "") (f.mesh.region.dims.getD e1 "")
          (f.mesh.region.dims.getD d2 "") (f.mesh.region.dims.getD e2 "") = .ok t) :
    t.nvdim = 1 ∧ t.mesh = f.mesh ∧ (∀ i, t.valid.get i = f.valid.get i) ∧
    ∀ i, (t.data.get i).getD 0 0 = D f e1 1 c1 i - D f e2 1 c2 i := by
  unfold curlComp compOfDim at h
  rw [hr1, hr2] at h
  simp only [] at h
  split at h
  · cases h
  · rename_i k1 hk1
    split at h
    · cases h
    · rename_i t1 ht1
      split at h
      · cases h
      · rename_i k2 hk2
        split at h
        · cases h
        · rename_i t2 ht2
          have i1 := vdimIndex_getD f vs hv hvd c1 hc1
          have i2 := vdimIndex_getD f vs hv hvd c2 hc2
          obtain ⟨a1, a2, a3, _, _, _, _, _⟩ := getComp_ok i1 hk1
          obtain ⟨b1, b2, b3, _, _, _, _, _⟩ := getComp_ok i2 hk2
          have hd1 : DimsOk k1 := by unfold DimsOk; rw [a1]; exact hdims
          have hd2 : DimsOk k2 := by unfold DimsOk; rw [b1]; exact hdims
          rw [← a1] at ht1
          rw [diffDim_eq k1 e1 1 hd1.2 (by rw [hd1.1, a1]; exact he1)] at ht1
          rw [← b1] at ht2
          rw [diffDim_eq k2 e2 1 hd2.2 (by rw [hd2.1, b1]; exact he2)] at ht2
          obtain ⟨p1, p2, p3, _⟩ := diff_ok ht1
          obtain ⟨q1, q2, q3, _⟩ := diff_ok ht2
          obtain ⟨s1, s2, s3, s4⟩ := binop_scalar (by rw [p2, a2]) (by rw [q2, b2]) h
          refine ⟨s2, by rw [s1, p1, a1], ?_, ?_⟩
          · intro i; rw [s3 i, p3, q3, a3, b3]; simp
          · intro i
            rw [s4 i, diff_data ht1 i 0 (by omega), diff_data ht2 i 0 (by omega),
              D_getComp i1 hk1, D_getComp i2 hk2]

/-- `sum(h.diff(dim, order=2) for dim in dims)` for a scalar field `h` -/
theorem lapSum_ok {hf g : Fld} (hdims : DimsOk hf) (hn1 : hf.nvdim = 1) {ts : List Fld}
    (hts : mapE (fun d => diffDim hf d 2) hf.mesh.region.dims = .ok ts) (h : sumF ts = .ok g) :
    g.nvdim = 1 ∧ g.mesh = hf.mesh ∧ g.unit = none ∧ (∀ i, g.valid.get i = hf.valid.get i) ∧
    ∀ i, (g.data.get i).getD 0 0 = sumTo hf.mesh.ndim fun a => D hf a 2 0 i := by
  obtain ⟨hl, hdup⟩ := hdims
  obtain ⟨l, e⟩ := mapE_ok _ _ _ hts
  have hk : ∀ k (hk : k < ts.length), C04.diff hf k 2 true = .ok ts[k] := by
    intro k hk
    have := e k (by omega) hk
    rw [← diffDim_eq hf k 2 hdup (by omega)]
    rw [List.getD_eq_getElem?_getD, List.getElem?_eq_getElem (by omega)]
    exact this
  have hs : ∀ t ∈ ts, t.nvdim = 1 := by
    intro t htm
    obtain ⟨k, hk', rfl⟩ := List.getElem_of_mem htm
    rw [(diff_ok (hk k hk')).2.1, hn1]
  obtain ⟨t0, h0, s1, s2, s3, s4, s5⟩ := sumF_ok ts g hs h
  have hpos : 0 < ts.length := by
    cases ts with
    | nil => simp at h0
    | cons _ _ => simp
  have ht0 : t0 = ts[0] := by
    cases ts with
    | nil => simp at h0
    | cons a b => simp at h0; simp [h0]
  refine ⟨s2, by rw [s1, ht0, (diff_ok (hk 0 hpos)).1], s3, ?_, ?_⟩
  · intro i
    rw [s4 i]
    have := and_all_const (hf.valid.get i) ts (fun t => t.valid.get i) (by
      intro t htm
      obtain ⟨k, hk', rfl⟩ := List.getElem_of_mem htm
      rw [(diff_ok (hk k hk')).2.2.1])
    cases hb : hf.valid.get i with
    | true => rw [hb] at this; simpa using this
    | false =>
      have h00 : ts[0].valid.get i = false := by rw [(diff_ok (hk 0 hpos)).2.2.1, hb]
      simp only [List.all_eq_false]
      exact ⟨ts[0], List.getElem_mem hpos, by simp [h00]⟩
  · intro i
    rw [s5 i, l, hl]
    apply sumTo_congr
    intro k hk'
    have hk'' : k < ts.length := by omega
    simp only [List.getD_eq_getElem?_getD, List.getElem?_eq_getElem hk'', Option.getD_some]
    exact diff_data (hk k hk'') i 0 (by omega)

theorem lapComp_ok {f t : Fld} {vs : List String} (hv : f.vdims = some vs) (hvd : hasDup vs = false)
    (hdims : DimsOk f) {c : Nat} (hc : c < vs.length) (h : lapComp f (vs.getD c "") = .ok t) :
    t.nvdim = 1 ∧ t.mesh = f.mesh ∧ (∀ i, t.valid.get i = f.valid.get i) ∧
    ∀ i, (t.data.get i).getD 0 0 = sumTo f.mesh.ndim fun a => D f a 2 c i := by
  have hk := vdimIndex_getD f vs hv hvd c hc
  unfold lapComp at h
  -- the component field is the same at every iteration of the generator
  cases hcomp : getComp f (vs.getD c "") with
  | error e =>
    rw [hcomp] at h
    simp only [] at h
    have hpos : 0 < f.mesh.region.dims.length := by
      cases hq : f.mesh.region.dims with
      | nil =>
        rw [hq] at h
        simp [mapE, sumF] at h
      | cons _ _ => simp
    cases hq : f.mesh.region.dims with
    | nil => rw [hq] at hpos; simp at hpos
    | cons d ds => rw [hq] at h; simp [mapE] at h
  | ok comp =>
    rw [hcomp] at h
    simp only [] at h
    obtain ⟨m1, m2, m3, _, _, _, _, _⟩ := getComp_ok hk hcomp
    have hdd : DimsOk comp := by unfold DimsOk; rw [m1]; exact hdims
    rw [← m1] at h
    split at h
    · cases h
    · rename_i ts hts
      obtain ⟨a, b, _, cc, d⟩ := lapSum_ok hdd m2 hts h
      refine ⟨a, by rw [b, m1], by intro i; rw [cc i, m3], ?_⟩
      intro i
      rw [d i, m1]
      apply sumTo_congr
      intro k _
      exact D_getComp hk hcomp k 2 i

/-! ## labels and mapping of results -/

theorem defaultVdims_some (n : Nat) (hn : 2 ≤ n) : ∃ l, Fld.defaultVdims n = some l ∧ l.length = n := by
  unfold Fld.defaultVdims
  have h1 : ¬ n = 1 := by omega
  simp only [h1, if_false]
  by_cases h3 : n ≤ 3
  · simp only [h3, if_true]
    refine ⟨_, rfl, ?_⟩
    simp; omega
  · simp only [h3, if_false]
    exact ⟨_, rfl, by simp⟩

theorem posVmap_length (m : Mesh) (n : Nat) : (posVmap m n).length ≤ n := by
  unfold posVmap
  split
  · simp
  · split
    · split
      · rename_i vs hvs
        by_cases hn : 2 ≤ n
        · obtain ⟨l, hl, hlen⟩ := defaultVdims_some n hn
          rw [hl] at hvs; injection hvs with hvs; subst hvs
          simp [List.length_zip]; omega
        · simp [List.length_zip]
          have : n = 0 := by omega
          subst this
          simp [Fld.defaultVdims] at hvs
          subst hvs; simp
      · simp
    · simp

theorem dictUpdate_nil (a : List (String × String)) : dictUpdate a [] = a := rfl

theorem lshift_plain {r d g : Fld} (hd : Plain d) (hr : r.vmap.length ≤ r.nvdim) (hr1 : 1 ≤ r.nvdim)
    (h : lshift r d = .ok g) :
    g.vdims = posVdims (r.nvdim + 1) ∧ g.vmap = posVmap r.mesh (r.nvdim + 1) := by
  obtain ⟨hd1, hd2, hd3⟩ := hd
  obtain ⟨_, _, _, _, _, _, m7, m8⟩ := lshift_ok h
  have e1 : lshiftVdims r.vdims d.vdims = none := by
    rw [hd2]; unfold lshiftVdims; cases r.vdims <;> rfl
  have e2 : lshiftVmap r d = none := by
    unfold lshiftVmap
    rw [hd3, dictUpdate_nil, hd1]
    have : r.vmap.length ≠ r.nvdim + 1 := by omega
    simp [this]
  rw [e1, hd1] at m7
  rw [e2, hd1] at m8
  have hv : g.vdims = posVdims (r.nvdim + 1) := by
    simp only [vdimsSet] at m7
    injection m7 with m7
    exact m7.symm
  refine ⟨hv, ?_⟩
  rw [hv] at m8
  unfold vmapSet at m8
  unfold posVmap posVdims at *
  have hne : ¬ (r.nvdim + 1 = 1) := by omega
  simp only [hne, if_false] at m8 ⊢
  by_cases hnd : r.nvdim + 1 = r.mesh.region.ndim
  · simp only [hnd, if_true] at m8 ⊢
    obtain ⟨l, hl, _⟩ := defaultVdims_some (r.mesh.region.ndim) (by omega)
    rw [hl] at m8 ⊢
    simp only [] at m8 ⊢
    injection m8 with m8
    exact m8.symm
  · simp only [hnd, if_false] at m8 ⊢
    injection m8 with m8
    exact m8.symm

/-- stacking at least one plain scalar onto `acc`: positional labels and mapping -/
theorem stackGo_meta (ds : List Fld) : ∀ (acc g : Fld), ds ≠ [] → (∀ d ∈ ds, Plain d) →
    acc.vmap.length ≤ acc.nvdim → 1 ≤ acc.nvdim → stackGo acc ds = .ok g →
    g.vdims = posVdims g.nvdim ∧ g.vmap = posVmap g.mesh g.nvdim := by
  induction ds with
  | nil => intro _ _ h; exact absurd rfl h
  | cons d ds ih =>
    intro acc g _ hp ha ha1 h
    simp only [stackGo] at h
    split at h
    · cases h
    · rename_i r hr
      obtain ⟨p1, p2⟩ := lshift_plain (hp d (by simp)) ha ha1 hr
      obtain ⟨m1, _, m2, _⟩ := lshift_ok hr
      have hd1 : d.nvdim = 1 := (hp d (by simp)).1
      cases ds with
      | nil =>
        simp only [stackGo] at h
        injection h with h; subst h
        rw [m2, hd1, m1]; exact ⟨p1, p2⟩
      | cons d' ds' =>
        apply ih r g (by simp) (fun x hx => hp x (by simp [hx])) ?_ (by omega) h
        rw [p2, m2, hd1]
        exact posVmap_length _ _

theorem getComp_plain {f g : Fld} {l : String} (h : getComp f l = .ok g) : Plain g := by
  cases hk : f.vdimIndex l with
  | none => unfold getComp at h; rw [hk] at h; cases h
  | some k =>
    obtain ⟨_, m2, _, _, m5, m6, _, _⟩ := getComp_ok hk h
    exact ⟨m2, m5, m6⟩

theorem diff_plain {f g : Fld} {ax o : Nat} {r : Bool} (hp : Plain f) (h : C04.diff f ax o r = .ok g) : Plain g := by
  obtain ⟨_, m2, _, m4, m5, _⟩ := diff_ok h
  exact ⟨by rw [m2, hp.1], by rw [m4, hp.2.1], by rw [m5, hp.2.2]⟩

theorem diffDim_plain {f g : Fld} {d : String} {o : Nat} (hp : Plain f) (h : diffDim f d o = .ok g) : Plain g := by
  unfold diffDim at h
  split at h
  · cases h
  · split at h
    · cases h
    · exact diff_plain hp h

theorem mk_plain {mesh : Mesh} {data : NDA (List Rat)} {valid : NDA Bool} {unit : Option String} {g : Fld}
    (h : mkFld mesh 1 data valid none (some []) unit = .ok g) : Plain g := by
  obtain ⟨_, m2, _, _, _, _, m7, m8⟩ := mkFld_ok h
  have hv : g.vdims = none := by
    simp [vdimsSet, Fld.defaultVdims] at m7; exact m7.symm
  refine ⟨m2, hv, ?_⟩
  rw [hv] at m8
  simp [vmapSet] at m8
  exact m8

theorem binop_plain {op : Rat → Rat → Rat} {a b g : Fld} (ha : Plain a) (hb : Plain b)
    (h : binop op a b = .ok g) : Plain g := by
  unfold binop at h
  split at h
  · cases h
  · split at h
    · cases h
    · rw [ha.1, hb.1, ha.2.1, ha.2.2] at h
      simp only [Nat.max_self, Nat.lt_irrefl, and_false, if_false] at h
      exact mk_plain h

theorem addNum_plain {a g : Fld} {q : Rat} (ha : Plain a) (h : addNum a q = .ok g) : Plain g := by
  unfold addNum at h
  rw [ha.1, ha.2.1, ha.2.2] at h
  exact mk_plain h

theorem sumGo_plain (ts : List Fld) : ∀ (acc g : Fld), Plain acc → (∀ t ∈ ts, Plain t) →
    sumGo acc ts = .ok g → Plain g := by
  induction ts with
  | nil => intro acc g ha _ h; simp only [sumGo] at h; injection h with h; subst h; exact ha
  | cons t ts ih =>
    intro acc g ha hs h
    simp only [sumGo] at h
    split at h
    · cases h
    · rename_i r hr
      exact ih r g (binop_plain ha (hs t (by simp)) hr) (fun x hx => hs x (by simp [hx])) h

theorem sumF_plain {ts : List Fld} {g : Fld} (hs : ∀ t ∈ ts, Plain t) (h : sumF ts = .ok g) : Plain g := by
  cases ts with
  | nil => simp [sumF] at h
  | cons t ts =>
    simp only [sumF] at h
    split at h
    · cases h
    · rename_i acc hacc
      exact sumGo_plain ts acc g (addNum_plain (hs t (by simp)) hacc) (fun x hx => hs x (by simp [hx])) h

theorem mapE_all {α β} (g : α → M β) (P : β → Prop) (hg : ∀ x y, g x = .ok y → P y) :
    ∀ (xs : List α) (ys : List β), mapE g xs = .ok ys → ∀ y ∈ ys, P y := by
  intro xs ys h y hy
  obtain ⟨l, e⟩ := mapE_ok g xs ys h
  obtain ⟨k, hk, rfl⟩ := List.getElem_of_mem hy
  exact hg _ _ (e k (by omega) hk)

theorem curlComp_plain {f t : Fld} {d1 e1 d2 e2 : String} (h : curlComp f d1 e1 d2 e2 = .ok t) : Plain t := by
  unfold curlComp compOfDim at h
  split at h
  · cases h
  · rename_i k1 hk1
    split at h
    · cases h
    · rename_i t1 ht1
      split at h
      · cases h
      · rename_i k2 hk2
        split at h
        · cases h
        · rename_i t2 ht2
          have p1 : Plain k1 := by
            cases hq : rDimLast f d1 with
            | none => rw [hq] at hk1; cases hk1
            | some l => rw [hq] at hk1; exact getComp_plain hk1
          have p2 : Plain k2 := by
            cases hq : rDimLast f d2 with
            | none => rw [hq] at hk2; cases hk2
            | some l => rw [hq] at hk2; exact getComp_plain hk2
          exact binop_plain (diffDim_plain p1 ht1) (diffDim_plain p2 ht2) h

theorem lapComp_plain {f t : Fld} {v : String} (h : lapComp f v = .ok t) : Plain t := by
  unfold lapComp at h
  split at h
  · cases h
  · rename_i ts hts
    apply sumF_plain _ h
    apply mapE_all _ Plain _ _ _ hts
    intro d y hy
    split at hy
    · cases hy
    · rename_i c hc
      exact diffDim_plain (getComp_plain hc) hy

theorem find?_unique {α} (xs : List α) (P : α → Bool) (p : α) (hp : p ∈ xs) (hP : P p = true)
    (hu : ∀ q ∈ xs, P q = true → q = p) : xs.find? P = some p := by
  induction xs with
  | nil => simp at hp
  | cons x xs ih =>
    by_cases hx : P x = true
    · have := hu x (by simp) hx
      subst this
      simp [List.find?, hx]
    · have hx' : P x = false := by simpa using hx
      simp only [List.find?, hx']
      apply ih
      · cases hp with
        | head => exact absurd hP hx
        | tail _ h => exact h
      · intro q hq; exact hu q (by simp [hq])

/-- one-to-one mapping: the component the reversed mapping pairs with axis `d` is the one
`vdim_mapping` sends to `d` -/
theorem rDimLast_of_lookup (f : Fld) (l d : String)
    (hinj : ∀ p ∈ f.vmap, ∀ q ∈ f.vmap, p.2 = q.2 → p = q)
    (h : Fld.lookup f.vmap l = some d) : rDimLast f d = some l := by
  unfold Fld.lookup at h
  cases hf : f.vmap.find? (fun p => p.1 == l) with
  | none => rw [hf] at h; cases h
  | some p =>
    rw [hf] at h
    simp only [Option.map_some, Option.some.injEq] at h
    have hm := List.mem_of_find?_eq_some hf
    have hk := List.find?_some hf
    have hk' : p.1 = l := by simpa using hk
    unfold rDimLast
    rw [find?_unique f.vmap.reverse (fun q => q.2 == d) p (by simpa using hm) (by simp [h])]
    · simp [hk']
    · intro q hq hqd
      have hq' : q ∈ f.vmap := by simpa using hq
      have : q.2 = d := by simpa using hqd
      exact hinj q hq' p hm (by rw [this, h])

/-! ## setters, index lemmas, stencils on fully valid lines, sums -/

theorem lookup_cons (k d : String) (rest : List (String × String)) (l : String) :
    Fld.lookup ((k, d) :: rest) l = if k == l then some d else Fld.lookup rest l := by
  unfold Fld.lookup
  simp only [List.find?]
  cases h : k == l <;> simp

theorem transportMap_lookup (mp : List (String × String)) : ∀ (ns os : List String) (r : List (String × String)),
    hasDup ns = false → ns.length ≤ os.length → transportMap mp ns os = .ok r →
    ∀ k, k < ns.length → Fld.lookup r (ns.getD k "") = Fld.lookup mp (os.getD k "") := by
  intro ns
  induction ns with
  | nil => intro os r _ _ _ k hk; simp at hk
  | cons n ns ih =>
    intro os r hd hl h k hk
    cases os with
    | nil => simp at hl
    | cons o os =>
      simp only [transportMap] at h
      split at h
      · cases h
      · rename_i d hd'
        split at h
        · cases h
        · rename_i rest hrest
          injection h with h; subst h
          simp only [hasDup, Bool.or_eq_false_iff] at hd
          rw [lookup_cons]
          cases k with
          | zero => simp [hd']
          | succ k =>
            simp only [List.getD_cons_succ]
            have hne : (n == ns.getD k "") = false := by
              have hk' : k < ns.length := by simpa using hk
              have hm : ns.getD k "" ∈ ns := by
                rw [List.getD_eq_getElem?_getD, List.getElem?_eq_getElem hk']; simp
              cases hq : n == ns.getD k "" with
              | false => rfl
              | true =>
                have : n = ns.getD k "" := by simpa using hq
                rw [← this] at hm
                have hc : ns.contains n = true := by simpa using hm
                rw [hc] at hd; exact absurd hd.1 (by simp)
            rw [hne]
            simp only [Bool.false_eq_true, if_false]
            exact ih os rest hd.2 (by simpa using hl) hrest k (by simpa using hk)

theorem vdimsSet_some {n : Nat} {new : List String} {r : Option (List String)} (hne : new ≠ [])
    (h : vdimsSet n (some new) = .ok r) : r = some new ∧ new.length = n ∧ hasDup new = false := by
  unfold vdimsSet at h
  simp only [] at h
  have : ¬ new.length = 0 := by simpa using hne
  simp only [this, if_false] at h
  split at h
  · cases h
  · split at h
    · cases h
    · rename_i h1 h2
      injection h with h
      exact ⟨h.symm, by omega, by simpa using h2⟩

/-- fully valid line = the table of its values, each tagged valid -/
theorem tab_all_valid (n : Nat) (g : Nat → Rat) (v : Nat → Bool) (hv : ∀ j, j < n → v j = true) :
    (tab n fun j => (g j, v j)) = (tab n g).map (·, true) := by
  unfold tab
  rw [List.map_map]
  apply List.map_congr_left
  intro j hj
  simp [hv j (List.mem_range.mp hj)]

/-- open direction, every cell of the line valid: the derivative is the run stencil on the line -/
theorem D_open_all_valid (f : Fld) (ax o c : Nat) (i : List Nat) (hper : periodic f ax = false)
    (hv : ∀ j, j < f.mesh.nAt ax → f.valid.line ax i j = true) (hi : i.getD ax 0 < f.mesh.nAt ax) :
    D f ax o c i = dAt o (f.mesh.cellAt ax) (f.mesh.nAt ax) (fun j => (f.data.line ax i j).getD c 0) (i.getD ax 0) := by
  unfold D
  rw [hper]
  unfold diffLine'
  simp only [Bool.false_eq_true, if_false, if_true]
  rw [tab_all_valid _ (fun j => (f.data.line ax i j).getD c 0) _ hv, all_valid_one_run,
    diffRun_getD _ _ _ _ (by simpa using hi)]
  simp only [tab_length]
  apply dAt_congr _ _ _ _ _ _ _ hi
  intro k hk
  rw [getD_tab _ _ _ _ hk]

theorem coords_setAt (f : Fld) (i : List Nat) (ax j : Nat) (hax : ax < i.length) :
    coords f (setAt i ax j) = upd (coords f i) ax (coords f i ax + ((j : Rat) - (i.getD ax 0 : Nat)) * f.mesh.cellAt ax) := by
  funext a
  unfold coords upd Mesh.centreAx
  by_cases ha : a = ax
  · subst ha
    simp only [if_true]
    rw [getD_setAt_same _ _ _ _ hax]
    push_cast
    ring
  · simp only [ha, if_false]
    rw [getD_setAt_ne _ _ _ _ _ ha]

theorem sumTo_lin4 (n : Nat) (f1 f2 f3 f4 : Nat → Rat) (s t : Rat) :
    sumTo n (fun a => f1 a + s * f2 a + s * f3 a + t * f4 a)
      = sumTo n f1 + s * sumTo n f2 + s * sumTo n f3 + t * sumTo n f4 := by
  induction n with
  | zero => simp [sumTo]
  | succ n ih => simp only [sumTo]; rw [ih]; ring

theorem sumTo_add (n : Nat) (f g : Nat → Rat) : sumTo n (fun a => f a + g a) = sumTo n f + sumTo n g := by
  induction n with
  | zero => simp [sumTo]
  | succ n ih => simp only [sumTo]; rw [ih]; ring

theorem sumTo_zero (n : Nat) : sumTo n (fun _ => (0 : Rat)) = 0 := by
  induction n with
  | zero => rfl
  | succ n ih => simp [sumTo, ih]

theorem sumTo_mul_left (n : Nat) (k : Rat) (f : Nat → Rat) : sumTo n (fun a => k * f a) = k * sumTo n f := by
  induction n with
  | zero => simp [sumTo]
  | succ n ih => simp only [sumTo]; rw [ih]; ring

theorem sumTo_delta (n ax : Nat) (hax : ax < n) (f : Nat → Rat) :
    sumTo n (fun a => (if a = ax then (1 : Rat) else 0) * f a) = f ax := by
  induction n with
  | zero => omega
  | succ n ih =>
    simp only [sumTo]
    by_cases h : ax = n
    · subst h
      have : sumTo ax (fun a => (if a = ax then (1 : Rat) else 0) * f a) = 0 := by
        have : ∀ m, m ≤ ax → sumTo m (fun a => (if a = ax then (1 : Rat) else 0) * f a) = 0 := by
          intro m
          induction m with
          | zero => intro _; rfl
          | succ m ihm =>
            intro hm
            simp only [sumTo]
            rw [ihm (by omega)]
            have : ¬ (m = ax) := by omega
            simp [this]
        exact this ax (Nat.le_refl _)
      rw [this]; simp
    · rw [ih (by omega)]
      have : ¬ (n = ax) := by omega
      simp [this]

theorem upd_add (x : Nat → Rat) (ax : Nat) (s : Rat) :
    upd x ax (x ax + s) = fun a => x a + s * (if a = ax then (1 : Rat) else 0) := by
  funext a
  unfold upd
  by_cases h : a = ax
  · subst h; simp
  · simp [h]

/-- every stencil is a fixed linear combination of at most four cells of the line -/
theorem lineD_taps (p : Bool) (o : Nat) (h : Rat) (L i : Nat) :
    ∃ (w0 w1 w2 w3 : Rat) (t0 t1 t2 t3 : Nat), ∀ g : Nat → Rat,
      lineD p o h L g i = w0 * g t0 + w1 * g t1 + w2 * g t2 + w3 * g t3 := by
  unfold lineD
  cases p with
  | true =>
    simp only [if_true]
    by_cases ho : o = 1
    · simp only [ho, if_true]
      exact ⟨1 / (2 * h), -1 / (2 * h), 0, 0, (i + 1) % L, (i + L - 1) % L, 0, 0, fun g => by ring⟩
    · simp only [ho, if_false]
      exact ⟨1 / (h * h), -2 / (h * h), 1 / (h * h), 0, (i + 1) % L, i % L, (i + L - 1) % L, 0, fun g => by ring⟩
  | false =>
    simp only [Bool.false_eq_true, if_false]
    unfold dAt
    by_cases ho : o = 1
    · simp only [ho, if_true]
      unfold d1At
      by_cases h1 : L < 2
      · simp only [h1, if_true]; exact ⟨0, 0, 0, 0, 0, 0, 0, 0, fun g => by ring⟩
      · by_cases h2 : L = 2
        · subst h2
          simp only [show ¬ ((2 : Nat) < 2) by omega, if_false, if_true]
          exact ⟨1 / h, -1 / h, 0, 0, 1, 0, 0, 0, fun g => by ring⟩
        · by_cases h3 : i = 0
          · simp only [h1, h2, h3, if_false, if_true]
            exact ⟨-3 / (2 * h), 4 / (2 * h), -1 / (2 * h), 0, 0, 1, 2, 0, fun g => by ring⟩
          · by_cases h4 : i = L - 1
            · subst h4
              simp only [h1, h2, h3, if_false, if_true]
              exact ⟨3 / (2 * h), -4 / (2 * h), 1 / (2 * h), 0, L - 1, L - 2, L - 3, 0, fun g => by ring⟩
            · simp only [h1, h2, h3, h4, if_false]
              exact ⟨1 / (2 * h), -1 / (2 * h), 0, 0, i + 1, i - 1, 0, 0, fun g => by ring⟩
    · simp only [ho, if_false]
      unfold d2At
      by_cases h1 : L < 3
      · simp only [h1, if_true]; exact ⟨0, 0, 0, 0, 0, 0, 0, 0, fun g => by ring⟩
      · by_cases h2 : L = 3
        · subst h2
          simp only [show ¬ ((3 : Nat) < 3) by omega, if_false, if_true]
          exact ⟨1 / (h * h), -2 / (h * h), 1 / (h * h), 0, 0, 1, 2, 0, fun g => by ring⟩
        · by_cases h3 : i = 0
          · simp only [h1, h2, h3, if_false, if_true]
            exact ⟨2 / (h * h), -5 / (h * h), 4 / (h * h), -1 / (h * h), 0, 1, 2, 3, fun g => by ring⟩
          · by_cases h4 : i = L - 1
            · subst h4
              simp only [h1, h2, h3, if_false, if_true]
              exact ⟨2 / (h * h), -5 / (h * h), 4 / (h * h), -1 / (h * h), L - 1, L - 2, L - 3, L - 4, fun g => by ring⟩
            · simp only [h1, h2, h3, h4, if_false]
              exact ⟨1 / (h * h), -2 / (h * h), 1 / (h * h), 0, i + 1, i, i - 1, 0, fun g => by ring⟩

/-- stencils along two different axes commute (each acts on its own index) -/
theorem lineD_comm (p1 p2 : Bool) (o1 o2 : Nat) (h1 h2 : Rat) (L M : Nat) (F : Nat → Nat → Rat) (i j : Nat) :
    lineD p1 o1 h1 L (fun k => lineD p2 o2 h2 M (fun l => F k l) j) i
      = lineD p2 o2 h2 M (fun l => lineD p1 o1 h1 L (fun k => F k l) i) j := by
  obtain ⟨a0, a1, a2, a3, s0, s1, s2, s3, hA⟩ := lineD_taps p1 o1 h1 L i
  obtain ⟨b0, b1, b2, b3, t0, t1, t2, t3, hB⟩ := lineD_taps p2 o2 h2 M j
  simp only [hA, hB]
  ring

theorem lineD_sub (p : Bool) (o : Nat) (h : Rat) (L : Nat) (f g : Nat → Rat) (i : Nat) :
    lineD p o h L (fun k => f k - g k) i = lineD p o h L f i - lineD p o h L g i := by
  obtain ⟨a0, a1, a2, a3, s0, s1, s2, s3, hA⟩ := lineD_taps p o h L i
  simp only [hA]
  ring

theorem lineD_congr (p : Bool) (o : Nat) (h : Rat) (L : Nat) (f g : Nat → Rat) (i : Nat) (hfg : ∀ k, f k = g k) :
    lineD p o h L f i = lineD p o h L g i := by
  have : f = g := funext hfg
  rw [this]

/-- fully valid line, open or periodic direction: the derivative is the line stencil -/
theorem D_all_valid (f : Fld) (ax o c : Nat) (i : List Nat) (ho : o = 1 ∨ o = 2)
    (hv : ∀ j, j < f.mesh.nAt ax → f.valid.line ax i j = true) (hi : i.getD ax 0 < f.mesh.nAt ax) :
    D f ax o c i = lineD (periodic f ax) o (f.mesh.cellAt ax) (f.mesh.nAt ax)
      (fun j => (f.data.line ax i j).getD c 0) (i.getD ax 0) := by
  cases hp : periodic f ax with
  | false =>
    rw [D_open_all_valid f ax o c i hp hv hi]
    unfold lineD; simp
  | true =>
    unfold D
    rw [hp]
    unfold diffLine' lineD
    simp only [if_true]
    rw [tab_all_valid _ (fun j => (f.data.line ax i j).getD c 0) _ hv]
    have hlen : (tab (f.mesh.nAt ax) fun j => (f.data.line ax i j).getD c 0).length = f.mesh.nAt ax := by simp
    have hrv : ∀ k, ringVal (tab (f.mesh.nAt ax) fun j => (f.data.line ax i j).getD c 0) k
        = (f.data.line ax i (k % f.mesh.nAt ax)).getD c 0 := by
      intro k
      unfold ringVal
      rw [hlen, getD_tab _ _ _ _ (Nat.mod_lt _ (by omega))]
    rcases ho with rfl | rfl
    · rw [ring_centred_d1 _ _ _ (by rw [hlen]; exact hi), hrv, hrv, hlen]
      simp
    · rw [ring_centred_d2 _ _ _ (by rw [hlen]; exact hi), hrv, hrv, hrv, hlen]
      simp

/-- mixed second difference: stencil along `a` of the stencil along `b` of component `c` -/
def DD (f : Fld) (a b c : Nat) (i : List Nat) : Rat :=
  lineD (periodic f a) 1 (f.mesh.cellAt a) (f.mesh.nAt a)
    (fun k => lineD (periodic f b) 1 (f.mesh.cellAt b) (f.mesh.nAt b)
      (fun l => (f.data.get (setAt (setAt i a k) b l)).getD c 0) (i.getD b 0)) (i.getD a 0)

theorem DD_comm (f : Fld) (a b c : Nat) (i : List Nat) (hab : a ≠ b) : DD f a b c i = DD f b a c i := by
  unfold DD
  rw [lineD_comm]
  apply lineD_congr
  intro l
  apply lineD_congr
  intro k
  rw [setAt_comm _ _ _ _ _ hab]

/-- derivative along `a` of a fully valid field whose component `c'` is the derivative along
`b ≠ a` of component `c` of the fully valid field `f` -/
theorem D_of_D (f g : Fld) (a b c c' : Nat) (i : List Nat) (hf : FullyValid f) (hg : FullyValid g)
    (hm : g.mesh = f.mesh) (hdata : ∀ i', (g.data.get i').getD c' 0 = D f b 1 c i') (hab : a ≠ b)
    (hia : i.getD a 0 < f.mesh.nAt a) (hib : i.getD b 0 < f.mesh.nAt b) :
    D g a 1 c' i = DD f a b c i := by
  rw [D_all_valid g a 1 c' i (Or.inl rfl) (fun j _ => hg _) (by rw [hm]; exact hia)]
  unfold DD periodic
  rw [hm]
  apply lineD_congr
  intro k
  unfold NDA.line
  rw [hdata]
  rw [D_all_valid f b 1 c _ (Or.inl rfl) (fun j _ => hf _) (by rw [getD_setAt_ne _ _ _ _ _ (Ne.symm hab)]; exact hib)]
  rw [getD_setAt_ne _ _ _ _ _ (Ne.symm hab)]
  rfl

/-! ## results of grad/curl: labels, mapping; mixed differences -/



theorem posVdims3 : posVdims 3 = some ["x", "y", "z"] := by rfl

theorem posVmap3 (m : Mesh) (x y z : String) (h : m.region.dims = [x, y, z]) (hn : m.region.ndim = 3) :
    posVmap m 3 = [("x", x), ("y", y), ("z", z)] := by
  unfold posVmap
  simp [hn, h, Fld.defaultVdims]

/-- the gradient of a plain scalar field on a mesh with ≥ 2 axes carries positional labels and mapping -/
theorem grad_meta (f g : Fld) (hp : Plain f) (hnd : 2 ≤ f.mesh.region.dims.length) (h : grad f = .ok g) :
    g.vdims = posVdims g.nvdim ∧ g.vmap = posVmap g.mesh g.nvdim := by
  unfold grad at h
  split at h
  · cases h
  · split at h
    · cases h
    · rename_i ds hds
      obtain ⟨l, _⟩ := mapE_ok _ _ _ hds
      have hpl : ∀ d ∈ ds, Plain d := mapE_all _ Plain (fun x y hy => diffDim_plain hp hy) _ _ hds
      cases ds with
      | nil => simp [stack] at h
      | cons d0 ds' =>
        simp only [stack] at h
        have hne : ds' ≠ [] := by
          intro he; subst he; simp at l; omega
        have p0 := hpl d0 (by simp)
        exact stackGo_meta ds' d0 g hne (fun d hd => hpl d (by simp [hd])) (by rw [p0.2.2, p0.1]; simp) (by rw [p0.1]) h

theorem curl_meta (f g : Fld) (h : curl f = .ok g) :
    g.vdims = posVdims 3 ∧ g.vmap = posVmap f.mesh 3 := by
  unfold curl at h
  split at h
  · cases h
  · split at h
    · cases h
    · split at h
      · cases h
      · split at h
        · split at h
          · cases h
          · rename_i cx hcx
            split at h
            · cases h
            · rename_i cy hcy
              split at h
              · cases h
              · rename_i cz hcz
                split at h
                · cases h
                · rename_i cxy hcxy
                  have px := curlComp_plain hcx
                  have py := curlComp_plain hcy
                  have pz := curlComp_plain hcz
                  obtain ⟨m1, _, m2, _⟩ := lshift_ok hcxy
                  obtain ⟨a1, a2⟩ := lshift_plain py (by rw [px.2.2, px.1]; simp) (by rw [px.1]) hcxy
                  have hm : cx.mesh = f.mesh := by
                    -- the mesh of a curl component is the operand's
                    unfold curlComp compOfDim at hcx
                    split at hcx
                    · cases hcx
                    · rename_i k1 hk1
                      split at hcx
                      · cases hcx
                      · rename_i t1 ht1
                        split at hcx
                        · cases hcx
                        · split at hcx
                          · cases hcx
                          · have e1 := (binop_ok hcx).1
                            have e2 : t1.mesh = k1.mesh := by
                              unfold diffDim at ht1
                              split at ht1
                              · cases ht1
                              · split at ht1
                                · cases ht1
                                · exact (diff_ok ht1).1
                            have e3 : k1.mesh = f.mesh := by
                              cases hq : rDimLast f _ with
                              | none => rw [hq] at hk1; cases hk1
                              | some l =>
                                rw [hq] at hk1
                                cases hk : f.vdimIndex l with
                                | none => simp only [getComp, hk] at hk1; cases hk1
                                | some k => exact (getComp_ok hk hk1).1
                            rw [e1, e2, e3]
                  have := lshift_plain pz (by rw [a2, m2, px.1, py.1]; exact posVmap_length _ _) (by rw [m2, px.1]; omega) h
                  rw [m2, px.1, py.1, m1, hm] at this
                  exact this
        · cases h


/-- the stencil along `a` applied to the derivative along `b ≠ a` of component `c` -/
theorem lineD_D (f : Fld) (a b c : Nat) (i : List Nat) (hf : FullyValid f) (hab : a ≠ b)
    (hib : i.getD b 0 < f.mesh.nAt b) :
    lineD (periodic f a) 1 (f.mesh.cellAt a) (f.mesh.nAt a) (fun k => D f b 1 c (setAt i a k)) (i.getD a 0)
      = DD f a b c i := by
  unfold DD
  apply lineD_congr
  intro k
  rw [D_all_valid f b 1 c _ (Or.inl rfl) (fun j _ => hf _) (by rw [getD_setAt_ne _ _ _ _ _ (Ne.symm hab)]; exact hib)]
  rw [getD_setAt_ne _ _ _ _ _ (Ne.symm hab)]
  rfl

/-- derivative along `a` of a field whose component `c'` is `∂_{b1} f_{c1} - ∂_{b2} f_{c2}` -/
theorem D_of_sub (f g : Fld) (a b1 c1 b2 c2 c' : Nat) (i : List Nat) (hf : FullyValid f) (hg : FullyValid g)
    (hm : g.mesh = f.mesh)
    (hdata : ∀ i', (g.data.get i').getD c' 0 = D f b1 1 c1 i' - D f b2 1 c2 i')
    (h1 : a ≠ b1) (h2 : a ≠ b2)
    (hia : i.getD a 0 < f.mesh.nAt a) (hi1 : i.getD b1 0 < f.mesh.nAt b1) (hi2 : i.getD b2 0 < f.mesh.nAt b2) :
    D g a 1 c' i = DD f a b1 c1 i - DD f a b2 c2 i := by
  rw [D_all_valid g a 1 c' i (Or.inl rfl) (fun j _ => hg _) (by rw [hm]; exact hia)]
  rw [← lineD_D f a b1 c1 i hf h1 hi1, ← lineD_D f a b2 c2 i hf h2 hi2, ← lineD_sub]
  unfold periodic
  rw [hm]
  apply lineD_congr
  intro k
  unfold NDA.line
  rw [hdata]

theorem dims3 (f : Fld) (hdims : DimsOk f) (hnd : f.mesh.ndim = 3) :
    ∃ x y z, f.mesh.region.dims = [x, y, z] ∧ x ≠ y ∧ x ≠ z ∧ y ≠ z := by
  obtain ⟨hl, hd⟩ := hdims
  rw [hnd] at hl
  match hq : f.mesh.region.dims, hl with
  | [x, y, z], _ =>
    rw [hq] at hd
    simp [hasDup] at hd
    refine ⟨x, y, z, rfl, ?_, ?_, ?_⟩
    · exact hd.1.1
    · exact hd.1.2
    · exact hd.2

/-- positional mapping on a 3-d mesh: axis `d` is paired with the `d`-th of the labels x, y, z -/
theorem rDimLast_pos (g : Fld) (x y z : String) (hxy : x ≠ y) (hxz : x ≠ z) (hyz : y ≠ z)
    (hv : g.vmap = [("x", x), ("y", y), ("z", z)]) :
    rDimLast g x = some "x" ∧ rDimLast g y = some "y" ∧ rDimLast g z = some "z" := by
  unfold rDimLast
  rw [hv]
  have e1 : (z == x) = false := by simpa using (Ne.symm hxz)
  have e2 : (y == x) = false := by simpa using (Ne.symm hxy)
  have e3 : (z == y) = false := by simpa using (Ne.symm hyz)
  simp [List.find?, e1, e2, e3]

/-! ## the building blocks succeed on well-formed inputs -/



theorem diff_succeeds (f : Fld) (ax o : Nat) (r : Bool) (ho : o = 1 ∨ o = 2) (hax : ax < f.mesh.ndim) :
    ∃ g, C04.diff f ax o r = .ok g := by
  unfold C04.diff
  have h1 : ¬ (o ≠ 1 ∧ o ≠ 2) := by omega
  have h2 : ¬ (f.mesh.ndim ≤ ax) := by omega
  simp only [h1, h2, if_false]
  exact ⟨_, rfl⟩

theorem mk_plain_succeeds (mesh : Mesh) (data : NDA (List Rat)) (valid : NDA Bool) (unit : Option String)
    (mp : List (String × String)) (hmp : mp.length ≤ 1) :
    ∃ g, mkFld mesh 1 data valid none (some mp) unit = .ok g := by
  unfold mkFld vdimsSet vmapSet
  simp only [Fld.defaultVdims]
  match mp, hmp with
  | [], _ => simp
  | [p], _ => simp

theorem getComp_succeeds (f : Fld) (l : String) (k : Nat) (hk : f.vdimIndex l = some k) :
    ∃ g, getComp f l = .ok g := by
  unfold getComp
  rw [hk]
  apply mk_plain_succeeds
  cases Fld.lookup f.vmap l <;> simp

theorem binop_plain_succeeds (op : Rat → Rat → Rat) (a b : Fld) (ha : Plain a) (hb : Plain b)
    (hm : a.mesh = b.mesh) : ∃ g, binop op a b = .ok g := by
  unfold binop
  have h2 : ¬ (a.nvdim ≠ 1 ∧ b.nvdim ≠ 1 ∧ a.nvdim ≠ b.nvdim) := by rw [ha.1, hb.1]; simp
  simp only [hm, ne_eq, not_true_eq_false, if_false, h2]
  rw [ha.1, hb.1, ha.2.1, ha.2.2]
  simp only [Nat.max_self, Nat.lt_irrefl, and_false, if_false]
  exact mk_plain_succeeds _ _ _ _ [] (by simp)

theorem addNum_plain_succeeds (a : Fld) (q : Rat) (ha : Plain a) : ∃ g, addNum a q = .ok g := by
  unfold addNum
  rw [ha.1, ha.2.1, ha.2.2]
  exact mk_plain_succeeds _ _ _ _ [] (by simp)

theorem sumGo_plain_succeeds (ts : List Fld) : ∀ (acc : Fld), Plain acc →
    (∀ t ∈ ts, Plain t ∧ t.mesh = acc.mesh) → ∃ g, sumGo acc ts = .ok g := by
  induction ts with
  | nil => intro acc _ _; exact ⟨acc, rfl⟩
  | cons t ts ih =>
    intro acc ha hs
    obtain ⟨r, hr⟩ := binop_plain_succeeds (· + ·) acc t ha (hs t (by simp)).1 (hs t (by simp)).2.symm
    have hr' : add acc t = .ok r := hr
    simp only [sumGo, hr']
    apply ih r (binop_plain ha (hs t (by simp)).1 hr)
    intro t' ht'
    exact ⟨(hs t' (by simp [ht'])).1, by rw [(binop_ok hr).1]; exact (hs t' (by simp [ht'])).2⟩

theorem sumF_plain_succeeds (ts : List Fld) (m : Mesh) (hne : ts ≠ []) (hs : ∀ t ∈ ts, Plain t ∧ t.mesh = m) :
    ∃ g, sumF ts = .ok g := by
  cases ts with
  | nil => exact absurd rfl hne
  | cons t ts =>
    obtain ⟨acc, hacc⟩ := addNum_plain_succeeds t 0 (hs t (by simp)).1
    simp only [sumF, hacc]
    apply sumGo_plain_succeeds ts acc (addNum_plain (hs t (by simp)).1 hacc)
    intro t' ht'
    exact ⟨(hs t' (by simp [ht'])).1, by rw [(addNum_ok hacc).1, (hs t (by simp)).2]; exact (hs t' (by simp [ht'])).2⟩

theorem lshift_plain_succeeds (r d : Fld) (hd : Plain d) (hm : r.mesh = d.mesh)
    (hr : r.vmap.length ≤ r.nvdim) (hr1 : 1 ≤ r.nvdim) : ∃ g, lshift r d = .ok g := by
  unfold lshift
  simp only [hm, ne_eq, not_true_eq_false, if_false]
  have e1 : lshiftVdims r.vdims d.vdims = none := by
    rw [hd.2.1]; unfold lshiftVdims; cases r.vdims <;> rfl
  have e2 : lshiftVmap r d = none := by
    unfold lshiftVmap
    rw [hd.2.2, dictUpdate_nil, hd.1]
    have : r.vmap.length ≠ r.nvdim + 1 := by omega
    simp [this]
  rw [e1, e2, hd.1]
  unfold mkFld vdimsSet vmapSet
  have h1 : ¬ (r.nvdim + 1 < 1) := by omega
  have h2 : ¬ (r.nvdim + 1 = 1) := by omega
  simp only [h1, h2, if_false]
  by_cases hnd : r.nvdim + 1 = d.mesh.region.ndim
  · simp only [hnd, if_true]
    obtain ⟨l, hl, _⟩ := defaultVdims_some (d.mesh.region.ndim) (by omega)
    rw [hl]
    exact ⟨_, rfl⟩
  · simp only [hnd, if_false]
    exact ⟨_, rfl⟩

theorem stackGo_plain_succeeds (ds : List Fld) : ∀ (acc : Fld), acc.vmap.length ≤ acc.nvdim → 1 ≤ acc.nvdim →
    (∀ d ∈ ds, Plain d ∧ d.mesh = acc.mesh) → ∃ g, stackGo acc ds = .ok g := by
  induction ds with
  | nil => intro acc _ _ _; exact ⟨acc, rfl⟩
  | cons d ds ih =>
    intro acc ha ha1 hs
    obtain ⟨r, hr⟩ := lshift_plain_succeeds acc d (hs d (by simp)).1 (hs d (by simp)).2.symm ha ha1
    simp only [stackGo, hr]
    obtain ⟨m1, _, m2, _⟩ := lshift_ok hr
    obtain ⟨_, p2⟩ := lshift_plain (hs d (by simp)).1 ha ha1 hr
    apply ih r
    · rw [p2, m2, (hs d (by simp)).1.1]; exact posVmap_length _ _
    · omega
    · intro d' hd'
      exact ⟨(hs d' (by simp [hd'])).1, by rw [m1]; exact (hs d' (by simp [hd'])).2⟩

theorem mapE_succeeds {α β} (g : α → M β) : ∀ (xs : List α), (∀ x ∈ xs, ∃ y, g x = .ok y) →
    ∃ ys, mapE g xs = .ok ys := by
  intro xs
  induction xs with
  | nil => intro _; exact ⟨[], rfl⟩
  | cons x xs ih =>
    intro h
    obtain ⟨y, hy⟩ := h x (by simp)
    obtain ⟨ys, hys⟩ := ih (fun x' hx' => h x' (by simp [hx']))
    exact ⟨y :: ys, by simp only [mapE, hy, hys]⟩

theorem mem_dims_getD (f : Fld) (d : String) (hd : d ∈ f.mesh.region.dims) :
    ∃ a, a < f.mesh.region.dims.length ∧ d = f.mesh.region.dims.getD a "" := by
  obtain ⟨a, ha, rfl⟩ := List.getElem_of_mem hd
  exact ⟨a, ha, by rw [List.getD_eq_getElem?_getD, List.getElem?_eq_getElem ha]; rfl⟩

theorem diffDim_succeeds (f : Fld) (d : String) (o : Nat) (ho : o = 1 ∨ o = 2) (hdims : DimsOk f)
    (hd : d ∈ f.mesh.region.dims) : ∃ g, diffDim f d o = .ok g ∧ g.mesh = f.mesh := by
  obtain ⟨a, ha, rfl⟩ := mem_dims_getD f d hd
  rw [diffDim_eq f a o hdims.2 ha]
  obtain ⟨g, hg⟩ := diff_succeeds f a o true ho (by rw [← hdims.1]; exact ha)
  exact ⟨g, hg, (diff_ok hg).1⟩


theorem getD_mem_of_lt (vs : List String) (c : Nat) (hc : c < vs.length) : vs.getD c "" ∈ vs := by
  rw [List.getD_eq_getElem?_getD, List.getElem?_eq_getElem hc]; simp

theorem mem_getD (vs : List String) (v : String) (hv : v ∈ vs) : ∃ c, c < vs.length ∧ v = vs.getD c "" := by
  obtain ⟨c, hc, rfl⟩ := List.getElem_of_mem hv
  exact ⟨c, hc, by rw [List.getD_eq_getElem?_getD, List.getElem?_eq_getElem hc]; rfl⟩

theorem divTerm_succeeds (f : Fld) (vs : List String) (hv : f.vdims = some vs) (hvd : hasDup vs = false)
    (hdims : DimsOk f) (c a : Nat) (hc : c < vs.length) (ha : a < f.mesh.ndim)
    (hm : Fld.lookup f.vmap (vs.getD c "") = some (f.mesh.region.dims.getD a "")) :
    ∃ t, divTerm f (vs.getD c "") = .ok t ∧ Plain t ∧ t.mesh = f.mesh := by
  unfold divTerm
  rw [hm]
  have hk := vdimIndex_getD f vs hv hvd c hc
  obtain ⟨comp, hcomp⟩ := getComp_succeeds f _ c hk
  rw [hcomp]
  simp only []
  have m1 := (getComp_ok hk hcomp).1
  have hdd : DimsOk comp := by unfold DimsOk; rw [m1]; exact hdims
  have hmem : f.mesh.region.dims.getD a "" ∈ comp.mesh.region.dims := by
    rw [m1]; exact getD_mem_of_lt _ _ (by rw [hdims.1]; exact ha)
  obtain ⟨t, ht, htm⟩ := diffDim_succeeds comp _ 1 (Or.inl rfl) hdd hmem
  exact ⟨t, ht, diffDim_plain (getComp_plain hcomp) ht, by rw [htm, m1]⟩

theorem allMapped_of (f : Fld) (vs : List String) (σ : Nat → Nat) (hdims : DimsOk f)
    (hσ : ∀ c, c < vs.length → σ c < f.mesh.ndim ∧
      Fld.lookup f.vmap (vs.getD c "") = some (f.mesh.region.dims.getD (σ c) "")) :
    allMapped f vs = true := by
  unfold allMapped
  rw [List.all_eq_true]
  intro v hv
  obtain ⟨c, hc, rfl⟩ := mem_getD vs v hv
  rw [(hσ c hc).2]
  simp only [List.contains_eq_mem, decide_eq_true_eq]
  exact getD_mem_of_lt _ _ (by rw [hdims.1]; exact (hσ c hc).1)

theorem curlComp_succeeds (f : Fld) (vs : List String) (hv : f.vdims = some vs) (hvd : hasDup vs = false)
    (hdims : DimsOk f) (d1 e1 d2 e2 c1 c2 : Nat)
    (he1 : e1 < f.mesh.ndim) (he2 : e2 < f.mesh.ndim) (hc1 : c1 < vs.length) (hc2 : c2 < vs.length)
    (hr1 : rDimLast f (f.mesh.region.dims.getD d1 "") = some (vs.getD c1 ""))
    (hr2 : rDimLast f (f.mesh.region.dims.getD d2 "") = some (vs.getD c2 "")) :
    ∃ t, curlComp f (f.mesh.region.dims.getD d1 "") (f.mesh.region.dims.getD e1 "")
          (f.mesh.region.dims.getD d2 "") (f.mesh.region.dims.getD e2 "") = .ok t ∧ Plain t ∧ t.mesh = f.mesh := by
  unfold curlComp compOfDim
  rw [hr1, hr2]
  simp only []
  have i1 := vdimIndex_getD f vs hv hvd c1 hc1
  have i2 := vdimIndex_getD f vs hv hvd c2 hc2
  obtain ⟨k1, hk1⟩ := getComp_succeeds f _ c1 i1
  obtain ⟨k2, hk2⟩ := getComp_succeeds f _ c2 i2
  have a1 := (getComp_ok i1 hk1).1
  have b1 := (getComp_ok i2 hk2).1
  have hd1 : DimsOk k1 := by unfold DimsOk; rw [a1]; exact hdims
  have hd2 : DimsOk k2 := by unfold DimsOk; rw [b1]; exact hdims
  obtain ⟨t1, ht1, hm1⟩ := diffDim_succeeds k1 (f.mesh.region.dims.getD e1 "") 1 (Or.inl rfl) hd1
    (by rw [a1]; exact getD_mem_of_lt _ _ (by rw [hdims.1]; exact he1))
  obtain ⟨t2, ht2, hm2⟩ := diffDim_succeeds k2 (f.mesh.region.dims.getD e2 "") 1 (Or.inl rfl) hd2
    (by rw [b1]; exact getD_mem_of_lt _ _ (by rw [hdims.1]; exact he2))
  rw [hk1]
  simp only [ht1, hk2, ht2]
  have p1 := diffDim_plain (getComp_plain hk1) ht1
  have p2 := diffDim_plain (getComp_plain hk2) ht2
  obtain ⟨t, ht⟩ := binop_plain_succeeds (· - ·) t1 t2 p1 p2 (by rw [hm1, hm2, a1, b1])
  exact ⟨t, ht, binop_plain p1 p2 ht, by rw [(binop_ok ht).1, hm1, a1]⟩

theorem lapTerms_succeed (hf : Fld) (hp : Plain hf) (hdims : DimsOk hf) (hpos : 1 ≤ hf.mesh.ndim) :
    ∃ ts, mapE (fun d => diffDim hf d 2) hf.mesh.region.dims = .ok ts ∧ ts ≠ [] ∧
      ∀ t ∈ ts, Plain t ∧ t.mesh = hf.mesh := by
  obtain ⟨ts, hts⟩ := mapE_succeeds (fun d => diffDim hf d 2) hf.mesh.region.dims (fun d hd => by
    obtain ⟨g, hg, _⟩ := diffDim_succeeds hf d 2 (Or.inr rfl) hdims hd
    exact ⟨g, hg⟩)
  obtain ⟨l, e⟩ := mapE_ok _ _ _ hts
  refine ⟨ts, hts, ?_, ?_⟩
  · intro he; subst he; rw [hdims.1] at l; simp at l; omega
  · intro t ht
    obtain ⟨k, hk, rfl⟩ := List.getElem_of_mem ht
    have hk' := e k (by omega) hk
    obtain ⟨g, hg, hm⟩ := diffDim_succeeds hf (hf.mesh.region.dims[k]'(by omega)) 2 (Or.inr rfl) hdims (List.getElem_mem _)
    rw [hg] at hk'
    injection hk' with hk'
    subst hk'
    exact ⟨diffDim_plain hp hg, hm⟩

end DFV.C05
