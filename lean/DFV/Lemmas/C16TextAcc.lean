import DFV.Lemmas.C16Stale
import DFV.Lemmas.C16Cells
/-! C16 helper lemmas, part 19: the text form, exactly — when the file `to_file` writes in
the text form is read back (D63 as an equivalence), for any rounding `rnd` of the writer. -/
namespace DFV.C16
open DFV DFV.Mesh

theorem roundArr_length (r : Rat → Rat) (a : VArr) : (roundArr r a).vals.length = a.vals.length := by
  unfold roundArr; split <;> simp

theorem roundArr_ncomp (r : Rat → Rat) (a : VArr) : (roundArr r a).ncomp = a.ncomp := by
  unfold roundArr; split <;> rfl

theorem nodup_hasDup_false (vs : List String) (h : vs.Nodup) : hasDup vs = false := by
  induction vs with
  | nil => rfl
  | cons x xs ih =>
    obtain ⟨h1, h2⟩ := List.nodup_cons.mp h
    simp only [hasDup, ih h2, Bool.or_false]
    cases hc : xs.contains x with
    | false => rfl
    | true => exact absurd (List.contains_iff_mem.mp hc) h1

theorem hasDup_filter_false (vs : List String) (p : String → Bool) (h : hasDup vs = false) : hasDup (vs.filter p) = false :=
  nodup_hasDup_false _ ((hasDup_false_nodup vs h).filter p)

/-- bounds and counts of the text grid: the rounded corners -/
theorem grid_geom_rounded (f : Fld) (nx ny nz : Nat) (h : WFc f nx ny nz) (rnd : Rat → Rat) (cell : List VArr) :
    (mapGrid rnd { dims := [nx + 1, ny + 1, nz + 1], coords := tab 3 fun a => f.mesh.vertices.getD a [], cell := cell }).n =
      [nx, ny, nz] ∧
    (mapGrid rnd { dims := [nx + 1, ny + 1, nz + 1], coords := tab 3 fun a => f.mesh.vertices.getD a [], cell := cell }).p1 =
      (tab 3 fun a => rnd (f.mesh.region.lo a)) ∧
    (mapGrid rnd { dims := [nx + 1, ny + 1, nz + 1], coords := tab 3 fun a => f.mesh.vertices.getD a [], cell := cell }).p2 =
      (tab 3 fun a => rnd (f.mesh.region.hi a)) := by
  obtain ⟨hnd, hl1, hl2, hax, hn0, hn1, hn2⟩ := mesh_axes (scalarised f) nx ny nz (scalarised_wf f nx ny nz h)
  have hmesh : (scalarised f).mesh = f.mesh := rfl
  rw [hmesh] at hnd hl1 hl2 hax hn0 hn1 hn2
  have hax' : ∀ a, a < 3 →
      (mapGrid rnd { dims := [nx + 1, ny + 1, nz + 1], coords := tab 3 fun a => f.mesh.vertices.getD a [],
                     cell := cell }).ax a = (f.mesh.vertices.getD a []).map rnd := by
    intro a ha
    simp only [Grid.ax, mapGrid]
    rw [getD_map_lt _ _ _ _ [] (by simp; exact ha), getD_tab _ _ _ _ ha]
  refine ⟨by simp [Grid.n, mapGrid], ?_, ?_⟩
  · unfold Grid.p1
    apply tab_congr
    intro a ha
    rw [hax' a ha, getD_map_lt _ _ _ _ 0 (by rw [vertices_length f.mesh a (by omega)]; omega),
      C01.vertices_eq_faces f.mesh a (by omega) (hax a ha).1 0 (by omega)]
    simp
  · unfold Grid.p2
    apply tab_congr
    intro a ha
    have hlen := vertices_length f.mesh a (by omega : a < f.mesh.ndim)
    rw [hax' a ha, List.length_map, hlen]
    have e : f.mesh.nAt a + 1 - 1 = f.mesh.nAt a := by omega
    rw [e, getD_map_lt _ _ _ _ 0 (by rw [hlen]; omega),
      C01.vertices_eq_faces f.mesh a (by omega) (hax a ha).1 _ (le_refl _)]
    have hcov := C01.cells_cover_edges f.mesh a (hax a ha).1
    unfold Region.edge at hcov
    congr 1
    linarith

/-- the reader on the text grid, in parts -/
theorem fromCells_text_parts (f : Fld) (nx ny nz : Nat) (h : WFc f nx ny nz) (rnd : Rat → Rat)
    (sc : Option (List (String × Region))) :
    fromCells (mapGrid rnd { dims := [nx + 1, ny + 1, nz + 1], coords := tab 3 fun a => f.mesh.vertices.getD a [],
                             cell := cellData f }) sc =
      fromParts [nx, ny, nz] (tab 3 fun a => rnd (f.mesh.region.lo a)) (tab 3 fun a => rnd (f.mesh.region.hi a))
        (some (roundArr rnd (fieldVArr f))) (some (roundArr rnd (validVArr f))) (labelNames (cellData f)) sc := by
  obtain ⟨g1, g2, g3⟩ := grid_geom_rounded f nx ny nz h rnd (cellData f)
  rw [fromCells_eq, g1, g2, g3, mapGrid_cell, lastNamed_map_roundArr, lastNamed_map_roundArr, labelNames_map_roundArr,
    cellData_field, cellData_valid]
  rfl

/-- **the text file is read back exactly when** no edge of the region collapses under the writer's
rounding and every subregion of the side-car passes the subregion setter's test on the mesh with
the ROUNDED corners -/
theorem text_read_ok_iff (f : Fld) (nx ny nz : Nat) (h : WFc f nx ny nz) (rnd : Rat → Rat)
    (sc : Option (List (String × Region))) (hinv : ∀ l, sc = some l → ∀ p ∈ l, p.2.Inv) :
    (∃ f', fromCells (mapGrid rnd { dims := [nx + 1, ny + 1, nz + 1], coords := tab 3 fun a => f.mesh.vertices.getD a [],
                                    cell := cellData f }) sc = .ok f') ↔
      ((∀ a, a < 3 → rnd (f.mesh.region.lo a) ≠ rnd (f.mesh.region.hi a)) ∧
       ∀ l, sc = some l → ∀ p ∈ l,
         T.candOk (boundsMesh (tab 3 fun a => rnd (f.mesh.region.lo a)) (tab 3 fun a => rnd (f.mesh.region.hi a)) [nx, ny, nz])
           p.2 = true) := by
  rw [fromCells_text_parts f nx ny nz h rnd sc, fromParts_ok_iff]
  have hfl : (roundArr rnd (fieldVArr f)).vals.length = natProd [nx, ny, nz] * (roundArr rnd (fieldVArr f)).ncomp := by
    rw [roundArr_length, roundArr_ncomp]
    exact flat4_length (array4 f) nx ny nz f.nvdim (array4_shape f nx ny nz h.dshape)
  have hvl : (roundArr rnd (validVArr f)).vals.length = natProd [nx, ny, nz] := by
    rw [roundArr_length]
    exact flat3_length (validInt f) nx ny nz (by simp [validInt, NDA.map, h.vshape])
  have hnc : 1 ≤ (roundArr rnd (fieldVArr f)).ncomp := by rw [roundArr_ncomp]; exact h.nv
  have hlab : (labelNames (cellData f)).length = (roundArr rnd (fieldVArr f)).ncomp → hasDup (labelNames (cellData f)) = false := by
    intro _
    rw [cellData_labels f nx ny nz h]
    split
    · rename_i hnv
      obtain ⟨vs, hvs, _, hd⟩ := h.labels hnv
      rw [hvs]
      exact hasDup_filter_false vs _ hd
    · rfl
  obtain ⟨hm1, hm2⟩ := meshOf_ok_iff3 (tab 3 fun a => rnd (f.mesh.region.lo a)) (tab 3 fun a => rnd (f.mesh.region.hi a))
    [nx, ny, nz] (by simp) (by simp)
  obtain ⟨hx, hy, hz⟩ := wf_pos (scalarised f) nx ny nz (scalarised_wf f nx ny nz h)
  have hne_iff : (∀ a, a < 3 → (tab 3 fun a => rnd (f.mesh.region.lo a)).getD a 0 ≠ (tab 3 fun a => rnd (f.mesh.region.hi a)).getD a 0) ↔
      ∀ a, a < 3 → rnd (f.mesh.region.lo a) ≠ rnd (f.mesh.region.hi a) := by
    constructor
    · intro hh a ha
      have := hh a ha
      rwa [getD_tab _ _ _ _ ha, getD_tab _ _ _ _ ha] at this
    · intro hh a ha
      rw [getD_tab _ _ _ _ ha, getD_tab _ _ _ _ ha]
      exact hh a ha
  constructor
  · rintro ⟨a, ha, _, _, ⟨m0, m, hm0, hm⟩, _, _⟩
    have hcond := hm1.mp ⟨m0, hm0⟩
    have hm0' := hm2 m0 hm0
    subst hm0'
    refine ⟨hne_iff.mp hcond.1, ?_⟩
    intro l hl
    subst hl
    exact (loadSubs_ok_iff _ l (hinv l rfl)).mp ⟨m, hm⟩
  · rintro ⟨hne, hsub⟩
    obtain ⟨m0, hm0⟩ := hm1.mpr ⟨hne_iff.mpr hne, rfl, by
      intro k hk
      simp only [List.mem_cons, List.mem_nil_iff, or_false] at hk
      rcases hk with rfl | rfl | rfl <;> omega⟩
    have hm0' := hm2 m0 hm0
    subst hm0'
    have hload : ∃ m, loadSubs (boundsMesh (tab 3 fun a => rnd (f.mesh.region.lo a)) (tab 3 fun a => rnd (f.mesh.region.hi a))
        [nx, ny, nz]) sc = .ok m := by
      cases sc with
      | none => exact ⟨_, rfl⟩
      | some l => exact (loadSubs_ok_iff _ l (hinv l rfl)).mpr (hsub l rfl)
    obtain ⟨m, hm⟩ := hload
    exact ⟨_, rfl, hfl, by intro v hv; injection hv with hv; rw [← hv]; exact hvl, ⟨_, m, hm0, hm⟩, hnc, hlab⟩

/-- when the rounding keeps the two corners, the mesh rebuilt from the text grid is the mesh
rebuilt from the binary grid -/
theorem boundsMesh_fixed (f : Fld) (nx ny nz : Nat) (h : WFc f nx ny nz) (rnd : Rat → Rat)
    (hfix : ∀ a, a < 3 → rnd (f.mesh.region.lo a) = f.mesh.region.lo a ∧ rnd (f.mesh.region.hi a) = f.mesh.region.hi a) :
    boundsMesh (tab 3 fun a => rnd (f.mesh.region.lo a)) (tab 3 fun a => rnd (f.mesh.region.hi a)) [nx, ny, nz] =
      { region := plainRegion f.mesh.region.pmin f.mesh.region.pmax, n := [nx, ny, nz], bc := "", subs := [] } := by
  obtain ⟨hnd, hl1, hl2, hax, _, _, _⟩ := mesh_axes (scalarised f) nx ny nz (scalarised_wf f nx ny nz h)
  have hmesh : (scalarised f).mesh = f.mesh := rfl
  rw [hmesh] at hl1 hl2 hax
  unfold boundsMesh
  congr 2
  · symm
    apply eq_tab_of_getD _ 3 _ 0 hl1
    intro a ha
    rw [getD_tab _ _ _ _ ha, getD_tab _ _ _ _ ha, (hfix a ha).1, (hfix a ha).2]
    exact (min_eq_left (le_of_lt (hax a ha).2)).symm
  · symm
    apply eq_tab_of_getD _ 3 _ 0 hl2
    intro a ha
    rw [getD_tab _ _ _ _ ha, getD_tab _ _ _ _ ha, (hfix a ha).1, (hfix a ha).2]
    exact (max_eq_right (le_of_lt (hax a ha).2)).symm

end DFV.C16
