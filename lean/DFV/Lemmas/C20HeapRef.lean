import DFV.Lemmas.C20Heap
import DFV.Lemmas.C20Img
import DFV.Lemmas.C20Plot
/-!
C20 helper lemmas, ninth part: the plot functions on the heap REFINE the value model — what
`scalar` / `contour` / `vector` hand to matplotlib after their in-place NaN writes is what
`mplScalar` / `mplContour` / `mplVector` compute from the field as a value.
-/
namespace DFV.C20
open DFV

theorem imgOfBuf_eq {α} (n : List Nat) (hn : n.length = 2) (b : List Nat → Option α) (keep : NDA Bool)
    (val : List Nat → α)
    (hb : ∀ x y, b [x, y] = if keep.get [x, y] then some (val [x, y]) else none) :
    (⟨n, b⟩ : NDA (Option α)).transpose [1, 0] = imgOf n keep val := by
  unfold imgOf NDA.transpose
  simp only [hn]
  congr 1
  funext i
  exact hb _ _

/-- the field's arrays exist on the heap -/
def HFld.On (h : AHeap) (f : HFld) : Prop := f.arr < h.length ∧ f.val < h.length

theorem abs_frame (h h' : AHeap) (f : HFld) (fr : Frame h h') (hf : f.On h) : f.abs h' = f.abs h := by
  unfold HFld.abs HFld.validAt
  rw [fr.2 _ hf.1, fr.2 _ hf.2]

theorem validAt_frame (h h' : AHeap) (f : HFld) (fr : Frame h h') (hf : f.On h) (i : List Nat) :
    f.validAt h' i = f.validAt h i := by
  unfold HFld.validAt
  rw [fr.2 _ hf.2]

/-- value of `values` after the two NaN writes -/
theorem buf_two_writes (h : AHeap) (V : Nat) (m1 m2 : List Nat → Bool) (hV : V < h.length) (i : List Nat) :
    ((h.nanWhere V m1).nanWhere V m2).buf V i =
      if m2 i then none else if m1 i then none else h.buf V i := by
  rw [buf_nanWhere_eq _ _ _ (by rw [nanWhere_len]; exact hV), buf_nanWhere_eq _ _ _ hV]

/-- `_filter_values` with a filter on the same cell counts -/
theorem filterValuesH_same (h : AHeap) (f g : HFld) (V : Nat) (hn : g.mesh.n = f.mesh.n)
    (h1 : g.nvdim = 1) (h2 : g.mesh.region.ndim = 2) :
    filterValuesH h f g V =
      .ok ((h.nanWhere V fun i => decide ((h.buf g.arr (i.take 2 ++ [0])).getD 0 = 0)).nanWhere V
            fun i => !f.validAt h (i.take 2)) := by
  unfold filterValuesH filterArrH
  rw [if_neg (by simpa using h1), if_neg (by simpa using h2), if_pos hn]

/-- `_filter_values` with a filter on other cell counts -/
theorem filterValuesH_other (h : AHeap) (f g : HFld) (V : Nat) (hn : g.mesh.n ≠ f.mesh.n)
    (h1 : g.nvdim = 1) (h2 : g.mesh.region.ndim = 2) :
    filterValuesH h f g V =
      match auxOnMesh (f.abs h) (g.abs h) with
      | .error e => .error e
      | .ok a =>
        .ok (((h.alloc fun i => some ((a.get i.dropLast).getD 0 0)).1.nanWhere V
              fun i => decide (((h.alloc fun i => some ((a.get i.dropLast).getD 0 0)).1.buf h.length
                  (i.take 2 ++ [0])).getD 0 = 0)).nanWhere V
            fun i => !f.validAt (h.alloc fun i => some ((a.get i.dropLast).getD 0 0)).1 (i.take 2)) := by
  unfold filterValuesH filterArrH
  rw [if_neg (by simpa using h1), if_neg (by simpa using h2), if_neg hn]
  cases auxOnMesh (f.abs h) (g.abs h) with
  | error e => rfl
  | ok a => rfl

theorem validAsFieldH_arr (h : AHeap) (f : HFld) (i : List Nat) :
    (validAsFieldH h f).1.buf (validAsFieldH h f).2.arr i =
      some (if f.validAt h (i.take 2) then 1 else 0) := by
  show ((h.alloc _).1.alloc _).1.buf h.length i = _
  rw [buf_alloc_lt _ _ h.length (by rw [alloc_len]; omega), buf_alloc_new]

/-- the entry of a one-component heap field as the value model sees it -/
theorem abs_data_one (h : AHeap) (g : HFld) (h1 : g.nvdim = 1) (x y : Nat) :
    ((g.abs h).data.get [x, y]).getD 0 0 = (h.buf g.arr [x, y, 0]).getD 0 := by
  unfold HFld.abs
  simp only [h1]
  rfl

/-- **`values` after `_filter_values` = the masked array of the value model.**  For a
one-component field on the heap without NaN entries: the common part of `scalar` / `contour` on
the heap fails exactly when the filter step of the value model fails, and otherwise leaves in
`values` the field's number where the value model keeps the cell and NaN elsewhere. -/
theorem maskedValuesH_spec (h : AHeap) (f : HFld) (flt : Option HFld) (hf : f.On h)
    (hnum : ∀ i, (h.buf f.arr i).isSome) (hg : ∀ g, flt = some g → g.On h) (hnv : f.nvdim = 1)
    (h2 : f.mesh.region.ndim = 2) :
    match filterKeep (f.abs h) (filterOf (f.abs h) { filter := flt.map (·.abs h) }) with
    | .error e => maskedValuesH h f flt = .error e
    | .ok keep => ∃ hv, maskedValuesH h f flt = .ok hv ∧ hv.2 = h.length ∧
        ∀ x y, hv.1.buf hv.2 [x, y] =
          if keep.get [x, y] then some (((f.abs h).data.get [x, y]).getD 0 0) else none := by
  have fr1 : Frame h (h.alloc fun i => h.buf f.arr (i.take 2 ++ [0])).1 := frame_alloc h _
  have hV : h.length < (h.alloc fun i => h.buf f.arr (i.take 2 ++ [0])).1.length := by rw [alloc_len]; omega
  have hcopy : ∀ x y, (h.alloc fun i => h.buf f.arr (i.take 2 ++ [0])).1.buf h.length [x, y]
      = some (((f.abs h).data.get [x, y]).getD 0 0) := by
    intro x y
    rw [buf_alloc_new, abs_data_one h f hnv]
    have := hnum [x, y, 0]
    show h.buf f.arr [x, y, 0] = _
    cases hb : h.buf f.arr [x, y, 0] with
    | none => rw [hb] at this; cases this
    | some v => rfl
  cases flt with
  | none =>
    -- default filter: a fresh `_valid_as_field`
    have hfo : filterOf (f.abs h) { filter := (none : Option HFld).map (·.abs h) } = validAsField (f.abs h) := rfl
    rw [hfo]
    obtain ⟨keep, hk, hget⟩ := filterKeep_valid (f.abs h) h2
    rw [hk]
    simp only []
    unfold maskedValuesH
    simp only [filterFieldH]
    have fr2 := fr1.trans (frame_validAsFieldH (h.alloc fun i => h.buf f.arr (i.take 2 ++ [0])).1 f)
    rw [filterValuesH_same _ f (validAsFieldH (h.alloc fun i => h.buf f.arr (i.take 2 ++ [0])).1 f).2 h.length rfl rfl h2]
    refine ⟨_, rfl, rfl, fun x y => ?_⟩
    have hVlt : h.length < (validAsFieldH (h.alloc fun i => h.buf f.arr (i.take 2 ++ [0])).1 f).1.length :=
      Nat.lt_of_lt_of_le hV (frame_validAsFieldH _ f).1
    rw [buf_two_writes _ _ _ _ hVlt, hget]
    have hval : f.validAt (validAsFieldH (h.alloc fun i => h.buf f.arr (i.take 2 ++ [0])).1 f).1 [x, y]
        = f.validAt h [x, y] := validAt_frame _ _ f fr2 hf _
    have hbuf : (validAsFieldH (h.alloc fun i => h.buf f.arr (i.take 2 ++ [0])).1 f).1.buf h.length [x, y]
        = some (((f.abs h).data.get [x, y]).getD 0 0) := by
      rw [(frame_validAsFieldH _ f).2 _ hV]; exact hcopy x y
    have hfa : (validAsFieldH (h.alloc fun i => h.buf f.arr (i.take 2 ++ [0])).1 f).1.buf
        (validAsFieldH (h.alloc fun i => h.buf f.arr (i.take 2 ++ [0])).1 f).2.arr [x, y, 0]
        = some (if f.validAt h [x, y] then 1 else 0) := by
      rw [validAsFieldH_arr]
      simp only [List.take_succ_cons, List.take_zero, validAt_frame _ _ f fr1 hf]
    show (if (!f.validAt _ [x, y]) = true then none else
      if decide (((validAsFieldH _ f).1.buf (validAsFieldH _ f).2.arr [x, y, 0]).getD 0 = 0) = true then none
      else (validAsFieldH _ f).1.buf h.length [x, y]) = _
    rw [hval, hfa, hbuf]
    show _ = if f.validAt h [x, y] = true then _ else _
    cases f.validAt h [x, y] <;> simp
  | some g =>
    have hgon := hg g rfl
    have hfo : filterOf (f.abs h) { filter := (some g).map (·.abs h) } = g.abs h := rfl
    rw [hfo]
    unfold maskedValuesH
    simp only [filterFieldH]
    unfold filterKeep
    by_cases c1 : g.nvdim ≠ 1
    · rw [if_pos (show (g.abs h).nvdim ≠ 1 from c1)]
      simp only []
      unfold filterValuesH
      rw [if_pos c1]
    · rw [if_neg (show ¬ (g.abs h).nvdim ≠ 1 from c1)]
      by_cases c2 : g.mesh.region.ndim ≠ 2
      · rw [if_pos (show (g.abs h).mesh.region.ndim ≠ 2 from c2)]
        simp only []
        unfold filterValuesH
        rw [if_neg c1, if_pos c2]
      · rw [if_neg (show ¬ (g.abs h).mesh.region.ndim ≠ 2 from c2)]
        have g1 : g.nvdim = 1 := not_not.mp c1
        have g2 : g.mesh.region.ndim = 2 := not_not.mp c2
        by_cases hn : g.mesh.n = f.mesh.n
        · rw [auxOnMesh_same (f.abs h) (g.abs h) hn]
          simp only []
          rw [filterValuesH_same _ f g h.length hn g1 g2]
          refine ⟨_, rfl, rfl, fun x y => ?_⟩
          rw [buf_two_writes _ _ _ _ hV]
          show (if (!f.validAt _ [x, y]) = true then none else
            if decide (((h.alloc _).1.buf g.arr [x, y, 0]).getD 0 = 0) = true then none
            else (h.alloc _).1.buf h.length [x, y]) = _
          rw [validAt_frame _ _ f fr1 hf, fr1.2 _ hgon.1, hcopy x y, ← abs_data_one h g g1]
          show _ = if (!decide ((((g.abs h).data.get [x, y]).getD 0 0) = 0) && f.validAt h [x, y]) = true then _ else _
          cases f.validAt h [x, y] <;> by_cases hz : ((g.abs h).data.get [x, y]).getD 0 0 = 0 <;> simp
        · rw [filterValuesH_other _ f g h.length hn g1 g2, abs_frame _ _ f fr1 hf, abs_frame _ _ g fr1 hgon]
          cases ha : auxOnMesh (f.abs h) (g.abs h) with
          | error e => rfl
          | ok a =>
            simp only []
            refine ⟨_, rfl, rfl, fun x y => ?_⟩
            have fr2 := fr1.trans (frame_alloc (h.alloc fun i => h.buf f.arr (i.take 2 ++ [0])).1
              (fun i => some ((a.get i.dropLast).getD 0 0)))
            rw [buf_two_writes _ _ _ _ (by rw [alloc_len]; omega)]
            show (if (!f.validAt _ [x, y]) = true then none else
              if decide ((((h.alloc _).1.alloc _).1.buf (h.alloc _).1.length [x, y, 0]).getD 0 = 0) = true then none
              else ((h.alloc _).1.alloc _).1.buf h.length [x, y]) = _
            rw [validAt_frame _ _ f fr2 hf, buf_alloc_new, buf_alloc_lt _ _ _ hV, hcopy x y]
            show _ = if (!decide ((a.get [x, y]).getD 0 0 = 0) && f.validAt h [x, y]) = true then _ else _
            cases f.validAt h [x, y] <;> by_cases hz : (a.get [x, y]).getD 0 0 = 0 <;> simp

theorem abs_mesh (h : AHeap) (f : HFld) : (f.abs h).mesh = f.mesh := rfl
theorem abs_nvdim (h : AHeap) (f : HFld) : (f.abs h).nvdim = f.nvdim := rfl
theorem oabs_mult (h : AHeap) (o : HOpts) : (o.abs h).mult = o.mult := rfl

theorem filterOf_abs (h : AHeap) (f : HFld) (o : HOpts) :
    filterOf (f.abs h) (o.abs h) = filterOf (f.abs h) { filter := o.filter.map (·.abs h) } := rfl

/-- **The scalar plot on the heap refines the value model** -/
theorem scalarH_refines (h : AHeap) (f : HFld) (o : HOpts) (hinv : f.mesh.Inv) (hf : f.On h)
    (hnum : ∀ i, (h.buf f.arr i).isSome) (hg : ∀ g, o.filter = some g → g.On h) (hnv : f.nvdim = 1) :
    (scalarH h f o).2 = mplScalar (f.abs h) (o.abs h) := by
  unfold scalarH mplScalar
  by_cases h2 : f.mesh.region.ndim ≠ 2
  · rw [if_pos h2, if_pos (show (f.abs h).mesh.region.ndim ≠ 2 from h2)]
  · rw [if_neg h2, if_neg (show ¬ (f.abs h).mesh.region.ndim ≠ 2 from h2),
      if_neg (by omega), if_neg (show ¬ (f.abs h).nvdim > 1 by show ¬ f.nvdim > 1; omega)]
    have h2' : f.mesh.region.ndim = 2 := not_not.mp h2
    have hn : f.mesh.n.length = 2 := by rw [hinv.2.1, h2']
    rw [oabs_mult]
    cases setupMultiplier (f.abs h) o.mult with
    | error e => rfl
    | ok m =>
      simp only [scalarCore, abs_mesh]
      cases extent f.mesh.region m with
      | error e => rfl
      | ok ext =>
        simp only []
        have spec := maskedValuesH_spec h f o.filter hf hnum hg hnv h2'
        rw [filterOf_abs]
        cases hk : filterKeep (f.abs h) (filterOf (f.abs h) { filter := o.filter.map (·.abs h) }) with
        | error e =>
          rw [hk] at spec
          simp only [] at spec
          rw [spec]
        | ok keep =>
          rw [hk] at spec
          obtain ⟨hv, hm, _, hb⟩ := spec
          rw [hm]
          simp only []
          cases axisLabels f.mesh.region m with
          | error e => rfl
          | ok lab =>
            simp only []
            congr 3
            exact imgOfBuf_eq f.mesh.n hn _ keep _ hb

/-- **The contour plot on the heap refines the value model** -/
theorem contourH_refines (h : AHeap) (f : HFld) (o : HOpts) (hinv : f.mesh.Inv) (hf : f.On h)
    (hnum : ∀ i, (h.buf f.arr i).isSome) (hg : ∀ g, o.filter = some g → g.On h) :
    (contourH h f o).2 = mplContour (f.abs h) (o.abs h) := by
  unfold contourH mplContour
  by_cases h2 : f.mesh.region.ndim ≠ 2
  · rw [if_pos h2, if_pos (show (f.abs h).mesh.region.ndim ≠ 2 from h2)]
  · rw [if_neg h2, if_neg (show ¬ (f.abs h).mesh.region.ndim ≠ 2 from h2)]
    by_cases hnv : f.nvdim ≠ 1
    · rw [if_pos hnv, if_pos (show (f.abs h).nvdim ≠ 1 from hnv)]
    · rw [if_neg hnv, if_neg (show ¬ (f.abs h).nvdim ≠ 1 from hnv)]
      have h2' : f.mesh.region.ndim = 2 := not_not.mp h2
      have hn : f.mesh.n.length = 2 := by rw [hinv.2.1, h2']
      rw [oabs_mult]
      cases setupMultiplier (f.abs h) o.mult with
      | error e => rfl
      | ok m =>
        simp only [abs_mesh]
        have spec := maskedValuesH_spec h f o.filter hf hnum hg (not_not.mp hnv) h2'
        rw [filterOf_abs]
        cases hk : filterKeep (f.abs h) (filterOf (f.abs h) { filter := o.filter.map (·.abs h) }) with
        | error e =>
          rw [hk] at spec
          simp only [] at spec
          rw [spec]
        | ok keep =>
          rw [hk] at spec
          obtain ⟨hv, hm, _, hb⟩ := spec
          rw [hm]
          simp only []
          cases axisLabels f.mesh.region m with
          | error e => rfl
          | ok lab =>
            simp only []
            congr 3
            exact imgOfBuf_eq f.mesh.n hn _ keep _ hb

/-! ## vector -/

theorem indexOf_go_lt (xs : List String) (x : String) (s k : Nat) (h : indexOf?.go x xs s = some k) :
    k < s + xs.length := by
  induction xs generalizing s with
  | nil => simp [indexOf?.go] at h
  | cons y ys ih =>
    unfold indexOf?.go at h
    split at h
    · injection h with h; subst h; simp
    · have := ih (s + 1) h
      simp only [List.length_cons]; omega

theorem arrowIdx_lt (f : Fld) (l : Option String) (c : Nat) (h : arrowIdx f l = .ok (some c)) :
    ∃ vs, f.vdims = some vs ∧ c < vs.length := by
  unfold arrowIdx at h
  split at h
  · cases h
  · split at h
    · cases h
    · split at h
      · cases h
      · rename_i vs hvs
        split at h
        · cases h
        · rename_i k hk
          injection h with h
          injection h with h
          subst h
          exact ⟨vs, hvs, by have := indexOf_go_lt vs _ 0 k hk; omega⟩

theorem oabs_frame (h h' : AHeap) (o : HOpts) (fr : Frame h h') (hflt : ∀ g, o.filter = some g → g.On h)
    (haux : ∀ g, o.aux = some g → g.On h) : o.abs h' = o.abs h := by
  unfold HOpts.abs
  have e1 : o.filter.map (·.abs h') = o.filter.map (·.abs h) := by
    cases hf : o.filter with
    | none => rfl
    | some g => simp only [Option.map_some]; rw [abs_frame h h' g fr (hflt g hf)]
  have e2 : o.aux.map (·.abs h') = o.aux.map (·.abs h) := by
    cases hf : o.aux with
    | none => rfl
    | some g => simp only [Option.map_some]; rw [abs_frame h h' g fr (haux g hf)]
  rw [e1, e2]

/-- **The vector plot on the heap refines the value model** -/
theorem vectorH_refines (h : AHeap) (f : HFld) (o : HOpts) (hinv : f.mesh.Inv) (hf : f.On h)
    (hnum : ∀ i, (h.buf f.arr i).isSome) (hflt : ∀ g, o.filter = some g → g.On h)
    (haux : ∀ g, o.aux = some g → g.On h) (hlab : ∀ vs, f.vdims = some vs → vs.length ≤ f.nvdim) :
    (vectorH h f o).2 = mplVector (f.abs h) (o.abs h) := by
  unfold vectorH mplVector
  by_cases h2 : f.mesh.region.ndim ≠ 2
  · rw [if_pos h2, if_pos (show (f.abs h).mesh.region.ndim ≠ 2 from h2)]
  · rw [if_neg h2, if_neg (show ¬ (f.abs h).mesh.region.ndim ≠ 2 from h2)]
    have h2' : f.mesh.region.ndim = 2 := not_not.mp h2
    have hn : f.mesh.n.length = 2 := by rw [hinv.2.1, h2']
    rw [show (o.abs h).vdimsArg = o.vdimsArg from rfl, show (f.abs h).vmap = f.vmap from rfl]
    by_cases hv : (o.vdimsArg.isNone && f.vmap.isEmpty) = true
    · rw [if_pos hv, if_pos hv]
    · rw [if_neg hv, if_neg hv, oabs_mult]
      cases setupMultiplier (f.abs h) o.mult with
      | error e => rfl
      | ok m =>
        simp only [vectorCore, abs_mesh]
        have fr1 : Frame h (h.alloc (h.buf f.arr)).1 := frame_alloc h _
        have hV : h.length < (h.alloc (h.buf f.arr)).1.length := by rw [alloc_len]; omega
        rw [filterValuesH_same _ f (validAsFieldH (h.alloc (h.buf f.arr)).1 f).2 h.length rfl rfl h2']
        simp only []
        obtain ⟨keep, hk, hget⟩ := filterKeep_valid (f.abs h) h2'
        rw [hk]
        simp only []
        have fr2 : Frame h (validAsFieldH (h.alloc (h.buf f.arr)).1 f).1 :=
          fr1.trans (frame_validAsFieldH _ f)
        have hVlt : h.length < (validAsFieldH (h.alloc (h.buf f.arr)).1 f).1.length :=
          Nat.lt_of_lt_of_le hV (frame_validAsFieldH _ f).1
        have fr3 : Frame h (((validAsFieldH (h.alloc (h.buf f.arr)).1 f).1.nanWhere h.length
            fun i => decide (((validAsFieldH (h.alloc (h.buf f.arr)).1 f).1.buf
              (validAsFieldH (h.alloc (h.buf f.arr)).1 f).2.arr (i.take 2 ++ [0])).getD 0 = 0)).nanWhere h.length
            fun i => !f.validAt (validAsFieldH (h.alloc (h.buf f.arr)).1 f).1 (i.take 2)) :=
          frame_nanWhere_fresh h _ _ _ (frame_nanWhere_fresh h _ _ _ fr2 (Nat.le_refl _)) (Nat.le_refl _)
        rw [abs_frame _ _ f fr3 hf, oabs_frame _ _ o fr3 hflt haux]
        have hb3 := fun i => buf_two_writes (validAsFieldH (h.alloc (h.buf f.arr)).1 f).1 h.length
          (fun i => decide (((validAsFieldH (h.alloc (h.buf f.arr)).1 f).1.buf
              (validAsFieldH (h.alloc (h.buf f.arr)).1 f).2.arr (i.take 2 ++ [0])).getD 0 = 0))
          (fun i => !f.validAt (validAsFieldH (h.alloc (h.buf f.arr)).1 f).1 (i.take 2)) hVlt i
        generalize ((validAsFieldH (h.alloc (h.buf f.arr)).1 f).1.nanWhere h.length
            fun i => decide (((validAsFieldH (h.alloc (h.buf f.arr)).1 f).1.buf
              (validAsFieldH (h.alloc (h.buf f.arr)).1 f).2.arr (i.take 2 ++ [0])).getD 0 = 0)).nanWhere h.length
            (fun i => !f.validAt (validAsFieldH (h.alloc (h.buf f.arr)).1 f).1 (i.take 2)) = H3 at hb3 fr3 ⊢
        cases hvd : vectorVdims (f.abs h) (o.abs h) with
        | error e => rfl
        | ok vd =>
          simp only []
          cases hax : arrowIdx (f.abs h) (vd.getD 0 none) with
          | error e => rfl
          | ok ax =>
            simp only []
            cases hay : arrowIdx (f.abs h) (vd.getD 1 none) with
            | error e => rfl
            | ok ay =>
              simp only []
              by_cases hnn : (ax.isNone && ay.isNone) = true
              · rw [if_pos hnn, if_pos hnn]
              · rw [if_neg hnn, if_neg hnn]
                cases colourOf (f.abs h) (o.abs h) vd with
                | error e => rfl
                | ok c =>
                  simp only []
                  cases axisLabels f.mesh.region m with
                  | error e => rfl
                  | ok lab =>
                    simp only []
                    have arrow : ∀ (a : Option Nat) (l : Option String), arrowIdx (f.abs h) l = .ok a →
                        arrowOfBuf f.mesh.n (H3.buf h.length) a = arrowArr (f.abs h) keep a := by
                      intro a l hl
                      cases a with
                      | none =>
                        exact imgOfBuf_eq f.mesh.n hn _ ⟨f.mesh.n, fun _ => true⟩ (fun _ => 0) (fun _ _ => rfl)
                      | some k =>
                        obtain ⟨vs, hvs, hkl⟩ := arrowIdx_lt (f.abs h) l k hl
                        have hkn : k < f.nvdim := Nat.lt_of_lt_of_le hkl (hlab vs hvs)
                        refine imgOfBuf_eq f.mesh.n hn _ keep _ (fun x y => ?_)
                        show H3.buf h.length ([x, y].take 2 ++ [k]) = _
                        rw [hb3, hget]
                        show (if (!f.validAt _ [x, y]) = true then none else
                          if decide (((validAsFieldH _ f).1.buf (validAsFieldH _ f).2.arr [x, y, 0]).getD 0 = 0) = true
                          then none else (validAsFieldH _ f).1.buf h.length [x, y, k]) = _
                        rw [validAt_frame _ _ f fr2 hf, validAsFieldH_arr, (frame_validAsFieldH _ f).2 _ hV,
                          buf_alloc_new]
                        simp only [List.take_succ_cons, List.take_zero, validAt_frame _ _ f fr1 hf]
                        have hval : ((f.abs h).data.get [x, y]).getD k 0 = (h.buf f.arr [x, y, k]).getD 0 := by
                          show (tab f.nvdim fun c => (h.buf f.arr ([x, y] ++ [c])).getD 0).getD k 0 = _
                          rw [getD_tab _ _ _ _ hkn]
                          rfl
                        rw [hval]
                        have := hnum [x, y, k]
                        show _ = if f.validAt h [x, y] = true then _ else _
                        cases hb : h.buf f.arr [x, y, k] with
                        | none => rw [hb] at this; cases this
                        | some v => cases f.validAt h [x, y] <;> simp
                    rw [arrow ax _ hax, arrow ay _ hay]

/-! ## closed example used by `Props/C20.lean` for non-vacuity -/

/-- the arrays of the example scalar field `exS` as two buffers: `array` at address 0, `valid` at 1 -/
def exHeap : AHeap :=
  [fun i => some ((exS.data.get (i.take 2)).getD (i.getD 2 0) 0),
   fun i => some (if exS.valid.get (i.take 2) then 1 else 0)]

/-- `exS` with its arrays on `exHeap` -/
def exHS : HFld :=
  { mesh := exMesh, nvdim := 1, arr := 0, val := 1, vdims := none, vmap := [], unit := none }

/-- the vector example `exV` with its arrays at addresses 0, 1 of a heap -/
def exHeapV : AHeap :=
  [fun i => some ((exV.data.get (i.take 2)).getD (i.getD 2 0) 0),
   fun i => some (if exV.valid.get (i.take 2) then 1 else 0)]

def exHV : HFld :=
  { mesh := exMesh, nvdim := 3, arr := 0, val := 1, vdims := exV.vdims, vmap := exV.vmap, unit := none }

end DFV.C20
