import DFV.Lemmas.C17Accept
/-! The exported coordinates as input of the importer's inference (evenly spaced, mean step =
cell size, outermost coordinate ∓ half a cell = the corners), and
`to_xarray ∘ from_xarray ∘ to_xarray = to_xarray` up to the `units` attribute. -/
namespace DFV.C17
open DFV

theorem inRange_snoc' (n i : List Nat) (k c : Nat) : inRange (n ++ [k]) (i ++ [c]) = (inRange n i && decide (c < k)) := by
  induction n generalizing i with
  | nil =>
    cases i with
    | nil => simp [inRange]
    | cons j js => cases js <;> simp [inRange]
  | cons x xs ih =>
    cases i with
    | nil => cases xs <;> simp [inRange]
    | cons j js =>
      simp only [List.cons_append, inRange, ih, Bool.and_assoc]

section
variable [FieldAttrs] {α : Type}

/-- the exported coordinate of axis `a` as an arithmetic progression -/
theorem exported_values_ap (f : XFld α) (hf : f.WF) (nm : String) (u : PyArg) (a : Nat) (ha : a < f.mesh.ndim) :
    ((exported f nm u).axes.getD a default).values
      = ap (f.mesh.region.lo a + f.mesh.cellAt a / 2) (f.mesh.cellAt a) (f.mesh.nAt a) := by
  rw [exported_values f hf nm u a ha, ap_eq_centres]

/-- **What the importer's inference finds in an export**: the spacing loop passes; on every axis
the first coordinate minus half a cell is `pmin`, the last plus half a cell is `pmax`, and — from
two cells on — the mean step is the cell size. -/
theorem exported_inference (f : XFld α) (hf : f.WF) (nm : String) (u : PyArg) :
    checkSpacing (exported f nm u) = .ok () ∧
    ∀ a, a < f.mesh.ndim →
      ((exported f nm u).axes.getD a default).values.getD 0 0 - f.mesh.cellAt a / 2 = f.mesh.region.lo a ∧
      ((exported f nm u).axes.getD a default).values.getD
          (((exported f nm u).axes.getD a default).values.length - 1) 0 + f.mesh.cellAt a / 2 = f.mesh.region.hi a ∧
      (2 ≤ f.mesh.nAt a → meanDiff ((exported f nm u).axes.getD a default).values = f.mesh.cellAt a) := by
  refine ⟨checkSpacing_like hf (likeExport_exported hf nm u), fun a ha => ?_⟩
  have hn := hf.mesh.2.2 a ha
  rw [exported_values_ap f hf nm u a ha]
  refine ⟨?_, ?_, fun h2 => meanDiff_ap _ _ _ h2⟩
  · rw [ap_first _ _ _ hn]; ring
  · rw [ap_last _ _ _ hn]
    have hne : (f.mesh.nAt a : Rat) ≠ 0 := by exact_mod_cast (Nat.pos_iff_ne_zero.mp hn)
    have : (f.mesh.nAt a : Rat) * f.mesh.cellAt a = f.mesh.region.hi a - f.mesh.region.lo a := by
      unfold Mesh.cellAt Region.edge
      field_simp
    linarith

omit [FieldAttrs] in
theorem exportData_agree {f g : XFld α} (hk : g.nvdim = f.nvdim) (hd : Agree g.data f.data)
    (hs : f.data.shape = f.mesh.n ++ [f.nvdim]) (hpos : 1 ≤ f.nvdim) :
    Agree (exportData g) (exportData f) := by
  unfold exportData
  rw [hk]
  by_cases h1 : 1 < f.nvdim
  · simp only [h1, if_true]; exact hd
  · simp only [h1, if_false]
    refine ⟨by show g.data.shape.dropLast = f.data.shape.dropLast; rw [hd.1], fun i hi => ?_⟩
    show g.data.get (i ++ [0]) = f.data.get (i ++ [0])
    apply hd.2
    have hi' : inRange g.data.shape.dropLast i = true := hi
    rw [hd.1, hs, List.dropLast_concat] at hi'
    rw [hd.1, hs, inRange_snoc', hi']
    have : 0 < f.nvdim := hpos
    simp [this]

omit [FieldAttrs] in
/-- the exporter reads the mesh through its region and cell counts only -/
theorem exportAxes_congr {f g : XFld α} (hr : g.mesh.region = f.mesh.region) (hn : g.mesh.n = f.mesh.n)
    (hk : g.nvdim = f.nvdim) : exportAxes g = exportAxes f := by
  unfold exportAxes
  rw [hk, hr]
  congr 1
  apply tab_congr
  intro a _
  unfold exportAxis Mesh.nAt Mesh.cells Mesh.ndim Mesh.cellAt Mesh.nAt
  rw [hr, hn]

/-- **Export ∘ import ∘ export = export, up to the `units` attribute**: import the export of a
well-formed field and export the result (any name / unit arguments): the second DataArray has the
same axes (names, sizes, every coordinate value, coordinate units), the same geometric
attributes, component count and tolerance factor, the same data and dtype tag; its label
coordinate is `vdimsAfter f` (the original's exactly for `LabelsStd` fields); only the attribute
`units` is the new `unit` argument or absent — `from_xarray` does not restore the field's unit. -/
theorem export_import_export (f : XFld α) (hf : f.WF) (nm : String) (u : PyArg) (nm' : String) (u' : PyArg) :
    ∃ g, fromXarray (.dataArray (exported f nm u)) = .ok g ∧
      (exported g nm' u').axes = (exported f nm u).axes ∧
      (exported g nm' u').attrs = { (exported f nm u).attrs with units := exportUnit u' none } ∧
      (exported g nm' u').vdimsCoord = vdimsAfter f ∧
      (LabelsStd f → (exported g nm' u').vdimsCoord = (exported f nm u).vdimsCoord) ∧
      Agree (exported g nm' u').data (exported f nm u).data ∧
      (exported g nm' u').dtype = (exported f nm u).dtype ∧ (exported g nm' u').name = nm' := by
  obtain ⟨g, hg, hm, hk, hd, hv, ht, hu, -, -⟩ :=
    fromXA_likeExport hf (likeExport_exported hf nm u) (fun h => by cases h)
  rw [meshAfter_export hf] at hm
  have hr : g.mesh.region = f.mesh.region := by rw [hm]
  have hn : g.mesh.n = f.mesh.n := by rw [hm]
  have hvc : (exported g nm' u').vdimsCoord = vdimsAfter f := by
    show (if 1 < g.nvdim then g.vdims else none) = _
    rw [hk, hv]
    unfold vdimsAfter
    split <;> rfl
  refine ⟨g, hg, exportAxes_congr hr hn hk, ?_, hvc, ?_, exportData_agree hk hd hf.shape hf.nvdim, ht, rfl⟩
  · show exportAttrs g u' = _
    unfold exportAttrs exported exportAttrs
    simp only
    rw [hu, hk, hr]
    have : g.mesh.cell = f.mesh.cell := by
      unfold Mesh.cell Mesh.ndim Mesh.cellAt Mesh.nAt
      rw [hr, hn]
    rw [this]
  · intro hl
    rw [hvc, (vdimsAfter_eq_iff hf).mpr hl]
    show f.vdims = if 1 < f.nvdim then f.vdims else none
    split
    · rfl
    · next h1 => exact hl.2 (by have := hf.nvdim; omega)


omit [FieldAttrs] in
/-- the refusal classes of the component-count checks, one equivalence per exception type -/
theorem checkNvdim_err_iff (nv : Option NvAttr) (dims : List String) :
    (checkNvdim nv dims = .error .key ↔ nv = none) ∧
    (checkNvdim nv dims = .error .type ↔ ∃ q, nv = some (.other q) ∧ 1 ≤ q) ∧
    (checkNvdim nv dims = .error .value ↔
      (∃ q, nv = some (.other q) ∧ q < 1) ∨
      (∃ k : Int, nv = some (.int k) ∧ (k < 1 ∨ (1 < k ∧ ¬ "vdims" ∈ dims)))) := by
  unfold checkNvdim
  cases nv with
  | none => simp
  | some v =>
    cases v with
    | other q =>
      by_cases hq : q < 1
      · simp [hq]
      · simp [hq, not_lt.mp hq]
    | int k =>
      dsimp only
      by_cases hk : k < 1
      · rw [if_pos hk]
        refine ⟨by simp, by simp, ?_⟩
        simp only [true_iff]
        exact Or.inr ⟨k, rfl, Or.inl hk⟩
      · rw [if_neg hk]
        by_cases h2 : 1 < k ∧ ¬ dims.contains "vdims" = true
        · have h3 : ¬ "vdims" ∈ dims := by
            intro hm; exact h2.2 (List.contains_iff_mem.mpr hm)
          rw [if_pos h2]
          refine ⟨by simp, by simp, ?_⟩
          simp only [true_iff]
          exact Or.inr ⟨k, rfl, Or.inr ⟨h2.1, h3⟩⟩
        · rw [if_neg h2]
          refine ⟨by simp, by simp, ?_⟩
          simp only [reduceCtorEq, false_iff, not_or, not_exists, not_and]
          refine ⟨fun q h => (by cases h), fun k' h => ?_⟩
          injection h with h; injection h with h
          subst h
          exact ⟨hk, fun h1 hm => h2 ⟨h1, fun hc => hm (List.contains_iff_mem.mp hc)⟩⟩

omit [FieldAttrs] in
theorem scaleR_inplace_args (r : Region) (f : T.Factor) (ref : Option (List Rat)) (r0 r' : Region)
    (h : T.scaleR r f ref true = .ok (r0, r')) : f.okFor r.ndim = true ∧ (refOf r ref).length = r.ndim := by
  unfold T.scaleR at h
  split at h
  · cases h
  · next h1 =>
    split at h
    · cases h
    · next h2 =>
      exact ⟨by simpa using h1, by unfold refOf; simpa using h2⟩

omit [FieldAttrs] in
/-- **Exactly which in-place calls a mesh without subregions accepts**: a translation iff the
vector has one entry per axis; a scaling iff the factor is a number or one per axis, the reference
point has one entry per axis and no factor is zero. -/
theorem inplace_accepted_iff' (m : Mesh) (hm : m.Inv) (hsub : m.subs = []) :
    (∀ v : List Rat, (∃ m' ret, T.stepM m (.translate v true) = .ok (m', ret)) ↔ v.length = m.ndim) ∧
    (∀ (s : T.Factor) (ref : Option (List Rat)), (∃ m' ret, T.stepM m (.scale s ref true) = .ok (m', ret)) ↔
      (s.okFor m.ndim = true ∧ (refOf m.region ref).length = m.ndim ∧ ∀ a, a < m.ndim → s.at a ≠ 0)) := by
  refine ⟨fun v => ⟨?_, ?_⟩, fun s ref => ⟨?_, ?_⟩⟩
  · rintro ⟨m', ret, h⟩
    exact (stepM_translate_inv m v m' ret h).1
  · intro hv
    obtain ⟨m', h⟩ := translate_accepted m hm hsub v hv
    exact ⟨m', m', h⟩
  · rintro ⟨m', ret, h⟩
    have hne := (stepM_scale_inv m s ref m' ret h).1
    have hargs : s.okFor m.region.ndim = true ∧ (refOf m.region ref).length = m.region.ndim := by
      simp only [T.stepM] at h
      split at h
      · cases h
      · cases h
      · next r0 r' subs' hr hs => exact scaleR_inplace_args _ _ _ _ _ hr
    refine ⟨hargs.1, hargs.2, fun a ha h0 => ?_⟩
    apply hne a ha
    unfold T.scaleHi
    rw [h0]; ring
  · rintro ⟨h1, h2, h3⟩
    obtain ⟨m', h⟩ := scale_accepted m hm hsub s ref h1 h2 h3
    exact ⟨m', m', h⟩


omit [FieldAttrs] in
theorem filter_length_lt {β} (l : List β) (p : β → Bool) (x : β) (hx : x ∈ l) (hp : p x = false) :
    (l.filter p).length < l.length := by
  induction l with
  | nil => cases hx
  | cons y ys ih =>
    rw [List.filter_cons]
    rcases List.mem_cons.mp hx with rfl | h
    · rw [hp]
      simp only [Bool.false_eq_true, if_false, List.length_cons]
      exact Nat.lt_succ_of_le (List.length_filter_le _ _)
    · have := ih h
      split
      · simp only [List.length_cons]; omega
      · simp only [List.length_cons]; omega

omit [FieldAttrs] in
/-- **A spatial dimension called `vdims` cannot make the round trip** (the clause `novd` of `WF`
is necessary): the importer takes every dimension of that name for the component axis, is left
with fewer geometric dimensions than the `pmin` attribute has entries, and `Region` refuses. -/
theorem vdims_dim_not_importable (f : XFld α) (hm : f.mesh.Inv) (h : "vdims" ∈ f.mesh.region.dims)
    (nm : String) (u : PyArg) (m : Mesh) : geometryOf (exported f nm u) ≠ .ok m := by
  intro hg
  obtain ⟨-, -, -, -, ⟨-, -, hlen, -, -⟩, -⟩ := (geometryOf_ok_iff_inputs _ m).mp hg
  have hp : p1Used (exported f nm u) = f.mesh.region.pmin := rfl
  rw [hp] at hlen
  have hd : f.mesh.region.dims.length = f.mesh.region.pmin.length := hm.1.2.2.1
  obtain ⟨a, ha, hna⟩ := List.getElem_of_mem h
  have hmem : exportAxis f.mesh a ∈ tab f.mesh.region.dims.length (exportAxis f.mesh) := by
    unfold tab
    exact List.mem_map.mpr ⟨a, List.mem_range.mpr ha, rfl⟩
  have hname : (exportAxis f.mesh a).name = "vdims" := by
    show f.mesh.region.dims.getD a "" = "vdims"
    rw [List.getD_eq_getElem?_getD, List.getElem?_eq_getElem ha]
    exact hna
  have hlt : (geo (exported f nm u)).length < f.mesh.region.dims.length := by
    unfold geo exported exportAxes
    simp only []
    rw [List.filter_append]
    have h1 : ((tab f.mesh.region.dims.length (exportAxis f.mesh)).filter fun a => decide (a.name ≠ "vdims")).length
        < (tab f.mesh.region.dims.length (exportAxis f.mesh)).length :=
      filter_length_lt _ _ _ hmem (by simp [hname])
    rw [tab_length] at h1
    have h2 : ((if 1 < f.nvdim then [({ name := "vdims", size := f.nvdim, coord := none } : Axis)] else []).filter
        fun a => decide (a.name ≠ "vdims")).length = 0 := by
      split <;> simp
    rw [List.length_append, h2]
    omega
  omega

end
end DFV.C17
