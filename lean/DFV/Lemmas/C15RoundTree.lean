import DFV.Lemmas.C15RoundCplx
/-!
Rounded arithmetic for C15, part 7: the sum of squares in ANY summation order (a binary
bracketing `SqTree`; NumPy adds up to seven squares left to right and switches to pairwise
summation from eight on), and the setter's / orientation's component maps for an arbitrary
computed norm `n` that is known to be accurate.
-/
namespace DFV.C15
set_option linter.unusedSectionVars false
variable {K : Type} [Field K] [LinearOrder K] [IsStrictOrderedRing K]

/-- a bracketing of a sum of squares -/
inductive SqTree (K : Type) where
  | leaf (x : K)
  | node (l r : SqTree K)

namespace SqTree
def leaves : SqTree K → List K
  | leaf x => [x]
  | node l r => l.leaves ++ r.leaves
def depth : SqTree K → Nat
  | leaf _ => 0
  | node l r => max l.depth r.depth + 1
/-- the sum as computed: every square rounded, every addition rounded, in the order of the tree -/
def flSum (fl : K → K) : SqTree K → K
  | leaf x => fl (x * x)
  | node l r => fl (l.flSum fl + r.flSum fl)
end SqTree

theorem sqLen_append (a b : List K) : sqLen (a ++ b) = sqLen a + sqLen b := by
  induction a with
  | nil => simp [sqLen]
  | cons x xs ih => simp only [List.cons_append, sqLen, ih]; ring

theorem SqTree.leaves_pos (t : SqTree K) : 1 ≤ t.leaves.length := by
  induction t with
  | leaf x => simp [SqTree.leaves]
  | node l r ihl ihr => simp only [SqTree.leaves, List.length_append]; omega

theorem SqTree.depth_lt (t : SqTree K) : t.depth + 1 ≤ t.leaves.length := by
  induction t with
  | leaf x => simp [SqTree.leaves, SqTree.depth]
  | node l r ihl ihr =>
    simp only [SqTree.leaves, SqTree.depth, List.length_append]
    have := l.leaves_pos; have := r.leaves_pos
    omega

/-- **sum of squares in any order**: relative error at most `(1+u)^(depth+1) − 1` -/
theorem SqTree.flSum_err {fl : K → K} {u : K} (h : FlOk fl u) (t : SqTree K) :
    |t.flSum fl - sqLen t.leaves| ≤ gam u (t.depth + 1) * sqLen t.leaves := by
  induction t with
  | leaf x =>
    simp only [SqTree.flSum, SqTree.leaves, SqTree.depth, sqLen]
    have := h.2 (x * x)
    rw [abs_of_nonneg (mul_self_nonneg x)] at this
    have e : gam u (0 + 1) = u := by simp [gam]
    rw [e, add_zero]; exact this
  | node l r ihl ihr =>
    simp only [SqTree.flSum, SqTree.leaves, SqTree.depth, sqLen_append]
    set d := max l.depth r.depth with hd
    have hu0 := h.1
    have hL := sqLen_nonneg l.leaves
    have hR := sqLen_nonneg r.leaves
    have hgl : gam u (l.depth + 1) ≤ gam u (d + 1) := gam_mono hu0 (by omega)
    have hgr : gam u (r.depth + 1) ≤ gam u (d + 1) := gam_mono hu0 (by omega)
    have hg := gam_nonneg hu0 (d + 1)
    have hpre : |l.flSum fl + r.flSum fl - (sqLen l.leaves + sqLen r.leaves)| ≤
        gam u (d + 1) * |sqLen l.leaves + sqLen r.leaves| := by
      rw [abs_of_nonneg (show 0 ≤ sqLen l.leaves + sqLen r.leaves by linarith)]
      have e : l.flSum fl + r.flSum fl - (sqLen l.leaves + sqLen r.leaves) =
          (l.flSum fl - sqLen l.leaves) + (r.flSum fl - sqLen r.leaves) := by ring
      rw [e]
      have t := abs_add_le (l.flSum fl - sqLen l.leaves) (r.flSum fl - sqLen r.leaves)
      have := mul_le_mul_of_nonneg_right hgl hL
      have := mul_le_mul_of_nonneg_right hgr hR
      nlinarith
    have hpost := h.compose hg hpre
    rw [abs_of_nonneg (show 0 ≤ sqLen l.leaves + sqLen r.leaves by linarith), ← gam_succ] at hpost
    exact hpost

/-- … hence within `(n+1)u + u/1024` for `n` squares under the count hypothesis, whatever the order -/
theorem SqTree.flSum_err_small {fl : K → K} {u : K} (h : FlOk fl u) (t : SqTree K)
    (s : Small u (((t.leaves.length : K) + 1) * u)) :
    |t.flSum fl - sqLen t.leaves| ≤ (((t.leaves.length : K) + 1) * u + u / 1024) * sqLen t.leaves := by
  have h1 := t.flSum_err h
  have s' : Small u (((t.leaves.length + 1 : Nat) : K) * u) := by push_cast; exact s
  have h2 := gam_small (t.leaves.length + 1) s'
  push_cast at h2
  have h3 : gam u (t.depth + 1) ≤ gam u (t.leaves.length + 1) := gam_mono h.1 (by have := t.depth_lt; omega)
  exact le_trans h1 (mul_le_mul_of_nonneg_right (le_trans h3 h2) (sqLen_nonneg _))

/-- the setter's component map `x ↦ fl(fl(x/n)·t)` for ANY positive `n` whose square is within
`m + 65/16·u` of the exact squared length: squared length within `m + 9u` of `t²`, cross terms,
dot product -/
theorem setMap_exec {fl : K → K} {u m : K} (h : FlOk fl u) (s : Small u m) (v : List K) (t : K) {n : K}
    (hnpos : 0 < n) (hSpos : 0 < sqLen v) (hnsq : |n * n - sqLen v| ≤ (m + 65 / 16 * u) * sqLen v) :
    |sqLen (v.map fun x => fl (fl (x / n) * t)) - t * t| ≤ (m + 9 * u) * (t * t) ∧
    (∀ a b : Nat, a < v.length →
      |(v.map fun x => fl (fl (x / n) * t)).getD a 0 * v.getD b 0 -
          (v.map fun x => fl (fl (x / n) * t)).getD b 0 * v.getD a 0| * (1 - 17 / 8 * u) ≤
        17 / 4 * u * |(v.map fun x => fl (fl (x / n) * t)).getD a 0 * v.getD b 0|) ∧
    (0 < t → 0 < dot (v.map fun x => fl (fl (x / n) * t)) v) := by
  have hu0 := h.1
  have hu64 := s.u64
  have herr : ∀ x, |fl (fl (x / n) * t) - t / n * x| ≤ 17 / 8 * u * |t / n * x| := fun x =>
    (quot_mul_exec h hu64 n x t).2
  refine ⟨?_, fun a b ha => ?_, fun ht => ?_⟩
  · have hq1 := ratio_small s hSpos hnpos hnsq
    have hκ0 : 0 ≤ |sqLen v / (n * n) - 1| := abs_nonneg _
    have key := sqLen_set_chain (fun x => fl (fl (x / n) * t)) v (ρ := 17 / 8 * u)
      (κ' := |sqLen v / (n * n) - 1|) (by linarith) hκ0 hSpos hnpos le_rfl herr
    have hc := set_chain_small s (ρ := 17 / 8 * u) (c := 17 / 8) (κ' := |sqLen v / (n * n) - 1|)
      (by linarith) (by norm_num) (by norm_num) le_rfl hκ0 hq1
    refine le_trans key (mul_le_mul_of_nonneg_right (le_trans hc ?_) (mul_self_nonneg t))
    linarith
  · have c1 := cross_err (fun x => fl (fl (x / n) * t)) (t / n) (17 / 8 * u) v (fun x _ => herr x) a b
    have c2 := cross_low (fun x => fl (fl (x / n) * t)) (t / n) (17 / 8 * u) v (fun x _ => herr x) a b ha
    have h1 : (0 : K) ≤ 1 - 17 / 8 * u := by linarith
    have := mul_le_mul_of_nonneg_right c1 h1
    nlinarith
  · have hlam : 0 < t / n := div_pos ht hnpos
    have := dot_map_low (fun x => fl (fl (x / n) * t)) (t / n) (17 / 8 * u) hlam.le v fun x _ => herr x
    have : 0 < (1 - 17 / 8 * u) * (t / n * sqLen v) := mul_pos (by linarith) (mul_pos hlam hSpos)
    linarith

/-- the orientation's component map `x ↦ fl(x/n)` for any such `n`: squared length within
`m + 7u` of 1 -/
theorem orientMap_exec {fl : K → K} {u m : K} (h : FlOk fl u) (s : Small u m) (v : List K) {n : K}
    (hnpos : 0 < n) (hSpos : 0 < sqLen v) (hnsq : |n * n - sqLen v| ≤ (m + 65 / 16 * u) * sqLen v) :
    |sqLen (v.map fun x => fl (x / n)) - 1| ≤ m + 7 * u := by
  have hu0 := h.1
  have hq1 := ratio_small s hSpos hnpos hnsq
  have hκ0 : 0 ≤ |sqLen v / (n * n) - 1| := abs_nonneg _
  have key := sqLen_set_chain (fun x => fl (x / n)) v (t := 1) (ρ := u)
    (κ' := |sqLen v / (n * n) - 1|) hu0 hκ0 hSpos hnpos le_rfl (fun x => by
      have e1 : 1 / n * x = x / n := by ring
      rw [e1]; exact h.2 _)
  have hc := set_chain_small s (ρ := u) (c := 1) (κ' := |sqLen v / (n * n) - 1|)
    hu0 (by norm_num) (by norm_num) (by linarith) hκ0 hq1
  rw [mul_one, mul_one] at key
  refine le_trans key (le_trans hc ?_)
  linarith

end DFV.C15
