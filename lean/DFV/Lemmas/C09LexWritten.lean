import DFV.Lemmas.C09LexFile
import DFV.Lemmas.C09ExamplesSub
/-! The header `_to_ovf` writes satisfies what the byte-level reader needs (`FileOk`): keys and
literal values are plain text, numbers are formatted by the trusted `repr`, the user's strings
(mesh unit, labels, field unit) are assumed to fit a header line (`TextOk`). -/
namespace DFV.C09
open DFV

/-! ## Bool checkers for literal text -/

def textOkB (w : List Char) : Bool :=
  (match w.head? with | some c => !c.isWhitespace | none => true) &&
  (match w.getLast? with | some c => !c.isWhitespace | none => true) &&
  !w.contains ':' && !w.contains '\n'

theorem textOk_of_B (w : List Char) (h : textOkB w = true) : TextOk w := by
  unfold textOkB at h
  simp only [Bool.and_eq_true, Bool.not_eq_true', List.contains_eq_mem, decide_eq_false_iff_not] at h
  obtain ⟨⟨⟨h1, h2⟩, h3⟩, h4⟩ := h
  refine ⟨⟨?_, ?_⟩, h3, h4⟩
  · intro c hc; rw [hc] at h1; simpa using h1
  · intro c hc; rw [hc] at h2; simpa using h2

/-- a key that cannot make its line look like the data line -/
def keyOkB (k : String) : Bool :=
  textOkB k.toList && !(k.toList.map Char.toLower).contains ':'
    && !((k.toList.map Char.toLower) == ['b', 'e', 'g', 'i', 'n'])

theorem prefix_colon (p₁ p₂ k r : List Char) (hp : ':' ∉ p₁) (hk : ':' ∉ k)
    (h : (p₁ ++ ':' :: p₂).isPrefixOf (k ++ ':' :: r) = true) : k = p₁ := by
  induction p₁ generalizing k with
  | nil =>
    cases k with
    | nil => rfl
    | cons c k =>
      simp only [List.nil_append, List.cons_append, List.isPrefixOf, Bool.and_eq_true, beq_iff_eq] at h
      exact absurd h.1.symm (fun e => hk (by simp [e]))
  | cons a p₁ ih =>
    cases k with
    | nil =>
      simp only [List.nil_append, List.cons_append, List.isPrefixOf, Bool.and_eq_true, beq_iff_eq] at h
      exact absurd h.1 (fun e => hp (by simp [e]))
    | cons c k =>
      simp only [List.cons_append, List.isPrefixOf, Bool.and_eq_true, beq_iff_eq] at h
      rw [h.1, ih k (fun e => hp (by simp [e])) (fun e => hk (by simp [e])) h.2]

theorem isDataLine_kv (k : String) (r : List Char) (h : keyOkB k = true) :
    isDataLine ('#' :: ' ' :: (k.toList ++ ':' :: r)) = false := by
  unfold keyOkB at h
  simp only [Bool.and_eq_true, Bool.not_eq_true', List.contains_eq_mem, decide_eq_false_iff_not,
    beq_eq_false_iff_ne, ne_eq] at h
  obtain ⟨⟨_, h2⟩, h3⟩ := h
  cases hd : isDataLine ('#' :: ' ' :: (k.toList ++ ':' :: r)) with
  | false => rfl
  | true =>
    exfalso
    unfold isDataLine dataPrefix at hd
    simp only [List.map_cons, List.map_append, List.isPrefixOf, Bool.and_eq_true, beq_iff_eq] at hd
    have hc : Char.toLower ':' = ':' := by decide
    rw [hc] at hd
    have := prefix_colon ['b', 'e', 'g', 'i', 'n'] [' ', 'd', 'a', 't', 'a'] _ _ (by decide) h2 hd.2.2
    exact h3 this

variable (N : NumIO)

theorem lineOk_num (k : String) (q : Rat) (hk : keyOkB k = true) (h1 : natKeys.contains k = false)
    (h2 : numKeys.contains k = true) : LineOk N (.kv k (.num q)) := by
  have hk' := hk
  unfold keyOkB at hk'
  simp only [Bool.and_eq_true] at hk'
  exact ⟨textOk_of_B _ hk'.1.1, ⟨h1, h2⟩, isDataLine_kv k _ hk⟩

theorem lineOk_nat (k : String) (n : Nat) (hk : keyOkB k = true) (h1 : natKeys.contains k = true) :
    LineOk N (.kv k (.nat n)) := by
  have hk' := hk
  unfold keyOkB at hk'
  simp only [Bool.and_eq_true] at hk'
  exact ⟨textOk_of_B _ hk'.1.1, h1, isDataLine_kv k _ hk⟩

theorem lineOk_str (k s : String) (hk : keyOkB k = true) (h1 : natKeys.contains k = false)
    (h2 : numKeys.contains k = false) (hs : TextOk s.toList) : LineOk N (.kv k (.str s)) := by
  have hk' := hk
  unfold keyOkB at hk'
  simp only [Bool.and_eq_true] at hk'
  exact ⟨textOk_of_B _ hk'.1.1, ⟨h1, h2, hs⟩, isDataLine_kv k _ hk⟩

theorem lineOk_begin (s : String) (hs : textOkB s.toList = true)
    (hd : isDataLine ('#' :: ' ' :: ("Begin".toList ++ ':' :: ' ' :: s.toList)) = false) :
    LineOk N (.kv "Begin" (.str s)) :=
  ⟨textOk_of_B _ (by decide), ⟨by decide, by decide, textOk_of_B _ hs⟩, hd⟩

/-- the user's strings fit a header line -/
structure HeaderTextOk {α} (f : OField α) (extend : Bool) (labels : String) : Prop where
  meshunit : TextOk (f.mesh.region.units.getD 0 "").toList
  labels : TextOk labels.toList
  units : TextOk (valueUnits f extend).toList

/-- the header lines before the data line -/
def headHs {α} (f : OField α) (extend : Bool) (labels : String) : List HLine :=
  (headerLines f extend labels []).dropLast

theorem headerLines_split {α} (f : OField α) (extend : Bool) (labels : String) (rw : List String) :
    headerLines f extend labels rw = headHs f extend labels ++ [.beginData rw] := rfl

theorem headHs_ok {α} (f : OField α) (extend : Bool) (labels : String) (T : HeaderTextOk f extend labels) :
    ∀ l ∈ headHs f extend labels, LineOk N l := by
  intro l hl
  simp only [headHs, headerLines, List.dropLast, List.mem_cons, List.mem_nil_iff, or_false] at hl
  rcases hl with rfl | rfl | rfl | rfl | rfl | rfl | rfl | rfl | rfl | rfl | rfl | rfl | rfl | rfl | rfl | rfl |
    rfl | rfl | rfl | rfl | rfl | rfl | rfl | rfl | rfl | rfl | rfl | rfl | rfl | rfl | rfl
  · trivial
  · exact lineOk_nat N _ _ (by decide) (by decide)
  · trivial
  · exact lineOk_begin N _ (by decide) (by decide)
  · exact lineOk_begin N _ (by decide) (by decide)
  · trivial
  · exact lineOk_str N _ _ (by decide) (by decide) (by decide) (textOk_of_B _ (by decide))
  · exact lineOk_str N _ _ (by decide) (by decide) (by decide) (textOk_of_B _ (by decide))
  · exact lineOk_str N _ _ (by decide) (by decide) (by decide) T.meshunit
  · exact lineOk_str N _ _ (by decide) (by decide) (by decide) (textOk_of_B _ (by decide))
  · exact lineOk_num N _ _ (by decide) (by decide) (by decide)
  · exact lineOk_num N _ _ (by decide) (by decide) (by decide)
  · exact lineOk_num N _ _ (by decide) (by decide) (by decide)
  · exact lineOk_nat N _ _ (by decide) (by decide)
  · exact lineOk_nat N _ _ (by decide) (by decide)
  · exact lineOk_nat N _ _ (by decide) (by decide)
  · exact lineOk_num N _ _ (by decide) (by decide) (by decide)
  · exact lineOk_num N _ _ (by decide) (by decide) (by decide)
  · exact lineOk_num N _ _ (by decide) (by decide) (by decide)
  · exact lineOk_num N _ _ (by decide) (by decide) (by decide)
  · exact lineOk_num N _ _ (by decide) (by decide) (by decide)
  · exact lineOk_num N _ _ (by decide) (by decide) (by decide)
  · exact lineOk_num N _ _ (by decide) (by decide) (by decide)
  · exact lineOk_num N _ _ (by decide) (by decide) (by decide)
  · exact lineOk_num N _ _ (by decide) (by decide) (by decide)
  · exact lineOk_nat N _ _ (by decide) (by decide)
  · exact lineOk_str N _ _ (by decide) (by decide) (by decide) T.labels
  · exact lineOk_str N _ _ (by decide) (by decide) (by decide) T.units
  · trivial
  · exact lineOk_str N _ _ (by decide) (by decide) (by decide) (textOk_of_B _ (by decide))
  · trivial


/-- the user's strings of a field fit a header line (whatever `valuelabels` becomes) -/
structure WrittenTextOk {α} (f : OField α) (extend : Bool) : Prop where
  meshunit : TextOk (f.mesh.region.units.getD 0 "").toList
  labels : ∀ labels, valueLabels f extend = .ok labels → TextOk labels.toList
  units : TextOk (valueUnits f extend).toList

/-- what `_to_ovf` returns, whatever the representation: the fixed first line and the header
lines of `headerLines` for the labels and the words of the representation -/
theorem toOvfE_shape {α} (c : Codec α) (f : OField α) (rep : String) (e : Bool) (F : OvfFile α)
    (h : toOvfE c f rep e = .ok F) :
    ∃ labels rw, valueLabels f e = .ok labels ∧ repWords rep = .ok rw ∧ F.first = "# OOMMF OVF 2.0" ∧
      F.lines = headerLines f e labels rw ∧
      ((∃ b, F.body = .bin b ∧ rep ≠ "txt") ∨ (∃ rows footer, F.body = .text rows footer ∧ rep = "txt")) := by
  unfold toOvfE at h
  split at h
  · cases h
  · split at h
    · cases h
    · rename_i labels hlab
      split at h
      · cases h
      · rename_i rw hrw
        split at h
        · cases h
        · split at h
          · injection h with h; subst h
            refine ⟨labels, rw, hlab, hrw, rfl, rfl, Or.inr ⟨_, _, rfl, ?_⟩⟩
            rename_i hw
            unfold repWords at hrw
            split at hrw
            · simp [repWidth] at hw
            · simp [repWidth] at hw
            · rfl
            · cases hrw
          · split at h
            · cases h
            · injection h with h; subst h
              rename_i hw _ _ _
              exact ⟨labels, rw, hlab, hrw, rfl, rfl, Or.inl ⟨_, rfl, fun e => hw (by rw [e]; rfl)⟩⟩

theorem repWords_ok (rep : String) (rw : List String) (h : repWords rep = .ok rw) :
    WordsOk rw ∧ (isBinary rw = true ↔ rep ≠ "txt") := by
  unfold repWords at h
  split at h
  · injection h with h; subst h
    exact ⟨by intro w hw; simp only [List.mem_cons, List.mem_nil_iff, or_false] at hw
              rcases hw with rfl | rfl <;> exact ⟨by decide, by decide⟩, by decide +kernel⟩
  · injection h with h; subst h
    exact ⟨by intro w hw; simp only [List.mem_cons, List.mem_nil_iff, or_false] at hw
              rcases hw with rfl | rfl <;> exact ⟨by decide, by decide⟩, by decide +kernel⟩
  · injection h with h; subst h
    exact ⟨by intro w hw; simp only [List.mem_cons, List.mem_nil_iff, or_false] at hw
              subst hw; exact ⟨by decide, by decide⟩, by decide +kernel⟩
  · cases h

/-- **the file `_to_ovf` writes is one the byte-level reader reads back** -/
theorem written_fileOk {α} (c : Codec α) (f : OField α) (rep : String) (e : Bool) (F : OvfFile α)
    (h : toOvfE c f rep e = .ok F) (T : WrittenTextOk f e) :
    ∃ labels rw, FileOk N F (headHs f e labels) rw ∧ F.lines = headerLines f e labels rw ∧
      F.first = "# OOMMF OVF 2.0" ∧ repWords rep = .ok rw := by
  obtain ⟨labels, rw, hlab, hrw, hfirst, hlines, _⟩ := toOvfE_shape c f rep e F h
  refine ⟨labels, rw, ⟨?_, ?_, ?_, (repWords_ok rep rw hrw).1⟩, hlines, hfirst, hrw⟩
  · rw [hlines]; exact headerLines_split f e labels rw
  · rw [hfirst]; decide
  · exact headHs_ok N f e labels ⟨T.meshunit, T.labels labels hlab, T.units⟩

end DFV.C09
