import DFV.Lemmas.C09Cut
/-! Non-vacuity for the byte-level theorems of C09: a lawful `NumIO` exists, and the example field
carries strings that fit a header line. -/
namespace DFV.C09
open DFV

/-- a toy number format: `|num|` letters `a`, a sign letter, `den` letters `a` -/
def toyNum : NumIO where
  fmt q := List.replicate q.num.natAbs 'a' ++ (if q.num < 0 then 'm' else 'p') :: List.replicate q.den 'a'
  pfloat cs :=
    match cs.dropWhile (· == 'a') with
    | [] => none
    | s :: d =>
      some (mkRat (if s == 'm' then -((cs.takeWhile (· == 'a')).length : Int) else (cs.takeWhile (· == 'a')).length)
        d.length)

theorem takeWhile_replicate_a (n : Nat) (s : Char) (hs : s ≠ 'a') (r : List Char) :
    (List.replicate n 'a' ++ s :: r).takeWhile (· == 'a') = List.replicate n 'a' := by
  induction n with
  | zero => simp [hs]
  | succ n ih => simp [List.replicate_succ, ih]

theorem dropWhile_replicate_a (n : Nat) (s : Char) (hs : s ≠ 'a') (r : List Char) :
    (List.replicate n 'a' ++ s :: r).dropWhile (· == 'a') = s :: r := by
  induction n with
  | zero => simp [hs]
  | succ n ih => simp [List.replicate_succ, ih]

theorem toyNum_lawful : toyNum.Lawful := by
  constructor
  · intro q
    have hs : (if q.num < 0 then 'm' else 'p') ≠ 'a' := by split <;> decide
    show (match (List.replicate q.num.natAbs 'a' ++ (if q.num < 0 then 'm' else 'p') :: List.replicate q.den 'a').dropWhile
        (· == 'a') with
      | [] => none
      | s :: d => some (mkRat (if s == 'm' then
          -(((List.replicate q.num.natAbs 'a' ++ (if q.num < 0 then 'm' else 'p') :: List.replicate q.den 'a').takeWhile
            (· == 'a')).length : Int)
          else ((List.replicate q.num.natAbs 'a' ++ (if q.num < 0 then 'm' else 'p') :: List.replicate q.den 'a').takeWhile
            (· == 'a')).length) d.length)) = some q
    rw [dropWhile_replicate_a _ _ hs, takeWhile_replicate_a _ _ hs]
    simp only [List.length_replicate]
    congr 1
    by_cases hn : q.num < 0
    · simp only [hn, if_true, beq_self_eq_true]
      have : -(q.num.natAbs : Int) = q.num := by omega
      rw [this, Rat.mkRat_self]
    · simp only [hn, if_false]
      have h1 : ('p' == 'm') = false := by decide
      simp only [h1, Bool.false_eq_true, if_false]
      have : (q.num.natAbs : Int) = q.num := by omega
      rw [this, Rat.mkRat_self]
  · intro q ch hc
    simp only [toyNum, List.mem_append, List.mem_cons, List.mem_replicate] at hc
    rcases hc with ⟨_, rfl⟩ | h | ⟨_, rfl⟩
    · exact ⟨by decide, by decide⟩
    · subst h; split <;> exact ⟨by decide, by decide⟩
    · exact ⟨by decide, by decide⟩
  · intro q h
    simp [toyNum] at h

/-- pandas on an empty data section: no rows (the hypothesis `(tb []).1 = []` is satisfiable) -/
def toyText : List Byte → List (List Nat) × List String := fun _ => ([], [])

theorem exField_text : WrittenTextOk exField false := by
  refine ⟨textOk_of_B _ (by decide), ?_, ?_⟩
  · intro labels h
    have e : valueLabels exField false = .ok "field_a_b field_c field_d" := by decide +kernel
    rw [e] at h
    injection h with h
    subst h
    exact textOk_of_B _ (by decide)
  · have e : valueUnits exField false = "A/m A/m A/m" := by decide +kernel
    rw [e]
    exact textOk_of_B _ (by decide)

end DFV.C09
