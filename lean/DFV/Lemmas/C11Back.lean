import DFV.Lemmas.C11Acc
/-!
C11: forward ∘ inverse at FIELD level for k-space fields that did not come from `fftn`
(`fftn(ifftn F)`, `rfftn(irfftn G)`): acceptance from the inputs, the mesh the result lives on,
labels, values; the k-mesh does not depend on the position of the mesh; the k-meshes that are
restored exactly (`KCanonical`).
-/
namespace DFV.C11
open DFV

theorem mesh_counts_pos (m : Mesh) (hm : m.Inv) : ∀ n ∈ m.n, 0 < n := by
  intro n hn
  obtain ⟨i, hi, rfl⟩ := List.getElem_of_mem hn
  have hlt : i < m.ndim := by have := hm.2.1; unfold Mesh.ndim; omega
  have := hm.2.2 i hlt
  simpa [Mesh.nAt, List.getD_eq_getElem?_getD, hi] using this

/-! ### the k-mesh depends on counts, extents, names, units, tolerance — not on the position -/

theorem kMesh_congr (m m' : Mesh) (rfft : Bool) (h1 : m'.ndim = m.ndim) (h2 : m'.n = m.n)
    (h3 : ∀ a, a < m.ndim → m'.region.edge a = m.region.edge a)
    (hd : m'.region.dims = m.region.dims) (hu : m'.region.units = m.region.units)
    (ht : m'.region.tol = m.region.tol) : kMesh m' rfft = kMesh m rfft := by
  have hn : ∀ a, m'.nAt a = m.nAt a := fun a => by unfold Mesh.nAt; rw [h2]
  have hc : ∀ a, a < m.ndim → m'.cellAt a = m.cellAt a := fun a ha => by
    unfold Mesh.cellAt; rw [h3 a ha, hn a]
  unfold kMesh
  rw [h1, hd, hu, ht]
  have e1 : tab m.ndim (kP1 m' rfft) = tab m.ndim (kP1 m rfft) :=
    tab_congr _ _ _ (fun a ha => by simp only [kP1, kFreqs, hn, hc a ha, h1])
  have e2 : tab m.ndim (kP2 m' rfft) = tab m.ndim (kP2 m rfft) :=
    tab_congr _ _ _ (fun a ha => by simp only [kP2, kFreqs, hn, hc a ha, h1])
  have e3 : tab m.ndim (kN m' rfft) = tab m.ndim (kN m rfft) :=
    tab_congr _ _ _ (fun a ha => by simp only [kN, kFreqs, hn, hc a ha, h1])
  rw [e1, e2, e3]

theorem originMesh_edge (m : Mesh) (s : List Nat) (a : Nat) (ha : a < m.ndim) :
    (originMesh m s).region.edge a = m.region.edge a := by
  simp only [originMesh, Region.edge, Region.lo, Region.hi]
  rw [getD_tab _ _ _ _ ha, getD_tab _ _ _ _ ha]
  ring

/-- the k-mesh of the recentred mesh is the k-mesh of the mesh -/
theorem kMesh_originMesh (m : Mesh) (rfft : Bool) : kMesh (originMesh m m.n) rfft = kMesh m rfft :=
  kMesh_congr m (originMesh m m.n) rfft (by simp [originMesh, Mesh.ndim, Region.ndim]) rfl
    (fun a ha => originMesh_edge m m.n a ha) rfl rfl rfl

/-! ### `Mesh.fftn ∘ Mesh.ifftn` on any valid k-mesh -/

theorem rMesh_nAt (k : Mesh) (s : List Nat) (a : Nat) : (rMesh k s).nAt a = s.getD a 0 := rfl
theorem rMesh_nAt_self (k : Mesh) (a : Nat) : (rMesh k k.n).nAt a = k.nAt a := rfl

/-- the k-mesh of the real-space mesh `Mesh.ifftn` returns has the counts and the cell sizes of
the k-mesh it was made from -/
theorem kMesh_rMesh_cell (k : Mesh) (hk : k.Inv) (hd : hasDup (k.region.dims.map (stripPre "k_")) = false)
    (a : Nat) (ha : a < k.ndim) :
    (kMesh (rMesh k k.n) false).nAt a = k.nAt a ∧ (kMesh (rMesh k k.n) false).cellAt a = k.cellAt a := by
  have hr := rMesh_inv k hk k.n hk.2.1 hk.2.2 hd
  have ha' : a < (rMesh k k.n).ndim := by rw [rMesh_ndim]; exact ha
  refine ⟨by rw [kMesh_nAt _ false a ha', kN_full _ false a (by simp)]; rfl, ?_⟩
  rw [kMesh_cellAt _ false hr a ha', rMesh_cellAt k k.n a ha, rMesh_nAt]
  have hn0 : ((k.n.getD a 0 : Nat) : Rat) ≠ 0 := ne_of_gt (nat_cast_pos' _ (hk.2.2 a ha))
  have hc0 : k.cellAt a ≠ 0 := ne_of_gt (cell_pos k hk a ha)
  field_simp

/-- a k-mesh in the position, with the names and units `Mesh.fftn` produces: cell `⌊n/2⌋` centred
at frequency 0 on every axis, names `k_…`, units `(…)$^{-1}$`, no bc, no subregions -/
structure KCanonical (k : Mesh) : Prop where
  bc : k.bc = ""
  subs : k.subs = []
  dims : (k.region.dims.map (stripPre "k_")).map kDim = k.region.dims
  units : (k.region.units.map stripUnit).map kUnit = k.region.units
  pos : ∀ a, a < k.ndim → k.region.lo a = -(((k.nAt a / 2 : Nat) : Rat) + 1 / 2) * k.cellAt a

/-- what `Mesh.fftn` returns is canonical -/
theorem kMesh_canonical (m : Mesh) (hm : m.Inv) : KCanonical (kMesh m false) := by
  refine ⟨rfl, rfl, ?_, ?_, ?_⟩
  · show ((m.region.dims.map kDim).map (stripPre "k_")).map kDim = m.region.dims.map kDim
    rw [map_strip_kDim]
  · show ((m.region.units.map kUnit).map stripUnit).map kUnit = m.region.units.map kUnit
    rw [map_strip_kUnit]
  · intro a ha
    rw [kMesh_ndim] at ha
    have hn := hm.2.2 a ha
    have hc := cell_pos m hm a ha
    rw [kMesh_lo m false a ha, kMesh_cellAt m false hm a ha, kMesh_nAt m false a ha, kN_full m false a (by simp),
      kP1_full m false a (by simp) hn hc]
    ring

theorem hi_eq (k : Mesh) (hk : k.Inv) (a : Nat) (ha : a < k.ndim) :
    k.region.hi a = k.region.lo a + (k.nAt a : Rat) * k.cellAt a := by
  rw [n_cell_eq_edge k a (hk.2.2 a ha)]
  unfold Region.edge
  ring

/-- **`Mesh.fftn ∘ Mesh.ifftn` restores exactly the canonical k-meshes** -/
theorem kMesh_rMesh_of_canonical (k : Mesh) (hk : k.Inv) (hd : hasDup (k.region.dims.map (stripPre "k_")) = false)
    (hc : KCanonical k) : kMesh (rMesh k k.n) false = k := by
  have hr := rMesh_inv k hk k.n hk.2.1 hk.2.2 hd
  have hnd : (rMesh k k.n).ndim = k.ndim := rMesh_ndim k k.n
  have hlo : ∀ a, a < k.ndim → kP1 (rMesh k k.n) false a = k.region.lo a := by
    intro a ha
    have hn := hk.2.2 a ha
    have hn0 : ((k.nAt a : Nat) : Rat) ≠ 0 := ne_of_gt (nat_cast_pos' _ hn)
    have hc0 : k.cellAt a ≠ 0 := ne_of_gt (cell_pos k hk a ha)
    rw [kP1_full _ false a (by simp) (by rw [rMesh_nAt]; exact hn) (cell_pos _ hr a (by rw [hnd]; exact ha)),
      rMesh_cellAt k k.n a ha, rMesh_nAt_self, hc.pos a ha]
    show _ / ((k.nAt a : Rat) * (1 / ((k.nAt a : Rat) * k.cellAt a))) = _
    field_simp
  have hhi : ∀ a, a < k.ndim → kP2 (rMesh k k.n) false a = k.region.hi a := by
    intro a ha
    have hn := hk.2.2 a ha
    have hn0 : ((k.nAt a : Nat) : Rat) ≠ 0 := ne_of_gt (nat_cast_pos' _ hn)
    have hc0 : k.cellAt a ≠ 0 := ne_of_gt (cell_pos k hk a ha)
    rw [kP2_full _ false a (by simp) (by rw [rMesh_nAt]; exact hn) (cell_pos _ hr a (by rw [hnd]; exact ha)),
      rMesh_cellAt k k.n a ha, rMesh_nAt_self, hi_eq k hk a ha, hc.pos a ha]
    show _ / ((k.nAt a : Rat) * (1 / ((k.nAt a : Rat) * k.cellAt a))) = _
    have hsum : (k.nAt a - 1) / 2 + k.nAt a / 2 + 1 = k.nAt a := by omega
    have hq : (((k.nAt a - 1) / 2 : Nat) : Rat) + ((k.nAt a / 2 : Nat) : Rat) + 1 = (k.nAt a : Rat) := by
      exact_mod_cast hsum
    have : (((k.nAt a - 1) / 2 : Nat) : Rat) = (k.nAt a : Rat) - ((k.nAt a / 2 : Nat) : Rat) - 1 := by linarith
    rw [this]
    field_simp
    ring
  have e : kMesh (rMesh k k.n) false
      = ⟨⟨k.region.pmin, k.region.pmax, k.region.dims, k.region.units, k.region.tol⟩, k.n, k.bc, k.subs⟩ := by
    unfold kMesh
    rw [hnd, hc.bc, hc.subs]
    have e1 : tab k.ndim (kP1 (rMesh k k.n) false) = k.region.pmin := by
      symm; apply eq_tab_of_getD _ _ _ 0 rfl
      intro a ha; exact (hlo a ha).symm
    have e2 : tab k.ndim (kP2 (rMesh k k.n) false) = k.region.pmax := by
      symm; apply eq_tab_of_getD _ _ _ 0 hk.1.2.1
      intro a ha; exact (hhi a ha).symm
    have e3 : tab k.ndim (kN (rMesh k k.n) false) = k.n := by
      symm; apply eq_tab_of_getD _ _ _ 0 hk.2.1
      intro a _; rw [kN_full _ false a (by simp)]; rfl
    rw [e1, e2, e3]
    show (⟨⟨_, _, (k.region.dims.map (stripPre "k_")).map kDim, (k.region.units.map stripUnit).map kUnit, k.region.tol⟩,
      _, _, _⟩ : Mesh) = _
    rw [hc.dims, hc.units]
  rw [e]

/-- the same for the real transform: counts `halfShape s` and the k-mesh's cell sizes -/
theorem kMesh_rMesh_cell_half (k : Mesh) (hk : k.Inv) (hd : hasDup (k.region.dims.map (stripPre "k_")) = false)
    (s : List Nat) (hl : s.length = k.ndim) (hp : ∀ a, a < k.ndim → 0 < s.getD a 0) :
    (kMesh (rMesh k s) true).n = halfShape s ∧
    ∀ a, a < k.ndim → (kMesh (rMesh k s) true).cellAt a = k.cellAt a := by
  have hr := rMesh_inv k hk s hl hp hd
  refine ⟨kMesh_n_half _ hr, ?_⟩
  intro a ha
  have ha' : a < (rMesh k s).ndim := by rw [rMesh_ndim]; exact ha
  rw [kMesh_cellAt _ true hr a ha', rMesh_cellAt k s a ha, rMesh_nAt]
  have hn0 : ((s.getD a 0 : Nat) : Rat) ≠ 0 := ne_of_gt (nat_cast_pos' _ (hp a ha))
  have hc0 : k.cellAt a ≠ 0 := ne_of_gt (cell_pos k hk a ha)
  field_simp

/-! ### forward ∘ inverse at field level -/

section
variable {R : Type}

/-- the result of an accepted inverse transform is a valid field -/
theorem invResult_inv (f : CF R) (hf : CFInv f) (s : List Nat) (hl : s.length = f.mesh.ndim)
    (hp : ∀ a, a < f.mesh.ndim → 0 < s.getD a 0)
    (hd : hasDup (f.mesh.region.dims.map (stripPre "k_")) = false)
    (hlab : ∀ vs, f.vdims = some vs → hasDup (vs.map (stripPre "ft_")) = false)
    (data : NDA (List R)) (hshape : data.shape = s) :
    CFInv ({ mesh := rMesh f.mesh s, nvdim := f.nvdim, data := data,
             vdims := f.vdims.map fun vs => vs.map (stripPre "ft_"),
             vmap := f.vmap.map fun p => (stripPre "ft_" p.1, stripPre "k_" p.2), unit := f.unit } : CF R) := by
  refine ⟨rMesh_inv f.mesh hf.mesh s hl hp hd, hshape, hf.nv, ?_⟩
  rcases hf.labels with ⟨hv, hnv, hmp⟩ | ⟨vs, hv, hne, hlen, _, hk⟩
  · left; simp [hv, hnv, hmp]
  · right
    refine ⟨vs.map (stripPre "ft_"), by simp [hv], by simpa using hne, by simpa using hlen, hlab vs hv, ?_⟩
    rcases hk with h | h
    · left; simp [h]
    · right; simp only [List.map_map]; rw [← h, List.map_map]; rfl

end

section
variable {R : Type} [Zero R] [One R] [Add R] [Mul R]

/-- `Field.fftn` of an accepted `Field.ifftn` succeeds, with this result -/
theorem fftn_ifftn_ok (ρs : List (Root R)) (f : CF R) (hf : CFInv f)
    (hd : hasDup (f.mesh.region.dims.map (stripPre "k_")) = false)
    (hlab : ∀ vs, f.vdims = some vs → hasDup (vs.map (stripPre "ft_")) = false) :
    fftn ρs (ifftnResult ρs f)
      = .ok { mesh := kMesh (rMesh f.mesh f.mesh.n) false, nvdim := f.nvdim,
              data := fftnArr ρs f.nvdim (ifftnArr ρs f.nvdim f.data),
              vdims := fwdLabels (f.vdims.map fun vs => vs.map (stripPre "ft_")),
              vmap := fwdMap (f.vmap.map fun p => (stripPre "ft_" p.1, stripPre "k_" p.2)), unit := f.unit } :=
  fftn_ok ρs _ (invResult_inv f hf f.mesh.n hf.mesh.2.1 hf.mesh.2.2 hd hlab _ hf.shape)

/-- `Field.rfftn` of an accepted `Field.irfftn` (library convention) succeeds, with this result -/
theorem rfftn_irfftnNP_ok (conj : R → R) (half : R) (ρs : List (Root R)) (f : CF R) (hf : CFInv f) (s : List Nat)
    (hl : s.length = f.mesh.ndim) (hp : ∀ a, a < f.mesh.ndim → 0 < s.getD a 0)
    (hd : hasDup (f.mesh.region.dims.map (stripPre "k_")) = false)
    (hlab : ∀ vs, f.vdims = some vs → hasDup (vs.map (stripPre "ft_")) = false) :
    rfftn ρs { irfftnResult conj ρs f s with data := irfftnArrNP conj half ρs f.nvdim s f.data }
      = .ok { mesh := kMesh (rMesh f.mesh s) true, nvdim := f.nvdim,
              data := rfftnArr ρs f.nvdim (irfftnArrNP conj half ρs f.nvdim s f.data),
              vdims := fwdLabels (f.vdims.map fun vs => vs.map (stripPre "ft_")),
              vmap := fwdMap (f.vmap.map fun p => (stripPre "ft_" p.1, stripPre "k_" p.2)), unit := f.unit } :=
  rfftn_ok ρs _ (invResult_inv f hf s hl hp hd hlab _ rfl)

end

/-- prefixing undoes stripping exactly on the labels that carry the prefix -/
theorem pre_strip (p s : String) (h : p.toList.isPrefixOf s.toList = true) : p ++ stripPre p s = s := by
  unfold stripPre
  rw [if_pos h]
  obtain ⟨t, ht⟩ := List.isPrefixOf_iff_prefix.mp h
  apply String.ext
  rw [String.toList_append, String.toList_ofList, ← ht, List.drop_left]

end DFV.C11
