import DFV.Lemmas.C16Geom
/-! C16 helper lemmas, part 3: the list of cell-data arrays `to_vtk` assembles (with
`AddArray`'s replace-by-name rule), array lookup by name, and the tuple of every array at
the structured id of a cell. -/
namespace DFV.C16
open DFV

theorem addArray_fresh (l : List VArr) (a : VArr) (h : ∀ b ∈ l, b.name ≠ a.name) : addArray l a = l ++ [a] := by
  induction l with
  | nil => rfl
  | cons b bs ih =>
    simp only [addArray]
    rw [if_neg (h b (by simp)), ih fun c hc => h c (by simp [hc])]
    rfl

theorem hasDup_cons_false (x : String) (xs : List String) (h : hasDup (x :: xs) = false) :
    ¬ x ∈ xs ∧ hasDup xs = false := by
  simp only [hasDup, Bool.or_eq_false_iff] at h
  refine ⟨?_, h.2⟩
  intro hx
  have := h.1
  simp [List.contains_iff_mem, hx] at this

/-- the `AddArray` loop over distinct labels that are not yet present appends one array per label -/
theorem fold_addArray (mk : String → VArr) (hmk : ∀ l, (mk l).name = l) (ws : List String) (acc : List VArr)
    (hd : hasDup ws = false) (hacc : ∀ b ∈ acc, ¬ b.name ∈ ws) :
    ws.foldl (fun acc lbl => addArray acc (mk lbl)) acc = acc ++ ws.map mk := by
  induction ws generalizing acc with
  | nil => simp
  | cons w ws ih =>
    obtain ⟨hw, hd'⟩ := hasDup_cons_false w ws hd
    simp only [List.foldl_cons, List.map_cons]
    rw [addArray_fresh acc (mk w) (by
      intro b hb hn
      rw [hmk] at hn
      exact hacc b hb (by simp [hn]))]
    rw [ih (acc ++ [mk w]) hd' (by
      intro b hb
      rcases List.mem_append.mp hb with hb | hb
      · intro hm; exact hacc b hb (by simp [hm])
      · simp only [List.mem_singleton] at hb
        rw [hb, hmk]; exact hw)]
    simp

theorem compVArr_name (f : Fld) (vs : List String) (l : String) : (compVArr f vs l).name = l := rfl

/-- the cell data of a well-formed field: `norm`, one scalar per label, `field`, `valid` -/
theorem cellData_eq (f : Fld) (nx ny nz : Nat) (h : WF f nx ny nz) :
    cellData f = normVArr f :: (comps f ++ [fieldVArr f, validVArr f]) := by
  unfold cellData comps
  by_cases hnv : 1 < f.nvdim
  · obtain ⟨vs, hvs, _, hd, h1, h2, h3⟩ := h.labels hnv
    simp only [hnv, if_true, hvs, Option.getD_some]
    unfold compArrays
    rw [fold_addArray (compVArr f vs) (compVArr_name f vs) vs _ hd (by
      intro b hb
      simp only [addArray, List.mem_singleton] at hb
      rw [hb]; exact h1)]
    have hall : ∀ b ∈ vs.map (compVArr f vs), ¬ b.name ∈ vs → False := by
      intro b hb hn
      obtain ⟨l, hl, rfl⟩ := List.mem_map.mp hb
      exact hn hl
    rw [addArray_fresh _ (fieldVArr f) (by
      intro b hb
      rcases List.mem_append.mp hb with hb | hb
      · simp only [addArray, List.mem_singleton] at hb
        rw [hb]; simp [normVArr, fieldVArr, validVArr]
      · obtain ⟨l, hl, rfl⟩ := List.mem_map.mp hb
        intro hn
        have : l = "field" := hn
        exact h2 (this ▸ hl))]
    rw [addArray_fresh _ (validVArr f) (by
      intro b hb
      rcases List.mem_append.mp hb with hb | hb
      · rcases List.mem_append.mp hb with hb | hb
        · simp only [addArray, List.mem_singleton] at hb
          rw [hb]; simp [normVArr, fieldVArr, validVArr]
        · obtain ⟨l, hl, rfl⟩ := List.mem_map.mp hb
          intro hn
          have : l = "valid" := hn
          exact h3 (this ▸ hl)
      · simp only [List.mem_singleton] at hb
        rw [hb]; simp [normVArr, fieldVArr, validVArr])]
    simp [addArray]
  · simp only [hnv, if_false]
    rfl

theorem comps_names (f : Fld) (nx ny nz : Nat) (h : WF f nx ny nz) (b : VArr) (hb : b ∈ comps f) :
    b.name ≠ "norm" ∧ b.name ≠ "field" ∧ b.name ≠ "valid" := by
  unfold comps at hb
  by_cases hnv : 1 < f.nvdim
  · obtain ⟨vs, hvs, _, _, h1, h2, h3⟩ := h.labels hnv
    simp only [hnv, if_true, hvs, Option.getD_some] at hb
    obtain ⟨l, hl, rfl⟩ := List.mem_map.mp hb
    refine ⟨?_, ?_, ?_⟩ <;> intro hn
    · have : l = "norm" := hn
      exact h1 (this ▸ hl)
    · have : l = "field" := hn
      exact h2 (this ▸ hl)
    · have : l = "valid" := hn
      exact h3 (this ▸ hl)
  · simp [hnv] at hb

theorem find_comps_none (f : Fld) (nx ny nz : Nat) (h : WF f nx ny nz) (nm : String)
    (hnm : nm = "norm" ∨ nm = "field" ∨ nm = "valid") :
    (comps f).find? (fun a => a.name == nm) = none := by
  rw [List.find?_eq_none]
  intro b hb
  obtain ⟨h1, h2, h3⟩ := comps_names f nx ny nz h b hb
  simp only [beq_iff_eq]
  rcases hnm with rfl | rfl | rfl <;> assumption

theorem toVtk_ok (f : Fld) (nx ny nz : Nat) (h : WF f nx ny nz) :
    toVtk f = .ok { dims := [nx + 1, ny + 1, nz + 1],
                    coords := tab 3 fun a => f.mesh.vertices.getD a [],
                    cell := normVArr f :: (comps f ++ [fieldVArr f, validVArr f]) } := by
  have hnd : f.mesh.region.ndim = 3 := by
    have := h.mesh.2.1
    rw [h.n] at this
    simpa using this.symm
  unfold toVtk
  rw [if_neg (by simp [hnd])]
  have hl : ¬ (1 < f.nvdim ∧ f.vdims = none) := by
    rintro ⟨h1, h2⟩
    obtain ⟨vs, hvs, _⟩ := h.labels h1
    rw [h2] at hvs; cases hvs
  rw [if_neg hl, cellData_eq f nx ny nz h, h.n]
  rfl

theorem arr_norm (f : Fld) (nx ny nz : Nat) (h : WF f nx ny nz) (g : Grid) (hg : toVtk f = .ok g) :
    g.arr "norm" = some (normVArr f) := by
  rw [toVtk_ok f nx ny nz h] at hg
  injection hg with hg
  subst hg
  simp [Grid.arr, normVArr]

theorem arr_field (f : Fld) (nx ny nz : Nat) (h : WF f nx ny nz) (g : Grid) (hg : toVtk f = .ok g) :
    g.arr "field" = some (fieldVArr f) := by
  rw [toVtk_ok f nx ny nz h] at hg
  injection hg with hg
  subst hg
  simp only [Grid.arr]
  rw [List.find?_cons_of_neg (by simp [normVArr]), List.find?_append,
    find_comps_none f nx ny nz h "field" (by simp)]
  simp [fieldVArr]

theorem arr_valid (f : Fld) (nx ny nz : Nat) (h : WF f nx ny nz) (g : Grid) (hg : toVtk f = .ok g) :
    g.arr "valid" = some (validVArr f) := by
  rw [toVtk_ok f nx ny nz h] at hg
  injection hg with hg
  subst hg
  simp only [Grid.arr]
  rw [List.find?_cons_of_neg (by simp [normVArr]), List.find?_append,
    find_comps_none f nx ny nz h "valid" (by simp)]
  simp [fieldVArr, validVArr]

theorem find_map_mk (mk : String → VArr) (hmk : ∀ l, (mk l).name = l) (vs : List String) (l : String) (hl : l ∈ vs) :
    (vs.map mk).find? (fun a => a.name == l) = some (mk l) := by
  induction vs with
  | nil => simp at hl
  | cons v vs ih =>
    simp only [List.map_cons, List.find?_cons]
    by_cases hv : v = l
    · subst hv; simp [hmk]
    · have : ((mk v).name == l) = false := by simp [hmk, hv]
      rw [this]
      exact ih (by
        rcases List.mem_cons.mp hl with h | h
        · exact absurd h.symm hv
        · exact h)

/-- the scalar array called after label `l` holds component `vdims.index(l)` -/
theorem arr_comp (f : Fld) (nx ny nz : Nat) (h : WF f nx ny nz) (g : Grid) (hg : toVtk f = .ok g)
    (hnv : 1 < f.nvdim) (vs : List String) (hvs : f.vdims = some vs) (l : String) (hl : l ∈ vs) :
    g.arr l = some (compVArr f vs l) := by
  obtain ⟨vs', hvs', _, _, h1, _, _⟩ := h.labels hnv
  rw [hvs] at hvs'; cases hvs'
  rw [toVtk_ok f nx ny nz h] at hg
  injection hg with hg
  subst hg
  simp only [Grid.arr]
  have hne : l ≠ "norm" := fun e => h1 (e ▸ hl)
  rw [List.find?_cons_of_neg (by simp [normVArr]; exact fun e => hne e.symm), List.find?_append]
  unfold comps
  simp only [hnv, if_true, hvs, Option.getD_some]
  rw [find_map_mk (compVArr f vs) (compVArr_name f vs) vs l hl]
  rfl

theorem indexOf_go_shift (xs : List String) (x : String) (k : Nat) :
    indexOf?.go x xs k = (indexOf?.go x xs 0).map (· + k) := by
  induction xs generalizing k with
  | nil => simp [indexOf?.go]
  | cons y ys ih =>
    simp only [indexOf?.go]
    split
    · simp
    · rw [ih (k + 1), ih (0 + 1)]
      simp [Option.map_map, Function.comp_def, Nat.add_comm, Nat.add_left_comm]

/-- `vdims.index(vdims[c]) = c` for distinct labels -/
theorem indexOf_getD (vs : List String) (hd : hasDup vs = false) (c : Nat) (hc : c < vs.length) :
    indexOf? vs (vs.getD c "") = some c := by
  induction vs generalizing c with
  | nil => simp at hc
  | cons v vs ih =>
    obtain ⟨hv, hd'⟩ := hasDup_cons_false v vs hd
    unfold indexOf?
    cases c with
    | zero => simp [indexOf?.go]
    | succ c =>
      have hc' : c < vs.length := by simpa using hc
      have hne : v ≠ vs.getD c "" := by
        intro e
        apply hv
        rw [e, List.getD_eq_getElem?_getD, List.getElem?_eq_getElem hc']
        simp
      simp only [List.getD_cons_succ, indexOf?.go, if_neg hne]
      rw [indexOf_go_shift]
      have := ih hd' c hc'
      unfold indexOf? at this
      rw [this]
      simp

/-! ## tuples at the structured id of a cell -/

theorem array4_shape (f : Fld) (nx ny nz : Nat) (hs : f.data.shape = [nx, ny, nz]) :
    (array4 f).shape = [nx, ny, nz, f.nvdim] := by
  simp [array4, hs]

theorem array4_get (f : Fld) (nx ny nz : Nat) (hs : f.data.shape = [nx, ny, nz]) (i j k c : Nat) :
    (array4 f).get [i, j, k, c] = (f.data.get [i, j, k]).getD c 0 := by
  simp [array4, hs]

theorem inRange3_cases (nx ny nz : Nat) (idx : List Nat) (hi : inRange [nx, ny, nz] idx = true) :
    ∃ i j k, idx = [i, j, k] ∧ i < nx ∧ j < ny ∧ k < nz := by
  have hl := inRange_length _ _ hi
  match idx, hl with
  | [i, j, k], _ =>
    simp only [inRange, Bool.and_eq_true, decide_eq_true_eq, Bool.and_true] at hi
    exact ⟨i, j, k, rfl, hi.1, hi.2.1, hi.2.2⟩

/-- the `field` tuple at the id of cell `idx` is the cell's vector -/
theorem field_tuple (f : Fld) (nx ny nz : Nat) (hs : f.data.shape = [nx, ny, nz]) (idx : List Nat)
    (hi : inRange [nx, ny, nz] idx = true) :
    (fieldVArr f).tuple (flatF [nx, ny, nz] idx) = tab f.nvdim fun c => (f.data.get idx).getD c 0 := by
  obtain ⟨i, j, k, rfl, _, _, _⟩ := inRange3_cases nx ny nz idx hi
  unfold VArr.tuple fieldVArr
  apply tab_congr
  intro c hc
  simp only
  rw [flat4_getD (array4 f) nx ny nz f.nvdim (array4_shape f nx ny nz hs) _ hi c hc]
  exact array4_get f nx ny nz hs i j k c

theorem norm_tuple (f : Fld) (nx ny nz : Nat) (hs : f.data.shape = [nx, ny, nz]) (idx : List Nat)
    (hi : inRange [nx, ny, nz] idx = true) :
    (normVArr f).tuple (flatF [nx, ny, nz] idx) = [sumSq (f.data.get idx) f.nvdim] := by
  obtain ⟨i, j, k, rfl, _, _, _⟩ := inRange3_cases nx ny nz idx hi
  unfold VArr.tuple normVArr
  simp only [tab, List.range_one, List.map_cons, List.map_nil, Nat.mul_one]
  have := flat4_getD (normSqArr f) nx ny nz 1 (by simp [normSqArr, hs]) _ hi 0 (by omega) 0
  simp only [Nat.mul_one] at this
  rw [this]
  simp [normSqArr, hs]

theorem comp_tuple (f : Fld) (nx ny nz : Nat) (hs : f.data.shape = [nx, ny, nz]) (vs : List String) (l : String)
    (idx : List Nat) (hi : inRange [nx, ny, nz] idx = true) :
    (compVArr f vs l).tuple (flatF [nx, ny, nz] idx) = [(f.data.get idx).getD ((indexOf? vs l).getD 0) 0] := by
  obtain ⟨i, j, k, rfl, _, _, _⟩ := inRange3_cases nx ny nz idx hi
  unfold VArr.tuple compVArr
  simp only [tab, List.range_one, List.map_cons, List.map_nil, Nat.mul_one]
  have := flat4_getD (compArr f ((indexOf? vs l).getD 0)) nx ny nz 1 (by simp [compArr, hs]) _ hi 0 (by omega) 0
  simp only [Nat.mul_one] at this
  rw [this]
  simp [compArr, hs, array4]

theorem valid_tuple (f : Fld) (nx ny nz : Nat) (hs : f.valid.shape = [nx, ny, nz]) (idx : List Nat)
    (hi : inRange [nx, ny, nz] idx = true) :
    (validVArr f).tuple (flatF [nx, ny, nz] idx) = [if f.valid.get idx then 1 else 0] := by
  unfold VArr.tuple validVArr
  simp only [tab, List.range_one, List.map_cons, List.map_nil, Nat.mul_one, Nat.add_zero]
  rw [flat3_getD (validInt f) nx ny nz (by simp [validInt, NDA.map, hs]) _ hi]
  rfl

end DFV.C16
