import DFV.Lemmas.C17Rebuild
/-! Rebuilding the mesh of an ARBITRARY DataArray with ANY subset of `cell` / `pmin` / `pmax`
present (each present attribute consistent with the coordinates): single-cell axes are
allowed exactly when `cell` is present. -/
namespace DFV.C17
open DFV

section
variable [FieldAttrs] {α : Type}

/-- which of the three geometric attributes are present, and that the present ones say what
the coordinates say (step `h`, half a step beyond the outermost coordinates) -/
structure AttrsConsistent (xa : XA α) (d : Nat) (v0 h : Nat → Rat) (n : Nat → Nat) : Prop where
  cell : xa.attrs.cell = none ∨ xa.attrs.cell = some (tab d h)
  pmin : xa.attrs.pmin = none ∨ xa.attrs.pmin = some (tab d fun a => v0 a - h a / 2)
  pmax : xa.attrs.pmax = none ∨ xa.attrs.pmax = some (tab d fun a => v0 a + ((n a : Rat) - 1) * h a + h a / 2)
  /-- without `cell` the step must be inferable: two coordinates per axis (and no length 1
  among `xa.values.shape[:-1]`) -/
  infer : xa.attrs.cell = none → (∀ a, a < d → 2 ≤ n a) ∧ ∀ x ∈ xa.data.shape.dropLast, x ≠ 1

omit [FieldAttrs] in
theorem geometry_from_coords_gen (xa : XA α) (d : Nat) (G : Nat → Axis) (hgeo : geo xa = tab d G) (hd : 0 < d)
    (v0 h : Nat → Rat) (n : Nat → Nat)
    (hval : ∀ a, a < d → (G a).values = ap (v0 a) (h a) (n a))
    (hh : ∀ a, a < d → 0 < h a) (hn : ∀ a, a < d → 1 ≤ n a)
    (hnames : hasDup (tab d fun a => (G a).name) = false)
    (hat : AttrsConsistent xa d v0 h n) :
    ∃ m, geometryOf xa = .ok m ∧
      m.region.pmin = (tab d fun a => v0 a - h a / 2) ∧
      m.region.pmax = (tab d fun a => v0 a + ((n a : Rat) - 1) * h a + h a / 2) ∧
      m.n = tab d n ∧ m.region.dims = (tab d fun a => (G a).name) ∧
      m.region.tol = xa.attrs.tol.getD defaultTol := by
  have hsp : checkSpacing xa = .ok () := by
    unfold checkSpacing
    rw [hgeo, all_tab_true]
    · rfl
    · intro a ha; rw [hval a ha]; exact evenB_ap _ _ _
  have hce : cellOf xa = .ok (tab d h) := by
    unfold cellOf
    rcases hat.cell with hcell | hcell
    · obtain ⟨hn2, hshape⟩ := hat.infer hcell
      rw [hcell]
      simp only []
      have h1 : xa.data.shape.dropLast.any (· == 1) = false := by
        rw [List.any_eq_false]
        intro x hx
        simpa using hshape x hx
      have h2 : (geo xa).any (fun a => decide (a.values.length ≤ 1)) = false := by
        rw [hgeo]
        apply any_tab_false
        intro a ha
        rw [hval a ha, ap_length]
        have := hn2 a ha
        simp; omega
      rw [h1, h2]
      simp only [Bool.false_eq_true, if_false]
      rw [hgeo, map_tab]
      congr 1
      apply tab_congr
      intro a ha
      rw [hval a ha]
      exact meanDiff_ap _ _ _ (hn2 a ha)
    · rw [hcell]
  have hz : (List.zip (geo xa) (tab d h)).any (fun p => p.1.values.isEmpty) = false := by
    rw [hgeo, zip_tab]
    apply any_tab_false
    intro a ha
    show (G a).values.isEmpty = false
    rw [hval a ha, List.isEmpty_eq_false_iff_exists_mem]
    exact ⟨_, getD_mem _ 0 0 (by rw [ap_length]; have := hn a ha; omega)⟩
  have hp1 : p1Of xa (tab d h) = .ok (tab d fun a => v0 a - h a / 2) := by
    unfold p1Of
    rcases hat.pmin with hpmin | hpmin
    · rw [hpmin]
      simp only []
      rw [hz]
      simp only [Bool.false_eq_true, if_false]
      rw [hgeo, zipWith_tab]
      congr 1
      apply tab_congr
      intro a ha
      rw [hval a ha, ap_first _ _ _ (hn a ha)]
    · rw [hpmin]
  have hp2 : p2Of xa (tab d h) = .ok (tab d fun a => v0 a + ((n a : Rat) - 1) * h a + h a / 2) := by
    unfold p2Of
    rcases hat.pmax with hpmax | hpmax
    · rw [hpmax]
      simp only []
      rw [hz]
      simp only [Bool.false_eq_true, if_false]
      rw [hgeo, zipWith_tab]
      congr 1
      apply tab_congr
      intro a ha
      rw [hval a ha, ap_last _ _ _ (hn a ha)]
    · rw [hpmax]
  obtain ⟨u, hu⟩ := unitsOf_ok xa d (by rw [hgeo]; simp)
  have hlt : ∀ a, a < d → v0 a - h a / 2 < v0 a + ((n a : Rat) - 1) * h a + h a / 2 := by
    intro a ha
    have h1 := hh a ha
    have h2 : (1 : Rat) ≤ (n a : Rat) := by exact_mod_cast hn a ha
    nlinarith
  have hreg := regionMk_ok (tab d fun a => v0 a - h a / 2)
    (tab d fun a => v0 a + ((n a : Rat) - 1) * h a + h a / 2) (tab d fun a => (G a).name) (unitsOf xa) u defaultTol
    (by simp) (by simpa using hd) (by simp) hnames (by simpa using hu)
    (by
      intro a ha
      have ha' : a < d := by simpa using ha
      rw [getD_tab _ _ _ _ ha', getD_tab _ _ _ _ ha']
      exact hlt a ha')
  have hnm : (geo xa).map Axis.name = tab d fun a => (G a).name := by rw [hgeo, map_tab]
  generalize hr : ({ pmin := tab d fun a => v0 a - h a / 2,
                     pmax := tab d fun a => v0 a + ((n a : Rat) - 1) * h a + h a / 2,
                     dims := tab d fun a => (G a).name, units := u, tol := defaultTol } : Region) = r at hreg
  have hnd : r.ndim = d := by subst hr; simp [Region.ndim]
  have hlo : ∀ a, a < d → r.lo a = v0 a - h a / 2 := by
    intro a ha; subst hr; exact getD_tab _ _ _ _ ha
  have hhi : ∀ a, a < d → r.hi a = v0 a + ((n a : Rat) - 1) * h a + h a / 2 := by
    intro a ha; subst hr; exact getD_tab _ _ _ _ ha
  have hk := mkCellNow_ok r (tab d n) (by simp [hnd])
    (by intro a ha; rw [hnd] at ha; rw [hlo a ha, hhi a ha]; exact hlt a ha)
    (by intro a ha; rw [hnd] at ha; rw [getD_tab _ _ _ _ ha]; have := hn a ha; omega)
  have hcl : (tab r.ndim fun a => r.edge a / ((tab d n).getD a 0 : Rat)) = tab d h := by
    rw [hnd]
    apply tab_congr
    intro a ha
    rw [getD_tab _ _ _ _ ha]
    unfold Region.edge
    rw [hlo a ha, hhi a ha]
    have : (n a : Rat) ≠ 0 := by
      have : (1 : Rat) ≤ (n a : Rat) := by exact_mod_cast hn a ha
      intro h0; linarith
    field_simp
    ring
  rw [hcl] at hk
  refine ⟨setTol { region := r, n := tab d n, bc := "", subs := [] } xa.attrs.tol, ?_, ?_, ?_, ?_, ?_, ?_⟩
  · unfold geometryOf meshOf
    rw [hsp, hce]
    simp only [Except.bind]
    rw [hp1, hp2]
    simp only []
    rw [hnm, hreg]
    simp only []
    rw [hk]
  all_goals (subst hr; cases ht : xa.attrs.tol <;> simp [setTol])

/-- the value/label part of `import_hand_built_ok`, for any mesh the geometry steps return -/
theorem import_of_geometry (xa : XA α) (d : Nat) (n : Nat → Nat) (m : Mesh) (hm : geometryOf xa = .ok m)
    (hmn : m.n = tab d n)
    (k : Nat) (hk : 1 ≤ k) (hnv : xa.attrs.nvdim = some (.int k)) (hvd : 1 < k → "vdims" ∈ xa.dims)
    (hshape : xa.data.shape = tab d n ++ (if 1 < k then [k] else []))
    (hlab : ∀ l, xa.vdimsCoord = some l → l.length = k ∧ hasDup l = false ∧ l.any FieldAttrs.has = false) :
    ∃ g, fromXA xa = .ok g ∧ g.mesh = m ∧ g.nvdim = k ∧
      g.data.shape = tab d n ++ [k] ∧
      (∀ i, inRange (tab d n ++ [k]) i = true → g.data.get i = xa.data.get (if 1 < k then i else i.dropLast)) ∧
      g.dtype = xa.dtype ∧
      g.vdims = (match xa.vdimsCoord with | some l => some l | none => Fld.defaultVdims k) := by
  have hck : checkNvdim xa.attrs.nvdim xa.dims = .ok k := by
    rw [hnv]
    unfold checkNvdim
    have h1 : ¬ ((k : Int) < 1) := by omega
    have h2 : ¬ (1 < (k : Int) ∧ ¬ xa.dims.contains "vdims" = true) := by
      rintro ⟨h3, h4⟩
      exact h4 (List.contains_iff_mem.mpr (hvd (by omega)))
    simp only [h1, h2, if_false, Int.toNat_natCast]
  have hvs : (valOf xa k).shape = m.n ++ [k] := by
    unfold valOf
    by_cases h1 : k = 1
    · have h2 : ¬ (1 < k) := by omega
      simp only [h1, if_true]
      show xa.data.shape ++ [1] = _
      rw [hshape, hmn, h1]; simp
    · have h2 : 1 < k := by omega
      simp only [h1, if_false]
      rw [hshape, hmn]; simp only [h2, if_true]
  have hvset : vdimsSet k xa.vdimsCoord
      = .ok (match xa.vdimsCoord with | some l => some l | none => Fld.defaultVdims k) := by
    cases hv : xa.vdimsCoord with
    | none => rfl
    | some l =>
      obtain ⟨hl, hdup, hres⟩ := hlab l hv
      cases l with
      | nil => simp at hl; omega
      | cons x l' =>
        unfold vdimsSet
        simp only [hl, ne_eq, not_true_eq_false, if_false, hdup, hres, Bool.false_eq_true]
  obtain ⟨g, hg, hgm, hgk, hga, hgv, hgt⟩ := fieldOf_ok xa m k hvs _ hvset
  refine ⟨g, ?_, hgm, hgk, by rw [hga.1, hvs, hmn], ?_, hgt, hgv⟩
  · rw [fromXA_eq, hck]
    simp only [Except.bind]
    rw [hm]
    exact hg
  · intro i hi
    rw [hga.2 i (by rw [hga.1, hvs, hmn]; exact hi)]
    unfold valOf
    by_cases h1 : k = 1
    · subst h1
      simp
    · have h2 : 1 < k := by omega
      simp only [h1, if_false, h2, if_true]

end
end DFV.C17
