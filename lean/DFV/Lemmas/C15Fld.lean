import DFV.Lemmas.C15
import DFV.Lemmas.Tab
/-!
Field-level unfolding lemmas for C15: what a successful `setNorm`, `setValid`,
`updateValues`, `mk?` returns, and what `_as_array(·, nvdim=1)` yields per cell for each
kind of norm specification.
-/
namespace DFV.C15
open DFV

/-- the field `Field.__init__` starts from before values, norm and validity are set -/
def blank (m : Mesh) (nvdim : Nat) (unit : Option String) : Fld :=
  { mesh := m, nvdim := nvdim, data := ⟨m.n, fun _ => []⟩, valid := ⟨m.n, fun _ => true⟩,
    vdims := none, vmap := [], unit := unit }

theorem asArray1_const (m : Mesh) (c : Rat) : asArray1 m (.const c) = .ok ⟨m.n, fun _ => c⟩ := rfl

theorem asArray1_fn (m : Mesh) (g : List Rat → Rat) :
    asArray1 m (.fn g) = .ok ⟨m.n, fun i => g (m.centre i)⟩ := rfl

theorem bcastArr_same {α : Type} (m : Mesh) (a : NDA α) (h : a.shape = m.n) :
    bcastArr m a = .ok ⟨m.n, a.get⟩ := by
  simp [bcastArr, h]

theorem asArray1_arr (m : Mesh) (a : NDA Rat) (h : a.shape = m.n) :
    asArray1 m (.arr a) = .ok ⟨m.n, a.get⟩ := bcastArr_same m a h

theorem bcastOk_self (s : List Nat) : bcastOk s s = true := by
  unfold bcastOk
  simp only [Nat.le_refl, decide_true, Bool.true_and, Nat.sub_self, Nat.add_zero]
  rw [allLt_iff]; intro a _; simp

theorem bcastIdx_self (s j : List Nat) (hl : j.length = s.length)
    (hr : ∀ k, k < s.length → j.getD k 0 < s.getD k 0) : bcastIdx s s j = j := by
  unfold bcastIdx
  symm
  apply eq_tab_of_getD j s.length _ 0 hl
  intro k hk
  simp only [Nat.sub_self, Nat.add_zero]
  split
  · rename_i h1; have := hr k hk; omega
  · rfl

/-- an array-like with an explicit trailing component axis, shape `(*mesh.n, 1)` -/
theorem bcastArr_col {α : Type} (m : Mesh) (a : NDA α) (h : a.shape = m.n ++ [1]) :
    ∃ t, bcastArr m a = .ok t ∧ t.shape = m.n ∧
      ∀ i : List Nat, i.length = m.n.length → (∀ k, k < m.n.length → i.getD k 0 < m.n.getD k 0) →
        t.get i = a.get (i ++ [0]) := by
  have hne : ¬ (m.n ++ [1] = m.n) := by
    intro e; have := congrArg List.length e; simp at this
  refine ⟨⟨m.n, fun i => a.get (bcastIdx a.shape (m.n ++ [1]) (i ++ [0]))⟩, ?_, rfl, ?_⟩
  · unfold bcastArr
    simp [h, hne, bcastOk_self]
  · intro i hl hr
    show a.get (bcastIdx a.shape (m.n ++ [1]) (i ++ [0])) = a.get (i ++ [0])
    rw [h, bcastIdx_self]
    · simp [hl]
    · intro k hk
      simp only [List.length_append, List.length_cons, List.length_nil] at hk
      by_cases hk' : k < m.n.length
      · have := hr k hk'
        simp only [List.getD_eq_getElem?_getD] at this ⊢
        rw [List.getElem?_append_left (by omega), List.getElem?_append_left hk']
        exact this
      · have : k = m.n.length := by omega
        subst this
        simp only [List.getD_eq_getElem?_getD]
        rw [List.getElem?_append_right (by omega), List.getElem?_append_right (by omega)]
        simp [hl]

theorem setNorm_none (sqrt : Rat → Rat) (f : Fld) : setNorm sqrt f none = .ok f := rfl

theorem setNorm_some_ok {sqrt : Rat → Rat} {f g : Fld} {s : NSpec}
    (h : setNorm sqrt f (some s) = .ok g) :
    ∃ t, asArray1 f.mesh s = .ok t ∧
      g = { f with data := ⟨f.mesh.n, fun i => setCell sqrt (f.data.get i) (t.get i)⟩ } := by
  simp only [setNorm] at h
  cases ht : asArray1 f.mesh s with
  | error e => rw [ht] at h; cases h
  | ok t =>
    rw [ht] at h
    simp only [Except.ok.injEq] at h
    exact ⟨t, rfl, h.symm⟩

theorem setNorm_of_target {sqrt : Rat → Rat} {f : Fld} {s : NSpec} {t : NDA Rat}
    (ht : asArray1 f.mesh s = .ok t) :
    setNorm sqrt f (some s) =
      .ok { f with data := ⟨f.mesh.n, fun i => setCell sqrt (f.data.get i) (t.get i)⟩ } := by
  simp only [setNorm, ht]

theorem setValid_ok {sqrt : Rat → Rat} {atol : Rat} {f g : Fld} {s : ValidSpec}
    (h : setValid sqrt atol f s = .ok g) :
    ∃ v, validOf sqrt atol f s = .ok v ∧ g = { f with valid := v } := by
  unfold setValid at h
  cases hv : validOf sqrt atol f s with
  | error e => rw [hv] at h; cases h
  | ok v =>
    rw [hv] at h
    simp only [Except.ok.injEq] at h
    exact ⟨v, rfl, h.symm⟩

theorem updateValues_ok {f g : Fld} {s : VSpec} (h : updateValues f s = .ok g) :
    ∃ a, valuesOf f.mesh f.nvdim s = .ok a ∧ g = { f with data := a } := by
  unfold updateValues at h
  cases hv : valuesOf f.mesh f.nvdim s with
  | error e => rw [hv] at h; cases h
  | ok a =>
    rw [hv] at h
    simp only [Except.ok.injEq] at h
    exact ⟨a, rfl, h.symm⟩

/-- anatomy of a successful constructor call: values, then norm, then validity -/
theorem mk_ok {sqrt : Rat → Rat} {atol : Rat} {m : Mesh} {nvdim : Nat} {value : VSpec}
    {nrm : Option NSpec} {valid : ValidSpec} {unit : Option String} {g : Fld}
    (h : mk? sqrt atol m nvdim value nrm valid unit = .ok g) :
    1 ≤ nvdim ∧ ∃ a, valuesOf m nvdim value = .ok a ∧
      ∃ f1, setNorm sqrt { blank m nvdim unit with data := a } nrm = .ok f1 ∧
        ∃ vd, validOf sqrt atol f1 valid = .ok vd ∧
          g = { f1 with valid := vd, vdims := Fld.defaultVdims nvdim,
                        vmap := defaultVmap nvdim m.region.dims } := by
  unfold mk? at h
  split at h
  · cases h
  · rename_i hn
    refine ⟨by omega, ?_⟩
    split at h
    · cases h
    · rename_i f0 h0
      obtain ⟨a, ha, rfl⟩ := updateValues_ok h0
      refine ⟨a, ha, ?_⟩
      split at h
      · cases h
      · rename_i f1 h1
        refine ⟨f1, h1, ?_⟩
        split at h
        · cases h
        · rename_i f2 h2
          obtain ⟨vd, hvd, rfl⟩ := setValid_ok h2
          simp only [Except.ok.injEq] at h
          exact ⟨vd, hvd, h.symm⟩

end DFV.C15
