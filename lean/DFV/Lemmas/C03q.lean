import DFV.Lemmas.C03p
/-! C03 helper lemmas, part q: the invariant of every evaluation result — labels and
mapping are in the state a constructor leaves (`MetaStable`) — by induction over arbitrary
expression trees (no typing restriction). -/
namespace DFV.C03
open DFV

/-- labels/mapping in constructor state, on a mesh whose region names all its axes -/
def Inv (g : CF) : Prop := MetaStable g ∧ g.mesh.region.dims.length = g.mesh.region.ndim

theorem MetaStable.ne_nil {f : CF} (hs : MetaStable f) : f.vdims ≠ some [] := by
  intro h
  have := hs.1
  rw [h] at this
  simp only [vdimsSet] at this
  injection this with this
  cases this

theorem fixVdims_ne_nil (vd : Option (List String)) (m : Nat) (h : vd ≠ some []) : fixVdims vd m ≠ some [] := by
  unfold fixVdims
  cases vd with
  | none => simp
  | some l =>
    simp only
    split
    · simp
    · exact h

theorem mkField_inv (mesh : Mesh) (nv : Nat) (val : Value) (kind : Kind) (vd : Option (List String))
    (valid : Option (NDA Bool)) (vm : Option VMap) (unit : Option String) (g : CF)
    (hdims : mesh.region.dims.length = mesh.region.ndim) (hne : vd ≠ some [])
    (h : mkField mesh nv val kind vd valid vm unit = .ok g) : Inv g := by
  refine ⟨mkField_stable mesh nv val kind vd valid vm unit g hdims hne h, ?_⟩
  rw [(mkField_ok _ _ _ _ _ _ _ _ _ h).1]
  exact hdims

theorem applyOperator_inv (fn : GQ → GQ → GQ) (pw : Bool) (f : CF) (v : Val) (g : CF)
    (hf : Inv f) (hv : ∀ o, v = .fld o → Inv o) (h : applyOperator fn pw f v = .ok g) : Inv g := by
  cases v with
  | fld o =>
    simp only [applyOperator] at h
    split at h
    · cases h
    · split at h
      · cases h
      · split at h
        · cases h
        · refine mkField_inv _ _ _ _ _ _ _ _ g hf.2 (fixVdims_ne_nil _ _ ?_) h
          split
          · exact (hv o rfl).1.ne_nil
          · exact hf.1.ne_nil
  | raw od =>
    cases od with
    | num z k np =>
      simp only [applyOperator] at h
      split at h
      · cases h
      · split at h
        · cases h
        · exact mkField_inv _ _ _ _ _ _ _ _ g hf.2 (fixVdims_ne_nil _ _ hf.1.ne_nil) h
    | arr a k np =>
      simp only [applyOperator] at h
      split at h
      · cases h
      · split at h
        · cases h
        · split at h
          · cases h
          · split at h
            · cases h
            · exact mkField_inv _ _ _ _ _ _ _ _ g hf.2 (fixVdims_ne_nil _ _ hf.1.ne_nil) h

theorem mapField_inv (fn : GQ → GQ) (rk : Kind → Kind) (keepUnit : Bool) (f g : CF) (hf : Inv f)
    (h : mapField fn rk keepUnit f = .ok g) : Inv g :=
  mkField_inv _ _ _ _ _ _ _ _ g hf.2 hf.1.ne_nil h

theorem ufuncWrap_inv (self : CF) (res : NDA GQ) (k : Kind) (valid : NDA Bool) (g : CF) (hf : Inv self)
    (h : ufuncWrap self res k valid = .ok g) : Inv g :=
  mkField_inv _ _ _ _ _ _ _ _ g hf.2 hf.1.ne_nil (ufuncWrap_ok _ _ _ _ _ h).2

theorem ufunc1_inv (fn : GQ → GQ) (rk : Kind → Kind) (f g : CF) (hf : Inv f) (h : ufunc1 fn rk f = .ok g) : Inv g := by
  unfold ufunc1 at h
  split at h
  · cases h
  · exact ufuncWrap_inv _ _ _ _ g hf h

theorem ufunc2_inv (fn : GQ → GQ → GQ) (pw : Bool) (l r : Val) (g : CF)
    (hl : ∀ o, l = .fld o → Inv o) (hr : ∀ o, r = .fld o → Inv o) (h : ufunc2 fn pw l r = .ok g) : Inv g := by
  unfold ufunc2 at h
  cases hs : firstFld l r with
  | none => simp [hs] at h
  | some self =>
    have hself : Inv self := by
      rcases firstFld_some l r self hs with h1 | h1
      · exact hl self h1
      · exact hr self h1
    simp only [hs] at h
    split at h
    · cases h
    · split at h
      · cases h
      · split at h
        · cases h
        · split at h
          · cases h
          · split at h
            · cases h
            · split at h
              · cases h
              · exact ufuncWrap_inv _ _ _ _ g hself h

theorem dotOp_inv (f : CF) (v : Val) (g : CF) (hf : Inv f) (h : dotOp f v = .ok g) : Inv g := by
  cases v with
  | fld o =>
    simp only [dotOp] at h
    split at h
    · cases h
    · split at h
      · cases h
      · exact mkField_inv _ _ _ _ _ _ _ _ g hf.2 (by simp) h
  | raw od =>
    cases od with
    | num z k np => simp [dotOp] at h
    | arr a k np =>
      simp only [dotOp] at h
      split at h
      · cases h
      · exact mkField_inv _ _ _ _ _ _ _ _ g hf.2 (by simp) h

theorem crossOp_inv (f : CF) (v : Val) (g : CF) (hf : Inv f) (h : crossOp f v = .ok g) : Inv g := by
  cases v with
  | fld o =>
    simp only [crossOp] at h
    split at h
    · cases h
    · split at h
      · cases h
      · split at h
        · cases h
        · exact mkField_inv _ _ _ _ _ _ _ _ g hf.2 hf.1.ne_nil h
  | raw od =>
    cases od with
    | num z k np => simp [crossOp] at h
    | arr a k np =>
      simp only [crossOp] at h
      split at h
      · cases h
      · exact mkField_inv _ _ _ _ _ _ _ _ g hf.2 hf.1.ne_nil h

theorem shlFF_inv (f o g : CF) (hf : Inv f) (h : shlFF f o = .ok g) : Inv g := by
  unfold shlFF at h
  split at h
  · cases h
  · split at h
    · cases h
    · refine mkField_inv _ _ _ _ _ _ _ _ g hf.2 ?_ h
      split
      · rename_i a b ha hb
        split
        · simp
        · intro hab
          injection hab with hab
          have : a = [] := (List.append_eq_nil_iff.mp hab).1
          subst this
          exact hf.1.ne_nil ha
      · simp

theorem liftOpd_inv (mesh : Mesh) (od : Opd) (g : CF) (hd : mesh.region.dims.length = mesh.region.ndim)
    (h : liftOpd mesh od = .ok g) : Inv g ∧ g.mesh = mesh := by
  cases od with
  | num z k np =>
    simp only [liftOpd] at h
    exact ⟨mkField_inv _ _ _ _ _ _ _ _ g hd (by simp) h, (mkField_ok _ _ _ _ _ _ _ _ _ h).1⟩
  | arr a k np =>
    simp only [liftOpd] at h
    split at h
    · cases h
    · exact ⟨mkField_inv _ _ _ _ _ _ _ _ g hd (by simp) h, (mkField_ok _ _ _ _ _ _ _ _ _ h).1⟩

theorem shlOp_inv (f : CF) (v : Val) (g : CF) (hf : Inv f) (h : shlOp f v = .ok g) : Inv g := by
  cases v with
  | fld o => exact shlFF_inv f o g hf h
  | raw od =>
    simp only [shlOp] at h
    split at h
    · cases h
    · exact shlFF_inv f _ g hf h

theorem angleOp_inv (sq acos : Rat → Rat) (f : CF) (v : Val) (g : CF) (hf : Inv f)
    (h : angleOp sq acos f v = .ok g) : Inv g := by
  unfold angleOp at h
  split at h
  · cases h
  · split at h
    · cases h
    · split at h
      · cases h
      · split at h
        · cases h
        · split at h
          · cases h
          · split at h
            · cases h
            · exact mkField_inv _ _ _ _ _ _ _ _ g hf.2 (by simp) h

theorem applyUn_inv (env : Env) (u : UnOp) (f g : CF) (hf : Inv f) (h : applyUn env u f = .ok g) : Inv g := by
  cases u <;> simp only [applyUn] at h
  case pos => injection h with h; subst h; exact hf
  case neg => exact mapField_inv _ _ _ f g hf h
  case abs => exact mapField_inv _ _ _ f g hf h
  case real => exact mapField_inv _ _ _ f g hf h
  case imag => exact mapField_inv _ _ _ f g hf h
  case conj => exact mapField_inv _ _ _ f g hf h
  case absP => exact mapField_inv _ _ _ f g hf h
  case phase => exact mapField_inv _ _ _ f g hf h
  case unegative => exact ufunc1_inv _ _ f g hf h
  case upositive => exact ufunc1_inv _ _ f g hf h
  case uabsolute => exact ufunc1_inv _ _ f g hf h
  case usquare => exact ufunc1_inv _ _ f g hf h
  case uconjugate => exact ufunc1_inv _ _ f g hf h
  case usign => exact ufunc1_inv _ _ f g hf h

theorem forwardOp_inv (env : Env) (b : BinOp) (f : CF) (v : Val) (g : CF) (hf : Inv f)
    (hv : ∀ o, v = .fld o → Inv o) (h : forwardOp env b f v = .ok g) : Inv g := by
  cases b <;> simp only [forwardOp] at h
  case add => exact applyOperator_inv _ _ f v g hf hv h
  case sub => exact applyOperator_inv _ _ f v g hf hv h
  case mul => exact applyOperator_inv _ _ f v g hf hv h
  case div => exact applyOperator_inv _ _ f v g hf hv h
  case pow => exact applyOperator_inv _ _ f v g hf hv h
  case dot => exact dotOp_inv f v g hf h
  case cross => exact crossOp_inv f v g hf h
  case shl => exact shlOp_inv f v g hf h
  case angle => exact angleOp_inv _ _ f v g hf h
  all_goals cases h

theorem reflectedOp_inv (b : BinOp) (od : Opd) (f g : CF) (hf : Inv f) (h : reflectedOp b od f = .ok g) : Inv g := by
  have hraw : ∀ o, Val.raw od = .fld o → Inv o := by intro o ho; cases ho
  cases b <;> simp only [reflectedOp] at h
  case add => exact applyOperator_inv _ _ f _ g hf hraw h
  case mul => exact applyOperator_inv _ _ f _ g hf hraw h
  case div => exact applyOperator_inv _ _ f _ g hf hraw h
  case sub =>
    split at h
    · cases h
    · rename_i g0 h0
      exact applyOperator_inv _ _ g0 _ g (mapField_inv _ _ _ f g0 hf h0) hraw h
  case dot => exact dotOp_inv f _ g hf h
  case cross =>
    split at h
    · cases h
    · rename_i g0 h0
      exact mapField_inv _ _ _ g0 g (crossOp_inv f _ g0 hf h0) h
  case shl =>
    split at h
    · cases h
    · rename_i g0 h0
      obtain ⟨hi, _⟩ := liftOpd_inv f.mesh od g0 hf.2 h0
      exact shlFF_inv g0 f g hi h
  all_goals cases h

theorem applyBin_inv (env : Env) (b : BinOp) (l r : Val) (g : CF)
    (hl : ∀ o, l = .fld o → Inv o) (hr : ∀ o, r = .fld o → Inv o)
    (h : applyBin env b l r = .ok (.fld g)) : Inv g := by
  by_cases hu : isUfuncBin b = true
  · have h' : ufunc2 (binFn b) (isPow b) l r = .ok g := by
      cases b <;> simp [isUfuncBin] at hu <;> simp only [applyBin] at h <;> exact wrap_ok h
    exact ufunc2_inv _ _ l r g hl hr h'
  · cases l with
    | fld f =>
      have h' : forwardOp env b f r = .ok g := by
        cases b <;> simp [isUfuncBin] at hu <;> simp only [applyBin] at h <;> exact wrap_ok h
      exact forwardOp_inv env b f r g (hl f rfl) hr h'
    | raw od =>
      cases r with
      | raw o2 => cases b <;> simp [isUfuncBin] at hu <;> simp [applyBin] at h
      | fld f =>
        by_cases hnp : isNp od = true
        · cases b <;> simp [isUfuncBin] at hu <;> simp only [applyBin, hnp, if_true] at h
          case add => exact ufunc2_inv _ _ _ _ g hl hr (wrap_ok h)
          case sub => exact ufunc2_inv _ _ _ _ g hl hr (wrap_ok h)
          case mul => exact ufunc2_inv _ _ _ _ g hl hr (wrap_ok h)
          case div => exact ufunc2_inv _ _ _ _ g hl hr (wrap_ok h)
          case pow => exact ufunc2_inv _ _ _ _ g hl hr (wrap_ok h)
          all_goals cases h
        · have hnp' : isNp od = false := by simpa using hnp
          have h' : reflectedOp b od f = .ok g := by
            cases b <;> simp [isUfuncBin] at hu <;>
              simp only [applyBin, hnp', Bool.false_eq_true, if_false] at h <;> exact wrap_ok h
          exact reflectedOp_inv b od f g (hr f rfl) h'

/-- **invariant of every evaluation result** (induction over arbitrary expression trees): if
the leaves carry constructor-state labels and mappings, so does the value of every
accepted expression -/
theorem evalF_inv (env : Env) (hleaf : ∀ f ∈ env.fields, Inv f) :
    ∀ (e : Expr) (g : CF), evalF env e = .ok (.fld g) → Inv g := by
  intro e
  induction e with
  | leaf k =>
    intro g h
    simp only [evalF] at h
    split at h
    · rename_i f hk
      injection h with h; injection h with h; subst h
      exact hleaf f (List.mem_of_getElem? hk)
    · cases h
  | opd o => intro g h; simp only [evalF] at h; injection h with h; cases h
  | un u e ih =>
    intro g h
    simp only [evalF] at h
    split at h
    · cases h
    · cases h
    · rename_i f hf
      split at h
      · cases h
      · rename_i g' hu
        injection h with h; injection h with h; subst h
        exact applyUn_inv env u f g' (ih f hf) hu
  | bin b l r ihl ihr =>
    intro g h
    simp only [evalF] at h
    split at h
    · cases h
    · rename_i vl hl
      split at h
      · cases h
      · rename_i vr hr
        exact applyBin_inv env b vl vr g (fun o ho => ihl o (by rw [hl, ho])) (fun o ho => ihr o (by rw [hr, ho])) h

end DFV.C03
