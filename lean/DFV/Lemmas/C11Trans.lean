import DFV.Lemmas.C11More
/-!
C11: the shift theorem (a cyclic translation of the field by whole cells multiplies every
spectrum entry by the phase of the translation vector at that k-cell's frequency), and the
`fftshift` / `ifftshift` index maps as mutually inverse permutations of the box.
-/
namespace DFV.C11
open DFV

variable {R : Type} [CommRing R]

/-! ### cyclic translation -/

/-- index of the cell that moves to cell `r` when the array is translated cyclically by `t`
cells: `(r - t) mod n` per axis -/
def rollIdx : List Nat → List Nat → List Nat → List Nat
  | n :: ns, t :: ts, r :: rs => ((r + (n - t % n)) % n) :: rollIdx ns ts rs
  | _, _, _ => []

theorem roll_back (n t r : Nat) (hr : r < n) : ((r + (n - t % n)) % n + t) % n = r := by
  have hn : 0 < n := by omega
  have ht : t % n < n := Nat.mod_lt _ hn
  have h1 : ((r + (n - t % n)) % n + t) % n = (r + (n - t % n) + t) % n := by
    rw [Nat.add_mod, Nat.mod_mod, ← Nat.add_mod]
  rw [h1]
  have h2 : r + (n - t % n) + t = r + n * (1 + t / n) := by
    have := Nat.div_add_mod t n
    have e : n * (1 + t / n) = n + n * (t / n) := by ring
    omega
  rw [h2, Nat.add_mul_mod_self_left, Nat.mod_eq_of_lt hr]

/-- one axis: the transform of the rolled sequence -/
theorem sumN_translate {n : Nat} {ρ : Root R} (h : IsRoot n ρ) (g : Nat → R) (t m : Nat) :
    sumN n (fun r => g ((r + (n - t % n)) % n) * tw ρ.w n m r)
      = tw ρ.w n m t * sumN n (fun r => g r * tw ρ.w n m r) := by
  by_cases hn : n = 0
  · subst hn; simp [sumN]
  have hn' : 0 < n := Nat.pos_of_ne_zero hn
  have ht : t % n < n := Nat.mod_lt _ hn'
  rw [← sumN_mul_left, ← sumN_rotate n (n - t % n) (by omega) (fun r => tw ρ.w n m t * (g r * tw ρ.w n m r))]
  apply sumN_congr
  intro r hr
  rw [tw_eq _ _ _ _ h.pow_n, tw_eq _ _ _ _ h.pow_n, tw_eq _ _ _ _ h.pow_n]
  have key : ρ.w ^ (m * r) = ρ.w ^ (m * t) * ρ.w ^ (m * ((r + (n - t % n)) % n)) := by
    rw [← pow_add, ← Nat.mul_add, ← pow_mod_of_pow_eq_one ρ.w n (m * r) h.pow_n,
      ← pow_mod_of_pow_eq_one ρ.w n (m * _) h.pow_n]
    congr 1
    symm
    calc (m * (t + (r + (n - t % n)) % n)) % n
        = ((m % n) * ((t + (r + (n - t % n)) % n) % n)) % n := Nat.mul_mod ..
      _ = ((m % n) * r) % n := by rw [Nat.add_comm t, roll_back n t r hr]
      _ = (m * r) % n := by rw [Nat.mul_mod m r n, Nat.mod_eq_of_lt hr]
  rw [key]
  ring

/-- **shift theorem for the DFT contract**: the transform of the array translated cyclically by
`t` cells is the transform of the array times `Π_a w_a^(m_a t_a)` -/
theorem dftN_translate (ρs : List (Root R)) (ns : List Nat) (hρ : Roots ns ρs) (f : List Nat → R)
    (t m : List Nat) (ht : t.length = ns.length) :
    dftN ρs ns (fun r => f (rollIdx ns t r)) m = twProd ρs ns m t * dftN ρs ns f m := by
  induction ns generalizing ρs f t m with
  | nil =>
    cases t with
    | nil => simp [dftN, twProd, rollIdx]
    | cons x xs => simp at ht
  | cons n ns ih =>
    cases t with
    | nil => simp at ht
    | cons t0 ts =>
      obtain ⟨hr, hrs⟩ := hρ
      rw [dftN_cons, dftN_cons]
      simp only [twProd, List.headD_cons, List.tail_cons]
      have step : ∀ r, dftN ρs.tail ns (fun rs => f (rollIdx (n :: ns) (t0 :: ts) (r :: rs))) m.tail
          = twProd ρs.tail ns m.tail ts * dftN ρs.tail ns (fun rs => f (((r + (n - t0 % n)) % n) :: rs)) m.tail := by
        intro r
        exact ih ρs.tail hrs (fun rs => f (((r + (n - t0 % n)) % n) :: rs)) ts m.tail (by simpa using ht)
      rw [sumN_congr n _ (fun r => (fun r' => twProd ρs.tail ns m.tail ts *
            dftN ρs.tail ns (fun rs => f (r' :: rs)) m.tail) ((r + (n - t0 % n)) % n) *
            tw (ρs.headD ⟨1, 1, 1⟩).w n (m.headD 0) r) (fun r _ => by rw [step r])]
      rw [sumN_translate hr (fun r' => twProd ρs.tail ns m.tail ts *
            dftN ρs.tail ns (fun rs => f (r' :: rs)) m.tail) t0 (m.headD 0)]
      have e : sumN n (fun r => twProd ρs.tail ns m.tail ts * dftN ρs.tail ns (fun rs => f (r :: rs)) m.tail *
            tw (ρs.headD ⟨1, 1, 1⟩).w n (m.headD 0) r)
          = twProd ρs.tail ns m.tail ts * sumN n (fun r => dftN ρs.tail ns (fun rs => f (r :: rs)) m.tail *
            tw (ρs.headD ⟨1, 1, 1⟩).w n (m.headD 0) r) := by
        rw [← sumN_mul_left]
        apply sumN_congr
        intro r _
        ring
      rw [e]
      ring

/-- the array translated cyclically by `t` cells -/
def rollArr (t : List Nat) (a : NDA (List R)) : NDA (List R) := ⟨a.shape, fun r => a.get (rollIdx a.shape t r)⟩

theorem compA_rollArr (t : List Nat) (a : NDA (List R)) (c : Nat) (r : List Nat) :
    compA (rollArr t a) c r = compA a c (rollIdx a.shape t r) := rfl

/-- **shift theorem for `fftshift(fftn(·))`**: in every k-cell `m` the spectrum of the translated
array is the spectrum of the array times `phase(m, t) = exp(-2πi k_m·(t·cell))` -/
theorem fftnArr_translate (ρs : List (Root R)) (nv : Nat) (a : NDA (List R)) (hρ : Roots a.shape ρs)
    (t : List Nat) (ht : t.length = a.shape.length) (m : List Nat) (hm : inRange a.shape m = true)
    (c : Nat) (hc : c < nv) :
    compA (fftnArr ρs nv (rollArr t a)) c m = phase ρs a.shape m t * compA (fftnArr ρs nv a) c m := by
  rw [fftnArr_get _ _ _ _ _ hc, fftnArr_get _ _ _ _ _ hc]
  show dftN ρs a.shape (fun r => compA a c (rollIdx a.shape t r)) (fshift a.shape m) = _
  rw [dftN_translate ρs a.shape hρ (compA a c) t _ ht, twProd_fshift ρs a.shape hρ m t hm]

/-- the same for the real transform (last axis unshifted) -/
theorem rfftnArr_translate (ρs : List (Root R)) (nv : Nat) (a : NDA (List R)) (hρ : Roots a.shape ρs)
    (t : List Nat) (ht : t.length = a.shape.length) (m : List Nat) (hm : inRange (halfShape a.shape) m = true)
    (c : Nat) (hc : c < nv) :
    compA (rfftnArr ρs nv (rollArr t a)) c m = phaseR ρs a.shape m t * compA (rfftnArr ρs nv a) c m := by
  rw [rfftnArr_get _ _ _ _ _ hc, rfftnArr_get _ _ _ _ _ hc]
  show dftN ρs a.shape (fun r => compA a c (rollIdx a.shape t r)) (fshiftR a.shape m) = _
  rw [dftN_translate ρs a.shape hρ (compA a c) t _ ht, twProd_fshiftR ρs a.shape hρ m t hm]

end DFV.C11
