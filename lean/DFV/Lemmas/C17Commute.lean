import DFV.Lemmas.C17Wf
/-! Export after an in-place change of the mesh: the exported coordinates move with the mesh
(translation: by the vector; scaling: affinely about the reference point, order reversed for a
negative factor).  Plus small inversion lemmas used by `Props/C17.lean`. -/
namespace DFV.C17
open DFV

section
variable [FieldAttrs] {α : Type}

omit [FieldAttrs] in
theorem meshStep_translate_eq (f : XFld α) (v : List Rat) (m' ret : Mesh)
    (h : T.stepM f.mesh (.translate v true) = .ok (m', ret)) :
    f.meshStep (.translate v) = { f with mesh := m' } := by
  simp only [XFld.meshStep, MeshOp.toOp, h]

omit [FieldAttrs] in
theorem meshStep_scale_eq (f : XFld α) (s : T.Factor) (ref : Option (List Rat)) (m' ret : Mesh)
    (h : T.stepM f.mesh (.scale s ref true) = .ok (m', ret)) :
    f.meshStep (.scale s ref) = { f with mesh := m' } := by
  simp only [XFld.meshStep, MeshOp.toOp, h]

omit [FieldAttrs] in
theorem meshStep_rejected (f : XFld α) (op : MeshOp) (e : Err) (h : T.stepM f.mesh op.toOp = .error e) :
    f.meshStep op = f := by
  simp only [XFld.meshStep, h]

/-- the coordinate values of geometric axis `a` of an export -/
theorem exported_values (f : XFld α) (hf : f.WF) (nm : String) (u : PyArg) (a : Nat) (ha : a < f.mesh.ndim) :
    ((exported f nm u).axes.getD a default).values = tab (f.mesh.nAt a) fun j => f.mesh.centreAx a (j : Int) := by
  rw [exported_axis f hf nm u a ha]
  rfl

theorem exported_values_getD (f : XFld α) (hf : f.WF) (nm : String) (u : PyArg) (a : Nat) (ha : a < f.mesh.ndim)
    (j : Nat) (hj : j < f.mesh.nAt a) :
    ((exported f nm u).axes.getD a default).values.getD j 0 = f.mesh.centreAx a (j : Int) := by
  rw [exported_values f hf nm u a ha, getD_tab _ _ _ _ hj]

omit [FieldAttrs] in
/-- `Mesh(region, n)`, when it succeeds, returns a well-formed mesh on a well-formed region -/
theorem mkN_inv (r : Region) (hr : r.Inv) (n : List Nat) (bc : String) (m : Mesh) (h : Mesh.mkN? r n bc = .ok m) :
    m.Inv ∧ m.region = r ∧ m.n = n := by
  unfold Mesh.mkN? at h
  split at h
  · cases h
  · next h1 =>
    split at h
    · cases h
    · next h2 =>
      split at h
      · cases h
      · injection h with h
        subst h
        have hl : n.length = r.ndim := by simpa using h1
        refine ⟨⟨hr, hl, ?_⟩, rfl, rfl⟩
        intro a ha
        have hmem : n.getD a 0 ∈ n := getD_mem _ _ _ (by rw [hl]; exact ha)
        apply Nat.pos_of_ne_zero
        intro h0
        apply h2
        rw [List.any_eq_true]
        exact ⟨_, hmem, by simp; exact h0⟩

omit [FieldAttrs] in
/-- no entry of `shape[:-1]` is 1 when every geometric axis has at least two entries -/
theorem shape_no_one (d : Nat) (n : Nat → Nat) (k : Nat) (shape : List Nat)
    (hshape : shape = tab d n ++ (if 1 < k then [k] else [])) (hn : ∀ a, a < d → 2 ≤ n a) :
    ∀ x ∈ shape.dropLast, x ≠ 1 := by
  intro x hx
  rw [hshape] at hx
  have hx' : x ∈ tab d n := by
    split at hx
    · rwa [List.dropLast_concat] at hx
    · rw [List.append_nil] at hx; exact (List.dropLast_sublist _).subset hx
  obtain ⟨a, ha, rfl⟩ := mem_tab _ _ _ hx'
  have := hn a ha; omega

end
end DFV.C17
