import DFV.Lemmas.C02Shape
/-! C02 helper lemmas, part 16: acceptance as an equivalence — a specification is accepted exactly
when it is well formed (`Leaf.WF`, `dictWF`). -/
namespace DFV.C02
open DFV DFV.Mesh

variable {V : Type} [Inhabited V]

/-- WELL-FORMED leaf specification on mesh `m` for `nv` components, stated on the inputs alone:
a number for a scalar field (or the number zero), an array of the cells' shape for a scalar field or
one whose last axis is `nv` and which NumPy can broadcast to `(*n, nv)`, a function returning `nv`
numbers at every cell centre, a field with `nv` components and the same dimension names whose region
contains the mesh's. -/
def Leaf.WF (isZero : V → Bool) (l : Leaf V) (m : Mesh) (nv : Nat) : Prop :=
  match l with
  | .bad => False
  | .scalar v => nv ≤ 1 ∨ isZero v = true
  | .arr a => (nv = 1 ∧ a.shape = m.n) ∨ (a.shape.getLast? = some nv ∧ bcastOk (m.n ++ [nv]) a.shape = true)
  | .func f => ∀ i, inRange m.n i = true → (f (m.centre i)).length = nv
  | .field src => src.mesh.region.containsReg m.region = true ∧ src.nvdim = nv ∧
      m.region.dims = src.mesh.region.dims

theorem asLeaf_ok_of_wf (isZero : V → Bool) (l : Leaf V) (m : Mesh) (nv : Nat) (h : Leaf.WF isZero l m nv) :
    ∃ a, asLeaf isZero l m nv = .ok a := by
  cases l with
  | bad => exact absurd h id
  | scalar v =>
    have : ¬ (1 < nv ∧ isZero v = false) := by
      rintro ⟨h1, h2⟩
      rcases h with h | h
      · omega
      · simp [h] at h2
    simp only [asLeaf, this, if_false]
    exact ⟨_, rfl⟩
  | arr a =>
    simp only [asLeaf]
    by_cases h1 : nv = 1 ∧ a.shape = m.n
    · exact ⟨_, by rw [if_pos h1]⟩
    · rcases h with h | ⟨h2, h3⟩
      · exact absurd h h1
      · rw [if_neg h1]
        have : ¬ (a.shape.getLast? ≠ some nv) := by simp [h2]
        rw [if_neg this]
        simp only [bcast, h3, if_true]
        exact ⟨_, rfl⟩
  | func f =>
    simp only [asLeaf]
    apply funcLoop_ok
    intro p hp
    unfold Mesh.iter at hp
    rw [zip_map_self, List.mem_map] at hp
    obtain ⟨i, hi, rfl⟩ := hp
    exact h i ((mem_indicesCode _ _).mp hi)
  | field src =>
    obtain ⟨h1, h2, h3⟩ := h
    simp only [asLeaf, h1, h2, h3, Bool.not_true, Bool.false_eq_true, if_false, ne_eq, not_true_eq_false]
    exact ⟨_, rfl⟩

theorem wf_of_asLeaf_ok (isZero : V → Bool) (l : Leaf V) (m : Mesh) (nv : Nat) (a : NDA V)
    (h : asLeaf isZero l m nv = .ok a) : Leaf.WF isZero l m nv := by
  cases l with
  | bad => cases h
  | scalar v =>
    simp only [asLeaf] at h
    split at h
    · cases h
    · rename_i hn
      show nv ≤ 1 ∨ isZero v = true
      by_cases h1 : nv ≤ 1
      · exact Or.inl h1
      · right
        cases hz : isZero v
        · exact absurd ⟨by omega, hz⟩ hn
        · rfl
  | arr arr =>
    simp only [asLeaf] at h
    split at h
    · rename_i h1; exact Or.inl h1
    · split at h
      · cases h
      · rename_i h2
        right
        refine ⟨by simpa using h2, ?_⟩
        unfold bcast at h
        split at h
        · assumption
        · cases h
  | func f =>
    simp only [asLeaf] at h
    intro i hi
    have := funcLoop_len f nv _ _ _ h (i, m.centre i) (by
      unfold Mesh.iter
      rw [zip_map_self, List.mem_map]
      exact ⟨i, (mem_indicesCode _ _).mpr hi, rfl⟩)
    exact this
  | field src =>
    simp only [asLeaf] at h
    split at h
    · cases h
    · rename_i h1
      split at h
      · cases h
      · rename_i h2
        split at h
        · cases h
        · rename_i h3
          exact ⟨by simpa using h1, by simpa using h2, by simpa using h3⟩

/-- the errors of a malformed leaf -/
theorem asLeaf_err_of_not_wf (isZero : V → Bool) (l : Leaf V) (m : Mesh) (nv : Nat)
    (h : ¬ Leaf.WF isZero l m nv) : ∃ e, asLeaf isZero l m nv = .error e := by
  cases hr : asLeaf isZero l m nv with
  | ok a => exact absurd (wf_of_asLeaf_ok isZero l m nv a hr) h
  | error e => exact ⟨e, rfl⟩

end DFV.C02
