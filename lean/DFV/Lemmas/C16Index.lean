import DFV.Lemmas.Index
import DFV.Model.C16
/-! C16 helper lemmas, part 1: C-order flattening of an axis-reversed array is the
first-index-fastest flattening (all ranks, all shapes), with and without a trailing
component axis; the `(2,1,0)` / `(2,1,0,3)` transposes of `Field.to_vtk` and `_from_vtk`. -/
namespace DFV.C16
open DFV

/-! ## index level, every rank -/

theorem flatC_append_one (ms js : List Nat) (n i : Nat) (hl : js.length = ms.length) :
    flatC (ms ++ [n]) (js ++ [i]) = flatC ms js * n + i := by
  induction ms generalizing js with
  | nil =>
    cases js with
    | nil => simp [flatC, natProd]
    | cons _ _ => simp at hl
  | cons m ms ih =>
    cases js with
    | nil => simp at hl
    | cons j js =>
      simp only [List.cons_append, flatC, natProd_append, natProd]
      rw [ih js (by simpa using hl)]
      ring

theorem flatC_reverse (ns is : List Nat) (hl : is.length = ns.length) :
    flatC ns.reverse is.reverse = flatF ns is := by
  induction ns generalizing is with
  | nil => cases is <;> simp_all [flatC, flatF]
  | cons n ns ih =>
    cases is with
    | nil => simp at hl
    | cons i is =>
      simp only [List.reverse_cons]
      rw [flatC_append_one _ _ _ _ (by simpa using hl), ih is (by simpa using hl)]
      simp only [flatF]
      ring

theorem flatC_reverse_comp (ns is : List Nat) (m c : Nat) (hl : is.length = ns.length) :
    flatC (ns.reverse ++ [m]) (is.reverse ++ [c]) = flatF ns is * m + c := by
  rw [flatC_append_one _ _ _ _ (by simpa using hl), flatC_reverse ns is hl]

theorem unflatC_reverse (ns : List Nat) (k : Nat) (hk : k < natProd ns) :
    unflatC ns.reverse k = (unflatF ns k).reverse := by
  have h := reverse_unflatC ns.reverse k (by rw [natProd_reverse]; exact hk)
  rw [List.reverse_reverse] at h
  rw [← h, List.reverse_reverse]

theorem unflatC_append_one (ms : List Nat) (n k : Nat) (hk : k < natProd ms * n) :
    unflatC (ms ++ [n]) k = unflatC ms (k / n) ++ [k % n] := by
  induction ms generalizing k with
  | nil =>
    simp only [natProd, Nat.one_mul] at hk
    simp [unflatC, natProd, Nat.mod_eq_of_lt hk]
  | cons m ms ih =>
    simp only [List.cons_append, unflatC, natProd_append, natProd, Nat.mul_one]
    have hn : 0 < n := by
      rcases Nat.eq_zero_or_pos n with h | h
      · subst h; simp at hk
      · exact h
    have hP : 0 < natProd ms := by
      rcases Nat.eq_zero_or_pos (natProd ms) with h | h
      · simp [natProd, h] at hk
      · exact h
    rw [ih (k % (natProd ms * n)) (Nat.mod_lt _ (Nat.mul_pos hP hn))]
    have h1 : k % (natProd ms * n) / n = k / n % natProd ms := Nat.mod_mul_left_div_self k n (natProd ms)
    have h2 : k % (natProd ms * n) % n = k % n := Nat.mod_mul_left_mod k (natProd ms) n
    have h3 : k / (natProd ms * n) = k / n / natProd ms := by
      rw [Nat.div_div_eq_div_mul, Nat.mul_comm]
    rw [h1, h2, h3]

/-! ## arrays -/

theorem toList_length {α} (a : NDA α) : a.toList.length = natProd a.shape := by
  simp [NDA.toList, indicesC]

theorem toList_eq_tab {α} (a : NDA α) : a.toList = tab (natProd a.shape) fun p => a.get (unflatC a.shape p) := by
  simp [NDA.toList, indicesC, tab, List.map_map, Function.comp_def]

theorem toList_getD {α} (a : NDA α) (p : Nat) (d : α) (h : p < natProd a.shape) :
    a.toList.getD p d = a.get (unflatC a.shape p) := by
  simp [NDA.toList, indicesC, List.getD_eq_getElem?_getD, h]

theorem ofList_get {α} (sh : List Nat) (xs : List α) (d : α) (i : List Nat) :
    (NDA.ofList sh xs d).get i = xs.getD (flatC sh i) d := by
  simp [NDA.ofList, NDA.ofArray, List.getD_eq_getElem?_getD]

theorem transpose_get4 {α} (a : NDA α) (h : a.shape.length = 4) (p q r s : Nat) :
    (a.transpose [2, 1, 0, 3]).get [p, q, r, s] = a.get [r, q, p, s] := by
  simp [NDA.transpose, NDA.transpose.indexOfNat, h, tab, List.range, List.range.loop]

theorem transpose_shape4 {α} (a : NDA α) (n0 n1 n2 n3 : Nat) (h : a.shape = [n0, n1, n2, n3]) :
    (a.transpose [2, 1, 0, 3]).shape = [n2, n1, n0, n3] := by
  simp [NDA.transpose, h]

theorem transpose_get3 {α} (a : NDA α) (h : a.shape.length = 3) (p q r : Nat) :
    (a.transpose [2, 1, 0]).get [p, q, r] = a.get [r, q, p] := by
  simp [NDA.transpose, NDA.transpose.indexOfNat, h, tab, List.range, List.range.loop]

theorem transpose_shape3 {α} (a : NDA α) (n0 n1 n2 : Nat) (h : a.shape = [n0, n1, n2]) :
    (a.transpose [2, 1, 0]).shape = [n2, n1, n0] := by
  simp [NDA.transpose, h]

theorem unflatF3 (nx ny nz t : Nat) : unflatF [nx, ny, nz] t = [t % nx, t / nx % ny, t / nx / ny % nz] := by
  simp [unflatF]

/-- `a.transpose((2,1,0)).reshape(-1)` lists the entries first index fastest -/
theorem flat3_eq {α} (a : NDA α) (nx ny nz : Nat) (hs : a.shape = [nx, ny, nz]) :
    flat3 a = tab (natProd [nx, ny, nz]) fun t => a.get (unflatF [nx, ny, nz] t) := by
  unfold flat3
  rw [toList_eq_tab, transpose_shape3 a nx ny nz hs]
  have hp : natProd [nz, ny, nx] = natProd [nx, ny, nz] := by
    have := natProd_reverse [nx, ny, nz]
    simpa using this
  rw [hp]
  apply tab_congr
  intro t ht
  have h := unflatC_reverse [nx, ny, nz] t ht
  simp only [List.reverse_cons, List.reverse_nil, List.nil_append, List.cons_append] at h
  rw [h, unflatF3]
  simp only [List.reverse_cons, List.reverse_nil, List.nil_append, List.cons_append]
  rw [transpose_get3 _ (by simp [hs])]

/-- `a.transpose((2,1,0,3)).reshape(-1)`: cells first index fastest, components innermost -/
theorem flat4_eq {α} (a : NDA α) (nx ny nz nv : Nat) (hs : a.shape = [nx, ny, nz, nv]) :
    flat4 a = tab (natProd [nx, ny, nz] * nv) fun q => a.get (unflatF [nx, ny, nz] (q / nv) ++ [q % nv]) := by
  unfold flat4
  rw [toList_eq_tab, transpose_shape4 a nx ny nz nv hs]
  have hp : natProd [nz, ny, nx] = natProd [nx, ny, nz] := by
    have := natProd_reverse [nx, ny, nz]
    simpa using this
  have hp4 : natProd [nz, ny, nx, nv] = natProd [nx, ny, nz] * nv := by
    have := natProd_append [nz, ny, nx] [nv]
    simp only [List.cons_append, List.nil_append] at this
    rw [this, hp]; simp [natProd]
  rw [hp4]
  apply tab_congr
  intro q hq
  have hnv : 0 < nv := by
    rcases Nat.eq_zero_or_pos nv with h | h
    · subst h; simp at hq
    · exact h
  have hq' : q < natProd [nz, ny, nx] * nv := by rw [hp]; exact hq
  have h1 := unflatC_append_one [nz, ny, nx] nv q hq'
  simp only [List.cons_append, List.nil_append] at h1
  have ht : q / nv < natProd [nx, ny, nz] := by
    rw [Nat.div_lt_iff_lt_mul hnv]; exact hq
  have h2 := unflatC_reverse [nx, ny, nz] (q / nv) ht
  simp only [List.reverse_cons, List.reverse_nil, List.nil_append, List.cons_append] at h2
  rw [h1, h2, unflatF3]
  simp only [List.reverse_cons, List.reverse_nil, List.nil_append, List.cons_append]
  rw [transpose_get4 _ (by simp [hs])]

theorem flat3_length {α} (a : NDA α) (nx ny nz : Nat) (hs : a.shape = [nx, ny, nz]) :
    (flat3 a).length = natProd [nx, ny, nz] := by
  rw [flat3_eq a nx ny nz hs]; simp

theorem flat4_length {α} (a : NDA α) (nx ny nz nv : Nat) (hs : a.shape = [nx, ny, nz, nv]) :
    (flat4 a).length = natProd [nx, ny, nz] * nv := by
  rw [flat4_eq a nx ny nz nv hs]; simp

theorem flat3_getD {α} (a : NDA α) (nx ny nz : Nat) (hs : a.shape = [nx, ny, nz]) (idx : List Nat)
    (hi : inRange [nx, ny, nz] idx = true) (d : α) :
    (flat3 a).getD (flatF [nx, ny, nz] idx) d = a.get idx := by
  rw [flat3_eq a nx ny nz hs, getD_tab _ _ _ _ (flatF_lt _ _ hi), unflatF_flatF _ _ hi]

theorem flat4_getD {α} (a : NDA α) (nx ny nz nv : Nat) (hs : a.shape = [nx, ny, nz, nv]) (idx : List Nat)
    (hi : inRange [nx, ny, nz] idx = true) (c : Nat) (hc : c < nv) (d : α) :
    (flat4 a).getD (flatF [nx, ny, nz] idx * nv + c) d = a.get (idx ++ [c]) := by
  have hlt := flatF_lt _ _ hi
  have hq : flatF [nx, ny, nz] idx * nv + c < natProd [nx, ny, nz] * nv := by
    calc flatF [nx, ny, nz] idx * nv + c < flatF [nx, ny, nz] idx * nv + nv := by omega
      _ = (flatF [nx, ny, nz] idx + 1) * nv := by ring
      _ ≤ natProd [nx, ny, nz] * nv := Nat.mul_le_mul_right _ hlt
  rw [flat4_eq a nx ny nz nv hs, getD_tab _ _ _ _ hq]
  have h1 : (flatF [nx, ny, nz] idx * nv + c) / nv = flatF [nx, ny, nz] idx := by
    rw [Nat.add_comm, Nat.add_mul_div_right _ _ (by omega), Nat.div_eq_of_lt hc, Nat.zero_add]
  have h2 : (flatF [nx, ny, nz] idx * nv + c) % nv = c := by
    rw [Nat.add_comm, Nat.add_mul_mod_self_right, Nat.mod_eq_of_lt hc]
  rw [h1, h2, unflatF_flatF _ _ hi]

end DFV.C16
