import DFV.Lemmas.C02Near2
/-! C02 helper lemmas, part 18: WHICH source cell a target cell reads when the value is a field —
the floor index of the target centre in the source mesh, ties (a centre on a source face) to the
upper cell; closed forms for a coarser, a finer and a shifted source mesh. -/
namespace DFV.C02
open DFV DFV.Mesh

/-- a coordinate inside the half-open cell `k` of axis `a` has index `k` -/
theorem indexAx_eq_of_bounds (sm : Mesh) (a : Nat) (x : Rat) (k : Nat) (hk : k < sm.nAt a)
    (hr : sm.region.lo a < sm.region.hi a)
    (h1 : sm.region.lo a + (k : Rat) * sm.cellAt a ≤ x)
    (h2 : x < sm.region.lo a + ((k : Rat) + 1) * sm.cellAt a) : sm.indexAx a x = k := by
  have hn : 0 < sm.nAt a := by omega
  have hc := cell_pos sm a hn hr
  have hcov := cells_cover sm a hn
  unfold Region.edge at hcov
  have hk0 : (0 : Rat) ≤ (k : Rat) := by exact_mod_cast Nat.zero_le k
  have hk1 : (k : Rat) + 1 ≤ (sm.nAt a : Rat) := by exact_mod_cast hk
  have hlo : sm.region.lo a ≤ x := by nlinarith
  have hhi : x < sm.region.hi a := by nlinarith
  obtain ⟨_, j2, j3⟩ := indexAx_contains sm a x hn hr hlo hhi.le
  have j3' : x < sm.region.lo a + ((sm.indexAx a x : Rat) + 1) * sm.cellAt a := by
    rcases j3 with j3 | ⟨_, j4⟩
    · exact j3
    · exact absurd j4 (ne_of_lt hhi)
  have a1 : sm.indexAx a x < k + 1 := nat_lt_of_mul_lt _ k _ hc (by linarith)
  have a2 : k < sm.indexAx a x + 1 := nat_lt_of_mul_lt k _ _ hc (by linarith)
  omega

/-- TIE: a coordinate that lies exactly on the face between the source cells `k − 1` and `k` is
given to the UPPER cell `k` -/
theorem indexAx_face (sm : Mesh) (a : Nat) (k : Nat) (hk : k < sm.nAt a)
    (hr : sm.region.lo a < sm.region.hi a) :
    sm.indexAx a (sm.region.lo a + (k : Rat) * sm.cellAt a) = k := by
  have hc := cell_pos sm a (by omega) hr
  apply indexAx_eq_of_bounds sm a _ k hk hr (le_refl _)
  nlinarith

/-- COARSER source (same edge, `r` target cells per source cell): target cell `i` reads source
cell `i / r` -/
theorem indexAx_coarser (sm m : Mesh) (a : Nat) (r i : Nat) (hr0 : 0 < r)
    (hlo : sm.region.lo a = m.region.lo a) (hhi : sm.region.hi a = m.region.hi a)
    (hn : m.nAt a = r * sm.nAt a) (hi : i < m.nAt a) (hr : m.region.lo a < m.region.hi a) :
    sm.indexAx a (m.centreAx a (i : Nat)) = i / r := by
  have hN : 0 < sm.nAt a := by
    rcases Nat.eq_zero_or_pos (sm.nAt a) with h | h
    · rw [h] at hn; omega
    · exact h
  have hkN : i / r < sm.nAt a := by
    rw [Nat.div_lt_iff_lt_mul hr0]; rw [hn] at hi; rw [Nat.mul_comm]; exact hi
  have hcm := cell_pos m a (by omega) hr
  have hcell : sm.cellAt a = (r : Rat) * m.cellAt a := by
    unfold cellAt Region.edge
    rw [hlo, hhi, hn]
    have h1 : (sm.nAt a : Rat) ≠ 0 := by exact_mod_cast (Nat.pos_iff_ne_zero.mp hN)
    have h2 : (r : Rat) ≠ 0 := by exact_mod_cast (Nat.pos_iff_ne_zero.mp hr0)
    push_cast
    field_simp
  have hdm := Nat.div_add_mod i r
  have hml := Nat.mod_lt i hr0
  have e1 : (i : Rat) = (r : Rat) * ((i / r : Nat) : Rat) + ((i % r : Nat) : Rat) := by exact_mod_cast hdm.symm
  have e2 : ((i % r : Nat) : Rat) + 1 ≤ (r : Rat) := by exact_mod_cast hml
  have e3 : (0 : Rat) ≤ ((i % r : Nat) : Rat) := by exact_mod_cast Nat.zero_le _
  apply indexAx_eq_of_bounds sm a _ (i / r) hkN (by rw [hlo, hhi]; exact hr)
  · unfold centreAx
    rw [hlo, hcell]
    have : ((i : Nat) : Int) = (i : Int) := rfl
    push_cast
    rw [e1]
    nlinarith
  · unfold centreAx
    rw [hlo, hcell]
    push_cast
    rw [e1]
    nlinarith

/-- FINER source (same edge, `r` source cells per target cell): target cell `i` reads source cell
`r·i + r/2` — the middle one for odd `r`; for even `r` the centre lies on a source face and the
upper neighbour is read -/
theorem indexAx_finer (sm m : Mesh) (a : Nat) (r i : Nat) (hr0 : 0 < r)
    (hlo : sm.region.lo a = m.region.lo a) (hhi : sm.region.hi a = m.region.hi a)
    (hn : sm.nAt a = r * m.nAt a) (hi : i < m.nAt a) (hr : m.region.lo a < m.region.hi a) :
    sm.indexAx a (m.centreAx a (i : Nat)) = r * i + r / 2 := by
  have hkN : r * i + r / 2 < sm.nAt a := by
    rw [hn]
    have : r / 2 < r := Nat.div_lt_self hr0 (by omega)
    calc r * i + r / 2 < r * i + r := by omega
      _ = r * (i + 1) := by ring
      _ ≤ r * m.nAt a := Nat.mul_le_mul_left r (by omega)
  have hcs := cell_pos sm a (by omega) (by rw [hlo, hhi]; exact hr)
  have hcell : m.cellAt a = (r : Rat) * sm.cellAt a := by
    unfold cellAt Region.edge
    rw [hlo, hhi, hn]
    have h1 : (m.nAt a : Rat) ≠ 0 := by
      have : 0 < m.nAt a := by omega
      exact_mod_cast (Nat.pos_iff_ne_zero.mp this)
    have h2 : (r : Rat) ≠ 0 := by exact_mod_cast (Nat.pos_iff_ne_zero.mp hr0)
    push_cast
    field_simp
  have hdm := Nat.div_add_mod r 2
  have hml := Nat.mod_lt r (by omega : 0 < 2)
  have e1 : (r : Rat) = 2 * ((r / 2 : Nat) : Rat) + ((r % 2 : Nat) : Rat) := by exact_mod_cast hdm.symm
  have e2 : ((r % 2 : Nat) : Rat) + 1 ≤ 2 := by exact_mod_cast hml
  have e3 : (0 : Rat) ≤ ((r % 2 : Nat) : Rat) := by exact_mod_cast Nat.zero_le _
  apply indexAx_eq_of_bounds sm a _ _ hkN (by rw [hlo, hhi]; exact hr)
  · unfold centreAx
    rw [hlo, hcell]
    push_cast
    have : ((i : Rat) + 1 / 2) * ((r : Rat) * sm.cellAt a) =
        ((r : Rat) * (i : Rat) + (r : Rat) / 2) * sm.cellAt a := by ring
    rw [this]
    have h5 : (r : Rat) * (i : Rat) + ((r / 2 : Nat) : Rat) ≤ (r : Rat) * (i : Rat) + (r : Rat) / 2 := by linarith
    nlinarith
  · unfold centreAx
    rw [hlo, hcell]
    push_cast
    have : ((i : Rat) + 1 / 2) * ((r : Rat) * sm.cellAt a) =
        ((r : Rat) * (i : Rat) + (r : Rat) / 2) * sm.cellAt a := by ring
    rw [this]
    have h5 : (r : Rat) * (i : Rat) + (r : Rat) / 2 < (r : Rat) * (i : Rat) + ((r / 2 : Nat) : Rat) + 1 := by linarith
    nlinarith

/-- SHIFTED source (same cell size, the target's lower corner `s` source cells above the
source's): target cell `i` reads source cell `s + i` -/
theorem indexAx_shifted (sm m : Mesh) (a : Nat) (s i : Nat)
    (hcell : sm.cellAt a = m.cellAt a) (hlo : m.region.lo a = sm.region.lo a + (s : Rat) * sm.cellAt a)
    (hk : s + i < sm.nAt a) (hr : sm.region.lo a < sm.region.hi a) :
    sm.indexAx a (m.centreAx a (i : Nat)) = s + i := by
  have hc := cell_pos sm a (by omega) hr
  apply indexAx_eq_of_bounds sm a _ _ hk hr
  · unfold centreAx
    rw [hlo, ← hcell]
    push_cast
    nlinarith
  · unfold centreAx
    rw [hlo, ← hcell]
    push_cast
    nlinarith

/-- the source cell selected for target cell `i`, as a closed formula: per axis the floor index
(`Mesh.indexAx`) of the target cell's centre in the source mesh -/
theorem nearestIdx_eq_indexAx (sm m : Mesh) (hm : m.Inv) (hs : sm.Inv) (hnd : sm.ndim = m.ndim)
    (hin : ∀ a, a < m.ndim → sm.region.lo a ≤ m.region.lo a ∧ m.region.hi a ≤ sm.region.hi a)
    (i : List Nat) (hi : inRange m.n i = true) :
    nearestIdx sm m i = tab m.ndim fun a => sm.indexAx a (m.centreAx a (i.getD a 0 : Nat)) := by
  have h1 := nearestIdx_eq_point2index sm m hm hs hnd hin i hi
  obtain ⟨hil, hib⟩ := (inRange_iff m.n i).mp hi
  have hlen : m.n.length = m.ndim := hm.2.1
  have hcen : ∀ a, a < m.ndim → (m.centre i).getD a 0 = m.centreAx a (i.getD a 0 : Nat) := by
    intro a ha; simp only [centre]; rw [getD_tab _ _ _ _ ha]
  rw [point2index_exact sm (m.centre i) (by simp [centre, hnd])] at h1
  · injection h1 with h1
    rw [← h1, hnd]
    apply tab_congr
    intro a ha
    rw [hcen a ha]
  · intro a ha
    have ha' : a < m.ndim := by omega
    have hia : i.getD a 0 < m.nAt a := hib a (by omega)
    have hr := inv_lo_lt_hi m hm a ha'
    have hb := centreAx_in m a _ hia hr
    rw [hcen a ha']
    exact ⟨le_trans (hin a ha').1 hb.1, le_trans hb.2 (hin a ha').2⟩

end DFV.C02
