import DFV.Lemmas.C02Slices
/-! C02 helper lemmas, part 4: `mesh[subregion]` (= `Mesh(region=subregion, cell=mesh.cell)`)
for a subregion that is a union of cells. -/
namespace DFV.C02
open DFV DFV.Mesh

theorem foldl_min_nonneg (xs : List Rat) (x : Rat) (hx : 0 ≤ x) (h : ∀ y ∈ xs, 0 ≤ y) : 0 ≤ xs.foldl min x := by
  induction xs generalizing x with
  | nil => simpa
  | cons y ys ih =>
    simp only [List.foldl_cons]
    exact ih _ (le_min hx (h y (by simp))) fun z hz => h z (by simp [hz])

theorem listMin_nonneg (xs : List Rat) (h : ∀ y ∈ xs, 0 ≤ y) : 0 ≤ listMin xs := by
  cases xs with
  | nil => simp [listMin]
  | cons x xs => exact foldl_min_nonneg xs x (h x (by simp)) fun y hy => h y (by simp [hy])

theorem toLower_empty : "".toLower = "" := by
  unfold String.toLower
  exact String.map_eq_empty.mpr rfl

theorem mem_tab {α} (n : Nat) (f : Nat → α) (y : α) : y ∈ tab n f ↔ ∃ a, a < n ∧ f a = y := by
  simp [tab]

theorem cell_getD (m : Mesh) (a : Nat) (ha : a < m.ndim) : m.cell.getD a 0 = m.cellAt a := by
  unfold Mesh.cell; exact getD_tab _ _ _ _ ha

theorem roundHalfEven_nat (k : Nat) : roundHalfEven (k : Rat) = (k : Int) := by
  unfold roundHalfEven
  have hf : ((k : Rat)).floor = (k : Int) := by
    apply rat_floor_eq <;> push_cast <;> linarith
  rw [hf]
  have : (k : Rat) - ((k : Int) : Rat) = 0 := by push_cast; ring
  rw [this]
  norm_num

theorem remainder_mul (k : Nat) (c : Rat) (hc : 0 < c) : remainder ((k : Rat) * c) c = 0 := by
  unfold remainder
  have : (k : Rat) * c / c = (k : Rat) := by field_simp
  rw [this]
  have hf : ((k : Rat)).floor = (k : Int) := by
    apply rat_floor_eq <;> push_cast <;> linarith
  rw [hf]; push_cast; ring

/-- the submesh of a union of cells: same region, `k2 - k1` cells per axis -/
theorem mkCell_aligned (m : Mesh) (hm : m.Inv) (r : Region) (k1 k2 : Nat → Nat) (h : AlignedSub m r k1 k2) :
    Mesh.mkCell? r m.cell = .ok { region := r, n := tab m.ndim fun a => k2 a - k1 a, bc := "", subs := [] } := by
  have hpos : ∀ a, a < m.ndim → 0 < m.cellAt a := fun a ha =>
    cell_pos m a (inv_n_pos m hm a ha) (inv_lo_lt_hi m hm a ha)
  have hedge : ∀ a, a < m.ndim → r.edge a = ((k2 a - k1 a : Nat) : Rat) * m.cellAt a := by
    intro a ha
    obtain ⟨h1, _, h3, h4⟩ := h.box a ha
    unfold Region.edge
    rw [h3, h4, Nat.cast_sub (by omega)]; ring
  unfold Mesh.mkCell?
  have c1 : m.cell.length = r.ndim := by rw [h.ndim]; simp [Mesh.cell]
  have c2 : (m.cell.any fun c => decide (c ≤ 0)) = false := by
    rw [List.any_eq_false]
    intro y hy
    obtain ⟨a, ha, rfl⟩ := (mem_tab _ _ _).mp hy
    simpa using hpos a ha
  have c3 : r.containsPt (tab r.ndim fun a => r.lo a + m.cell.getD a 0) = true := by
    apply containsPt_exact _ _ (by simp)
    intro a ha
    rw [h.ndim] at ha
    rw [getD_tab _ _ _ _ (by rw [h.ndim]; exact ha), cell_getD m a ha]
    have hp := hpos a ha
    have he := hedge a ha
    unfold Region.edge at he
    obtain ⟨h1, _, _, _⟩ := h.box a ha
    have : (1 : Rat) ≤ ((k2 a - k1 a : Nat) : Rat) := by exact_mod_cast (by omega : 1 ≤ k2 a - k1 a)
    constructor
    · linarith
    · nlinarith
  have htol : 0 ≤ listMin m.cell / 1000 := by
    apply div_nonneg _ (by norm_num)
    apply listMin_nonneg
    intro y hy
    obtain ⟨a, ha, rfl⟩ := (mem_tab _ _ _).mp hy
    exact (hpos a ha).le
  have c4 : allLt r.ndim (fun a => !notDivisible (r.edge a) (m.cell.getD a 0) (listMin m.cell / 1000)) = true := by
    rw [allLt_iff]
    intro a ha
    rw [h.ndim] at ha
    rw [cell_getD m a ha, hedge a ha]
    unfold notDivisible
    rw [remainder_mul _ _ (hpos a ha)]
    have : ¬ (listMin m.cell / 1000 < 0) := not_lt.mpr htol
    simp [this]
  have c5 : bcOk r.dims ("".toLower) = true := by
    rw [toLower_empty]; simp [bcOk]
  have c4b : allLt r.ndim (fun a => decide (1 ≤ (roundHalfEven (r.edge a / m.cell.getD a 0)).toNat)) = true := by
    rw [allLt_iff]
    intro a ha
    rw [h.ndim] at ha
    rw [cell_getD m a ha, hedge a ha]
    have hp := hpos a ha
    have : ((k2 a - k1 a : Nat) : Rat) * m.cellAt a / m.cellAt a = ((k2 a - k1 a : Nat) : Rat) := by field_simp
    rw [this, roundHalfEven_nat]
    obtain ⟨h1, _, _, _⟩ := h.box a ha
    simp only [Int.toNat_natCast, decide_eq_true_eq]
    omega
  simp only [c1, ne_eq, not_true_eq_false, if_false, c2, Bool.false_eq_true, c3, Bool.not_true, c4, c4b, c5]
  congr 1
  have : (tab r.ndim fun a => (roundHalfEven (r.edge a / m.cell.getD a 0)).toNat) = tab m.ndim fun a => k2 a - k1 a := by
    rw [h.ndim]
    apply tab_congr
    intro a ha
    rw [cell_getD m a ha, hedge a ha]
    have hp := hpos a ha
    have : ((k2 a - k1 a : Nat) : Rat) * m.cellAt a / m.cellAt a = ((k2 a - k1 a : Nat) : Rat) := by field_simp
    rw [this, roundHalfEven_nat]; simp
  rw [this, toLower_empty]

/-- geometry of that submesh: its cells are the mesh's cells `k1 + j` -/
theorem sub_centre (m : Mesh) (hm : m.Inv) (r : Region) (k1 k2 : Nat → Nat) (h : AlignedSub m r k1 k2)
    (il : List Nat) :
    (Mesh.mk r (tab m.ndim fun a => k2 a - k1 a) "" []).centre il =
      m.centre (tab m.ndim fun a => k1 a + il.getD a 0) := by
  unfold Mesh.centre
  have hnd : (Mesh.mk r (tab m.ndim fun a => k2 a - k1 a) "" []).ndim = m.ndim := h.ndim
  rw [hnd]
  apply tab_congr
  intro a ha
  rw [getD_tab _ _ _ _ ha]
  obtain ⟨h1, _, h3, h4⟩ := h.box a ha
  have hp := cell_pos m a (inv_n_pos m hm a ha) (inv_lo_lt_hi m hm a ha)
  unfold centreAx cellAt nAt Region.edge
  simp only
  rw [getD_tab _ _ _ _ ha, h3, h4]
  have hk : ((k2 a - k1 a : Nat) : Rat) = (k2 a : Rat) - (k1 a : Rat) := Nat.cast_sub (by omega)
  have hk0 : (k2 a : Rat) - (k1 a : Rat) ≠ 0 := by
    have : (k1 a : Rat) < (k2 a : Rat) := by exact_mod_cast h1
    linarith
  rw [hk]
  have hc : m.cellAt a = (m.region.hi a - m.region.lo a) / (m.n.getD a 0 : Rat) := rfl
  rw [← hc]
  push_cast
  field_simp
  ring

end DFV.C02
