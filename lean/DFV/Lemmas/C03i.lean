import DFV.Lemmas.C03h
/-! C03 helper lemmas, part i: the induction over expression trees. -/
namespace DFV.C03
open DFV

/-- side condition on programs: an array-like standing directly under `<<` or `.angle()`
is not mesh-shaped (the constructor would read it as per-cell scalar values, not as a
constant vector) -/
def operandOk (n : List Nat) : Expr → Prop
  | .opd od => OpdLiftOk n od
  | _ => True

def LiftOk (n : List Nat) : Expr → Prop
  | .leaf _ => True
  | .opd _ => True
  | .un _ e => LiftOk n e
  | .bin b l r => LiftOk n l ∧ LiftOk n r ∧ ((b = .shl ∨ b = .angle) → operandOk n l ∧ operandOk n r)

/-- only an operand literal evaluates to a non-field -/
theorem evalF_raw (env : Env) (e : Expr) (od : Opd) (h : evalF env e = .ok (.raw od)) : e = .opd od := by
  cases e with
  | leaf k =>
    simp only [evalF] at h
    split at h
    · injection h with h; cases h
    · cases h
  | opd o =>
    simp only [evalF] at h
    injection h with h; injection h with h; rw [h]
  | un u e =>
    simp only [evalF] at h
    split at h
    · cases h
    · cases h
    · split at h
      · cases h
      · injection h with h; cases h
  | bin b l r =>
    simp only [evalF] at h
    split at h
    · cases h
    · split at h
      · cases h
      · obtain ⟨g, hg⟩ := applyBin_fld _ _ _ _ _ h
        cases hg

theorem operandOk_raw (env : Env) (n : List Nat) (l : Expr) (vl : Val) (h : evalF env l = .ok vl)
    (hok : operandOk n l) : ∀ od, vl = .raw od → OpdLiftOk n od := by
  intro od hv
  subst hv
  rw [evalF_raw env l od h] at hok
  exact hok

/-- the induction over programs: cell values, validity and mesh of every sub-result -/
theorem eval_good (env : Env) (n : List Nat) (hwf : ∀ f ∈ env.fields, CFwf f ∧ f.mesh.n = n) :
    ∀ (e : Expr) (v : Val), LiftOk n e → evalF env e = .ok v →
      ValCells n v (evalCell env e) (validCell env e) ∧
      (∀ g, v = .fld g → ∃ k f, e.firstLeaf = some k ∧ env.fields[k]? = some f ∧ g.mesh = f.mesh) := by
  intro e
  induction e with
  | leaf k =>
    intro v _ h
    simp only [evalF] at h
    cases hk : env.fields[k]? with
    | none => simp [hk] at h
    | some f =>
      simp only [hk] at h
      injection h with h
      subst h
      obtain ⟨hw, hn⟩ := hwf f (List.mem_of_getElem? hk)
      refine ⟨⟨hw, hn, fun i _ => ?_⟩, ?_⟩
      · simp only [evalCell, validCell, hk]
        exact ⟨trivial, trivial⟩
      · intro g hg
        injection hg with hg
        subst hg
        exact ⟨k, f, rfl, hk, rfl⟩
  | opd o =>
    intro v _ h
    simp only [evalF] at h
    injection h with h
    subst h
    refine ⟨⟨fun i => by simp only [evalCell], fun i => by simp only [validCell]⟩, ?_⟩
    intro g hg; cases hg
  | un u e ih =>
    intro v hok h
    simp only [evalF] at h
    cases he : evalF env e with
    | error er => simp [he] at h
    | ok ve =>
      cases ve with
      | raw o => simp [he] at h
      | fld f =>
        simp only [he] at h
        cases hu : applyUn env u f with
        | error er => simp [hu] at h
        | ok g =>
          simp only [hu] at h
          injection h with h
          subst h
          obtain ⟨hf, hmesh⟩ := ih (.fld f) hok he
          have hf' : Cells n f (evalCell env e) (validCell env e) := hf
          obtain ⟨hc, hm⟩ := applyUn_cells env u n f g _ _ hf' hu
          refine ⟨hc.congr (fun i => by simp only [evalCell]) (fun i => by simp only [validCell]), ?_⟩
          intro g' hg'
          injection hg' with hg'
          subst hg'
          obtain ⟨k, f0, hk, hf0, hm0⟩ := hmesh f rfl
          exact ⟨k, f0, hk, hf0, by rw [hm, hm0]⟩
  | bin b l r ihl ihr =>
    intro v hok h
    simp only [evalF] at h
    obtain ⟨hokl, hokr, hokb⟩ := hok
    cases hel : evalF env l with
    | error er => simp [hel] at h
    | ok vl =>
      simp only [hel] at h
      cases her : evalF env r with
      | error er => simp [her] at h
      | ok vr =>
        simp only [her] at h
        obtain ⟨g, hg⟩ := applyBin_fld _ _ _ _ _ h
        subst hg
        obtain ⟨hl, hml⟩ := ihl vl hokl hel
        obtain ⟨hr, hmr⟩ := ihr vr hokr her
        obtain ⟨hc, self, hself, hm⟩ := applyBin_cells env b n vl vr g _ _ _ _ hl hr
          (fun hb => ⟨operandOk_raw env n l vl hel (hokb hb).1, operandOk_raw env n r vr her (hokb hb).2⟩) h
        refine ⟨hc.congr (fun i => by simp only [evalCell]) (fun i => by simp only [validCell]), ?_⟩
        intro g' hg'
        injection hg' with hg'
        subst hg'
        cases vl with
        | fld f =>
          simp only [meshOf] at hself
          injection hself with hself
          subst hself
          obtain ⟨k, f0, hk, hf0, hm0⟩ := hml f rfl
          exact ⟨k, f0, by simp only [Expr.firstLeaf, hk], hf0, by rw [hm, hm0]⟩
        | raw o =>
          cases vr with
          | raw o2 => simp [meshOf] at hself
          | fld f =>
            simp only [meshOf] at hself
            injection hself with hself
            subst hself
            obtain ⟨k, f0, hk, hf0, hm0⟩ := hmr f rfl
            have hlo : l = .opd o := evalF_raw env l o hel
            refine ⟨k, f0, ?_, hf0, by rw [hm, hm0]⟩
            rw [hlo]
            simp only [Expr.firstLeaf, hk]

end DFV.C03
