import DFV.Lemmas.C04Shift
/-!
Helper lemmas for C04, fifth part: `Field.diff` as a total description (`diffData`), the name lookup
of `diffDir`, and small list facts used by the field-level theorems.
-/
set_option linter.unusedSimpArgs false
namespace DFV.C04
open DFV

/-- `Field.diff` is: order check, axis check, then the record with the array replaced -/
theorem diff_eq (f : Fld) (ax order : Nat) (r : Bool) :
    diff f ax order r
      = if order ≠ 1 ∧ order ≠ 2 then .error .notImpl
        else if f.mesh.ndim ≤ ax then .error .value
        else .ok { f with data := diffData f ax order r } := rfl

theorem indexOf?_go_some (x : String) : ∀ (xs : List String) (k0 k : Nat), indexOf?.go x xs k0 = some k →
    k0 ≤ k ∧ k - k0 < xs.length ∧ xs.getD (k - k0) "" = x := by
  intro xs
  induction xs with
  | nil => intro k0 k h; simp [indexOf?.go] at h
  | cons y ys ih =>
    intro k0 k h
    simp only [indexOf?.go] at h
    by_cases hy : y = x
    · simp only [hy, if_true, Option.some.injEq] at h
      subst h
      simp [hy]
    · simp only [hy, if_false] at h
      obtain ⟨h1, h2, h3⟩ := ih (k0 + 1) k h
      refine ⟨by omega, by simp only [List.length_cons]; omega, ?_⟩
      rw [show k - k0 = (k - (k0 + 1)) + 1 by omega, List.getD_cons_succ]
      exact h3

theorem indexOf?_go_none (x : String) : ∀ (xs : List String) (k0 : Nat), indexOf?.go x xs k0 = none ↔ x ∉ xs := by
  intro xs
  induction xs with
  | nil => intro k0; simp [indexOf?.go]
  | cons y ys ih =>
    intro k0
    simp only [indexOf?.go]
    by_cases hy : y = x
    · simp [hy]
    · simp only [hy, if_false, ih (k0 + 1), List.mem_cons, not_or]
      constructor
      · intro h; exact ⟨fun e => hy e.symm, h⟩
      · intro h; exact h.2

theorem indexOf?_some (xs : List String) (x : String) (k : Nat) (h : indexOf? xs x = some k) :
    k < xs.length ∧ xs.getD k "" = x := by
  have := indexOf?_go_some x xs 0 k h
  simpa using this.2

theorem indexOf?_none (xs : List String) (x : String) : indexOf? xs x = none ↔ x ∉ xs :=
  indexOf?_go_none x xs 0

theorem tab_one {α} (f : Nat → α) : tab 1 f = [f 0] := by simp [tab]

theorem tab_map {α β} (n : Nat) (f : Nat → α) (g : α → β) : (tab n f).map g = tab n fun k => g (f k) := by
  simp [tab, List.map_map, Function.comp_def]

theorem periodicBc_empty (d : String) : periodicBc "" d = false := by
  simp [periodicBc]

theorem periodicBc_word (bc d : String) (h : bc = "neumann" ∨ bc = "dirichlet") : periodicBc bc d = false := by
  unfold periodicBc
  rcases h with h | h <;> rw [h] <;> simp

/-- the window of a cell that counts as valid contains the cell -/
theorem win_pos (p r : Bool) (cells : List (Rat × Bool)) (j : Nat) (hj : j < cells.length)
    (hv : effOk r (okOf cells) j = true) :
    winB p (effOk r (okOf cells)) cells.length j
      < winB p (effOk r (okOf cells)) cells.length j + winA p (effOk r (okOf cells)) cells.length j := by
  have := winA_pos p (effOk r (okOf cells)) cells.length j hj hv
  omega

theorem fldOk_pos (f : Fld) (ax : Nat) (r : Bool) (i : List Nat) (hi : i.getD ax 0 < f.mesh.nAt ax)
    (hv : fldOk f r i = true) : fldB f ax r i < fldB f ax r i + fldA f ax r i := by
  have : 0 < fldA f ax r i := by
    unfold fldA
    apply winA_pos _ _ _ _ hi
    unfold effOk NDA.line
    beta_reduce
    rw [setAt_getD_self]; exact hv
  omega

/-! ### concrete fields for the non-vacuity examples -/

/-- 6×2 cells on [0,6]×[0,2], PERIODIC along `x` (`bc = "x"`), two components, cell (3,0) invalid: on the
line `y = 0` the ring run is cells 4,5,0,1,2 and crosses the seam.  Component 0 holds `((i+1) mod 6)²`
(a quadratic along the window 5,0,1,2 of cell (1,0)), component 1 holds `3·i + j`. -/
def exP : Fld :=
  { mesh := { region := { pmin := [0, 0], pmax := [6, 2], dims := ["x", "y"], units := ["m", "m"],
                          tol := 1/1000000000000 },
              n := [6, 2], bc := "x", subs := [] },
    nvdim := 2,
    data := ⟨[6, 2], fun i => [(((i.getD 0 0 + 1) % 6 : Nat) : Rat) ^ 2, 3 * ((i.getD 0 0 : Nat) : Rat) + ((i.getD 1 0 : Nat) : Rat)]⟩,
    valid := ⟨[6, 2], fun i => decide (i ≠ [3, 0])⟩, vdims := some ["a", "b"], vmap := [("a", "x")],
    unit := some "T" }

/-- a second field on the mesh of `exF` with the same validity and component count -/
def exG : Fld :=
  { exF with data := ⟨[5, 2], fun i => [((i.getD 1 0 : Nat) : Rat) - 2, ((i.getD 0 0 : Nat) : Rat) * ((i.getD 1 0 : Nat) : Rat)]⟩ }

/-- the ring of known finding D17 -/
def exRing : List (Rat × Bool) := [(7, true), (1, true), (4, true), (9, false), (2, true)]

end DFV.C04
