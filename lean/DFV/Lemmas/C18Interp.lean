import DFV.Model.C18
import DFV.Lemmas.Tab
import Mathlib.Tactic.Ring
import Mathlib.Tactic.Linarith
import Mathlib.Tactic.FieldSimp
/-! Interval search and multilinear interpolation lemmas for C18. -/
namespace DFV.C18

/-! ## interval search -/

theorem findIdx_le (g : Nat → Rat) (x : Rat) (m : Nat) : findIdx g x m ≤ m := by
  induction m with
  | zero => simp [findIdx]
  | succ k ih =>
    unfold findIdx
    split
    · exact Nat.le_refl _
    · omega

theorem findIdx_spec (g : Nat → Rat) (x : Rat) (m : Nat) : findIdx g x m = 0 ∨ g (findIdx g x m) ≤ x := by
  induction m with
  | zero => left; simp [findIdx]
  | succ k ih =>
    unfold findIdx
    split
    · right; assumption
    · exact ih

/-- the found node is not above `x` (given the lower bound test passed) -/
theorem findIdx_lower (g : Nat → Rat) (x : Rat) (m : Nat) (h0 : g 0 ≤ x) : g (findIdx g x m) ≤ x := by
  rcases findIdx_spec g x m with h | h
  · rw [h]; exact h0
  · exact h

/-- every node after the found one (up to `m`) is above `x` -/
theorem findIdx_upper (g : Nat → Rat) (x : Rat) (m j : Nat) (h1 : findIdx g x m < j) (h2 : j ≤ m) : x < g j := by
  induction m with
  | zero => omega
  | succ k ih =>
    unfold findIdx at h1
    split at h1
    · omega
    · rename_i hn
      by_cases hj : j = k + 1
      · subst hj; exact lt_of_not_ge hn
      · exact ih h1 (by omega)

theorem findIdx_ge (g : Nat → Rat) (x : Rat) (m j : Nat) (hj : j ≤ m) (h : g j ≤ x) : j ≤ findIdx g x m := by
  by_contra hc
  have := findIdx_upper g x m j (by omega) hj
  linarith

/-- characterisation: the found index is the unique `i ≤ m` with `g i ≤ x` (or `i = 0`) and
all later nodes up to `m` above `x` -/
theorem findIdx_eq (g : Nat → Rat) (x : Rat) (m i : Nat) (hi : i ≤ m) (hl : g i ≤ x ∨ i = 0)
    (hu : ∀ j, i < j → j ≤ m → x < g j) : findIdx g x m = i := by
  have h1 : findIdx g x m ≤ m := findIdx_le g x m
  rcases Nat.lt_trichotomy (findIdx g x m) i with h | h | h
  · rcases hl with hl | hl
    · have := findIdx_upper g x m i h hi
      linarith
    · omega
  · exact h
  · have hx := hu _ h h1
    rcases findIdx_spec g x m with h0 | h0
    · omega
    · linarith

/-- the bracket `[g i, g (i+1)]` found for an in-bounds `x` contains `x` -/
theorem findIdx_bracket (g : Nat → Rat) (x : Rat) (m : Nat) (hb : inBounds g m x = true) :
    g (findIdx g x m) ≤ x ∧ x ≤ g (findIdx g x m + 1) := by
  unfold inBounds at hb
  simp only [Bool.and_eq_true, decide_eq_true_eq] at hb
  refine ⟨findIdx_lower g x m hb.1, ?_⟩
  by_cases h : findIdx g x m = m
  · rw [h]; exact hb.2
  · have := findIdx_le g x m
    exact le_of_lt (findIdx_upper g x m _ (Nat.lt_succ_self _) (by omega))

/-- a grid with increasing steps up to node `m + 1` is increasing -/
theorem mono_of_step (g : Nat → Rat) (m : Nat) (hs : ∀ j, j ≤ m → g j < g (j + 1)) (i j : Nat)
    (hij : i < j) (hj : j ≤ m + 1) : g i < g j := by
  induction j with
  | zero => omega
  | succ k ih =>
    by_cases hk : i = k
    · subst hk; exact hs i (by omega)
    · exact lt_trans (ih (by omega) (by omega)) (hs k (by omega))

/-- at a node (other than the last) the search returns that node -/
theorem findIdx_at_node (g : Nat → Rat) (m : Nat) (hs : ∀ j, j ≤ m → g j < g (j + 1)) (i : Nat) (hi : i ≤ m) :
    findIdx g (g i) m = i := by
  apply findIdx_eq _ _ _ _ hi (Or.inl (le_refl _))
  intro k hk hkm
  exact mono_of_step g m hs i k hk (by omega)

/-! ## multilinear interpolation -/

theorem locate_some (g0 g1 g2 : Nat → Rat) (m0 m1 m2 : Nat) (p : V3)
    (h0 : inBounds g0 m0 p.x = true) (h1 : inBounds g1 m1 p.y = true) (h2 : inBounds g2 m2 p.z = true) :
    locate g0 g1 g2 m0 m1 m2 p =
      some ⟨findIdx g0 p.x m0, findIdx g1 p.y m1, findIdx g2 p.z m2,
            frac g0 (findIdx g0 p.x m0) p.x, frac g1 (findIdx g1 p.y m1) p.y, frac g2 (findIdx g2 p.z m2) p.z⟩ := by
  unfold locate
  simp [h0, h1, h2]

theorem locate_none (g0 g1 g2 : Nat → Rat) (m0 m1 m2 : Nat) (p : V3)
    (h : inBounds g0 m0 p.x = false ∨ inBounds g1 m1 p.y = false ∨ inBounds g2 m2 p.z = false) :
    locate g0 g1 g2 m0 m1 m2 p = none := by
  unfold locate
  rcases h with h | h | h <;> simp [h]

/-- eight-corner sum of samples of an affine function of the node coordinates -/
theorem sum8_affine (α β0 β1 β2 a0 b0 a1 b1 a2 b2 x0 x1 x2 : Rat) (W : Nat → Nat → Nat → Rat)
    (hd0 : b0 - a0 ≠ 0) (hd1 : b1 - a1 ≠ 0) (hd2 : b2 - a2 ≠ 0)
    (hW : ∀ e0 e1 e2, e0 ≤ 1 → e1 ≤ 1 → e2 ≤ 1 →
      W e0 e1 e2 = α + β0 * (if e0 = 0 then a0 else b0) + β1 * (if e1 = 0 then a1 else b1)
        + β2 * (if e2 = 0 then a2 else b2)) :
    sum8 ((x0 - a0) / (b0 - a0)) ((x1 - a1) / (b1 - a1)) ((x2 - a2) / (b2 - a2)) W
      = α + β0 * x0 + β1 * x1 + β2 * x2 := by
  unfold sum8 wgt
  rw [hW 0 0 0 (by omega) (by omega) (by omega), hW 0 0 1 (by omega) (by omega) (by omega),
      hW 0 1 0 (by omega) (by omega) (by omega), hW 0 1 1 (by omega) (by omega) (by omega),
      hW 1 0 0 (by omega) (by omega) (by omega), hW 1 0 1 (by omega) (by omega) (by omega),
      hW 1 1 0 (by omega) (by omega) (by omega), hW 1 1 1 (by omega) (by omega) (by omega)]
  simp only [if_true, if_false, Nat.one_ne_zero]
  field_simp
  ring

/-- the eight weights sum to one -/
theorem sum8_const (t0 t1 t2 c : Rat) : sum8 t0 t1 t2 (fun _ _ _ => c) = c := by
  unfold sum8 wgt
  simp only [if_true, if_false, Nat.one_ne_zero]
  ring

theorem sum8_linear (t0 t1 t2 a b : Rat) (V W : Nat → Nat → Nat → Rat) :
    sum8 t0 t1 t2 (fun i j k => a * V i j k + b * W i j k) = a * sum8 t0 t1 t2 V + b * sum8 t0 t1 t2 W := by
  unfold sum8
  ring

theorem sum8_congr (t0 t1 t2 : Rat) (V W : Nat → Nat → Nat → Rat)
    (h : ∀ e0 e1 e2, e0 ≤ 1 → e1 ≤ 1 → e2 ≤ 1 → V e0 e1 e2 = W e0 e1 e2) : sum8 t0 t1 t2 V = sum8 t0 t1 t2 W := by
  unfold sum8
  rw [h 0 0 0 (by omega) (by omega) (by omega), h 0 0 1 (by omega) (by omega) (by omega),
      h 0 1 0 (by omega) (by omega) (by omega), h 0 1 1 (by omega) (by omega) (by omega),
      h 1 0 0 (by omega) (by omega) (by omega), h 1 0 1 (by omega) (by omega) (by omega),
      h 1 1 0 (by omega) (by omega) (by omega), h 1 1 1 (by omega) (by omega) (by omega)]

/-- all three normalised distances zero: the sum is the first corner -/
theorem sum8_zero (W : Nat → Nat → Nat → Rat) : sum8 0 0 0 W = W 0 0 0 := by
  unfold sum8 wgt
  simp only [if_true, if_false, Nat.one_ne_zero]
  ring

theorem interpAt_linear (a b : Rat) (V W : Nat → Nat → Nat → Rat) (l : Option Loc) :
    interpAt (fun i j k => a * V i j k + b * W i j k) l = a * interpAt V l + b * interpAt W l := by
  cases l with
  | none => simp [interpAt]
  | some l => simp only [interpAt]; exact sum8_linear _ _ _ a b _ _

/-- three-term version used for the vector rotation -/
theorem interpAt_linear3 (a b c : Rat) (U V W : Nat → Nat → Nat → Rat) (l : Option Loc) :
    interpAt (fun i j k => a * U i j k + b * V i j k + c * W i j k) l
      = a * interpAt U l + b * interpAt V l + c * interpAt W l := by
  cases l with
  | none => simp [interpAt]
  | some l => simp only [interpAt, sum8]; ring

theorem interpAt_congr (V W : Nat → Nat → Nat → Rat) (l : Loc)
    (h : ∀ e0 e1 e2, e0 ≤ 1 → e1 ≤ 1 → e2 ≤ 1 →
      V (l.i0 + e0) (l.i1 + e1) (l.i2 + e2) = W (l.i0 + e0) (l.i1 + e1) (l.i2 + e2)) :
    interpAt V (some l) = interpAt W (some l) := by
  simp only [interpAt]
  exact sum8_congr _ _ _ _ _ h

end DFV.C18
